/-
  C15 — Unauthenticated clients cannot reach connection-layer services.
  Property theorems only.  Model: PV/Model/AuthServer.lean; helpers: PV/Model/AuthServerLemmas.lean.

  In the model the server application's connection-layer callbacks (check_channel_request,
  check_port_forward_request, check_global_request, …) and channel creation live in the *delegated*
  connection-layer handlers (`Act.delegate true`).  "The application is not consulted and no channel is
  created" is therefore: the step is not delegated, its callback list is empty and `chans` is unchanged.
-/
import PV.Model.AuthServerLemmas
import PV.Model.AuthServerGrant
namespace PV.Props.C15
open PV PV.Wire PV.AuthServer PV.Generated.AuthTables

variable (sc : SigScheme) (sid : Bytes)

/-- what a refusal looks like on the wire: REQUEST_FAILURE, CHANNEL_OPEN_FAILURE (administratively prohibited,
for the channel number the client chose), UNIMPLEMENTED for a type nobody handles — or silence with the
connection dropped -/
def Refused (e : Env) (s' : St) (o : Out) : Prop :=
  o.sent = [msgRequestFailure] ∨ (∃ n, o.sent = [msgOpenFailure n]) ∨ o.sent = [msgUnimplemented e.seqno] ∨
  (o.sent = [] ∧ s'.active = false)

/-- the acts the loop can choose for a connection-layer message from an unauthenticated client -/
private def ConnAct (e : Env) (a : Act) : Prop :=
  a = .reply [] [msgRequestFailure] ∨ (∃ n, a = .reply [] [msgOpenFailure n]) ∨
  a = .reply [] [msgUnimplemented e.seqno] ∨ ∃ x, a = .die [] [] x

private theorem classify_conn_table :
    ∀ g : Bool, ∀ p ∈ List.range' 80 21,
      (classify g p = .transport ∧ HIGHEST_USERAUTH_MESSAGE_ID < p) ∨ classify g p = .channel ∨
      (classify g p = .unhandled ∧ p ≠ 3) := by decide

/-- for every connection-layer type 80..100, with or without a GSS sub-handler installed: the type is served by
the transport table (and is above the userauth range), by the channel table, or by nobody — never by an
authentication handler, and never treated as IGNORE/DEBUG/DISCONNECT.  (Re-proved against the handler tables
generated from the source.) -/
theorem classify_conn (g : Bool) (p : Nat) (h1 : 80 ≤ p) (h2 : p ≤ 100) :
    (classify g p = .transport ∧ HIGHEST_USERAUTH_MESSAGE_ID < p) ∨ classify g p = .channel ∨
    (classify g p = .unhandled ∧ p ≠ 3) :=
  classify_conn_table g p (by rw [List.mem_range'_1]; omega)

private theorem ensureAuthedReply_conn (e : Env) (p : Nat) (b : Bytes) : ConnAct e (ensureAuthedReply p b) := by
  unfold ensureAuthedReply ConnAct
  split
  · exact Or.inl rfl
  · split
    · split
      · exact Or.inr (Or.inr (Or.inr ⟨_, rfl⟩))
      · exact Or.inr (Or.inl ⟨_, rfl⟩)
    · exact Or.inr (Or.inr (Or.inr ⟨_, rfl⟩))

private theorem dispatch_conn (s : St) (hna : s.isAuthenticated = false) (hc : s.chans = 0)
    (p : Nat) (h1 : 80 ≤ p) (h2 : p ≤ 100) (b : Bytes) (e : Env) :
    (dispatch sc sid s p b e).1 = s ∧ ConnAct e (dispatch sc sid s p b e).2 := by
  unfold dispatch
  rcases classify_conn s.gssSub p h1 h2 with ⟨h, hp⟩ | h | ⟨h, hp⟩
  · rw [h]
    simp only
    have : ¬ p ≤ HIGHEST_USERAUTH_MESSAGE_ID := by omega
    rw [if_neg this]
    split
    · exact ⟨rfl, by simp [ConnAct]⟩
    · rw [hna]
      simp only [Bool.false_eq_true, if_false]
      exact ⟨trivial, ensureAuthedReply_conn e p b⟩
  · rw [h]
    simp only [hc, if_true]
    exact ⟨trivial, by simp [ConnAct]⟩
  · rw [h]
    simp only
    split
    · exact ⟨rfl, by simp [ConnAct]⟩
    · first
        | (rw [if_neg hp]; exact ⟨rfl, by simp [ConnAct]⟩)
        | exact ⟨rfl, by simp [ConnAct]⟩

private theorem decideAct_conn (s : St) (hna : s.isAuthenticated = false) (hc : s.chans = 0)
    (p : Nat) (h1 : 80 ≤ p) (h2 : p ≤ 100) (b : Bytes) (e : Env) :
    ((decideAct sc sid s p b e).1 = s ∨ (decideAct sc sid s p b e).1 = { s with expected := [] }) ∧
    ConnAct e (decideAct sc sid s p b e).2 := by
  unfold decideAct
  rcases classify_conn s.gssSub p h1 h2 with ⟨h, _⟩ | h | ⟨h, _⟩
  all_goals
    rw [h]
    simp only
    split
    · split
      · exact ⟨Or.inl rfl, by simp [ConnAct]⟩
      · split
        · exact ⟨Or.inl rfl, by simp [ConnAct]⟩
        · have := dispatch_conn sc sid { s with expected := [] } (by simpa [St.isAuthenticated] using hna) hc
            p h1 h2 b e
          exact ⟨Or.inr this.1, this.2⟩
    · have := dispatch_conn sc sid s hna hc p h1 h2 b e
      exact ⟨Or.inl this.1, this.2⟩

private theorem perform_conn (s : St) (e : Env) (a : Act) (h : ConnAct e a) :
    (perform s e a).2.cbs = [] ∧ (perform s e a).2.delegated = false ∧ (perform s e a).1.chans = s.chans ∧
    (perform s e a).1.authenticated = s.authenticated ∧ (perform s e a).1.failCount = s.failCount ∧
    Refused e (perform s e a).1 (perform s e a).2 := by
  rcases h with rfl | ⟨n, rfl⟩ | rfl | ⟨x, rfl⟩
  · simp [perform, Refused]
  · exact ⟨rfl, rfl, rfl, rfl, rfl, Or.inr (Or.inl ⟨n, rfl⟩)⟩
  · simp [perform, Refused]
  · simp [perform, Refused]

/-- **Gate, one message.** A server that is active, not authenticated and has no channel receives ANY
connection-layer message (type 80..100) with ANY payload, whatever the application would answer (`e`), in any
dispatch state (expected-packet filter set or not, GSS sub-handler installed or not):
no callback is consulted, no connection-layer handler runs, no channel is created, the authentication state
and the failure counter are untouched, and the reply is a refusal (REQUEST_FAILURE, CHANNEL_OPEN_FAILURE
administratively-prohibited, UNIMPLEMENTED) or the connection is dropped. -/
theorem unauthenticated_conn_message_refused (s : St) (hact : s.active = true) (hna : s.authenticated = false)
    (hc : s.chans = 0) (p : Nat) (h1 : 80 ≤ p) (h2 : p ≤ 100) (b : Bytes) (e : Env) :
    (step sc sid s p b e).2.cbs = [] ∧ (step sc sid s p b e).2.delegated = false ∧
    (step sc sid s p b e).1.chans = 0 ∧ (step sc sid s p b e).1.authenticated = false ∧
    (step sc sid s p b e).1.failCount = s.failCount ∧
    Refused e (step sc sid s p b e).1 (step sc sid s p b e).2 := by
  rw [step_active sc sid s p b e hact]
  have hna' : s.isAuthenticated = false := by simp [St.isAuthenticated, hna]
  obtain ⟨hs1, ha⟩ := decideAct_conn sc sid s hna' hc p h1 h2 b e
  have hp := perform_conn (decideAct sc sid s p b e).1 e _ ha
  rcases hs1 with hs1 | hs1
  all_goals
    rw [hs1] at hp ⊢
    refine ⟨hp.1, hp.2.1, ?_, ?_, ?_, hp.2.2.2.2.2⟩
    · rw [hp.2.2.1]; exact hc
    · rw [hp.2.2.2.1]; exact hna
    · rw [hp.2.2.2.2.1]

/-- channel traffic (types 93..100: window adjust, data, extended data, eof, close, request, success, failure)
for any channel number is not delivered anywhere before authentication: the connection is dropped without a
reply -/
theorem unauthenticated_channel_traffic_dropped (s : St) (hact : s.active = true) (hna : s.authenticated = false)
    (hc : s.chans = 0) (hexp : s.expected = []) (p : Nat) (hp : p ∈ channelTable) (b : Bytes) (e : Env) :
    (step sc sid s p b e).2.cbs = [] ∧ (step sc sid s p b e).2.sent = [] ∧
    (step sc sid s p b e).2.delegated = false ∧ (step sc sid s p b e).1.active = false := by
  have hcl : ∀ g, classify g p = .channel := by
    intro g
    have : ∀ q ∈ channelTable, classify g q = .channel := by cases g <;> decide
    exact this p hp
  simp [step, hact, decideAct, hcl, hexp, dispatch, hc, perform]

/-! ## all histories -/

/-- the authentication flag is never taken back -/
private theorem step_auth_mono (s : St) (p : Nat) (b : Bytes) (e : Env) (h : s.authenticated = true) :
    (step sc sid s p b e).1.authenticated = true := by
  by_cases ha : s.active = true
  · rw [step_active sc sid s p b e ha]
    have d := step_dec sc sid s p b e
    have h1 : (decideAct sc sid s p b e).1.authenticated = true := by rw [d.2.2.1]; exact h
    generalize (decideAct sc sid s p b e).1 = s1 at h1
    generalize (decideAct sc sid s p b e).2 = a
    cases a <;> simp only [perform, sar_authenticated, h1, Bool.true_or]
    · split <;> simp [sar_authenticated, h1]
  · simp only [Bool.not_eq_true] at ha
    rw [step_inactive sc sid s p b e ha]; exact h

/-- channels appear only through a connection-layer handler, and those run only for an authenticated client
or when a channel already exists -/
private theorem step_chans (s : St) (p : Nat) (b : Bytes) (e : Env)
    (hinv : s.authenticated = false → s.chans = 0) :
    (step sc sid s p b e).1.authenticated = false → (step sc sid s p b e).1.chans = 0 := by
  intro hna'
  have hna : s.authenticated = false := by
    cases h : s.authenticated
    · rfl
    · rw [step_auth_mono sc sid s p b e h] at hna'; cases hna'
  have hc := hinv hna
  by_cases ha : s.active = true
  · rw [step_active sc sid s p b e ha]
    have d := step_dec sc sid s p b e
    have hdel : (decideAct sc sid s p b e).2 ≠ .delegate true := by
      intro h
      rcases d.2.2.2.2.2.2.2 h with h1 | h1
      · rw [hna] at h1; cases h1
      · exact h1 hc
    generalize (decideAct sc sid s p b e).2 = a at hdel
    have hs1 : (decideAct sc sid s p b e).1.chans = 0 := by rw [d.2.2.2.1]; exact hc
    generalize (decideAct sc sid s p b e).1 = s1 at hs1
    cases a with
    | delegate c =>
      cases c
      · simpa [perform] using hs1
      · exact absurd rfl hdel
    | _ => rw [perform_chans_unauth _ e _ (by intro c h; cases h)]; exact hs1
  · simp only [Bool.not_eq_true] at ha
    rw [step_inactive sc sid s p b e ha]; exact hc

/-- **No channel before authentication, over every history from a fresh connection:** whatever the client
sends and whatever the application answers, as long as nobody is authenticated the transport has no channel. -/
theorem no_channel_before_authentication (ms : List Msg) :
    (run sc sid init ms).1.authenticated = false → (run sc sid init ms).1.chans = 0 := by
  suffices h : ∀ s : St, (s.authenticated = false → s.chans = 0) →
      (run sc sid s ms).1.authenticated = false → (run sc sid s ms).1.chans = 0 from
    h init (by intro _; rfl)
  induction ms with
  | nil => intro s hs; simpa [run] using hs
  | cons m ms ih =>
    intro s hs
    simp only [run]
    exact ih _ (step_chans sc sid s m.ptype m.payload m.env hs)

/-- **Gate, every point of every history.** After ANY history on a fresh connection (failed attempts, partial
successes, probes, garbage …) that has not authenticated the client, the next connection-layer message
(type 80..100, any payload) consults no callback, runs no connection-layer handler, creates no channel, and is
refused or the connection is dropped. -/
theorem gate_holds_at_every_point (ms : List Msg) (m : Msg) (h1 : 80 ≤ m.ptype) (h2 : m.ptype ≤ 100)
    (hna : (run sc sid init ms).1.isAuthenticated = false) :
    let s := (run sc sid init ms).1
    (step sc sid s m.ptype m.payload m.env).2.cbs = [] ∧
    (step sc sid s m.ptype m.payload m.env).2.delegated = false ∧
    (step sc sid s m.ptype m.payload m.env).1.chans = s.chans ∧
    (step sc sid s m.ptype m.payload m.env).1.isAuthenticated = false ∧
    ((step sc sid s m.ptype m.payload m.env).2.sent = [] ∨
      Refused m.env (step sc sid s m.ptype m.payload m.env).1 (step sc sid s m.ptype m.payload m.env).2) := by
  intro s
  by_cases ha : s.active = true
  · have hauth : s.authenticated = false := by
      have : s.isAuthenticated = false := hna
      simpa [St.isAuthenticated, ha] using this
    have hc := no_channel_before_authentication sc sid ms hauth
    have := unauthenticated_conn_message_refused sc sid s ha hauth hc m.ptype h1 h2 m.payload m.env
    refine ⟨this.1, this.2.1, ?_, ?_, Or.inr this.2.2.2.2.2⟩
    · rw [this.2.2.1]; exact hc.symm
    · simp [St.isAuthenticated, this.2.2.2.1]
  · simp only [Bool.not_eq_true] at ha
    rw [step_inactive sc sid s m.ptype m.payload m.env ha]
    exact ⟨rfl, rfl, rfl, by simp [St.isAuthenticated, ha], Or.inl rfl⟩

/-! ## the gate opens only on the application's AUTH_SUCCESSFUL -/

/-- a partially successful verdict (multi-factor servers) is answered USERAUTH_FAILURE with the partial-success
flag and leaves the connection unauthenticated - for every method, since all of them end in `_send_auth_result` -/
theorem partial_verdict_reply (s : St) (e : Env) (u : Option Bytes) (h : s.failCount < 10) :
    sendAuthResult s e u AUTH_PARTIALLY_SUCCESSFUL =
      (s, { cbs := [Call.mk (.allowed u) none], sent := [msgFailure e.allowed true] }) := by
  have : ¬ s.failCount ≥ FAIL_CAP := by unfold FAIL_CAP; omega
  simp [sendAuthResult, AUTH_PARTIALLY_SUCCESSFUL, AUTH_SUCCESSFUL, this]

/-- **Verdicts are passed through.** Whatever the method (password, publickey, keyboard-interactive, info
response, GSS-API, none): a step in which no credential callback returned AUTH_SUCCESSFUL - partial success and
failure alike - does not authenticate, so the gate of `unauthenticated_conn_message_refused` stays shut. -/
theorem no_approval_keeps_gate_shut (s : St) (p : Nat) (b : Bytes) (e : Env) (h0 : s.authenticated = false)
    (hno : ∀ c ∈ (step sc sid s p b e).2.cbs, ¬ c.approves) :
    (step sc sid s p b e).1.authenticated = false ∧ msgSuccess ∉ (step sc sid s p b e).2.sent := by
  have hns : msgSuccess ∉ (step sc sid s p b e).2.sent := by
    intro h
    by_cases ha : s.active = true
    · rw [step_active sc sid s p b e ha] at h hno
      obtain ⟨c, hc, hap⟩ := perform_success _ e _ (step_dec sc sid s p b e).2.2.2.2.2.2.1
        (decideAct_grant sc sid s p b e) h
      exact hno c hc hap
    · simp only [Bool.not_eq_true] at ha
      rw [step_inactive sc sid s p b e ha] at h; simp at h
  refine ⟨?_, hns⟩
  cases hx : (step sc sid s p b e).1.authenticated
  · rfl
  · exfalso
    apply hns
    by_cases ha : s.active = true
    · rw [step_active sc sid s p b e ha] at hx ⊢
      have d := step_dec sc sid s p b e
      exact perform_authenticated _ e _ (by rw [d.2.2.1]; exact h0) hx
    · simp only [Bool.not_eq_true] at ha
      rw [step_inactive sc sid s p b e ha] at hx; rw [h0] at hx; cases hx

/-- over every history from a fresh connection: as long as no callback has approved, nobody is authenticated and
no channel exists -/
theorem no_approval_no_access (ms : List Msg)
    (hno : ∀ o ∈ (run sc sid init ms).2, ∀ c ∈ o.cbs, ¬ c.approves) :
    (run sc sid init ms).1.authenticated = false ∧ (run sc sid init ms).1.chans = 0 := by
  have ha : (run sc sid init ms).1.authenticated = false := by
    suffices h : ∀ s : St, s.authenticated = false → (∀ o ∈ (run sc sid s ms).2, ∀ c ∈ o.cbs, ¬ c.approves) →
        (run sc sid s ms).1.authenticated = false from h init rfl hno
    clear hno
    induction ms with
    | nil => intro s h _; simpa [run] using h
    | cons m ms ih =>
      intro s h0 hno
      simp only [run] at hno ⊢
      have h1 := (no_approval_keeps_gate_shut sc sid s m.ptype m.payload m.env h0
        (fun c hc => hno _ List.mem_cons_self c hc)).1
      exact ih _ h1 (fun o ho => hno o (List.mem_cons_of_mem _ ho))
  exact ⟨ha, no_channel_before_authentication sc sid ms ha⟩

/-! ## non-vacuity -/

private def toySc : SigScheme := { verify := fun k m s => s == k ++ m }
private def chanOpen : Bytes := encStr (str "session") ++ be32 7 ++ be32 1000 ++ be32 1000
private def reqAlice : Bytes := encStr (str "alice") ++ encStr sSshConnection ++ encStr sPassword ++ [0] ++ encStr (str "pw")

-- before any authentication: CHANNEL_OPEN is refused for the client's channel number 7
example : (step toySc [] init 90 chanOpen {}).2.sent = [msgOpenFailure 7] ∧
    (step toySc [] init 90 chanOpen {}).2.cbs = [] := by decide +kernel
-- after a failed and a partially successful attempt the gate is still closed
example : let s := (run toySc [] init [⟨50, reqAlice, {}⟩, ⟨50, reqAlice, { rPassword := 1 }⟩]).1
    s.failCount = 1 ∧ s.isAuthenticated = false ∧ (step toySc [] s 80 [] {}).2.sent = [msgRequestFailure] := by
  decide +kernel
-- a validly signed publickey request that the application accepts as ONE factor only: partial, gate shut
example : let e : Env := { rPubkey := 1, keyCanon := some [7] }
    let req := encStr (str "alice") ++ encStr sSshConnection ++ encStr sPublickey ++ [1] ++ encStr (str "ssh-ed25519") ++
      encStr [7] ++ encStr ([7] ++ sessionBlob [] (str "alice") sSshConnection (str "ssh-ed25519") [7])
    (step toySc [] init 50 req e).2.sent = [msgFailure [] true] ∧
    (step toySc [] (step toySc [] init 50 req e).1 90 chanOpen {}).2.sent = [msgOpenFailure 7] := by decide +kernel
-- the hypotheses are not contradictory: once authenticated the same message is handed to the connection layer
example : let s := (run toySc [] init [⟨50, reqAlice, { rPassword := 0 }⟩]).1
    s.isAuthenticated = true ∧ (step toySc [] s 90 chanOpen { delegNewChans := 1 }).2.delegated = true ∧
    (step toySc [] s 90 chanOpen { delegNewChans := 1 }).1.chans = 1 := by decide +kernel
-- channel data for a channel the server never allocated: dropped
example : (step toySc [] init 94 (be32 0 ++ encStr [1, 2, 3]) {}).1.active = false := by decide +kernel

end PV.Props.C15
