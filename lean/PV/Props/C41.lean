/-
  C41 — Known-hosts lookup, save and reload agree and loading is idempotent.
  Property theorems only.  Model: PV/Model/HostKeys.lean (`load` as repaired by 8a3539b and 0e23192).
  HMAC-SHA1 is a parameter (`Prims.hmac`); every theorem holds for every such function.
-/
import PV.Model.HostKeys
namespace PV.Props.C41
open PV PV.HostKeys

/-! ## lookup / check: exactly the entries that list the name, first entry per key type -/

/-- a listed name matches the looked-up name literally, or as its hash -/
theorem nameMatches_iff (p : Prims) (h q : Name) :
    nameMatches p h q = true ↔ h = q ∨ ∃ salt mac s, h = .hashed salt mac ∧ q = .plain s ∧ p.hmac salt s = mac := by
  unfold nameMatches
  cases h with
  | plain a =>
    cases q with
    | plain b => simp
    | hashed s m => simp
  | hashed salt mac =>
    cases q with
    | plain s => simp; exact eq_comm
    | hashed s m => simp

theorem nameMatches_refl (p : Prims) (h : Name) : nameMatches p h h = true := by simp [nameMatches]

/-- a hashed name being looked up only matches itself -/
theorem nameMatches_hashed_query (p : Prims) (h : Name) (salt mac : Bytes) :
    nameMatches p h (.hashed salt mac) = true ↔ h = .hashed salt mac := by
  rw [nameMatches_iff]; simp

/-- **`lookup` returns exactly the entries that list the name (plain, or hashed form), in table order.** -/
theorem mem_lookup (p : Prims) (t : Table) (q : Name) (e : Entry) :
    e ∈ lookup p t q ↔ e ∈ t ∧ ∃ h ∈ e.names, nameMatches p h q = true := by
  simp [lookup, hostnameMatches]

theorem lookup_sublist (p : Prims) (t : Table) (q : Name) : (lookup p t q).Sublist t := List.filter_sublist

/-- **The first entry per key type takes effect.** -/
theorem subGet_eq_some (es : List Entry) (ty : String) (k : Key) :
    subGet es ty = some k ↔
      ∃ pre e post, es = pre ++ e :: post ∧ e.key = k ∧ e.key.type = ty ∧ ∀ e' ∈ pre, e'.key.type ≠ ty := by
  unfold subGet
  constructor
  · intro h
    cases hf : es.find? (fun e => e.key.type == ty) with
    | none => rw [hf] at h; cases h
    | some e =>
      rw [hf] at h
      simp only [Option.map_some, Option.some.injEq] at h
      obtain ⟨hp, pre, post, hes, hpre⟩ := List.find?_eq_some_iff_append.mp hf
      refine ⟨pre, e, post, hes, h, by simpa using hp, ?_⟩
      intro e' he'
      simpa using hpre e' he'
  · rintro ⟨pre, e, post, hes, hk, hty, hpre⟩
    have : es.find? (fun e => e.key.type == ty) = some e := by
      rw [List.find?_eq_some_iff_append]
      exact ⟨by simpa using hty, pre, post, hes, fun e' he' => by simpa using hpre e' he'⟩
    simp [this, hk]

theorem subGet_eq_none (es : List Entry) (ty : String) : subGet es ty = none ↔ ∀ e ∈ es, e.key.type ≠ ty := by
  simp [subGet]

/-- **`check(hostname, key)` is true exactly when the first entry of the key's type among the entries listing the
hostname holds that very key.** -/
theorem check_iff (p : Prims) (t : Table) (q : Name) (k : Key) :
    check p t q k = true ↔ subGet (lookup p t q) k.type = some k := by
  unfold check
  cases h : subGet (lookup p t q) k.type with
  | none => simp
  | some k' =>
    have hty : k'.type = k.type := by
      obtain ⟨_, e, _, _, he, hty, _⟩ := (subGet_eq_some _ _ _).mp h
      rw [← he]; exact hty
    simp only [beq_iff_eq, Option.some.injEq]
    constructor
    · intro hb
      cases k; cases k'; simp_all
    · intro hk; rw [hk]

/-- **The whole mapping API reports the effective keys only**: every pair of `items()` (hence every element of
`values()`, every `get`) is a key type of a matching entry together with the first entry's key of that type — never a
shadowed later key; there is one pair per matching entry (`len`, iteration, `keys()`). -/
theorem subItems_effective (es : List Entry) :
    (subItems es).length = es.length ∧ (subItems es).map (·.1) = subKeys es ∧
    ∀ x ∈ subItems es, ∃ k, x.2 = some k ∧ subGet es x.1 = some k ∧ k.type = x.1 := by
  refine ⟨by simp [subItems], by simp [subItems, subKeys], ?_⟩
  intro x hx
  simp only [subItems, List.mem_map] at hx
  obtain ⟨e, he, rfl⟩ := hx
  cases h : subGet es e.key.type with
  | none => exact absurd rfl ((subGet_eq_none es e.key.type).mp h e he)
  | some k =>
    refine ⟨k, rfl, rfl, ?_⟩
    obtain ⟨_, e', _, _, hk, hty, _⟩ := (subGet_eq_some es e.key.type k).mp h
    rw [← hk]; exact hty

/-! ## loading the same file again changes nothing -/

private theorem hasEntry_append (p : Prims) (t extra : Table) (h : Name) (k : Key) (hh : hasEntry p t h k = true) :
    hasEntry p (t ++ extra) h k = true := by
  simp only [hasEntry, List.any_append, Bool.or_eq_true] at *
  exact Or.inl hh

private theorem pruneLoop_all (p : Prims) (t : Table) (k : Key) (names : List Name)
    (h : ∀ x ∈ names, hasEntry p t x k = true) : pruneLoop p t k names names = [] := by
  induction names with
  | nil => rfl
  | cons x xs ih =>
    simp only [pruneLoop, h x (by simp), if_true, List.erase_cons_head]
    exact ih (fun y hy => h y (by simp [hy]))

private theorem pruneLoop_keeps (p : Prims) (t : Table) (k : Key) (hs cur : List Name) (x : Name)
    (hx : hasEntry p t x k = false) (hc : x ∈ cur) : x ∈ pruneLoop p t k hs cur := by
  induction hs generalizing cur with
  | nil => exact hc
  | cons h hs ih =>
    simp only [pruneLoop]
    split
    · rename_i hh
      apply ih
      have hne : x ≠ h := by
        intro e; subst e; rw [hx] at hh; cases hh
      exact (List.mem_erase_of_ne hne).mpr hc
    · exact ih cur hc

/-- an entry whose names are all present already leaves the table untouched -/
private theorem loadEntry_of_covered (p : Prims) (t : Table) (names : List Name) (k : Key)
    (h : ∀ x ∈ names, hasEntry p t x k = true) : loadEntry p t names k = t := by
  simp [loadEntry, pruneLoop_all p t k names h]

/-- after a line has been loaded, each of its names is associated with its key -/
private theorem loadEntry_covers (p : Prims) (t : Table) (names : List Name) (k : Key) :
    ∀ x ∈ names, hasEntry p (loadEntry p t names k) x k = true := by
  intro x hx
  by_cases hc : hasEntry p t x k = true
  · unfold loadEntry
    simp only
    split
    · exact hc
    · exact hasEntry_append p t _ x k hc
  · have hc' : hasEntry p t x k = false := by simpa using hc
    have hk := pruneLoop_keeps p t k names names x hc' hx
    unfold loadEntry
    simp only
    split
    · rename_i he
      rw [List.isEmpty_iff] at he
      rw [he] at hk; cases hk
    · simp only [hasEntry, List.any_append, List.any_cons, List.any_nil, Bool.or_false, Bool.or_eq_true,
        Bool.and_eq_true, beq_iff_eq, and_true]
      right
      simp only [hostnameMatches, List.any_eq_true]
      exact ⟨x, hk, nameMatches_refl p x⟩

private theorem loadEntry_mono (p : Prims) (t : Table) (names : List Name) (k : Key) (x : Name) (kx : Key)
    (h : hasEntry p t x kx = true) : hasEntry p (loadEntry p t names k) x kx = true := by
  unfold loadEntry
  simp only
  split
  · exact h
  · exact hasEntry_append p t _ x kx h

private theorem load_mono (p : Prims) (ls : List Line) (t : Table) (x : Name) (kx : Key)
    (h : hasEntry p t x kx = true) : hasEntry p (load p t ls).1 x kx = true := by
  induction ls generalizing t with
  | nil => exact h
  | cons l ls ih =>
    cases l with
    | entry names k => simp only [load]; exact ih _ (loadEntry_mono p t names k x kx h)
    | skip => simp only [load]; exact ih _ h
    | invalid => simp only [load]; exact h

/-- every entry line that `load` gets to (i.e. before a line that makes it raise) is covered by table `t` -/
def Covered (p : Prims) (t : Table) : List Line → Prop
  | [] => True
  | .entry names k :: ls => (∀ x ∈ names, hasEntry p t x k = true) ∧ Covered p t ls
  | .skip :: ls => Covered p t ls
  | .invalid :: _ => True

/-- whether `load` ends by raising depends on the file only -/
def raises : List Line → Bool
  | [] => false
  | .invalid :: _ => true
  | _ :: ls => raises ls

private theorem load_raises (p : Prims) (ls : List Line) (t : Table) : (load p t ls).2 = raises ls := by
  induction ls generalizing t with
  | nil => rfl
  | cons l ls ih => cases l <;> simp [load, raises, ih]

private theorem load_of_covered (p : Prims) (ls : List Line) (t : Table) (h : Covered p t ls) :
    load p t ls = (t, raises ls) := by
  induction ls with
  | nil => rfl
  | cons l ls ih =>
    cases l with
    | entry names k =>
      simp only [Covered] at h
      simp only [load, loadEntry_of_covered p t names k h.1, raises]
      exact ih h.2
    | skip => simp only [load, raises]; exact ih h
    | invalid => rfl

private theorem covered_after_load (p : Prims) (ls : List Line) (t : Table) : Covered p (load p t ls).1 ls := by
  induction ls generalizing t with
  | nil => trivial
  | cons l ls ih =>
    cases l with
    | entry names k =>
      simp only [Covered, load]
      refine ⟨?_, ih _⟩
      intro x hx
      exact load_mono p ls _ x k (loadEntry_covers p t names k x hx)
    | skip => simp only [Covered, load]; exact ih _
    | invalid => trivial

/-- **Idempotent load.**  For every table (whatever history produced it), every file and every HMAC: loading the
same file a second time leaves the table — hence every lookup, key list, `keys()` and the saved text — exactly as
the first load left it, and ends the same way. -/
theorem load_idempotent (p : Prims) (t : Table) (ls : List Line) :
    load p (load p t ls).1 ls = load p t ls := by
  rw [load_of_covered p ls _ (covered_after_load p ls t)]
  rw [← load_raises p ls t]

/-- … and so does every further load -/
theorem load_idempotent_n (p : Prims) (t : Table) (ls : List Line) (n : Nat) :
    (Nat.repeat (fun t' => (load p t' ls).1) n (load p t ls).1) = (load p t ls).1 := by
  induction n with
  | zero => rfl
  | succ n ih => simp only [Nat.repeat, ih]; rw [load_idempotent]

/-! ## saving and reloading yields identical lookups -/

theorem nameMatches_trans (p : Prims) (a b c : Name) (h1 : nameMatches p a b = true)
    (h2 : nameMatches p b c = true) : nameMatches p a c = true := by
  rw [nameMatches_iff] at *
  rcases h1 with h1 | ⟨salt, mac, s, ha, hb, hm⟩
  · subst h1; exact h2
  · rcases h2 with h2 | ⟨salt', mac', s', hb', _, _⟩
    · subst h2; exact Or.inr ⟨salt, mac, s, ha, hb, hm⟩
    · rw [hb] at hb'; cases hb'

private theorem pruneLoop_subset (p : Prims) (t : Table) (k : Key) (hs cur : List Name) (x : Name)
    (hx : x ∈ pruneLoop p t k hs cur) : x ∈ cur := by
  induction hs generalizing cur with
  | nil => exact hx
  | cons h hs ih =>
    simp only [pruneLoop] at hx
    split at hx
    · exact List.mem_of_mem_erase (ih _ hx)
    · exact ih _ hx

private theorem subGet_append (l1 l2 : List Entry) (ty : String) :
    subGet (l1 ++ l2) ty = match subGet l1 ty with
      | some k => some k
      | none => subGet l2 ty := by
  unfold subGet
  rw [List.find?_append]
  cases h : l1.find? (fun e => e.key.type == ty) <;> simp

private theorem lookup_append (p : Prims) (a b : Table) (q : Name) :
    lookup p (a ++ b) q = lookup p a q ++ lookup p b q := by
  simp [lookup]

/-- what one reloaded line contributes to a lookup, given that no earlier entry already answers it -/
private theorem reload_step (p : Prims) (A : Table) (e : Entry) (q : Name) (ty : String)
    (hA : subGet (lookup p A q) ty = none) :
    subGet (lookup p (loadEntry p A e.names e.key) q) ty = subGet (lookup p [e] q) ty := by
  have hAll : ∀ a ∈ A, hostnameMatches p q a = true → a.key.type ≠ ty := by
    intro a ha hm
    exact (subGet_eq_none _ _).mp hA a ((mem_lookup p A q a).mpr ⟨ha, by simpa [hostnameMatches] using hm⟩)
  by_cases hty : e.key.type = ty
  · -- names of `e` that match `q` survive the pruning
    have hkeep : ∀ h ∈ e.names, nameMatches p h q = true → h ∈ pruneLoop p A e.key e.names e.names := by
      intro h hh hm
      apply pruneLoop_keeps p A e.key e.names e.names h _ hh
      cases hc : hasEntry p A h e.key with
      | false => rfl
      | true =>
        exfalso
        simp only [hasEntry, List.any_eq_true, Bool.and_eq_true, beq_iff_eq] at hc
        obtain ⟨a, ha, ⟨hma, hta⟩, _⟩ := hc
        simp only [hostnameMatches, List.any_eq_true] at hma
        obtain ⟨h', hh', hm'⟩ := hma
        have : hostnameMatches p q a = true := by
          simp only [hostnameMatches, List.any_eq_true]
          exact ⟨h', hh', nameMatches_trans p h' h q hm' hm⟩
        exact hAll a ha this (by rw [hta, hty])
    by_cases hm : hostnameMatches p q e = true
    · -- `e` lists `q`: so does what is kept of it
      simp only [hostnameMatches, List.any_eq_true] at hm
      obtain ⟨h, hh, hmq⟩ := hm
      have hk := hkeep h hh hmq
      have hne : (pruneLoop p A e.key e.names e.names).isEmpty = false := by
        cases hl : pruneLoop p A e.key e.names e.names with
        | nil => rw [hl] at hk; cases hk
        | cons _ _ => rfl
      simp only [loadEntry, hne, Bool.false_eq_true, if_false, lookup_append, subGet_append, hA]
      have h1 : lookup p [⟨pruneLoop p A e.key e.names e.names, e.key⟩] q
          = [⟨pruneLoop p A e.key e.names e.names, e.key⟩] := by
        simp only [lookup, List.filter_cons, List.filter_nil, hostnameMatches, List.any_eq_true]
        rw [if_pos ⟨h, hk, hmq⟩]
      have h2 : lookup p [e] q = [e] := by
        simp only [lookup, List.filter_cons, List.filter_nil, hostnameMatches, List.any_eq_true]
        rw [if_pos ⟨h, hh, hmq⟩]
      rw [h1, h2]
      simp [subGet, hty]
    · -- `e` does not list `q`: neither does any part of it
      have hm' : hostnameMatches p q e = false := by simpa using hm
      have h2 : lookup p [e] q = [] := by simp [lookup, hm']
      rw [h2]
      unfold loadEntry
      simp only
      split
      · exact hA
      · simp only [lookup_append, subGet_append, hA]
        have : lookup p [⟨pruneLoop p A e.key e.names e.names, e.key⟩] q = [] := by
          simp only [lookup, List.filter_cons, List.filter_nil]
          rw [if_neg]
          intro hc
          simp only [hostnameMatches, List.any_eq_true] at hc hm
          obtain ⟨h, hh, hmq⟩ := hc
          exact hm ⟨h, pruneLoop_subset p A e.key e.names e.names h hh, hmq⟩
        rw [this]
  · -- another key type: irrelevant for `ty` on both sides
    have h2 : subGet (lookup p [e] q) ty = none := by
      rw [subGet_eq_none]
      intro e' he'
      have := (lookup_sublist p [e] q).subset he'
      simp only [List.mem_singleton] at this
      subst this; exact hty
    rw [h2]
    unfold loadEntry
    simp only
    split
    · exact hA
    · simp only [lookup_append, subGet_append, hA]
      rw [subGet_eq_none]
      intro e' he'
      have := (lookup_sublist p _ q).subset he'
      simp only [List.mem_singleton] at this
      subst this; exact hty

private theorem reload_invariant (p : Prims) (es : List Entry) (A B : Table)
    (h : ∀ q ty, subGet (lookup p A q) ty = subGet (lookup p B q) ty) :
    ∀ q ty, subGet (lookup p (load p A (save es)).1 q) ty = subGet (lookup p (B ++ es) q) ty := by
  induction es generalizing A B with
  | nil => simpa [save, load] using h
  | cons e es ih =>
    have hstep : ∀ q ty, subGet (lookup p (loadEntry p A e.names e.key) q) ty
        = subGet (lookup p (B ++ [e]) q) ty := by
      intro q ty
      rw [lookup_append, subGet_append, ← h q ty]
      cases hA : subGet (lookup p A q) ty with
      | some k =>
        simp only
        unfold loadEntry
        simp only
        split
        · exact hA
        · rw [lookup_append, subGet_append, hA]
      | none => simp only; exact reload_step p A e q ty hA
    have := ih (loadEntry p A e.names e.key) (B ++ [e]) hstep
    simpa [save, load, List.append_assoc] using this

/-- **Save and reload.**  For every table (whatever history produced it) and every HMAC: writing the table out
and loading the result into a fresh `HostKeys` gives, for every hostname (plain or hashed) and key type, the same
effective key — hence the same `lookup()` mapping and the same `check()` answers; the reload never raises. -/
theorem save_reload_lookup (p : Prims) (t : Table) (q : Name) (ty : String) :
    subGet (lookup p (load p [] (save t)).1 q) ty = subGet (lookup p t q) ty ∧ (load p [] (save t)).2 = false := by
  refine ⟨?_, ?_⟩
  · have := reload_invariant p t [] [] (fun _ _ => rfl) q ty
    simpa using this
  · rw [load_raises]
    induction t with
    | nil => rfl
    | cons e es ih => simpa [save, raises] using ih

theorem save_reload_check (p : Prims) (t : Table) (q : Name) (k : Key) :
    check p (load p [] (save t)).1 q k = check p t q k := by
  have h := (save_reload_lookup p t q k.type).1
  unfold check
  rw [h]

/-! ## dict-style setters take effect — in memory and, by `save_reload_lookup`, after save + reload -/

private theorem subSetGo_spec (p : Prims) (q : Name) (kt : String) (k : Key) (hk : k.type = kt) (t : Table) :
    ((subSetGo p q kt k t).2 = true → subGet (lookup p (subSetGo p q kt k t).1 q) kt = some k) ∧
    ((subSetGo p q kt k t).2 = false → (subSetGo p q kt k t).1 = t ∧ subGet (lookup p t q) kt = none) := by
  induction t with
  | nil => simp [subSetGo, lookup, subGet]
  | cons e es ih =>
    simp only [subSetGo]
    by_cases hc : (hostnameMatches p q e && e.key.type == kt) = true
    · simp only [hc, if_true, Bool.true_eq_false, false_implies, and_true, true_implies]
      simp only [Bool.and_eq_true] at hc
      have hm : hostnameMatches p q { e with key := k } = true := hc.1
      simp [lookup, List.filter_cons, hm, subGet, hk]
    · simp only [hc, Bool.false_eq_true, if_false]
      have hskip : hostnameMatches p q e = true → (e.key.type == kt) = false := by
        intro hm
        simp only [hm, Bool.true_and] at hc
        simpa using hc
      constructor
      · intro h2
        have := ih.1 h2
        by_cases hm : hostnameMatches p q e = true
        · simp only [lookup, List.filter_cons, hm, if_true, subGet, List.find?_cons, hskip hm]
          exact this
        · simp only [lookup, List.filter_cons, hm, Bool.false_eq_true, if_false]
          exact this
      · intro h2
        obtain ⟨h3, h4⟩ := ih.2 h2
        refine ⟨by rw [h3], ?_⟩
        by_cases hm : hostnameMatches p q e = true
        · simp only [lookup, List.filter_cons, hm, if_true, subGet, List.find?_cons, hskip hm]
          exact h4
        · simp only [lookup, List.filter_cons, hm, Bool.false_eq_true, if_false]
          exact h4

/-- **`hostkeys[name][type] = key` takes effect**: afterwards the effective key of that type for `name` is `key`
(and, by `save_reload_lookup`, it still is after saving and reloading) -/
theorem subSet_effective (p : Prims) (t t' : Table) (q : Name) (k : Key)
    (h : subSet p t q k.type k = .ok t') :
    subGet (lookup p t' q) k.type = some k ∧
    subGet (lookup p (load p [] (save t')).1 q) k.type = some k := by
  have hmain : subGet (lookup p t' q) k.type = some k := by
    unfold subSet at h
    split at h
    · cases h
    · obtain ⟨g1, g2⟩ := subSetGo_spec p q k.type k rfl t
      simp only at h
      split at h
      · rename_i hr
        simp only [Except.ok.injEq] at h
        rw [← h]; exact g1 hr
      · rename_i hr
        have hr' : (subSetGo p q k.type k t).2 = false := by simpa using hr
        simp only [Except.ok.injEq] at h
        rw [← h, lookup_append, subGet_append, (g2 hr').2]
        have : hostnameMatches p q ⟨[q], k⟩ = true := by simp [hostnameMatches, nameMatches_refl]
        simp [lookup, this, subGet]
  exact ⟨hmain, by rw [(save_reload_lookup p t' q k.type).1]; exact hmain⟩

/-! ## non-vacuity -/

def demoPrims : Prims := { hmac := fun salt s => salt ++ s.toList.map (fun c => UInt8.ofNat c.toNat) }
def kA : Key := ⟨"ssh-rsa", [1]⟩
def kB : Key := ⟨"ssh-rsa", [2]⟩
def kC : Key := ⟨"ssh-ed25519", [3]⟩
def demoFile : List Line :=
  [.entry [.plain "a", .plain "b"] kA, .skip, .entry [.plain "a"] kB, .entry [.hashed [9] [9, 97], .plain "c"] kC]

/-- the two defects of the unrepaired `load`: `a,b` lines and a shadowed second key of the same type -/
example : (load demoPrims [] demoFile).1 =
    [⟨[.plain "a", .plain "b"], kA⟩, ⟨[.plain "a"], kB⟩, ⟨[.hashed [9] [9, 97], .plain "c"], kC⟩] := by decide
example : load demoPrims (load demoPrims [] demoFile).1 demoFile = load demoPrims [] demoFile := by decide
example : (load demoPrims [] (save [⟨[.plain "a"], kA⟩, ⟨[.plain "a", .plain "b"], kA⟩, ⟨[.plain "a"], kB⟩])).1 =
    [⟨[.plain "a"], kA⟩, ⟨[.plain "b"], kA⟩, ⟨[.plain "a"], kB⟩] := by decide
example : check demoPrims (load demoPrims [] demoFile).1 (.plain "a") kA = true ∧
    check demoPrims (load demoPrims [] demoFile).1 (.plain "a") kB = false ∧
    check demoPrims (load demoPrims [] demoFile).1 (.plain "a") kC = true := by decide

end PV.Props.C41
