/-
  C17 — Client credentials are only sent to a verified, accepted server.
  Property theorems only.  Model: PV/Model/ClientGuard.lean.
-/
import PV.Model.ClientGuard
import PV.Model.CtEq
namespace PV.Props.C17
open PV PV.ClientGuard PV.CtEq

/-- the lifecycle invariant: a credential is only ever pending after the initial key exchange; the initial
key exchange is only ever marked done after the host-key signature verified; from that moment the outbound
cipher is on; and everything already on the wire that carries a secret went out encrypted -/
def Inv (s : St) : Prop :=
  (s.pending ≠ none → s.kexDone = true) ∧
  (s.interactive = true → s.kexDone = true) ∧
  (s.kexDone = true → s.hostKeyVerified = true) ∧
  (s.hostKeyVerified = true → s.outCipher = true) ∧
  (∀ w ∈ s.wire, w.secret = true → w.encrypted = true) ∧
  (∀ w ∈ s.wire, (∃ c e, w = .userauth c e) ∨ (∃ a e, w = .infoResponse a e) ∨ (∃ e, w = .serviceRequest e) →
      w.encrypted = true)

private theorem inv_init : Inv init := by
  simp [Inv, init]

private theorem inv_step (s : St) (ev : Event) (h : Inv s) : Inv (step s ev).1 := by
  obtain ⟨h1, h2, h3, h4, h5, h6⟩ := h
  cases ev with
  | startClient => simp only [step]; split <;> exact ⟨h1, h2, h3, h4, h5, h6⟩
  | kexReply ok =>
    simp only [step]
    split
    · exact ⟨h1, h2, h3, h4, h5, h6⟩
    · split
      · exact ⟨h1, h2, h3, h4, h5, h6⟩
      · refine ⟨h1, h2, fun _ => rfl, fun _ => rfl, ?_, ?_⟩
        · intro w hw hs
          simp only [send, List.mem_append, List.mem_singleton] at hw
          rcases hw with hw | hw
          · exact h5 w hw hs
          · subst hw; simp [Wire.secret] at hs
        · intro w hw hk
          simp only [send, List.mem_append, List.mem_singleton] at hw
          rcases hw with hw | hw
          · exact h6 w hw hk
          · subst hw; simp at hk
  | newkeys =>
    simp only [step]
    split
    · exact ⟨h1, h2, h3, h4, h5, h6⟩
    · split
      · exact ⟨h1, h2, h3, h4, h5, h6⟩
      · rename_i hv
        have hv' : s.hostKeyVerified = true := by
          cases hx : s.hostKeyVerified
          · simp [hx] at hv
          · rfl
        exact ⟨fun _ => rfl, fun _ => rfl, fun _ => hv', h4, h5, h6⟩
  | authCall c =>
    simp only [step]
    split
    · exact ⟨h1, h2, h3, h4, h5, h6⟩
    · rename_i hg
      simp only [Bool.or_eq_true, Bool.not_eq_eq_eq_not, Bool.not_true, not_or, Bool.not_eq_false] at hg
      have hk := hg.2
      have hc := h4 (h3 hk)
      refine ⟨fun _ => hk, fun _ => hk, h3, h4, ?_, ?_⟩
      · intro w hw hs
        simp only [send, List.mem_append, List.mem_singleton] at hw
        rcases hw with hw | hw
        · exact h5 w hw hs
        · subst hw; simp [Wire.secret] at hs
      · intro w hw hq
        simp only [send, List.mem_append, List.mem_singleton] at hw
        rcases hw with hw | hw
        · exact h6 w hw hq
        · subst hw; simpa [Wire.encrypted] using hc
  | serviceAccept =>
    simp only [step]
    split
    · exact ⟨h1, h2, h3, h4, h5, h6⟩
    · split
      · exact ⟨h1, h2, h3, h4, h5, h6⟩
      · rename_i c hp
        have hk := h1 (by rw [hp]; simp)
        have hc := h4 (h3 hk)
        refine ⟨h1, h2, h3, h4, ?_, ?_⟩
        · intro w hw hs
          simp only [send, List.mem_append, List.mem_singleton] at hw
          rcases hw with hw | hw
          · exact h5 w hw hs
          · subst hw; simpa [Wire.encrypted] using hc
        · intro w hw hq
          simp only [send, List.mem_append, List.mem_singleton] at hw
          rcases hw with hw | hw
          · exact h6 w hw hq
          · subst hw; simpa [Wire.encrypted] using hc
  | infoRequest a =>
    simp only [step]
    split
    · exact ⟨h1, h2, h3, h4, h5, h6⟩
    · split
      · exact ⟨h1, h2, h3, h4, h5, h6⟩
      · rename_i hi
        have hi' : s.interactive = true := by
          cases hx : s.interactive
          · simp [hx] at hi
          · rfl
        have hc := h4 (h3 (h2 hi'))
        refine ⟨h1, h2, h3, h4, ?_, ?_⟩
        · intro w hw hs
          simp only [send, List.mem_append, List.mem_singleton] at hw
          rcases hw with hw | hw
          · exact h5 w hw hs
          · subst hw; simpa [Wire.encrypted] using hc
        · intro w hw hq
          simp only [send, List.mem_append, List.mem_singleton] at hw
          rcases hw with hw | hw
          · exact h6 w hw hq
          · subst hw; simpa [Wire.encrypted] using hc
  | die => exact ⟨h1, h2, h3, h4, h5, h6⟩

/-- the invariant holds after every history of API calls and handled messages, in any order -/
theorem inv_run (evs : List Event) : Inv (run init evs) := by
  suffices h : ∀ s, Inv s → Inv (run s evs) from h init inv_init
  induction evs with
  | nil => intro s h; exact h
  | cons e es ih => intro s h; exact ih _ (inv_step s e h)

/-- **Never in plaintext.** Whatever the application calls and whatever arrives, in any order and at any point of
the connection's life: every USERAUTH_REQUEST, every info response and every service request the client has put
on the wire went out with the outbound cipher on. -/
theorem credentials_never_in_plaintext (evs : List Event) :
    ∀ w ∈ (run init evs).wire, w.secret = true → w.encrypted = true := (inv_run evs).2.2.2.2.1

theorem auth_messages_always_encrypted (evs : List Event) (w : Wire) (hw : w ∈ (run init evs).wire)
    (h : (∃ c e, w = .userauth c e) ∨ (∃ a e, w = .infoResponse a e) ∨ (∃ e, w = .serviceRequest e)) :
    w.encrypted = true := (inv_run evs).2.2.2.2.2 w hw h

/-- **Guard.** An `auth_*` call made before the initial key exchange has completed (or on a dead transport)
raises and puts nothing on the wire. -/
theorem auth_before_kex_raises (s : St) (c : Cred) (h : s.active = false ∨ s.kexDone = false) :
    step s (.authCall c) = (s, .raisedNoSession) := by
  rcases h with h | h <;> simp [step, h]

/-- the initial key exchange is only ever marked done after the host-key signature verified -/
theorem kex_done_needs_verified_host_key (evs : List Event) :
    (run init evs).kexDone = true → (run init evs).hostKeyVerified = true := (inv_run evs).2.2.1

/-- a host-key signature that does not verify ends the transport; afterwards every auth call raises -/
theorem bad_signature_ends_the_session (s : St) (ha : s.active = true) (hv : s.hostKeyVerified = false) (c : Cred) :
    (step s (.kexReply false)).1.active = false ∧
    step (step s (.kexReply false)).1 (.authCall c) = ((step s (.kexReply false)).1, .raisedNoSession) := by
  have h1 : (step s (.kexReply false)).1.active = false := by simp [step, ha, hv]
  exact ⟨h1, auth_before_kex_raises _ c (Or.inl h1)⟩

/-! ## `connect`: a different key receives nothing -/

/-- **Transport.connect(hostkey=…).** Credentials are offered only if the presented key equals the given one
(name and bytes). -/
theorem transport_connect_sends_only_to_given_key (g presented : Key) (wants : Bool)
    (h : transportConnect (some g) presented wants = .authenticate) : presented = g := by
  unfold transportConnect at h
  simp only at h
  split at h
  · cases h
  · rename_i hne
    simp only [ne_eq, not_or, Decidable.not_not] at hne
    cases g; cases presented
    simp_all

/-- **SSHClient.connect.** Credentials are offered only if the host is unknown and the policy returned normally,
or the known entry *of the presented key's type* equals the presented key.  In particular a known host that
presents a different key — same type or only other types known — receives nothing. -/
theorem ssh_client_sends_only_if_known_or_accepted (known : Known) (presented : Key) (pol : Bool)
    (h : sshClientConnect known presented pol = .authenticate) :
    (known = none ∧ pol = true) ∨ (∃ ks, known = some ks ∧ findType ks presented.name = some presented) := by
  unfold sshClientConnect at h
  cases known with
  | none =>
    simp only at h
    split at h
    · rename_i hp; exact Or.inl ⟨rfl, hp⟩
    · cases h
  | some ks =>
    simp only at h
    right
    refine ⟨ks, rfl, ?_⟩
    split at h
    · rename_i k hk
      split at h
      · rename_i he; rw [hk, he]
      · cases h
    · cases h

theorem known_host_other_key_gets_nothing (ks : List Key) (presented : Key) (pol : Bool)
    (h : findType ks presented.name ≠ some presented) :
    sshClientConnect (some ks) presented pol = .badHostKey := by
  unfold sshClientConnect
  simp only
  split
  · rename_i k hk
    split
    · rename_i he; rw [hk, he] at h; exact absurd rfl h
    · rfl
  · rfl

theorem unknown_host_needs_policy (presented : Key) :
    sshClientConnect none presented false = .policyRejected := rfl

/-- **Two stores.** With system and user host keys: credentials are offered only if the host is in neither store
and the policy returned normally, or the entry of the store that is consulted (system first) has the presented key
under the presented key's type.  In particular a host known to the system store only with other key types is
refused whatever the policy says - it is never treated as unknown. -/
theorem two_stores_send_only_if_known_or_accepted (system user : Known) (presented : Key) (pol : Bool)
    (h : sshClientConnect2 system user presented pol = .authenticate) :
    (system = none ∧ user = none ∧ pol = true) ∨
    (∃ ks, effectiveKnown system user = some ks ∧ findType ks presented.name = some presented) := by
  rcases ssh_client_sends_only_if_known_or_accepted _ presented pol h with ⟨hn, hp⟩ | h2
  · left
    cases system with
    | some ks => simp [effectiveKnown] at hn
    | none => exact ⟨rfl, by simpa [effectiveKnown] using hn, hp⟩
  · exact Or.inr h2

theorem system_entry_is_never_unknown (ks : List Key) (user : Known) (presented : Key) (pol : Bool)
    (h : findType ks presented.name ≠ some presented) :
    sshClientConnect2 (some ks) user presented pol = .badHostKey :=
  known_host_other_key_gets_nothing ks presented pol h

/-- **GSS-API requested but not negotiated.** Whatever options the caller passed (`gss_kex=True` included): unless a
gss-* key exchange was really negotiated, credentials are offered only to a known server presenting its known
key, or to an unknown one the policy accepted. -/
theorem host_key_checked_unless_gss_kex_negotiated (system user : Known) (presented : Key) (pol : Bool)
    (h : sshClientConnectGss false system user presented pol = .authenticate) :
    (system = none ∧ user = none ∧ pol = true) ∨
    (∃ ks, effectiveKnown system user = some ks ∧ findType ks presented.name = some presented) :=
  two_stores_send_only_if_known_or_accepted system user presented pol (by simpa [sshClientConnectGss] using h)

/-! ## hashed known_hosts names -/

private theorem or_eq_zero (x y : UInt8) : x ||| y = 0 ↔ x = 0 ∧ y = 0 := by
  constructor
  · intro h
    have h1 : (x ||| y).toNat = 0 := by rw [h]; rfl
    rw [UInt8.toNat_or] at h1
    have := Nat.or_eq_zero_iff.mp h1
    exact ⟨UInt8.toNat_inj.mp (by simpa using this.1), UInt8.toNat_inj.mp (by simpa using this.2)⟩
  · rintro ⟨rfl, rfl⟩; rfl

private theorem xor_eq_zero (x y : UInt8) : x ^^^ y = 0 ↔ x = y := by
  constructor
  · intro h
    have := congrArg (· ^^^ y) h
    simp [UInt8.xor_assoc] at this
    exact this
  · rintro rfl; simp

private theorem orFold_zero (a b : Bytes) (acc : UInt8) (hl : a.length = b.length) :
    orFold a b acc = 0 ↔ acc = 0 ∧ a = b := by
  induction a generalizing b acc with
  | nil => cases b with
    | nil => simp [orFold]
    | cons y ys => simp at hl
  | cons x xs ih =>
    cases b with
    | nil => simp at hl
    | cons y ys =>
      simp only [List.length_cons, Nat.add_right_cancel_iff] at hl
      simp only [orFold, ih ys _ hl, or_eq_zero, xor_eq_zero, List.cons.injEq]
      constructor
      · rintro ⟨⟨h1, h2⟩, h3⟩; exact ⟨h1, h2, h3⟩
      · rintro ⟨h1, h2, h3⟩; exact ⟨⟨h1, h2⟩, h3⟩

/-- **The hashed-name comparison is equality.** `constant_time_bytes_eq` answers true exactly for identical byte
strings: differences at several positions can never cancel (OR-fold, not XOR/sum), and a length difference is a
difference.  So a hashed known_hosts name matches a looked-up host only if the salted hashes are identical. -/
theorem constant_time_eq_is_equality (a b : Bytes) : ctEq a b = true ↔ a = b := by
  unfold ctEq
  constructor
  · intro h
    simp only [Bool.and_eq_true, beq_iff_eq] at h
    exact ((orFold_zero a b 0 h.1).mp h.2).2
  · rintro rfl
    simp only [Bool.and_eq_true, beq_iff_eq, true_and]
    exact (orFold_zero a a 0 rfl).mpr ⟨rfl, rfl⟩

example : ctEq [1, 2, 3] [3, 2, 1] = false ∧ ctEq [5, 6] [4, 7] = false ∧ ctEq [9, 9] [9, 9] = true := by decide

/-! ## non-vacuity -/

-- a normal connection: password goes out encrypted
example : (run init [.startClient, .kexReply true, .newkeys, .authCall (.password [1]), .serviceAccept]).wire =
    [.newkeys false, .serviceRequest true, .userauth (.password [1]) true] := by decide
-- auth attempted at every earlier point: nothing but NEWKEYS ever reaches the wire
example : (run init [.authCall (.password [1]), .startClient, .authCall (.password [1]), .kexReply true,
    .authCall (.password [1]), .serviceAccept]).wire = [.newkeys false] := by decide
example : sshClientConnect (some [⟨[1], [5]⟩, ⟨[2], [6]⟩]) ⟨[2], [6]⟩ false = .authenticate := by decide
example : sshClientConnect (some [⟨[1], [5]⟩]) ⟨[2], [6]⟩ true = .badHostKey := by decide

end PV.Props.C17
