/-
  C10 — Long-lived sessions are rekeyed and peers that refuse rekeying are dropped.
  Model: PV/Model/Rekey.lean (thresholds are parameters: every theorem holds for every threshold value).
-/
import PV.Model.Rekey
import PV.Generated.C11
import PV.Model.RunLoop
namespace PV.Props.C10
open PV.Rekey

/-- **Trigger (outbound).** Right after any packet is sent, in any state: if the packets or bytes sent under
the current keys have reached the threshold, a rekey is requested. -/
theorem sent_over_threshold_requests_rekey (L : Limits) (s : St) (len : Nat) :
    let s' := step L s (.send len)
    (s'.sentPackets ≥ L.rp ∨ s'.sentBytes ≥ L.rb) → s'.needRekey = true := by
  simp only [step]
  split
  · intro _; rfl
  · rename_i h
    intro hover
    simp only [not_and, Decidable.not_not] at h
    exact h hover

/-- **Trigger (inbound).** Right after any packet is received without the overflow error: if the packets or
bytes received under the current keys have reached the threshold, a rekey is requested. -/
theorem received_over_threshold_requests_rekey (L : Limits) (s : St) (len : Nat) :
    let s' := step L s (.recv len)
    (s'.recvPackets ≥ L.rp ∨ s'.recvBytes ≥ L.rb) → s'.needRekey = true := by
  simp only [step]
  by_cases hn : s.needRekey = true
  · simp only [hn, if_true]
    split <;> (intro _; rfl)
  · simp only [hn, Bool.false_eq_true, if_false]
    split
    · intro _; rfl
    · rename_i h; intro hover; exact absurd hover h

/-- **The request is only withdrawn when both directions have switched keys**, and then all counters of a
direction were reset by that direction's own switch: a step that clears the flag is a cipher switch that
completes the pair. -/
theorem flag_cleared_only_when_both_switched (L : Limits) (s : St) (o : Op)
    (h1 : s.needRekey = true) (h2 : (step L s o).needRekey = false) :
    (o = .setOut ∧ s.initCount ||| 1 = 3 ∧ (step L s o).sentPackets = 0 ∧ (step L s o).sentBytes = 0) ∨
    (o = .setIn ∧ s.initCount ||| 2 = 3 ∧ (step L s o).recvPackets = 0 ∧ (step L s o).recvBytes = 0 ∧
      (step L s o).ovPackets = 0 ∧ (step L s o).ovBytes = 0) := by
  cases o with
  | send len => simp only [step] at h2; split at h2 <;> simp_all
  | recv len => simp only [step, h1, if_true] at h2; split at h2 <;> simp_all
  | setOut =>
    left
    simp only [step, bothSwitched] at h2 ⊢
    by_cases hc : s.initCount ||| 1 = 3
    · simp [hc]
    · simp [hc, h1] at h2
  | setIn =>
    right
    simp only [step, bothSwitched] at h2 ⊢
    by_cases hc : s.initCount ||| 2 = 3
    · simp [hc]
    · simp [hc, h1] at h2
  | loopTop => simp only [step] at h2; split at h2 <;> simp_all
  | peerKexInit => simp_all [step]

/-- counters of one direction are reset by nothing but that direction's key switch -/
theorem counters_reset_only_by_switch (L : Limits) (s : St) (o : Op) :
    ((step L s o).sentPackets < s.sentPackets → o = .setOut) ∧
    ((step L s o).recvPackets < s.recvPackets → o = .setIn) := by
  cases o <;> simp only [step, bothSwitched] <;> (repeat' split) <;> simp <;> omega

/-- invariant: while a rekey is pending and no error was raised, what was received since the request is below
the allowance -/
def Inv (L : Limits) (s : St) : Prop :=
  s.err = false → s.needRekey = true → s.ovPackets < L.op ∧ s.ovBytes < L.ob

theorem inv_step (L : Limits) (hop : 0 < L.op) (hob : 0 < L.ob) (s : St) (o : Op) (hi : Inv L s) :
    Inv L (stepE L s o) := by
  unfold stepE
  by_cases he : s.err = true
  · simp only [he, if_true]; exact hi
  · have he' : s.err = false := by simpa using he
    simp only [he', Bool.false_eq_true, if_false]
    cases o with
    | send len =>
      simp only [step]
      by_cases hc : (s.sentPackets + 1 ≥ L.rp ∨ s.sentBytes + len ≥ L.rb) ∧ ¬ s.needRekey = true
      · simp only [hc, not_false_eq_true, and_self, if_true]
        intro _ _; exact ⟨hop, hob⟩
      · simp only [hc, if_false]
        intro e' n'; exact hi e' n'
    | recv len =>
      simp only [step]
      by_cases hn : s.needRekey = true
      · simp only [hn, if_true]
        by_cases hc : s.ovPackets + 1 ≥ L.op ∨ s.ovBytes + len ≥ L.ob
        · simp only [hc, if_true]; intro e'; simp at e'
        · simp only [hc, if_false]
          intro _ _
          simp only [not_or, Nat.not_le] at hc
          exact hc
      · simp only [hn, Bool.false_eq_true, if_false]
        by_cases hc : s.recvPackets + 1 ≥ L.rp ∨ s.recvBytes + len ≥ L.rb
        · simp only [hc, if_true]; intro _ _; exact ⟨hop, hob⟩
        · simp only [hc, if_false]; intro _ n'; simp at n'
    | setOut =>
      simp only [step, bothSwitched]
      by_cases hc : s.initCount ||| 1 = 3
      · simp [hc, Inv]
      · simp only [hc, if_false]
        by_cases hn : s.needRekey = true
        · simp only [hn, not_true_eq_false, if_false]; intro e' _; exact hi e' hn
        · simp only [hn, not_false_eq_true, if_true]; intro _ n'; simp at n'
    | setIn =>
      simp only [step, bothSwitched]
      by_cases hc : s.initCount ||| 2 = 3
      · simp [hc, Inv]
      · simp only [hc, if_false]
        by_cases hn : s.needRekey = true
        · simp only [hn, not_true_eq_false, if_false]; intro _ _; exact ⟨hop, hob⟩
        · simp only [hn, not_false_eq_true, if_true]; intro _ n'; simp at n'
    | loopTop =>
      simp only [step]
      by_cases hc : s.needRekey = true ∧ ¬ s.inKex = true
      · rw [if_pos hc]; intro e' _; exact hi e' hc.1
      · rw [if_neg hc]; intro e' n'; exact hi e' n'
    | peerKexInit => simp only [step]; intro e' n'; exact hi e' n'

/-- **Overflow bound, every history.**  From a fresh packetizer, after any sequence of operations, as long
as no error was raised the traffic received while a rekey request is pending is below the allowance. -/
theorem overflow_bounded (L : Limits) (hop : 0 < L.op) (hob : 0 < L.ob) (ops : List Op) :
    Inv L (run L {} ops) := by
  have : ∀ s, Inv L s → Inv L (run L s ops) := by
    induction ops with
    | nil => intro s h; exact h
    | cons o ops ih => intro s h; exact ih _ (inv_step L hop hob s o h)
  exact this {} (by intro _ h; simp at h)

private theorem run_err (L : Limits) (s : St) (ops : List Op) (h : s.err = true) : run L s ops = s := by
  induction ops with
  | nil => rfl
  | cons o ops ih => simp only [run, List.foldl_cons, stepE, h, if_true] at ih ⊢; exact ih

/-- **A peer that ignores the request is dropped.**  Once a rekey is requested, if the peer just keeps sending
(no key switch), the session is terminated at the latest after `REKEY_PACKETS_OVERFLOW_MAX` further packets —
whatever their sizes — … -/
theorem ignoring_peer_dropped_packets (L : Limits) (lens : List Nat) (s : St) (hn : s.needRekey = true)
    (hov : s.ovPackets < L.op) (hlen : s.ovPackets + lens.length ≥ L.op) :
    (run L s (lens.map .recv)).err = true := by
  induction lens generalizing s with
  | nil => simp at hlen; omega
  | cons l ls ih =>
    by_cases he : s.err = true
    · rw [run_err L s _ he]; exact he
    · have he' : s.err = false := by simpa using he
      simp only [List.map_cons, run, List.foldl_cons, stepE, he', Bool.false_eq_true, if_false, step, hn, if_true]
      by_cases hc : s.ovPackets + 1 ≥ L.op ∨ s.ovBytes + l ≥ L.ob
      · simp only [hc, if_true]
        exact (congrArg St.err (run_err L _ (ls.map .recv) rfl)).trans rfl
      · simp only [hc, if_false]
        simp only [not_or, Nat.not_le] at hc
        refine ih _ rfl hc.1 ?_
        show s.ovPackets + 1 + ls.length ≥ L.op
        simp only [List.length_cons] at hlen; omega

/-- … and at the latest once `REKEY_BYTES_OVERFLOW_MAX` further bytes have arrived. -/
theorem ignoring_peer_dropped_bytes (L : Limits) (lens : List Nat) (s : St) (hn : s.needRekey = true)
    (hov : s.ovBytes < L.ob) (hlen : s.ovBytes + lens.sum ≥ L.ob) :
    (run L s (lens.map .recv)).err = true := by
  induction lens generalizing s with
  | nil => simp at hlen; omega
  | cons l ls ih =>
    by_cases he : s.err = true
    · rw [run_err L s _ he]; exact he
    · have he' : s.err = false := by simpa using he
      simp only [List.map_cons, run, List.foldl_cons, stepE, he', Bool.false_eq_true, if_false, step, hn, if_true]
      by_cases hc : s.ovPackets + 1 ≥ L.op ∨ s.ovBytes + l ≥ L.ob
      · simp only [hc, if_true]
        exact (congrArg St.err (run_err L _ (ls.map .recv) rfl)).trans rfl
      · simp only [hc, if_false]
        simp only [not_or, Nat.not_le] at hc
        refine ih _ rfl hc.2 ?_
        show s.ovBytes + l + ls.sum ≥ L.ob
        simp only [List.sum_cons] at hlen; omega

/-- **The request turns into a KEXINIT.**  After the loop top has run, a pending request always has a key
exchange in progress (ours was sent, or the peer's arrived first). -/
theorem loop_top_starts_kex (L : Limits) (s : St) :
    (step L s .loopTop).needRekey = true → (step L s .loopTop).inKex = true := by
  simp only [step]
  by_cases hc : s.needRekey = true ∧ ¬ s.inKex = true
  · simp [hc]
  · simp only [hc, if_false]
    intro hn
    simp only [not_and, Decidable.not_not] at hc
    exact hc hn

/-- `in_kex` is only ever cleared by a key switch that leaves no request pending: the exchange that a request
started is not forgotten until both directions have new keys -/
theorem in_kex_cleared_only_when_settled (L : Limits) (s : St) (o : Op) (h1 : s.inKex = true)
    (h2 : (step L s o).inKex = false) : (o = .setOut ∨ o = .setIn) ∧ (step L s o).needRekey = false := by
  cases o with
  | send len => simp only [step] at h2; split at h2 <;> simp_all
  | recv len => simp only [step] at h2; (repeat' split at h2) <;> simp_all
  | setOut =>
    refine ⟨Or.inl rfl, ?_⟩
    by_cases hc : s.initCount ||| 1 = 3 <;> by_cases hn : s.needRekey = true <;>
      simp [step, bothSwitched, hc, hn, h1] at h2 ⊢
  | setIn =>
    refine ⟨Or.inr rfl, ?_⟩
    by_cases hc : s.initCount ||| 2 = 3 <;> by_cases hn : s.needRekey = true <;>
      simp [step, bothSwitched, hc, hn, h1] at h2 ⊢
  | loopTop => simp only [step] at h2; split at h2 <;> simp_all
  | peerKexInit => simp_all [step]

/-- **A rekey request never costs bytes.**  `read_all` leaves the read loop with NeedRekeyException only while
nothing of the packet has been taken off the socket — for every fragmentation of the stream and every placement
of timeouts; so the re-exchange can start on an idle link without desynchronising the packet stream. -/
theorem need_rekey_exception_loses_nothing (need check : Bool) (n got used : Nat) (evs : List SockEv) (lost : Nat)
    (h : readAll need check n got used evs = .needRekey lost) : lost = 0 ∧ got = 0 := by
  induction evs generalizing n got used with
  | nil => simp only [readAll] at h; split at h <;> simp at h
  | cons ev evs ih =>
    simp only [readAll] at h
    by_cases hn : n = 0
    · simp [hn] at h
    · simp only [hn, if_false] at h
      cases ev with
      | data k =>
        simp only at h
        by_cases hk : k = 0
        · simp [hk] at h
        · simp only [hk, if_false] at h
          have := ih _ _ _ h
          have hpos : 0 < min k n := by
            have : 0 < k := Nat.pos_of_ne_zero hk
            have : 0 < n := Nat.pos_of_ne_zero hn
            exact Nat.lt_min.mpr ⟨‹0 < k›, ‹0 < n›⟩
          omega
      | timeout =>
        simp only at h
        by_cases hc : check = true ∧ got = 0 ∧ need = true
        · simp only [hc, and_self, if_true, ReadResult.needRekey.injEq] at h
          exact ⟨by omega, hc.2.1⟩
        · simp only [hc, if_false] at h
          exact ih _ _ _ h
      | eagain =>
        simp only at h
        by_cases hc : check = true ∧ got = 0 ∧ need = true
        · simp only [hc, and_self, if_true, ReadResult.needRekey.injEq] at h
          exact ⟨by omega, hc.2.1⟩
        · simp only [hc, if_false] at h
          exact ih _ _ _ h

/-- **However the socket says "nothing yet", an idle link starts the pending re-exchange.**  `socket.timeout` and
`socket.error(EAGAIN)` are the same event for `read_all`: on an idle header read with a request pending both leave
with NeedRekeyException, so the run loop gets to send KEXINIT.  (AST of `read_all`, read on every run: the rekey test
is shared by both idle branches — it follows the `try`, under the `got_timeout` flag — not written into one of them.) -/
theorem idle_poll_starts_rekey_whatever_its_style (n used : Nat) (evs : List SockEv) (hn : n ≠ 0) :
    readAll true true n 0 used (.timeout :: evs) = .needRekey 0 ∧
    readAll true true n 0 used (.eagain :: evs) = .needRekey 0 ∧
    Generated.C11.readAllIdleBranchesShareRekeyTest = true := by
  refine ⟨by simp [readAll, hn], by simp [readAll, hn], by decide⟩

/-- a read that succeeds took exactly the bytes it was asked for: an idle timeout in the middle of a packet
(rekey pending or not) just waits -/
theorem read_all_waits_mid_packet (need : Bool) (n got used : Nat) (evs : List SockEv) (hg : got ≠ 0) :
    readAll need true n got used (.timeout :: evs) = (if n = 0 then .ok used else readAll need true n got (used + 1) evs) := by
  simp [readAll, hg]

/-! ## "traffic continues intact": the compression engines follow every key switch -/

/-- invariant: in each direction the (de)compressor in use was created for the key set in use -/
def CInv (s : CSt) : Prop :=
  s.compOutGen = expectedCompGen s.comp s.authenticated s.outGen ∧
  s.compInGen = expectedCompGen s.comp s.authenticated s.inGen

private theorem cinv_step (s : CSt) (o : COp) (h : CInv s) : CInv (cstep s o) := by
  obtain ⟨h1, h2⟩ := h
  cases hc : s.comp <;> cases ha : s.authenticated <;> cases o <;>
    simp_all [CInv, cstep, CSt.switchOn, expectedCompGen]

/-- **Engines are re-installed on every NEWKEYS.**  After any sequence of key switches (initial exchange and any
number of re-exchanges, in either order per direction) and authentication, the outbound compressor and the
inbound decompressor belong to the current key set of their direction — for "zlib" from the first NEWKEYS on, for
"zlib@openssh.com" from authentication on. -/
theorem compressor_follows_every_newkeys (c : Comp) (ops : List COp) : CInv (crun { comp := c } ops) := by
  have : ∀ s, CInv s → CInv (crun s ops) := by
    induction ops with
    | nil => intro s h; exact h
    | cons o ops ih => intro s h; exact ih _ (cinv_step s o h)
  exact this _ (by cases c <;> simp [CInv, expectedCompGen])

/-- **Both ends agree.**  A sender and a receiver that negotiated the same compression, are in the same
authentication state and have switched keys equally often in that direction use a compressor / decompressor pair
created for the same key set — so the compressed stream stays decodable across every re-exchange. -/
theorem compressor_pair_in_step (c : Comp) (opsS opsR : List COp)
    (hauth : (crun { comp := c } opsS).authenticated = (crun { comp := c } opsR).authenticated)
    (hgen : (crun { comp := c } opsS).outGen = (crun { comp := c } opsR).inGen) :
    (crun { comp := c } opsS).compOutGen = (crun { comp := c } opsR).compInGen := by
  have hS := (compressor_follows_every_newkeys c opsS).1
  have hR := (compressor_follows_every_newkeys c opsR).2
  have hcS : ∀ ops : List COp, (crun { comp := c } ops).comp = c := by
    intro ops
    have : ∀ s : CSt, (crun s ops).comp = s.comp := by
      induction ops with
      | nil => intro s; rfl
      | cons o ops ih =>
        intro s
        simp only [crun, List.foldl_cons] at ih ⊢
        rw [ih]
        cases o <;> simp only [cstep] <;> (repeat' split) <;> rfl
    exact this _
  rw [hS, hR, hcS, hcS, hauth, hgen]

/-- one `set_outbound_compressor` per NEWKEYS sent while compression is on (plus the one of `_auth_trigger`) -/
example : (crun { comp := .zlib } [.newkeysOut, .newkeysIn, .auth, .newkeysOut, .newkeysIn, .newkeysOut]).installsOut = 3 := by
  decide
example : let s := crun { comp := .delayed } [.newkeysOut, .newkeysIn, .auth, .newkeysIn, .newkeysOut]
    s.installsOut = 2 ∧ s.installsIn = 2 ∧ s.compOutGen = some 2 ∧ s.compInGen = some 2 := by decide

/-- **A re-exchange we start ourselves closes the send gate under its lock** (AST of transport.py, read on every
run): every `clear_to_send.clear()` — in `_send_kex_init` (threshold crossing, `renegotiate_keys()`) and in
`_negotiate_keys` — is inside a `clear_to_send_lock` region, and `_send_kex_init` clears before it writes KEXINIT.
`_send_user_message` holds that lock from its `is_set()` test to its write, so our KEXINIT waits for an application
packet that has passed the gate; the step-level proof for every interleaving is `PV.Props.C11.send_gate_window_clean`,
the variant without the lock has the witness `send_gate_unlocked_clear_witness`. -/
theorem self_initiated_rekey_closes_gate_under_lock :
    Generated.C11.allClearsUnderLock = true ∧ Generated.C11.kexInitClearsBeforeWrite = true := by decide

/-- **A re-exchange does not touch who is authenticated.**  In the run-loop model (tied to `Transport.run` by the C09 and
C12 checks) `_parse_newkeys` leaves the authentication flag alone and replaces the auth handler only when there is
none yet (a server's first NEWKEYS); and in the tree under test the assignment to `auth_handler` in `_parse_newkeys`
is guarded by `auth_handler is None` (AST, read on every run).  So new channels and global requests are judged
after a re-exchange exactly as before it. -/
theorem rekey_keeps_authentication (s : PV.RunLoop.St) (x : PV.RunLoop.Ext) :
    (PV.RunLoop.parseNewkeys s x).authenticated = s.authenticated ∧
      (s.authH ≠ .none → (PV.RunLoop.parseNewkeys s x).authH = s.authH) ∧
      Generated.C11.newkeysKeepsAuthHandler = true := by
  refine ⟨?_, ?_, by decide⟩
  · unfold PV.RunLoop.parseNewkeys
    by_cases hk : s.haveK = true <;> by_cases a : s.agreedStrict = true <;>
      by_cases b : (s.server = true ∧ s.authH = .none) <;> by_cases c : x.needRekey = true <;>
      simp [hk, a, b, c, PV.RunLoop.St.fail]
  · intro hne
    unfold PV.RunLoop.parseNewkeys
    by_cases hk : s.haveK = true <;> by_cases a : s.agreedStrict = true <;> by_cases c : x.needRekey = true <;>
      simp [hk, a, c, hne, PV.RunLoop.St.fail]

/-- **How long a sender waits for a re-exchange is a matter of the clock** (AST of `Transport._send_user_message`,
read on every run): the give-up test is `time.time() > start + clear_to_send_timeout` with `start` taken from the
clock before the loop — not a count of 0.1 s wait slices.  A re-exchange that takes longer than a few seconds but
less than `clear_to_send_timeout` must leave parked senders parked ("traffic continues intact"). -/
theorem send_wait_bound_is_elapsed_time : Generated.C11.sendTimeoutReadsClock = true := by decide

/-! ## non-vacuity: a scaled-down packetizer through two complete rekeys and an ignoring peer -/

private def small : Limits := ⟨4, 1000, 3, 500⟩

/-- four packets sent → request; loop top → KEXINIT; both switches → counters and flag cleared -/
example : let s := run small {} [.send 10, .send 10, .send 10, .send 10, .loopTop, .recv 20, .setOut, .setIn]
    s.needRekey = false ∧ s.inKex = false ∧ s.kexInits = 1 ∧ s.sentPackets = 0 ∧ s.recvPackets = 0 ∧
      s.err = false := by decide
/-- the request survives a one-sided switch -/
example : (run small {} [.send 10, .send 10, .send 10, .send 10, .loopTop, .setOut]).needRekey = true := by decide
/-- bytes threshold -/
example : (run small {} [.recv 999, .recv 1]).needRekey = true := by decide
/-- a peer that keeps sending: dropped at the third packet after the request -/
example : (run small {} [.recv 999, .recv 1, .recv 1, .recv 1]).err = false ∧
    (run small {} [.recv 999, .recv 1, .recv 1, .recv 1, .recv 1]).err = true := by decide

/-- fragments around a timeout with a request pending: the header read waits, nothing is lost -/
example : readAll true true 8 0 0 [.data 3, .timeout, .data 5] = .ok 3 := by decide
/-- idle link with a request pending: the exception, with nothing consumed -/
example : readAll true true 8 0 0 [.timeout, .data 8] = .needRekey 0 := by decide

end PV.Props.C10
