/-
  C11 — Key re-exchange is transparent to whatever traffic is in flight.   PARTIAL.
  Model: PV/Model/RekeyFlight.lean.

  Full statement (false of today's code — see the witnesses):
    for every schedule of in-flight peer messages and user sends around a re-exchange,
      (a) between our KEXINIT and our NEWKEYS only message types < 50 go out,
      (b) the session is not lost,
      (c) every parked user message goes out after NEWKEYS, in order.
  Proved: the witnesses for both defect mechanisms, and (a)+(b)+(c) for every schedule whose in-flight
  messages are answered by neither mechanism (`C11_partial`).
-/
import PV.Model.RekeyFlight
namespace PV.Props.C11
open PV.RekeyFlight

/-- a complete re-exchange with one message `k` of the peer in flight when our KEXINIT goes out -/
def crossing (k : Kind) : List Ev := [.startRekey, .inflight k, .peerKexinit, .kexReply, .peerNewkeys]

/-- **Defect (a), mechanism `_send_message`.** A GLOBAL_REQUEST with want_reply or a CHANNEL_OPEN that was in
flight is answered between our KEXINIT and our NEWKEYS: a connection-layer type (≥ 80) inside the window. -/
theorem C11_witness_reply :
    ∀ k ∈ [Kind.globalRequestWantReply, Kind.channelOpen],
      (kexWindow (run {} (crossing k)).wire).any (fun t => !transportLayer t) = true := by decide

/-- **Defect (b), mechanism `_send_user_message` on the transport thread.** An in-flight CHANNEL_CLOSE or channel
request with want_reply makes the transport thread wait for an event only it can set: the session is lost. -/
theorem C11_witness_selfblock :
    ∀ k ∈ [Kind.channelClose, Kind.channelRequestWantReply], (run {} (crossing k)).dead = true := by decide

/-- events that use neither defective mechanism: in-flight messages whose handler sends nothing, user-thread
sends, and the exchange's own steps -/
def Quiet : Ev → Prop
  | .inflight k => mech k = .none
  | _ => True

/-- invariant of a run of quiet events: alive; while an exchange is open the gate is closed and everything since
our KEXINIT is kex traffic; user messages are parked, never written -/
structure Inv (s : St) : Prop where
  alive : s.dead = false
  gate : s.clearToSend = true ↔ (s.phase = .idle ∨ s.phase = .done)
  window : (s.phase = .sentKexinit ∨ s.phase = .kexRunning) →
    ∃ pre kex, s.wire = pre ++ 20 :: kex ∧ ∀ t ∈ kex, t = 30
  closed : s.phase = .sentNewkeys →
    ∃ pre kex, s.wire = pre ++ 20 :: kex ++ [21] ∧ ∀ t ∈ kex, t = 30
  noneParked : s.clearToSend = true → s.parked = []

private theorem inv_step (s : St) (ev : Ev) (hq : Quiet ev) (hi : Inv s) : Inv (step s ev) := by
  obtain ⟨ha, hg, hw, hc, hp⟩ := hi
  unfold step
  rw [if_neg (by simp [ha])]
  cases ev with
  | startRekey =>
    by_cases hph : s.phase = .idle ∨ s.phase = .done
    · rw [if_pos hph]
      exact ⟨ha, by simp, fun _ => ⟨s.wire, [], by simp, by simp⟩, by simp, by simp⟩
    · rw [if_neg hph]; exact ⟨ha, hg, hw, hc, hp⟩
  | inflight k =>
    have : mech k = .none := hq
    simp only [this]; exact ⟨ha, hg, hw, hc, hp⟩
  | userSend t =>
    by_cases hcs : s.clearToSend = true
    · simp only
      rw [if_pos hcs]
      have hph := hg.mp hcs
      refine ⟨ha, hg, ?_, ?_, hp⟩
      · intro h; rcases hph with h' | h' <;> rcases h with h | h <;> simp [h'] at h
      · intro h; rcases hph with h' | h' <;> simp [h'] at h
    · simp only
      rw [if_neg hcs]
      exact ⟨ha, hg, hw, hc, fun h => absurd h hcs⟩
  | peerKexinit =>
    by_cases hph : s.phase = .sentKexinit
    · simp only
      rw [if_pos hph]
      obtain ⟨pre, kex, hwire, hk⟩ := hw (Or.inl hph)
      have hcs : ¬ s.clearToSend = true := fun h => by have := hg.mp h; simp [hph] at this
      refine ⟨ha, ⟨fun h => absurd h hcs, fun h => by simp at h⟩,
        fun _ => ⟨pre, kex ++ [30], by simp [hwire], ?_⟩, by simp, fun h => absurd h hcs⟩
      intro t ht; simp at ht; rcases ht with h | h
      · exact hk t h
      · exact h
    · simp only
      rw [if_neg hph]; exact ⟨ha, hg, hw, hc, hp⟩
  | kexReply =>
    by_cases hph : s.phase = .kexRunning
    · simp only
      rw [if_pos hph]
      obtain ⟨pre, kex, hwire, hk⟩ := hw (Or.inr hph)
      have hcs : ¬ s.clearToSend = true := fun h => by have := hg.mp h; simp [hph] at this
      exact ⟨ha, ⟨fun h => absurd h hcs, fun h => by simp at h⟩, by simp,
        fun _ => ⟨pre, kex, by simp [hwire], hk⟩, fun h => absurd h hcs⟩
    · simp only
      rw [if_neg hph]; exact ⟨ha, hg, hw, hc, hp⟩
  | peerNewkeys =>
    by_cases hph : s.phase = .sentNewkeys
    · simp only
      rw [if_pos hph]
      exact ⟨ha, by simp, by simp, by simp, by simp⟩
    · simp only
      rw [if_neg hph]; exact ⟨ha, hg, hw, hc, hp⟩

/-- **C11_partial.**  For every schedule — any number of in-flight DATA / EXTENDED_DATA / WINDOW_ADJUST / EOF /
no-reply requests / replies to our own requests, any user-thread sends, in any order around the steps of the
exchange — the session is never lost, while an exchange is open everything written since our KEXINIT is
key-exchange traffic, and user messages are parked instead of written. -/
theorem C11_partial (evs : List Ev) (hq : ∀ ev ∈ evs, Quiet ev) : Inv (run {} evs) := by
  have : ∀ s, Inv s → Inv (run s evs) := by
    induction evs with
    | nil => intro s h; exact h
    | cons ev evs ih =>
      intro s h
      exact ih (fun e he => hq e (by simp [he])) _ (inv_step s ev (hq ev (by simp)) h)
  exact this {} ⟨rfl, by simp, by simp, by simp, by simp⟩

/-- … and what was parked during the exchange goes out right after it, in order, nothing else in between -/
theorem C11_partial_delivery (s : St) (hd : s.dead = false) (hph : s.phase = .sentNewkeys) :
    (step s .peerNewkeys).wire = s.wire ++ s.parked ∧ (step s .peerNewkeys).parked = [] ∧
      (step s .peerNewkeys).clearToSend = true := by
  simp [step, hd, hph]

/-! ## non-vacuity -/

/-- a quiet crossing with a parked user message: delivered after NEWKEYS, window clean -/
example : let s := run {} [.startRekey, .inflight .data, .userSend 94, .inflight .windowAdjust, .peerKexinit,
      .inflight .eof, .kexReply, .userSend 94, .peerNewkeys]
    s.wire = [20, 30, 21, 94, 94] ∧ s.dead = false ∧ kexWindow s.wire = [30] := by decide
example : ∀ ev ∈ [Ev.startRekey, .inflight .data, .userSend 94, .peerKexinit], Quiet ev := by
  intro ev h; simp at h; rcases h with rfl | rfl | rfl | rfl <;> simp [Quiet, mech]
/-- the witnesses are not quiet -/
example : ¬ Quiet (.inflight .channelClose) := by simp [Quiet, mech]

end PV.Props.C11
