/-
  C11 — Key re-exchange is transparent to whatever traffic is in flight.   PARTIAL.
  Model: PV/Model/RekeyFlight.lean.

  Full statement (false of today's code — see the witnesses):
    for every schedule of in-flight peer messages and user sends around a re-exchange,
      (a) between our KEXINIT and our NEWKEYS only message types < 50 go out,
      (b) the session is not lost,
      (c) every parked user message goes out after NEWKEYS, in order.
  Proved: the witnesses for both defect mechanisms, and (a)+(b)+(c) for every schedule whose in-flight
  messages are answered by neither mechanism (`C11_partial`).
-/
import PV.Model.RekeyFlight
import PV.Model.RekeyLock
import PV.Model.SendGate
import PV.Generated.C11
namespace PV.Props.C11
open PV.RekeyFlight

/-- a complete re-exchange with one message `k` of the peer in flight when our KEXINIT goes out -/
def crossing (k : Kind) : List Ev := [.startRekey, .inflight k, .peerKexinit, .kexReply, .peerNewkeys]

/-- **Defect (a), mechanism `_send_message`.** A GLOBAL_REQUEST with want_reply or a CHANNEL_OPEN that was in
flight is answered between our KEXINIT and our NEWKEYS: a connection-layer type (≥ 80) inside the window. -/
theorem C11_witness_reply :
    ∀ k ∈ [Kind.globalRequestWantReply, Kind.channelOpen],
      (kexWindow (run {} (crossing k)).wire).any (fun t => !transportLayer t) = true := by decide

/-- **Defect (b), mechanism `_send_user_message` on the transport thread.** An in-flight CHANNEL_CLOSE, channel
request with want_reply, CHANNEL_FAILURE (→ `_request_failed` closes the channel) or enough discarded extended data
(→ `_feed_extended` sends a window adjustment) makes the transport thread wait for an event only it can set: the
session is lost. -/
theorem C11_witness_selfblock :
    ∀ k ∈ [Kind.channelClose, Kind.channelRequestWantReply, Kind.channelFailure, Kind.extendedDataDiscarded],
      (run {} (crossing k)).dead = true := by decide

/-- events that use neither defective mechanism: in-flight messages whose handler sends nothing, user-thread
sends, and the exchange's own steps -/
def Quiet : Ev → Prop
  | .inflight k => mech k = .none
  | _ => True

/-- invariant of a run of quiet events: alive; while an exchange is open the gate is closed and everything since
our KEXINIT is kex traffic; user messages are parked, never written -/
structure Inv (s : St) : Prop where
  alive : s.dead = false
  gate : s.clearToSend = true ↔ (s.phase = .idle ∨ s.phase = .done)
  window : (s.phase = .sentKexinit ∨ s.phase = .kexRunning) →
    ∃ pre kex, s.wire = pre ++ 20 :: kex ∧ ∀ t ∈ kex, t = 30
  closed : s.phase = .sentNewkeys →
    ∃ pre kex, s.wire = pre ++ 20 :: kex ++ [21] ∧ ∀ t ∈ kex, t = 30
  noneParked : s.clearToSend = true → s.parked = []

private theorem inv_step (s : St) (ev : Ev) (hq : Quiet ev) (hi : Inv s) : Inv (step s ev) := by
  obtain ⟨ha, hg, hw, hc, hp⟩ := hi
  unfold step
  rw [if_neg (by simp [ha])]
  cases ev with
  | startRekey =>
    by_cases hph : s.phase = .idle ∨ s.phase = .done
    · rw [if_pos hph]
      exact ⟨ha, by simp, fun _ => ⟨s.wire, [], by simp, by simp⟩, by simp, by simp⟩
    · rw [if_neg hph]; exact ⟨ha, hg, hw, hc, hp⟩
  | inflight k =>
    have : mech k = .none := hq
    simp only [this]; exact ⟨ha, hg, hw, hc, hp⟩
  | userSend t =>
    by_cases hcs : s.clearToSend = true
    · simp only
      rw [if_pos hcs]
      have hph := hg.mp hcs
      refine ⟨ha, hg, ?_, ?_, hp⟩
      · intro h; rcases hph with h' | h' <;> rcases h with h | h <;> simp [h'] at h
      · intro h; rcases hph with h' | h' <;> simp [h'] at h
    · simp only
      rw [if_neg hcs]
      exact ⟨ha, hg, hw, hc, fun h => absurd h hcs⟩
  | peerKexinit =>
    by_cases hph : s.phase = .sentKexinit
    · simp only
      rw [if_pos hph]
      obtain ⟨pre, kex, hwire, hk⟩ := hw (Or.inl hph)
      have hcs : ¬ s.clearToSend = true := fun h => by have := hg.mp h; simp [hph] at this
      refine ⟨ha, ⟨fun h => absurd h hcs, fun h => by simp at h⟩,
        fun _ => ⟨pre, kex ++ [30], by simp [hwire], ?_⟩, by simp, fun h => absurd h hcs⟩
      intro t ht; simp at ht; rcases ht with h | h
      · exact hk t h
      · exact h
    · simp only
      rw [if_neg hph]; exact ⟨ha, hg, hw, hc, hp⟩
  | kexReply =>
    by_cases hph : s.phase = .kexRunning
    · simp only
      rw [if_pos hph]
      obtain ⟨pre, kex, hwire, hk⟩ := hw (Or.inr hph)
      have hcs : ¬ s.clearToSend = true := fun h => by have := hg.mp h; simp [hph] at this
      exact ⟨ha, ⟨fun h => absurd h hcs, fun h => by simp at h⟩, by simp,
        fun _ => ⟨pre, kex, by simp [hwire], hk⟩, fun h => absurd h hcs⟩
    · simp only
      rw [if_neg hph]; exact ⟨ha, hg, hw, hc, hp⟩
  | peerNewkeys =>
    by_cases hph : s.phase = .sentNewkeys
    · simp only
      rw [if_pos hph]
      exact ⟨ha, by simp, by simp, by simp, by simp⟩
    · simp only
      rw [if_neg hph]; exact ⟨ha, hg, hw, hc, hp⟩

/-- **C11_partial.**  For every schedule — any number of in-flight DATA / EXTENDED_DATA / WINDOW_ADJUST / EOF /
no-reply requests / replies to our own requests, any user-thread sends, in any order around the steps of the
exchange — the session is never lost, while an exchange is open everything written since our KEXINIT is
key-exchange traffic, and user messages are parked instead of written. -/
theorem C11_partial (evs : List Ev) (hq : ∀ ev ∈ evs, Quiet ev) : Inv (run {} evs) := by
  have : ∀ s, Inv s → Inv (run s evs) := by
    induction evs with
    | nil => intro s h; exact h
    | cons ev evs ih =>
      intro s h
      exact ih (fun e he => hq e (by simp [he])) _ (inv_step s ev (hq ev (by simp)) h)
  exact this {} ⟨rfl, by simp, by simp, by simp, by simp⟩

/-- … and what was parked during the exchange goes out right after it, in order, nothing else in between -/
theorem C11_partial_delivery (s : St) (hd : s.dead = false) (hph : s.phase = .sentNewkeys) :
    (step s .peerNewkeys).wire = s.wire ++ s.parked ∧ (step s .peerNewkeys).parked = [] ∧
      (step s .peerNewkeys).clearToSend = true := by
  simp [step, hd, hph]

/-! ## non-vacuity -/

/-- a quiet crossing with a parked user message: delivered after NEWKEYS, window clean -/
example : let s := run {} [.startRekey, .inflight .data, .userSend 94, .inflight .windowAdjust, .peerKexinit,
      .inflight .eof, .kexReply, .userSend 94, .peerNewkeys]
    s.wire = [20, 30, 21, 94, 94] ∧ s.dead = false ∧ kexWindow s.wire = [30] := by decide
example : ∀ ev ∈ [Ev.startRekey, .inflight .data, .userSend 94, .peerKexinit], Quiet ev := by
  intro ev h; simp at h; rcases h with rfl | rfl | rfl | rfl <;> simp [Quiet, mech]
/-- the witnesses are not quiet -/
example : ¬ Quiet (.inflight .channelClose) := by simp [Quiet, mech]

/-! ## Channel.lock as a resource: user threads never wait for the exchange while holding it -/

section Lock
open PV.RekeyLock

/-- what must be on the wire after our KEXINIT and the kex messages, given the progress of both threads -/
def expectedTail (s : RekeyLock.St) : List Nat :=
  match s.phase with
  | .sentKexinit | .kexRunning => []
  | .sentNewkeys => [21]
  | .done => if s.upc = .done then [21, s.userType] else [21]

structure LInv (s : RekeyLock.St) : Prop where
  lockPc : s.lockUser = true ↔ (s.upc = .crit ∨ s.upc = .waitHolding)
  noHold : s.underLock = false → s.upc ≠ .waitHolding
  kex : s.inbox.filter isKex = remaining s.phase
  ctsPhase : s.cts = true ↔ s.phase = .done
  doneCts : s.upc = .done → s.cts = true
  wire : ∃ kex, s.wire = 20 :: kex ++ expectedTail s ∧ ∀ t ∈ kex, t = 30

/-- the situation the theorems start from: our KEXINIT is out, the user thread is about to make its call, and the
transport thread will find any channel messages (lock-taking or not) interleaved in any way with the peer's three
kex packets -/
theorem linv_init (underLock : Bool) (userType : Nat) (inbox : List TMsg)
    (h : inbox.filter isKex = [.peerKexinit, .kexReply, .peerNewkeys]) :
    LInv { underLock, userType, inbox } :=
  ⟨by simp, by simp, h, by simp, by simp, ⟨[], by simp [expectedTail], by simp⟩⟩

private theorem tail_done (s : RekeyLock.St) (kex : List Nat) (hp : s.phase = .done) (hnd : s.upc ≠ .done)
    (hw : s.wire = 20 :: kex ++ expectedTail s) : s.wire ++ [s.userType] = 20 :: kex ++ [21, s.userType] := by
  simp [expectedTail, hp, hnd] at hw; rw [hw]; simp

private theorem tail_same (s : RekeyLock.St) (a b : UPc) (ha : a ≠ .done) (hb : b ≠ .done) (hu : s.upc = a) :
    expectedTail { s with upc := b } = expectedTail s := by
  cases hp : s.phase <;> simp [expectedTail, hp, hu, ha, hb]

private theorem linv_user (s : RekeyLock.St) (hi : LInv s) : LInv (stepUser s) := by
  obtain ⟨h1, h2, h3, h4, h5, kex, hw, hk⟩ := hi
  have finish : ∀ (a : UPc), s.upc = a → a ≠ .done → s.cts = true → ∀ (l : Bool),
      LInv { s with upc := .done, lockUser := l, wire := s.wire ++ [s.userType] } → True := fun _ _ _ _ _ _ => trivial
  unfold stepUser
  cases hu : s.upc with
  | start =>
    simp only
    refine ⟨by simp, by simp, h3, h4, by simp, kex, ?_, hk⟩
    have := tail_same s .start .crit (by simp) (by simp) hu
    simp only [expectedTail] at this ⊢ hw
    cases hp : s.phase <;> simp [hp, hu] at hw ⊢ <;> exact hw
  | crit =>
    simp only
    have hnd : s.upc ≠ .done := by simp [hu]
    have hlk : s.lockUser = true := h1.mpr (Or.inl hu)
    by_cases hul : s.underLock = true
    · rw [if_pos hul]
      by_cases hc : s.cts = true
      · rw [if_pos hc]
        have hp := h4.mp hc
        exact ⟨by simp, by simp, h3, h4, fun _ => hc, kex,
          by simpa [expectedTail, hp] using tail_done s kex hp hnd hw, hk⟩
      · rw [if_neg hc]
        refine ⟨by simp [hlk], by simp [hul], h3, h4, by simp, kex, ?_, hk⟩
        cases hp : s.phase <;> simp [expectedTail, hp, hu] at hw ⊢ <;> exact hw
    · rw [if_neg hul]
      by_cases hc : s.cts = true
      · rw [if_pos hc]
        have hp := h4.mp hc
        exact ⟨by simp, by simp, h3, h4, fun _ => hc, kex,
          by simpa [expectedTail, hp] using tail_done s kex hp hnd hw, hk⟩
      · rw [if_neg hc]
        refine ⟨by simp, by simp, h3, h4, by simp, kex, ?_, hk⟩
        cases hp : s.phase <;> simp [expectedTail, hp, hu] at hw ⊢ <;> exact hw
  | waitFree =>
    simp only
    have hnd : s.upc ≠ .done := by simp [hu]
    by_cases hc : s.cts = true
    · rw [if_pos hc]
      have hp := h4.mp hc
      have hl : s.lockUser = false := by
        cases hlu : s.lockUser with
        | false => rfl
        | true => have := h1.mp hlu; simp [hu] at this
      exact ⟨by simp [hl], by simp, h3, h4, fun _ => hc, kex,
        by simpa [expectedTail, hp] using tail_done s kex hp hnd hw, hk⟩
    · rw [if_neg hc]
      exact ⟨h1, h2, h3, h4, h5, kex, hw, hk⟩
  | waitHolding =>
    simp only
    have hnd : s.upc ≠ .done := by simp [hu]
    by_cases hc : s.cts = true
    · rw [if_pos hc]
      have hp := h4.mp hc
      exact ⟨by simp, by simp, h3, h4, fun _ => hc, kex,
        by simpa [expectedTail, hp] using tail_done s kex hp hnd hw, hk⟩
    · rw [if_neg hc]
      exact ⟨h1, h2, h3, h4, h5, kex, hw, hk⟩
  | done =>
    simp only
    exact ⟨h1, h2, h3, h4, h5, kex, hw, hk⟩

private theorem kex_pop (m : TMsg) (rest : List TMsg) (ph : RekeyLock.Phase) (hm : isKex m = true)
    (h : (m :: rest).filter isKex = remaining ph) : remaining ph = m :: rest.filter isKex := by
  rw [List.filter_cons_of_pos hm] at h; exact h.symm

private theorem linv_transport (s : RekeyLock.St) (hi : LInv s) : LInv (stepTransport s) := by
  obtain ⟨h1, h2, h3, h4, h5, kex, hw, hk⟩ := hi
  have hcts_of : s.phase ≠ .done → s.cts = false := by
    intro hne
    cases hc : s.cts with
    | false => rfl
    | true => exact absurd (h4.mp hc) hne
  unfold stepTransport
  cases hb : s.inbox with
  | nil => simp only; exact ⟨h1, h2, h3, h4, h5, kex, hw, hk⟩
  | cons m rest =>
    rw [hb] at h3
    cases m with
    | handler tl =>
      simp only
      by_cases hc : tl = true ∧ s.lockUser = true
      · rw [if_pos hc]; exact ⟨h1, h2, by rw [hb]; exact h3, h4, h5, kex, hw, hk⟩
      · rw [if_neg hc]
        have h3' : rest.filter isKex = remaining s.phase := by
          rw [List.filter_cons_of_neg (by simp [isKex])] at h3; exact h3
        exact ⟨h1, h2, h3', h4, h5, kex, hw, hk⟩
    | peerKexinit =>
      have hr := kex_pop _ rest s.phase rfl h3
      have hp : s.phase = .sentKexinit := by
        cases hp : s.phase <;> simp [hp, remaining] at hr ⊢
      simp only
      rw [if_pos hp]
      rw [hp] at hr
      have h3' : rest.filter isKex = remaining .kexRunning := by
        simp only [remaining] at hr ⊢; exact (List.cons.inj hr).2.symm
      have hcts := hcts_of (by simp [hp])
      refine ⟨h1, h2, h3', by simp [hcts], fun h => by simp [h5 h] at hcts, kex ++ [30], ?_, ?_⟩
      · simp [expectedTail, hp] at hw ⊢; simp [hw]
      · intro t ht; simp at ht; rcases ht with h | h
        · exact hk t h
        · exact h
    | kexReply =>
      have hr := kex_pop _ rest s.phase rfl h3
      have hp : s.phase = .kexRunning := by
        cases hp : s.phase <;> simp [hp, remaining] at hr ⊢
      simp only
      rw [if_pos hp]
      rw [hp] at hr
      have h3' : rest.filter isKex = remaining .sentNewkeys := by
        simp only [remaining] at hr ⊢; exact (List.cons.inj hr).2.symm
      have hcts := hcts_of (by simp [hp])
      refine ⟨h1, h2, h3', by simp [hcts], fun h => by simp [h5 h] at hcts, kex, ?_, hk⟩
      simp [expectedTail, hp] at hw ⊢; simp [hw]
    | peerNewkeys =>
      have hr := kex_pop _ rest s.phase rfl h3
      have hp : s.phase = .sentNewkeys := by
        cases hp : s.phase <;> simp [hp, remaining] at hr ⊢
      simp only
      rw [if_pos hp]
      rw [hp] at hr
      have h3' : rest.filter isKex = remaining .done := by
        simp only [remaining] at hr ⊢; exact (List.cons.inj hr).2.symm
      have hcts := hcts_of (by simp [hp])
      have hnd : s.upc ≠ .done := fun h => by simp [h5 h] at hcts
      refine ⟨h1, h2, h3', by simp, fun _ => rfl, kex, ?_, hk⟩
      simp [expectedTail, hp, hnd] at hw ⊢; exact hw

theorem linv_step (s : RekeyLock.St) (t : Tid) (hi : LInv s) : LInv (RekeyLock.step s t) := by
  cases t
  · exact linv_user s hi
  · exact linv_transport s hi

/-- the invariant holds after every schedule of the two threads -/
theorem linv_run (s : RekeyLock.St) (sched : List Tid) (hi : LInv s) : LInv (RekeyLock.run s sched) := by
  induction sched generalizing s with
  | nil => exact hi
  | cons t ts ih => exact ih _ (linv_step s t hi)

/-- **No deadlock (current code).**  If the user thread's call does not hand its message to
`_send_user_message` while holding `Channel.lock`, then in every reachable state that is not finished at least one
of the two threads can move: the transport thread is never stuck behind a lock whose holder waits for the
exchange. -/
theorem rekey_lock_progress (s : RekeyLock.St) (hi : LInv s) (hul : s.underLock = false)
    (hnf : ¬ finished s) : stepUser s ≠ s ∨ stepTransport s ≠ s := by
  obtain ⟨h1, h2, h3, h4, h5, _⟩ := hi
  have hnh := h2 hul
  cases hb : s.inbox with
  | cons m rest =>
    -- the transport thread moves unless a lock-taking handler finds the lock held — then the holder is in
    -- its critical section and releases
    cases m with
    | handler tl =>
      by_cases hc : tl = true ∧ s.lockUser = true
      · left
        have := h1.mp hc.2
        rcases this with h | h
        · unfold stepUser; simp only [h, hul, Bool.false_eq_true, if_false]
          intro heq
          have := congrArg RekeyLock.St.upc heq
          by_cases hcts : s.cts = true <;> simp [hcts, h] at this
        · exact absurd h hnh
      · right
        unfold stepTransport; simp only [hb]; rw [if_neg hc]
        intro heq; have := congrArg (fun x => x.inbox.length) heq; simp [hb] at this
    | peerKexinit =>
      right; unfold stepTransport; simp only [hb]
      intro heq; have := congrArg (fun x => x.inbox.length) heq
      split at this <;> simp [hb] at this
    | kexReply =>
      right; unfold stepTransport; simp only [hb]
      intro heq; have := congrArg (fun x => x.inbox.length) heq
      split at this <;> simp [hb] at this
    | peerNewkeys =>
      right; unfold stepTransport; simp only [hb]
      intro heq; have := congrArg (fun x => x.inbox.length) heq
      split at this <;> simp [hb] at this
  | nil =>
    -- nothing left to read: the exchange is over (cts set), the user thread finishes its call
    left
    rw [hb] at h3
    have hph : s.phase = .done := by
      cases hp : s.phase <;> simp [hp, remaining] at h3; rfl
    have hcts : s.cts = true := h4.mpr hph
    have hnd : s.upc ≠ .done := fun h => hnf ⟨h, hb⟩
    unfold stepUser
    cases hu : s.upc <;> simp only [hu, hul, hcts, if_true, Bool.false_eq_true, if_false] <;>
      first
      | exact absurd hu hnd
      | exact absurd hu hnh
      | (intro heq; have := congrArg RekeyLock.St.upc heq; simp [hu] at this)

/-- every step that changes anything uses up the bound: at most `measure s` effective steps, so with
`rekey_lock_progress` every schedule that keeps running enabled threads ends in `finished` -/
theorem rekey_lock_measure (s : RekeyLock.St) (t : Tid) (h : RekeyLock.step s t ≠ s) :
    RekeyLock.measure (RekeyLock.step s t) < RekeyLock.measure s := by
  cases t with
  | user =>
    simp only [RekeyLock.step] at h ⊢
    unfold stepUser at h ⊢
    cases hu : s.upc <;> simp only [hu] at h ⊢
    · simp [RekeyLock.measure, rank, hu]
    · by_cases a : s.underLock = true <;> by_cases b : s.cts = true <;> simp [RekeyLock.measure, rank, hu, a, b]
    · by_cases b : s.cts = true
      · simp [RekeyLock.measure, rank, hu, b]
      · simp [b] at h
    · by_cases b : s.cts = true
      · simp [RekeyLock.measure, rank, hu, b]
      · simp [b] at h
    · simp at h
  | transport =>
    simp only [RekeyLock.step] at h ⊢
    unfold stepTransport at h ⊢
    cases hb : s.inbox with
    | nil => simp [hb] at h
    | cons m rest =>
      simp only [hb] at h ⊢
      cases m with
      | handler tl =>
        simp only at h ⊢
        by_cases hc : tl = true ∧ s.lockUser = true
        · rw [if_pos hc] at h; exact absurd rfl h
        · rw [if_neg hc]; simp [RekeyLock.measure, hb]
      | peerKexinit => simp only; split <;> simp [RekeyLock.measure, hb]
      | kexReply => simp only; split <;> simp [RekeyLock.measure, hb]
      | peerNewkeys => simp only; split <;> simp [RekeyLock.measure, hb]

/-- **What a finished run looks like** (any schedule, with or without the lock held): our KEXINIT, kex messages,
our NEWKEYS, and only then the user thread's message — nothing of the connection layer inside the window -/
theorem rekey_lock_finished_wire (s : RekeyLock.St) (hi : LInv s) (hf : finished s) :
    ∃ kex, s.wire = 20 :: kex ++ [21, s.userType] ∧ ∀ t ∈ kex, t = 30 := by
  obtain ⟨_, _, _, h4, h5, kex, hw, hk⟩ := hi
  have hp := h4.mp (h5 hf.1)
  exact ⟨kex, by simpa [expectedTail, hp, hf.1] using hw, hk⟩

/-- **Witness for the lock-holding variant** (what the mutated `shutdown()` does): an in-flight WINDOW_ADJUST ahead
of the peer's kex packets, the user thread waits for the exchange while holding the lock — neither thread can
move, nothing is finished. -/
theorem rekey_lock_held_deadlock_witness :
    let s := RekeyLock.run
      { underLock := true, inbox := [.handler true, .peerKexinit, .kexReply, .peerNewkeys] } [Tid.user, Tid.user]
    stepUser s = s ∧ stepTransport s = s ∧ ¬ finished s := by decide

/-- the same schedule with today's code runs to completion -/
example : finished (RekeyLock.run
      { underLock := false, inbox := [.handler true, .peerKexinit, .kexReply, .peerNewkeys] }
      [Tid.user, .user, .transport, .transport, .transport, .transport, .user]) ∧
    (RekeyLock.run { underLock := false, inbox := [.handler true, .peerKexinit, .kexReply, .peerNewkeys] }
      [Tid.user, .user, .transport, .transport, .transport, .transport, .user]).wire = [20, 30, 21, 96] := by
  decide

/-- **The tree under test.**  No call site of `_send_user_message` in a user-thread method of `Channel` is inside a
`Channel.lock` region (read from the AST on every run) — the hypothesis `underLock = false` of
`rekey_lock_progress` for every channel API call. -/
theorem user_sites_release_lock_first :
    ∀ site ∈ Generated.C11.sites, site.onTransportThread = false → site.underLock = false := by decide

/-- the transport-thread call sites of `_send_user_message` are exactly the handlers behind the self-block
findings (`_handle_request`, `_handle_close`; `_request_failed` and the discard branch of `_feed_extended` use the
same mechanism): a new one would be a new finding -/
theorem transport_thread_sites :
    ((Generated.C11.sites.filter (·.onTransportThread)).map (·.func)).eraseDups
      = ["_request_failed", "_feed_extended", "_handle_request", "_handle_close"] := by decide

/-- the handlers that can be blocked by a held lock -/
example : Generated.C11.handlers.lookup "_window_adjust" = some true := by decide

end Lock

/-! ## the send gate at step granularity: `_send_user_message` against `_send_kex_init` / `_parse_newkeys` -/

section Gate
open PV.SendGate

/-- control invariant: who holds `clear_to_send_lock`, when the event is cleared, and — the point of the re-check
under the lock — a user thread that is about to write has seen the event set *while holding the lock* -/
def GInv (c : Ctrl) : Bool :=
  (decide (c.lock = .user) == (c.upc == .locked || c.upc == .sending || c.upc == .sent)) &&
  (decide (c.lock = .kex) == (c.kpc == .haveLock || c.kpc == .cleared || c.kpc == .setLock || c.kpc == .setDone)) &&
  ((!c.event) == (c.kpc == .cleared || c.kpc == .released || c.kpc == .sentKexinit || c.kpc == .sentKex ||
      c.kpc == .sentNewkeys || c.kpc == .setLock)) &&
  (!(c.upc == .sending) || c.event)

private theorem ginv_user (c : Ctrl) (more : Bool) (h : GInv c = true) : GInv (cuser true more c) = true := by
  obtain ⟨lock, ev, u, k⟩ := c
  cases lock <;> cases ev <;> cases u <;> cases k <;> cases more <;> revert h <;> decide

private theorem ginv_kex (c : Ctrl) (h : GInv c = true) : GInv (ckex true c) = true := by
  obtain ⟨lock, ev, u, k⟩ := c
  cases lock <;> cases ev <;> cases u <;> cases k <;> revert h <;> decide

private theorem ginv_safe (c : Ctrl) (h : GInv c = true) (hs : c.upc = .sending) : c.kpc = .idle ∨ c.kpc = .done := by
  obtain ⟨lock, ev, u, k⟩ := c
  cases lock <;> cases ev <;> cases u <;> cases k <;> revert h hs <;> decide

/-- the wire is: user data, then the exchange's messages so far, then — only once the exchange is over — user
data again -/
def WInv (s : SendGate.St) : Prop :=
  ∃ pre post, s.wire = pre ++ kexPart s.c.kpc ++ post ∧ (∀ t ∈ pre, t = 94) ∧ (∀ t ∈ post, t = 94) ∧
    (post ≠ [] → s.c.kpc = .done)

private theorem kexPart_step (s : SendGate.St) :
    kexPart (ckex s.klock s.c).kpc = kexPart s.c.kpc ++ written s .kex ∧
      (s.c.kpc = .done → (ckex s.klock s.c).kpc = .done) := by
  obtain ⟨r, kl, ⟨lock, ev, u, k⟩, td, w⟩ := s
  cases k <;> cases lock <;> cases kl <;> simp [ckex, kexPart, written]

private theorem gate_step (s : SendGate.St) (t : SendGate.Tid) (hr : s.recheck = true) (hkl : s.klock = true)
    (hg : GInv s.c = true) (hw : WInv s) :
    GInv (SendGate.step s t).c = true ∧ WInv (SendGate.step s t) ∧ (SendGate.step s t).recheck = true ∧
      (SendGate.step s t).klock = true := by
  obtain ⟨pre, post, hwire, hpre, hpost, hdone⟩ := hw
  cases t with
  | user =>
    refine ⟨by simpa [SendGate.step, hr] using ginv_user s.c _ hg, ?_, by simpa [SendGate.step] using hr,
      by simpa [SendGate.step] using hkl⟩
    have hk : (cuser s.recheck (decide (s.todo > 1)) s.c).kpc = s.c.kpc := by
      obtain ⟨lock, ev, u, k⟩ := s.c
      cases u <;> simp [cuser] <;> (repeat' split) <;> rfl
    by_cases hs : s.c.upc = .sending
    · rcases ginv_safe s.c hg hs with hi | hd
      · have hp : post = [] := by
          cases post with
          | nil => rfl
          | cons a as => have := hdone (by simp); simp [hi] at this
        refine ⟨pre ++ [94], [], ?_, ?_, by simp, by simp⟩
        · simp [SendGate.step, written, hs, hk, hwire, hp, hi, kexPart]
        · intro t ht; simp at ht; rcases ht with h | h
          · exact hpre t h
          · exact h
      · refine ⟨pre, post ++ [94], ?_, hpre, ?_, fun _ => by simp [SendGate.step, hk, hd]⟩
        · simp [SendGate.step, written, hs, hk, hwire]
        · intro t ht; simp at ht; rcases ht with h | h
          · exact hpost t h
          · exact h
    · exact ⟨pre, post, by simp [SendGate.step, written, hs, hk, hwire], hpre, hpost,
        fun h => by simpa [SendGate.step, hk] using hdone h⟩
  | kex =>
    refine ⟨by simpa [SendGate.step, hkl] using ginv_kex s.c hg, ?_, by simpa [SendGate.step] using hr,
      by simpa [SendGate.step] using hkl⟩
    obtain ⟨h1, h2⟩ := kexPart_step s
    by_cases hd : s.c.kpc = .done
    · refine ⟨pre, post, ?_, hpre, hpost, fun _ => by simpa [SendGate.step] using h2 hd⟩
      have hwn : written s .kex = [] := by simp [written, hd]
      have : (ckex s.klock s.c).kpc = .done := h2 hd
      simp [SendGate.step, hwn, this, hwire, hd]
    · have hp : post = [] := by
        cases post with
        | nil => rfl
        | cons a as => exact absurd (hdone (by simp)) hd
      refine ⟨pre, [], ?_, hpre, by simp, by simp⟩
      simp only [SendGate.step, List.append_nil]
      rw [h1, hwire, hp]
      simp

/-- **The send gate, every interleaving.**  With the re-check of the event under `clear_to_send_lock`, for any number
of user messages and any schedule of the user thread's and the exchange's steps: every user message is on the wire
either before our KEXINIT or after our NEWKEYS — between them only the exchange's own messages. -/
theorem send_gate_window_clean (n : Nat) (sched : List SendGate.Tid) :
    WInv (SendGate.run (SendGate.init true n) sched) := by
  have : ∀ s : SendGate.St, s.recheck = true → s.klock = true → GInv s.c = true → WInv s →
      WInv (SendGate.run s sched) := by
    induction sched with
    | nil => intro s _ _ _ h; exact h
    | cons t ts ih =>
      intro s hr hkl hg hw
      obtain ⟨a, b, c, d⟩ := gate_step s t hr hkl hg hw
      exact ih _ c d a b
  refine this _ rfl rfl ?_ ⟨[], [], by simp [SendGate.init, kexPart], by simp, by simp, by simp⟩
  by_cases h : n = 0 <;> simp [SendGate.init, h, GInv]

/-- **Witness for the variant without the re-check** (trusting the result of `wait()`): the user thread returns
from `wait()`, the exchange starts and KEXINIT goes out, then the user thread takes the lock and writes — a
CHANNEL_DATA between our KEXINIT and our NEWKEYS. -/
theorem send_gate_no_recheck_witness :
    (SendGate.run (SendGate.init false 1)
      [.user, .kex, .kex, .kex, .kex, .user, .user, .kex, .kex]).wire = [20, 94, 30, 21] := by decide

/-- **Witness for the variant whose `_send_kex_init` clears the event without the lock** (the sender's re-check
under the lock is intact): a sender parked between its `is_set()` test and its write is overtaken — the event is
cleared and KEXINIT written while it still holds the lock, then its CHANNEL_DATA goes out inside the window. -/
theorem send_gate_unlocked_clear_witness :
    (SendGate.run (SendGate.init true 1 false)
      [.user, .user, .user, .kex, .kex, .kex, .kex, .user, .user, .kex, .kex]).wire = [20, 94, 30, 21] := by decide

/-- the same schedule with the re-check: the message waits for the end of the exchange -/
example : (SendGate.run (SendGate.init true 1)
    [.user, .kex, .kex, .kex, .kex, .user, .user, .kex, .kex, .kex, .kex, .kex, .user, .user, .user, .user, .user]).wire
      = [20, 30, 21, 94] := by decide

/-- **The tree under test** (AST of `Transport._send_user_message` / `_send_kex_init`, read on every run): the
`_send_message` call of `_send_user_message` is reached only through an `is_set()` test made while
`clear_to_send_lock` is held, `_send_kex_init` clears the event under that lock before it writes KEXINIT, and every
`clear_to_send.clear()` in transport.py is inside a `clear_to_send_lock` region. -/
theorem send_gate_facts :
    Generated.C11.sendRechecksUnderLock = true ∧ Generated.C11.kexInitClearsBeforeWrite = true ∧
      Generated.C11.allClearsUnderLock = true := by decide

/-- **What the "peer ignores our request" test counts** (AST of `Packetizer.read_message`, read on every run): the
packets and bytes received *since the request* (`received_*_overflow`), against the overflow allowances — not the
epoch totals that raised the request in the first place.  With the shipped 1:1 ratio of REKEY_BYTES and
REKEY_BYTES_OVERFLOW_MAX a test on the epoch total would drop every peer at the first packet after a
received-bytes-triggered request, in-flight data and the peer's own KEXINIT included. -/
theorem overflow_tests_count_from_the_request :
    Generated.C11.overflowTests =
      [("received_packets_overflow", "REKEY_PACKETS_OVERFLOW_MAX"),
       ("received_bytes_overflow", "REKEY_BYTES_OVERFLOW_MAX")] := by decide

/-- **Keepalives stay quiet while a re-exchange is pending** (AST of `Packetizer._check_keepalive`, read on every run):
the early return on `need_rekey` comes before the callback.  The callback is `Transport.global_request(…,
wait=False)`, i.e. `_send_user_message` *on the transport thread* — the self-block mechanism of
`C11_witness_selfblock` — and an idle time-out in the middle of an in-flight packet does reach `_check_keepalive`
with the request pending. -/
theorem keepalive_silent_while_rekey_pending : Generated.C11.keepaliveSilentWhileRekeyPending = true := by decide

/-- **A window credit that cannot be sent yet is parked, not dropped** (AST of `Channel.recv` / `recv_stderr`, read on
every run): once `_check_add_window` has handed out a credit (and zeroed `in_window_sofar`) the WINDOW_ADJUST is
sent under the plain test `ack > 0` — through `_send_user_message`, i.e. a user-thread message that the model parks
while an exchange is open and writes right after NEWKEYS (`C11_partial_delivery`).  Skipping the send while
`clear_to_send` is cleared would lose the credit for good: the peer's window shrinks with every re-exchange. -/
theorem window_credit_parked_not_dropped : Generated.C11.recvSendsEveryComputedAck = true := by decide

/-- **Who writes past the send gate** (AST of transport.py, read on every run): `_send_message` is called directly only
by the gate itself (`_send_user_message`), by code that runs on the transport thread as part of the exchange or as a
handler (`run`, `_send_kex_init`, `_activate_outbound`, `_parse_global_request`, `_parse_channel_open` — the last two
are the `reply-during-kex` findings) and by `ServiceRequestingTransport.ensure_session` (before authentication).  No
user-facing sender — `global_request` in either form, `open_channel`, `send_ignore`, … — is on the list: user threads
reach the wire through `_send_user_message` only, which is what `send_gate_window_clean` and `C11_partial` rely on. -/
theorem only_exchange_code_bypasses_the_gate :
    Generated.C11.sendMessageCallers =
      ["Transport._send_user_message", "Transport.run", "Transport._send_kex_init", "Transport._activate_outbound",
       "Transport._parse_global_request", "Transport._parse_channel_open",
       "ServiceRequestingTransport.ensure_session"] := by decide

/-- Every KEXINIT this side sends — from the run loop, from `renegotiate_keys`, or from `_negotiate_keys` answering the
peer's — is sent by `_send_kex_init`, which raises `in_kex` before it writes the packet (read from the AST every run).
So while an exchange is open the run loop's `need_rekey() and not in_kex` test cannot send a second KEXINIT into it. -/
theorem every_kexinit_marks_the_exchange_open : Generated.C11.kexInitMarksExchangeOpen = true := by decide

end Gate

end PV.Props.C11
