/-
  C45 — Agent signing requests ask for the hash the caller requested.
  Property theorems only.  Model: PV/Model/Agent.lean; flag table and message numbers: PV/Generated/C45.lean
  (regenerated from paramiko/agent.py on every run, so the theorems are re-proved against the current source).
-/
import PV.Model.Agent
import PV.Props.C39
namespace PV.Props.C45
open PV PV.Wire PV.Agent

/-! ## flags: SHA-256 / SHA-512 exactly when asked for, zero otherwise -/

/-- **Flag rule**, for every algorithm argument (any string, or `None`). -/
theorem flag_rule (alg : Option String) :
    flagFor alg =
      if alg = some "rsa-sha2-256" ∨ alg = some "rsa-sha2-256-cert-v01@openssh.com" then 2
      else if alg = some "rsa-sha2-512" ∨ alg = some "rsa-sha2-512-cert-v01@openssh.com" then 4
      else 0 := by
  cases alg with
  | none => simp [flagFor]
  | some a =>
    simp only [flagFor, PV.Generated.C45.algorithmFlagMap, List.lookup, Option.some.injEq]
    by_cases h1 : a = "rsa-sha2-256"
    · subst h1; decide
    · by_cases h2 : a = "rsa-sha2-512"
      · subst h2; decide
      · by_cases h3 : a = "rsa-sha2-256-cert-v01@openssh.com"
        · subst h3; decide
        · by_cases h4 : a = "rsa-sha2-512-cert-v01@openssh.com"
          · subst h4; decide
          · have e1 : (a == "rsa-sha2-256") = false := by simpa using h1
            have e2 : (a == "rsa-sha2-512") = false := by simpa using h2
            have e3 : (a == "rsa-sha2-256-cert-v01@openssh.com") = false := by simpa using h3
            have e4 : (a == "rsa-sha2-512-cert-v01@openssh.com") = false := by simpa using h4
            simp [e1, e2, e3, e4, h1, h2, h3, h4]

/-- the SHA-256 flag is sent exactly for the two rsa-sha2-256 names -/
theorem flag_sha256_iff (alg : Option String) :
    flagFor alg = 2 ↔ (alg = some "rsa-sha2-256" ∨ alg = some "rsa-sha2-256-cert-v01@openssh.com") := by
  rw [flag_rule]; split
  · simp [*]
  · split <;> simp [*]

/-- the SHA-512 flag is sent exactly for the two rsa-sha2-512 names -/
theorem flag_sha512_iff (alg : Option String) :
    flagFor alg = 4 ↔ (alg = some "rsa-sha2-512" ∨ alg = some "rsa-sha2-512-cert-v01@openssh.com") := by
  rw [flag_rule]; split
  · rename_i h
    rcases h with h | h <;> subst h <;> decide
  · split <;> simp [*]

/-- never "either is fine" (6), never anything but 0, 2, 4 -/
theorem flag_values (alg : Option String) : flagFor alg = 0 ∨ flagFor alg = 2 ∨ flagFor alg = 4 := by
  rw [flag_rule]; split
  · simp
  · split <;> simp

/-! ## request layout -/

/-- **Layout**: what is written to the agent socket is
`uint32 length ++ byte 13 ++ string(key.asbytes()) ++ string(data) ++ uint32 flags`, for every agent. -/
theorem request_layout (agent : Bytes → Conn) (k : Key) (data : Bytes) (alg : Option String) :
    (signSshData agent k data alg).1 =
      be32 (1 + (4 + k.asbytes.length) + (4 + data.length) + 4) ++
        ([13] ++ (be32 k.asbytes.length ++ k.asbytes) ++ (be32 data.length ++ data) ++ be32 (flagFor alg)) := by
  simp [signSshData, sendMessage, frame, signRequest, encodeAll, encode, encStr,
    PV.Generated.C45.signRequestType, be32]
  congr 1
  omega

/-- The request read back field by field (as an agent would) yields type 13, the key's public blob, the data
and the flags, and nothing else. -/
theorem request_parses_back (agent : Bytes → Conn) (k : Key) (data : Bytes) (alg : Option String)
    (hk : k.asbytes.length < 4294967296) (hd : data.length < 4294967296) :
    ∃ msg, (signSshData agent k data alg).1 = be32 msg.length ++ msg ∧
      decodeAll { content := msg, pos := 0 } [.byte, .str, .str, .u32]
        = ([.byte 13, .str k.asbytes, .str data, .u32 (flagFor alg)], { content := msg, pos := msg.length }) := by
  refine ⟨signRequest k data alg, by simp [signSshData, sendMessage, frame], ?_⟩
  have hflag : flagFor alg < 4294967296 := by
    rcases flag_values alg with h | h | h <;> omega
  have hwf : ∀ f ∈ [Field.byte 13, .str k.asbytes, .str data, .u32 (flagFor alg)], f.WF := by
    intro f hf
    simp only [List.mem_cons, List.not_mem_nil, or_false] at hf
    rcases hf with h | h | h | h <;> subst h <;> simp [Field.WF, hk, hd, hflag]
  have := PV.Props.C39.roundtrip _ hwf [] []
  simpa [signRequest, PV.Generated.C45.signRequestType, Field.kind] using this

/-! ## `_read_all`: fragmentation does not matter -/

private def chunk (caps : List Nat) (n : Nat) : Nat :=
  match caps with
  | [] => n
  | cap :: _ => min n cap

private theorem chunk_le (caps : List Nat) (n : Nat) : chunk caps n ≤ n := by
  cases caps <;> simp [chunk]; omega

private theorem chunk_pos (caps : List Nat) (n : Nat) (hcaps : ∀ m ∈ caps, 0 < m) (hn : 0 < n) :
    0 < chunk caps n := by
  cases caps with
  | nil => simpa [chunk] using hn
  | cons cap cs =>
    have := hcaps cap (by simp)
    simp only [chunk]; omega

private theorem recv_prefix (x rest : Bytes) (caps : List Nat) :
    recv { data := x ++ rest, caps := caps } x.length
      = (x.take (chunk caps x.length), { data := x.drop (chunk caps x.length) ++ rest, caps := caps.tail }) := by
  have hk := chunk_le caps x.length
  have h1 : (x ++ rest).take (chunk caps x.length) = x.take (chunk caps x.length) := by
    rw [List.take_append_of_le_length hk]
  have h2 : (x ++ rest).drop (chunk caps x.length) = x.drop (chunk caps x.length) ++ rest := by
    rw [List.drop_append_of_le_length hk]
  cases caps with
  | nil => simp only [recv, chunk] at h1 h2 ⊢; rw [h1, h2]
  | cons cap cs => simp only [recv, chunk] at h1 h2 ⊢; rw [h1, h2]

private theorem readLoop_complete (fuel wanted : Nat) (result x rest : Bytes) (caps : List Nat)
    (hlen : result.length + x.length = wanted) (hfuel : x.length ≤ fuel)
    (hne : result.length = 0 → x = []) (hcaps : ∀ n ∈ caps, 0 < n) :
    ∃ caps', (∀ n ∈ caps', 0 < n) ∧
      readLoop fuel wanted result { data := x ++ rest, caps := caps } =
        .ok (result ++ x, { data := rest, caps := caps' }) := by
  induction fuel generalizing result x caps with
  | zero =>
    have hx : x = [] := List.eq_nil_of_length_eq_zero (by omega)
    subst hx
    refine ⟨caps, hcaps, ?_⟩
    unfold readLoop
    simp at hlen
    simp [hlen]
  | succ fuel ih =>
    by_cases hx : x = []
    · subst hx
      refine ⟨caps, hcaps, ?_⟩
      unfold readLoop
      simp at hlen
      simp [hlen]
    · have hxl : 0 < x.length := List.length_pos_iff.mpr hx
      have hr0 : result.length ≠ 0 := fun h => hx (hne h)
      have hlt : result.length < wanted := by omega
      have hw : wanted - result.length = x.length := by omega
      have hk_le := chunk_le caps x.length
      have hk_pos := chunk_pos caps x.length hcaps hxl
      have hrecv := recv_prefix x rest caps
      rw [← hw] at hrecv
      rw [hw] at hrecv
      have htl : (x.take (chunk caps x.length)).length = chunk caps x.length := by
        rw [List.length_take]; omega
      have hdl : (x.drop (chunk caps x.length)).length = x.length - chunk caps x.length := List.length_drop
      obtain ⟨caps', hc', hrec⟩ := ih (result ++ x.take (chunk caps x.length)) (x.drop (chunk caps x.length))
        caps.tail
        (by rw [List.length_append, htl, hdl]; omega)
        (by rw [hdl]; omega)
        (by intro h; rw [List.length_append, htl] at h; omega)
        (fun n hn => hcaps n (List.mem_of_mem_tail hn))
      refine ⟨caps', hc', ?_⟩
      unfold readLoop
      simp only [hlt, if_true, hr0, if_false, hw, hrecv]
      have : ¬ (x.take (chunk caps x.length)).length = 0 := by omega
      simp only [this, if_false]
      rw [hrec]
      simp [List.append_assoc]

/-- `_read_all(wanted)` returns exactly the next `wanted` bytes of the stream, however `recv` fragments it
(every chunk size ≥ 1). -/
theorem readAll_complete (x rest : Bytes) (caps : List Nat) (hcaps : ∀ n ∈ caps, 0 < n) :
    ∃ caps', (∀ n ∈ caps', 0 < n) ∧
      readAll x.length { data := x ++ rest, caps := caps } = .ok (x, { data := rest, caps := caps' }) := by
  have hk_le := chunk_le caps x.length
  have hrecv := recv_prefix x rest caps
  have htl : (x.take (chunk caps x.length)).length = chunk caps x.length := by
    rw [List.length_take]; omega
  have hdl : (x.drop (chunk caps x.length)).length = x.length - chunk caps x.length := List.length_drop
  obtain ⟨caps', hc', hrec⟩ := readLoop_complete x.length x.length (x.take (chunk caps x.length))
    (x.drop (chunk caps x.length)) rest caps.tail
    (by rw [htl, hdl]; omega)
    (by rw [hdl]; omega)
    (by
      intro h
      rw [htl] at h
      have : x.length = 0 := by
        rcases Nat.eq_zero_or_pos x.length with h0 | h0
        · exact h0
        · have := chunk_pos caps x.length hcaps h0; omega
      simp [List.eq_nil_of_length_eq_zero this])
    (fun n hn => hcaps n (List.mem_of_mem_tail hn))
  refine ⟨caps', hc', ?_⟩
  simp only [readAll, hrecv]
  rw [hrec]
  simp

private theorem readLoop_no_fuel (fuel wanted : Nat) (result : Bytes) (c : Conn)
    (h : wanted ≤ result.length + fuel) (hr : 0 < result.length ∨ wanted = 0) :
    readLoop fuel wanted result c ≠ .error .fuel := by
  induction fuel generalizing result c with
  | zero =>
    unfold readLoop
    have : ¬ result.length < wanted := by omega
    simp [this]
  | succ fuel ih =>
    unfold readLoop
    by_cases hlt : result.length < wanted
    · simp only [hlt, if_true]
      by_cases h0 : result.length = 0
      · simp [h0]
      · simp only [h0, if_false]
        split
        · simp
        · rename_i hext
          apply ih
          · have : 0 < (recv c (wanted - result.length)).1.length := by omega
            simp [List.length_append]; omega
          · left; simp [List.length_append]; omega
    · simp [hlt]

/-- the fuel of the loop model always suffices (the model's `fuel` error is unreachable) -/
theorem readAll_no_fuel (wanted : Nat) (c : Conn) : readAll wanted c ≠ .error .fuel := by
  simp only [readAll]
  by_cases h0 : (recv c wanted).1.length = 0
  · unfold readLoop
    by_cases hw : wanted = 0
    · simp [hw]
    · have : (recv c wanted).1.length < wanted := by omega
      cases wanted <;> simp_all
  · exact readLoop_no_fuel _ _ _ _ (by omega) (by left; omega)

/-! ## the reply -/

/-- For **every** agent behaviour (any bytes, any fragmentation, truncated or not): a signature is returned
only if a complete reply of type 14 arrived, and it is that reply's string field, unchanged. Every other
reply raises `SSHException`. -/
theorem sign_ok_iff (agent : Bytes → Conn) (k : Key) (data : Bytes) (alg : Option String) (sig : Bytes) :
    (signSshData agent k data alg).2 = .ok sig ↔
      ∃ rd, (sendMessage agent (signRequest k data alg)).2 = .ok (14, rd) ∧ sig = rd.getString.1 := by
  simp only [signSshData, PV.Generated.C45.signResponseType]
  cases h : (sendMessage agent (signRequest k data alg)).2 with
  | error e => simp
  | ok p =>
    obtain ⟨ptype, rd⟩ := p
    by_cases hp : ptype = 14
    · subst hp
      simp only [ne_eq, not_true_eq_false, if_false, Except.ok.injEq, Prod.mk.injEq, true_and]
      constructor
      · intro h1; exact ⟨rd, rfl, h1.symm⟩
      · rintro ⟨rd', h1, h2⟩; rw [h2, ← h1]
    · simp only [ne_eq, hp, not_false_eq_true, if_true, Except.ok.injEq, Prod.mk.injEq]
      constructor
      · intro h1; cases h1
      · rintro ⟨rd', h1, _⟩; exact h1.1.elim

/-- the result is never the model's `fuel` artefact: it is a signature or one of the two `SSHException`s -/
theorem sign_result_cases (agent : Bytes → Conn) (k : Key) (data : Bytes) (alg : Option String) :
    (∃ sig, (signSshData agent k data alg).2 = .ok sig) ∨
    (signSshData agent k data alg).2 = .error .lostAgent ∨
    (signSshData agent k data alg).2 = .error .cannotSign := by
  simp only [signSshData, sendMessage]
  cases h1 : readAll 4 (agent (frame (signRequest k data alg))) with
  | error e =>
    cases e with
    | fuel => exact absurd h1 (readAll_no_fuel _ _)
    | lostAgent => simp
    | cannotSign => simp
  | ok p =>
    obtain ⟨hdr, c1⟩ := p
    simp only
    cases h2 : readAll (beVal hdr) c1 with
    | error e =>
      cases e with
      | fuel => exact absurd h2 (readAll_no_fuel _ _)
      | lostAgent => simp
      | cannotSign => simp
    | ok q =>
      obtain ⟨body, c2⟩ := q
      simp only
      split <;> simp

/-- A well-framed reply `uint32 len ++ body`, delivered under any fragmentation: type 14 returns the
signature string unchanged (trailing bytes ignored); any other type — including the empty body — raises. -/
theorem well_framed_reply (agent : Bytes → Conn) (k : Key) (data : Bytes) (alg : Option String)
    (body tail : Bytes) (caps : List Nat) (hb : body.length < 4294967296) (hcaps : ∀ n ∈ caps, 0 < n)
    (hagent : agent (signSshData agent k data alg).1 = { data := be32 body.length ++ body ++ tail, caps := caps }) :
    (signSshData agent k data alg).2 =
      if (body.headD 0).toNat = 14 then .ok (Rd.getString { content := body, pos := min 1 body.length }).1
      else .error .cannotSign := by
  have hsent : (signSshData agent k data alg).1 = frame (signRequest k data alg) := by
    simp [signSshData, sendMessage]
  rw [hsent] at hagent
  simp only [signSshData, sendMessage, hagent]
  have h4 : (be32 body.length).length = 4 := by simp [be32]
  obtain ⟨caps1, hc1, hr1⟩ := readAll_complete (be32 body.length) (body ++ tail) caps hcaps
  rw [h4, ← List.append_assoc] at hr1
  rw [hr1]
  simp only [beVal_be32 body.length hb]
  obtain ⟨caps2, hc2, hr2⟩ := readAll_complete body tail caps1 hc1
  rw [hr2]
  simp only [PV.Generated.C45.signResponseType]
  cases body with
  | nil => simp [Rd.getBytes, zeros]
  | cons b bs =>
    have hg : Rd.getBytes { content := b :: bs, pos := 0 } 1 = ([b], { content := b :: bs, pos := 1 }) := by
      simp [Rd.getBytes]
    rw [hg]
    simp only [List.headD_cons, List.length_cons]
    have : min 1 (bs.length + 1) = 1 := by omega
    rw [this]
    by_cases hp : b.toNat = 14
    · simp [hp]
    · simp [hp]

/-- **Signature returned unchanged**: reply `14 ++ string(sig) ++ anything`, any fragmentation. -/
theorem signature_unchanged (agent : Bytes → Conn) (k : Key) (data : Bytes) (alg : Option String)
    (sig extra tail : Bytes) (caps : List Nat) (hs : sig.length < 4294967296)
    (hb : ([14] ++ encStr sig ++ extra).length < 4294967296) (hcaps : ∀ n ∈ caps, 0 < n)
    (hagent : agent (signSshData agent k data alg).1 =
      { data := be32 ([14] ++ encStr sig ++ extra).length ++ ([14] ++ encStr sig ++ extra) ++ tail, caps := caps }) :
    (signSshData agent k data alg).2 = .ok sig := by
  rw [well_framed_reply agent k data alg _ tail caps hb hcaps hagent]
  have h14 : (([14] ++ encStr sig ++ extra : Bytes).headD 0).toNat = 14 := by simp
  simp only [h14, if_true]
  have := PV.Props.C39.decode_encode (.str sig) (by simpa [Field.WF] using hs) [14] extra
  simp only [decode, Field.kind, encode, List.length_singleton] at this
  have hmin : min 1 ([14] ++ encStr sig ++ extra : Bytes).length = 1 := by simp
  rw [hmin]
  have := congrArg (fun p => match p with | (Field.str s, _) => s | _ => []) this
  simpa using this

/-! ## non-vacuity -/

def demoAgent (reply : Bytes) (caps : List Nat) : Bytes → Conn := fun _ => { data := reply, caps := caps }

example : signSshData (demoAgent [0,0,0,8, 14, 0,0,0,3, 1,2,3] [1,2,1,3]) ⟨[9,9], none⟩ [7] (some "rsa-sha2-512")
    = ([0,0,0,16, 13, 0,0,0,2, 9,9, 0,0,0,1, 7, 0,0,0,4], .ok [1,2,3]) := by rfl
example : (signSshData (demoAgent [0,0,0,1, 5] []) ⟨[9,9], some [8]⟩ [7] (some "ssh-rsa"))
    = ([0,0,0,15, 13, 0,0,0,1, 8, 0,0,0,1, 7, 0,0,0,0], .error .cannotSign) := by rfl
example : (signSshData (demoAgent [0,0,0,9, 14] []) ⟨[9], none⟩ [] none).2 = .error .lostAgent := by rfl
example : flagFor (some "rsa-sha2-256-cert-v01@openssh.com") = 2 ∧ flagFor (some "RSA-SHA2-256") = 0 := by decide

end PV.Props.C45
