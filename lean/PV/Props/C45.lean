/-
  C45 — Agent signing requests ask for the hash the caller requested.
  Property theorems only.  Model: PV/Model/Agent.lean; flag table and message numbers: PV/Generated/C45.lean
  (regenerated from paramiko/agent.py on every run, so the theorems are re-proved against the current source).
-/
import PV.Model.Agent
import PV.Props.C39
namespace PV.Props.C45
open PV PV.Wire PV.Agent

/-! ## flags: SHA-256 / SHA-512 exactly when asked for, zero otherwise -/

/-- **Flag rule**, for every algorithm argument (any string, or `None`). -/
theorem flag_rule (alg : Option String) :
    flagFor alg =
      if alg = some "rsa-sha2-256" ∨ alg = some "rsa-sha2-256-cert-v01@openssh.com" then 2
      else if alg = some "rsa-sha2-512" ∨ alg = some "rsa-sha2-512-cert-v01@openssh.com" then 4
      else 0 := by
  cases alg with
  | none => simp [flagFor]
  | some a =>
    simp only [flagFor, PV.Generated.C45.algorithmFlagMap, List.lookup, Option.some.injEq]
    by_cases h1 : a = "rsa-sha2-256"
    · subst h1; decide
    · by_cases h2 : a = "rsa-sha2-512"
      · subst h2; decide
      · by_cases h3 : a = "rsa-sha2-256-cert-v01@openssh.com"
        · subst h3; decide
        · by_cases h4 : a = "rsa-sha2-512-cert-v01@openssh.com"
          · subst h4; decide
          · have e1 : (a == "rsa-sha2-256") = false := by simpa using h1
            have e2 : (a == "rsa-sha2-512") = false := by simpa using h2
            have e3 : (a == "rsa-sha2-256-cert-v01@openssh.com") = false := by simpa using h3
            have e4 : (a == "rsa-sha2-512-cert-v01@openssh.com") = false := by simpa using h4
            simp [e1, e2, e3, e4, h1, h2, h3, h4]

/-- the SHA-256 flag is sent exactly for the two rsa-sha2-256 names -/
theorem flag_sha256_iff (alg : Option String) :
    flagFor alg = 2 ↔ (alg = some "rsa-sha2-256" ∨ alg = some "rsa-sha2-256-cert-v01@openssh.com") := by
  rw [flag_rule]; split
  · simp [*]
  · split <;> simp [*]

/-- the SHA-512 flag is sent exactly for the two rsa-sha2-512 names -/
theorem flag_sha512_iff (alg : Option String) :
    flagFor alg = 4 ↔ (alg = some "rsa-sha2-512" ∨ alg = some "rsa-sha2-512-cert-v01@openssh.com") := by
  rw [flag_rule]; split
  · rename_i h
    rcases h with h | h <;> subst h <;> decide
  · split <;> simp [*]

/-- never "either is fine" (6), never anything but 0, 2, 4 -/
theorem flag_values (alg : Option String) : flagFor alg = 0 ∨ flagFor alg = 2 ∨ flagFor alg = 4 := by
  rw [flag_rule]; split
  · simp
  · split <;> simp

/-! ## request layout -/

/-- **Layout**: what is written to the agent socket is
`uint32 length ++ byte 13 ++ string(key.asbytes()) ++ string(data) ++ uint32 flags`, for every agent. -/
theorem request_layout (agent : Bytes → Conn) (k : Key) (data : Bytes) (alg : Option String) :
    (signSshData agent k data alg).1 =
      be32 (1 + (4 + k.asbytes.length) + (4 + data.length) + 4) ++
        ([13] ++ (be32 k.asbytes.length ++ k.asbytes) ++ (be32 data.length ++ data) ++ be32 (flagFor alg)) := by
  simp [signSshData, sendMessage, frame, signRequest, encodeAll, encode, encStr,
    PV.Generated.C45.signRequestType, be32]
  congr 1
  omega

/-- The request read back field by field (as an agent would) yields type 13, the key's public blob, the data
and the flags, and nothing else. -/
theorem request_parses_back (agent : Bytes → Conn) (k : Key) (data : Bytes) (alg : Option String)
    (hk : k.asbytes.length < 4294967296) (hd : data.length < 4294967296) :
    ∃ msg, (signSshData agent k data alg).1 = be32 msg.length ++ msg ∧
      decodeAll { content := msg, pos := 0 } [.byte, .str, .str, .u32]
        = ([.byte 13, .str k.asbytes, .str data, .u32 (flagFor alg)], { content := msg, pos := msg.length }) := by
  refine ⟨signRequest k data alg, by simp [signSshData, sendMessage, frame], ?_⟩
  have hflag : flagFor alg < 4294967296 := by
    rcases flag_values alg with h | h | h <;> omega
  have hwf : ∀ f ∈ [Field.byte 13, .str k.asbytes, .str data, .u32 (flagFor alg)], f.WF := by
    intro f hf
    simp only [List.mem_cons, List.not_mem_nil, or_false] at hf
    rcases hf with h | h | h | h <;> subst h <;> simp [Field.WF, hk, hd, hflag]
  have := PV.Props.C39.roundtrip _ hwf [] []
  simpa [signRequest, PV.Generated.C45.signRequestType, Field.kind] using this

/-! ## `_read_all`: fragmentation does not matter -/

private def chunk (caps : List Nat) (n : Nat) : Nat :=
  match caps with
  | [] => n
  | cap :: _ => min n cap

private theorem chunk_le (caps : List Nat) (n : Nat) : chunk caps n ≤ n := by
  cases caps <;> simp [chunk]; omega

private theorem chunk_pos (caps : List Nat) (n : Nat) (hcaps : ∀ m ∈ caps, 0 < m) (hn : 0 < n) :
    0 < chunk caps n := by
  cases caps with
  | nil => simpa [chunk] using hn
  | cons cap cs =>
    have := hcaps cap (by simp)
    simp only [chunk]; omega

private theorem recv_prefix (x rest : Bytes) (caps : List Nat) :
    recv { data := x ++ rest, caps := caps } x.length
      = (x.take (chunk caps x.length), { data := x.drop (chunk caps x.length) ++ rest, caps := caps.tail }) := by
  have hk := chunk_le caps x.length
  have h1 : (x ++ rest).take (chunk caps x.length) = x.take (chunk caps x.length) := by
    rw [List.take_append_of_le_length hk]
  have h2 : (x ++ rest).drop (chunk caps x.length) = x.drop (chunk caps x.length) ++ rest := by
    rw [List.drop_append_of_le_length hk]
  cases caps with
  | nil => simp only [recv, chunk] at h1 h2 ⊢; rw [h1, h2]
  | cons cap cs => simp only [recv, chunk] at h1 h2 ⊢; rw [h1, h2]

private theorem readLoop_complete (fuel wanted : Nat) (result x rest : Bytes) (caps : List Nat)
    (hlen : result.length + x.length = wanted) (hfuel : x.length ≤ fuel)
    (hne : result.length = 0 → x = []) (hcaps : ∀ n ∈ caps, 0 < n) :
    ∃ caps', (∀ n ∈ caps', 0 < n) ∧
      readLoop fuel wanted result { data := x ++ rest, caps := caps } =
        .ok (result ++ x, { data := rest, caps := caps' }) := by
  induction fuel generalizing result x caps with
  | zero =>
    have hx : x = [] := List.eq_nil_of_length_eq_zero (by omega)
    subst hx
    refine ⟨caps, hcaps, ?_⟩
    unfold readLoop
    simp at hlen
    simp [hlen]
  | succ fuel ih =>
    by_cases hx : x = []
    · subst hx
      refine ⟨caps, hcaps, ?_⟩
      unfold readLoop
      simp at hlen
      simp [hlen]
    · have hxl : 0 < x.length := List.length_pos_iff.mpr hx
      have hr0 : result.length ≠ 0 := fun h => hx (hne h)
      have hlt : result.length < wanted := by omega
      have hw : wanted - result.length = x.length := by omega
      have hk_le := chunk_le caps x.length
      have hk_pos := chunk_pos caps x.length hcaps hxl
      have hrecv := recv_prefix x rest caps
      rw [← hw] at hrecv
      rw [hw] at hrecv
      have htl : (x.take (chunk caps x.length)).length = chunk caps x.length := by
        rw [List.length_take]; omega
      have hdl : (x.drop (chunk caps x.length)).length = x.length - chunk caps x.length := List.length_drop
      obtain ⟨caps', hc', hrec⟩ := ih (result ++ x.take (chunk caps x.length)) (x.drop (chunk caps x.length))
        caps.tail
        (by rw [List.length_append, htl, hdl]; omega)
        (by rw [hdl]; omega)
        (by intro h; rw [List.length_append, htl] at h; omega)
        (fun n hn => hcaps n (List.mem_of_mem_tail hn))
      refine ⟨caps', hc', ?_⟩
      unfold readLoop
      simp only [hlt, if_true, hr0, if_false, hw, hrecv]
      have : ¬ (x.take (chunk caps x.length)).length = 0 := by omega
      simp only [this, if_false]
      rw [hrec]
      simp [List.append_assoc]

/-- `_read_all(wanted)` returns exactly the next `wanted` bytes of the stream, however `recv` fragments it
(every chunk size ≥ 1). -/
theorem readAll_complete (x rest : Bytes) (caps : List Nat) (hcaps : ∀ n ∈ caps, 0 < n) :
    ∃ caps', (∀ n ∈ caps', 0 < n) ∧
      readAll x.length { data := x ++ rest, caps := caps } = .ok (x, { data := rest, caps := caps' }) := by
  have hk_le := chunk_le caps x.length
  have hrecv := recv_prefix x rest caps
  have htl : (x.take (chunk caps x.length)).length = chunk caps x.length := by
    rw [List.length_take]; omega
  have hdl : (x.drop (chunk caps x.length)).length = x.length - chunk caps x.length := List.length_drop
  obtain ⟨caps', hc', hrec⟩ := readLoop_complete x.length x.length (x.take (chunk caps x.length))
    (x.drop (chunk caps x.length)) rest caps.tail
    (by rw [htl, hdl]; omega)
    (by rw [hdl]; omega)
    (by
      intro h
      rw [htl] at h
      have : x.length = 0 := by
        rcases Nat.eq_zero_or_pos x.length with h0 | h0
        · exact h0
        · have := chunk_pos caps x.length hcaps h0; omega
      simp [List.eq_nil_of_length_eq_zero this])
    (fun n hn => hcaps n (List.mem_of_mem_tail hn))
  refine ⟨caps', hc', ?_⟩
  simp only [readAll, hrecv]
  rw [hrec]
  simp

private theorem readLoop_no_fuel (fuel wanted : Nat) (result : Bytes) (c : Conn)
    (h : wanted ≤ result.length + fuel) (hr : 0 < result.length ∨ wanted = 0) :
    readLoop fuel wanted result c ≠ .error .fuel := by
  induction fuel generalizing result c with
  | zero =>
    unfold readLoop
    have : ¬ result.length < wanted := by omega
    simp [this]
  | succ fuel ih =>
    unfold readLoop
    by_cases hlt : result.length < wanted
    · simp only [hlt, if_true]
      by_cases h0 : result.length = 0
      · simp [h0]
      · simp only [h0, if_false]
        split
        · simp
        · rename_i hext
          apply ih
          · have : 0 < (recv c (wanted - result.length)).1.length := by omega
            simp [List.length_append]; omega
          · left; simp [List.length_append]; omega
    · simp [hlt]

/-- the fuel of the loop model always suffices (the model's `fuel` error is unreachable) -/
theorem readAll_no_fuel (wanted : Nat) (c : Conn) : readAll wanted c ≠ .error .fuel := by
  simp only [readAll]
  by_cases h0 : (recv c wanted).1.length = 0
  · unfold readLoop
    by_cases hw : wanted = 0
    · simp [hw]
    · have : (recv c wanted).1.length < wanted := by omega
      cases wanted <;> simp_all
  · exact readLoop_no_fuel _ _ _ _ (by omega) (by left; omega)

/-! ## the reply -/

/-- For **every** agent behaviour (any bytes, any fragmentation, truncated or not): a signature is returned
only if a complete reply of type 14 arrived, and it is that reply's string field, unchanged. Every other
reply raises `SSHException`. -/
theorem sign_ok_iff (agent : Bytes → Conn) (k : Key) (data : Bytes) (alg : Option String) (sig : Bytes) :
    (signSshData agent k data alg).2 = .ok sig ↔
      ∃ rd, (sendMessage agent (signRequest k data alg)).2 = .ok (14, rd) ∧ sig = rd.getString.1 := by
  simp only [signSshData, PV.Generated.C45.signResponseType]
  cases h : (sendMessage agent (signRequest k data alg)).2 with
  | error e => simp
  | ok p =>
    obtain ⟨ptype, rd⟩ := p
    by_cases hp : ptype = 14
    · subst hp
      simp only [ne_eq, not_true_eq_false, if_false, Except.ok.injEq, Prod.mk.injEq, true_and]
      constructor
      · intro h1; exact ⟨rd, rfl, h1.symm⟩
      · rintro ⟨rd', h1, h2⟩; rw [h2, ← h1]
    · simp only [ne_eq, hp, not_false_eq_true, if_true, Except.ok.injEq, Prod.mk.injEq]
      constructor
      · intro h1; cases h1
      · rintro ⟨rd', h1, _⟩; exact h1.1.elim

/-- the result is never the model's `fuel` artefact: it is a signature or one of the two `SSHException`s -/
theorem sign_result_cases (agent : Bytes → Conn) (k : Key) (data : Bytes) (alg : Option String) :
    (∃ sig, (signSshData agent k data alg).2 = .ok sig) ∨
    (signSshData agent k data alg).2 = .error .lostAgent ∨
    (signSshData agent k data alg).2 = .error .cannotSign := by
  simp only [signSshData, sendMessage]
  cases h1 : readAll 4 (agent (frame (signRequest k data alg))) with
  | error e =>
    cases e with
    | fuel => exact absurd h1 (readAll_no_fuel _ _)
    | lostAgent => simp
    | cannotSign => simp
  | ok p =>
    obtain ⟨hdr, c1⟩ := p
    simp only
    cases h2 : readAll (beVal hdr) c1 with
    | error e =>
      cases e with
      | fuel => exact absurd h2 (readAll_no_fuel _ _)
      | lostAgent => simp
      | cannotSign => simp
    | ok q =>
      obtain ⟨body, c2⟩ := q
      simp only
      split <;> simp

/-- A well-framed reply `uint32 len ++ body`, delivered under any fragmentation: type 14 returns the
signature string unchanged (trailing bytes ignored); any other type — including the empty body — raises. -/
theorem well_framed_reply (agent : Bytes → Conn) (k : Key) (data : Bytes) (alg : Option String)
    (body tail : Bytes) (caps : List Nat) (hb : body.length < 4294967296) (hcaps : ∀ n ∈ caps, 0 < n)
    (hagent : agent (signSshData agent k data alg).1 = { data := be32 body.length ++ body ++ tail, caps := caps }) :
    (signSshData agent k data alg).2 =
      if (body.headD 0).toNat = 14 then .ok (Rd.getString { content := body, pos := min 1 body.length }).1
      else .error .cannotSign := by
  have hsent : (signSshData agent k data alg).1 = frame (signRequest k data alg) := by
    simp [signSshData, sendMessage]
  rw [hsent] at hagent
  simp only [signSshData, sendMessage, hagent]
  have h4 : (be32 body.length).length = 4 := by simp [be32]
  obtain ⟨caps1, hc1, hr1⟩ := readAll_complete (be32 body.length) (body ++ tail) caps hcaps
  rw [h4, ← List.append_assoc] at hr1
  rw [hr1]
  simp only [beVal_be32 body.length hb]
  obtain ⟨caps2, hc2, hr2⟩ := readAll_complete body tail caps1 hc1
  rw [hr2]
  simp only [PV.Generated.C45.signResponseType]
  cases body with
  | nil => simp [Rd.getBytes, zeros]
  | cons b bs =>
    have hg : Rd.getBytes { content := b :: bs, pos := 0 } 1 = ([b], { content := b :: bs, pos := 1 }) := by
      simp [Rd.getBytes]
    rw [hg]
    simp only [List.headD_cons, List.length_cons]
    have : min 1 (bs.length + 1) = 1 := by omega
    rw [this]
    by_cases hp : b.toNat = 14
    · simp [hp]
    · simp [hp]

/-- **Signature returned unchanged**: reply `14 ++ string(sig) ++ anything`, any fragmentation. -/
theorem signature_unchanged (agent : Bytes → Conn) (k : Key) (data : Bytes) (alg : Option String)
    (sig extra tail : Bytes) (caps : List Nat) (hs : sig.length < 4294967296)
    (hb : ([14] ++ encStr sig ++ extra).length < 4294967296) (hcaps : ∀ n ∈ caps, 0 < n)
    (hagent : agent (signSshData agent k data alg).1 =
      { data := be32 ([14] ++ encStr sig ++ extra).length ++ ([14] ++ encStr sig ++ extra) ++ tail, caps := caps }) :
    (signSshData agent k data alg).2 = .ok sig := by
  rw [well_framed_reply agent k data alg _ tail caps hb hcaps hagent]
  have h14 : (([14] ++ encStr sig ++ extra : Bytes).headD 0).toNat = 14 := by simp
  simp only [h14, if_true]
  have := PV.Props.C39.decode_encode (.str sig) (by simpa [Field.WF] using hs) [14] extra
  simp only [decode, Field.kind, encode, List.length_singleton] at this
  have hmin : min 1 ([14] ++ encStr sig ++ extra : Bytes).length = 1 := by simp
  rw [hmin]
  have := congrArg (fun p => match p with | (Field.str s, _) => s | _ => []) this
  simpa using this

/-! ## several requests on one connection: no reply is ever attributed to another request -/

private theorem readLoop_of_St (fuel wanted : Nat) (result : Bytes) (c : Conn) :
    readLoop fuel wanted result c =
      match readLoopSt fuel wanted result c with
      | (.ok b, c') => .ok (b, c')
      | (.error e, _) => .error e := by
  induction fuel generalizing result c with
  | zero =>
    unfold readLoop readLoopSt
    by_cases h1 : result.length < wanted
    · rw [if_pos h1, if_pos h1]
      by_cases h2 : result.length = 0
      · rw [if_pos h2, if_pos h2]
      · rw [if_neg h2, if_neg h2]
    · rw [if_neg h1, if_neg h1]
  | succ fuel ih =>
    unfold readLoop readLoopSt
    by_cases h1 : result.length < wanted
    · rw [if_pos h1, if_pos h1]
      by_cases h2 : result.length = 0
      · rw [if_pos h2, if_pos h2]
      · rw [if_neg h2, if_neg h2]
        simp only
        by_cases h3 : (recv c (wanted - result.length)).1.length = 0
        · rw [if_pos h3, if_pos h3]
        · rw [if_neg h3, if_neg h3]; exact ih _ _
    · rw [if_neg h1, if_neg h1]

private theorem readAll_of_St (wanted : Nat) (c : Conn) :
    readAll wanted c =
      match readAllSt wanted c with
      | (.ok b, c') => .ok (b, c')
      | (.error e, _) => .error e := by
  simp only [readAll, readAllSt]; exact readLoop_of_St _ _ _ _

/-- one step on a live connection is the one-shot `sign_ssh_data` against "what was left over ++ this reply" -/
theorem signStep_fst (k : Key) (data : Bytes) (alg : Option String) (reply : Bytes) (caps : List Nat) (c : Conn) :
    (signStep k data alg reply caps c).1 =
      signSshData (fun _ => { data := c.data ++ reply, caps := c.caps ++ caps }) k data alg := by
  simp only [signStep, signSshData, sendMessage]
  rw [readAll_of_St]
  rcases h1 : readAllSt 4 { data := c.data ++ reply, caps := c.caps ++ caps } with ⟨r1, c1⟩
  cases r1 with
  | error e => rfl
  | ok hdr =>
    simp only
    rw [readAll_of_St]
    rcases h2 : readAllSt (beVal hdr) c1 with ⟨r2, c2⟩
    cases r2 with
    | error e => rfl
    | ok body =>
      simp only
      split <;> rfl

private theorem recv_caps_pos (c : Conn) (n : Nat) (h : ∀ m ∈ c.caps, 0 < m) : ∀ m ∈ (recv c n).2.caps, 0 < m := by
  intro m hm
  simp only [recv] at hm
  exact h m (List.mem_of_mem_tail hm)

private theorem recv_eq_chunk (c : Conn) (n : Nat) :
    recv c n = (c.data.take (chunk c.caps n), { data := c.data.drop (chunk c.caps n), caps := c.caps.tail }) := by
  cases hc : c.caps <;> simp [recv, chunk, hc]

private theorem recv_empty_drained (c : Conn) (n : Nat) (hn : 0 < n) (h : ∀ m ∈ c.caps, 0 < m)
    (he : (recv c n).1.length = 0) : (recv c n).2.data = [] := by
  rw [recv_eq_chunk] at he ⊢
  have hk := chunk_pos c.caps n h hn
  simp only at he ⊢
  have : c.data = [] := by
    cases hd : c.data with
    | nil => rfl
    | cons x xs =>
      rw [hd, List.length_take] at he
      simp only [List.length_cons] at he
      omega
  simp [this]

private theorem readLoopSt_props (fuel wanted : Nat) (result : Bytes) (c : Conn) (h : ∀ m ∈ c.caps, 0 < m)
    (hr : result.length = 0 → wanted = 0 ∨ c.data = []) :
    (∀ m ∈ (readLoopSt fuel wanted result c).2.caps, 0 < m) ∧
    ((readLoopSt fuel wanted result c).1 = .error .lostAgent → (readLoopSt fuel wanted result c).2.data = []) := by
  induction fuel generalizing result c with
  | zero =>
    unfold readLoopSt
    by_cases h1 : result.length < wanted
    · rw [if_pos h1]
      by_cases h2 : result.length = 0
      · rw [if_pos h2]
        refine ⟨h, fun _ => ?_⟩
        rcases hr h2 with h3 | h3
        · omega
        · exact h3
      · rw [if_neg h2]
        exact ⟨h, fun e => by cases e⟩
    · rw [if_neg h1]
      exact ⟨h, fun e => by cases e⟩
  | succ fuel ih =>
    unfold readLoopSt
    by_cases h1 : result.length < wanted
    · rw [if_pos h1]
      by_cases h2 : result.length = 0
      · rw [if_pos h2]
        refine ⟨h, fun _ => ?_⟩
        rcases hr h2 with h3 | h3
        · omega
        · exact h3
      · rw [if_neg h2]
        simp only
        by_cases h3 : (recv c (wanted - result.length)).1.length = 0
        · rw [if_pos h3]
          exact ⟨recv_caps_pos c _ h, fun _ => recv_empty_drained c _ (by omega) h h3⟩
        · rw [if_neg h3]
          apply ih _ _ (recv_caps_pos c _ h)
          intro he
          simp only [List.length_append] at he
          omega
    · rw [if_neg h1]
      exact ⟨h, fun e => by cases e⟩

private theorem readAllSt_props (wanted : Nat) (c : Conn) (h : ∀ m ∈ c.caps, 0 < m) :
    (∀ m ∈ (readAllSt wanted c).2.caps, 0 < m) ∧
    ((readAllSt wanted c).1 = .error .lostAgent → (readAllSt wanted c).2.data = []) := by
  simp only [readAllSt]
  apply readLoopSt_props _ _ _ _ (recv_caps_pos c _ h)
  intro he
  by_cases hw : wanted = 0
  · exact Or.inl hw
  · exact Or.inr (recv_empty_drained c wanted (by omega) h he)

private theorem readAllSt_complete (x rest : Bytes) (caps : List Nat) (hcaps : ∀ n ∈ caps, 0 < n) :
    ∃ caps', (∀ n ∈ caps', 0 < n) ∧
      readAllSt x.length { data := x ++ rest, caps := caps } = (.ok x, { data := rest, caps := caps' }) := by
  obtain ⟨caps', hc', hr⟩ := readAll_complete x rest caps hcaps
  refine ⟨caps', hc', ?_⟩
  rw [readAll_of_St] at hr
  rcases h : readAllSt x.length { data := x ++ rest, caps := caps } with ⟨r, c'⟩
  rw [h] at hr
  cases r with
  | error e => cases hr
  | ok b =>
    simp only [Except.ok.injEq, Prod.mk.injEq] at hr
    rw [hr.1, hr.2]

/-- a connection on which nothing is pending and whose `recv` never signals EOF while data is there -/
def Clean (c : Conn) : Prop := c.data = [] ∧ ∀ m ∈ c.caps, 0 < m

/-- **A lost-agent error leaves nothing behind.**  Whatever the agent sent (e.g. a length prefix announcing more than
it delivers, however large): if the request ends in `SSHException("lost ssh-agent")`, every byte of that reply has
been consumed — the next request on the same connection starts at its own reply. -/
theorem lost_leaves_nothing (k : Key) (data : Bytes) (alg : Option String) (reply : Bytes) (caps : List Nat)
    (c : Conn) (hc : ∀ m ∈ c.caps, 0 < m) (hcaps : ∀ m ∈ caps, 0 < m)
    (hlost : (signStep k data alg reply caps c).1.2 = .error .lostAgent) :
    Clean (signStep k data alg reply caps c).2 := by
  have h0 : ∀ m ∈ ({ data := c.data ++ reply, caps := c.caps ++ caps } : Conn).caps, 0 < m := by
    intro m hm
    simp only [List.mem_append] at hm
    rcases hm with hm | hm
    · exact hc m hm
    · exact hcaps m hm
  unfold signStep at hlost ⊢
  simp only at hlost ⊢
  obtain ⟨p1, d1⟩ := readAllSt_props 4 _ h0
  rcases h1 : readAllSt 4 { data := c.data ++ reply, caps := c.caps ++ caps } with ⟨r1, c1⟩
  rw [h1] at hlost p1 d1
  cases r1 with
  | error e =>
    simp only at hlost ⊢
    cases e with
    | lostAgent => exact ⟨d1 rfl, p1⟩
    | cannotSign => cases hlost
    | fuel => cases hlost
  | ok hdr =>
    simp only at hlost ⊢ p1
    obtain ⟨p2, d2⟩ := readAllSt_props (beVal hdr) c1 p1
    rcases h2 : readAllSt (beVal hdr) c1 with ⟨r2, c2⟩
    rw [h2] at hlost p2 d2
    cases r2 with
    | error e =>
      simp only at hlost ⊢
      cases e with
      | lostAgent => exact ⟨d2 rfl, p2⟩
      | cannotSign => cases hlost
      | fuel => cases hlost
    | ok body =>
      simp only at hlost
      split at hlost <;> cases hlost

/-- **A well-framed reply is consumed exactly.**  On a clean connection, a reply `uint32 len ++ body` under any
fragmentation yields the one-shot result for that reply and leaves the connection clean again. -/
theorem well_framed_step (k : Key) (data : Bytes) (alg : Option String) (body : Bytes) (caps : List Nat)
    (c : Conn) (hc : Clean c) (hb : body.length < 4294967296) (hcaps : ∀ m ∈ caps, 0 < m) :
    (signStep k data alg (be32 body.length ++ body) caps c).1.2 =
      (if (body.headD 0).toNat = 14 then .ok (Rd.getString { content := body, pos := min 1 body.length }).1
       else .error .cannotSign) ∧
    Clean (signStep k data alg (be32 body.length ++ body) caps c).2 := by
  obtain ⟨hd, hp⟩ := hc
  have h0 : ∀ m ∈ c.caps ++ caps, 0 < m := by
    intro m hm
    simp only [List.mem_append] at hm
    rcases hm with hm | hm
    · exact hp m hm
    · exact hcaps m hm
  constructor
  · rw [signStep_fst]
    have := well_framed_reply (fun _ => { data := c.data ++ (be32 body.length ++ body), caps := c.caps ++ caps })
      k data alg body [] (c.caps ++ caps) hb h0 (by simp [hd])
    exact this
  · unfold signStep
    simp only [hd, List.nil_append]
    have h4 : (be32 body.length).length = 4 := by simp [be32]
    obtain ⟨caps1, hc1, hr1⟩ := readAllSt_complete (be32 body.length) body (c.caps ++ caps) h0
    rw [h4] at hr1
    rw [hr1]
    simp only [beVal_be32 body.length hb]
    obtain ⟨caps2, hc2, hr2⟩ := readAllSt_complete body [] caps1 hc1
    rw [List.append_nil] at hr2
    rw [hr2]
    simp only
    split <;> exact ⟨rfl, hc2⟩

/-- the mutant scenario of the seeded change C45-3 on the real semantics: an oversized announcement (300000 bytes,
9 delivered — a forged type-14 frame) raises "lost ssh-agent" and is drained; the next request gets its own reply -/
example : (signSession ⟨[], []⟩
    [⟨⟨[9], none⟩, [1], none, [0, 4, 147, 224, 0, 0, 0, 5, 14, 0, 0, 0, 0], []⟩,
     ⟨⟨[9], none⟩, [2], none, [0, 0, 0, 6, 14, 0, 0, 0, 1, 77], [3, 3]⟩]).1.map (·.2)
    = [.error .lostAgent, .ok [77]] := by rfl

/-! ## non-vacuity -/

def demoAgent (reply : Bytes) (caps : List Nat) : Bytes → Conn := fun _ => { data := reply, caps := caps }

example : signSshData (demoAgent [0,0,0,8, 14, 0,0,0,3, 1,2,3] [1,2,1,3]) ⟨[9,9], none⟩ [7] (some "rsa-sha2-512")
    = ([0,0,0,16, 13, 0,0,0,2, 9,9, 0,0,0,1, 7, 0,0,0,4], .ok [1,2,3]) := by rfl
example : (signSshData (demoAgent [0,0,0,1, 5] []) ⟨[9,9], some [8]⟩ [7] (some "ssh-rsa"))
    = ([0,0,0,15, 13, 0,0,0,1, 8, 0,0,0,1, 7, 0,0,0,0], .error .cannotSign) := by rfl
example : (signSshData (demoAgent [0,0,0,9, 14] []) ⟨[9], none⟩ [] none).2 = .error .lostAgent := by rfl
example : flagFor (some "rsa-sha2-256-cert-v01@openssh.com") = 2 ∧ flagFor (some "RSA-SHA2-256") = 0 := by decide

end PV.Props.C45
