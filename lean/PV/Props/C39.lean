/-
  C39 — SSH wire encoding round-trips and integers are encoded canonically.
  Property theorems only (helpers: PV/Base/WireLemmas.lean).  Model: PV/Base/Wire.lean.
-/
import PV.Base.WireLemmas
namespace PV.Props.C39
open PV PV.Wire

/-! ## mpint: inflate ∘ deflate = id, minimality, zero -/

private theorem deflatePos_spec (n : Nat) :
    ∃ c cs, deflatePos n = c :: cs ∧ c.toNat < 128 ∧ beVal (c :: cs) = n := by
  unfold deflatePos
  by_cases h : n = 0
  · subst h; exact ⟨0, [], by simp, by decide, by simp [beVal]⟩
  · simp only [h, if_false]
    have hv := beVal_natBytes n
    cases hq : natBytes n with
    | nil => exact absurd hq (natBytes_ne_nil n h)
    | cons b r =>
      rw [hq] at hv
      by_cases hb : b.toNat ≥ 128
      · refine ⟨0, b :: r, by simp [signPad, hb], by decide, ?_⟩
        rw [beVal_cons]; simpa using hv
      · exact ⟨b, r, by simp [signPad, hb], by omega, hv⟩

/-- `inflate_long(deflate_long(z)) == z` for every integer, negative ones included. -/
theorem inflate_deflate (z : Int) : inflate (deflate z) = z := by
  unfold deflate
  by_cases hz : 0 ≤ z
  · simp only [hz, if_true]
    obtain ⟨c, cs, hd, hc, hv⟩ := deflatePos_spec z.toNat
    rw [hd]
    simp only [inflate]
    have : ¬ c.toNat ≥ 128 := by omega
    simp only [this, if_false]
    rw [hv]; omega
  · simp only [hz, if_false]
    obtain ⟨c, cs, hd, hc, hv⟩ := deflatePos_spec (-z - 1).toNat
    rw [hd]
    have hcompl : compl (c :: cs) = (255 - c) :: compl cs := by simp [compl]
    have hsum := beVal_compl (c :: cs)
    rw [hcompl] at hsum ⊢
    simp only [inflate]
    have hge : (255 - c).toNat ≥ 128 := by rw [compl_toNat]; omega
    simp only [hge, if_true]
    rw [hv] at hsum
    have hlen : ((255 - c) :: compl cs).length = (c :: cs).length := by simp
    rw [hlen]
    have h1 : ((beVal ((255 - c) :: compl cs) : Nat) : Int) + ((-z - 1).toNat : Int) + 1
        = ((256 ^ (c :: cs).length : Nat) : Int) := by exact_mod_cast hsum
    have h2 : ((-z - 1).toNat : Int) = -z - 1 := Int.toNat_of_nonneg (by omega)
    rw [h2] at h1
    have h3 : ((256 ^ (c :: cs).length : Nat) : Int) = (256 : Int) ^ (c :: cs).length := by
      simp
    rw [h3] at h1
    omega

/-- RFC 4251 minimality: no leading byte of the encoding is redundant. -/
def Minimal (s : Bytes) : Prop :=
  s ≠ [] ∧ ∀ b c r, s = b :: c :: r →
    ¬ (b = 0 ∧ c.toNat < 128) ∧ ¬ (b = 255 ∧ c.toNat ≥ 128)

private theorem deflatePos_minimal (n : Nat) (h : n ≠ 0) :
    ∃ b r, deflatePos n = b :: r ∧ b.toNat < 128 ∧
      (∀ c r', r = c :: r' → ¬ (b = 0 ∧ c.toNat < 128)) := by
  unfold deflatePos
  simp only [h, if_false]
  cases hq : natBytes n with
  | nil => exact absurd hq (natBytes_ne_nil n h)
  | cons b r =>
    have hb0 := natBytes_head_ne_zero n b r hq
    by_cases hb : b.toNat ≥ 128
    · refine ⟨0, b :: r, by simp [signPad, hb], by decide, ?_⟩
      intro c r' hcr
      simp at hcr
      obtain ⟨hc, _⟩ := hcr
      subst hc
      omega
    · refine ⟨b, r, by simp [signPad, hb], by omega, ?_⟩
      intro c r' _ hbad
      exact hb0 hbad.1

theorem deflate_minimal (z : Int) (hz : z ≠ 0) : Minimal (deflate z) := by
  unfold deflate
  by_cases h0 : 0 ≤ z
  · simp only [h0, if_true]
    obtain ⟨b, r, hd, hb, hmin⟩ := deflatePos_minimal z.toNat (by omega)
    rw [hd]
    refine ⟨by simp, ?_⟩
    intro b' c r' heq
    simp at heq
    obtain ⟨hb', hr⟩ := heq
    subst hb'
    refine ⟨hmin c r' hr, ?_⟩
    intro hbad
    have := congrArg UInt8.toNat hbad.1
    simp at this
    omega
  · simp only [h0, if_false]
    by_cases hm : (-z - 1).toNat = 0
    · rw [hm]
      refine ⟨by decide, ?_⟩
      intro b c r heq
      have : (compl (deflatePos 0)).length = 1 := by decide
      rw [heq] at this
      simp at this
    · obtain ⟨b, r, hd, hb, hmin⟩ := deflatePos_minimal (-z - 1).toNat hm
      rw [hd]
      have hcompl : compl (b :: r) = (255 - b) :: compl r := by simp [compl]
      rw [hcompl]
      refine ⟨by simp, ?_⟩
      intro b' c' r' heq
      simp at heq
      obtain ⟨hb', hr⟩ := heq
      subst hb'
      have hbn : (255 - b).toNat = 255 - b.toNat := compl_toNat b
      cases r with
      | nil => simp [compl] at hr
      | cons c rr =>
        have hcr : compl (c :: rr) = (255 - c) :: compl rr := by simp [compl]
        rw [hcr] at hr
        simp at hr
        obtain ⟨hc', _⟩ := hr
        subst hc'
        have hcn : (255 - c).toNat = 255 - c.toNat := compl_toNat c
        have hclt := c.toNat_lt
        constructor
        · intro hbad
          have := congrArg UInt8.toNat hbad.1
          simp at this
          omega
        · intro hbad
          have h255 := congrArg UInt8.toNat hbad.1
          have hb0 : b = 0 := by
            apply UInt8.toNat_inj.mp
            simp at h255 ⊢
            omega
          exact (hmin c rr rfl) ⟨hb0, by omega⟩

/-- zero is the empty string on the wire (RFC 4251 §5) -/
theorem mpint_zero_is_empty : encode (.mpint 0) = [0, 0, 0, 0] := by decide

/-- non-zero mpints carry exactly `deflate_long`'s minimal form -/
theorem mpint_nonzero (z : Int) (hz : z ≠ 0) : encode (.mpint z) = encStr (deflate z) := by
  simp [encode, encMpint, hz]

/-! ## already-read bytes ++ unread remainder = whole message -/

theorem soFar_append_remainder (r : Rd) : r.soFar ++ r.remainder = r.content :=
  List.take_append_drop _ _

private theorem decode_content (r : Rd) (k : Kind) : (decode r k).2.content = r.content := by
  cases k <;> simp only [decode, Rd.getInt, Rd.getString] <;>
    (try split) <;> simp [getBytes_content]

theorem decodeAll_content (r : Rd) (ks : List Kind) : (decodeAll r ks).2.content = r.content := by
  induction ks generalizing r with
  | nil => rfl
  | cons k ks ih => simp only [decodeAll]; rw [ih, decode_content]

/-- after any sequence of `get_*` calls on any bytes: `get_so_far() + get_remainder()` is the message -/
theorem soFar_remainder_after_any_reads (content : Bytes) (ks : List Kind) :
    let r := (decodeAll { content := content, pos := 0 } ks).2
    r.soFar ++ r.remainder = content := by
  simp only
  rw [soFar_append_remainder, decodeAll_content]

/-! ## round trip of typed field sequences -/

private theorem getInt_exact (pre rest : Bytes) (n : Nat) (h : n < 4294967296) :
    Rd.getInt { content := pre ++ be32 n ++ rest, pos := pre.length }
      = (n, { content := pre ++ be32 n ++ rest, pos := pre.length + 4 }) := by
  have := getBytes_exact pre (be32 n) rest
  simp only [be32, beBytes_length] at this
  simp only [Rd.getInt, be32, this]
  rw [show beVal (beBytes 4 n) = n from beVal_be32 n h]

private theorem getString_exact (pre s rest : Bytes) (h : s.length < 4294967296) :
    Rd.getString { content := pre ++ encStr s ++ rest, pos := pre.length }
      = (s, { content := pre ++ encStr s ++ rest, pos := pre.length + (encStr s).length }) := by
  unfold Rd.getString encStr
  have h1 := getInt_exact pre (s ++ rest) s.length h
  have e1 : pre ++ (be32 s.length ++ s) ++ rest = pre ++ be32 s.length ++ (s ++ rest) := by
    simp [List.append_assoc]
  rw [e1, h1]
  simp only
  have h2 := getBytes_exact (pre ++ be32 s.length) s rest
  have e2 : (pre ++ be32 s.length).length = pre.length + 4 := by simp [be32]
  rw [e2] at h2
  have e3 : pre ++ be32 s.length ++ (s ++ rest) = pre ++ be32 s.length ++ s ++ rest := by
    simp [List.append_assoc]
  rw [e3, h2]
  simp [be32]; omega

private theorem splitGo_append (a tail acc : Bytes) (ha : (44 : UInt8) ∉ a) :
    splitComma.go (a ++ tail) acc = splitComma.go tail (a.reverse ++ acc) := by
  induction a generalizing acc with
  | nil => rfl
  | cons c cs ih =>
    have hc : c ≠ 44 := by intro h; exact ha (by simp [h])
    have hcs : (44 : UInt8) ∉ cs := by intro h; exact ha (by simp [h])
    simp only [List.cons_append, splitComma.go, hc, if_false]
    rw [ih (c :: acc) hcs]
    simp

private theorem splitGo_join (l : List Bytes) (a : Bytes) (acc : Bytes)
    (ha : (44 : UInt8) ∉ a) (hl : ∀ x ∈ l, (44 : UInt8) ∉ x) :
    splitComma.go (joinComma (a :: l)) acc = (acc.reverse ++ a) :: l := by
  induction l generalizing a acc with
  | nil =>
    have := splitGo_append a [] acc ha
    simp only [List.append_nil] at this
    simp [joinComma, this, splitComma.go]
  | cons b r ih =>
    have hj : joinComma (a :: b :: r) = a ++ 44 :: joinComma (b :: r) := rfl
    rw [hj, splitGo_append a _ acc ha]
    simp only [splitComma.go, if_true]
    rw [ih b [] (hl b (by simp)) (fun x hx => hl x (by simp [hx]))]
    simp

theorem split_join (l : List Bytes) (hne : l ≠ []) (hl : ∀ x ∈ l, (44 : UInt8) ∉ x) :
    splitComma (joinComma l) = l := by
  cases l with
  | nil => exact absurd rfl hne
  | cons a r =>
    have := splitGo_join r a [] (hl a (by simp)) (fun x hx => hl x (by simp [hx]))
    simpa [splitComma] using this

private theorem inflate_encMpint (z : Int) : inflate (if z = 0 then [] else deflate z) = z := by
  by_cases h : z = 0
  · subst h; rfl
  · simp only [h, if_false]; exact inflate_deflate z

/-- one field: what `add_x` wrote, `get_x` reads back, leaving the position just after it -/
theorem decode_encode (f : Field) (hf : f.WF) (pre rest : Bytes) :
    decode { content := pre ++ encode f ++ rest, pos := pre.length } f.kind
      = (f, { content := pre ++ encode f ++ rest, pos := pre.length + (encode f).length }) := by
  cases f with
  | byte b =>
    have := getBytes_exact pre [b] rest
    simp only [List.length_singleton] at this
    simp only [decode, encode, Field.kind]
    rw [this]; rfl
  | bool b =>
    have := getBytes_exact pre [if b then (1 : UInt8) else 0] rest
    simp only [List.length_singleton] at this
    simp only [decode, encode, Field.kind]
    rw [this]
    cases b <;> rfl
  | u32 n =>
    simp only [Field.WF] at hf
    simp only [decode, encode, Field.kind]
    rw [getInt_exact pre rest n hf]
    simp [be32]
  | u64 n =>
    simp only [Field.WF] at hf
    have := getBytes_exact pre (be64 n) rest
    simp only [be64, beBytes_length] at this
    simp only [decode, encode, Field.kind, be64]
    rw [this]
    simp only
    rw [show beVal (beBytes 8 n) = n from beVal_be64 n hf]
    simp
  | str s =>
    simp only [Field.WF] at hf
    simp only [decode, encode, Field.kind]
    rw [getString_exact pre s rest hf]
  | list l =>
    simp only [Field.WF] at hf
    obtain ⟨hne, hcomma, hlen⟩ := hf
    simp only [decode, encode, Field.kind]
    rw [getString_exact pre (joinComma l) rest hlen]
    simp only
    rw [split_join l hne hcomma]
  | mpint z =>
    simp only [Field.WF] at hf
    have hlen : (if z = 0 then [] else deflate z : Bytes).length < 4294967296 := by
      split
      · simp
      · exact hf
    simp only [decode, encode, Field.kind, encMpint]
    rw [getString_exact pre _ rest hlen]
    simp only
    rw [inflate_encMpint]
  | adaptive z =>
    simp only [Field.WF] at hf
    obtain ⟨hz, hlen⟩ := hf
    by_cases hbig : z ≥ 4278190080
    · -- 0xFF marker followed by a string
      simp only [decode, encode, Field.kind, hbig, if_true]
      have e1 : pre ++ 255 :: encStr (deflate z) ++ rest = pre ++ [255] ++ (encStr (deflate z) ++ rest) := by
        simp [List.append_assoc]
      have h1 := getBytes_exact pre [255] (encStr (deflate z) ++ rest)
      simp only [List.length_singleton] at h1
      rw [e1, h1]
      simp only [if_true]
      have e2 : pre ++ [255] ++ (encStr (deflate z) ++ rest) = (pre ++ [255]) ++ encStr (deflate z) ++ rest := by
        simp [List.append_assoc]
      have h2 := getString_exact (pre ++ [255]) (deflate z) rest hlen
      have e3 : (pre ++ [255]).length = pre.length + 1 := by simp
      rw [e3] at h2
      rw [e2, h2, inflate_deflate]
      simp only [List.length_cons, Nat.add_assoc, Nat.add_comm 1]
    · -- plain uint32; its first byte cannot be 0xFF
      have hlt : z.toNat < 4278190080 := by omega
      simp only [decode, encode, Field.kind, hbig, if_false]
      generalize hn : z.toNat = n at *
      have hb : be32 n = [UInt8.ofNat (n / 256 / 256 / 256 % 256), UInt8.ofNat (n / 256 / 256 % 256),
          UInt8.ofNat (n / 256 % 256), UInt8.ofNat (n % 256)] := by
        simp [be32, beBytes]
      have e1 : pre ++ be32 n ++ rest = pre ++ [UInt8.ofNat (n / 256 / 256 / 256 % 256)] ++
          ([UInt8.ofNat (n / 256 / 256 % 256), UInt8.ofNat (n / 256 % 256), UInt8.ofNat (n % 256)] ++ rest) := by
        rw [hb]; simp [List.append_assoc]
      have h1 := getBytes_exact pre [UInt8.ofNat (n / 256 / 256 / 256 % 256)]
        ([UInt8.ofNat (n / 256 / 256 % 256), UInt8.ofNat (n / 256 % 256), UInt8.ofNat (n % 256)] ++ rest)
      simp only [List.length_singleton] at h1
      have hne : ¬ ([UInt8.ofNat (n / 256 / 256 / 256 % 256)] = [(255 : UInt8)]) := by
        intro h
        have := congrArg (fun l => (l.headD 0).toNat) h
        simp at this
        omega
      have h2 := getBytes_exact (pre ++ [UInt8.ofNat (n / 256 / 256 / 256 % 256)])
        [UInt8.ofNat (n / 256 / 256 % 256), UInt8.ofNat (n / 256 % 256), UInt8.ofNat (n % 256)] rest
      have e3 : (pre ++ [UInt8.ofNat (n / 256 / 256 / 256 % 256)]).length = pre.length + 1 := by simp
      have e4 : [UInt8.ofNat (n / 256 / 256 % 256), UInt8.ofNat (n / 256 % 256), UInt8.ofNat (n % 256)].length = 3 := rfl
      rw [e3, e4] at h2
      have e5 : pre ++ [UInt8.ofNat (n / 256 / 256 / 256 % 256)] ++
          ([UInt8.ofNat (n / 256 / 256 % 256), UInt8.ofNat (n / 256 % 256), UInt8.ofNat (n % 256)] ++ rest)
          = pre ++ [UInt8.ofNat (n / 256 / 256 / 256 % 256)] ++
          [UInt8.ofNat (n / 256 / 256 % 256), UInt8.ofNat (n / 256 % 256), UInt8.ofNat (n % 256)] ++ rest := by
        simp [List.append_assoc]
      rw [e1, h1]
      simp only [hne, if_false]
      rw [e5, h2]
      have hv : beVal ([UInt8.ofNat (n / 256 / 256 / 256 % 256)] ++ [UInt8.ofNat (n / 256 / 256 % 256),
          UInt8.ofNat (n / 256 % 256), UInt8.ofNat (n % 256)]) = n := by
        have := beVal_be32 n (by omega)
        rw [hb] at this
        simpa using this
      simp only [hv]
      have hzn : (n : Int) = z := by rw [← hn]; exact Int.toNat_of_nonneg hz
      rw [hzn, ← e5, ← e1]
      simp [be32]

/-- **Round trip.** Any sequence of well-formed fields written with the `add_*` methods is read back
unchanged and in order by the matching `get_*` methods, whatever precedes or follows it. -/
theorem roundtrip (fs : List Field) (hfs : ∀ f ∈ fs, f.WF) (pre rest : Bytes) :
    decodeAll { content := pre ++ encodeAll fs ++ rest, pos := pre.length } (fs.map Field.kind)
      = (fs, { content := pre ++ encodeAll fs ++ rest, pos := pre.length + (encodeAll fs).length }) := by
  induction fs generalizing pre with
  | nil => simp [decodeAll, encodeAll]
  | cons f fs ih =>
    have hf := hfs f (by simp)
    have hrest : ∀ g ∈ fs, g.WF := fun g hg => hfs g (by simp [hg])
    have e1 : pre ++ encodeAll (f :: fs) ++ rest = pre ++ encode f ++ (encodeAll fs ++ rest) := by
      simp [encodeAll, List.append_assoc]
    have h1 := decode_encode f hf pre (encodeAll fs ++ rest)
    simp only [List.map_cons, decodeAll]
    rw [e1, h1]
    simp only
    have e2 : pre ++ encode f ++ (encodeAll fs ++ rest) = (pre ++ encode f) ++ encodeAll fs ++ rest := by
      simp [List.append_assoc]
    have h2 := ih hrest (pre ++ encode f)
    have e3 : (pre ++ encode f).length = pre.length + (encode f).length := by simp
    rw [e3] at h2
    rw [e2, h2]
    simp [encodeAll, Nat.add_assoc]

/-- the remainder after reading back is exactly what followed the fields -/
theorem roundtrip_remainder (fs : List Field) (hfs : ∀ f ∈ fs, f.WF) (rest : Bytes) :
    (decodeAll { content := encodeAll fs ++ rest, pos := 0 } (fs.map Field.kind)).2.remainder = rest := by
  have := roundtrip fs hfs [] rest
  simp only [List.nil_append, List.length_nil, Nat.zero_add] at this
  rw [this]
  simp [Rd.remainder]

/-! ## non-vacuity: concrete well-formed instances -/

private theorem natBytes_255 : natBytes 255 = [255] := by
  rw [natBytes_pos 255 (by decide)]
  simp [natBytes_zero]

example : (Field.mpint (-256)).WF := by
  simp [Field.WF, deflate, deflatePos, natBytes_255, signPad, compl]
example : (Field.list [[97], [], [98, 99]]).WF := by
  refine ⟨by simp, ?_, by simp [joinComma]⟩
  intro a ha
  simp at ha
  rcases ha with h | h | h <;> subst h <;> decide
example : (Field.str [1, 2, 3]).WF := by simp [Field.WF]
example : encode (.mpint (-256)) = [0, 0, 0, 2, 255, 0] := by
  simp [encode, encMpint, encStr, deflate, deflatePos, natBytes_255, signPad, compl, be32, beBytes]
example : Minimal (deflate 128) := deflate_minimal 128 (by decide)

end PV.Props.C39
