/-
  C22 — Channel EOF and CLOSE are sent at most once and end data transmission.
  Model: PV/Model/ChanWindow.lean (lock regions of close / _close_internal / _send_eof / shutdown /
  _handle_eof / _handle_close / _request_failed / _unlink next to the send path); lemmas:
  PV/Model/ChanCloseLemmas.lean.  All theorems hold for both code versions (`cfg` arbitrary).

  FULL STATEMENT OF THE THIRD CLAUSE (false of the code, see `C22_witness`):
      ∀ schedules, dataAfterEnd (run cfg init sched).wire = false
  i.e. "after a side has sent EOF or CLOSE it sends no further data, even when other threads are still
  writing".  `Channel._send` reserves window under the lock but writes the message after releasing it (on
  purpose: holding it would deadlock during re-keying), so a concurrent close() can put EOF, CLOSE on the wire
  first.  Proved instead: `C22_partial` (no such data unless the EOF was decided while a writer already held
  a reservation — ghost flag `raced`) and `no_reservation_after_eof` (nothing is reserved any more once EOF
  is decided, so the late messages are exactly the reservations that existed at that moment).
-/
import PV.Model.ChanCloseLemmas
import PV.Model.FlagOnce
import PV.Generated.ChanLock
import PV.Generated.C22
namespace PV.Props.C22
open PV.Chan

private theorem sumBy_init (f : TSt → Nat) (h : f (TSt.idle Res.none) = 0) (n : Nat) :
    sumBy f (List.replicate n (TSt.idle Res.none)) = 0 := by
  induction n with
  | zero => rfl
  | succ n ih => simp only [List.replicate_succ, sumBy, h, ih]

private theorem count_init (inWin peerWin peerMax nthr : Nat) (c : Bool) :
    CountInv (init inWin peerWin peerMax nthr c) :=
  ⟨by simp [init, sumBy_init TSt.nEof rfl], by simp [init, sumBy_init TSt.nClose rfl], rfl,
   by intro h; cases h⟩

private theorem race_init (inWin peerWin peerMax nthr : Nat) (c : Bool) :
    RaceInv (init inWin peerWin peerMax nthr c) := by
  intro _
  refine ⟨(by intro h; cases h), ?_, rfl⟩
  intro _
  refine ⟨by simp [init], ?_⟩
  intro x hx
  simp only [init, List.mem_replicate] at hx
  rw [hx.2]; rfl

/-- **At most one EOF, at most one CLOSE** — on the wire and in the hands of threads about to write, together,
    in every schedule (any number of threads calling close / shutdown / shutdown_write, peer EOF, peer CLOSE,
    failed requests, transport teardown, failing wire writes, in any interleaving).  An EOF exists only if
    `eof_sent` is set. -/
theorem eof_close_at_most_once (cfg : Cfg) (inWin peerWin peerMax nthr : Nat) (c : Bool) (sched : List Act) :
    List.countP Msg.isEof (run cfg (init inWin peerWin peerMax nthr c) sched).wire ≤ 1 ∧
    List.countP Msg.isClose (run cfg (init inWin peerWin peerMax nthr c) sched).wire ≤ 1 ∧
    (List.countP Msg.isEof (run cfg (init inWin peerWin peerMax nthr c) sched).wire +
       sumBy TSt.nEof (run cfg (init inWin peerWin peerMax nthr c) sched).thr ≤
     (run cfg (init inWin peerWin peerMax nthr c) sched).eofSent.toNat) := by
  have h := run_count cfg _ sched (count_init inWin peerWin peerMax nthr c)
  have e := h.eofc
  have cl := h.closec
  have b1 : (run cfg (init inWin peerWin peerMax nthr c) sched).eofSent.toNat ≤ 1 := Bool.toNat_le _
  have b2 : (run cfg (init inWin peerWin peerMax nthr c) sched).closed.toNat ≤ 1 := Bool.toNat_le _
  refine ⟨by omega, by omega, e⟩

/-- **A peer's CLOSE is answered with ours unless we already sent one, and the channel is released.**
    On an open channel the handling thread ends up holding [EOF (unless sent), CLOSE] and the channel is
    removed from the transport's map; on a channel we already closed nothing is sent and it is removed. -/
theorem peer_close_answered_and_released (cfg : Cfg) (s : St) (t : Nat) (r : Res)
    (hr : s.thr[t]? = some (.idle r)) (ha : s.active = true) :
    (s.closed = false →
      (step cfg s (.peerClose t)).thr[t]? = some (.hold ((if s.eofSent then [] else [.eof]) ++ [.close]) .retNone) ∧
      (step cfg s (.peerClose t)).closed = true) ∧
    (s.closed = true → (step cfg s (.peerClose t)).thr[t]? = some (.idle .none) ∧
      (step cfg s (.peerClose t)).wire = s.wire) ∧
    (step cfg s (.peerClose t)).linked = false := by
  cases hc : s.closed
  · have h := peerClose_open cfg s t r hr ha hc
    simp only at h
    exact ⟨fun _ => ⟨h.2.2.2, h.1⟩, (fun h' => by cases h'), h.2.1⟩
  · have h := peerClose_closed cfg s t r hr hc
    simp only at h
    exact ⟨(fun h' => by cases h'), fun _ => ⟨h.2.1, h.2.2⟩, h.1⟩

/-- a channel that is no longer in the transport's map is closed (every schedule) -/
theorem released_implies_closed (cfg : Cfg) (inWin peerWin peerMax nthr : Nat) (c : Bool) (sched : List Act) :
    (run cfg (init inWin peerWin peerMax nthr c) sched).linked = false →
    (run cfg (init inWin peerWin peerMax nthr c) sched).closed = true :=
  (run_count cfg _ sched (count_init inWin peerWin peerMax nthr c)).unl

/-- **Later operations fail instead of sending.**  Once the channel is closed and its EOF is out (in
    particular once both CLOSEs were exchanged), NO action of any thread and no peer message creates a new
    message: the number of messages written plus messages already in the hands of threads never grows
    again (it shrinks only when a pending wire write fails) — and the flags stay as they are. -/
theorem dead_channel_sends_nothing (cfg : Cfg) (s : St) (sched : List Act)
    (hc : s.closed = true) (he : s.eofSent = true) :
    msgTotal (run cfg s sched) ≤ msgTotal s ∧ (run cfg s sched).closed = true ∧
    (run cfg s sched).eofSent = true := by
  induction sched generalizing s with
  | nil => exact ⟨Nat.le_refl _, hc, he⟩
  | cons a as ih =>
    have f := step_frame cfg s a
    have h1 := dead_step_le cfg s a hc he
    obtain ⟨i1, i2, i3⟩ := ih (step cfg s a) (f.2.2.2.2.1 hc) (f.2.2.2.2.2.2 he)
    exact ⟨Nat.le_trans i1 h1, i2, i3⟩

/-- … and the calls themselves raise: `send` / `send_stderr` on a closed channel is `socket.error` -/
theorem send_on_closed_raises (cfg : Cfg) (s : St) (t n : Nat) (ext : Bool) (r : Res)
    (hr : s.thr[t]? = some (.idle r)) (hc : s.closed = true) :
    (step cfg s (.send t n ext)).thr[t]? = some (.idle .sockClosed) ∧
    (step cfg s (.send t n ext)).wire = s.wire := by
  have hid : idleOf s t = true := by simp [idleOf, hr]
  have hlt : t < s.thr.length := (List.getElem?_eq_some_iff.1 hr).1
  simp only [step, hid, if_true, sendRegion, hc]
  exact ⟨setThr_get _ t _ hlt, rfl⟩

/-- **Nothing is reserved after EOF is decided**: on a channel that is closed or has `eof_sent`, the lock
    region of `_send` and every wake-up leave the calling thread holding no message at all. -/
theorem no_reservation_after_eof (cfg : Cfg) (s : St) (t : Nat) (h : s.closed = true ∨ s.eofSent = true) :
    (∀ n ext r, s.thr[t]? = some (.idle r) →
      ∃ x, (step cfg s (.send t n ext)).thr[t]? = some x ∧ x.held = []) ∧
    (∀ l ext, s.thr[t]? = some (.loopHead l ext) →
      ∃ x, (step cfg s (.iter t)).thr[t]? = some x ∧ x.held = []) ∧
    (∀ dt want ext left lp, s.thr[t]? = some (.waiting want ext left lp) →
      ∃ x, (step cfg s (.wake t dt)).thr[t]? = some x ∧ x.held = []) := by
  have key : ∀ (s' : St) (want : Nat) (ext : Bool) (lp : Option Loop) (old : TSt), s.thr[t]? = some old →
      SendOutEff2 cfg s s' t want ext lp → ∃ x, s'.thr[t]? = some x ∧ x.held = [] := by
    intro s' want ext lp old hr ho
    obtain ⟨d, x, e, hso, hopen⟩ := ho
    refine ⟨x, by rw [e]; exact setThr_get _ t x (List.getElem?_eq_some_iff.1 hr).1, ?_⟩
    rcases sendOut_held cfg want ext lp x hso with hx | ⟨n, _, hd⟩
    · exact hx
    · obtain ⟨h1, h2⟩ := hopen hd
      rcases h with h | h
      · rw [h1] at h; cases h
      · rw [h2] at h; cases h
  refine ⟨?_, ?_, ?_⟩
  · intro n ext r hr
    have hid : idleOf s t = true := by simp [idleOf, hr]
    simp only [step, hid, if_true]
    exact key _ n ext none _ hr (sendRegion_out2 cfg s t n ext none)
  · intro l ext hr
    simp only [step, hr]
    exact key _ l.rem ext (some l) _ hr (sendRegion_out2 cfg s t l.rem ext (some l))
  · intro dt want ext left lp hr
    simp only [step, hr]
    exact key _ want ext lp _ hr (wakeRegion_out2 cfg s t dt want ext left lp)

/-- **Third clause, as far as it is true.**  In every schedule in which EOF was never decided while some thread
    held a reserved-but-unwritten data message (`raced = false` — e.g. every single-writer program that closes
    from the writing thread, and every program that joins its writers before closing): no CHANNEL_DATA or
    CHANNEL_EXTENDED_DATA follows an EOF or CLOSE on the wire, and while EOF is out no thread holds data. -/
theorem C22_partial (cfg : Cfg) (inWin peerWin peerMax nthr : Nat) (c : Bool) (sched : List Act)
    (h : (run cfg (init inWin peerWin peerMax nthr c) sched).raced = false) :
    dataAfterEnd (run cfg (init inWin peerWin peerMax nthr c) sched).wire = false ∧
    ((run cfg (init inWin peerWin peerMax nthr c) sched).eofSent = true →
      ∀ x ∈ (run cfg (init inWin peerWin peerMax nthr c) sched).thr, x.holdsData = false) := by
  have hi := run_race cfg _ sched (race_init inWin peerWin peerMax nthr c) h
  exact ⟨hi.wireOk, hi.afterEof⟩

/-- **The defect (kept as a known finding).**  Thread 0 reserves 5 bytes in `send` and is about to write;
    thread 1 calls `close()` and writes EOF, CLOSE; then thread 0 writes its DATA: wire = [EOF, CLOSE, DATA]. -/
theorem C22_witness :
    let s := run fixedCfg (init 32768 32768 32768 2 false) [.send 0 5 false, .close 1, .emit 1, .emit 1, .emit 0]
    s.wire = [.eof, .close, .data 5] ∧ dataAfterEnd s.wire = true ∧ s.raced = true ∧
    s.thr = [.idle (.ret 5), .idle .none] := by
  decide +kernel

/-- non-vacuity of `C22_partial` and of the counting theorem: two closers and the peer's CLOSE race; one EOF,
    one CLOSE, no data after them, channel released -/
example :
    let s := run fixedCfg (init 32768 32768 32768 3 false)
      [.send 0 5 false, .emit 0, .shutdownWrite 0, .close 1, .peerClose 2, .emit 0, .emit 1, .send 0 3 true,
       .shutdownWrite 1, .close 0]
    s.wire = [.data 5, .eof, .close] ∧ s.raced = false ∧ s.linked = false ∧ dataAfterEnd s.wire = false ∧
    s.thr = [.idle .none, .idle .none, .idle .none] := by
  decide +kernel

/-! ## statement granularity: the atomic regions assumed above are the regions the code really locks -/

open PV.FlagOnce in
private def FInv (s : PV.FlagOnce.St) : Prop :=
  s.emitted = s.flag.toNat ∧ ∀ p ∈ s.thr, p = Pc.ready true ∨ p = Pc.done

open PV.FlagOnce in
private theorem fstep_inv (s : PV.FlagOnce.St) (t : Nat) (h : FInv s) : FInv (PV.FlagOnce.step s t) := by
  obtain ⟨h1, h2⟩ := h
  have hset : ∀ (l : List Pc) (x : Pc), (∀ p ∈ l, p = Pc.ready true ∨ p = Pc.done) → x = Pc.done →
      ∀ p ∈ l.set t x, p = Pc.ready true ∨ p = Pc.done := by
    intro l x hl hx p hp
    rcases List.mem_or_eq_of_mem_set hp with h | h
    · exact hl p h
    · exact .inr (h.trans hx)
  unfold PV.FlagOnce.step
  split
  · split
    · exact ⟨h1, hset _ _ h2 rfl⟩
    · rename_i hf
      refine ⟨?_, hset _ _ h2 rfl⟩
      have : s.flag = false := by simpa using hf
      simp [this] at h1 ⊢; omega
  · rename_i hr
    have := h2 _ (List.mem_of_getElem? hr)
    rcases this with h | h <;> cases h
  · rename_i hr
    have := h2 _ (List.mem_of_getElem? hr)
    rcases this with h | h <;> cases h
  · exact ⟨h1, h2⟩

/-- **If every call site holds the lock, the flag is decided once**: whatever the number of threads and the
    interleaving of their steps, at most one message is produced. -/
theorem decided_once_if_all_locked (sites : List Bool) (hall : ∀ b ∈ sites, b = true) (sched : List Nat) :
    (PV.FlagOnce.run (PV.FlagOnce.init sites) sched).emitted ≤ 1 := by
  have h0 : FInv (PV.FlagOnce.init sites) := by
    refine ⟨rfl, ?_⟩
    intro p hp
    simp only [PV.FlagOnce.init, List.mem_map] at hp
    obtain ⟨b, hb, rfl⟩ := hp
    exact .inl (by rw [hall b hb])
  have : ∀ (sch : List Nat) (s : PV.FlagOnce.St), FInv s → FInv (PV.FlagOnce.run s sch) := by
    intro sch
    induction sch with
    | nil => intro s h; exact h
    | cons t ts ih => intro s h; exact ih _ (fstep_inv s t h)
  have hf := (this sched _ h0).1
  have := Bool.toNat_le (PV.FlagOnce.run (PV.FlagOnce.init sites) sched).flag
  omega

/-- … and one unlocked call site is enough to break it: the unlocked thread reads the flag, a locked one decides
    and emits, the unlocked one then writes and emits again (wire: EOF … EOF). -/
theorem unlocked_site_double_emit_witness :
    (PV.FlagOnce.run (PV.FlagOnce.init [false, true]) [0, 1, 0]).emitted = 2 := by
  decide

/-- the decision sites of channel.py outside the constructor, as generated from its AST on this run -/
def decisionSites : List PV.Generated.ChanLock.Site :=
  PV.Generated.ChanLock.sites.filter fun s => s.caller != "__init__"

/-- **Every place that decides EOF or CLOSE runs under `self.lock`** (calls of `_send_eof`, `_close_internal`,
    `_set_closed`, writes of `eof_sent` / `closed`; helpers documented "you are holding the lock" count as locked
    only if every one of their call sites is): the lock regions the model treats as atomic are the ones in the
    source.  Re-checked against the source on every run. -/
theorem decision_sites_locked : ∀ s ∈ decisionSites, s.effLocked = true := by
  decide

/-- **A channel is released under its own (local) id**: every `transport._unlink_channel(…)` call in class Channel
    passes `self.chanid` (AST of channel.py on this run) — the transport's map is keyed by the local id, so this is
    what makes "released" in `peer_close_answered_and_released` mean "this channel, and only it". -/
theorem unlink_uses_the_local_id :
    PV.Generated.ChanLock.unlinkArgs ≠ [] ∧ ∀ a ∈ PV.Generated.ChanLock.unlinkArgs, a = "self.chanid" := by
  decide

/-- **Every message for a registered channel reaches its handler**: in `Transport.run` the only condition between
    `chan = self._channels.get(chanid)` and `self._channel_handler_table[ptype](chan, m)` is `chan is not None`
    (AST of transport.py on this run) — in particular the peer's CLOSE reaches `_handle_close` of a channel we
    closed first, which is the `peerClose` action that releases it (`peer_close_answered_and_released`). -/
theorem dispatch_reaches_every_registered_channel :
    PV.Generated.C22.dispatchGuard = "chan is not None" ∧ PV.Generated.C22.dispatchCallsHandler = true := by
  decide

/-- hence, for any number of threads running any of those sites concurrently: at most one EOF (CLOSE) -/
theorem eof_decided_once_at_statement_level (calls : List PV.Generated.ChanLock.Site)
    (h : ∀ c ∈ calls, c ∈ decisionSites) (sched : List Nat) :
    (PV.FlagOnce.run (PV.FlagOnce.init (calls.map (·.effLocked))) sched).emitted ≤ 1 := by
  apply decided_once_if_all_locked
  intro b hb
  simp only [List.mem_map] at hb
  obtain ⟨c, hc, rfl⟩ := hb
  exact decision_sites_locked c (h c hc)

end PV.Props.C22
