/-
  C14 — A server grants authentication only with its own approval and valid proof.
  Property theorems only.  Model: PV/Model/AuthServer.lean; helpers: PV/Model/AuthServerLemmas.lean,
  PV/Model/AuthServerGrant.lean.

  `Call.approves c` : the callback `c` evaluated a credential (check_auth_none / password / publickey /
  interactive / interactive_response / gssapi_with_mic / gssapi_keyex) and returned AUTH_SUCCESSFUL.
  The signature scheme `sc` is arbitrary; only `replayed_signature_rejected` needs a hypothesis about it.
-/
import PV.Model.AuthServerGrant
namespace PV.Props.C14
open PV PV.Wire PV.AuthServer PV.Generated.AuthTables

variable (sc : SigScheme) (sid : Bytes)

/-! ## USERAUTH_SUCCESS and `is_authenticated()` need an approving callback in the same step -/

/-- **Approval.** Whatever the state, the message and the application's answers: if the step puts
USERAUTH_SUCCESS on the wire, then in that same step a credential callback returned AUTH_SUCCESSFUL. -/
theorem success_needs_approval (s : St) (p : Nat) (b : Bytes) (e : Env)
    (h : msgSuccess ∈ (step sc sid s p b e).2.sent) : ∃ c ∈ (step sc sid s p b e).2.cbs, c.approves := by
  by_cases ha : s.active = true
  · rw [step_active sc sid s p b e ha] at h ⊢
    exact perform_success _ e _ (step_dec sc sid s p b e).2.2.2.2.2.2.1 (decideAct_grant sc sid s p b e) h
  · simp only [Bool.not_eq_true] at ha
    rw [step_inactive sc sid s p b e ha] at h; simp at h

/-- the server-side "authenticated" flag is raised only in a step that sends USERAUTH_SUCCESS — hence only
with an approving callback -/
theorem authentication_needs_approval (s : St) (p : Nat) (b : Bytes) (e : Env)
    (h0 : s.authenticated = false) (h1 : (step sc sid s p b e).1.authenticated = true) :
    msgSuccess ∈ (step sc sid s p b e).2.sent ∧ ∃ c ∈ (step sc sid s p b e).2.cbs, c.approves := by
  have hs : msgSuccess ∈ (step sc sid s p b e).2.sent := by
    by_cases ha : s.active = true
    · rw [step_active sc sid s p b e ha] at h1 ⊢
      have d := step_dec sc sid s p b e
      exact perform_authenticated _ e _ (by rw [d.2.2.1]; exact h0) h1
    · simp only [Bool.not_eq_true] at ha
      rw [step_inactive sc sid s p b e ha] at h1; rw [h0] at h1; cases h1
  exact ⟨hs, success_needs_approval sc sid s p b e hs⟩

/-- the approving callback was asked about the username pinned on this connection (the only username the
connection ever evaluates, C16) -/
theorem approval_is_for_the_pinned_username (s : St) (p : Nat) (b : Bytes) (e : Env) (c : Call)
    (hc : c ∈ (step sc sid s p b e).2.cbs) (u : Bytes) (hu : userOf c.cb = some u) :
    (step sc sid s p b e).1.authUser = some u := step_cbs_user sc sid s p b e c hc u hu

/-! ## all histories -/

/-- **History form.** On a fresh connection, after ANY history of messages and application answers: if the
server reports the client as authenticated, some step of the history sent USERAUTH_SUCCESS and had an approving
callback. -/
theorem authenticated_only_after_approval (ms : List Msg) (h : (run sc sid init ms).1.isAuthenticated = true) :
    ∃ o ∈ (run sc sid init ms).2, msgSuccess ∈ o.sent ∧ ∃ c ∈ o.cbs, c.approves := by
  have hauth : (run sc sid init ms).1.authenticated = true := by
    simp only [St.isAuthenticated, Bool.and_eq_true] at h; exact h.2
  suffices hx : ∀ s : St, s.authenticated = false → (run sc sid s ms).1.authenticated = true →
      ∃ o ∈ (run sc sid s ms).2, msgSuccess ∈ o.sent ∧ ∃ c ∈ o.cbs, c.approves from hx init rfl hauth
  clear h hauth
  induction ms with
  | nil => intro s h0 h1; simp [run] at h1; rw [h0] at h1; cases h1
  | cons m ms ih =>
    intro s h0 h1
    simp only [run] at h1 ⊢
    cases hstep : (step sc sid s m.ptype m.payload m.env).1.authenticated
    · obtain ⟨o, ho, hr⟩ := ih _ hstep h1
      exact ⟨o, List.mem_cons_of_mem _ ho, hr⟩
    · exact ⟨_, List.mem_cons_self, authentication_needs_approval sc sid s m.ptype m.payload m.env h0 hstep⟩

/-! ## public keys: a signature over this session's blob -/

/-- a publickey USERAUTH_REQUEST as the handler reads it -/
structure PubkeyRequest (b user service algo keyblob sig : Bytes) (attached : Bool) : Prop where
  parse : ∃ r1 r2 r3 r4 r5 r6 r7,
    getText { content := b, pos := 0 } = (some user, r1) ∧ getText r1 = (some service, r2) ∧
    getText r2 = (some sPublickey, r3) ∧ getBool r3 = (attached, r4) ∧ getText r4 = (some algo, r5) ∧
    r5.getString = (keyblob, r6) ∧ r6.getString = (sig, r7)

private theorem classify_50 : classify false 50 = Class.auth := by decide
private theorem pk_ne_none : ¬ sPublickey = sNone := by decide +kernel
private theorem pk_ne_pw : ¬ sPublickey = sPassword := by decide +kernel

/-- what the handler decides for a publickey request that passes the service and username checks -/
private theorem pubkey_step (s : St) (hact : s.active = true) (hsub : s.gssSub = false) (hexp : s.expected = [])
    (hauth : s.authenticated = false) (b user service algo keyblob sig : Bytes) (attached : Bool)
    (hreq : PubkeyRequest b user service algo keyblob sig attached) (hsvc : service = sSshConnection)
    (hpin : s.authUser = none ∨ s.authUser = some user) (e : Env) :
    step sc sid s 50 b e =
      perform { s with authUser := some user } e
        (match e.keyCanon with
         | none => .disconnect [cGss] msgDiscNoMoreAuth
         | some key =>
           if e.rPubkey ≠ AUTH_FAILED then
             if !attached then .reply [cGss, Call.mk (.authPubkey user key) (some e.rPubkey)] [msgPkOk algo keyblob]
             else if sc.verify key (sessionBlob sid user service algo key) sig then
               .result [cGss, Call.mk (.authPubkey user key) (some e.rPubkey)] (some user) e.rPubkey
             else .result [cGss, Call.mk (.authPubkey user key) (some e.rPubkey)] (some user) AUTH_FAILED
           else .result [cGss, Call.mk (.authPubkey user key) (some e.rPubkey)] (some user) e.rPubkey) := by
  obtain ⟨r1, r2, r3, r4, r5, r6, r7, h1, h2, h3, h4, h5, h6, h7⟩ := hreq.parse
  have hp : ¬ (s.authUser ≠ none ∧ s.authUser ≠ some user) := by
    rcases hpin with h | h <;> simp [h]
  simp only [step, hact, decideAct, hsub, classify_50, hexp, dispatch, authDispatch, parseUserauthRequest, hauth,
    h1, h2, h3, hsvc, hp, authMethod, pk_ne_none, pk_ne_pw, h4, h5, h6, h7]
  cases e.keyCanon with
  | none => simp
  | some key =>
    by_cases hf : e.rPubkey = AUTH_FAILED <;> cases attached <;>
      by_cases hv : sc.verify key (sessionBlob sid user sSshConnection algo key) sig = true <;>
      simp [hf, hv]

/-- **Public key.** A publickey request authenticates only if the key was accepted by the key classes, the
application approved *this key for this username* (`check_auth_publickey` returned AUTH_SUCCESSFUL), a signature
is attached, and that signature verifies under this key over exactly this session's blob: session id, username,
service, algorithm, key. -/
theorem publickey_needs_valid_signature (s : St) (hact : s.active = true) (hsub : s.gssSub = false)
    (hexp : s.expected = []) (hauth : s.authenticated = false) (b user service algo keyblob sig : Bytes)
    (attached : Bool) (hreq : PubkeyRequest b user service algo keyblob sig attached)
    (hsvc : service = sSshConnection) (hpin : s.authUser = none ∨ s.authUser = some user) (e : Env)
    (h : msgSuccess ∈ (step sc sid s 50 b e).2.sent) :
    attached = true ∧ e.rPubkey = AUTH_SUCCESSFUL ∧
    ∃ key, e.keyCanon = some key ∧ sc.verify key (sessionBlob sid user service algo key) sig = true ∧
      Call.mk (.authPubkey user key) (some AUTH_SUCCESSFUL) ∈ (step sc sid s 50 b e).2.cbs := by
  rw [pubkey_step sc sid s hact hsub hexp hauth b user service algo keyblob sig attached hreq hsvc hpin e] at h ⊢
  cases hk : e.keyCanon with
  | none => rw [hk] at h; simp [perform] at h
  | some key =>
    rw [hk] at h
    simp only at h ⊢
    by_cases hf : e.rPubkey = AUTH_FAILED
    · simp only [hf, ne_eq, not_true_eq_false, if_false, perform, Out.pre] at h
      exact absurd ((sar_success _ e _ _).mp h) (by decide)
    · simp only [ne_eq, hf, not_false_eq_true, if_true] at h ⊢
      cases attached with
      | false => simp [perform] at h
      | true =>
        simp only [Bool.not_true, Bool.false_eq_true, if_false] at h ⊢
        by_cases hv : sc.verify key (sessionBlob sid user service algo key) sig = true
        · simp only [hv, if_true, perform, Out.pre] at h ⊢
          have hr := (sar_success _ e _ _).mp h
          refine ⟨trivial, hr, key, rfl, hv, ?_⟩
          rw [hr]; simp
        · simp only [hv, if_false, perform, Out.pre] at h
          exact absurd ((sar_success _ e _ _).mp h) (by decide)

/-- **Probes.** A publickey request without a signature ("is this key acceptable?") never authenticates and
never sends USERAUTH_SUCCESS, whatever the application answers. -/
theorem key_probe_never_authenticates (s : St) (hact : s.active = true) (hsub : s.gssSub = false)
    (hexp : s.expected = []) (hauth : s.authenticated = false) (b user service algo keyblob sig : Bytes)
    (hreq : PubkeyRequest b user service algo keyblob sig false)
    (hsvc : service = sSshConnection) (hpin : s.authUser = none ∨ s.authUser = some user) (e : Env) :
    msgSuccess ∉ (step sc sid s 50 b e).2.sent ∧ (step sc sid s 50 b e).1.authenticated = false := by
  have hns : msgSuccess ∉ (step sc sid s 50 b e).2.sent := fun h =>
    Bool.noConfusion (publickey_needs_valid_signature sc sid s hact hsub hexp hauth b user service algo keyblob sig
      false hreq hsvc hpin e h).1
  refine ⟨hns, ?_⟩
  cases hx : (step sc sid s 50 b e).1.authenticated
  · rfl
  · exact absurd (authentication_needs_approval sc sid s 50 b e hauth hx).1 hns

/-! ## the session blob determines its five fields -/

private theorem be32_inj (a b : Nat) (ha : a < 4294967296) (hb : b < 4294967296) (h : be32 a = be32 b) : a = b := by
  rw [← beVal_be32 a ha, ← beVal_be32 b hb, h]

private theorem encStr_append_inj (a b x y : Bytes) (ha : a.length < 4294967296) (hb : b.length < 4294967296)
    (h : encStr a ++ x = encStr b ++ y) : a = b ∧ x = y := by
  unfold encStr at h
  rw [List.append_assoc, List.append_assoc] at h
  have hl : (be32 a.length).length = (be32 b.length).length := by simp [be32]
  obtain ⟨h1, h2⟩ := List.append_inj h hl
  have hlen := be32_inj _ _ ha hb h1
  obtain ⟨h3, h4⟩ := List.append_inj h2 hlen
  exact ⟨h3, h4⟩

/-- the five fields of a session blob -/
structure BlobFields where
  sid : Bytes
  user : Bytes
  service : Bytes
  algo : Bytes
  key : Bytes

def BlobFields.blob (f : BlobFields) : Bytes := sessionBlob f.sid f.user f.service f.algo f.key
def BlobFields.WF (f : BlobFields) : Prop :=
  f.sid.length < 4294967296 ∧ f.user.length < 4294967296 ∧ f.service.length < 4294967296 ∧
  f.algo.length < 4294967296 ∧ f.key.length < 4294967296

/-- **Injectivity of the signed data.** Two session blobs (built over the wire model, as
`AuthHandler._get_session_blob` builds them) are equal only if session id, username, service, algorithm and key
are all equal: changing any one field changes the signed data. -/
theorem blob_injective (f g : BlobFields) (hf : f.WF) (hg : g.WF) (h : f.blob = g.blob) : f = g := by
  obtain ⟨f1, f2, f3, f4, f5⟩ := f
  obtain ⟨g1, g2, g3, g4, g5⟩ := g
  obtain ⟨hf1, hf2, hf3, hf4, hf5⟩ := hf
  obtain ⟨hg1, hg2, hg3, hg4, hg5⟩ := hg
  simp only [BlobFields.blob, sessionBlob] at h hf1 hf2 hf3 hf4 hf5 hg1 hg2 hg3 hg4 hg5
  simp only [List.append_assoc] at h
  obtain ⟨e1, h⟩ := encStr_append_inj _ _ _ _ hf1 hg1 h
  simp only [List.cons_append, List.nil_append, List.cons.injEq, true_and] at h
  obtain ⟨e2, h⟩ := encStr_append_inj _ _ _ _ hf2 hg2 h
  obtain ⟨e3, h⟩ := encStr_append_inj _ _ _ _ hf3 hg3 h
  obtain ⟨_, h⟩ := encStr_append_inj _ _ _ _ (by decide +kernel) (by decide +kernel) h
  simp only [List.cons_append, List.nil_append, List.cons.injEq, true_and] at h
  obtain ⟨e4, h⟩ := encStr_append_inj _ _ _ _ hf4 hg4 h
  have h' : encStr f5 ++ [] = encStr g5 ++ [] := by simpa using h
  obtain ⟨e5, _⟩ := encStr_append_inj _ _ _ _ hf5 hg5 h'
  subst e1 e2 e3 e4 e5
  rfl

/-- **Replay.** Hypothesis on the signature scheme (unforgeability, stated symbolically): whatever verifies
under `key` was signed by the key's owner for exactly that data (`Signed key data sig`).  If the signature the
client presents was only ever made for a blob that differs from this session's in at least one of session id,
username, service, algorithm, key — a signature replayed from another session, or for another user, … — the
request does not authenticate. -/
theorem replayed_signature_rejected (Signed : Bytes → Bytes → Bytes → Prop)
    (unforgeable : ∀ k m sg, sc.verify k m sg = true → Signed k m sg)
    (s : St) (hact : s.active = true) (hsub : s.gssSub = false) (hexp : s.expected = [])
    (hauth : s.authenticated = false) (b user service algo keyblob sig : Bytes) (attached : Bool)
    (hreq : PubkeyRequest b user service algo keyblob sig attached)
    (hsvc : service = sSshConnection) (hpin : s.authUser = none ∨ s.authUser = some user) (e : Env)
    (key : Bytes) (hkey : e.keyCanon = some key)
    (orig : BlobFields) (horig : ∀ m, Signed key m sig → m = orig.blob) (hwf : orig.WF)
    (hthis : (BlobFields.mk sid user service algo key).WF)
    (hdiff : orig ≠ BlobFields.mk sid user service algo key) :
    msgSuccess ∉ (step sc sid s 50 b e).2.sent ∧ (step sc sid s 50 b e).1.authenticated = false := by
  have hns : msgSuccess ∉ (step sc sid s 50 b e).2.sent := by
    intro h
    obtain ⟨_, _, k, hk, hv, _⟩ := publickey_needs_valid_signature sc sid s hact hsub hexp hauth b user service algo
      keyblob sig attached hreq hsvc hpin e h
    rw [hkey] at hk
    have hkk : key = k := Option.some.inj hk
    subst hkk
    have := horig _ (unforgeable _ _ _ hv)
    exact hdiff (blob_injective _ _ hthis hwf this).symm
  refine ⟨hns, ?_⟩
  cases hx : (step sc sid s 50 b e).1.authenticated
  · rfl
  · exact absurd (authentication_needs_approval sc sid s 50 b e hauth hx).1 hns

/-! ## non-vacuity -/

/-- toy scheme: the "signature" of data `m` under key `k` is `k ++ m` -/
private def toySc : SigScheme := { verify := fun k m s => s == k ++ m }

/-- the toy scheme satisfies the unforgeability hypothesis with `Signed k m s := s = k ++ m` -/
example : ∀ k m sg, toySc.verify k m sg = true → sg = k ++ m := by
  intro k m sg h; simpa [toySc] using h

private def tKey : Bytes := [7, 7]
private def tSid : Bytes := [1, 2, 3]
private def pkReq (attached : Bool) (sig : Bytes) : Bytes :=
  encStr (str "alice") ++ encStr sSshConnection ++ encStr sPublickey ++ [if attached then 1 else 0] ++
    encStr (str "ssh-ed25519") ++ encStr tKey ++ encStr sig
private def goodSig : Bytes := tKey ++ sessionBlob tSid (str "alice") sSshConnection (str "ssh-ed25519") tKey
private def otherSessionSig : Bytes := tKey ++ sessionBlob [9, 9, 9] (str "alice") sSshConnection (str "ssh-ed25519") tKey
private def envOk : Env := { rPubkey := 0, keyCanon := some tKey }

-- approved key + signature over this session's blob: authenticated
example : (step toySc tSid init 50 (pkReq true goodSig) envOk).1.isAuthenticated = true ∧
    (step toySc tSid init 50 (pkReq true goodSig) envOk).2.sent = [msgSuccess] := by decide +kernel
-- the same signature made for another session id: rejected, counted as a failure
example : (step toySc tSid init 50 (pkReq true otherSessionSig) envOk).1.isAuthenticated = false ∧
    (step toySc tSid init 50 (pkReq true otherSessionSig) envOk).1.failCount = 1 := by decide +kernel
-- a probe of the approved key: PK_OK, not authenticated
example : (step toySc tSid init 50 (pkReq false []) envOk).1.isAuthenticated = false ∧
    (step toySc tSid init 50 (pkReq false []) envOk).2.sent = [msgPkOk (str "ssh-ed25519") tKey] := by
  decide +kernel
-- valid signature but the application rejects the key: not authenticated
example : (step toySc tSid init 50 (pkReq true goodSig) { envOk with rPubkey := 2 }).1.isAuthenticated = false := by
  decide +kernel
-- gssapi-keyex: good MIC but the application's check_auth_gssapi_keyex says no → not authenticated
example : (step toySc tSid init 50
      (encStr (str "alice") ++ encStr sSshConnection ++ encStr sGssKeyex ++ encStr (str "mic"))
      { gssEnabled := true, kexCtx := true, micOk := true, rGssKeyex := 2 }).1.isAuthenticated = false := by
  decide +kernel
-- … and yes → authenticated
example : (step toySc tSid init 50
      (encStr (str "alice") ++ encStr sSshConnection ++ encStr sGssKeyex ++ encStr (str "mic"))
      { gssEnabled := true, kexCtx := true, micOk := true, rGssKeyex := 0 }).1.isAuthenticated = true := by
  decide +kernel

end PV.Props.C14
