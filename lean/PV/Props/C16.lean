/-
  C16 — A server pins one username per connection and caps failed attempts.
  Property theorems only.  Model: PV/Model/AuthServer.lean; helpers: PV/Model/AuthServerLemmas.lean.

  `step sc sid s p payload env` = the server's transport thread handles one message of type `p`;
  `env` holds the results of everything outside the auth code (the application's callbacks, key parsing,
  the GSS context), so "for every env" = "whatever the application answers".
  `run` folds `step` over a history; every theorem about `run` holds for every history, of any length.
-/
import PV.Model.AuthServerLemmas
namespace PV.Props.C16
open PV PV.Wire PV.AuthServer PV.Generated.AuthTables

variable (sc : SigScheme) (sid : Bytes)

/-! ## nothing is evaluated once the connection has ended -/

/-- an inactive transport consults no callback, sends nothing, changes nothing — for every message -/
theorem inactive_step (s : St) (h : s.active = false) (p : Nat) (b : Bytes) (e : Env) :
    step sc sid s p b e = (s, {}) := step_inactive sc sid s p b e h

/-- … and so for every continuation of the history -/
theorem inactive_run (s : St) (h : s.active = false) (ms : List Msg) :
    (run sc sid s ms).1 = s ∧ ∀ o ∈ (run sc sid s ms).2, o.cbs = [] ∧ o.sent = [] := by
  induction ms with
  | nil => simp [run]
  | cons m ms ih =>
    simp only [run, step_inactive sc sid s m.ptype m.payload m.env h]
    refine ⟨ih.1, ?_⟩
    intro o ho
    simp only [List.mem_cons] at ho
    rcases ho with rfl | ho
    · exact ⟨rfl, rfl⟩
    · exact ih.2 o ho

/-! ## service check and username pinning (one request) -/

private theorem classify_50 : classify false 50 = Class.auth := by decide

/-- a USERAUTH_REQUEST as the normal auth handler sees it: three text fields, then the rest -/
structure Request (b : Bytes) (user service method : Bytes) (rest : Rd) : Prop where
  h1 : ∃ r1 r2, getText { content := b, pos := 0 } = (some user, r1) ∧ getText r1 = (some service, r2) ∧
    getText r2 = (some method, rest)

/-- **Service check.** A request naming a service other than `ssh-connection` is answered with DISCONNECT
(service not available) only: no callback is consulted, the transport is closed, nobody is authenticated,
and the pinned username is not even recorded. -/
theorem wrong_service_disconnects (s : St) (hact : s.active = true) (hsub : s.gssSub = false)
    (hexp : s.expected = []) (hauth : s.authenticated = false)
    (b user service method : Bytes) (rest : Rd) (hreq : Request b user service method rest)
    (hsvc : service ≠ sSshConnection) (e : Env) :
    step sc sid s 50 b e = ({ s with active := false }, { sent := [msgDiscService] }) := by
  obtain ⟨r1, r2, h1, h2, h3⟩ := hreq.h1
  simp [step, hact, decideAct, hsub, classify_50, hexp, dispatch, authDispatch, parseUserauthRequest, hauth,
    h1, h2, h3, hsvc, perform]

/-- **Username pinning.** Once a username has been attempted, a request for a different username is answered
with DISCONNECT only: no callback is consulted (so no credential is evaluated for either name), the transport
is closed and nobody is authenticated. -/
theorem username_change_disconnects (s : St) (hact : s.active = true) (hsub : s.gssSub = false)
    (hexp : s.expected = []) (hauth : s.authenticated = false)
    (pinned : Bytes) (hpin : s.authUser = some pinned)
    (b user service method : Bytes) (rest : Rd) (hreq : Request b user service method rest)
    (hsvc : service = sSshConnection) (hne : user ≠ pinned) (e : Env) :
    step sc sid s 50 b e = ({ s with active := false }, { sent := [msgDiscNoMoreAuth] }) := by
  obtain ⟨r1, r2, h1, h2, h3⟩ := hreq.h1
  have hne' : ¬ pinned = user := fun h => hne h.symm
  simp [step, hact, decideAct, hsub, classify_50, hexp, dispatch, authDispatch, parseUserauthRequest, hauth,
    h1, h2, h3, hsvc, hpin, hne', perform]

private theorem classify_50g (g : Bool) : classify g 50 = Class.auth := by cases g <;> decide

/-- what `parseUserauthRequest` does with a refused request, whatever `gssSub`/`expected` were reset to -/
private theorem refused_request (s : St) (hauth : s.authenticated = false) (b user service method : Bytes)
    (r1 r2 r3 : Rd) (h1 : getText { content := b, pos := 0 } = (some user, r1))
    (h2 : getText r1 = (some service, r2)) (h3 : getText r2 = (some method, r3))
    (href : service ≠ sSshConnection ∨ (∃ pinned, s.authUser = some pinned ∧ user ≠ pinned)) (e : Env) :
    ∃ m, parseUserauthRequest sc sid s b e = (s, .disconnect [] m) := by
  unfold parseUserauthRequest
  simp only [hauth, Bool.false_eq_true, if_false, h1, h2, h3]
  by_cases hs : service = sSshConnection
  · rcases href with h | ⟨p, hp, hne⟩
    · exact absurd hs h
    · have : s.authUser ≠ none ∧ s.authUser ≠ some user := by
        rw [hp]; exact ⟨by simp, by simpa using fun h => hne h.symm⟩
      simp [hs, this]
  · simp [hs]

/-- **Refusal in every dispatch state.** The two theorems above are stated for the normal handler; this one covers
every state of the dispatch machinery (expected-packet filter set or not, GSS sub-handler installed or not, its
table bound or not): a request for another service, or for a username other than the pinned one, reaching an
active unauthenticated server consults no callback at all, leaves the transport inactive and nobody
authenticated, and does not change the pinned username. -/
theorem refusal_in_every_dispatch_state (s : St) (hact : s.active = true) (hauth : s.authenticated = false)
    (b user service method : Bytes) (r1 r2 r3 : Rd)
    (h1 : getText { content := b, pos := 0 } = (some user, r1))
    (h2 : getText r1 = (some service, r2)) (h3 : getText r2 = (some method, r3))
    (href : service ≠ sSshConnection ∨ (∃ pinned, s.authUser = some pinned ∧ user ≠ pinned)) (e : Env) :
    (step sc sid s 50 b e).2.cbs = [] ∧ (step sc sid s 50 b e).1.active = false ∧
    (step sc sid s 50 b e).1.authenticated = false ∧ (step sc sid s 50 b e).1.authUser = s.authUser := by
  have key : ∀ s0 : St, s0.authenticated = false → s0.authUser = s.authUser →
      (perform (authDispatch sc sid s0 50 b e).1 e (authDispatch sc sid s0 50 b e).2).2.cbs = [] ∧
      (perform (authDispatch sc sid s0 50 b e).1 e (authDispatch sc sid s0 50 b e).2).1.active = false ∧
      (perform (authDispatch sc sid s0 50 b e).1 e (authDispatch sc sid s0 50 b e).2).1.authenticated = false ∧
      (perform (authDispatch sc sid s0 50 b e).1 e (authDispatch sc sid s0 50 b e).2).1.authUser = s.authUser := by
    intro s0 ha hu
    have href0 : service ≠ sSshConnection ∨ (∃ pinned, s0.authUser = some pinned ∧ user ≠ pinned) := by
      rw [hu]; exact href
    unfold authDispatch
    by_cases hg : s0.gssSub = true
    · simp only [hg, if_true]
      by_cases hb : gssHandlersBound = false
      · simp [hb, perform, ha, hu]
      · obtain ⟨m, hm⟩ := refused_request sc sid { s0 with gssSub := false } ha b user service method r1 r2 r3 h1 h2 h3
          href0 e
        rw [if_neg hb]
        have h5 : ¬ ((50 : Nat) = 5) := by decide
        simp only [h5, if_false, if_true]
        rw [hm]
        simp [perform, ha, hu]
    · obtain ⟨m, hm⟩ := refused_request sc sid s0 ha b user service method r1 r2 r3 h1 h2 h3 href0 e
      simp [hg, hm, perform, ha, hu]
  rw [step_active sc sid s 50 b e hact]
  unfold decideAct
  simp only [classify_50g]
  by_cases hexp : s.expected = []
  · simp only [hexp, ne_eq, not_true_eq_false, if_false, dispatch, classify_50g]
    exact key s hauth rfl
  · simp only [ne_eq, hexp, not_false_eq_true, if_true]
    by_cases hin : 50 ∈ s.expected
    · simp only [hin, not_true_eq_false, if_false]
      have : ¬ (30 ≤ 50 ∧ 50 ≤ 41) := by omega
      simp only [this, if_false, dispatch, classify_50g]
      exact key { s with expected := [] } hauth rfl
    · simp [hin, perform, hauth]

/-- after either refusal the connection is dead for good: whatever follows, no callback, no message,
never authenticated -/
theorem refused_forever (s : St) (p : Nat) (b : Bytes) (e : Env)
    (h : (step sc sid s p b e).1.active = false) (ms : List Msg) :
    (run sc sid (step sc sid s p b e).1 ms).1.isAuthenticated = false ∧
    ∀ o ∈ (run sc sid (step sc sid s p b e).1 ms).2, o.cbs = [] ∧ o.sent = [] := by
  have := inactive_run sc sid _ h ms
  refine ⟨?_, this.2⟩
  rw [this.1]; simp [St.isAuthenticated, h]

/-! ## key re-exchange before authentication -/

private theorem classify_kex : ∀ g : Bool, ∀ p ∈ [7, 20, 21], classify g p = Class.transport ∧ p ≤ HIGHEST_USERAUTH_MESSAGE_ID := by
  decide

/-- **Key re-exchange.** The messages of a key re-exchange (KEXINIT, NEWKEYS, EXT_INFO: the kex-layer types served by
the transport table) never touch the authentication state: the pinned username, the failure counter and the
authenticated flag are those of the CONNECTION, before and after - whatever the kex layer itself does (it may end
the connection). -/
theorem rekey_keeps_pin_and_counter (s : St) (p : Nat) (hp : p ∈ [7, 20, 21]) (b : Bytes) (e : Env) :
    (step sc sid s p b e).1.authUser = s.authUser ∧ (step sc sid s p b e).1.failCount = s.failCount ∧
    (step sc sid s p b e).1.authenticated = s.authenticated ∧ (step sc sid s p b e).2.cbs = [] := by
  by_cases ha : s.active = true
  · rw [step_active sc sid s p b e ha]
    have hc := fun g => classify_kex g p hp
    unfold decideAct
    simp only [(hc s.gssSub).1]
    split
    · split
      · simp [perform]
      · split
        · simp [perform]
        · simp [dispatch, (hc s.gssSub).1, (hc s.gssSub).2, perform]
    · simp [dispatch, (hc s.gssSub).1, (hc s.gssSub).2, perform]
  · simp only [Bool.not_eq_true] at ha
    rw [step_inactive sc sid s p b e ha]; simp

/-! ## one username per connection (all histories) -/

/-- all callbacks consulted along a history -/
def allCbs (os : List Out) : List Call := os.flatMap (·.cbs)

private theorem run_user_mono (s : St) (u : Bytes) (hu : s.authUser = some u) (ms : List Msg) :
    (run sc sid s ms).1.authUser = some u := by
  induction ms generalizing s with
  | nil => simpa [run] using hu
  | cons m ms ih =>
    simp only [run]
    exact ih _ (step_user_mono sc sid s m.ptype m.payload m.env u hu)

private theorem run_cbs_user (s : St) (ms : List Msg) (c : Call) (hc : c ∈ allCbs (run sc sid s ms).2)
    (u : Bytes) (hu : userOf c.cb = some u) : (run sc sid s ms).1.authUser = some u := by
  induction ms generalizing s with
  | nil => simp [run, allCbs] at hc
  | cons m ms ih =>
    simp only [run, allCbs, List.flatMap_cons, List.mem_append] at hc ⊢
    rcases hc with hc | hc
    · exact run_user_mono sc sid _ u (step_cbs_user sc sid s m.ptype m.payload m.env c hc u hu) ms
    · exact ih _ hc

/-- **One username per connection.** Over any history of messages and application answers, starting from any
state, every callback that evaluates a credential for a named user (`check_auth_none/password/publickey/
interactive`, `check_auth_gssapi_*`) is asked about one and the same username — the one pinned in the final
state. -/
theorem single_username (s : St) (ms : List Msg) (c1 c2 : Call)
    (h1 : c1 ∈ allCbs (run sc sid s ms).2) (h2 : c2 ∈ allCbs (run sc sid s ms).2)
    (u1 u2 : Bytes) (hu1 : userOf c1.cb = some u1) (hu2 : userOf c2.cb = some u2) : u1 = u2 := by
  have a := run_cbs_user sc sid s ms c1 h1 u1 hu1
  have b := run_cbs_user sc sid s ms c2 h2 u2 hu2
  rw [a] at b; exact Option.some.inj b

/-! ## the failure cap (all histories) -/

/-- only a result that is neither success nor partial success moves the failure counter, and by one -/
theorem only_nonpartial_failures_counted (s : St) (e : Env) (u : Option Bytes) (r : Nat) :
    (sendAuthResult s e u r).1.failCount =
      if r = AUTH_SUCCESSFUL ∨ r = AUTH_PARTIALLY_SUCCESSFUL then s.failCount else s.failCount + 1 :=
  sar_count_eq s e u r

/-- the counter moves exactly with the non-partial USERAUTH_FAILURE messages `_send_auth_result` emits -/
theorem counter_matches_wire (s : St) (e : Env) (u : Option Bytes) (r : Nat) :
    (sendAuthResult s e u r).1.failCount = s.failCount + np (sendAuthResult s e u r).2.sent :=
  sar_count s e u r

/-- **Cap, step form.** In the step in which the tenth failure is counted the server sends DISCONNECT
(no more auth methods) and the transport is inactive afterwards. -/
theorem tenth_failure_disconnects (s : St) (p : Nat) (b : Bytes) (e : Env)
    (hs : s.active = true) (hlt : s.failCount < 10) (hge : 10 ≤ (step sc sid s p b e).1.failCount) :
    (step sc sid s p b e).1.active = false ∧ msgDiscNoMoreAuth ∈ (step sc sid s p b e).2.sent :=
  step_cross sc sid s p b e hs hlt hge

/-- **Invariant over every history from a fresh connection:** while the transport is active fewer than ten
failures have been counted. -/
theorem active_implies_below_cap (ms : List Msg) :
    (run sc sid init ms).1.active = true → (run sc sid init ms).1.failCount < 10 := by
  suffices h : ∀ s : St, (s.active = true → s.failCount < 10) →
      (run sc sid s ms).1.active = true → (run sc sid s ms).1.failCount < 10 from
    h init (by intro _; decide)
  induction ms with
  | nil => intro s hs; simpa [run] using hs
  | cons m ms ih =>
    intro s hs
    simp only [run]
    exact ih _ (step_inv sc sid s m.ptype m.payload m.env hs)

/-- all messages sent along a history -/
def allSent (os : List Out) : List Bytes := os.flatMap (·.sent)

private theorem run_failures (s : St) (hinv : s.active = true → s.failCount < 10) (ms : List Msg) :
    (s.failCount < 10 → s.failCount + np (allSent (run sc sid s ms).2) ≤ 10) ∧
    (s.active = false → np (allSent (run sc sid s ms).2) = 0) := by
  induction ms generalizing s with
  | nil => simp [run, allSent]; omega
  | cons m ms ih =>
    simp only [run, allSent, List.flatMap_cons, np_append]
    have hi := ih _ (step_inv sc sid s m.ptype m.payload m.env hinv)
    constructor
    · intro hlt
      have hcap := step_cap sc sid s m.ptype m.payload m.env hlt
      have hlb := step_count_lb sc sid s m.ptype m.payload m.env
      unfold FAIL_CAP at hcap
      by_cases h10 : (step sc sid s m.ptype m.payload m.env).1.failCount < 10
      · have := hi.1 h10
        simp only [allSent] at this
        omega
      · -- the cap was reached in this step: the transport is inactive, nothing more is sent
        have hin : (step sc sid s m.ptype m.payload m.env).1.active = false := by
          have := step_inv sc sid s m.ptype m.payload m.env hinv
          cases hact : (step sc sid s m.ptype m.payload m.env).1.active
          · rfl
          · exact absurd (this hact) h10
        have := hi.2 hin
        simp only [allSent] at this
        omega
    · intro hin
      rw [step_inactive sc sid s m.ptype m.payload m.env hin]
      have := (ih s hinv).2 hin
      simp only [allSent] at this
      simp [this]

/-- **Cap, history form.** On one connection at most ten non-partial USERAUTH_FAILURE replies are ever sent,
whatever the client sends and whatever the application answers. -/
theorem at_most_ten_failures_answered (ms : List Msg) :
    np (allSent (run sc sid init ms).2) ≤ 10 := by
  have h := (run_failures sc sid init (by intro _; decide) ms).1 (by decide)
  have h0 : init.failCount = 0 := rfl
  rw [h0] at h
  omega

/-! ## non-vacuity -/

/-- "alice", "ssh-connection", "none" as a USERAUTH_REQUEST payload -/
private def reqAlice : Bytes :=
  encStr (str "alice") ++ encStr sSshConnection ++ encStr sNone

/-- toy signature scheme used for the concrete examples -/
private def toySc : SigScheme := { verify := fun k m s => s == k ++ m }

-- a fresh connection evaluates `check_auth_none("alice")`, pins "alice" and counts the failure
example : (step toySc [] init 50 reqAlice {}).1.authUser = some (str "alice") ∧
    (step toySc [] init 50 reqAlice {}).1.failCount = 1 ∧
    (step toySc [] init 50 reqAlice {}).2.cbs.length = 3 := by decide +kernel

-- a later request for "bob" satisfies the hypotheses of `username_change_disconnects` …
private def reqBob : Bytes := encStr (str "bob") ++ encStr sSshConnection ++ encStr sPassword ++ [0] ++ encStr (str "pw")

example : (step toySc [] (step toySc [] init 50 reqAlice {}).1 50 reqBob { rPassword := 0 }).2.cbs = [] ∧
    (step toySc [] (step toySc [] init 50 reqAlice {}).1 50 reqBob { rPassword := 0 }).1.active = false ∧
    (step toySc [] (step toySc [] init 50 reqAlice {}).1 50 reqBob { rPassword := 0 }).2.sent = [msgDiscNoMoreAuth] := by
  decide +kernel

-- ten failing requests: the tenth answer is followed by DISCONNECT and the transport is inactive
example : let ms := List.replicate 10 (Msg.mk 50 reqAlice {})
    (run toySc [] init ms).1.active = false ∧ (run toySc [] init ms).1.failCount = 10 ∧
    np (allSent (run toySc [] init ms).2) = 10 := by decide +kernel

-- an eleventh is not evaluated
example : let ms := List.replicate 11 (Msg.mk 50 reqAlice {})
    ((run toySc [] init ms).2.getLast?.map (·.cbs)) = some [] := by decide +kernel

end PV.Props.C16
