/-
  C20 — Channel flow control never deadlocks while the receiver keeps reading.
  Model: PV/Model/ChanPair.lean (two Channel objects and the two links between them) over
  PV/Model/ChanWindow.lean; lemmas: PV/Model/ChanPairLemmas.lean, PV/Model/ChanFlowLemmas.lean.
  `fixedCfg` = the tree after the repair (discarded extended data is credited); `oldCfg` = before.
-/
import PV.Model.ChanPairLemmas
import PV.Model.ChanDrainLemmas
import PV.Model.ChanNotifyLemmas
import PV.Generated.ChanLock
import PV.Generated.C20
namespace PV.Props.C20
open PV.Chan PV.ChanPair

private theorem sumBy_replicate_idle (f : TSt → Nat) (h : f (TSt.idle Res.none) = 0) (n : Nat) :
    sumBy f (List.replicate n (TSt.idle Res.none)) = 0 := by
  induction n with
  | zero => rfl
  | succ n ih => simp only [List.replicate_succ, sumBy, h, ih]

private theorem pinv_init (winA maxA winB maxB nthr : Nat) :
    PInv winB (initPair winA maxA winB maxB nthr) := by
  have hd := sumBy_replicate_idle TSt.heldData rfl nthr
  have ha := sumBy_replicate_idle TSt.heldAdj rfl nthr
  refine ⟨?_, ?_, ?_, ?_, ?_, ?_, rfl⟩
  · simp [WInv, initPair, init, dataSum, heldDataAll, hd]
  · simp [SofarInv, initPair, init]
  · intro _; simp [EqCore, initPair, init, adjSum, heldAdjAll, ha]
  · simp [AInv, initPair, init, adjSum, heldAdjAll, ha]
  · intro _; simp [initPair, init, dataSum]
  · intro _; simp [initPair, init, adjSum]

/-- **Conservation, every schedule.**  Whatever both applications, both transport threads and the network do
    (any list of local lock regions on either side and deliveries on either link), as long as both channels are
    still registered and the receiver has not closed / seen EOF: the window b advertised is, byte for byte,
    somewhere — a's remaining window, reserved by a's writers, in flight, buffered at b, read but not yet
    accounted, in `in_window_sofar`, in an ack b has computed, or in an ack in flight. -/
theorem conservation (winA maxA winB maxB nthr : Nat) (sched : List PAct) (y : Sys)
    (hy : y = prun fixedCfg (initPair winA maxA winB maxB nthr) sched) :
    y.a.linked = true → y.b.linked = true → acct y.b = true → credits y = winB := by
  subst hy
  intro ha hb hacc
  exact credits_of_pinv winB _ (prun_pinv fixedCfg rfl winB _ sched (pinv_init winA maxA winB maxB nthr)) ha hb hacc

/-- the same for the b→a direction (the model is symmetric) -/
theorem conservation_reverse (winA maxA winB maxB nthr : Nat) (sched : List PAct) (y : Sys)
    (hy : y = prun fixedCfg (initPair winA maxA winB maxB nthr) sched) :
    y.a.linked = true → y.b.linked = true → acct y.a = true → credits (swap y) = winA := by
  intro ha hb hacc
  have hs : swap y = prun fixedCfg (initPair winB maxB winA maxA nthr) (sched.map PAct.swap) := by
    rw [hy, ← prun_swap]; rfl
  exact conservation winB maxB winA maxA nthr _ (swap y) hs hb ha hacc

/-- Every byte the peer delivered — data, stderr data, and extended data of types paramiko throws away — is
    buffered for the reader, or pending in `in_window_sofar` / an ack being written, or has been acked. -/
theorem every_byte_counts_back (winA maxA winB maxB nthr : Nat) (sched : List PAct) (y : Sys)
    (hy : y = prun fixedCfg (initPair winA maxA winB maxB nthr) sched) :
    acct y.b = true →
      y.b.recvd = y.b.inBuf + y.b.errBuf + heldAdjAll y.b.thr + y.b.inSofar + adjSum y.b.wire ∧
      y.b.inSofar ≤ winB / 10 := by
  subst hy
  intro hacc
  have hi := prun_pinv fixedCfg rfl winB _ sched (pinv_init winA maxA winB maxB nthr)
  have h1 := hi.eb hacc
  have h2 := hi.rb.2
  have h3 := hi.sb
  have h4 : (prun fixedCfg (initPair winA maxA winB maxB nthr) sched).b.inThreshold = winB / 10 := by
    have : ∀ (ps : List PAct) (z : Sys), (prun fixedCfg z ps).b.inThreshold = z.b.inThreshold := by
      intro ps
      induction ps with
      | nil => intro z; rfl
      | cons p ps ih =>
        intro z
        show (prun fixedCfg (pstep fixedCfg z p) ps).b.inThreshold = _
        rw [ih]
        cases p with
        | left x => simp only [pstep]; split <;> rfl
        | right x =>
          simp only [pstep]; split
          · exact (step_frame fixedCfg z.b x).1
          · rfl
        | deliverAB t code =>
          simp only [pstep]; split
          · rfl
          · split
            · unfold deliverTo; split
              · exact (step_frame fixedCfg z.b _).1
              · rfl
            · rfl
        | deliverBA t code =>
          simp only [pstep]; split
          · rfl
          · split <;> rfl
    exact this sched _
  simp only [EqCore, SofarInv] at *
  refine ⟨by omega, by omega⟩

/-- a state in which nothing is in flight and nobody is in the middle of anything: the reader has read
    everything that arrived, every ack has been written and delivered, no writer of a holds reserved bytes -/
def Quiescent (y : Sys) : Prop :=
  dataSum y.ab = 0 ∧ adjSum y.ba = 0 ∧ heldDataAll y.a.thr = 0 ∧ heldAdjAll y.b.thr = 0 ∧
  y.b.inBuf = 0 ∧ y.b.errBuf = 0

instance (y : Sys) : Decidable (Quiescent y) := by unfold Quiescent; infer_instance

/-- **No flow-control deadlock.**  In every reachable quiescent state of an open channel the sender's window is
    at least 90 % of what the receiver advertised (the rest sits in `in_window_sofar`, below the 10 %
    threshold) — in particular it is positive: "writer blocked on a zero window, reader has read everything,
    nothing in flight" cannot occur. -/
theorem stuck_impossible (winA maxA winB maxB nthr : Nat) (sched : List PAct) (y : Sys)
    (hy : y = prun fixedCfg (initPair winA maxA winB maxB nthr) sched) :
    y.a.linked = true → y.b.linked = true → acct y.b = true → Quiescent y →
      y.a.outWin + y.b.inSofar = winB ∧ y.b.inSofar ≤ winB / 10 ∧ (0 < winB → 0 < y.a.outWin) := by
  intro ha hb hacc hq
  have hc := conservation winA maxA winB maxB nthr sched y hy ha hb hacc
  have he := (every_byte_counts_back winA maxA winB maxB nthr sched y hy hacc).2
  obtain ⟨q1, q2, q3, q4, q5, q6⟩ := hq
  simp only [credits] at hc
  refine ⟨by omega, he, ?_⟩
  intro hw
  have : winB / 10 < winB := Nat.div_lt_self hw (by decide)
  omega

/-- … and then a writer that was waiting does get window: woken in such a state (its timeout not yet expired,
    channel not shut down for writing) it leaves `_wait_for_send_window` with a non-empty reservation. -/
theorem quiescent_sender_proceeds (s : St) (t want : Nat) (ext : Bool) (lp : Option Loop)
    (hw : 0 < want) (ho : 0 < s.outWin) (hp : 64 < s.maxPkt) (hc : s.closed = false) (he : s.eofSent = false)
    (hr : s.thr[t]? = some (.waiting want ext none lp)) :
    ∃ n k, 0 < n ∧ (step fixedCfg s (.wake t 0)).thr[t]? = some (.hold [mkData ext n] k) := by
  have hlt : t < s.thr.length := by
    cases h : s.thr[t]? with
    | none => rw [h] at hr; cases hr
    | some _ => exact (List.getElem?_eq_some_iff.1 h).1
  have hne : s.outWin ≠ 0 := by omega
  have hpos := allocate_pos s want hw ho hp
  have hane : allocate s want ≠ 0 := by omega
  cases lp with
  | none =>
    refine ⟨allocate s want, Kont.retN (allocate s want), hpos, ?_⟩
    simp only [step, hr, wakeRegion, hne, if_false, hc, he, Bool.or_self, Bool.false_eq_true, grant, hane, setThr]
    simp [hlt]
  | some l =>
    refine ⟨allocate s want, Kont.loop l ext (allocate s want), hpos, ?_⟩
    simp only [step, hr, wakeRegion, hne, if_false, hc, he, Bool.or_self, Bool.false_eq_true, grant, hane, setThr]
    simp [hlt]

/-! ## liveness skeleton: draining terminates, and a drained system is quiescent -/

private theorem sumBy_zero (f : TSt → Nat) (l : List TSt) (h : ∀ x ∈ l, f x = 0) : sumBy f l = 0 := by
  induction l with
  | nil => rfl
  | cons a as ih =>
    simp only [sumBy, h a (List.mem_cons_self ..), ih (fun x hx => h x (List.mem_cons_of_mem _ hx))]

private theorem sofar_reach (winA maxA winB maxB nthr : Nat) (sched : List PAct) :
    SofarInv (prun fixedCfg (initPair winA maxA winB maxB nthr) sched).a ∧
    SofarInv (prun fixedCfg (initPair winA maxA winB maxB nthr) sched).b := by
  have : ∀ (ps : List PAct) (z : Sys), SofarInv z.a ∧ SofarInv z.b →
      SofarInv (prun fixedCfg z ps).a ∧ SofarInv (prun fixedCfg z ps).b := by
    intro ps
    induction ps with
    | nil => intro z h; exact h
    | cons p ps ih => intro z h; exact ih _ (pstep_sofar z p h.1 h.2)
  exact this sched _ ⟨by simp [SofarInv, initPair, init], by simp [SofarInv, initPair, init]⟩

/-- **Draining terminates.**  From any reachable state, a run that consists only of enabled drain actions —
    a thread writing a message it holds, a link delivering its next message, a reader taking buffered bytes, a
    reader's `_check_add_window` — has at most `mu y` steps (`mu` = weighted count of messages held or in flight,
    buffered bytes and still-open channels).  So if the network, the reader and the writers' pending wire writes
    keep being scheduled (fairness), the system reaches a state in which none of them is enabled. -/
theorem draining_terminates (winA maxA winB maxB nthr : Nat) (sched : List PAct) (y : Sys)
    (hy : y = prun fixedCfg (initPair winA maxA winB maxB nthr) sched) (ps : List PAct) (h : DrainRun y ps) :
    ps.length ≤ mu y := by
  subst hy
  have hs := sofar_reach winA maxA winB maxB nthr sched
  have := drainRun_bounded _ ps h hs.1 hs.2
  omega

/-- **A drained system is quiescent.**  If no drain action is enabled and each side has an idle thread (b's
    reader is between two `recv` calls, a's transport thread is idle), then nothing is in flight, nobody holds a
    message or unaccounted bytes, and b's buffers are empty. -/
theorem drained_is_quiescent (y : Sys) (ta tb : Nat) (hia : idleOf y.a ta = true) (hib : idleOf y.b tb = true)
    (hnone : ∀ p, ¬ Drain y p) : Quiescent y := by
  have hab : y.ab = [] := by
    cases h : y.ab with
    | nil => rfl
    | cons m rest => exact absurd (Drain.deliverAB tb 0 m rest h hib) (hnone _)
  have hba : y.ba = [] := by
    cases h : y.ba with
    | nil => rfl
    | cons m rest => exact absurd (Drain.deliverBA ta 0 m rest h hia) (hnone _)
  have hA : ∀ x ∈ y.a.thr, x.heldData = 0 := by
    intro x hx
    obtain ⟨t, ht⟩ := List.mem_iff_getElem?.1 hx
    cases x with
    | hold ms k =>
      cases ms with
      | nil => rfl
      | cons m ms => exact absurd (Drain.left _ (SideDrain.emit t m ms k ht)) (hnone _)
    | _ => rfl
  have hB : ∀ x ∈ y.b.thr, x.heldAdj = 0 := by
    intro x hx
    obtain ⟨t, ht⟩ := List.mem_iff_getElem?.1 hx
    cases x with
    | hold ms k =>
      cases ms with
      | nil => rfl
      | cons m ms => exact absurd (Drain.right _ (SideDrain.emit t m ms k ht)) (hnone _)
    | gotBytes n => exact absurd (Drain.right _ (SideDrain.check t n ht)) (hnone _)
    | _ => rfl
  have hin : y.b.inBuf = 0 := by
    cases h : y.b.inBuf with
    | zero => rfl
    | succ n =>
      exact absurd (Drain.right _ (SideDrain.recv tb 1 false hib (by decide) (by simp [h]))) (hnone _)
  have herr : y.b.errBuf = 0 := by
    cases h : y.b.errBuf with
    | zero => rfl
    | succ n =>
      exact absurd (Drain.right _ (SideDrain.recv tb 1 true hib (by decide) (by simp [h]))) (hnone _)
  refine ⟨by rw [hab]; rfl, by rw [hba]; rfl, sumBy_zero _ _ hA, sumBy_zero _ _ hB, hin, herr⟩

/-- **Putting it together.**  Whenever draining has run its course on an open channel, the sender's window is at
    least 90 % of the advertised one: a writer with pending data is then served (`quiescent_sender_proceeds`).
    Fairness (the drain actions and the writer's wake-up do get scheduled) is the only hypothesis left. -/
theorem drained_sender_window_open (winA maxA winB maxB nthr : Nat) (sched : List PAct) (y : Sys)
    (hy : y = prun fixedCfg (initPair winA maxA winB maxB nthr) sched) (ta tb : Nat)
    (hia : idleOf y.a ta = true) (hib : idleOf y.b tb = true) (hnone : ∀ p, ¬ Drain y p)
    (ha : y.a.linked = true) (hb : y.b.linked = true) (hacc : acct y.b = true) (hw : 0 < winB) :
    0 < y.a.outWin ∧ winB ≤ y.a.outWin + winB / 10 := by
  have hq := drained_is_quiescent y ta tb hia hib hnone
  obtain ⟨h1, h2, h3⟩ := stuck_impossible winA maxA winB maxB nthr sched y hy ha hb hacc hq
  exact ⟨h3 hw, by omega⟩

/-- non-vacuity: a state with data in flight, buffered and an ack pending has a positive measure and a drain
    run of 6 steps that ends drained -/
example :
    let y := prun fixedCfg (initPair 32768 32768 32768 4096 2) [.left (.send 0 4032 false), .left (.emit 0)]
    mu y = 16149 ∧
    mu (prun fixedCfg y [.deliverAB 1 1, .right (.recv 0 5000 false), .right (.check 0), .right (.emit 0),
                         .deliverBA 1 0]) = 20 := by
  decide +kernel

/-- **Channel messages name the peer's id.**  Nowhere in class Channel is a message addressed with our own
    `chanid` (`add_int(self.chanid)`), only with `remote_chanid` (counts from the AST of channel.py on this run).
    The model's links deliver to "the other side", which presupposes this: an acknowledgement addressed to our
    own id never reaches the sender and its window is not replenished. -/
theorem messages_name_the_peers_id :
    PV.Generated.ChanLock.ownIdInMessages = 0 ∧ 0 < PV.Generated.ChanLock.remoteIdInMessages := by
  decide

/-- **No wire write under the channel lock.**  No method of class Channel calls `transport._send_user_message` /
    `_send_message` inside a `self.lock` region — neither lexically nor through a helper that may be called with
    the lock held (AST of channel.py on this run).  `_send_user_message` blocks for the whole of a key
    re-negotiation; the transport thread needs `Channel.lock` to take in stderr data, window adjustments, EOF and
    CLOSE — so a write under the lock stalls the very thread that has to finish the re-key.  In the model this is
    the separation of every lock region from the `emit` actions that follow it. -/
theorem no_send_under_channel_lock : PV.Generated.ChanLock.sendsUnderLock = [] := by
  decide

/-- **Each end configures its receive side with exactly the sizes it advertises**: the arguments of
    `chan._set_window(…)` and the window / max-packet fields written into CHANNEL_OPEN_CONFIRMATION
    (`_parse_channel_open`, the acceptor) and CHANNEL_OPEN (`open_channel`, the initiator) are the same expressions
    (AST of transport.py on this run).  This is what `initPair` assumes: the receiver's adjust threshold is a tenth
    of the window the SENDER was given, whatever the other end announced for its own receive side. -/
theorem receive_side_uses_the_advertised_sizes :
    PV.Generated.C20.acceptorSetWindow.length = 2 ∧
    PV.Generated.C20.acceptorSetWindow = PV.Generated.C20.acceptorAdvertised ∧
    PV.Generated.C20.initiatorSetWindow.length = 2 ∧
    PV.Generated.C20.initiatorSetWindow = PV.Generated.C20.initiatorAdvertised := by
  decide

/-- … and with that the threshold never exceeds what the sender may send, for ANY pair of independently chosen
    windows: after any schedule `in_window_threshold` of side b is `winB / 10 ≤ winB` = the initial window of side a
    (so the credit of `every_byte_counts_back` always becomes an adjust before the sender's window can run dry
    for good: `stuck_impossible`). -/
theorem threshold_within_the_advertised_window (winA maxA winB maxB nthr : Nat) :
    (initPair winA maxA winB maxB nthr).b.inThreshold = winB / 10 ∧
    (initPair winA maxA winB maxB nthr).b.inThreshold ≤ (initPair winA maxA winB maxB nthr).a.outWin ∧
    (initPair winA maxA winB maxB nthr).a.inThreshold ≤ (initPair winA maxA winB maxB nthr).b.outWin := by
  refine ⟨rfl, ?_, ?_⟩
  · show winB / 10 ≤ winB
    exact Nat.div_le_self _ _
  · show winA / 10 ≤ winA
    exact Nat.div_le_self _ _

/-- **`in_window_sofar` is only read and written under the channel lock**: every mention of it inside
    `_check_add_window` is lexically inside the `self.lock` region, and nothing else touches it but the constructor
    and `_set_window` (before the channel is active) — table generated from the AST of channel.py on this run.
    `_check_add_window` is entered by up to three threads (a `recv` reader, a `recv_stderr` reader, the transport
    thread discarding extended data); this fact is what makes it ONE atomic action of the model (`check`, `feedExt`),
    which `conservation` / `every_byte_counts_back` rely on: an unlocked load … store of the counter loses one
    caller's bytes, and lost credit takes the sender's window to zero for good. -/
theorem sofar_accounting_is_under_the_lock :
    (∀ a ∈ PV.Generated.ChanLock.sofarAccesses,
      a.1 = "_check_add_window" ∨ (a.2.1 = true ∧ (a.1 = "__init__" ∨ a.1 = "_set_window"))) ∧
    (∀ a ∈ PV.Generated.ChanLock.sofarAccesses, a.1 = "_check_add_window" → a.2.2 = true) ∧
    (PV.Generated.ChanLock.sofarAccesses.any fun a => a.1 == "_check_add_window" && a.2.1) = true := by
  decide

/-! ## several parked senders: nobody is left asleep (notify_all vs notify) -/

/-- how the code wakes sleepers, read from the table generated from the AST of channel.py on this run: a call
    site counts as "all" only if EVERY `out_buffer_cv.notify…` call in that method is `notify_all` -/
def codeNCfg : NCfg :=
  { adjustAll := (PV.Generated.ChanLock.notifies.filter (·.caller == "_window_adjust")).all (·.all) &&
                 !(PV.Generated.ChanLock.notifies.filter (·.caller == "_window_adjust")).isEmpty,
    closeAll := (PV.Generated.ChanLock.notifies.filter (·.caller == "_set_closed")).all (·.all) &&
                !(PV.Generated.ChanLock.notifies.filter (·.caller == "_set_closed")).isEmpty }

/-- **`_window_adjust` and `_set_closed` wake ALL sleepers, under the channel lock** (every
    `out_buffer_cv.notify…` call site of channel.py, regenerated from the source on every run). -/
theorem wakeups_notify_all :
    codeNCfg.adjustAll = true ∧ codeNCfg.closeAll = true ∧
    ∀ n ∈ PV.Generated.ChanLock.notifies, n.effLocked = true := by
  decide

/-- **No lost wake-up, any number of parked senders, every schedule** (strict scheduling: a sleeper runs again
    only when notified or timed out): a sender asleep in `_wait_for_send_window` that has no notification pending
    sees `out_window_size = 0`.  Hence whenever the window is open — in particular in every drained state of an
    open channel (`drained_sender_window_open`) — EVERY parked sender has been notified, will run
    (`notified_sleeper_is_enabled`) and, on an open channel, leaves with a reservation
    (`quiescent_sender_proceeds`, which is per thread). -/
theorem no_lost_wakeup (cfg : Cfg) (inWin peerWin peerMax nthr : Nat) (c : Bool) (sched : List Act) (t : Nat) :
    let z := nrun codeNCfg cfg (ninit (init inWin peerWin peerMax nthr c)) sched
    isWaitingAt z.base t = true → 0 < z.base.outWin → t ∈ z.sig := by
  intro z hw ho
  have h0 : NoLost (ninit (init inWin peerWin peerMax nthr c)) := by
    intro u hu _
    simp only [ninit, isWaitingAt, init] at hu
    by_cases hlt : u < nthr
    · simp [hlt, TSt.isWaiting] at hu
    · simp [hlt] at hu
  have hi := nrun_nolost codeNCfg wakeups_notify_all.1 cfg _ sched h0
  cases hm : decide (t ∈ z.sig) with
  | true => exact of_decide_eq_true hm
  | false =>
    have : z.base.outWin = 0 := hi t hw (of_decide_eq_false hm)
    omega

/-- a notified sleeper is not held back by the strict scheduler: its wake-up executes the base model's region -/
theorem notified_sleeper_is_enabled (n : NCfg) (cfg : Cfg) (z : NSt) (t dt : Nat) (h : t ∈ z.sig) :
    (nstep n cfg z (.wake t dt)).base = step cfg z.base (.wake t dt) := by
  simp [nstep, h]

/-- **What `notify()` instead of `notify_all()` in `_window_adjust` does** (the configuration the code does NOT
    have): two senders parked on a zero window, one adjustment of 1000 bytes wakes only the first; it sends its
    100 bytes and returns; the second stays asleep, un-notified, with 900 bytes of window open — and its wake-up
    is not enabled. -/
theorem notify_one_strands_second_sender_witness :
    let n : NCfg := { adjustAll := false, closeAll := true }
    let z := nrun n fixedCfg (ninit (init 32768 0 32768 2 false))
      [.send 0 100 false, .send 1 100 true, .adjust 1000, .wake 0 0, .emit 0, .wake 1 0]
    z.base.outWin = 900 ∧ z.base.thr = [.idle (.ret 100), .waiting 100 true none none] ∧ z.sig = [] ∧
    (nstep n fixedCfg z (.wake 1 0)).base.thr = z.base.thr := by
  decide +kernel

/-- the same schedule with the code's `notify_all`: both get through -/
example :
    let z := nrun codeNCfg fixedCfg (ninit (init 32768 0 32768 2 false))
      [.send 0 100 false, .send 1 100 true, .adjust 1000, .wake 0 0, .emit 0, .wake 1 0, .emit 1]
    z.base.outWin = 800 ∧ z.base.thr = [.idle (.ret 100), .idle (.ret 100)] ∧ z.base.wire = [.data 100, .ext 100] := by
  decide +kernel

/-- **The defect (code before the repair).**  One stderr-type message of 100 bytes that the receiver handles
    as extended data of type 2: the bytes are thrown away and never credited — the credits of the direction
    drop from 32768 to 32668 for good, although both channels are open and everything is drained. -/
theorem C20_witness :
    let y := prun oldCfg (initPair 32768 32768 32768 32768 2)
      [.left (.send 0 100 true), .left (.emit 0), .deliverAB 1 2]
    y.a.linked = true ∧ y.b.linked = true ∧ acct y.b = true ∧ Quiescent y ∧ credits y = 32668 ∧
    y.b.discarded = 100 := by
  decide +kernel

/-- the same schedule on the repaired code: the discarded bytes sit in `in_window_sofar` -/
example :
    let y := prun fixedCfg (initPair 32768 32768 32768 32768 2)
      [.left (.send 0 100 true), .left (.emit 0), .deliverAB 1 2]
    credits y = 32768 ∧ y.b.inSofar = 100 ∧ Quiescent y := by
  decide +kernel

/-- non-vacuity of `stuck_impossible`: a schedule that exhausts the window with discarded data, drains, and is
    quiescent with everything credited back -/
example :
    let y := prun fixedCfg (initPair 32768 32768 32768 4096 2)
      [.left (.send 0 4032 true), .left (.emit 0), .deliverAB 1 3, .right (.emit 1), .deliverBA 1 0,
       .left (.send 0 4032 false), .left (.emit 0), .deliverAB 1 1, .right (.recv 0 5000 false),
       .right (.check 0), .right (.emit 0), .deliverBA 1 0]
    Quiescent y ∧ y.a.outWin = 32768 ∧ y.b.discarded = 4032 ∧ y.b.consumed = 4032 ∧ acct y.b = true := by
  decide +kernel

end PV.Props.C20
