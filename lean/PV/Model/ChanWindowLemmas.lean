/-
  Helper lemmas for PV.Model.ChanWindow: sums over the thread list under `List.set`, sums over the wire under
  append, and what each lock region does to the quantities the invariants speak about.
-/
import PV.Model.ChanWindow
namespace PV.Chan

theorem sumBy_set (f : TSt → Nat) (l : List TSt) (t : Nat) (old x : TSt) (h : l[t]? = some old) :
    sumBy f (l.set t x) + f old = sumBy f l + f x := by
  induction l generalizing t with
  | nil => simp at h
  | cons y ys ih =>
    cases t with
    | zero =>
      simp only [List.getElem?_cons_zero, Option.some.injEq] at h
      subst h
      simp only [List.set_cons_zero, sumBy]; omega
    | succ t =>
      simp only [List.getElem?_cons_succ] at h
      have := ih t h
      simp only [List.set_cons_succ, sumBy]; omega

theorem dataSum_append (a b : List Msg) : dataSum (a ++ b) = dataSum a + dataSum b := by
  induction a with
  | nil => simp [dataSum]
  | cons m ms ih => simp only [List.cons_append, dataSum, ih]; omega

theorem adjSum_append (a b : List Msg) : adjSum (a ++ b) = adjSum a + adjSum b := by
  induction a with
  | nil => simp [adjSum]
  | cons m ms ih => simp only [List.cons_append, adjSum, ih]; omega

theorem idleOf_spec (s : St) (t : Nat) (h : idleOf s t = true) : ∃ r, s.thr[t]? = some (.idle r) := by
  unfold idleOf at h
  split at h
  · rename_i r hr; exact ⟨r, hr⟩
  · simp at h

theorem allocate_le_win (s : St) (want : Nat) : allocate s want ≤ s.outWin := by
  unfold allocate; simp only; split <;> split <;> omega

theorem allocate_le_want (s : St) (want : Nat) : allocate s want ≤ want := by
  unfold allocate; simp only; split <;> split <;> omega

theorem allocate_le_pkt (s : St) (want : Nat) : allocate s want ≤ s.maxPkt - 64 := by
  unfold allocate; simp only; split <;> split <;> omega

theorem allocate_pos (s : St) (want : Nat) (hw : 0 < want) (ho : 0 < s.outWin) (hp : 64 < s.maxPkt) :
    0 < allocate s want := by
  unfold allocate; simp only; split <;> split <;> omega

theorem sanitizePkt_ge (n : Nat) : 4096 ≤ sanitizePkt n := by
  unfold sanitizePkt MIN_PACKET_SIZE; omega

theorem sanitizePkt_id (n : Nat) (h1 : 4096 ≤ n) (h2 : n ≤ 4294967295) : sanitizePkt n = n := by
  unfold sanitizePkt MIN_PACKET_SIZE MAX_WINDOW_SIZE; omega

end PV.Chan

namespace PV.Chan

/-! ## window invariant: sent + reserved + outWin = granted -/

def WInv (s : St) : Prop := dataSum s.wire + heldDataAll s.thr + s.outWin + s.leaked = s.granted

theorem heldData_set (l : List TSt) (t : Nat) (old x : TSt) (h : l[t]? = some old) :
    heldDataAll (l.set t x) + old.heldData = heldDataAll l + x.heldData :=
  sumBy_set TSt.heldData l t old x h

theorem heldAdj_set (l : List TSt) (t : Nat) (old x : TSt) (h : l[t]? = some old) :
    heldAdjAll (l.set t x) + old.heldAdj = heldAdjAll l + x.heldAdj :=
  sumBy_set TSt.heldAdj l t old x h

@[simp] theorem mkData_dataLen (ext : Bool) (n : Nat) : (mkData ext n).dataLen = n := by
  cases ext <;> rfl
@[simp] theorem mkData_adjLen (ext : Bool) (n : Nat) : (mkData ext n).adjLen = 0 := by
  cases ext <;> rfl
@[simp] theorem mkData_isData (ext : Bool) (n : Nat) : (mkData ext n).isData = true := by
  cases ext <;> rfl

theorem kontState_heldData (k : Kont) : (kontState k).heldData = 0 := by
  cases k with
  | loop l ext n => simp only [kontState]; split <;> rfl
  | _ => rfl

theorem kontState_heldAdj (k : Kont) : (kontState k).heldAdj = 0 := by
  cases k with
  | loop l ext n => simp only [kontState]; split <;> rfl
  | _ => rfl

/-- a region that only replaces thread `t`'s state by one holding no data keeps the window equation -/
theorem winv_setThr (s : St) (t : Nat) (old x : TSt) (h : s.thr[t]? = some old)
    (ho : old.heldData = 0) (hx : x.heldData = 0) (hi : WInv s) : WInv (setThr s t x) := by
  have := heldData_set s.thr t old x h
  simp only [WInv, setThr] at *
  omega

theorem zeroResult_winv (cfg : Cfg) (s : St) (t : Nat) (ext : Bool) (lp : Option Loop) (old : TSt)
    (h : s.thr[t]? = some old) (ho : old.heldData = 0) (hi : WInv s) : WInv (zeroResult cfg s t ext lp) := by
  unfold zeroResult
  split
  · exact winv_setThr s t old _ h ho rfl hi
  · split <;> exact winv_setThr s t old _ h ho rfl hi

theorem grantHold_winv (s : St) (t size : Nat) (ext : Bool) (k : Kont) (old : TSt)
    (h : s.thr[t]? = some old) (ho : old.heldData = 0) (hle : size ≤ s.outWin) (hi : WInv s) :
    WInv (setThr { s with outWin := s.outWin - size } t (.hold [mkData ext size] k)) := by
  have := heldData_set s.thr t old (.hold [mkData ext size] k) h
  simp only [WInv, setThr, TSt.heldData, dataSum, mkData_dataLen] at *
  omega

theorem grant_winv (cfg : Cfg) (s : St) (t want : Nat) (ext : Bool) (lp : Option Loop) (old : TSt)
    (h : s.thr[t]? = some old) (ho : old.heldData = 0) (hi : WInv s) : WInv (grant cfg s t want ext lp) := by
  unfold grant
  simp only
  split
  · exact zeroResult_winv cfg s t ext lp old h ho hi
  · exact grantHold_winv s t _ ext _ old h ho (allocate_le_win s want) hi

theorem sendRegion_winv (cfg : Cfg) (s : St) (t want : Nat) (ext : Bool) (lp : Option Loop) (old : TSt)
    (h : s.thr[t]? = some old) (ho : old.heldData = 0) (hi : WInv s) :
    WInv (sendRegion cfg s t want ext lp) := by
  unfold sendRegion
  split
  · exact winv_setThr s t old _ h ho rfl hi
  · split
    · exact zeroResult_winv cfg s t ext lp old h ho hi
    · split
      · split <;> exact winv_setThr s t old _ h ho rfl hi
      · exact grant_winv cfg s t want ext lp old h ho hi

theorem wakeRegion_winv (cfg : Cfg) (s : St) (t dt want : Nat) (ext : Bool) (left : Option Nat)
    (lp : Option Loop) (old : TSt) (h : s.thr[t]? = some old) (ho : old.heldData = 0) (hi : WInv s) :
    WInv (wakeRegion cfg s t dt want ext left lp) := by
  have cont : ∀ left', WInv (if s.outWin = 0 then
      if (s.closed || s.eofSent) = true then zeroResult cfg s t ext lp
      else setThr s t (.waiting want ext left' lp)
    else if (s.closed || s.eofSent) = true then zeroResult cfg s t ext lp
    else grant cfg s t want ext lp) := by
    intro left'
    split
    · split
      · exact zeroResult_winv cfg s t ext lp old h ho hi
      · exact winv_setThr s t old _ h ho rfl hi
    · split
      · exact zeroResult_winv cfg s t ext lp old h ho hi
      · exact grant_winv cfg s t want ext lp old h ho hi
  unfold wakeRegion
  simp only
  split
  · exact cont none
  · split
    · exact winv_setThr s t old _ h ho rfl hi
    · exact cont _

theorem holdOrDone_winv (s : St) (t : Nat) (ms : List Msg) (k : Kont) (old : TSt)
    (h : s.thr[t]? = some old)
    (hi : dataSum s.wire + (heldDataAll s.thr - old.heldData + dataSum ms) + s.outWin + s.leaked = s.granted)
    (hle : old.heldData ≤ heldDataAll s.thr) : WInv (holdOrDone s t ms k) := by
  unfold holdOrDone
  split
  · have := heldData_set s.thr t old (kontState k) h
    have hk := kontState_heldData k
    simp only [WInv, setThr, dataSum] at *
    omega
  · rename_i m ms'
    have := heldData_set s.thr t old (.hold (m :: ms') k) h
    simp only [WInv, setThr, TSt.heldData] at *
    omega

theorem heldData_le (l : List TSt) (t : Nat) (old : TSt) (h : l[t]? = some old) :
    old.heldData ≤ heldDataAll l := by
  have := heldData_set l t old (.idle .none) h
  have h0 : (TSt.idle Res.none).heldData = 0 := rfl
  omega

end PV.Chan

namespace PV.Chan

theorem winv_congr (s s' : St) (h1 : s'.wire = s.wire) (h2 : s'.thr = s.thr) (h3 : s'.outWin = s.outWin)
    (h4 : s'.granted = s.granted) (h5 : s'.leaked = s.leaked) (hi : WInv s) : WInv s' := by
  simp only [WInv] at *; rw [h1, h2, h3, h4, h5]; exact hi

theorem checkAdd_leaked (s : St) (n : Nat) : (checkAdd s n).1.leaked = s.leaked := by
  unfold checkAdd; split
  · rfl
  · split <;> rfl

theorem sendEof_leaked (s : St) : (sendEof s).1.leaked = s.leaked := by
  unfold sendEof; split <;> rfl

theorem closeInternal_leaked (s : St) : (closeInternal s).1.leaked = s.leaked := by
  unfold closeInternal; split
  · rfl
  · simp [setClosed, sendEof_leaked]

theorem checkAdd_frame (s : St) (n : Nat) :
    (checkAdd s n).1.wire = s.wire ∧ (checkAdd s n).1.thr = s.thr ∧ (checkAdd s n).1.outWin = s.outWin ∧
    (checkAdd s n).1.granted = s.granted := by
  unfold checkAdd; split
  · simp
  · split <;> simp

theorem sendEof_frame (s : St) :
    (sendEof s).1.wire = s.wire ∧ (sendEof s).1.thr = s.thr ∧ (sendEof s).1.outWin = s.outWin ∧
    (sendEof s).1.granted = s.granted ∧ dataSum (sendEof s).2 = 0 ∧ adjSum (sendEof s).2 = 0 := by
  unfold sendEof; split <;> simp [dataSum, adjSum, Msg.dataLen, Msg.adjLen]

theorem closeInternal_frame (s : St) :
    (closeInternal s).1.wire = s.wire ∧ (closeInternal s).1.thr = s.thr ∧
    (closeInternal s).1.outWin = s.outWin ∧ (closeInternal s).1.granted = s.granted ∧
    dataSum (closeInternal s).2 = 0 ∧ adjSum (closeInternal s).2 = 0 := by
  obtain ⟨h1, h2, h3, h4, h5, h6⟩ := sendEof_frame s
  unfold closeInternal; split
  · simp [dataSum, adjSum]
  · simp only [setClosed, dataSum_append, adjSum_append, h5, h6]
    simp [h1, h2, h3, h4, dataSum, adjSum, Msg.dataLen, Msg.adjLen]

/-- a lock region that keeps wire/outWin/granted and makes an idle thread hold messages without data -/
theorem holdOrDone_nodata_winv (s : St) (t : Nat) (ms : List Msg) (k : Kont) (old : TSt)
    (h : s.thr[t]? = some old) (ho : old.heldData = 0) (hms : dataSum ms = 0) (hi : WInv s) :
    WInv (holdOrDone s t ms k) := by
  apply holdOrDone_winv s t ms k old h _ (heldData_le s.thr t old h)
  simp only [WInv] at hi
  omega

theorem step_winv (cfg : Cfg) (s : St) (a : Act) (hi : WInv s) : WInv (step cfg s a) := by
  cases a with
  | send t n ext =>
    simp only [step]; split
    · rename_i hid
      obtain ⟨r, hr⟩ := idleOf_spec s t hid
      exact sendRegion_winv cfg s t n ext none _ hr rfl hi
    · exact hi
  | sendall t n ext =>
    simp only [step]; split
    · rename_i hid
      obtain ⟨r, hr⟩ := idleOf_spec s t hid
      split <;> exact winv_setThr s t _ _ hr rfl rfl hi
    · exact hi
  | iter t =>
    simp only [step]; split
    · rename_i l ext hr
      exact sendRegion_winv cfg s t l.rem ext (some l) _ hr rfl hi
    · exact hi
  | wake t dt =>
    simp only [step]; split
    · rename_i want ext left lp hr
      exact wakeRegion_winv cfg s t dt want ext left lp _ hr rfl hi
    · exact hi
  | emit t =>
    simp only [step]; split
    · rename_i m ms k hr
      apply holdOrDone_winv { s with wire := s.wire ++ [m] } t ms k _ hr
      · have := heldData_le s.thr t _ hr
        simp only [WInv, TSt.heldData, dataSum, dataSum_append] at *
        omega
      · exact heldData_le s.thr t _ hr
    · exact hi
  | recv t k err =>
    simp only [step]; split
    · rename_i hid
      obtain ⟨r, hr⟩ := idleOf_spec s t hid
      repeat' split
      all_goals first | exact hi | (refine winv_setThr _ t _ _ hr rfl ?_ hi; rfl)
    · exact hi
  | check t =>
    simp only [step]; split
    · rename_i n hr
      obtain ⟨h1, h2, h3, h4⟩ := checkAdd_frame s n
      have hi' : WInv (checkAdd s n).1 := winv_congr s _ h1 h2 h3 h4 (checkAdd_leaked s n) hi
      have hr' : (checkAdd s n).1.thr[t]? = some (.gotBytes n) := by rw [h2]; exact hr
      split
      · exact winv_setThr _ t _ _ hr' rfl rfl hi'
      · exact winv_setThr _ t _ _ hr' rfl (by simp [TSt.heldData, dataSum, Msg.dataLen]) hi'
    · exact hi
  | close t =>
    simp only [step]; split
    · rename_i hid
      obtain ⟨r, hr⟩ := idleOf_spec s t hid
      obtain ⟨h1, h2, h3, h4, h5, _⟩ := closeInternal_frame s
      exact holdOrDone_nodata_winv _ t _ _ (.idle r) (by rw [h2]; exact hr) rfl h5
        (winv_congr s _ h1 h2 h3 h4 (closeInternal_leaked s) hi)
    · exact hi
  | shutdownWrite t =>
    simp only [step]; split
    · rename_i hid
      obtain ⟨r, hr⟩ := idleOf_spec s t hid
      obtain ⟨h1, h2, h3, h4, h5, _⟩ := sendEof_frame s
      exact holdOrDone_nodata_winv _ t _ _ (.idle r) (by rw [h2]; exact hr) rfl h5
        (winv_congr s _ h1 h2 h3 h4 (sendEof_leaked s) hi)
    · exact hi
  | shutdownRead => exact hi
  | setMode m => exact hi
  | feed n => exact hi
  | feedExt t code n =>
    simp only [step]; split
    · split <;> exact hi
    · split
      · split
        · rename_i hid
          obtain ⟨r, hr⟩ := idleOf_spec s t hid
          obtain ⟨h1, h2, h3, h4⟩ :=
            checkAdd_frame { s with recvd := s.recvd + n, discarded := s.discarded + n } n
          have hi' := winv_congr s _ h1 h2 h3 h4 (checkAdd_leaked _ n) hi
          split
          · exact hi'
          · exact winv_setThr _ t (.idle r) _ (by rw [h2]; exact hr) rfl
              (by simp [TSt.heldData, dataSum, Msg.dataLen]) hi'
        · exact hi
      · exact hi
  | adjust n => simp only [step, WInv] at *; omega
  | peerEof => simp only [step]; split <;> exact hi
  | peerClose t =>
    simp only [step]; split
    · rename_i hid
      obtain ⟨r, hr⟩ := idleOf_spec s t hid
      obtain ⟨h1, h2, h3, h4, h5, _⟩ := closeInternal_frame s
      exact holdOrDone_nodata_winv _ t _ _ (.idle r) (by simp only; rw [h2]; exact hr) rfl h5
        (winv_congr s _ h1 h2 h3 h4 (closeInternal_leaked s) hi)
    · exact hi
  | requestFailed t =>
    simp only [step]; split
    · rename_i hid
      obtain ⟨r, hr⟩ := idleOf_spec s t hid
      obtain ⟨h1, h2, h3, h4, h5, _⟩ := closeInternal_frame s
      exact holdOrDone_nodata_winv _ t _ _ (.idle r) (by rw [h2]; exact hr) rfl h5
        (winv_congr s _ h1 h2 h3 h4 (closeInternal_leaked s) hi)
    · exact hi
  | emitFail t =>
    simp only [step]; split
    · rename_i m ms k hr
      have := heldData_set s.thr t _ (.idle .sshError) hr
      simp only [WInv, setThr, TSt.heldData] at *
      omega
    · exact hi
  | unlink => simp only [step]; split <;> exact hi

theorem run_winv (cfg : Cfg) (s : St) (as : List Act) (hi : WInv s) : WInv (run cfg s as) := by
  induction as generalizing s with
  | nil => exact hi
  | cons a as ih => exact ih _ (step_winv cfg s a hi)

end PV.Chan

namespace PV.Chan

/-! ## the send path as one effect: thread `t` ends up holding exactly the bytes debited from the window -/

def okMsg (p : Nat) (m : Msg) : Prop := m.isData = true → 1 ≤ m.dataLen ∧ m.dataLen ≤ p - 64

def TSt.okHeld (p : Nat) (x : TSt) : Prop := ∀ ms k, x = .hold ms k → ∀ m ∈ ms, okMsg p m

def SendEff (s s' : St) (t : Nat) : Prop :=
  ∃ d x, s' = setThr { s with outWin := s.outWin - d } t x ∧ d ≤ s.outWin ∧ x.heldData = d ∧
    x.heldAdj = 0 ∧ x.okHeld s.maxPkt

theorem okHeld_of_not_hold (p : Nat) (x : TSt) (h : ∀ ms k, x ≠ .hold ms k) : x.okHeld p :=
  fun ms k e => absurd e (h ms k)

theorem sendEff_setThr (s : St) (t : Nat) (x : TSt) (hd : x.heldData = 0) (ha : x.heldAdj = 0)
    (hh : ∀ ms k, x ≠ .hold ms k) : SendEff s (setThr s t x) t :=
  ⟨0, x, rfl, Nat.zero_le _, hd, ha, okHeld_of_not_hold _ x hh⟩

theorem zeroResult_eff (cfg : Cfg) (s : St) (t : Nat) (ext : Bool) (lp : Option Loop) :
    SendEff s (zeroResult cfg s t ext lp) t := by
  unfold zeroResult
  split
  · exact sendEff_setThr s t _ rfl rfl (by intro ms k h; cases h)
  · split <;> exact sendEff_setThr s t _ rfl rfl (by intro ms k h; cases h)

theorem grant_eff (cfg : Cfg) (s : St) (t want : Nat) (ext : Bool) (lp : Option Loop) :
    SendEff s (grant cfg s t want ext lp) t := by
  unfold grant
  simp only
  split
  · exact zeroResult_eff cfg s t ext lp
  · rename_i hne
    refine ⟨allocate s want, _, rfl, allocate_le_win s want, ?_, ?_, ?_⟩
    · simp [TSt.heldData, dataSum]
    · simp [TSt.heldAdj, adjSum]
    · intro ms k e m hm
      cases e
      simp only [List.mem_singleton] at hm
      subst hm
      intro _
      have := allocate_le_pkt s want
      simp only [mkData_dataLen]
      omega

theorem sendRegion_eff (cfg : Cfg) (s : St) (t want : Nat) (ext : Bool) (lp : Option Loop) :
    SendEff s (sendRegion cfg s t want ext lp) t := by
  unfold sendRegion
  split
  · exact sendEff_setThr s t _ rfl rfl (by intro ms k h; cases h)
  · split
    · exact zeroResult_eff cfg s t ext lp
    · split
      · split <;> exact sendEff_setThr s t _ rfl rfl (by intro ms k h; cases h)
      · exact grant_eff cfg s t want ext lp

theorem wakeRegion_eff (cfg : Cfg) (s : St) (t dt want : Nat) (ext : Bool) (left : Option Nat)
    (lp : Option Loop) : SendEff s (wakeRegion cfg s t dt want ext left lp) t := by
  have cont : ∀ left', SendEff s (if s.outWin = 0 then
      if (s.closed || s.eofSent) = true then zeroResult cfg s t ext lp
      else setThr s t (.waiting want ext left' lp)
    else if (s.closed || s.eofSent) = true then zeroResult cfg s t ext lp
    else grant cfg s t want ext lp) t := by
    intro left'
    split
    · split
      · exact zeroResult_eff cfg s t ext lp
      · exact sendEff_setThr s t _ rfl rfl (by intro ms k h; cases h)
    · split
      · exact zeroResult_eff cfg s t ext lp
      · exact grant_eff cfg s t want ext lp
  unfold wakeRegion
  simp only
  split
  · exact cont none
  · split
    · exact sendEff_setThr s t _ rfl rfl (by intro ms k h; cases h)
    · exact cont _

theorem mem_set_cases {α : Type} (l : List α) (t : Nat) (x y : α) (h : y ∈ l.set t x) : y ∈ l ∨ y = x :=
  List.mem_or_eq_of_mem_set h

/-! ## packet-size invariant -/

def PktInv (s : St) : Prop :=
  (∀ m ∈ s.wire, okMsg s.maxPkt m) ∧ (∀ x ∈ s.thr, x.okHeld s.maxPkt)

theorem pkt_setThr (s : St) (t : Nat) (x : TSt) (hx : x.okHeld s.maxPkt) (hi : PktInv s) :
    PktInv (setThr s t x) := by
  refine ⟨hi.1, ?_⟩
  intro y hy
  rcases mem_set_cases _ _ _ _ hy with h | h
  · exact hi.2 y h
  · subst h; exact hx

theorem pkt_congr (s s' : St) (h1 : s'.wire = s.wire) (h2 : s'.thr = s.thr) (h3 : s'.maxPkt = s.maxPkt)
    (hi : PktInv s) : PktInv s' := by
  simp only [PktInv] at *; rw [h1, h2, h3]; exact hi

theorem pkt_sendEff (s s' : St) (t : Nat) (he : SendEff s s' t) (hi : PktInv s) : PktInv s' := by
  obtain ⟨d, x, rfl, _, _, _, hx⟩ := he
  exact pkt_setThr _ t x hx (pkt_congr s _ rfl rfl rfl hi)

theorem okHeld_kontState (p : Nat) (k : Kont) : (kontState k).okHeld p := by
  apply okHeld_of_not_hold
  intro ms k' h
  cases k with
  | loop l ext n => simp only [kontState] at h; split at h <;> cases h
  | _ => cases h

theorem pkt_holdOrDone (s : St) (t : Nat) (ms : List Msg) (k : Kont) (hms : ∀ m ∈ ms, okMsg s.maxPkt m)
    (hi : PktInv s) : PktInv (holdOrDone s t ms k) := by
  unfold holdOrDone
  split
  · exact pkt_setThr s t _ (okHeld_kontState _ k) hi
  · apply pkt_setThr s t _ _ hi
    intro ms' k' e m hm
    cases e
    exact hms m hm

theorem okMsg_nodata (p : Nat) (m : Msg) (h : m.isData = false) : okMsg p m := by
  intro h'; rw [h] at h'; cases h'

theorem sendEof_msgs (s : St) : ∀ m ∈ (sendEof s).2, m.isData = false := by
  unfold sendEof; split <;> simp [Msg.isData]

theorem closeInternal_msgs (s : St) : ∀ m ∈ (closeInternal s).2, m.isData = false := by
  unfold closeInternal; split
  · simp
  · intro m hm
    simp only [List.mem_append, List.mem_singleton] at hm
    rcases hm with h | h
    · exact sendEof_msgs s m h
    · subst h; rfl

theorem checkAdd_maxPkt (s : St) (n : Nat) : (checkAdd s n).1.maxPkt = s.maxPkt := by
  unfold checkAdd; split
  · rfl
  · split <;> rfl

theorem sendEof_maxPkt (s : St) : (sendEof s).1.maxPkt = s.maxPkt := by
  unfold sendEof; split <;> rfl

theorem closeInternal_maxPkt (s : St) : (closeInternal s).1.maxPkt = s.maxPkt := by
  unfold closeInternal; split
  · rfl
  · simp [setClosed, sendEof_maxPkt]

theorem getElem?_mem' {α : Type} (l : List α) (t : Nat) (x : α) (h : l[t]? = some x) : x ∈ l :=
  List.mem_of_getElem? h

theorem step_pkt (cfg : Cfg) (s : St) (a : Act) (hi : PktInv s) : PktInv (step cfg s a) := by
  cases a with
  | send t n ext =>
    simp only [step]; split
    · exact pkt_sendEff s _ t (sendRegion_eff cfg s t n ext none) hi
    · exact hi
  | sendall t n ext =>
    simp only [step]; split
    · split <;> exact pkt_setThr s t _ (okHeld_of_not_hold _ _ (by intro ms k h; cases h)) hi
    · exact hi
  | iter t =>
    simp only [step]; split
    · rename_i l ext hr
      exact pkt_sendEff s _ t (sendRegion_eff cfg s t l.rem ext (some l)) hi
    · exact hi
  | wake t dt =>
    simp only [step]; split
    · rename_i want ext left lp hr
      exact pkt_sendEff s _ t (wakeRegion_eff cfg s t dt want ext left lp) hi
    · exact hi
  | emit t =>
    simp only [step]; split
    · rename_i m ms k hr
      have hold := hi.2 _ (getElem?_mem' _ _ _ hr) (m :: ms) k rfl
      apply pkt_holdOrDone { s with wire := s.wire ++ [m] } t ms k
      · intro m' hm'; exact hold m' (List.mem_cons_of_mem _ hm')
      · refine ⟨?_, hi.2⟩
        intro m' hm'
        simp only [List.mem_append, List.mem_singleton] at hm'
        rcases hm' with h | h
        · exact hi.1 m' h
        · subst h; exact hold m' (List.mem_cons_self ..)
    · exact hi
  | recv t k err =>
    simp only [step]; split
    · repeat' split
      all_goals first
        | exact hi
        | exact pkt_setThr _ t _ (okHeld_of_not_hold _ _ (by intro ms k h; cases h)) (pkt_congr s _ rfl rfl rfl hi)
    · exact hi
  | check t =>
    simp only [step]; split
    · rename_i n hr
      obtain ⟨h1, h2, _, _⟩ := checkAdd_frame s n
      have hi' : PktInv (checkAdd s n).1 := pkt_congr s _ h1 h2 (checkAdd_maxPkt s n) hi
      split
      · exact pkt_setThr _ t _ (okHeld_of_not_hold _ _ (by intro ms k h; cases h)) hi'
      · apply pkt_setThr _ t _ _ hi'
        intro ms k e m hm
        cases e
        simp only [List.mem_singleton] at hm
        subst hm
        exact okMsg_nodata _ _ rfl
    · exact hi
  | close t =>
    simp only [step]; split
    · obtain ⟨h1, h2, _, _, _, _⟩ := closeInternal_frame s
      exact pkt_holdOrDone _ t _ _ (fun m hm => okMsg_nodata _ m (closeInternal_msgs s m hm))
        (pkt_congr s _ h1 h2 (closeInternal_maxPkt s) hi)
    · exact hi
  | shutdownWrite t =>
    simp only [step]; split
    · obtain ⟨h1, h2, _, _, _, _⟩ := sendEof_frame s
      exact pkt_holdOrDone _ t _ _ (fun m hm => okMsg_nodata _ m (sendEof_msgs s m hm))
        (pkt_congr s _ h1 h2 (sendEof_maxPkt s) hi)
    · exact hi
  | shutdownRead => exact hi
  | setMode m => exact hi
  | feed n => exact hi
  | feedExt t code n =>
    simp only [step]; split
    · split <;> exact hi
    · split
      · split
        · obtain ⟨h1, h2, _, _⟩ :=
            checkAdd_frame { s with recvd := s.recvd + n, discarded := s.discarded + n } n
          have hi' := pkt_congr s _ h1 h2 (checkAdd_maxPkt _ n) hi
          split
          · exact hi'
          · apply pkt_setThr _ t _ _ hi'
            intro ms k e m hm
            cases e
            simp only [List.mem_singleton] at hm
            subst hm
            exact okMsg_nodata _ _ rfl
        · exact hi
      · exact hi
  | adjust n => exact hi
  | peerEof => simp only [step]; split <;> exact hi
  | peerClose t =>
    simp only [step]; split
    · obtain ⟨h1, h2, _, _, _, _⟩ := closeInternal_frame s
      exact pkt_holdOrDone _ t _ _ (fun m hm => okMsg_nodata _ m (closeInternal_msgs s m hm))
        (pkt_congr s _ h1 h2 (closeInternal_maxPkt s) hi)
    · exact hi
  | requestFailed t =>
    simp only [step]; split
    · obtain ⟨h1, h2, _, _, _, _⟩ := closeInternal_frame s
      exact pkt_holdOrDone _ t _ _ (fun m hm => okMsg_nodata _ m (closeInternal_msgs s m hm))
        (pkt_congr s _ h1 h2 (closeInternal_maxPkt s) hi)
    · exact hi
  | emitFail t =>
    simp only [step]; split
    · exact pkt_setThr _ t _ (okHeld_of_not_hold _ _ (by intro ms k h; cases h)) (pkt_congr s _ rfl rfl rfl hi)
    · exact hi
  | unlink => simp only [step]; split <;> exact hi

theorem run_pkt (cfg : Cfg) (s : St) (as : List Act) (hi : PktInv s) : PktInv (run cfg s as) := by
  induction as generalizing s with
  | nil => exact hi
  | cons a as ih => exact ih _ (step_pkt cfg s a hi)

theorem holdOrDone_maxPkt (s : St) (t : Nat) (ms : List Msg) (k : Kont) :
    (holdOrDone s t ms k).maxPkt = s.maxPkt := by
  unfold holdOrDone; split <;> rfl

theorem step_maxPkt (cfg : Cfg) (s : St) (a : Act) : (step cfg s a).maxPkt = s.maxPkt := by
  cases a with
  | send t n ext =>
    simp only [step]; split
    · obtain ⟨d, x, e, _⟩ := sendRegion_eff cfg s t n ext none; rw [e]; rfl
    · rfl
  | iter t =>
    simp only [step]; split
    · rename_i l ext hr
      obtain ⟨d, x, e, _⟩ := sendRegion_eff cfg s t l.rem ext (some l); rw [e]; rfl
    · rfl
  | wake t dt =>
    simp only [step]; split
    · rename_i want ext left lp hr
      obtain ⟨d, x, e, _⟩ := wakeRegion_eff cfg s t dt want ext left lp; rw [e]; rfl
    · rfl
  | emit t =>
    simp only [step]; split
    · rw [holdOrDone_maxPkt]
    · rfl
  | check t =>
    simp only [step]; split
    · rename_i n hr; split <;> simp [setThr, checkAdd_maxPkt]
    · rfl
  | close t =>
    simp only [step]; split
    · rw [holdOrDone_maxPkt, closeInternal_maxPkt]
    · rfl
  | shutdownWrite t =>
    simp only [step]; split
    · rw [holdOrDone_maxPkt, sendEof_maxPkt]
    · rfl
  | peerClose t =>
    simp only [step]; split
    · rw [holdOrDone_maxPkt]; exact closeInternal_maxPkt s
    · rfl
  | requestFailed t =>
    simp only [step]; split
    · rw [holdOrDone_maxPkt, closeInternal_maxPkt]
    · rfl
  | feedExt t code n =>
    simp only [step]
    repeat' split
    all_goals first | rfl | simp [setThr, checkAdd_maxPkt]
  | recv t k err =>
    simp only [step]
    repeat' split
    all_goals rfl
  | sendall t n ext =>
    simp only [step]
    repeat' split
    all_goals rfl
  | peerEof => simp only [step]; split <;> rfl
  | emitFail t => simp only [step]; split <;> rfl
  | unlink => simp only [step]; split <;> rfl
  | shutdownRead => rfl
  | setMode m => rfl
  | feed n => rfl
  | adjust n => rfl


theorem holdOrDone_leaked (s : St) (t : Nat) (ms : List Msg) (k : Kont) :
    (holdOrDone s t ms k).leaked = s.leaked := by
  unfold holdOrDone; split <;> rfl

theorem step_leaked (cfg : Cfg) (s : St) (a : Act) (hx : ∀ t, a ≠ .emitFail t) : (step cfg s a).leaked = s.leaked := by
  cases a with
  | send t n ext =>
    simp only [step]; split
    · obtain ⟨d, x, e, _⟩ := sendRegion_eff cfg s t n ext none; rw [e]; rfl
    · rfl
  | iter t =>
    simp only [step]; split
    · rename_i l ext hr
      obtain ⟨d, x, e, _⟩ := sendRegion_eff cfg s t l.rem ext (some l); rw [e]; rfl
    · rfl
  | wake t dt =>
    simp only [step]; split
    · rename_i want ext left lp hr
      obtain ⟨d, x, e, _⟩ := wakeRegion_eff cfg s t dt want ext left lp; rw [e]; rfl
    · rfl
  | emit t =>
    simp only [step]; split
    · rw [holdOrDone_leaked]
    · rfl
  | check t =>
    simp only [step]; split
    · rename_i n hr; split <;> simp [setThr, checkAdd_leaked]
    · rfl
  | close t =>
    simp only [step]; split
    · rw [holdOrDone_leaked, closeInternal_leaked]
    · rfl
  | shutdownWrite t =>
    simp only [step]; split
    · rw [holdOrDone_leaked, sendEof_leaked]
    · rfl
  | peerClose t =>
    simp only [step]; split
    · rw [holdOrDone_leaked]; exact closeInternal_leaked s
    · rfl
  | requestFailed t =>
    simp only [step]; split
    · rw [holdOrDone_leaked, closeInternal_leaked]
    · rfl
  | feedExt t code n =>
    simp only [step]
    repeat' split
    all_goals first | rfl | simp [setThr, checkAdd_leaked]
  | recv t k err =>
    simp only [step]
    repeat' split
    all_goals rfl
  | sendall t n ext =>
    simp only [step]
    repeat' split
    all_goals rfl
  | peerEof => simp only [step]; split <;> rfl
  | emitFail t => exact absurd rfl (hx t)
  | unlink => simp only [step]; split <;> rfl
  | shutdownRead => rfl
  | setMode m => rfl
  | feed n => rfl
  | adjust n => rfl


theorem run_maxPkt (cfg : Cfg) (s : St) (as : List Act) : (run cfg s as).maxPkt = s.maxPkt := by
  induction as generalizing s with
  | nil => rfl
  | cons a as ih => exact (ih _).trans (step_maxPkt cfg s a)

end PV.Chan

namespace PV.Chan

/-! ## receiver accounting: acks ≤ bytes consumed or discarded; nothing received is lost -/

def AInv (s : St) : Prop :=
  adjSum s.wire + heldAdjAll s.thr + s.inSofar ≤ s.consumed + s.discarded ∧
  s.consumed + s.discarded + s.inBuf + s.errBuf = s.recvd

theorem checkAdd_spec (s : St) (n : Nat) :
    (checkAdd s n).1.wire = s.wire ∧ (checkAdd s n).1.thr = s.thr ∧
    (checkAdd s n).1.consumed = s.consumed ∧ (checkAdd s n).1.discarded = s.discarded ∧
    (checkAdd s n).1.inBuf = s.inBuf ∧ (checkAdd s n).1.errBuf = s.errBuf ∧
    (checkAdd s n).1.recvd = s.recvd ∧
    (checkAdd s n).1.inSofar + (checkAdd s n).2 ≤ s.inSofar + n ∧
    ((s.closed || s.eofRecv || !s.active) = false →
      (checkAdd s n).1.inSofar + (checkAdd s n).2 = s.inSofar + n ∧
      (checkAdd s n).1.inSofar ≤ s.inThreshold ∧
      ((checkAdd s n).2 = 0 ∨ s.inThreshold < (checkAdd s n).2)) := by
  unfold checkAdd
  split
  · rename_i h; simp [h]
  · rename_i h
    split
    · simp_all
    · simp_all

theorem ainv_congr (s s' : St) (h1 : s'.wire = s.wire) (h2 : s'.thr = s.thr) (h3 : s'.inSofar = s.inSofar)
    (h4 : s'.consumed = s.consumed) (h5 : s'.discarded = s.discarded) (h6 : s'.inBuf = s.inBuf)
    (h7 : s'.errBuf = s.errBuf) (h8 : s'.recvd = s.recvd) (hi : AInv s) : AInv s' := by
  simp only [AInv] at *; rw [h1, h2, h3, h4, h5, h6, h7, h8]; exact hi

theorem ainv_setThr (s : St) (t : Nat) (old x : TSt) (h : s.thr[t]? = some old)
    (hx : x.heldAdj ≤ old.heldAdj) (hi : AInv s) : AInv (setThr s t x) := by
  have := heldAdj_set s.thr t old x h
  simp only [AInv, setThr] at *
  omega

theorem ainv_sendEff (s s' : St) (t : Nat) (old : TSt) (h : s.thr[t]? = some old)
    (he : SendEff s s' t) (hi : AInv s) : AInv s' := by
  obtain ⟨d, x, rfl, _, _, hx, _⟩ := he
  exact ainv_setThr _ t old x h (by omega) (ainv_congr s _ rfl rfl rfl rfl rfl rfl rfl rfl hi)

theorem ainv_holdOrDone (s : St) (t : Nat) (ms : List Msg) (k : Kont) (old : TSt)
    (h : s.thr[t]? = some old) (hms : adjSum ms ≤ old.heldAdj) (hi : AInv s) :
    AInv (holdOrDone s t ms k) := by
  unfold holdOrDone
  split
  · exact ainv_setThr s t old _ h (by rw [kontState_heldAdj]; omega) hi
  · exact ainv_setThr s t old _ h (by simpa [TSt.heldAdj] using hms) hi

theorem sendEof_spec (s : St) :
    (sendEof s).1.wire = s.wire ∧ (sendEof s).1.thr = s.thr ∧ (sendEof s).1.inSofar = s.inSofar ∧
    (sendEof s).1.consumed = s.consumed ∧ (sendEof s).1.discarded = s.discarded ∧
    (sendEof s).1.inBuf = s.inBuf ∧ (sendEof s).1.errBuf = s.errBuf ∧ (sendEof s).1.recvd = s.recvd := by
  unfold sendEof; split <;> simp

theorem closeInternal_spec (s : St) :
    (closeInternal s).1.wire = s.wire ∧ (closeInternal s).1.thr = s.thr ∧
    (closeInternal s).1.inSofar = s.inSofar ∧
    (closeInternal s).1.consumed = s.consumed ∧ (closeInternal s).1.discarded = s.discarded ∧
    (closeInternal s).1.inBuf = s.inBuf ∧ (closeInternal s).1.errBuf = s.errBuf ∧
    (closeInternal s).1.recvd = s.recvd := by
  obtain ⟨h1, h2, h3, h4, h5, h6, h7, h8⟩ := sendEof_spec s
  unfold closeInternal; split
  · simp
  · simp [setClosed, h1, h2, h3, h4, h5, h6, h7, h8]

theorem step_ainv (cfg : Cfg) (s : St) (a : Act) (hi : AInv s) : AInv (step cfg s a) := by
  cases a with
  | send t n ext =>
    simp only [step]; split
    · rename_i hid
      obtain ⟨r, hr⟩ := idleOf_spec s t hid
      exact ainv_sendEff s _ t _ hr (sendRegion_eff cfg s t n ext none) hi
    · exact hi
  | sendall t n ext =>
    simp only [step]; split
    · rename_i hid
      obtain ⟨r, hr⟩ := idleOf_spec s t hid
      split <;> exact ainv_setThr s t _ _ hr (Nat.le_refl 0) hi
    · exact hi
  | iter t =>
    simp only [step]; split
    · rename_i l ext hr
      exact ainv_sendEff s _ t _ hr (sendRegion_eff cfg s t l.rem ext (some l)) hi
    · exact hi
  | wake t dt =>
    simp only [step]; split
    · rename_i want ext left lp hr
      exact ainv_sendEff s _ t _ hr (wakeRegion_eff cfg s t dt want ext left lp) hi
    · exact hi
  | emit t =>
    simp only [step]; split
    · rename_i m ms k hr
      have hs := heldAdj_set s.thr t _ (.idle .none) hr
      have h0 : (TSt.idle Res.none).heldAdj = 0 := rfl
      unfold holdOrDone
      split
      · have := heldAdj_set s.thr t _ (kontState k) hr
        have hk := kontState_heldAdj k
        simp only [AInv, setThr, TSt.heldAdj, adjSum, adjSum_append] at *
        omega
      · rename_i m' ms'
        have := heldAdj_set s.thr t _ (.hold (m' :: ms') k) hr
        simp only [AInv, setThr, TSt.heldAdj, adjSum, adjSum_append] at *
        omega
    · exact hi
  | recv t k err =>
    simp only [step]; split
    · rename_i hid
      obtain ⟨r, hr⟩ := idleOf_spec s t hid
      have hset : ∀ x, heldAdjAll (s.thr.set t x) + 0 = heldAdjAll s.thr + x.heldAdj :=
        fun x => heldAdj_set s.thr t _ x hr
      cases err
      all_goals
        simp only [Bool.false_eq_true, if_false, if_true]
        repeat' split
        all_goals first
          | exact hi
          | exact ainv_setThr s t _ _ hr (Nat.le_refl 0) hi
          | (have := hset (.gotBytes 0); simp only [AInv, setThr, TSt.heldAdj] at *; omega)
          | (have h1 := hset (.gotBytes s.inBuf); have h2 := hset (.gotBytes k)
             have h3 := hset (.gotBytes s.errBuf)
             simp only [AInv, setThr, TSt.heldAdj] at *; omega)
    · exact hi
  | check t =>
    simp only [step]; split
    · rename_i n hr
      obtain ⟨h1, h2, h4, h5, h6, h7, h8, hle, _⟩ := checkAdd_spec s n
      generalize checkAdd s n = r at *
      obtain ⟨s1, ack⟩ := r
      simp only at h1 h2 h4 h5 h6 h7 h8 hle ⊢
      split
      · rename_i h0
        have := heldAdj_set s.thr t _ (.idle (.bytes n)) hr
        simp only [AInv, setThr, TSt.heldAdj, h1, h2, h4, h5, h6, h7, h8] at *
        omega
      · have := heldAdj_set s.thr t _ (.hold [.adjust ack] (.retBytes n)) hr
        simp only [AInv, setThr, TSt.heldAdj, adjSum, Msg.adjLen, h1, h2, h4, h5, h6, h7, h8] at *
        omega
    · exact hi
  | close t =>
    simp only [step]; split
    · rename_i hid
      obtain ⟨r, hr⟩ := idleOf_spec s t hid
      obtain ⟨h1, h2, h3, h4, h5, h6, h7, h8⟩ := closeInternal_spec s
      obtain ⟨_, _, _, _, _, h9⟩ := closeInternal_frame s
      exact ainv_holdOrDone _ t _ _ (.idle r) (by rw [h2]; exact hr) (by rw [h9]; exact Nat.zero_le _)
        (ainv_congr s _ h1 h2 h3 h4 h5 h6 h7 h8 hi)
    · exact hi
  | shutdownWrite t =>
    simp only [step]; split
    · rename_i hid
      obtain ⟨r, hr⟩ := idleOf_spec s t hid
      obtain ⟨h1, h2, h3, h4, h5, h6, h7, h8⟩ := sendEof_spec s
      obtain ⟨_, _, _, _, _, h9⟩ := sendEof_frame s
      exact ainv_holdOrDone _ t _ _ (.idle r) (by rw [h2]; exact hr) (by rw [h9]; exact Nat.zero_le _)
        (ainv_congr s _ h1 h2 h3 h4 h5 h6 h7 h8 hi)
    · exact hi
  | shutdownRead => exact hi
  | setMode m => exact hi
  | feed n => simp only [step, AInv] at *; omega
  | feedExt t code n =>
    simp only [step]; split
    · split <;> (simp only [AInv] at *; omega)
    · split
      · split
        · rename_i hid
          obtain ⟨r, hr⟩ := idleOf_spec s t hid
          obtain ⟨h1, h2, h4, h5, h6, h7, h8, hle, _⟩ :=
            checkAdd_spec { s with recvd := s.recvd + n, discarded := s.discarded + n } n
          generalize checkAdd { s with recvd := s.recvd + n, discarded := s.discarded + n } n = r at *
          obtain ⟨s1, ack⟩ := r
          simp only at h1 h2 h4 h5 h6 h7 h8 hle ⊢
          split
          · rename_i h0
            simp only [AInv, h1, h2, h4, h5, h6, h7, h8] at *
            omega
          · have := heldAdj_set s.thr t _ (.hold [.adjust ack] .retNone) hr
            simp only [AInv, setThr, TSt.heldAdj, adjSum, Msg.adjLen, h1, h2, h4, h5, h6, h7, h8] at *
            omega
        · exact hi
      · simp only [AInv] at *; omega
  | adjust n => exact hi
  | peerEof => simp only [step]; split <;> exact hi
  | peerClose t =>
    simp only [step]; split
    · rename_i hid
      obtain ⟨r, hr⟩ := idleOf_spec s t hid
      obtain ⟨h1, h2, h3, h4, h5, h6, h7, h8⟩ := closeInternal_spec s
      obtain ⟨_, _, _, _, _, h9⟩ := closeInternal_frame s
      exact ainv_holdOrDone _ t _ _ (.idle r) (by simp only; rw [h2]; exact hr)
        (by rw [h9]; exact Nat.zero_le _) (ainv_congr s _ h1 h2 h3 h4 h5 h6 h7 h8 hi)
    · exact hi
  | requestFailed t =>
    simp only [step]; split
    · rename_i hid
      obtain ⟨r, hr⟩ := idleOf_spec s t hid
      obtain ⟨h1, h2, h3, h4, h5, h6, h7, h8⟩ := closeInternal_spec s
      obtain ⟨_, _, _, _, _, h9⟩ := closeInternal_frame s
      exact ainv_holdOrDone _ t _ _ (.idle r) (by rw [h2]; exact hr) (by rw [h9]; exact Nat.zero_le _)
        (ainv_congr s _ h1 h2 h3 h4 h5 h6 h7 h8 hi)
    · exact hi
  | emitFail t =>
    simp only [step]; split
    · rename_i m ms k hr
      exact ainv_setThr _ t _ _ hr (Nat.zero_le _) (ainv_congr s _ rfl rfl rfl rfl rfl rfl rfl rfl hi)
    · exact hi
  | unlink => simp only [step]; split <;> exact hi

theorem run_ainv (cfg : Cfg) (s : St) (as : List Act) (hi : AInv s) : AInv (run cfg s as) := by
  induction as generalizing s with
  | nil => exact hi
  | cons a as ih => exact ih _ (step_ainv cfg s a hi)

end PV.Chan

namespace PV.Chan

/-! ## the ghost `granted` is exactly the initial window plus the adjustments in the schedule -/

def Act.adjustOf : Act → Nat
  | .adjust n => n
  | _ => 0

def adjustsIn : List Act → Nat
  | [] => 0
  | a :: as => a.adjustOf + adjustsIn as

theorem holdOrDone_granted (s : St) (t : Nat) (ms : List Msg) (k : Kont) :
    (holdOrDone s t ms k).granted = s.granted := by
  unfold holdOrDone; split <;> rfl

theorem step_granted (cfg : Cfg) (s : St) (a : Act) : (step cfg s a).granted = s.granted + a.adjustOf := by
  cases a with
  | send t n ext =>
    simp only [step, Act.adjustOf]; split
    · obtain ⟨d, x, e, _⟩ := sendRegion_eff cfg s t n ext none; rw [e]; rfl
    · rfl
  | iter t =>
    simp only [step, Act.adjustOf]; split
    · rename_i l ext hr
      obtain ⟨d, x, e, _⟩ := sendRegion_eff cfg s t l.rem ext (some l); rw [e]; rfl
    · rfl
  | wake t dt =>
    simp only [step, Act.adjustOf]; split
    · rename_i want ext left lp hr
      obtain ⟨d, x, e, _⟩ := wakeRegion_eff cfg s t dt want ext left lp; rw [e]; rfl
    · rfl
  | emit t =>
    simp only [step, Act.adjustOf]; split
    · rw [holdOrDone_granted]; rfl
    · rfl
  | check t =>
    simp only [step, Act.adjustOf]; split
    · rename_i n hr; split <;> simp [setThr, (checkAdd_frame s n).2.2.2]
    · rfl
  | close t =>
    simp only [step, Act.adjustOf]; split
    · rw [holdOrDone_granted, (closeInternal_frame s).2.2.2.1]; rfl
    · rfl
  | shutdownWrite t =>
    simp only [step, Act.adjustOf]; split
    · rw [holdOrDone_granted, (sendEof_frame s).2.2.2.1]; rfl
    · rfl
  | peerClose t =>
    simp only [step, Act.adjustOf]; split
    · rw [holdOrDone_granted]; exact (closeInternal_frame s).2.2.2.1
    · rfl
  | requestFailed t =>
    simp only [step, Act.adjustOf]; split
    · rw [holdOrDone_granted, (closeInternal_frame s).2.2.2.1]; rfl
    · rfl
  | feedExt t code n =>
    simp only [step, Act.adjustOf]
    repeat' split
    all_goals first
      | rfl
      | simp [setThr, (checkAdd_frame { s with recvd := s.recvd + n, discarded := s.discarded + n } n).2.2.2]
  | recv t k err =>
    simp only [step, Act.adjustOf]
    repeat' split
    all_goals rfl
  | sendall t n ext =>
    simp only [step, Act.adjustOf]
    repeat' split
    all_goals rfl
  | peerEof => simp only [step, Act.adjustOf]; split <;> rfl
  | emitFail t => simp only [step, Act.adjustOf]; split <;> rfl
  | unlink => simp only [step, Act.adjustOf]; split <;> rfl
  | shutdownRead => rfl
  | setMode m => rfl
  | feed n => rfl
  | adjust n => rfl

theorem run_granted (cfg : Cfg) (s : St) (as : List Act) :
    (run cfg s as).granted = s.granted + adjustsIn as := by
  induction as generalizing s with
  | nil => rfl
  | cons a as ih =>
    show (run cfg (step cfg s a) as).granted = _
    rw [ih, step_granted]; simp only [adjustsIn]; omega

end PV.Chan
