/-
  PV.Model.ChanX — the short-read/short-write stream of PV.Model.BufFile, extended with `_read` calls that
  RAISE (socket.timeout from a Channel with a timeout, OSError): `fails` has one flag per `_read` call; a raising
  call delivers nothing and consumes nothing.  The BufferedFile model is unchanged: it already says what state a
  raising `_read` leaves behind (read(n): the chunks fetched so far stay in `_rbuffer`; read() and readline():
  they are held in a local and are lost — see the witnesses in PV.Props.C42).  Mathlib-free, total.
-/
import PV.Model.BufFile
namespace PV.BufFile
open PV

def eTimeout : Nat := 4      -- code carried by `Err.stream` for the raising `_read`

structure ChanX where
  c : Chan
  fails : List Bool

def chanOpsX : Ops ChanX where
  read s rp n :=
    match s.fails with
    | true :: rest => ({ s with fails := rest }, .error (.stream eTimeout))
    | _ => ({ c := (chanOps.read s.c rp n).1, fails := s.fails.tail }, (chanOps.read s.c rp n).2)
  write s rp d := ({ s with c := (chanOps.write s.c rp d).1 }, (chanOps.write s.c rp d).2)
  bound s _ := s.c.inp.length

end PV.BufFile
