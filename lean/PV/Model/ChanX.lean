/-
  PV.Model.ChanX — the short-read/short-write stream of PV.Model.BufFile, extended with `_read` calls that
  RAISE (socket.timeout from a Channel with a timeout, OSError): `fails` has one flag per `_read` call; a raising
  call delivers nothing and consumes nothing.  The BufferedFile model is unchanged: it already says what state a
  raising `_read` leaves behind: everything fetched so far stays in (read(n)) or is put back into (read(),
  readline(), since /repo 3937ccc) the read-ahead buffer.  Mathlib-free, total.
-/
import PV.Model.BufFile
namespace PV.BufFile
open PV

def eTimeout : Nat := 4      -- code carried by `Err.stream` for the raising `_read`

structure ChanX where
  c : Chan
  fails : List Bool

def chanOpsX : Ops ChanX where
  read s rp n :=
    match s.fails with
    | true :: rest => ({ s with fails := rest }, .error (.stream eTimeout))
    | _ => ({ c := (chanOps.read s.c rp n).1, fails := s.fails.tail }, (chanOps.read s.c rp n).2)
  write s rp d := ({ s with c := (chanOps.write s.c rp d).1 }, (chanOps.write s.c rp d).2)
  bound s _ := s.c.inp.length

/-! ## the code BEFORE /repo 3937ccc (kept for the legacy witnesses): a raising fetch inside `read()` /
    `readline()` dropped the chunks fetched so far in that call -/

def readAllLoopOld {σ : Type} (o : Ops σ) : Nat → BF σ → Bytes → Res σ Bytes
  | 0, f, _ => (f, .error .fuel)
  | fuel+1, f, acc =>
    match o.read f.s f.realpos f.dflt with
    | (s', .error e) => ({ f with s := s' }, .error e)
    | (s', .ok d) =>
      if d.isEmpty then ({ f with s := s' }, .ok acc)
      else readAllLoopOld o fuel
        { f with s := s', realpos := f.realpos + d.length, pos := f.pos + d.length } (acc ++ d)

/-- `read()` (no size) as it was -/
def readAllOld {σ : Type} (o : Ops σ) (f : BF σ) : Res σ Bytes :=
  if f.closed then (f, .error .closed)
  else if !f.rd then (f, .error .notReadable)
  else readAllLoopOld o (o.bound f.s f.realpos + 1) { f with rbuf := [], pos := f.pos + f.rbuf.length } f.rbuf

def readlineLoopOld {σ : Type} (o : Ops σ) (size : Option Nat) : Nat → BF σ → Bytes → Res σ RL
  | 0, f, _ => (f, .error .fuel)
  | fuel+1, f, line =>
    match rlLimit size f.bufsize line with
    | none =>
      let sz := size.getD 0
      ({ f with rbuf := line.drop sz }, .ok (.brk (line.take sz) true))
    | some n =>
      if line.contains LF then (f, .ok (.brk line false))
      else match o.read f.s f.realpos n with
        | (s', .error e) => ({ f with s := s' }, .error e)
        | (s', .ok d) =>
          if d.isEmpty then
            ({ f with s := s', rbuf := [], pos := f.pos + line.length }, .ok (.eof line))
          else readlineLoopOld o size fuel
            { f with s := s', realpos := f.realpos + d.length } (line ++ d)

/-- `readline(size)` as it was -/
def readlineOld {σ : Type} (o : Ops σ) (f : BF σ) (size : Option Nat) : Res σ Bytes :=
  if f.closed then (f, .error .closed)
  else if !f.rd then (f, .error .notReadable)
  else readlinePost (readlineLoopOld o size (o.bound f.s f.realpos + 1) f f.rbuf)

end PV.BufFile
