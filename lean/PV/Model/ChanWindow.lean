/-
  PV.Model.ChanWindow — one `paramiko.channel.Channel` object at lock-region granularity.

  Mirrors (paramiko/channel.py): `_send` / `_wait_for_send_window` (reserve under `self.lock`, the wire write
  after the lock is released), `send`, `send_stderr`, `sendall`, `sendall_stderr`, `_window_adjust`, `recv`,
  `recv_stderr` (pipe read, then `_check_add_window`, then the WINDOW_ADJUST write), `_feed`, `_feed_extended`,
  `close`, `_close_internal`, `_send_eof`, `_set_closed`, `shutdown`, `_handle_eof`, `_handle_close`,
  `_request_failed`, `_unlink`, `settimeout`.

  Concurrency convention (DESIGN.md section 4): an action is one atomic region the code really has — the body
  of one `with self.lock` region executed by one thread, or one `_send_user_message` call made with no lock
  held.  "All schedules" = all lists of actions.  A thread that is inside an API call is in a thread state
  (`TSt`); an action naming a thread that cannot take it is a no-op (stutter).

  Data is abstracted to its length (flow control never looks at the contents).  Mathlib-free, executable.
-/
namespace PV.Chan

/-- channel messages this side writes to the transport (payload abstracted to its length) -/
inductive Msg where
  | data (n : Nat)      -- CHANNEL_DATA
  | ext (n : Nat)       -- CHANNEL_EXTENDED_DATA (type 1)
  | adjust (n : Nat)    -- CHANNEL_WINDOW_ADJUST
  | eof                 -- CHANNEL_EOF
  | close               -- CHANNEL_CLOSE
  deriving Repr, DecidableEq

/-- `self.timeout`: None / 0.0 / a positive number of clock ticks -/
inductive Mode where
  | blocking | nonblocking | timed (t : Nat)
  deriving Repr, DecidableEq

/-- how an API call ended -/
inductive Res where
  | none                 -- nothing called yet / returned None
  | ret (n : Nat)        -- send / send_stderr returned n
  | bytes (n : Nat)      -- recv / recv_stderr returned n bytes
  | sockClosed           -- socket.error("Socket is closed")
  | timeout              -- socket.timeout
  | sshError             -- SSHException out of transport._send_user_message (e.g. re-keying timed out)
  | doneAll (handed total : Nat)   -- sendall returned None; ghosts: bytes this call handed over / was given
  deriving Repr, DecidableEq

/-- bookkeeping of one `sendall` call: `rem = len(s)` at the loop head; ghosts `handed`, `total` -/
structure Loop where
  rem : Nat
  handed : Nat
  total : Nat
  deriving Repr, DecidableEq

/-- what a thread does after its held messages are written -/
inductive Kont where
  | retN (n : Nat)
  | retNone
  | retBytes (n : Nat)
  | loop (l : Loop) (ext : Bool) (n : Nat)   -- `s = s[sent:]` with sent = n, back to `while s:`
  deriving Repr, DecidableEq

inductive TSt where
  | idle (r : Res)
  | waiting (want : Nat) (ext : Bool) (left : Option Nat) (lp : Option Loop)  -- in out_buffer_cv.wait
  | hold (ms : List Msg) (k : Kont)      -- lock released; messages this thread still has to write, in order
  | gotBytes (n : Nat)                   -- recv: the pipe returned n bytes; _check_add_window not yet run
  | loopHead (l : Loop) (ext : Bool)     -- sendall: at `while s:` with len(s) = l.rem > 0
  deriving Repr, DecidableEq

/-- which version of the code is mirrored (both flags true = the repaired tree) -/
structure Cfg where
  creditDiscarded : Bool   -- _feed_extended credits discarded (type ≠ 1) data to the window   (C20 fix)
  raiseOnZero     : Bool   -- sendall raises when send returns 0                               (C25 fix)
  deriving Repr, DecidableEq

def fixedCfg : Cfg := { creditDiscarded := true, raiseOnZero := true }
def oldCfg : Cfg := { creditDiscarded := false, raiseOnZero := false }

structure St where
  active      : Bool
  closed      : Bool
  eofSent     : Bool
  eofRecv     : Bool
  linked      : Bool        -- still in Transport._channels
  combine     : Bool        -- combine_stderr
  pipesClosed : Bool        -- in_buffer / in_stderr_buffer closed
  outWin      : Nat         -- out_window_size
  maxPkt      : Nat         -- out_max_packet_size (sanitised)
  inThreshold : Nat         -- in_window_threshold
  inSofar     : Nat         -- in_window_sofar
  inBuf       : Nat         -- len(in_buffer)
  errBuf      : Nat         -- len(in_stderr_buffer)
  mode        : Mode
  thr         : List TSt
  wire        : List Msg    -- ghost: everything written to the transport, in order
  granted     : Nat         -- ghost: peer's initial window + Σ WINDOW_ADJUST received
  recvd       : Nat         -- ghost: Σ data bytes delivered by the peer (all types)
  consumed    : Nat         -- ghost: Σ bytes returned by recv/recv_stderr
  discarded   : Nat         -- ghost: Σ bytes of extended data of unknown type thrown away
  leaked      : Nat         -- ghost: Σ data bytes reserved from the window whose _send_user_message raised
  raced       : Bool        -- ghost: EOF was decided while some thread still held unsent data
  deriving Repr

def MIN_PACKET_SIZE : Nat := 4096
def MAX_WINDOW_SIZE : Nat := 4294967295

/-- `Transport._sanitize_packet_size` = clamp_value(MIN_PACKET_SIZE, n, MAX_WINDOW_SIZE) -/
def sanitizePkt (n : Nat) : Nat := max MIN_PACKET_SIZE (min n MAX_WINDOW_SIZE)

/-- `_set_window(inWin, _)` then `_set_remote_channel(_, peerWin, peerMax)`, `nthr` application/transport threads -/
def init (inWin peerWin peerMax nthr : Nat) (combine : Bool) : St :=
  { active := true, closed := false, eofSent := false, eofRecv := false, linked := true, combine := combine,
    pipesClosed := false, outWin := peerWin, maxPkt := sanitizePkt peerMax, inThreshold := inWin / 10,
    inSofar := 0, inBuf := 0, errBuf := 0, mode := .blocking, thr := List.replicate nthr (.idle .none),
    wire := [], granted := peerWin, recvd := 0, consumed := 0, discarded := 0, leaked := 0, raced := false }

inductive Act where
  | send (t n : Nat) (ext : Bool)        -- send / send_stderr of n bytes: the lock region of _send
  | sendall (t n : Nat) (ext : Bool)     -- sendall / sendall_stderr entered with n bytes
  | iter (t : Nat)                       -- sendall: one `self.send(s)` — its lock region
  | wake (t dt : Nat)                    -- out_buffer_cv.wait returns, dt clock ticks after it started
  | emit (t : Nat)                       -- the thread's next _send_user_message
  | emitFail (t : Nat)                   -- … which raises SSHException instead of writing (transport still alive)
  | recv (t k : Nat) (err : Bool)        -- recv / recv_stderr(k): the pipe read
  | check (t : Nat)                      -- … its _check_add_window lock region
  | close (t : Nat)                      -- Channel.close: lock region
  | shutdownWrite (t : Nat)              -- shutdown(1): lock region
  | shutdownRead                         -- shutdown(0)
  | setMode (m : Mode)                   -- settimeout
  | feed (n : Nat)                       -- peer CHANNEL_DATA → _feed
  | feedExt (t code n : Nat)             -- peer CHANNEL_EXTENDED_DATA → _feed_extended (thread t = transport thread)
  | adjust (n : Nat)                     -- peer CHANNEL_WINDOW_ADJUST → _window_adjust
  | peerEof                              -- peer CHANNEL_EOF → _handle_eof
  | peerClose (t : Nat)                  -- peer CHANNEL_CLOSE → _handle_close: lock region (t = transport thread)
  | requestFailed (t : Nat)              -- peer CHANNEL_FAILURE → _request_failed: lock region
  | unlink                               -- Channel._unlink (transport teardown)
  deriving Repr

def setThr (s : St) (t : Nat) (x : TSt) : St := { s with thr := s.thr.set t x }

def mkData (ext : Bool) (n : Nat) : Msg := if ext then .ext n else .data n

def Msg.dataLen : Msg → Nat
  | .data n => n
  | .ext n => n
  | _ => 0

def Msg.adjLen : Msg → Nat
  | .adjust n => n
  | _ => 0

def Msg.isData : Msg → Bool
  | .data _ => true
  | .ext _ => true
  | _ => false

def dataSum : List Msg → Nat
  | [] => 0
  | m :: ms => m.dataLen + dataSum ms

def adjSum : List Msg → Nat
  | [] => 0
  | m :: ms => m.adjLen + adjSum ms

/-- state a thread is in once everything it held has been written -/
def kontState : Kont → TSt
  | .retN n => .idle (.ret n)
  | .retNone => .idle .none
  | .retBytes n => .idle (.bytes n)
  | .loop l ext n =>
    if l.rem - n = 0 then .idle (.doneAll (l.handed + n) l.total)
    else .loopHead { rem := l.rem - n, handed := l.handed + n, total := l.total } ext

def holdOrDone (s : St) (t : Nat) (ms : List Msg) (k : Kont) : St :=
  match ms with
  | [] => setThr s t (kontState k)
  | _ :: _ => setThr s t (.hold ms k)

def TSt.holdsData : TSt → Bool
  | .hold ms _ => ms.any Msg.isData
  | _ => false

/-- the allocation tail of `_wait_for_send_window` -/
def allocate (s : St) (want : Nat) : Nat :=
  let size := if s.outWin < want then s.outWin else want
  if s.maxPkt - 64 < size then s.maxPkt - 64 else size

/-- `_send` got 0 from `_wait_for_send_window` (or reserved nothing) -/
def zeroResult (cfg : Cfg) (s : St) (t : Nat) (ext : Bool) : Option Loop → St
  | none => setThr s t (.idle (.ret 0))
  | some l => if cfg.raiseOnZero then setThr s t (.idle .sockClosed) else setThr s t (.loopHead l ext)

def grant (cfg : Cfg) (s : St) (t want : Nat) (ext : Bool) (lp : Option Loop) : St :=
  let size := allocate s want
  if size = 0 then zeroResult cfg s t ext lp
  else
    let k := match lp with
      | none => Kont.retN size
      | some l => Kont.loop l ext size
    setThr { s with outWin := s.outWin - size } t (.hold [mkData ext size] k)

/-- the lock region of `_send` for a request of `want` bytes -/
def sendRegion (cfg : Cfg) (s : St) (t want : Nat) (ext : Bool) (lp : Option Loop) : St :=
  if s.closed then setThr s t (.idle .sockClosed)
  else if s.eofSent then zeroResult cfg s t ext lp
  else if s.outWin = 0 then
    match s.mode with
    | .nonblocking => setThr s t (.idle .timeout)
    | .blocking => setThr s t (.waiting want ext none lp)
    | .timed 0 => setThr s t (.idle .timeout)
    | .timed (l + 1) => setThr s t (.waiting want ext (some (l + 1)) lp)
  else grant cfg s t want ext lp

/-- `_wait_for_send_window` after `out_buffer_cv.wait` returned (lock held again) -/
def wakeRegion (cfg : Cfg) (s : St) (t dt want : Nat) (ext : Bool) (left : Option Nat) (lp : Option Loop) : St :=
  let cont (left' : Option Nat) : St :=
    if s.outWin = 0 then
      if s.closed || s.eofSent then zeroResult cfg s t ext lp
      else setThr s t (.waiting want ext left' lp)
    else if s.closed || s.eofSent then zeroResult cfg s t ext lp
    else grant cfg s t want ext lp
  match left with
  | none => cont none
  | some l => if l ≤ dt then setThr s t (.idle .timeout) else cont (some (l - dt))

/-- `_check_add_window(n)`: new state and the ack to send (0 = none) -/
def checkAdd (s : St) (n : Nat) : St × Nat :=
  if s.closed || s.eofRecv || !s.active then (s, 0)
  else if s.inSofar + n ≤ s.inThreshold then ({ s with inSofar := s.inSofar + n }, 0)
  else ({ s with inSofar := 0 }, s.inSofar + n)

/-- `_send_eof` (lock held) -/
def sendEof (s : St) : St × List Msg :=
  if s.eofSent then (s, [])
  else ({ s with eofSent := true, raced := s.raced || s.thr.any TSt.holdsData }, [.eof])

/-- `_set_closed` -/
def setClosed (s : St) : St := { s with closed := true, pipesClosed := true }

/-- `_close_internal` (lock held) -/
def closeInternal (s : St) : St × List Msg :=
  if !s.active || s.closed then (s, [])
  else
    let r := sendEof s
    (setClosed r.1, r.2 ++ [.close])

def idleOf (s : St) (t : Nat) : Bool :=
  match s.thr[t]? with
  | some (.idle _) => true
  | _ => false

def step (cfg : Cfg) (s : St) : Act → St
  | .send t n ext => if idleOf s t then sendRegion cfg s t n ext none else s
  | .sendall t n ext =>
    if idleOf s t then
      if n = 0 then setThr s t (.idle (.doneAll 0 0))
      else setThr s t (.loopHead { rem := n, handed := 0, total := n } ext)
    else s
  | .iter t =>
    match s.thr[t]? with
    | some (.loopHead l ext) => sendRegion cfg s t l.rem ext (some l)
    | _ => s
  | .wake t dt =>
    match s.thr[t]? with
    | some (.waiting want ext left lp) => wakeRegion cfg s t dt want ext left lp
    | _ => s
  | .emit t =>
    match s.thr[t]? with
    | some (.hold (m :: ms) k) => holdOrDone { s with wire := s.wire ++ [m] } t ms k
    | _ => s
  | .emitFail t =>
    -- the exception propagates out of the API call: nothing is written, the remaining messages of this call are
    -- never sent, and a reserved piece of window is NOT handed back (it is simply lost)
    match s.thr[t]? with
    | some (.hold (m :: ms) _) =>
      setThr { s with leaked := s.leaked + dataSum (m :: ms) } t (.idle .sshError)
    | _ => s
  | .recv t k err =>
    if idleOf s t then
      let buf := if err then s.errBuf else s.inBuf
      if buf = 0 then
        if s.pipesClosed then setThr s t (.gotBytes 0)
        else match s.mode with
          | .nonblocking => setThr s t (.idle .timeout)
          | .timed 0 => setThr s t (.idle .timeout)
          | _ => s           -- a blocking read of an empty pipe is not scheduled (the thread would sleep in BufferedPipe)
      else
        let got := if buf ≤ k then buf else k
        let s1 := if err then { s with errBuf := s.errBuf - got } else { s with inBuf := s.inBuf - got }
        setThr { s1 with consumed := s1.consumed + got } t (.gotBytes got)
    else s
  | .check t =>
    match s.thr[t]? with
    | some (.gotBytes n) =>
      let r := checkAdd s n
      if r.2 = 0 then setThr r.1 t (.idle (.bytes n))
      else setThr r.1 t (.hold [.adjust r.2] (.retBytes n))
    | _ => s
  | .close t =>
    if idleOf s t then
      let r := closeInternal s
      holdOrDone r.1 t r.2 .retNone
    else s
  | .shutdownWrite t =>
    if idleOf s t then
      let r := sendEof s
      holdOrDone r.1 t r.2 .retNone
    else s
  | .shutdownRead => { s with eofRecv := true }
  | .setMode m => { s with mode := m }
  | .feed n => { s with inBuf := s.inBuf + n, recvd := s.recvd + n }
  | .feedExt t code n =>
    if code = 1 then
      if s.combine then { s with inBuf := s.inBuf + n, recvd := s.recvd + n }
      else { s with errBuf := s.errBuf + n, recvd := s.recvd + n }
    else if cfg.creditDiscarded then
      if idleOf s t then
        let s0 := { s with recvd := s.recvd + n, discarded := s.discarded + n }
        let r := checkAdd s0 n
        if r.2 = 0 then r.1 else setThr r.1 t (.hold [.adjust r.2] .retNone)
      else s
    else { s with recvd := s.recvd + n, discarded := s.discarded + n }
  | .adjust n => { s with outWin := s.outWin + n, granted := s.granted + n }
  | .peerEof => if s.eofRecv then s else { s with eofRecv := true, pipesClosed := true }
  | .peerClose t =>
    if idleOf s t then
      let r := closeInternal s
      holdOrDone { r.1 with linked := false } t r.2 .retNone
    else s
  | .requestFailed t =>
    if idleOf s t then
      let r := closeInternal s
      holdOrDone r.1 t r.2 .retNone
    else s
  | .unlink => if s.closed then s else { setClosed s with linked := false }

def run (cfg : Cfg) (s : St) (as : List Act) : St := as.foldl (step cfg) s

/-! ## observables -/

/-- bytes a thread has reserved (or read) but not yet put on the wire / accounted -/
def TSt.heldData : TSt → Nat
  | .hold ms _ => dataSum ms
  | _ => 0

def TSt.heldAdj : TSt → Nat
  | .hold ms _ => adjSum ms
  | .gotBytes n => n
  | _ => 0

def sumBy (f : TSt → Nat) : List TSt → Nat
  | [] => 0
  | x :: xs => f x + sumBy f xs

/-- Σ over threads of data bytes reserved (window already debited) but not yet written -/
def heldDataAll (l : List TSt) : Nat := sumBy TSt.heldData l

/-- Σ over threads of bytes read from the pipes / acks computed but not yet accounted / written -/
def heldAdjAll (l : List TSt) : Nat := sumBy TSt.heldAdj l

end PV.Chan
