/-
  PV.Model.PacketIO — text encoding of toy packetizer configurations for the line-protocol drivers
  (C01, C02, C03).  cfg tokens:
    plain:<block>
    classic:<block>:<maclen>:<sdctr 0|1>:<k>:<pos>:<mackeyhex>
    etm:<block>:<maclen>:<sdctr 0|1>:<k>:<pos>:<mackeyhex>
    aead:<block>:<maclen>:<sdctr 0|1>:<k>:<ivhex>
-/
import PV.Model.Packet
import PV.Base.DriverIO
namespace PV.Packet
open PV

def errName : Err → String
  | .eof => "eof" | .badBlocking => "badBlocking" | .macMismatch => "macMismatch"
  | .invalidTag => "invalidTag" | .seqRollover => "seqRollover" | .indexError => "indexError"
  | .structError => "structError" | .overflow => "overflow" | .decompress => "decompress"
  | .zeroDiv => "zeroDiv" | .ignoringRekey => "ignoringRekey"

def bool? (s : String) : Option Bool :=
  if s == "1" then some true else if s == "0" then some false else none

structure Cfg where
  block : Nat
  macLen : Nat
  sdctr : Bool
  out : OutC toyPrims
  inn : InC toyPrims

def parseCfg (t : String) : Option Cfg :=
  match t.splitOn ":" with
  | ["plain", b] => b.toNat?.map fun b => ⟨b, 0, false, .plain, .plain⟩
  | [kind, b, m, sd, k, pos, mk] =>
    match b.toNat?, m.toNat?, bool? sd, k.toNat?, pos.toNat?, ofHex? mk with
    | some b, some m, some sd, some k, some pos, some mk =>
      if kind == "classic" then some ⟨b, m, sd, .classic (k, pos) mk, .classic (k, pos) mk⟩
      else if kind == "etm" then some ⟨b, m, sd, .etm (k, pos) mk, .etm (k, pos) mk⟩
      else none
    | _, _, _, _, _, _ => none
  | ["aead", b, m, sd, k, iv] =>
    match b.toNat?, m.toNat?, bool? sd, k.toNat?, ofHex? iv with
    | some b, some m, some sd, some k, some iv => some ⟨b, m, sd, .aead k iv, .aead k iv⟩
    | _, _, _, _, _ => none
  | _ => none

/-- `-` = no compressor, otherwise the toy compressor state -/
def parseZ (t : String) : Option (Option Nat) :=
  if t == "-" then some none else t.toNat?.map some

def parseSendEv (t : String) : Option SendEv :=
  if t == "t" then some .timeout else if t == "e" then some .eagain else if t == "x" then some .fail
  else t.toNat?.map .accept

/-- `-` or comma separated: k = send accepts min(k, len) bytes, t = socket.timeout, e = EAGAIN, x = other error -/
def parseWSched (t : String) : Option (List SendEv) :=
  if t == "-" then some [] else (t.splitOn ",").mapM parseSendEv

def showW : WRes → String
  | .ok w => toHexTok w ++ " ok"
  | .eof w => toHexTok w ++ " eof"

def showMsg (m : Msg) : String :=
  "ok " ++ toString m.cmd.toNat ++ " " ++ toHexTok m.payload ++ " " ++ toString m.seqno

/-! ## stateful driver shared by C01 and C02: one toy sender, one toy receiver, one socket

    reset
    cfgout <cfg> | cfgin <cfg> | zout <z|-> | zin <z|-> | seqout <n> | seqin <n> | kexout <0|1> | kexin <0|1>   → ok
    send <payloadhex> <rndhex>      → <wirehex> | err:<kind>            (sender)
    sendw <payloadhex> <rndhex> <wsched> → <hex accepted by the socket> ok|eof | err:<kind>
                                      (sender; `write_all` under a schedule of send() outcomes, see parseWSched)
    feed <hex> | rem <hex>          → ok                                (bytes that will arrive | `__remainder`)
    limits <REKEY_PACKETS> <REKEY_BYTES> <PACKETS_OVERFLOW_MAX> <BYTES_OVERFLOW_MAX> | need <0|1>   → ok
                                      (receiver's rekey accounting; default = the shipped constants, flag clear;
                                       `cfgin` = a completed key switch: counters reset, request fulfilled;
                                       a `read` whose accounting raises answers err:ignoringRekey)
    read <sched>                    → ok <cmd> <payloadhex> <seqno> <retries> | err:<kind>
                                      (`read_message`, called again after each NeedRekeyException as Transport.run does)
    readall <n> <cr 0|1> <sched>    → <hex> | err:<kind> | rekey        (`read_all(n, check_rekey)`, n may be negative)
  sched: `-` or comma separated tokens: 0 = socket.timeout with the need-rekey flag clear, r = socket.timeout with
  the flag set, k>0 = recv returns at most k bytes
-/

structure DSt where
  s : Sender toyPrims := {}
  r : Receiver toyPrims := {}
  rem : Bytes := []
  data : Bytes := []
  k : RekeySt := {}                  -- the receiver's rekey accounting
  lim : Limits := shippedLimits

def parseEv (t : String) : Option Ev :=
  if t == "r" then some (.timeout true)
  else match t.toNat? with
    | some 0 => some (.timeout false)
    | some (k + 1) => some (.recv k)
    | none => none

def parseSched (t : String) : Option (List Ev) :=
  if t == "-" then some [] else (t.splitOn ",").mapM parseEv

/-- `readRetry` that also counts the NeedRekeyExceptions (same recursion) -/
def readRetryCount {p : Prims} (r : Receiver p) : (fuel : Nat) → Nat → Sock → SRes (RecvOut p) × Nat
  | 0, k, s => (.rekey s, k)
  | fuel + 1, k, s =>
    match runSock (readMessage r) s with
    | .rekey s' => readRetryCount r fuel (k + 1) s'
    | x => (x, k)

def driverStep (st : DSt) (line : String) : DSt × String :=
  match words line with
  | ["reset"] => ({}, "ok")
  | ["cfgout", c] =>
    match parseCfg c with
    | some c => ({ st with s := st.s.setCipher c.block c.macLen c.sdctr c.out }, "ok")
    | none => (st, "bad-op")
  | ["cfgin", c] =>
    match parseCfg c with
    | some c => ({ st with r := st.r.setCipher c.block c.macLen c.inn, k := st.k.switched }, "ok")
    | none => (st, "bad-op")
  | ["zout", z] =>
    match parseZ z with
    | some z => ({ st with s := { st.s with comp := z } }, "ok")
    | none => (st, "bad-op")
  | ["zin", z] =>
    match parseZ z with
    | some z => ({ st with r := { st.r with decomp := z } }, "ok")
    | none => (st, "bad-op")
  | ["limits", a, b, c, d] =>
    match a.toNat?, b.toNat?, c.toNat?, d.toNat? with
    | some a, some b, some c, some d => ({ st with lim := ⟨a, b, c, d⟩ }, "ok")
    | _, _, _, _ => (st, "bad-op")
  | ["need", b] =>
    match bool? b with
    | some b => ({ st with k := { st.k with need := b } }, "ok")
    | none => (st, "bad-op")
  | ["seqout", n] =>
    match n.toNat? with
    | some n => ({ st with s := { st.s with seq := n } }, "ok")
    | none => (st, "bad-op")
  | ["seqin", n] =>
    match n.toNat? with
    | some n => ({ st with r := { st.r with seq := n } }, "ok")
    | none => (st, "bad-op")
  | ["kexout", b] =>
    match bool? b with
    | some b => ({ st with s := { st.s with kexDone := b } }, "ok")
    | none => (st, "bad-op")
  | ["kexin", b] =>
    match bool? b with
    | some b => ({ st with r := { st.r with kexDone := b } }, "ok")
    | none => (st, "bad-op")
  | ["send", pl, rnd] =>
    match ofHex? pl, ofHex? rnd with
    | some pl, some rnd =>
      match sendMessage st.s pl rnd with
      | .ok o => ({ st with s := o.st }, toHexTok o.wire)
      | .error e => (st, "err:" ++ errName e)
    | _, _ => (st, "bad-op")
  | ["sendw", pl, rnd, ws] =>
    match ofHex? pl, ofHex? rnd, parseWSched ws with
    | some pl, some rnd, some ws =>
      match sendMessage st.s pl rnd with
      | .ok o => ({ st with s := o.st }, showW (writeAll ws o.wire 0 []))
      | .error e => (st, "err:" ++ errName e)
    | _, _, _ => (st, "bad-op")
  | ["feed", h] =>
    match ofHex? h with
    | some b => ({ st with data := st.data ++ b }, "ok")
    | none => (st, "bad-op")
  | ["rem", h] =>
    match ofHex? h with
    | some b => ({ st with rem := b }, "ok")
    | none => (st, "bad-op")
  | ["read", sc] =>
    match parseSched sc with
    | some sc =>
      match readRetryCount st.r (sc.length + 1) 0 ⟨st.rem, st.data, sc⟩ with
      | (.ok o sk, n) =>
        match account st.lim st.k o.raw with
        | .ok k' => ({ st with r := o.st, rem := sk.rem, data := sk.data, k := k' }, showMsg o.msg ++ " " ++ toString n)
        | .error e => ({ st with r := o.st, rem := sk.rem, data := sk.data }, "err:" ++ errName e)
      | (.err e, _) => (st, "err:" ++ errName e)
      | (.rekey _, _) => (st, "err:rekey-loop")
    | none => (st, "bad-op")
  | ["readall", n, cr, sc] =>
    match intOfString? n, bool? cr, parseSched sc with
    | some n, some cr, some sc =>
      match readAll ⟨st.rem, st.data, sc⟩ n cr with
      | .ok b sk => ({ st with rem := sk.rem, data := sk.data }, toHexTok b)
      | .err e => (st, "err:" ++ errName e)
      | .rekey sk => ({ st with rem := sk.rem, data := sk.data }, "rekey")
    | _, _, _ => (st, "bad-op")
  | _ => (st, "bad-op")

end PV.Packet
