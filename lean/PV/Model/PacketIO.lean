/-
  PV.Model.PacketIO — text encoding of toy packetizer configurations for the line-protocol drivers
  (C01, C02, C03).  cfg tokens:
    plain:<block>
    classic:<block>:<maclen>:<sdctr 0|1>:<k>:<pos>:<mackeyhex>
    etm:<block>:<maclen>:<sdctr 0|1>:<k>:<pos>:<mackeyhex>
    aead:<block>:<maclen>:<sdctr 0|1>:<k>:<ivhex>
-/
import PV.Model.Packet
import PV.Base.DriverIO
namespace PV.Packet
open PV

def errName : Err → String
  | .eof => "eof" | .badBlocking => "badBlocking" | .macMismatch => "macMismatch"
  | .invalidTag => "invalidTag" | .seqRollover => "seqRollover" | .indexError => "indexError"
  | .structError => "structError" | .overflow => "overflow" | .decompress => "decompress"
  | .zeroDiv => "zeroDiv"

def bool? (s : String) : Option Bool :=
  if s == "1" then some true else if s == "0" then some false else none

structure Cfg where
  block : Nat
  macLen : Nat
  sdctr : Bool
  out : OutC toyPrims
  inn : InC toyPrims

def parseCfg (t : String) : Option Cfg :=
  match t.splitOn ":" with
  | ["plain", b] => b.toNat?.map fun b => ⟨b, 0, false, .plain, .plain⟩
  | [kind, b, m, sd, k, pos, mk] =>
    match b.toNat?, m.toNat?, bool? sd, k.toNat?, pos.toNat?, ofHex? mk with
    | some b, some m, some sd, some k, some pos, some mk =>
      if kind == "classic" then some ⟨b, m, sd, .classic (k, pos) mk, .classic (k, pos) mk⟩
      else if kind == "etm" then some ⟨b, m, sd, .etm (k, pos) mk, .etm (k, pos) mk⟩
      else none
    | _, _, _, _, _, _ => none
  | ["aead", b, m, sd, k, iv] =>
    match b.toNat?, m.toNat?, bool? sd, k.toNat?, ofHex? iv with
    | some b, some m, some sd, some k, some iv => some ⟨b, m, sd, .aead k iv, .aead k iv⟩
    | _, _, _, _, _ => none
  | _ => none

/-- `-` = no compressor, otherwise the toy compressor state -/
def parseZ (t : String) : Option (Option Nat) :=
  if t == "-" then some none else t.toNat?.map some

def showMsg (m : Msg) : String :=
  "ok " ++ toString m.cmd.toNat ++ " " ++ toHexTok m.payload ++ " " ++ toString m.seqno

end PV.Packet
