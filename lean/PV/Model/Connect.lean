/-
  PV.Model.Connect — executable model of the decisions `Transport.connect` takes once `start_client()`
  has returned: compare the server's host key with the one the caller pinned (`hostkey=`), then
  authenticate with whatever credentials were passed.  Mathlib-free.
-/
import PV.Base.Bytes
namespace PV.Connect
open PV

inductive AuthKind | gssMic | gssKeyex | publickey | password
  deriving DecidableEq, Repr

inductive Out
  | raised                 -- start_client() failed, or SSHException("Bad host key from server")
  | auth (k : AuthKind)    -- host key accepted (or not pinned); this auth_* method is called
  | noAuth                 -- host key accepted (or not pinned); returns without authenticating
  deriving DecidableEq, Repr

/-- a host key as `connect` compares it: `get_name()` and `asbytes()` -/
structure HostKey where
  name : Bytes
  blob : Bytes
  deriving DecidableEq, Repr

structure Opts where
  hostkey : Option HostKey      -- `hostkey=` (None = do not check)
  pkey : Bool                   -- `pkey is not None`
  password : Bool               -- `password is not None`
  gssAuth : Bool
  gssKex : Bool
  deriving DecidableEq, Repr

/-- the authentication part of `connect` -/
def authStep (o : Opts) : Out :=
  if o.pkey ∨ o.password ∨ o.gssAuth ∨ o.gssKex then
    if o.gssAuth then .auth .gssMic
    else if o.gssKex then .auth .gssKeyex
    else if o.pkey then .auth .publickey
    else .auth .password
  else .noAuth

/-- `Transport.connect`; `startOk` = `start_client()` returned, `server` = `get_remote_server_key()` -/
def connect (o : Opts) (startOk : Bool) (server : HostKey) : Out :=
  if ¬ startOk then .raised
  else match o.hostkey with
    | some hk =>
      if ¬ o.gssKex ∧ (server.name ≠ hk.name ∨ server.blob ≠ hk.blob) then .raised else authStep o
    | none => authStep o

end PV.Connect
