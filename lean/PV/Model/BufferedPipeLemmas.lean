/-
  Helper lemmas for PV.Model.BufferedPipe (per-step effect on buffer, log and waiters).
-/
import PV.Model.BufferedPipe
namespace PV.BufferedPipe
open PV

@[simp] theorem clearEvent_buf (s : St) : (clearEvent s).buf = s.buf := by
  unfold clearEvent; split <;> (try split) <;> rfl
@[simp] theorem clearEvent_log (s : St) : (clearEvent s).log = s.log := by
  unfold clearEvent; split <;> (try split) <;> rfl
@[simp] theorem clearEvent_closed (s : St) : (clearEvent s).closed = s.closed := by
  unfold clearEvent; split <;> (try split) <;> rfl
@[simp] theorem clearEvent_waiting (s : St) : (clearEvent s).waiting = s.waiting := by
  unfold clearEvent; split <;> (try split) <;> rfl
@[simp] theorem setEventFlag_buf (s : St) : (setEventFlag s).buf = s.buf := by
  unfold setEventFlag; split <;> rfl
@[simp] theorem setEventFlag_log (s : St) : (setEventFlag s).log = s.log := by
  unfold setEventFlag; split <;> rfl
@[simp] theorem setEventFlag_closed (s : St) : (setEventFlag s).closed = s.closed := by
  unfold setEventFlag; split <;> rfl
@[simp] theorem setEventFlag_waiting (s : St) : (setEventFlag s).waiting = s.waiting := by
  unfold setEventFlag; split <;> rfl

@[simp] theorem ite_setEventFlag_log (c : Prop) [Decidable c] (s : St) :
    (if c then s else setEventFlag s).log = s.log := by split <;> simp
@[simp] theorem ite_setEventFlag_buf (c : Prop) [Decidable c] (s : St) :
    (if c then s else setEventFlag s).buf = s.buf := by split <;> simp
@[simp] theorem ite_setEventFlag_closed (c : Prop) [Decidable c] (s : St) :
    (if c then s else setEventFlag s).closed = s.closed := by split <;> simp
@[simp] theorem ite_setEventFlag_waiting (c : Prop) [Decidable c] (s : St) :
    (if c then s else setEventFlag s).waiting = s.waiting := by split <;> simp

@[simp] theorem dropWaiter_buf (s : St) (t : Nat) : (dropWaiter s t).buf = s.buf := rfl
@[simp] theorem dropWaiter_log (s : St) (t : Nat) : (dropWaiter s t).log = s.log := rfl
@[simp] theorem dropWaiter_closed (s : St) (t : Nat) : (dropWaiter s t).closed = s.closed := rfl

@[simp] theorem takenOf_append (a b : List Ev) : takenOf (a ++ b) = takenOf a ++ takenOf b := by
  simp [takenOf]
@[simp] theorem fedOf_append (a b : List Ev) : fedOf (a ++ b) = fedOf a ++ fedOf b := by
  simp [fedOf]
@[simp] theorem takenOf_single (e : Ev) : takenOf [e] = e.taken := by simp [takenOf]
@[simp] theorem fedOf_single (e : Ev) : fedOf [e] = e.fedBytes := by simp [fedOf]

/-- `deliver` moves a prefix of the buffer into the log and feeds nothing -/
theorem deliver_taken (s : St) (tid n : Nat) :
    takenOf (deliver s tid n).log ++ (deliver s tid n).buf = takenOf s.log ++ s.buf := by
  unfold deliver
  split
  · simp [Ev.taken]
  · simp [Ev.taken, List.append_assoc]

theorem deliver_fed (s : St) (tid n : Nat) : fedOf (deliver s tid n).log = fedOf s.log := by
  unfold deliver
  split <;> simp [Ev.fedBytes]

@[simp] theorem deliver_closed (s : St) (tid n : Nat) : (deliver s tid n).closed = s.closed := by
  unfold deliver; split <;> simp

@[simp] theorem deliver_waiting (s : St) (tid n : Nat) : (deliver s tid n).waiting = s.waiting := by
  unfold deliver; split <;> simp

theorem wakeWith_taken (f : Bool) (s : St) (w : Waiter) (e : Int) :
    takenOf (wakeWith f s w e).log ++ (wakeWith f s w e).buf = takenOf s.log ++ s.buf := by
  unfold wakeWith
  simp only []
  split
  · split
    · rw [deliver_taken]; simp
    · simp [raiseTimeout, Ev.taken]
  · split
    · simp
    · rw [deliver_taken]; simp

theorem wakeWith_fed (f : Bool) (s : St) (w : Waiter) (e : Int) :
    fedOf (wakeWith f s w e).log = fedOf s.log := by
  unfold wakeWith
  simp only []
  split
  · split
    · rw [deliver_fed]; simp
    · simp [raiseTimeout, Ev.fedBytes]
  · split
    · simp
    · rw [deliver_fed]; simp

/-- one step: what was taken plus what is buffered grows exactly by what the step fed -/
theorem step_taken (f : Bool) (s : St) (a : Act) :
    takenOf (stepG f s a).log ++ (stepG f s a).buf = takenOf s.log ++ s.buf ++ a.fedBytes := by
  cases a with
  | feed d => by_cases hd : d = [] <;> simp [stepG, Ev.taken, Act.fedBytes, List.append_assoc, hd]
  | read tid n t =>
    simp only [stepG, Act.fedBytes, List.append_nil]
    split
    · rfl
    · split
      · split
        · simp [Ev.taken]
        · split
          · simp [raiseTimeout, Ev.taken]
          · rfl
      · exact deliver_taken s tid n
  | wake tid e =>
    simp only [stepG, Act.fedBytes, List.append_nil]
    split
    · rfl
    · exact wakeWith_taken f s _ e
  | empty tid =>
    simp only [stepG, Act.fedBytes, List.append_nil]
    split
    · rfl
    · simp [Ev.taken]
  | close => simp [stepG, Ev.taken, Act.fedBytes]
  | setEvent => simp [stepG, Act.fedBytes]

theorem step_fed (f : Bool) (s : St) (a : Act) :
    fedOf (stepG f s a).log = fedOf s.log ++ a.fedBytes := by
  cases a with
  | feed d => by_cases hd : d = [] <;> simp [stepG, Ev.fedBytes, Act.fedBytes, hd]
  | read tid n t =>
    simp only [stepG, Act.fedBytes, List.append_nil]
    split
    · rfl
    · split
      · split
        · simp [Ev.fedBytes]
        · split
          · simp [raiseTimeout, Ev.fedBytes]
          · rfl
      · exact deliver_fed s tid n
  | wake tid e =>
    simp only [stepG, Act.fedBytes, List.append_nil]
    split
    · rfl
    · exact wakeWith_fed f s _ e
  | empty tid =>
    simp only [stepG, Act.fedBytes, List.append_nil]
    split
    · rfl
    · simp [Ev.fedBytes]
  | close => simp [stepG, Ev.fedBytes, Act.fedBytes]
  | setEvent => simp [stepG, Act.fedBytes]

theorem run_taken (f : Bool) (s : St) (acts : List Act) :
    takenOf (runG f s acts).log ++ (runG f s acts).buf = takenOf s.log ++ s.buf ++ fedOfActs acts := by
  induction acts generalizing s with
  | nil => simp [runG, fedOfActs]
  | cons a as ih =>
    have := ih (stepG f s a)
    simp only [runG, List.foldl_cons] at this ⊢
    rw [this, step_taken]
    simp [fedOfActs, List.append_assoc]

theorem run_fed (f : Bool) (s : St) (acts : List Act) :
    fedOf (runG f s acts).log = fedOf s.log ++ fedOfActs acts := by
  induction acts generalizing s with
  | nil => simp [runG, fedOfActs]
  | cons a as ih =>
    have := ih (stepG f s a)
    simp only [runG, List.foldl_cons] at this ⊢
    rw [this, step_fed]
    simp [fedOfActs, List.append_assoc]

/-! ## waiters keep `n ≥ 1` -/

theorem findWaiter_mem (s : St) (tid : Nat) (w : Waiter) (h : findWaiter s tid = some w) : w ∈ s.waiting := by
  unfold findWaiter at h
  exact List.mem_of_find?_eq_some h

theorem waitersOk_step (f : Bool) (s : St) (a : Act) (hs : WaitersOk s) (ha : a.sizeOk) :
    WaitersOk (stepG f s a) := by
  cases a with
  | feed d => intro w hw; by_cases hd : d = [] <;> simp [stepG, hd] at hw <;> exact hs w hw
  | read tid n t =>
    simp only [Act.sizeOk] at ha
    simp only [stepG]
    split
    · exact hs
    · split
      · split
        · exact hs
        · split
          · exact hs
          · intro w hw
            simp at hw
            rcases hw with hw | hw
            · exact hs w hw
            · subst hw; exact ha
      · intro w hw; simp at hw; exact hs w hw
  | wake tid e =>
    simp only [stepG]
    split
    · exact hs
    · rename_i w0 hf
      have hw0 : 1 ≤ w0.n := hs w0 (findWaiter_mem s tid w0 hf)
      have hdrop : ∀ w ∈ (dropWaiter s w0.tid).waiting, 1 ≤ w.n := by
        intro w hw
        simp [dropWaiter] at hw
        exact hs w hw.1
      unfold wakeWith
      simp only []
      split
      · split
        · intro w hw; simp at hw; exact hdrop w hw
        · intro w hw; simp [raiseTimeout] at hw; exact hdrop w hw
      · split
        · intro w hw
          simp at hw
          rcases hw with hw | hw
          · exact hdrop w hw
          · subst hw; exact hw0
        · intro w hw; simp at hw; exact hdrop w hw
  | empty tid =>
    simp only [stepG]
    split
    · exact hs
    · intro w hw; simp at hw; exact hs w hw
  | close => intro w hw; simp [stepG] at hw; exact hs w hw
  | setEvent => intro w hw; simp [stepG] at hw; exact hs w hw

theorem waitersOk_run (f : Bool) (s : St) (acts : List Act) (hs : WaitersOk s) (ha : ∀ a ∈ acts, a.sizeOk) :
    WaitersOk (runG f s acts) := by
  induction acts generalizing s with
  | nil => exact hs
  | cons a as ih =>
    simp only [runG, List.foldl_cons]
    exact ih _ (waitersOk_step f s a hs (ha a (by simp))) (fun x hx => ha x (by simp [hx]))

end PV.BufferedPipe

namespace PV.BufferedPipe
open PV

/-! ## the attached event mirrors "closed or data buffered" at every lock-free point -/

/-- `event.is_set()` ⇔ closed ∨ buffer non-empty (when an event is attached) -/
def EvOk (s : St) : Prop := ∀ b, s.event = some b → b = (s.closed || !s.buf.isEmpty)

theorem evOk_clearEvent_nil (s : St) (h : EvOk s) : EvOk (clearEvent { s with buf := [] }) := by
  intro b hb
  unfold clearEvent at hb
  cases he : s.event with
  | none => simp [he] at hb
  | some b0 =>
    have h0 := h b0 he
    simp only [he] at hb
    cases hc : s.closed with
    | true =>
      simp [hc] at hb
      subst hb
      simp [hc] at h0 ⊢
      exact h0
    | false =>
      simp [hc] at hb
      subst hb
      simp

theorem evOk_deliver (s : St) (tid n : Nat) (h : EvOk s) : EvOk (deliver s tid n) := by
  unfold deliver
  split
  · intro b hb
    exact evOk_clearEvent_nil s h b (by simpa using hb)
  · rename_i hlen
    intro b hb
    simp only [] at hb ⊢
    have h0 := h b hb
    have hne : s.buf ≠ [] := by intro e; simp [e] at hlen
    have hd : s.buf.drop n ≠ [] := by
      intro e
      have := congrArg List.length e
      simp at this
      omega
    have e1 : s.buf.isEmpty = false := by simpa using hne
    have e2 : (s.buf.drop n).isEmpty = false := by simpa using hd
    rw [h0, e1, e2]

theorem evOk_congr (s s' : St) (h : EvOk s) (he : s'.event = s.event) (hb : s'.buf = s.buf) (hc : s'.closed = s.closed) :
    EvOk s' := by
  intro b hb'
  rw [he] at hb'
  rw [hb, hc]
  exact h b hb'

theorem evOk_wakeWith (s : St) (w : Waiter) (e : Int) (h : EvOk s) : EvOk (wakeWith true s w e) := by
  have h0 : EvOk (dropWaiter s w.tid) := evOk_congr s _ h rfl rfl rfl
  unfold wakeWith
  simp only []
  split
  · split
    · exact evOk_deliver _ _ _ h0
    · exact evOk_congr _ _ h0 rfl rfl rfl
  · split
    · exact evOk_congr _ _ h0 rfl rfl rfl
    · exact evOk_deliver _ _ _ h0

theorem evOk_step (s : St) (a : Act) (h : EvOk s) : EvOk (step s a) := by
  cases a with
  | feed d =>
    simp only [step, stepG]
    by_cases hd : d = []
    · subst hd
      simp only [List.isEmpty_nil, if_true, List.append_nil]
      exact evOk_congr s _ h rfl rfl rfl
    · have hd' : d.isEmpty = false := by simpa using hd
      simp only [hd', Bool.false_eq_true, if_false]
      intro b hb
      unfold setEventFlag at hb ⊢
      cases he : s.event with
      | none => simp [he] at hb
      | some b0 =>
        simp [he] at hb
        subst hb
        simp [hd]
  | read tid n t =>
    simp only [step, stepG]
    split
    · exact h
    · split
      · split
        · exact evOk_congr s _ h rfl rfl rfl
        · split
          · exact evOk_congr s _ h rfl rfl rfl
          · exact evOk_congr s _ h rfl rfl rfl
      · exact evOk_deliver s tid n h
  | wake tid e =>
    simp only [step, stepG]
    split
    · exact h
    · exact evOk_wakeWith s _ e h
  | empty tid =>
    simp only [step, stepG]
    split
    · exact h
    · intro b hb
      exact evOk_clearEvent_nil s h b (by simpa using hb)
  | close =>
    simp only [step, stepG]
    intro b hb
    unfold setEventFlag at hb
    cases he : s.event with
    | none => simp [he] at hb
    | some b0 =>
      simp [he] at hb
      subst hb
      simp [setEventFlag]
  | setEvent =>
    simp only [step, stepG]
    intro b hb
    simp at hb
    subst hb
    simp

theorem evOk_run (s : St) (acts : List Act) (h : EvOk s) : EvOk (run s acts) := by
  induction acts generalizing s with
  | nil => exact h
  | cons a rest ih => exact ih _ (evOk_step s a h)

end PV.BufferedPipe
