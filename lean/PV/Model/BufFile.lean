/-
  PV.Model.BufFile — executable model of paramiko/file.py `BufferedFile` (binary and text mode,
  every buffering mode; the universal-newline flag 'U' is NOT modelled) over an abstract
  underlying stream given by `Ops` (`_read`, `_write`).  Statement-by-statement mirror of the
  current code, including what state is left behind when the underlying stream raises.

  Instances: `Chan`/`chanOps` (a byte stream that delivers SHORT reads and accepts SHORT writes
  according to an arbitrary grant list = "however the stream delivers its bytes"; used for C42)
  and the SFTP client file over a server-side file (PV.Model.SftpFile; used for C27).
  Mathlib-free, total.
-/
import PV.Base.Bytes
namespace PV.BufFile
open PV

def LF : UInt8 := 10

/-- Error kinds (exception class → small enum). -/
inductive Err
  | closed        -- IOError("File is closed")
  | notReadable   -- IOError("File is not open for reading")
  | notWritable   -- IOError("File not open for writing")
  | notSeekable   -- IOError("File does not support seeking.")
  | fuel          -- cannot happen for lawful streams (proved): loop bound exhausted
  | stall         -- `_write` accepted 0 bytes: `_write_all` would loop forever
  | stream (code : Nat)   -- raised by the underlying `_read` / `_write` (class code chosen by the instance)
  deriving DecidableEq, Repr

/-- The subclass hooks.  `read s realpos n`: `_read(n)`; the empty string stands for every way
    of signalling EOF (`None`, `EOFError`, `b""`).  `write s realpos data`: `_write(data)` → count.
    `bound s realpos`: an upper bound on the number of consecutive non-empty `_read`s (loop fuel). -/
structure Ops (σ : Type) where
  read  : σ → Int → Nat → σ × Except Err Bytes
  write : σ → Int → Bytes → σ × Except Err Nat
  bound : σ → Int → Nat
  seekable : Bool := false     -- `seekable()`: False for BufferedFile/ChannelFile, True for SFTPFile

/-- `BufferedFile` instance attributes (`_flags` split into booleans). -/
structure BF (σ : Type) where
  s : σ
  rd : Bool := false
  wr : Bool := false
  app : Bool := false
  bin : Bool := false
  buffered : Bool := false
  lineBuf : Bool := false
  bufsize : Nat := 8192
  dflt : Nat := 8192          -- `_DEFAULT_BUFSIZE`
  rbuf : Bytes := []
  wbuf : Bytes := []
  pos : Int := 0
  realpos : Int := 0
  size : Int := 0
  closed : Bool := false

abbrev Res (σ : Type) (α : Type) := BF σ × Except Err α

/-- first half of `_set_mode`: the buffering flags -/
def setBuf {σ : Type} (f : BF σ) (bufsize : Int) : BF σ :=
  let f := { f with bufsize := f.dflt }
  let bufsize := if bufsize < 0 then 0 else bufsize
  if bufsize == 1 then { f with buffered := true, lineBuf := true }
  else if bufsize > 1 then { f with bufsize := bufsize.toNat, buffered := true, lineBuf := false }
  else { f with buffered := false, lineBuf := false }

/-- second half of `_set_mode`: the mode letters; `sz` is what `_get_size()` returns (append mode only) -/
def setFlags {σ : Type} (f : BF σ) (mode : List Char) (sz : Int) : BF σ :=
  let f := if mode.contains 'r' || mode.contains '+' then { f with rd := true } else f
  let f := if mode.contains 'w' || mode.contains '+' then { f with wr := true } else f
  let f := if mode.contains 'a' then { f with wr := true, app := true, size := sz, pos := sz, realpos := sz } else f
  if mode.contains 'b' then { f with bin := true } else f

/-- `_set_mode(mode, bufsize)` -/
def setMode {σ : Type} (f : BF σ) (mode : List Char) (bufsize : Int) (sz : Int) : BF σ :=
  setFlags (setBuf f bufsize) mode sz

/-! ## `_write_all` and `flush` (used by the read calls of seekable files too) -/

/-- `_write_all` -/
def writeAllLoop {σ : Type} (o : Ops σ) : Nat → BF σ → Bytes → Res σ Unit
  | 0, f, _ => (f, .error .fuel)
  | fuel+1, f, data =>
    if data.isEmpty then (f, .ok ())
    else match o.write f.s f.realpos data with
      | (s', .error e) => ({ f with s := s' }, .error e)
      | (s', .ok count) =>
        if count == 0 then ({ f with s := s' }, .error .stall)
        else
          let f := { f with s := s' }
          let f := if f.app then { f with size := f.size + count, pos := f.size + count, realpos := f.size + count }
                   else { f with pos := f.pos + count, realpos := f.realpos + count }
          writeAllLoop o fuel f (data.drop count)

/-- `_write_all`: on a seekable file, read-ahead is dropped first (position back to the caller's) -/
def dropReadAhead {σ : Type} (o : Ops σ) (f : BF σ) (data : Bytes) : BF σ :=
  if !data.isEmpty && !f.rbuf.isEmpty && o.seekable then { f with rbuf := [], realpos := f.pos } else f

def writeAll {σ : Type} (o : Ops σ) (f : BF σ) (data : Bytes) : Res σ Unit :=
  writeAllLoop o (data.length + 1) (dropReadAhead o f data) data

/-- `flush()` (note: no closed / writable test in the code) -/
def flush {σ : Type} (o : Ops σ) (f : BF σ) : Res σ Unit :=
  match writeAll o f f.wbuf with
  | (f, .error e) => (f, .error e)
  | (f, .ok ()) => ({ f with wbuf := [] }, .ok ())

/-- read()/readline() on a seekable file flush pending writes first -/
def syncForRead {σ : Type} (o : Ops σ) (f : BF σ) : Res σ Unit :=
  if !f.wbuf.isEmpty && o.seekable then flush o f else (f, .ok ())

/-! ## reading -/

/-- the `while True` loop of `read()` with no / negative size -/
def readAllLoop {σ : Type} (o : Ops σ) : Nat → BF σ → Bytes → Res σ Bytes
  | 0, f, _ => (f, .error .fuel)
  | fuel+1, f, acc =>
    match o.read f.s f.realpos f.dflt with
    | (s', .error e) =>
      -- nothing is returned: what was fetched so far goes back into the read-ahead
      ({ f with s := s', rbuf := acc, pos := f.pos - acc.length }, .error e)
    | (s', .ok d) =>
      if d.isEmpty then ({ f with s := s' }, .ok acc)
      else readAllLoop o fuel
        { f with s := s', realpos := f.realpos + d.length, pos := f.pos + d.length } (acc ++ d)

/-- the `while len(self._rbuffer) < size` loop of `read(size)` -/
def readFillLoop {σ : Type} (o : Ops σ) (size : Nat) : Nat → BF σ → Res σ Unit
  | 0, f => (f, .error .fuel)
  | fuel+1, f =>
    if f.rbuf.length < size then
      let want := size - f.rbuf.length
      let want := if f.buffered then max f.bufsize want else want
      match o.read f.s f.realpos want with
      | (s', .error e) => ({ f with s := s' }, .error e)
      | (s', .ok d) =>
        if d.isEmpty then ({ f with s := s' }, .ok ())
        else readFillLoop o size fuel
          { f with s := s', rbuf := f.rbuf ++ d, realpos := f.realpos + d.length }
    else (f, .ok ())

/-- `read(size)`; `none` = omitted or negative. -/
def read {σ : Type} (o : Ops σ) (f : BF σ) (size : Option Nat) : Res σ Bytes :=
  if f.closed then (f, .error .closed)
  else if !f.rd then (f, .error .notReadable)
  else match syncForRead o f with
  | (f, .error e) => (f, .error e)
  | (f, .ok ()) =>
  match size with
  | none =>
    let acc := f.rbuf
    let f := { f with rbuf := [], pos := f.pos + acc.length }
    readAllLoop o (o.bound f.s f.realpos + 1) f acc
  | some n =>
    if n ≤ f.rbuf.length then
      ({ f with rbuf := f.rbuf.drop n, pos := f.pos + (f.rbuf.take n).length }, .ok (f.rbuf.take n))
    else
      match readFillLoop o n (o.bound f.s f.realpos + 1) f with
      | (f, .error e) => (f, .error e)
      | (f, .ok ()) =>
        ({ f with rbuf := f.rbuf.drop n, pos := f.pos + (f.rbuf.take n).length }, .ok (f.rbuf.take n))

/-- how the `while True` loop of `readline` is left -/
inductive RL
  | eof (line : Bytes)                      -- EOF: `_rbuffer` emptied, `_pos` advanced, line returned
  | brk (line : Bytes) (truncated : Bool)   -- `break`

/-- "check size before looking for a linefeed": `none` = the line is already long enough (truncate);
    `some n` = go on, the next `_read` asks for `n` bytes -/
def rlLimit (size : Option Nat) (bufsize : Nat) (line : Bytes) : Option Nat :=
  match size with
  | some sz => if line.length ≥ sz then none else some (sz - line.length)
  | none => some bufsize

def readlineLoop {σ : Type} (o : Ops σ) (size : Option Nat) : Nat → BF σ → Bytes → Res σ RL
  | 0, f, _ => (f, .error .fuel)
  | fuel+1, f, line =>
    match rlLimit size f.bufsize line with
    | none =>
      let sz := size.getD 0
      ({ f with rbuf := line.drop sz }, .ok (.brk (line.take sz) true))
    | some n =>
      if line.contains LF then (f, .ok (.brk line false))
      else match o.read f.s f.realpos n with
        | (s', .error e) => ({ f with s := s', rbuf := line }, .error e)   -- fetched data kept as read-ahead
        | (s', .ok d) =>
          if d.isEmpty then
            ({ f with s := s', rbuf := [], pos := f.pos + line.length }, .ok (.eof line))
          else readlineLoop o size fuel
            { f with s := s', realpos := f.realpos + d.length } (line ++ d)

/-- the code after the loop ("find the newline") -/
def readlinePost {σ : Type} (r : Res σ RL) : Res σ Bytes :=
  match r with
  | (f, .error e) => (f, .error e)
  | (f, .ok (.eof line)) => (f, .ok line)
  | (f, .ok (.brk line tr)) =>
    if !line.contains LF then ({ f with pos := f.pos + line.length }, .ok line)
    else
      let xpos := line.idxOf LF + 1
      let out := line.take (line.idxOf LF) ++ [LF]
      ({ f with rbuf := if tr then line.drop xpos ++ f.rbuf else line.drop xpos,
                pos := f.pos + out.length }, .ok out)

/-- `readline(size)`; `none` = omitted or negative. -/
def readline {σ : Type} (o : Ops σ) (f : BF σ) (size : Option Nat) : Res σ Bytes :=
  if f.closed then (f, .error .closed)
  else if !f.rd then (f, .error .notReadable)
  else match syncForRead o f with
  | (f, .error e) => (f, .error e)
  | (f, .ok ()) => readlinePost (readlineLoop o size (o.bound f.s f.realpos + 1) f f.rbuf)

/-- `(sizehint is not None) and (byte_count >= sizehint)` -/
def rlStop (hint : Option Int) (count : Nat) : Bool :=
  match hint with | some h => decide ((count : Int) ≥ h) | none => false

/-- `readlines(sizehint)`: `hint = none` for an omitted hint; an `Int` otherwise (the code compares
    `byte_count >= sizehint`, so a hint ≤ 0 stops after the first line).  `n` bounds the number of lines. -/
def readlinesLoop {σ : Type} (o : Ops σ) (hint : Option Int) : Nat → BF σ → List Bytes → Nat → Res σ (List Bytes)
  | 0, f, _, _ => (f, .error .fuel)
  | fuel+1, f, acc, count =>
    match readline o f none with
    | (f, .error e) => (f, .error e)
    | (f, .ok l) =>
      if l.isEmpty then (f, .ok acc)
      else
        if rlStop hint (count + l.length) then (f, .ok (acc ++ [l]))
        else readlinesLoop o hint fuel f (acc ++ [l]) (count + l.length)

/-- The loop bound is computed after the flush that the first `readline` performs on a seekable file (the
    flush may change what is left to read); on a closed / unreadable file that first `readline` raises. -/
def readlines {σ : Type} (o : Ops σ) (f : BF σ) (hint : Option Int) : Res σ (List Bytes) :=
  if f.closed || !f.rd then readlinesLoop o hint 1 f [] 0
  else match syncForRead o f with
    | (g, .error e) => (g, .error e)
    | (g, .ok ()) => readlinesLoop o hint (g.rbuf.length + o.bound g.s g.realpos + 1) g [] 0

/-- `__next__`: `none` = StopIteration -/
def next {σ : Type} (o : Ops σ) (f : BF σ) : Res σ (Option Bytes) :=
  match readline o f none with
  | (f, .error e) => (f, .error e)
  | (f, .ok l) => (f, .ok (if l.isEmpty then none else some l))

/-- `list(f)` / a `for` loop run to its end: `__iter__` (raises ValueError on a closed file), then
    `__next__` until StopIteration. -/
def iterLoop {σ : Type} (o : Ops σ) : Nat → BF σ → List Bytes → Res σ (List Bytes)
  | 0, f, _ => (f, .error .fuel)
  | fuel+1, f, acc =>
    match next o f with
    | (f, .error e) => (f, .error e)
    | (f, .ok none) => (f, .ok acc)
    | (f, .ok (some l)) => iterLoop o fuel f (acc ++ [l])

def iterAll {σ : Type} (o : Ops σ) (f : BF σ) : Res σ (List Bytes) :=
  if f.closed then (f, .error .closed)
  else iterLoop o (f.rbuf.length + o.bound f.s f.realpos + 1) f []

/-! ## writing -/

/-- index of the last LF, if any (`data.rfind(b"\n")`) -/
def rfindLF (data : Bytes) : Option Nat :=
  if data.contains LF then some (data.length - 1 - data.reverse.idxOf LF) else none

def write {σ : Type} (o : Ops σ) (f : BF σ) (data : Bytes) : Res σ Unit :=
  if f.closed then (f, .error .closed)
  else if !f.wr then (f, .error .notWritable)
  else if !f.buffered then writeAll o f data
  else
    let f := { f with wbuf := f.wbuf ++ data }
    if f.lineBuf then
      match rfindLF data with
      | none => (f, .ok ())
      | some p =>
        let cut := p + (f.wbuf.length - data.length) + 1
        match writeAll o f (f.wbuf.take cut) with
        | (f, .error e) => (f, .error e)
        | (f', .ok ()) => ({ f' with wbuf := f.wbuf.drop cut }, .ok ())
    else if f.wbuf.length ≥ f.bufsize then flush o f
    else (f, .ok ())

/-- `BufferedFile.close()` -/
def close {σ : Type} (o : Ops σ) (f : BF σ) : Res σ Unit :=
  match flush o f with
  | (f, .error e) => (f, .error e)
  | (f, .ok ()) => ({ f with closed := true }, .ok ())

def tell {σ : Type} (f : BF σ) : Int := f.pos

/-- `writelines(seq)`: `write` each element; the first exception ends the loop -/
def writelines {σ : Type} (o : Ops σ) (f : BF σ) : List Bytes → Res σ Unit
  | [] => (f, .ok ())
  | d :: ds =>
    match write o f d with
    | (f, .error e) => (f, .error e)
    | (f, .ok ()) => writelines o f ds

/-! ## programs: the calls a user can make, and what each returns -/

inductive Op
  | read (size : Option Nat)        -- read(n); `none`: read() / read(None) / read(negative)
  | readline (size : Option Nat)
  | readlines (hint : Option Int)
  | next                            -- __next__
  | iter                            -- list(f)
  | write (data : Bytes)
  | writelines (ds : List Bytes)
  | flush
  | close
  | tell
  deriving Repr

inductive Out
  | bytes (b : Bytes)
  | lines (ls : List Bytes)
  | stop                            -- StopIteration
  | unit                            -- returned None
  | pos (z : Int)
  | err (e : Err)
  deriving Repr, DecidableEq

def outOf {σ α : Type} (k : α → Out) (r : Res σ α) : BF σ × Out :=
  match r with
  | (f, .ok a) => (f, k a)
  | (f, .error e) => (f, .err e)

def step {σ : Type} (o : Ops σ) (f : BF σ) : Op → BF σ × Out
  | .read n => outOf .bytes (read o f n)
  | .readline n => outOf .bytes (readline o f n)
  | .readlines h => outOf .lines (readlines o f h)
  | .next => outOf (fun x => match x with | none => .stop | some b => .bytes b) (next o f)
  | .iter => outOf .lines (iterAll o f)
  | .write d => outOf (fun _ => .unit) (write o f d)
  | .writelines ds => outOf (fun _ => .unit) (writelines o f ds)
  | .flush => outOf (fun _ => .unit) (flush o f)
  | .close => outOf (fun _ => .unit) (close o f)
  | .tell => (f, .pos (tell f))

def run {σ : Type} (o : Ops σ) : BF σ → List Op → BF σ × List Out
  | f, [] => (f, [])
  | f, op :: ops =>
    let r := step o f op
    let rs := run o r.1 ops
    (rs.1, r.2 :: rs.2)

/-- bytes an operation handed to the caller -/
def Out.got : Out → Bytes
  | .bytes b => b
  | .lines ls => ls.flatten
  | _ => []

/-! ## specification vocabulary for lines -/

/-- the first line of `p`: through the first LF, or all of `p` when there is none -/
def lineOf (p : Bytes) : Bytes := if p.contains LF then p.take (p.idxOf LF + 1) else p

/-- what `readline(size)` must return when `p` is still to come -/
def specLine (size : Option Nat) (p : Bytes) : Bytes :=
  match size with
  | none => lineOf p
  | some sz => lineOf (p.take sz)

/-! ## a byte stream with arbitrary short reads and short writes -/

/-- `inp`: bytes the stream will still deliver; `rg`: one grant per `_read` call (a grant `g`
    delivers at most `g+1` bytes; no grant left = as many as asked for); `out`: bytes accepted so
    far; `wg`: grants for `_write` in the same way. -/
structure Chan where
  inp : Bytes
  rg : List Nat
  out : Bytes := []
  wg : List Nat
  deriving Repr

def grant (g : List Nat) (n : Nat) : Nat := match g with | [] => n | k :: _ => min n (k + 1)

def chanOps : Ops Chan where
  read s _ n :=
    let k := grant s.rg n
    ({ s with inp := s.inp.drop k, rg := s.rg.tail }, .ok (s.inp.take k))
  write s _ data :=
    let k := grant s.wg data.length
    ({ s with out := s.out ++ data.take k, wg := s.wg.tail }, .ok k)
  bound s _ := s.inp.length

end PV.BufFile
