/-
  Helper lemmas for PV.Model.KeyDerive (kept apart from the property theorems in PV/Props/C04.lean).
-/
import PV.Model.KeyDerive
namespace PV.KeyDerive
open PV PV.Wire

variable (h : Hash) (K : Int) (H sid : Bytes) (X : UInt8)

theorem rfcStream_zero : rfcStream h K H sid X 0 = [] := by
  simp [rfcStream, rfcBlocks]

theorem rfcStream_one : rfcStream h K H sid X 1 = h.digest (firstInput K H sid X) := by
  simp [rfcStream, rfcBlocks, firstInput, prefixKH]

theorem rfcStream_succ (k : Nat) :
    rfcStream h K H sid X (k + 2)
      = rfcStream h K H sid X (k + 1) ++ h.digest (prefixKH K H ++ rfcStream h K H sid X (k + 1)) := by
  simp [rfcStream, rfcBlocks, prefixKH]

theorem rfcStream_length (hl : HashLaws h) (k : Nat) :
    (rfcStream h K H sid X k).length = k * h.size := by
  induction k with
  | zero => simp [rfcStream_zero]
  | succ k ih =>
    cases k with
    | zero => simp [rfcStream_one, hl.digest_len]
    | succ k =>
      rw [rfcStream_succ, List.length_append, ih, hl.digest_len]
      simp [Nat.add_mul]

theorem rfcStream_prefix_succ (k : Nat) :
    rfcStream h K H sid X k <+: rfcStream h K H sid X (k + 1) := by
  cases k with
  | zero => simp [rfcStream_zero]
  | succ k => rw [rfcStream_succ]; exact List.prefix_append _ _

theorem rfcStream_prefix {j k : Nat} (hjk : j ≤ k) :
    rfcStream h K H sid X j <+: rfcStream h K H sid X k := by
  induction hjk with
  | refl => exact List.prefix_refl _
  | step _ ih => exact List.IsPrefix.trans ih (rfcStream_prefix_succ h K H sid X _)

theorem take_of_prefix {α : Type} {l1 l2 : List α} (hp : l1 <+: l2) {n : Nat} (hn : n ≤ l1.length) :
    l2.take n = l1.take n := by
  obtain ⟨t, rfl⟩ := hp
  exact List.take_append_of_le_length hn

/-- Any two block counts that both cover `n` bytes give the same first `n` bytes. -/
theorem rfcStream_take_eq (hl : HashLaws h) {j k n : Nat}
    (hj : n ≤ j * h.size) (hk : n ≤ k * h.size) :
    (rfcStream h K H sid X j).take n = (rfcStream h K H sid X k).take n := by
  rcases Nat.le_total j k with hjk | hkj
  · exact (take_of_prefix (rfcStream_prefix h K H sid X hjk)
      (by rw [rfcStream_length h K H sid X hl]; exact hj)).symm
  · exact take_of_prefix (rfcStream_prefix h K H sid X hkj)
      (by rw [rfcStream_length h K H sid X hl]; exact hk)

/-- Loop invariant of `_compute_key`: `out` and `sofar` stay equal and are always
    `K1 ‖ … ‖ K(j+1)`; the loop stops with enough bytes or with the fuel used up. -/
theorem extend_inv (n : Nat) : ∀ (f j : Nat),
    ∃ j', j ≤ j' ∧
      extend h (prefixKH K H) f (rfcStream h K H sid X (j + 1)) (rfcStream h K H sid X (j + 1)) n
        = (rfcStream h K H sid X (j' + 1), rfcStream h K H sid X (j' + 1)) ∧
      (n ≤ (rfcStream h K H sid X (j' + 1)).length ∨ j' = j + f) ∧
      (j' = j ∨ (rfcStream h K H sid X j').length < n) := by
  intro f
  induction f with
  | zero => intro j; exact ⟨j, Nat.le_refl _, rfl, Or.inr rfl, Or.inl rfl⟩
  | succ f ih =>
    intro j
    by_cases hlt : (rfcStream h K H sid X (j + 1)).length < n
    · obtain ⟨j', hj, he, hd, hm⟩ := ih (j + 1)
      refine ⟨j', by omega, ?_, ?_, ?_⟩
      · rw [extend]; simp only [hlt, if_true]
        rw [← rfcStream_succ]; exact he
      · rcases hd with hd | hd
        · exact Or.inl hd
        · exact Or.inr (by omega)
      · rcases hm with hm | hm
        · subst hm; exact Or.inr hlt
        · exact Or.inr hm
    · refine ⟨j, Nat.le_refl _, ?_, Or.inl (by omega), Or.inl rfl⟩
      rw [extend]; simp only [hlt, if_false]

end PV.KeyDerive
