/-
  PV.Model.PacketTrunc — a receiver that has only a prefix of the stream behaves like the receiver with the whole
  stream until it runs out of bytes (EOF / "waits for more data"); no cryptographic assumption.
-/
import PV.Model.PacketRoundtrip
namespace PV.Packet
open PV

theorem runBuf_take {α : Type} (m : Rd α) : ∀ (buf : Bytes) (a : α) (rest : Bytes),
    runBuf m buf = .ok a rest → ∀ k : Nat,
      runBuf m (buf.take k) = .err .eof ∨ ∃ j, runBuf m (buf.take k) = .ok a (rest.take j) := by
  induction m with
  | ret x =>
    intro buf a rest h k
    simp only [runBuf] at h
    injection h with h1 h2
    subst h1; subst h2
    exact Or.inr ⟨k, rfl⟩
  | fail e => intro buf a rest h; simp [runBuf] at h
  | read n cr kk ih =>
    intro buf a rest h k
    unfold runBuf at h ⊢
    by_cases h0 : n ≤ 0
    · simp only [h0, if_true] at h ⊢
      exact ih [] buf a rest h k
    · simp only [h0, if_false] at h ⊢
      by_cases hl : n.toNat ≤ buf.length
      · simp only [hl, if_true] at h
        by_cases hk : n.toNat ≤ (buf.take k).length
        · simp only [hk, if_true]
          have hnk : n.toNat ≤ k := by rw [List.length_take] at hk; omega
          have e1 : (buf.take k).take n.toNat = buf.take n.toNat := by
            rw [List.take_take, Nat.min_eq_left hnk]
          have e2 : (buf.take k).drop n.toNat = (buf.drop n.toNat).take (k - n.toNat) := by
            rw [List.drop_take]
          rw [e1, e2]
          exact ih _ _ a rest h (k - n.toNat)
        · simp only [hk, if_false]
          exact Or.inl trivial
      · simp only [hl, if_false] at h
        cases h

/-- **Truncation / not-yet-arrived data.** Whatever prefix of the honest stream (followed by anything) the receiver
has, it delivers a prefix of the sent messages and then either has done all its reads or stops with EOF. -/
theorem truncated_seq {p : Prims} (W : Laws p) (ops : List (Op p)) :
    ∀ (s : Sender p) (r : Receiver p), PairedSt W s r → (∀ op ∈ ops, OpOk W op) →
    ∀ s' w log, sendAll s ops = .ok (s', w, log) → ∀ (t : Bytes) (k : Nat),
      (recvAll r ops ((w ++ t).take k)).msgs <+: msgsOf s.seq ops ∧
      ((recvAll r ops ((w ++ t).take k)).stop = none ∨ (recvAll r ops ((w ++ t).take k)).stop = some .eof) := by
  induction ops with
  | nil => intro s r _ _ s' w log _ t k; exact ⟨by simp [recvAll, msgsOf], Or.inl rfl⟩
  | cons op ops ih =>
    intro s r hp hok s' w log hs t k
    have hok' : ∀ op ∈ ops, OpOk W op := fun o ho => hok o (List.mem_cons_of_mem _ ho)
    have hop : OpOk W op := hok op (List.mem_cons_self ..)
    cases op with
    | msg d rnd =>
      simp only [sendAll] at hs
      cases hsm : sendMessage s d rnd with
      | error e => rw [hsm] at hs; cases hs
      | ok o =>
        rw [hsm] at hs
        simp only at hs
        cases hsa : sendAll o.st ops with
        | error e => rw [hsa] at hs; cases hs
        | ok res =>
          obtain ⟨s1, w1, l1⟩ := res
          rw [hsa] at hs
          simp only at hs
          have := Except.ok.inj hs
          simp only [Prod.mk.injEq] at this
          obtain ⟨h1, h2, h3⟩ := this
          subst h1; subst h2; subst h3
          obtain ⟨o', c, body, hd, hrun, hmsg, _, hp', _⟩ := roundtrip1 W hp hsm (w1 ++ t)
          have hseq' : o.st.seq = nextSeq s.seq := by
            obtain ⟨_, _, _, _, _, _, _, _, hst⟩ := sendMessage_ok hsm
            rw [hst]
          rw [← List.append_assoc] at hrun
          rcases runBuf_take _ _ _ _ hrun k with he | ⟨j, hj⟩
          · simp only [recvAll, he]
            exact ⟨List.nil_prefix, Or.inr trivial⟩
          · obtain ⟨i1, i2⟩ := ih o.st o'.st hp' hok' s1 w1 l1 hsa t j
            rw [hseq'] at i1
            simp only [recvAll, hj]
            rw [hd]
            simp only [msgsOf, List.singleton_append, hmsg]
            exact ⟨(List.cons_prefix_cons).2 ⟨rfl, i1⟩, i2⟩
    | setCipher b m sd co ci =>
      simp only [sendAll] at hs
      simp only [recvAll]
      have hp' : PairedSt W (s.setCipher b m sd co) (r.setCipher b m ci) :=
        ⟨rfl, rfl, hp.seq, hp.kex, hop.1, hop.2, hp.comp⟩
      exact ih _ _ hp' hok' s' w log hs t k
    | setComp zo zi =>
      simp only [sendAll] at hs
      simp only [recvAll]
      have hp' : PairedSt W { s with comp := zo } { r with decomp := zi } :=
        ⟨hp.block, hp.macLen, hp.seq, hp.kex, hp.blk4, hp.ciph, hop⟩
      exact ih _ _ hp' hok' s' w log hs t k
    | resetSeq =>
      simp only [sendAll] at hs
      simp only [recvAll]
      have hp' : PairedSt W { s with seq := 0 } { r with seq := 0 } :=
        ⟨hp.block, hp.macLen, rfl, hp.kex, hp.blk4, hp.ciph, hp.comp⟩
      have := ih _ _ hp' hok' s' w log hs t k
      simpa [msgsOf] using this
    | kexDone =>
      simp only [sendAll] at hs
      simp only [recvAll]
      have hp' : PairedSt W { s with kexDone := true } { r with kexDone := true } :=
        ⟨hp.block, hp.macLen, hp.seq, rfl, hp.blk4, hp.ciph, hp.comp⟩
      have := ih _ _ hp' hok' s' w log hs t k
      simpa [msgsOf] using this

end PV.Packet
