/-
  Helper lemmas for PV.Model.Sig (readers applied to exactly what the writers produced).
-/
import PV.Model.Sig
import PV.Base.WireLemmas
import PV.Props.C39
namespace PV.Sig
open PV PV.Wire PV.KeyUtf8

theorem getInt_exact (pre rest : Bytes) (n : Nat) (h : n < 4294967296) :
    Rd.getInt { content := pre ++ be32 n ++ rest, pos := pre.length }
      = (n, { content := pre ++ be32 n ++ rest, pos := pre.length + 4 }) := by
  have := getBytes_exact pre (be32 n) rest
  simp only [be32, beBytes_length] at this
  simp only [Rd.getInt, be32, this]
  rw [show beVal (beBytes 4 n) = n from beVal_be32 n h]

theorem getString_exact (pre s rest : Bytes) (h : s.length < 4294967296) :
    Rd.getString { content := pre ++ encStr s ++ rest, pos := pre.length }
      = (s, { content := pre ++ encStr s ++ rest, pos := pre.length + (encStr s).length }) := by
  unfold Rd.getString encStr
  have h1 := getInt_exact pre (s ++ rest) s.length h
  have e1 : pre ++ (be32 s.length ++ s) ++ rest = pre ++ be32 s.length ++ (s ++ rest) := by
    simp [List.append_assoc]
  rw [e1, h1]
  simp only
  have h2 := getBytes_exact (pre ++ be32 s.length) s rest
  have e2 : (pre ++ be32 s.length).length = pre.length + 4 := by simp [be32]
  rw [e2] at h2
  have e3 : pre ++ be32 s.length ++ (s ++ rest) = pre ++ be32 s.length ++ s ++ rest := by
    simp [List.append_assoc]
  rw [e3, h2]
  simp [be32]; omega

/-- first string of a message -/
theorem getString_head (s rest : Bytes) (h : s.length < 4294967296) :
    Rd.getString { content := encStr s ++ rest, pos := 0 }
      = (s, { content := encStr s ++ rest, pos := (encStr s).length }) := by
  have := getString_exact [] s rest h
  simpa using this

/-- second string of a message -/
theorem getString_second (a s rest : Bytes) (h : s.length < 4294967296) :
    Rd.getString { content := encStr a ++ encStr s ++ rest, pos := (encStr a).length }
      = (s, { content := encStr a ++ encStr s ++ rest, pos := (encStr a).length + (encStr s).length }) :=
  getString_exact (encStr a) s rest h

theorem getText_head (s rest : Bytes) (h : s.length < 4294967296) (hv : utf8Valid s = true) :
    getText { content := encStr s ++ rest, pos := 0 }
      = .ok (s, { content := encStr s ++ rest, pos := (encStr s).length }) := by
  unfold getText
  rw [getString_head s rest h]
  simp [hv]

theorem inflate_encMpintBody (z : Int) : inflate (if z = 0 then [] else deflate z) = z := by
  by_cases h : z = 0
  · subst h; rfl
  · simp only [h, if_false]; exact PV.Props.C39.inflate_deflate z

theorem encMpint_body_len (z : Int) : (if z = 0 then ([] : Bytes) else deflate z).length ≤ (deflate z).length := by
  split <;> simp

/-- `_sigdecode (_sigencode r s) = (r, s)` -/
theorem sigDecode_sigEncode (r s : Int)
    (hr : (deflate r).length < 4294967296) (hs : (deflate s).length < 4294967296) :
    sigDecode (sigEncode r s) = (r, s) := by
  unfold sigDecode sigEncode encMpint
  have hr' := Nat.lt_of_le_of_lt (encMpint_body_len r) hr
  have hs' := Nat.lt_of_le_of_lt (encMpint_body_len s) hs
  have h1 := getString_head (if r = 0 then [] else deflate r) (encStr (if s = 0 then [] else deflate s)) hr'
  have h2 := getString_second (if r = 0 then [] else deflate r) (if s = 0 then [] else deflate s) [] hs'
  simp only [List.append_nil] at h2
  simp only [h1, h2, inflate_encMpintBody]

theorem sigEncode_length (r s : Int) :
    (sigEncode r s).length ≤ (deflate r).length + (deflate s).length + 8 := by
  unfold sigEncode encMpint encStr
  have := encMpint_body_len r
  have := encMpint_body_len s
  simp only [List.length_append, be32, beBytes_length]
  omega

end PV.Sig
