/-
  PV.Model.SendGate — `Transport._send_user_message` against `Transport._send_kex_init` / `_parse_newkeys` at the
  granularity of their real steps (paramiko/transport.py):

    user thread                                        kex side (renegotiate_keys caller / transport thread)
      clear_to_send.wait(0.1)                            clear_to_send_lock.acquire()
      clear_to_send_lock.acquire()                       clear_to_send.clear()
      if clear_to_send.is_set(): break  (else release,   clear_to_send_lock.release()
                                         wait again)     write KEXINIT … kex messages … write NEWKEYS
      _send_message(data)                                (peer's NEWKEYS) lock.acquire(); clear_to_send.set(); release()
      clear_to_send_lock.release()

  `recheck = false` is the variant that trusts the result of `wait()` and does not test the event again under the
  lock; `klock = false` the variant whose `_send_kex_init` clears the event without taking the lock.  Threads interleave arbitrarily; a thread that cannot move (lock taken, event not set) stutters.
  Mathlib-free, executable.
-/
namespace PV.SendGate

inductive UPc | wait | ready | locked | sending | sent | done
  deriving Repr, DecidableEq, Inhabited

inductive KPc | idle | haveLock | cleared | released | sentKexinit | sentKex | sentNewkeys | setLock | setDone | done
  deriving Repr, DecidableEq, Inhabited

inductive Owner | free | user | kex
  deriving Repr, DecidableEq, Inhabited

inductive Tid | user | kex
  deriving Repr, DecidableEq, Inhabited

/-- the finite control part -/
structure Ctrl where
  lock : Owner := .free
  event : Bool := true        -- clear_to_send
  upc : UPc := .wait
  kpc : KPc := .idle
  deriving Repr, DecidableEq, Inhabited

structure St where
  recheck : Bool
  klock : Bool := true        -- the side that starts the exchange clears the event under clear_to_send_lock
  c : Ctrl := {}
  todo : Nat                  -- user messages still to send (CHANNEL_DATA, type 94)
  wire : List Nat := []
  deriving Repr, DecidableEq, Inhabited

/-- user thread, control only; `more` = another message follows this one -/
def cuser (recheck more : Bool) (c : Ctrl) : Ctrl :=
  match c.upc with
  | .wait => if recheck then { c with upc := .ready } else if c.event then { c with upc := .ready } else c
  | .ready =>
    if c.lock = .free then { c with lock := .user, upc := if recheck then .locked else .sending } else c
  | .locked => if c.event then { c with upc := .sending } else { c with lock := .free, upc := .wait }
  | .sending => { c with upc := .sent }
  | .sent => { c with lock := .free, upc := if more then .wait else .done }
  | .done => c

/-- kex side, control only.  `klock = false`: `_send_kex_init` clears the event with a bare `clear()`, without taking
`clear_to_send_lock` (the setting side at NEWKEYS still locks). -/
def ckex (klock : Bool) (c : Ctrl) : Ctrl :=
  match c.kpc with
  | .idle =>
    if klock then (if c.lock = .free then { c with lock := .kex, kpc := .haveLock } else c)
    else { c with kpc := .haveLock }
  | .haveLock => { c with event := false, kpc := .cleared }
  | .cleared => if klock then { c with lock := .free, kpc := .released } else { c with kpc := .released }
  | .released => { c with kpc := .sentKexinit }
  | .sentKexinit => { c with kpc := .sentKex }
  | .sentKex => { c with kpc := .sentNewkeys }
  | .sentNewkeys => if c.lock = .free then { c with lock := .kex, kpc := .setLock } else c
  | .setLock => { c with event := true, kpc := .setDone }
  | .setDone => { c with lock := .free, kpc := .done }
  | .done => c

/-- what a step writes -/
def written (s : St) : Tid → List Nat
  | .user => if s.c.upc = .sending then [94] else []
  | .kex =>
    match s.c.kpc with
    | .released => [20]
    | .sentKexinit => [30]
    | .sentKex => [21]
    | _ => []

def step (s : St) (t : Tid) : St :=
  match t with
  | .user =>
    { s with c := cuser s.recheck (decide (s.todo > 1)) s.c, wire := s.wire ++ written s .user,
             todo := if s.c.upc = .sent then s.todo - 1 else s.todo }
  | .kex => { s with c := ckex s.klock s.c, wire := s.wire ++ written s .kex }

def run (s : St) (sched : List Tid) : St := sched.foldl step s

def init (recheck : Bool) (n : Nat) (klock : Bool := true) : St :=
  { recheck, klock, todo := n, c := { upc := if n = 0 then .done else .wait } }

/-- the kex messages of the exchange written so far -/
def kexPart : KPc → List Nat
  | .idle | .haveLock | .cleared | .released => []
  | .sentKexinit => [20]
  | .sentKex => [20, 30]
  | _ => [20, 30, 21]

end PV.SendGate
