/-
  PV.Model.HostKeys — executable model of paramiko/hostkeys.py `HostKeys`
  (`load`, `save`, `lookup` / SubDict `__getitem__` / `keys`, `check`, `add`, `__delitem__`, `keys`, `clear`)
  and of the hashed-hostname matching of `_hostname_matches` / `hash_host`.

  * a known_hosts line is handed over already split (`Line`): the regex split, base64 and key-class parsing of
    `HostKeyEntry.from_line` are trusted glue exercised by the correspondence (text is rendered for the real code);
  * a key is its type name and its public blob (`key.get_name()`, `key.asbytes()`);
  * a hashed hostname `|1|salt|mac` is the pair (salt, mac); HMAC-SHA1 is a parameter (`Prims.hmac`).
  `load` is modelled as repaired: it iterates over a copy of the names (fix 1) and drops a name when some entry
  already associates exactly that key with it (fix 2).  Mathlib-free.
-/
import PV.Base.Bytes
namespace PV.HostKeys
open PV

inductive Name where
  | plain (s : String)
  | hashed (salt mac : Bytes)
  deriving Repr, DecidableEq

structure Key where
  type : String      -- key.get_name()
  blob : Bytes       -- key.asbytes()
  deriving Repr, DecidableEq

structure Entry where
  names : List Name
  key : Key
  deriving Repr, DecidableEq

abbrev Table := List Entry        -- HostKeys._entries

structure Prims where
  hmac : Bytes → String → Bytes   -- HMAC(salt, hostname, sha1).digest()

/-- one hostname of an entry against the name being looked up:
`h == hostname or (h.startswith("|1|") and not hostname.startswith("|1|") and hash_host(hostname, h) == h)` -/
def nameMatches (p : Prims) (h q : Name) : Bool :=
  h == q ||
    match h, q with
    | .hashed salt mac, .plain s => p.hmac salt s == mac
    | _, _ => false

/-- `_hostname_matches(hostname, entry)` -/
def hostnameMatches (p : Prims) (q : Name) (e : Entry) : Bool := e.names.any fun h => nameMatches p h q

/-- `lookup(hostname)`: the entries of the SubDict (`[]` = `None`) -/
def lookup (p : Prims) (t : Table) (q : Name) : List Entry := t.filter (hostnameMatches p q)

/-- `SubDict.__getitem__(keytype)` / `.get(keytype)`: the first entry of that type -/
def subGet (es : List Entry) (keytype : String) : Option Key := (es.find? fun e => e.key.type == keytype).map (·.key)

/-- `SubDict.keys()`: one name per matching entry (duplicates kept) -/
def subKeys (es : List Entry) : List String := es.map (·.key.type)

/-- `SubDict.items()` — the `Mapping` mixin: `[(k, self[k]) for k in self]`, i.e. one pair per matching entry, each
carrying the *effective* (first) key of its type.  `values()`, `get`, `in`, `len` and iteration are the mixins over
`__getitem__` / `keys()` as well; SubDict defines no other primitive. -/
def subItems (es : List Entry) : List (String × Option Key) := es.map fun e => (e.key.type, subGet es e.key.type)

/-- `check(hostname, key)` -/
def check (p : Prims) (t : Table) (q : Name) (k : Key) : Bool :=
  match subGet (lookup p t q) k.type with
  | some k' => k'.blob == k.blob
  | none => false

/-- `add(hostname, keytype, key)` -/
def add : Table → Name → String → Key → Table
  | [], h, _, k => [{ names := [h], key := k }]
  | e :: es, h, kt, k =>
    if e.names.contains h && e.key.type == kt then { e with key := k } :: es else e :: add es h kt k

/-- `_has_entry(hostname, key)`: some entry lists the name with exactly this key -/
def hasEntry (p : Prims) (t : Table) (h : Name) (k : Key) : Bool :=
  t.any fun e => hostnameMatches p h e && e.key.type == k.type && e.key.blob == k.blob

/-- `for h in list(entry.hostnames): if self._has_entry(h, key): entry.hostnames.remove(h)` -/
def pruneLoop (p : Prims) (t : Table) (k : Key) : List Name → List Name → List Name
  | [], cur => cur
  | h :: hs, cur => if hasEntry p t h k then pruneLoop p t k hs (cur.erase h) else pruneLoop p t k hs cur

/-- what `load` does with one successfully parsed line -/
def loadEntry (p : Prims) (t : Table) (names : List Name) (k : Key) : Table :=
  let kept := pruneLoop p t k names names
  if kept.isEmpty then t else t ++ [{ names := kept, key := k }]

inductive Line where
  | entry (names : List Name) (key : Key)   -- a line `from_line` turns into an entry
  | skip       -- blank, comment, fewer than 3 fields, unknown key type, SSHException from the key class
  | invalid    -- base64 garbage: `from_line` raises InvalidHostKey (not an SSHException: escapes `load`)
  deriving Repr, DecidableEq

inductive Err where
  | invalidHostKey
  | keyError
  deriving Repr, DecidableEq

/-- `load(filename)` on the lines of the file: the table afterwards, and whether it ended by raising
`InvalidHostKey` (entries of the lines before the offending one stay loaded) -/
def load (p : Prims) : Table → List Line → Table × Bool
  | t, [] => (t, false)
  | t, .entry names k :: ls => load p (loadEntry p t names k) ls
  | t, .skip :: ls => load p t ls
  | t, .invalid :: _ => (t, true)

/-- `save(filename)`: one line per entry -/
def save (t : Table) : List Line := t.map fun e => .entry e.names e.key

/-- `del hostkeys[hostname]`: drops the first entry matching the name -/
def delItem (p : Prims) : Table → Name → Except Err Table
  | [], _ => .error .keyError
  | e :: es, q => if hostnameMatches p q e then .ok es else (delItem p es q).map (e :: ·)

/-- `HostKeys.keys()`: every listed name once, in order -/
def keys (t : Table) : List Name :=
  (t.flatMap (·.names)).foldl (fun acc h => if acc.contains h then acc else acc ++ [h]) []

/-! ## dict-style setters -/

/-- the loop of `SubDict.__setitem__`: replace the key of the first matching entry of that type -/
def subSetGo (p : Prims) (q : Name) (kt : String) (k : Key) : Table → Table × Bool
  | [] => ([], false)
  | e :: es =>
    if hostnameMatches p q e && e.key.type == kt then ({ e with key := k } :: es, true)
    else
      let r := subSetGo p q kt k es
      (e :: r.1, r.2)

/-- `hostkeys[hostname][keytype] = key` (`KeyError` when the hostname is unknown) -/
def subSet (p : Prims) (t : Table) (q : Name) (kt : String) (k : Key) : Except Err Table :=
  if (lookup p t q).isEmpty then .error .keyError
  else
    let r := subSetGo p q kt k t
    if r.2 then .ok r.1 else .ok (t ++ [{ names := [q], key := k }])

/-- one key type of `hostkeys[hostname] = {keytype: key, …}`: every entry listing the name literally with that type
gets the key; if there is none a new entry is appended -/
def setItemOne (t : Table) (h : Name) (kt : String) (k : Key) : Table :=
  if t.any (fun e => e.names.contains h && e.key.type == kt) then
    t.map fun e => if e.names.contains h && e.key.type == kt then { e with key := k } else e
  else t ++ [{ names := [h], key := k }]

/-- `hostkeys[hostname] = entry` for a non-empty dict -/
def setItem (t : Table) (h : Name) (kvs : List (String × Key)) : Table :=
  kvs.foldl (fun t kv => setItemOne t h kv.1 kv.2) t

end PV.HostKeys
