/-
  Lemmas about EOF / CLOSE handling in PV.Model.ChanWindow (used by C22).
-/
import PV.Model.ChanLoopLemmas
namespace PV.Chan

def Msg.isEof : Msg → Bool
  | .eof => true
  | _ => false

def Msg.isClose : Msg → Bool
  | .close => true
  | _ => false

def Msg.isEnd (m : Msg) : Bool := m.isEof || m.isClose

def TSt.held : TSt → List Msg
  | .hold ms _ => ms
  | _ => []

def TSt.nEof (x : TSt) : Nat := x.held.countP Msg.isEof
def TSt.nClose (x : TSt) : Nat := x.held.countP Msg.isClose
def TSt.nHeld (x : TSt) : Nat := x.held.length
def TSt.holdsEnd (x : TSt) : Bool := x.held.any Msg.isEnd

theorem holdsData_eq (x : TSt) : x.holdsData = x.held.any Msg.isData := by
  cases x <;> simp [TSt.holdsData, TSt.held]

/-- `true` iff some data message comes after an EOF or CLOSE -/
def dataAfterEnd : List Msg → Bool
  | [] => false
  | m :: ms => (m.isEnd && ms.any Msg.isData) || dataAfterEnd ms

theorem dataAfterEnd_snoc (w : List Msg) (m : Msg) :
    dataAfterEnd (w ++ [m]) = (dataAfterEnd w || (w.any Msg.isEnd && m.isData)) := by
  induction w with
  | nil => simp [dataAfterEnd]
  | cons a w ih =>
    simp only [List.cons_append, dataAfterEnd, ih, List.any_append, List.any_cons, List.any_nil, Bool.or_false]
    cases a.isEnd <;> cases (w.any Msg.isData) <;> cases (dataAfterEnd w) <;> cases (w.any Msg.isEnd) <;>
      cases m.isData <;> rfl

/-! ## the send path never makes a thread hold anything but one data message, and only on an open channel -/

def SendOutEff2 (cfg : Cfg) (s s' : St) (t want : Nat) (ext : Bool) (lp : Option Loop) : Prop :=
  ∃ d x, s' = setThr { s with outWin := s.outWin - d } t x ∧ SendOut cfg want ext lp x ∧
    (x.holdsData = true → s.closed = false ∧ s.eofSent = false)

theorem zeroResult_out2 (cfg : Cfg) (s : St) (t want : Nat) (ext : Bool) (lp : Option Loop) :
    SendOutEff2 cfg s (zeroResult cfg s t ext lp) t want ext lp := by
  unfold zeroResult
  split
  · exact ⟨0, _, rfl, .zeroPlain rfl, by intro h; cases h⟩
  · rename_i l
    split
    · exact ⟨0, _, rfl, .sockClosed, by intro h; cases h⟩
    · rename_i h
      exact ⟨0, _, rfl, .zeroLoopOld l rfl (by simpa using h), by intro h; cases h⟩

theorem grant_out2 (cfg : Cfg) (s : St) (t want : Nat) (ext : Bool) (lp : Option Loop)
    (hc : s.closed = false) (he : s.eofSent = false) :
    SendOutEff2 cfg s (grant cfg s t want ext lp) t want ext lp := by
  unfold grant
  simp only
  split
  · exact zeroResult_out2 cfg s t want ext lp
  · rename_i hne
    exact ⟨allocate s want, _, rfl, .granted _ _ (by omega) (allocate_le_want s want) rfl, fun _ => ⟨hc, he⟩⟩

theorem sendRegion_out2 (cfg : Cfg) (s : St) (t want : Nat) (ext : Bool) (lp : Option Loop) :
    SendOutEff2 cfg s (sendRegion cfg s t want ext lp) t want ext lp := by
  unfold sendRegion
  split
  · exact ⟨0, _, rfl, .sockClosed, by intro h; cases h⟩
  · rename_i hc
    split
    · exact zeroResult_out2 cfg s t want ext lp
    · rename_i he
      split
      · split
        · exact ⟨0, _, rfl, .timeout, by intro h; cases h⟩
        · exact ⟨0, _, rfl, .wait _, by intro h; cases h⟩
        · exact ⟨0, _, rfl, .timeout, by intro h; cases h⟩
        · exact ⟨0, _, rfl, .wait _, by intro h; cases h⟩
      · exact grant_out2 cfg s t want ext lp (by simpa using hc) (by simpa using he)

theorem wakeRegion_out2 (cfg : Cfg) (s : St) (t dt want : Nat) (ext : Bool) (left : Option Nat)
    (lp : Option Loop) : SendOutEff2 cfg s (wakeRegion cfg s t dt want ext left lp) t want ext lp := by
  have cont : ∀ left', SendOutEff2 cfg s (if s.outWin = 0 then
      if (s.closed || s.eofSent) = true then zeroResult cfg s t ext lp
      else setThr s t (.waiting want ext left' lp)
    else if (s.closed || s.eofSent) = true then zeroResult cfg s t ext lp
    else grant cfg s t want ext lp) t want ext lp := by
    intro left'
    split
    · split
      · exact zeroResult_out2 cfg s t want ext lp
      · exact ⟨0, _, rfl, .wait _, by intro h; cases h⟩
    · split
      · exact zeroResult_out2 cfg s t want ext lp
      · rename_i h
        have : s.closed = false ∧ s.eofSent = false := by
          cases hc : s.closed <;> cases he : s.eofSent <;> simp_all
        exact grant_out2 cfg s t want ext lp this.1 this.2
  unfold wakeRegion
  simp only
  split
  · exact cont none
  · split
    · exact ⟨0, _, rfl, .timeout, by intro h; cases h⟩
    · exact cont _

/-- what the thread holds after the send path: nothing, or exactly one data message -/
theorem sendOut_held (cfg : Cfg) (want : Nat) (ext : Bool) (lp : Option Loop) (x : TSt)
    (h : SendOut cfg want ext lp x) : x.held = [] ∨ (∃ n, x.held = [mkData ext n] ∧ x.holdsData = true) := by
  cases h with
  | granted n k _ _ _ => exact .inr ⟨n, rfl, by simp [TSt.holdsData]⟩
  | _ => exact .inl rfl

@[simp] theorem mkData_isEof (ext : Bool) (n : Nat) : (mkData ext n).isEof = false := by cases ext <;> rfl
@[simp] theorem mkData_isClose (ext : Bool) (n : Nat) : (mkData ext n).isClose = false := by cases ext <;> rfl
@[simp] theorem mkData_isEnd (ext : Bool) (n : Nat) : (mkData ext n).isEnd = false := by cases ext <;> rfl

/-! ## exact description of `_send_eof` / `_close_internal` -/

theorem sendEof_cases (s : St) :
    (s.eofSent = true ∧ sendEof s = (s, [])) ∨
    (s.eofSent = false ∧
      sendEof s = ({ s with eofSent := true, raced := s.raced || s.thr.any TSt.holdsData }, [.eof])) := by
  unfold sendEof
  cases h : s.eofSent <;> simp

theorem closeInternal_cases (s : St) :
    ((s.active = false ∨ s.closed = true) ∧ closeInternal s = (s, [])) ∨
    (s.active = true ∧ s.closed = false ∧ s.eofSent = true ∧ closeInternal s = (setClosed s, [.close])) ∨
    (s.active = true ∧ s.closed = false ∧ s.eofSent = false ∧
      closeInternal s = (setClosed { s with eofSent := true, raced := s.raced || s.thr.any TSt.holdsData },
        [.eof, .close])) := by
  unfold closeInternal sendEof
  cases ha : s.active <;> cases hc : s.closed <;> cases he : s.eofSent <;> simp

end PV.Chan

namespace PV.Chan

/-! ## counting EOF and CLOSE -/

structure CountInv (s : St) : Prop where
  eofc : List.countP Msg.isEof s.wire + sumBy TSt.nEof s.thr ≤ s.eofSent.toNat
  closec : List.countP Msg.isClose s.wire + sumBy TSt.nClose s.thr ≤ s.closed.toNat
  act : s.active = true
  unl : s.linked = false → s.closed = true

/-- thread `t` (holding nothing) ends up holding `x.held`; flags may have moved from `s` to `s0` -/
theorem count_update (s s0 : St) (t : Nat) (old x : TSt) (hthr : s0.thr = s.thr) (hwire : s0.wire = s.wire)
    (hact : s0.active = s.active) (hr : s.thr[t]? = some old) (hold : old.held = []) (hi : CountInv s)
    (he : x.nEof + s.eofSent.toNat = s0.eofSent.toNat)
    (hc : x.nClose + s.closed.toNat ≤ s0.closed.toNat)
    (hl : s0.linked = false → s0.closed = true) : CountInv (setThr s0 t x) := by
  obtain ⟨e1, c1, a1, _⟩ := hi
  have h1 := sumBy_set TSt.nEof s.thr t old x hr
  have h2 := sumBy_set TSt.nClose s.thr t old x hr
  have o1 : old.nEof = 0 := by simp [TSt.nEof, hold]
  have o2 : old.nClose = 0 := by simp [TSt.nClose, hold]
  refine ⟨?_, ?_, by simpa [setThr, hact] using a1, by simpa [setThr] using hl⟩
  · simp only [setThr, hwire, hthr]; omega
  · simp only [setThr, hwire, hthr]; omega

theorem count_same (s : St) (t : Nat) (old x : TSt) (hr : s.thr[t]? = some old) (hold : old.held = [])
    (hx : x.nEof = 0 ∧ x.nClose = 0) (hi : CountInv s) : CountInv (setThr s t x) :=
  count_update s s t old x rfl rfl rfl hr hold hi (by omega) (by omega) hi.unl

theorem count_congr (s s' : St) (h1 : s'.wire = s.wire) (h2 : s'.thr = s.thr) (h3 : s'.eofSent = s.eofSent)
    (h4 : s'.closed = s.closed) (h5 : s'.active = s.active) (h6 : s'.linked = s.linked) (hi : CountInv s) :
    CountInv s' := by
  obtain ⟨e1, c1, a1, u1⟩ := hi
  exact ⟨by rw [h1, h2, h3]; exact e1, by rw [h1, h2, h4]; exact c1, by rw [h5]; exact a1,
    by rw [h6, h4]; exact u1⟩

theorem held_of_idleLike (x : TSt) (h : ∀ ms k, x ≠ .hold ms k) : x.held = [] := by
  cases x with
  | hold ms k => exact absurd rfl (h ms k)
  | _ => rfl

theorem count_sendOut2 (cfg : Cfg) (s s' : St) (t want : Nat) (ext : Bool) (lp : Option Loop) (old : TSt)
    (hr : s.thr[t]? = some old) (hold : old.held = []) (h : SendOutEff2 cfg s s' t want ext lp)
    (hi : CountInv s) : CountInv s' := by
  obtain ⟨d, x, e, ho, _⟩ := h
  rw [e]
  have hx : x.nEof = 0 ∧ x.nClose = 0 := by
    rcases sendOut_held cfg want ext lp x ho with h | ⟨n, h, _⟩ <;> simp [TSt.nEof, TSt.nClose, h]
  exact count_update s _ t old x rfl rfl rfl hr hold hi (by simp only; omega) (by simp only; omega) hi.unl

/-- the close-like regions: `closeInternal` then `holdOrDone` on an idle thread (optionally unlinking) -/
theorem count_closeLike (s : St) (t : Nat) (r : Res) (unlinkToo : Bool) (hr : s.thr[t]? = some (.idle r))
    (hi : CountInv s) :
    CountInv (holdOrDone (if unlinkToo then { (closeInternal s).1 with linked := false } else (closeInternal s).1)
      t (closeInternal s).2 .retNone) := by
  have ha := hi.act
  rcases closeInternal_cases s with ⟨h0, e⟩ | ⟨_, hc, he, e⟩ | ⟨_, hc, he, e⟩
  · have hcl : s.closed = true := by
      rcases h0 with h | h
      · rw [ha] at h; cases h
      · exact h
    rw [e]
    simp only [holdOrDone, kontState]
    cases unlinkToo
    · exact count_same s t _ _ hr rfl ⟨rfl, rfl⟩ hi
    · exact count_update s { s with linked := false } t _ _ rfl rfl rfl hr rfl hi (by simp [TSt.nEof, TSt.held])
        (by simp [TSt.nClose, TSt.held]) (fun _ => hcl)
  · rw [e]
    simp only [holdOrDone]
    cases unlinkToo
    · exact count_update s (setClosed s) t _ _ rfl rfl rfl hr rfl hi
        (by simp [TSt.nEof, TSt.held, setClosed, he] <;> rfl)
        (by simp [TSt.nClose, TSt.held, Msg.isClose, setClosed, hc])
        (fun _ => rfl)
    · exact count_update s { setClosed s with linked := false } t _ _ rfl rfl rfl hr rfl hi
        (by simp [TSt.nEof, TSt.held, setClosed, he] <;> rfl)
        (by simp [TSt.nClose, TSt.held, Msg.isClose, setClosed, hc])
        (fun _ => rfl)
  · rw [e]
    simp only [holdOrDone]
    cases unlinkToo
    · exact count_update s (setClosed { s with eofSent := true, raced := s.raced || s.thr.any TSt.holdsData })
        t _ _ rfl rfl rfl hr rfl hi
        (by simp [TSt.nEof, TSt.held, setClosed, he] <;> rfl)
        (by simp [TSt.nClose, TSt.held, Msg.isClose, setClosed, hc])
        (fun _ => rfl)
    · exact count_update s
        { setClosed { s with eofSent := true, raced := s.raced || s.thr.any TSt.holdsData } with linked := false }
        t _ _ rfl rfl rfl hr rfl hi
        (by simp [TSt.nEof, TSt.held, setClosed, he] <;> rfl)
        (by simp [TSt.nClose, TSt.held, Msg.isClose, setClosed, hc])
        (fun _ => rfl)

theorem step_count (cfg : Cfg) (s : St) (x : Act) (hi : CountInv s) : CountInv (step cfg s x) := by
  cases x with
  | send t n ext =>
    simp only [step]; split
    · rename_i hid
      obtain ⟨r, hr⟩ := idleOf_spec s t hid
      exact count_sendOut2 cfg s _ t n ext none _ hr rfl (sendRegion_out2 cfg s t n ext none) hi
    · exact hi
  | sendall t n ext =>
    simp only [step]; split
    · rename_i hid
      obtain ⟨r, hr⟩ := idleOf_spec s t hid
      split <;> exact count_same s t _ _ hr rfl ⟨rfl, rfl⟩ hi
    · exact hi
  | iter t =>
    simp only [step]; split
    · rename_i l ext hr
      exact count_sendOut2 cfg s _ t l.rem ext (some l) _ hr rfl (sendRegion_out2 cfg s t l.rem ext (some l)) hi
    · exact hi
  | wake t dt =>
    simp only [step]; split
    · rename_i want ext left lp hr
      exact count_sendOut2 cfg s _ t want ext lp _ hr rfl (wakeRegion_out2 cfg s t dt want ext left lp) hi
    · exact hi
  | emit t =>
    simp only [step]; split
    · rename_i m ms k hr
      obtain ⟨e1, c1, a1, u1⟩ := hi
      have h1 := fun x => sumBy_set TSt.nEof s.thr t _ x hr
      have h2 := fun x => sumBy_set TSt.nClose s.thr t _ x hr
      have k1 : (kontState k).nEof = 0 := by
        cases k with
        | loop l e n => simp only [kontState]; split <;> rfl
        | _ => rfl
      have k2 : (kontState k).nClose = 0 := by
        cases k with
        | loop l e n => simp only [kontState]; split <;> rfl
        | _ => rfl
      unfold holdOrDone
      split
      · have a := h1 (kontState k); have b := h2 (kontState k)
        refine ⟨?_, ?_, a1, u1⟩
        · simp only [setThr, List.countP_append, List.countP_cons, List.countP_nil, TSt.nEof, TSt.held] at *
          omega
        · simp only [setThr, List.countP_append, List.countP_cons, List.countP_nil, TSt.nClose, TSt.held] at *
          omega
      · rename_i m' ms'
        have a := h1 (.hold (m' :: ms') k); have b := h2 (.hold (m' :: ms') k)
        refine ⟨?_, ?_, a1, u1⟩
        · simp only [setThr, List.countP_append, List.countP_cons, List.countP_nil, TSt.nEof, TSt.held] at *
          omega
        · simp only [setThr, List.countP_append, List.countP_cons, List.countP_nil, TSt.nClose, TSt.held] at *
          omega
    · exact hi
  | recv t k err =>
    simp only [step]; split
    · rename_i hid
      obtain ⟨r, hr⟩ := idleOf_spec s t hid
      repeat' split
      all_goals first
        | exact hi
        | exact count_same s t _ _ hr rfl ⟨rfl, rfl⟩ hi
        | exact count_same _ t _ _ hr rfl ⟨rfl, rfl⟩ (count_congr s _ rfl rfl rfl rfl rfl rfl hi)
    · exact hi
  | check t =>
    simp only [step]; split
    · rename_i n hr
      obtain ⟨v, e⟩ := checkAdd_shape s n
      have hi' : CountInv (checkAdd s n).1 := by rw [e]; exact count_congr s _ rfl rfl rfl rfl rfl rfl hi
      have hr' : (checkAdd s n).1.thr[t]? = some (.gotBytes n) := by rw [e]; exact hr
      split
      · exact count_same _ t _ _ hr' rfl ⟨rfl, rfl⟩ hi'
      · exact count_same _ t _ _ hr' rfl ⟨by simp [TSt.nEof, TSt.held, Msg.isEof],
          by simp [TSt.nClose, TSt.held, Msg.isClose]⟩ hi'
    · exact hi
  | close t =>
    simp only [step]; split
    · rename_i hid
      obtain ⟨r, hr⟩ := idleOf_spec s t hid
      exact count_closeLike s t r false hr hi
    · exact hi
  | peerClose t =>
    simp only [step]; split
    · rename_i hid
      obtain ⟨r, hr⟩ := idleOf_spec s t hid
      exact count_closeLike s t r true hr hi
    · exact hi
  | requestFailed t =>
    simp only [step]; split
    · rename_i hid
      obtain ⟨r, hr⟩ := idleOf_spec s t hid
      exact count_closeLike s t r false hr hi
    · exact hi
  | shutdownWrite t =>
    simp only [step]; split
    · rename_i hid
      obtain ⟨r, hr⟩ := idleOf_spec s t hid
      rcases sendEof_cases s with ⟨he, e⟩ | ⟨he, e⟩
      · rw [e]; simp only [holdOrDone, kontState]
        exact count_same s t _ _ hr rfl ⟨rfl, rfl⟩ hi
      · rw [e]; simp only [holdOrDone]
        exact count_update s { s with eofSent := true, raced := s.raced || s.thr.any TSt.holdsData } t _ _
          rfl rfl rfl hr rfl hi (by simp [TSt.nEof, TSt.held, Msg.isEof, he])
          (by simp [TSt.nClose, TSt.held, Msg.isClose]) hi.unl
    · exact hi
  | feedExt t code n =>
    simp only [step]
    repeat' split
    all_goals first
      | exact hi
      | exact count_congr s _ rfl rfl rfl rfl rfl rfl hi
      | (rename_i hid _
         obtain ⟨r, hr⟩ := idleOf_spec s t hid
         obtain ⟨v, e⟩ := checkAdd_shape { s with recvd := s.recvd + n, discarded := s.discarded + n } n
         rw [e]
         first
           | exact count_congr s _ rfl rfl rfl rfl rfl rfl hi
           | exact count_same _ t _ _ hr rfl ⟨by simp [TSt.nEof, TSt.held, Msg.isEof],
               by simp [TSt.nClose, TSt.held, Msg.isClose]⟩ (count_congr s _ rfl rfl rfl rfl rfl rfl hi))
  | peerEof => simp only [step]; split <;> first | exact hi | exact count_congr s _ rfl rfl rfl rfl rfl rfl hi
  | emitFail t =>
    simp only [step]; split
    · rename_i m ms k hr
      obtain ⟨e1, c1, a1, u1⟩ := hi
      have h1 := sumBy_set TSt.nEof s.thr t _ (.idle .sshError) hr
      have h2 := sumBy_set TSt.nClose s.thr t _ (.idle .sshError) hr
      have z1 : (TSt.idle Res.sshError).nEof = 0 := rfl
      have z2 : (TSt.idle Res.sshError).nClose = 0 := rfl
      refine ⟨?_, ?_, a1, u1⟩
      · simp only [setThr]; omega
      · simp only [setThr]; omega
    · exact hi
  | unlink =>
    simp only [step]; split
    · exact hi
    · obtain ⟨e1, c1, a1, u1⟩ := hi
      refine ⟨e1, ?_, a1, fun _ => rfl⟩
      rename_i hc
      have hc' : s.closed = false := by simpa using hc
      simp only [hc', Bool.toNat_false] at c1
      simp only [setClosed, Bool.toNat_true]
      omega
  | shutdownRead => exact count_congr s _ rfl rfl rfl rfl rfl rfl hi
  | setMode m => exact count_congr s _ rfl rfl rfl rfl rfl rfl hi
  | feed n => exact count_congr s _ rfl rfl rfl rfl rfl rfl hi
  | adjust n => exact count_congr s _ rfl rfl rfl rfl rfl rfl hi

theorem run_count (cfg : Cfg) (s : St) (as : List Act) (hi : CountInv s) : CountInv (run cfg s as) := by
  induction as generalizing s with
  | nil => exact hi
  | cons a as ih => exact ih _ (step_count cfg s a hi)

end PV.Chan

namespace PV.Chan

/-! ## no data after EOF / CLOSE unless the EOF raced with a sender that had already reserved -/

structure RaceFree (s : St) : Prop where
  afterEof : s.eofSent = true → ∀ x ∈ s.thr, x.holdsData = false
  beforeEof : s.eofSent = false → (∀ m ∈ s.wire, m.isEnd = false) ∧ ∀ x ∈ s.thr, x.holdsEnd = false
  wireOk : dataAfterEnd s.wire = false

def RaceInv (s : St) : Prop := s.raced = false → RaceFree s

theorem race_setThr (s : St) (t : Nat) (x : TSt) (hd : x.holdsData = true → s.eofSent = false)
    (he : x.holdsEnd = true → s.eofSent = true) (hi : RaceFree s) : RaceFree (setThr s t x) := by
  obtain ⟨a, b, w⟩ := hi
  refine ⟨?_, ?_, w⟩
  · intro h y hy
    rcases mem_set_cases _ _ _ _ hy with h' | h'
    · exact a h y h'
    · subst h'
      cases hx : y.holdsData
      · rfl
      · have := hd hx
        have h' : s.eofSent = true := h
        rw [h'] at this; cases this
  · intro h
    refine ⟨(b h).1, ?_⟩
    intro y hy
    rcases mem_set_cases _ _ _ _ hy with h' | h'
    · exact (b h).2 y h'
    · subst h'
      cases hx : y.holdsEnd
      · rfl
      · have := he hx
        have h' : s.eofSent = false := h
        rw [h'] at this; cases this

theorem race_congr (s s' : St) (h1 : s'.wire = s.wire) (h2 : s'.thr = s.thr) (h3 : s'.eofSent = s.eofSent)
    (hi : RaceFree s) : RaceFree s' := by
  obtain ⟨a, b, w⟩ := hi
  exact ⟨by rw [h2, h3]; exact a, by rw [h1, h2, h3]; exact b, by rw [h1]; exact w⟩

theorem idleLike_noData (x : TSt) (h : x.held = []) : x.holdsData = false ∧ x.holdsEnd = false := by
  rw [holdsData_eq]; simp [TSt.holdsEnd, h]

def holdState (ms : List Msg) (k : Kont) : TSt :=
  match ms with
  | [] => kontState k
  | _ :: _ => .hold ms k

theorem holdOrDone_eq (s : St) (t : Nat) (ms : List Msg) (k : Kont) :
    holdOrDone s t ms k = setThr s t (holdState ms k) := by
  unfold holdOrDone holdState; split <;> rfl

theorem holdState_retNone (ms : List Msg) : (holdState ms .retNone).held = ms := by
  cases ms <;> rfl

theorem kontState_held (k : Kont) : (kontState k).held = [] := by
  cases k with
  | loop l e n => simp only [kontState]; split <;> rfl
  | _ => rfl

/-- EOF is decided now (flag flips) and, the ghost says, no thread held data: thread `t` gets `ms` (no data) -/
theorem race_flip (s s0 : St) (t : Nat) (x : TSt) (h1 : s0.wire = s.wire) (h2 : s0.thr = s.thr)
    (h3 : s0.eofSent = true) (hr : (s.raced || s.thr.any TSt.holdsData) = false)
    (hx : x.holdsData = false) (hi : RaceFree s) : RaceFree (setThr s0 t x) := by
  obtain ⟨a, b, w⟩ := hi
  have hnone : ∀ y ∈ s.thr, y.holdsData = false := by
    intro y hy
    cases hd : y.holdsData
    · rfl
    · have : s.thr.any TSt.holdsData = true := List.any_eq_true.2 ⟨y, hy, hd⟩
      rw [this] at hr; simp at hr
  refine ⟨?_, ?_, by simpa [setThr, h1] using w⟩
  · intro _ y hy
    simp only [setThr, h2] at hy
    rcases mem_set_cases _ _ _ _ hy with h' | h'
    · exact hnone y h'
    · subst h'; exact hx
  · intro h; simp only [setThr, h3] at h; cases h

theorem raced_false_of_or (a b : Bool) (h : (a || b) = false) : a = false := by
  cases a <;> simp_all

/-- the close-like regions preserve race-freedom (as long as the ghost stays false) -/
theorem race_closeLike (s : St) (t : Nat) (unlinkToo : Bool)
    (hr : (holdOrDone (if unlinkToo then { (closeInternal s).1 with linked := false } else (closeInternal s).1)
      t (closeInternal s).2 .retNone).raced = false) (hi : RaceFree s) :
    RaceFree (holdOrDone (if unlinkToo then { (closeInternal s).1 with linked := false } else (closeInternal s).1)
      t (closeInternal s).2 .retNone) := by
  rw [holdOrDone_eq] at hr ⊢
  rcases closeInternal_cases s with ⟨_, e⟩ | ⟨_, _, he, e⟩ | ⟨_, _, he, e⟩
  · rw [e] at hr ⊢
    cases unlinkToo
    · exact race_setThr s t _ (by intro h; cases h) (by intro h; cases h) hi
    · exact race_setThr _ t _ (by intro h; cases h) (by intro h; cases h) (race_congr s _ rfl rfl rfl hi)
  · rw [e] at hr ⊢
    cases unlinkToo
    · exact race_setThr _ t _ (by intro h; cases h) (fun _ => he) (race_congr s _ rfl rfl rfl hi)
    · exact race_setThr _ t _ (by intro h; cases h) (fun _ => he) (race_congr s _ rfl rfl rfl hi)
  · rw [e] at hr ⊢
    cases unlinkToo
    · exact race_flip s _ t _ rfl rfl rfl (by simpa [setThr, setClosed] using hr) rfl hi
    · exact race_flip s _ t _ rfl rfl rfl (by simpa [setThr, setClosed] using hr) rfl hi

theorem race_sendOut2 (cfg : Cfg) (s s' : St) (t want : Nat) (ext : Bool) (lp : Option Loop)
    (h : SendOutEff2 cfg s s' t want ext lp) (hi : RaceFree s) : RaceFree s' := by
  obtain ⟨d, x, e, ho, hopen⟩ := h
  rw [e]
  refine race_setThr { s with outWin := s.outWin - d } t x (fun hx => (hopen hx).2) ?_
    (race_congr s _ rfl rfl rfl hi)
  intro hx
  rcases sendOut_held cfg want ext lp x ho with h | ⟨n, h, _⟩
  · simp [TSt.holdsEnd, h] at hx
  · simp [TSt.holdsEnd, h] at hx

theorem step_raced_mono (cfg : Cfg) (s : St) (x : Act) (h : (step cfg s x).raced = false) : s.raced = false := by
  cases hr : s.raced
  · rfl
  · exfalso
    have key : ∀ (s0 : St) t ms k, s0.raced = true → (holdOrDone s0 t ms k).raced = true := by
      intro s0 t ms k h0; rw [holdOrDone_eq]; exact h0
    have hce : (closeInternal s).1.raced = true := by
      rcases closeInternal_cases s with ⟨_, e⟩ | ⟨_, _, _, e⟩ | ⟨_, _, _, e⟩ <;> rw [e] <;> simp [setClosed, hr]
    have hse : (sendEof s).1.raced = true := by
      rcases sendEof_cases s with ⟨_, e⟩ | ⟨_, e⟩ <;> rw [e] <;> simp [hr]
    have : (step cfg s x).raced = true := by
      cases x with
      | send t n ext =>
        simp only [step]; split
        · obtain ⟨d, y, e, _⟩ := sendRegion_eff cfg s t n ext none; rw [e]; exact hr
        · exact hr
      | iter t =>
        simp only [step]; split
        · rename_i l ext h'
          obtain ⟨d, y, e, _⟩ := sendRegion_eff cfg s t l.rem ext (some l); rw [e]; exact hr
        · exact hr
      | wake t dt =>
        simp only [step]; split
        · rename_i want ext left lp h'
          obtain ⟨d, y, e, _⟩ := wakeRegion_eff cfg s t dt want ext left lp; rw [e]; exact hr
        · exact hr
      | emit t =>
        simp only [step]; split
        · apply key; exact hr
        · exact hr
      | check t =>
        simp only [step]; split
        · rename_i n h'
          obtain ⟨v, e⟩ := checkAdd_shape s n
          split <;> (rw [e]; exact hr)
        · exact hr
      | close t =>
        simp only [step]; split
        · apply key; exact hce
        · exact hr
      | shutdownWrite t =>
        simp only [step]; split
        · apply key; exact hse
        · exact hr
      | peerClose t =>
        simp only [step]; split
        · apply key; exact hce
        · exact hr
      | requestFailed t =>
        simp only [step]; split
        · apply key; exact hce
        · exact hr
      | feedExt t code n =>
        simp only [step]
        obtain ⟨v, e⟩ := checkAdd_shape { s with recvd := s.recvd + n, discarded := s.discarded + n } n
        repeat' split
        all_goals first
          | exact hr
          | (rw [e]; exact hr)
      | recv t k err =>
        simp only [step]
        repeat' split
        all_goals exact hr
      | sendall t n ext =>
        simp only [step]
        repeat' split
        all_goals exact hr
      | peerEof => simp only [step]; split <;> exact hr
      | emitFail t => simp only [step]; split <;> exact hr
      | unlink => simp only [step]; split <;> exact hr
      | shutdownRead => exact hr
      | setMode m => exact hr
      | feed n => exact hr
      | adjust n => exact hr
    rw [this] at h; cases h

theorem step_race (cfg : Cfg) (s : St) (x : Act) (hi : RaceInv s) : RaceInv (step cfg s x) := by
  intro hraced
  have hi := hi (step_raced_mono cfg s x hraced)
  cases x with
  | send t n ext =>
    simp only [step]; split
    · exact race_sendOut2 cfg s _ t n ext none (sendRegion_out2 cfg s t n ext none) hi
    · exact hi
  | sendall t n ext =>
    simp only [step]; split
    · split <;> exact race_setThr s t _ (by intro h; cases h) (by intro h; cases h) hi
    · exact hi
  | iter t =>
    simp only [step]; split
    · rename_i l ext hr
      exact race_sendOut2 cfg s _ t l.rem ext (some l) (sendRegion_out2 cfg s t l.rem ext (some l)) hi
    · exact hi
  | wake t dt =>
    simp only [step]; split
    · rename_i want ext left lp hr
      exact race_sendOut2 cfg s _ t want ext lp (wakeRegion_out2 cfg s t dt want ext left lp) hi
    · exact hi
  | emit t =>
    simp only [step]; split
    · rename_i m ms k hr
      obtain ⟨a, b, w⟩ := hi
      have hmem := getElem?_mem' _ _ _ hr
      rw [holdOrDone_eq]
      have hxd : (holdState ms k).holdsData = true → (TSt.hold (m :: ms) k).holdsData = true := by
        intro h
        cases ms with
        | nil => simp [holdState, holdsData_eq, kontState_held] at h
        | cons m' ms' => simp only [holdState, TSt.holdsData, List.any_cons] at h ⊢; simp [h]
      have hxe : (holdState ms k).holdsEnd = true → (TSt.hold (m :: ms) k).holdsEnd = true := by
        intro h
        cases ms with
        | nil => simp [holdState, TSt.holdsEnd, kontState_held] at h
        | cons m' ms' => simp only [holdState, TSt.holdsEnd, TSt.held, List.any_cons] at h ⊢; simp [h]
      refine ⟨?_, ?_, ?_⟩
      · intro he y hy
        simp only [setThr] at hy
        rcases mem_set_cases _ _ _ _ hy with h' | h'
        · exact a he y h'
        · subst h'
          cases hd : (holdState ms k).holdsData
          · rfl
          · have := a he _ hmem; rw [hxd hd] at this; cases this
      · intro he
        have hb := b he
        refine ⟨?_, ?_⟩
        · intro m' hm'
          simp only [setThr, List.mem_append, List.mem_singleton] at hm'
          rcases hm' with h' | h'
          · exact hb.1 m' h'
          · subst h'
            have := hb.2 _ hmem
            simp only [TSt.holdsEnd, TSt.held, List.any_cons, Bool.or_eq_false_iff] at this
            exact this.1
        · intro y hy
          simp only [setThr] at hy
          rcases mem_set_cases _ _ _ _ hy with h' | h'
          · exact hb.2 y h'
          · subst h'
            cases hd : (holdState ms k).holdsEnd
            · rfl
            · have := hb.2 _ hmem; rw [hxe hd] at this; cases this
      · simp only [setThr]
        rw [dataAfterEnd_snoc, w, Bool.false_or]
        cases hmd : m.isData
        · simp
        · -- the thread held data, so EOF had not been decided, so nothing on the wire ends the stream
          have hold : (TSt.hold (m :: ms) k).holdsData = true := by simp [TSt.holdsData, hmd]
          have he : s.eofSent = false := by
            cases he : s.eofSent
            · rfl
            · have := a he _ hmem; rw [hold] at this; cases this
          have hw := (b he).1
          have : s.wire.any Msg.isEnd = false := by
            cases h : s.wire.any Msg.isEnd
            · rfl
            · obtain ⟨m', hm', hme⟩ := List.any_eq_true.1 h
              rw [hw m' hm'] at hme; cases hme
          simp [this]
    · exact hi
  | recv t k err =>
    simp only [step]
    repeat' split
    all_goals first
      | exact hi
      | exact race_setThr _ t _ (by intro h; cases h) (by intro h; cases h) (race_congr s _ rfl rfl rfl hi)
  | check t =>
    simp only [step]; split
    · rename_i n hr
      obtain ⟨v, e⟩ := checkAdd_shape s n
      have hi' : RaceFree (checkAdd s n).1 := by rw [e]; exact race_congr s _ rfl rfl rfl hi
      split
      · exact race_setThr _ t _ (by intro h; cases h) (by intro h; cases h) hi'
      · exact race_setThr _ t _ (by intro h; simp [TSt.holdsData, Msg.isData] at h)
          (by intro h; simp [TSt.holdsEnd, TSt.held, Msg.isEnd, Msg.isEof, Msg.isClose] at h) hi'
    · exact hi
  | close t =>
    simp only [step] at hraced ⊢; split
    · rename_i hid
      simp only [hid, if_true] at hraced
      exact race_closeLike s t false hraced hi
    · exact hi
  | peerClose t =>
    simp only [step] at hraced ⊢; split
    · rename_i hid
      simp only [hid, if_true] at hraced
      exact race_closeLike s t true hraced hi
    · exact hi
  | requestFailed t =>
    simp only [step] at hraced ⊢; split
    · rename_i hid
      simp only [hid, if_true] at hraced
      exact race_closeLike s t false hraced hi
    · exact hi
  | shutdownWrite t =>
    simp only [step] at hraced ⊢; split
    · rename_i hid
      simp only [hid, if_true] at hraced
      rw [holdOrDone_eq] at hraced ⊢
      rcases sendEof_cases s with ⟨he, e⟩ | ⟨he, e⟩
      · rw [e]; exact race_setThr s t _ (by intro h; cases h) (by intro h; cases h) hi
      · rw [e] at hraced ⊢
        exact race_flip s _ t _ rfl rfl rfl (by simpa [setThr] using hraced) rfl hi
    · exact hi
  | feedExt t code n =>
    simp only [step]
    obtain ⟨v, e⟩ := checkAdd_shape { s with recvd := s.recvd + n, discarded := s.discarded + n } n
    repeat' split
    all_goals first
      | exact hi
      | exact race_congr s _ rfl rfl rfl hi
      | (rw [e]; exact race_congr s _ rfl rfl rfl hi)
      | (rw [e]
         exact race_setThr _ t _ (by intro h; simp [TSt.holdsData, Msg.isData] at h)
           (by intro h; simp [TSt.holdsEnd, TSt.held, Msg.isEnd, Msg.isEof, Msg.isClose] at h)
           (race_congr s _ rfl rfl rfl hi))
  | peerEof => simp only [step]; split <;> first | exact hi | exact race_congr s _ rfl rfl rfl hi
  | emitFail t =>
    simp only [step]; split
    · exact race_setThr _ t _ (by intro h; cases h) (by intro h; cases h) (race_congr s _ rfl rfl rfl hi)
    · exact hi
  | unlink => simp only [step]; split <;> first | exact hi | exact race_congr s _ rfl rfl rfl hi
  | shutdownRead => exact race_congr s _ rfl rfl rfl hi
  | setMode m => exact race_congr s _ rfl rfl rfl hi
  | feed n => exact race_congr s _ rfl rfl rfl hi
  | adjust n => exact race_congr s _ rfl rfl rfl hi

theorem run_race (cfg : Cfg) (s : St) (as : List Act) (hi : RaceInv s) : RaceInv (run cfg s as) := by
  induction as generalizing s with
  | nil => exact hi
  | cons a as ih => exact ih _ (step_race cfg s a hi)

end PV.Chan

namespace PV.Chan

/-! ## once closed and EOF sent, the channel never produces a new message -/

def msgTotal (s : St) : Nat := s.wire.length + sumBy TSt.nHeld s.thr

theorem msgTotal_setThr (s : St) (t : Nat) (old x : TSt) (hr : s.thr[t]? = some old)
    (h : x.nHeld = old.nHeld) : msgTotal (setThr s t x) = msgTotal s := by
  have := sumBy_set TSt.nHeld s.thr t old x hr
  simp only [msgTotal, setThr]; omega

theorem checkAdd_closed (s : St) (n : Nat) (hc : s.closed = true) : checkAdd s n = (s, 0) := by
  simp [checkAdd, hc]

theorem closeInternal_closed (s : St) (hc : s.closed = true) : closeInternal s = (s, []) := by
  simp [closeInternal, hc]

theorem sendEof_sent (s : St) (he : s.eofSent = true) : sendEof s = (s, []) := by
  simp [sendEof, he]

theorem dead_step (cfg : Cfg) (s : St) (x : Act) (hx : ∀ t, x ≠ .emitFail t) (hc : s.closed = true)
    (he : s.eofSent = true) : msgTotal (step cfg s x) = msgTotal s := by
  have sendpath : ∀ (s' : St) (t want : Nat) (ext : Bool) (lp : Option Loop) (old : TSt),
      s.thr[t]? = some old → old.held = [] → SendOutEff2 cfg s s' t want ext lp → msgTotal s' = msgTotal s := by
    intro s' t want ext lp old hr hold h
    obtain ⟨d, y, e, ho, hopen⟩ := h
    rw [e]
    have hy : y.held = [] := by
      rcases sendOut_held cfg want ext lp y ho with h | ⟨n, _, hd⟩
      · exact h
      · have := (hopen hd).1; rw [hc] at this; cases this
    exact msgTotal_setThr { s with outWin := s.outWin - d } t old y hr (by simp [TSt.nHeld, hy, hold])
  cases x with
  | send t n ext =>
    simp only [step]; split
    · rename_i hid
      obtain ⟨r, hr⟩ := idleOf_spec s t hid
      exact sendpath _ t n ext none _ hr rfl (sendRegion_out2 cfg s t n ext none)
    · rfl
  | sendall t n ext =>
    simp only [step]; split
    · rename_i hid
      obtain ⟨r, hr⟩ := idleOf_spec s t hid
      split <;> exact msgTotal_setThr s t _ _ hr rfl
    · rfl
  | iter t =>
    simp only [step]; split
    · rename_i l ext hr
      exact sendpath _ t l.rem ext (some l) _ hr rfl (sendRegion_out2 cfg s t l.rem ext (some l))
    · rfl
  | wake t dt =>
    simp only [step]; split
    · rename_i want ext left lp hr
      exact sendpath _ t want ext lp _ hr rfl (wakeRegion_out2 cfg s t dt want ext left lp)
    · rfl
  | emit t =>
    simp only [step]; split
    · rename_i m ms k hr
      rw [holdOrDone_eq]
      have := sumBy_set TSt.nHeld s.thr t _ (holdState ms k) hr
      have hk : (holdState ms k).nHeld = ms.length := by
        cases ms with
        | nil => simp [holdState, TSt.nHeld, kontState_held]
        | cons a b => rfl
      simp only [msgTotal, setThr, TSt.nHeld, TSt.held, List.length_append, List.length_cons, List.length_nil] at *
      omega
    · rfl
  | recv t k err =>
    simp only [step]; split
    · rename_i hid
      obtain ⟨r, hr⟩ := idleOf_spec s t hid
      repeat' split
      all_goals first
        | rfl
        | exact msgTotal_setThr _ t _ _ hr rfl
    · rfl
  | check t =>
    simp only [step]; split
    · rename_i n hr
      rw [checkAdd_closed s n hc]
      simp only [if_true]
      exact msgTotal_setThr s t _ _ hr rfl
    · rfl
  | close t =>
    simp only [step]; split
    · rename_i hid
      obtain ⟨r, hr⟩ := idleOf_spec s t hid
      rw [closeInternal_closed s hc, holdOrDone_eq]
      exact msgTotal_setThr s t _ _ hr rfl
    · rfl
  | peerClose t =>
    simp only [step]; split
    · rename_i hid
      obtain ⟨r, hr⟩ := idleOf_spec s t hid
      rw [closeInternal_closed s hc, holdOrDone_eq]
      exact msgTotal_setThr { s with linked := false } t _ _ hr rfl
    · rfl
  | requestFailed t =>
    simp only [step]; split
    · rename_i hid
      obtain ⟨r, hr⟩ := idleOf_spec s t hid
      rw [closeInternal_closed s hc, holdOrDone_eq]
      exact msgTotal_setThr s t _ _ hr rfl
    · rfl
  | shutdownWrite t =>
    simp only [step]; split
    · rename_i hid
      obtain ⟨r, hr⟩ := idleOf_spec s t hid
      rw [sendEof_sent s he, holdOrDone_eq]
      exact msgTotal_setThr s t _ _ hr rfl
    · rfl
  | feedExt t code n =>
    simp only [step]
    have e : checkAdd { s with recvd := s.recvd + n, discarded := s.discarded + n } n =
        ({ s with recvd := s.recvd + n, discarded := s.discarded + n }, 0) := checkAdd_closed _ n hc
    repeat' split
    all_goals first
      | rfl
      | (rw [e]; rfl)
      | (rename_i h; rw [e] at h; exact absurd rfl h)
  | peerEof => simp only [step]; split <;> rfl
  | emitFail t => exact absurd rfl (hx t)
  | unlink => simp only [step, hc, if_true]
  | shutdownRead => rfl
  | setMode m => rfl
  | feed n => rfl
  | adjust n => rfl

/-- … and a failed wire write only drops messages -/
theorem dead_step_le (cfg : Cfg) (s : St) (x : Act) (hc : s.closed = true) (he : s.eofSent = true) :
    msgTotal (step cfg s x) ≤ msgTotal s := by
  by_cases h : ∃ t, x = .emitFail t
  · obtain ⟨t, rfl⟩ := h
    simp only [step]; split
    · rename_i m ms k hr
      have := sumBy_set TSt.nHeld s.thr t _ (.idle .sshError) hr
      have z : (TSt.idle Res.sshError).nHeld = 0 := rfl
      simp only [msgTotal, setThr]; omega
    · exact Nat.le_refl _
  · exact Nat.le_of_eq (dead_step cfg s x (fun t e => h ⟨t, e⟩) hc he)

/-- the peer's CLOSE on an open channel: we are closed, released from the transport's map, and the handling
    thread holds our EOF (unless already sent) and our CLOSE -/
theorem peerClose_open (cfg : Cfg) (s : St) (t : Nat) (r : Res) (hr : s.thr[t]? = some (.idle r))
    (ha : s.active = true) (hc : s.closed = false) :
    let s' := step cfg s (.peerClose t)
    s'.closed = true ∧ s'.linked = false ∧ s'.eofSent = true ∧
    s'.thr[t]? = some (.hold ((if s.eofSent then [] else [.eof]) ++ [.close]) .retNone) := by
  have hid : idleOf s t = true := by simp [idleOf, hr]
  have hlt : t < s.thr.length := (List.getElem?_eq_some_iff.1 hr).1
  simp only [step, hid, if_true]
  rw [holdOrDone_eq]
  rcases closeInternal_cases s with ⟨h0, _⟩ | ⟨_, _, he, e⟩ | ⟨_, _, he, e⟩
  · rcases h0 with h | h
    · rw [ha] at h; cases h
    · rw [hc] at h; cases h
  · rw [e]; simp [setThr, setClosed, he, holdState, hlt]
  · rw [e]; simp [setThr, setClosed, he, holdState, hlt]

/-- the peer's CLOSE after we closed: nothing more is sent, the channel is released -/
theorem peerClose_closed (cfg : Cfg) (s : St) (t : Nat) (r : Res) (hr : s.thr[t]? = some (.idle r))
    (hc : s.closed = true) :
    let s' := step cfg s (.peerClose t)
    s'.linked = false ∧ s'.thr[t]? = some (.idle .none) ∧ s'.wire = s.wire := by
  have hid : idleOf s t = true := by simp [idleOf, hr]
  have hlt : t < s.thr.length := (List.getElem?_eq_some_iff.1 hr).1
  simp only [step, hid, if_true]
  rw [holdOrDone_eq, closeInternal_closed s hc]
  simp [setThr, holdState, kontState, hlt]

end PV.Chan
