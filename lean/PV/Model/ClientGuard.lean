/-
  PV.Model.ClientGuard — executable model of the client-side guards in front of credentials:

    transport.py  Transport.auth_none/password/publickey/interactive(+_dumb)/gssapi_* (and
                  ServiceRequestingTransport.ensure_session): `if (not self.active) or (not self.initial_kex_done): raise`
                  kex reply -> Transport._verify_key (signature over H) -> _activate_outbound (NEWKEYS sent, outbound
                  cipher switched on) ; NEWKEYS -> Transport._parse_newkeys (initial_kex_done = True)
                  Transport.connect(hostkey=…): start_client, comparison of name and bytes, then auth_*
    auth_handler.py AuthHandler._request_auth (SERVICE_REQUEST) / _parse_service_accept (USERAUTH_REQUEST with
                  the credential)
    client.py     SSHClient.connect: host-key name (`host` or `[host]:port`), known-hosts lookup, comparison with the
                  entry of the server key's type, missing-host-key policy, then authentication

  Part 1 is a state machine over *events* (API calls by the application thread, messages handled by the
  transport thread); its wire log records for every message sent whether the outbound cipher was on.
  Part 2 are the two `connect` decision procedures as functions.  Mathlib-free.
-/
import PV.Base.Bytes
namespace PV.ClientGuard
open PV

/-! ## part 1: the transport-level lifecycle -/

/-- what travels in a credential-bearing USERAUTH_REQUEST -/
inductive Cred
  | password (pw : Bytes)
  | publickey (sig : Bytes)
  | interactive (responses : List Bytes)
  | none                           -- "none" / gssapi: carries no secret
  deriving Repr, DecidableEq

def Cred.isSecret : Cred → Bool
  | .none => false
  | _ => true

inductive Event
  | startClient                          -- start_client(): active = True, thread started
  | kexReply (sigOk : Bool)              -- kex reply handled: _verify_key(host key, signature over H)
  | newkeys                              -- MSG_NEWKEYS handled by _parse_newkeys
  | authCall (c : Cred)                  -- application calls Transport.auth_*(…)
  | serviceAccept                        -- MSG_SERVICE_ACCEPT("ssh-userauth") handled
  | infoRequest (answers : List Bytes)   -- MSG_USERAUTH_INFO_REQUEST handled (interactive handler's answers)
  | die                                  -- connection lost / close()
  deriving Repr, DecidableEq

/-- a message put on the wire by the client, with the state of the outbound cipher at that moment -/
inductive Wire
  | newkeys (encrypted : Bool)
  | serviceRequest (encrypted : Bool)
  | userauth (c : Cred) (encrypted : Bool)
  | infoResponse (answers : List Bytes) (encrypted : Bool)
  deriving Repr, DecidableEq

inductive Res
  | ok
  | raisedNoSession            -- SSHException("No existing session")
  | ignored                    -- event not applicable in this state (no effect)
  | died                       -- the transport thread ended (exception in the handler)
  deriving Repr, DecidableEq

structure St where
  active : Bool := false
  hostKeyVerified : Bool := false      -- _verify_key succeeded (host_key set)
  outCipher : Bool := false            -- outbound cipher switched on (_activate_outbound)
  kexDone : Bool := false              -- initial_kex_done
  pending : Option Cred := none        -- auth_handler with a credential waiting for SERVICE_ACCEPT
  interactive : Bool := false          -- auth_method == "keyboard-interactive" (answers INFO_REQUESTs)
  wire : List Wire := []
  deriving Repr, DecidableEq

def init : St := {}

def send (s : St) (w : Bool → Wire) : St := { s with wire := s.wire ++ [w s.outCipher] }

def step (s : St) : Event → St × Res
  | .startClient => if s.active then (s, .ignored) else ({ s with active := true }, .ok)
  | .kexReply sigOk =>
    if !s.active || s.hostKeyVerified then (s, .ignored)
    else if !sigOk then ({ s with active := false }, .died)       -- "Signature verification failed"
    else
      -- host_key = key; _activate_outbound: NEWKEYS goes out under the old (no) cipher, then the new one is set
      let s1 := send { s with hostKeyVerified := true } .newkeys
      ({ s1 with outCipher := true }, .ok)
  | .newkeys =>
    if !s.active then (s, .ignored)
    else if !s.hostKeyVerified then ({ s with active := false }, .died)   -- not in _expected_packet
    else ({ s with kexDone := true }, .ok)
  | .authCall c =>
    if !s.active || !s.kexDone then (s, .raisedNoSession)
    else
      let s1 := send s .serviceRequest
      ({ s1 with pending := some c, interactive := (match c with | .interactive _ => true | _ => false) }, .ok)
  | .serviceAccept =>
    if !s.active then (s, .ignored)
    else match s.pending with
      | none => (s, .ignored)
      | some c =>
        let c' := match c with | .interactive _ => Cred.none | x => x   -- the request itself carries no answers
        -- the handler object stays installed: a further SERVICE_ACCEPT makes it send the request again
        (send s (.userauth c'), .ok)
  | .infoRequest answers =>
    if !s.active then (s, .ignored)
    else if !s.interactive then ({ s with active := false }, .died)       -- "Illegal info request from server"
    else (send s (.infoResponse answers), .ok)
  | .die => ({ s with active := false }, .ok)

def run : St → List Event → St
  | s, [] => s
  | s, e :: es => run (step s e).1 es

/-- does this wire message carry a secret (password, signature, interactive answers)? -/
def Wire.secret : Wire → Bool
  | .userauth c _ => c.isSecret
  | .infoResponse a _ => !a.isEmpty
  | _ => false

def Wire.encrypted : Wire → Bool
  | .newkeys e => e
  | .serviceRequest e => e
  | .userauth _ e => e
  | .infoResponse _ e => e

/-! ## part 2: the two `connect` procedures -/

/-- a host key as the comparisons see it: algorithm name and public bytes -/
structure Key where
  name : Bytes
  blob : Bytes
  deriving Repr, DecidableEq

inductive Outcome
  | authenticate              -- goes on to auth_*: credentials will be offered
  | badHostKey                -- SSHException("Bad host key from server") / BadHostKeyException
  | policyRejected            -- the missing-host-key policy raised
  | noAuthRequested           -- Transport.connect without password/pkey
  deriving Repr, DecidableEq

/-- `Transport.connect(hostkey=given, …)` after `start_client()` returned (kex done, signature verified) -/
def transportConnect (given : Option Key) (presented : Key) (wantsAuth : Bool) : Outcome :=
  match given with
  | some g =>
    if g.name ≠ presented.name ∨ g.blob ≠ presented.blob then .badHostKey
    else if wantsAuth then .authenticate else .noAuthRequested
  | none => if wantsAuth then .authenticate else .noAuthRequested

/-- `server_hostkey_name` of SSHClient.connect -/
def hostKeyName (host : Bytes) (port : Nat) (portText : Bytes) : Bytes :=
  if port = 22 then host else [91] ++ host ++ [93, 58] ++ portText     -- "[host]:port"

/-- the entries known for the name: key type → key, in file order (`HostKeys.lookup`; `none` = no entry) -/
abbrev Known := Option (List Key)

def findType (ks : List Key) (name : Bytes) : Option Key := ks.find? (·.name = name)

/-- SSHClient.connect between `start_client()` and `_auth` -/
def sshClientConnect (known : Known) (presented : Key) (policyAccepts : Bool) : Outcome :=
  match known with
  | none => if policyAccepts then .authenticate else .policyRejected
  | some ks =>
    match findType ks presented.name with
    | some k => if k = presented then .authenticate else .badHostKey
    | none => .badHostKey

/-- the two stores of SSHClient: `_system_host_keys` (load_system_host_keys) is consulted first; only when it has
no entry at all for the name is `_host_keys` (load_host_keys / get_host_keys) consulted -/
def effectiveKnown (system user : Known) : Known :=
  match system with
  | some ks => some ks
  | none => user

def sshClientConnect2 (system user : Known) (presented : Key) (policyAccepts : Bool) : Outcome :=
  sshClientConnect (effectiveKnown system user) presented policyAccepts

/-- SSHClient.connect with the GSS-API option: the host-key block is skipped only when a gss-* key exchange was
actually NEGOTIATED (`transport.gss_kex_used`: the host was authenticated by GSS-API) - not merely requested
(`gss_kex=True` against a server that offers no gss-* method runs an ordinary key exchange) -/
def sshClientConnectGss (gssKexUsed : Bool) (system user : Known) (presented : Key) (policyAccepts : Bool) : Outcome :=
  if gssKexUsed then .authenticate else sshClientConnect2 system user presented policyAccepts

end PV.ClientGuard
