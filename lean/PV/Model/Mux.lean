/-
  PV.Model.Mux — channel byte streams: the transport's dispatch of channel messages by channel id
  (transport.py, run loop: `chan = self._channels.get(chanid)` → `_channel_handler_table[ptype](chan, m)`) and, per
  channel, `Channel._feed` / `_feed_extended` / `set_combine_stderr` / `recv` / `recv_stderr` / `_handle_eof` /
  exit-status (channel.py) over two FIFOs (buffered_pipe.py, see PV.Model.BufferedPipe / C26).

  Concurrency convention: after `fix: set_combine_stderr moves buffered stderr data under the channel lock`
  `_feed_extended` (flag test + feed) and `set_combine_stderr` (flag update + empty + feed) are each one region
  under `Channel.lock`; `_feed`, `recv`, `recv_stderr` are one `BufferedPipe` region each.  The transport thread
  delivers messages one after the other, application threads read and switch combining at any time: a schedule is
  a `List Act`.  `stepU` additionally has the two regions of the *old* `set_combine_stderr` (for the witness).
-/
import PV.Base.Bytes
namespace PV.Mux
open PV

inductive Res where
  | data (b : Bytes)
  | timeout            -- nothing buffered and the stream is still open (a blocking recv would wait)
  deriving DecidableEq, Repr

structure Chan where
  out : Bytes := []              -- in_buffer
  err : Bytes := []              -- in_stderr_buffer
  combine : Bool := false
  eof : Bool := false
  exit : Option Nat := none      -- exit_status (None ≙ -1)
  /-- old code only: data taken out of the stderr buffer by set_combine_stderr but not yet fed into stdout -/
  pending : Bytes := []
  -- ghosts: everything handed to the application so far
  outRead : Bytes := []
  errRead : Bytes := []
  last : Option Res := none      -- result of the most recent recv / recv_stderr
  deriving DecidableEq, Repr

inductive Act where
  | data (c : Nat) (d : Bytes)                 -- CHANNEL_DATA
  | ext (c : Nat) (code : Nat) (d : Bytes)     -- CHANNEL_EXTENDED_DATA
  | eof (c : Nat)                              -- CHANNEL_EOF
  | exitStatus (c : Nat) (v : Nat)             -- CHANNEL_REQUEST "exit-status"
  | recv (c : Nat) (n : Nat)
  | recvErr (c : Nat) (n : Nat)
  | setCombine (c : Nat) (b : Bool)
  | setCombineOldA (c : Nat)                   -- old set_combine_stderr(True), region under the lock
  | setCombineOldB (c : Nat)                   -- old set_combine_stderr(True), the feed after releasing the lock
  deriving DecidableEq, Repr

def Act.chan : Act → Nat
  | .data c _ | .ext c _ _ | .eof c | .exitStatus c _ | .recv c _ | .recvErr c _ | .setCombine c _
  | .setCombineOldA c | .setCombineOldB c => c

/-- BufferedPipe.read(n, timeout) on a buffer (C26): nonblocking view -/
def readBuf (buf : Bytes) (closed : Bool) (n : Nat) : Res × Bytes :=
  if buf.isEmpty then (if closed then (.data [], buf) else (.timeout, buf))
  else (.data (buf.take n), buf.drop n)

def Res.bytes : Res → Bytes
  | .data b => b
  | .timeout => []

/-- what one action does to the channel it addresses -/
def chanStep (ch : Chan) : Act → Chan
  | .data _ d => { ch with out := ch.out ++ d }
  | .ext _ code d =>
    if code != 1 then ch                                   -- unknown extended data type: discarded
    else if ch.combine then { ch with out := ch.out ++ d } else { ch with err := ch.err ++ d }
  | .eof _ => { ch with eof := true }
  | .exitStatus _ v => { ch with exit := some v }
  | .recv _ n =>
    let (r, rest) := readBuf ch.out ch.eof n
    { ch with out := rest, outRead := ch.outRead ++ r.bytes, last := some r }
  | .recvErr _ n =>
    let (r, rest) := readBuf ch.err ch.eof n
    { ch with err := rest, errRead := ch.errRead ++ r.bytes, last := some r }
  | .setCombine _ b =>
    if b && !ch.combine then { ch with combine := true, out := ch.out ++ ch.err, err := [] }
    else { ch with combine := b }
  | .setCombineOldA _ =>
    if !ch.combine then { ch with combine := true, pending := ch.pending ++ ch.err, err := [] } else ch
  | .setCombineOldB _ => { ch with out := ch.out ++ ch.pending, pending := [] }

/-- the transport: channel id ↦ channel (`none`: no such channel — the message is not delivered anywhere) -/
abbrev Mux := Nat → Option Chan

def step (m : Mux) (a : Act) : Mux :=
  match m a.chan with
  | none => m
  | some ch => fun c => if c = a.chan then some (chanStep ch a) else m c

def run (m : Mux) (acts : List Act) : Mux := acts.foldl step m
def runChan (ch : Chan) (acts : List Act) : Chan := acts.foldl chanStep ch

/-- `k` freshly opened channels with ids 0 … k-1 -/
def fresh (k : Nat) : Mux := fun c => if c < k then some {} else none

/-! ## executable channel table (what the driver runs): a list indexed by channel id, refining `Mux` -/

abbrev Table := List (Option Chan)

def Table.toMux (l : Table) : Mux := fun c => (l[c]?).join

def stepL (l : Table) (a : Act) : Table :=
  match (l[a.chan]?).join with
  | none => l
  | some ch => l.set a.chan (some (chanStep ch a))

def freshL (k : Nat) : Table := List.replicate k (some {})

/-! ## what the peer sent, as a function of the history alone -/

/-- bytes the peer wrote to stdout of channel `c` -/
def sentOut (c : Nat) : List Act → Bytes
  | [] => []
  | .data c' d :: rest => (if c' = c then d else []) ++ sentOut c rest
  | _ :: rest => sentOut c rest

/-- bytes the peer wrote to stderr (extended data type 1) of channel `c` -/
def sentErr (c : Nat) : List Act → Bytes
  | [] => []
  | .ext c' code d :: rest => (if c' = c ∧ code = 1 then d else []) ++ sentErr c rest
  | _ :: rest => sentErr c rest

/-- everything the peer wrote to channel `c`, both streams, in arrival order -/
def sentBoth (c : Nat) : List Act → Bytes
  | [] => []
  | .data c' d :: rest => (if c' = c then d else []) ++ sentBoth c rest
  | .ext c' code d :: rest => (if c' = c ∧ code = 1 then d else []) ++ sentBoth c rest
  | _ :: rest => sentBoth c rest

def lastExit (c : Nat) : List Act → Option Nat
  | [] => none
  | .exitStatus c' v :: rest => (match lastExit c rest with | some w => some w | none => if c' = c then some v else none)
  | _ :: rest => lastExit c rest

/-- the history never switches combining on for channel `c` (old or new way) -/
def neverCombines (c : Nat) : List Act → Bool
  | [] => true
  | .setCombine c' b :: rest => !(c' == c && b) && neverCombines c rest
  | .setCombineOldA c' :: rest => !(c' == c) && neverCombines c rest
  | _ :: rest => neverCombines c rest

/-- the history keeps combining as it is for channel `c`: no switch off, no old-style switch -/
def keepsCombining (c : Nat) : List Act → Bool
  | [] => true
  | .setCombine c' b :: rest => !(c' == c && !b) && keepsCombining c rest
  | .setCombineOldA _ :: _ => false
  | .setCombineOldB _ :: _ => false
  | _ :: rest => keepsCombining c rest

def noOld : List Act → Bool
  | [] => true
  | .setCombineOldA _ :: _ => false
  | .setCombineOldB _ :: _ => false
  | _ :: rest => noOld rest

end PV.Mux
