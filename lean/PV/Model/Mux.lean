/-
  PV.Model.Mux — channel byte streams: the transport's dispatch of channel messages by channel id
  (transport.py, run loop: `chan = self._channels.get(chanid)` → `_channel_handler_table[ptype](chan, m)`) and, per
  channel, `Channel._feed` / `_feed_extended` / `set_combine_stderr` / `recv` / `recv_stderr` / `_handle_eof` /
  exit-status (channel.py) over two FIFOs (buffered_pipe.py, see PV.Model.BufferedPipe / C26).

  Concurrency convention: after `fix: set_combine_stderr moves buffered stderr data under the channel lock`
  `_feed_extended` (flag test + feed) and `set_combine_stderr` (flag update + empty + feed) are each one region
  under `Channel.lock`; `_feed`, `recv`, `recv_stderr` are one `BufferedPipe` region each.  The transport thread
  delivers messages one after the other, application threads read and switch combining at any time: a schedule is
  a `List Act`.  `stepU` additionally has the two regions of the *old* `set_combine_stderr` (for the witness).
-/
import PV.Base.Wire
namespace PV.Mux
open PV PV.Wire

inductive Res where
  | data (b : Bytes)
  | timeout            -- nothing buffered and the stream is still open (a blocking recv would wait)
  deriving DecidableEq, Repr

structure Chan where
  out : Bytes := []              -- in_buffer
  err : Bytes := []              -- in_stderr_buffer
  combine : Bool := false
  eof : Bool := false
  closed : Bool := false         -- Channel.closed (local close(), peer CLOSE, or the transport went away)
  linked : Bool := true          -- still registered in Transport._channels (messages for its id reach it)
  exit : Option Nat := none      -- exit_status (None ≙ -1)
  /-- old code only: data taken out of the stderr buffer by set_combine_stderr but not yet fed into stdout -/
  pending : Bytes := []
  -- ghosts: everything handed to the application so far
  outRead : Bytes := []
  errRead : Bytes := []
  last : Option Res := none      -- result of the most recent recv / recv_stderr
  deriving DecidableEq, Repr

inductive Act where
  | data (c : Nat) (d : Bytes)                 -- CHANNEL_DATA
  | ext (c : Nat) (code : Nat) (d : Bytes)     -- CHANNEL_EXTENDED_DATA
  | eof (c : Nat)                              -- CHANNEL_EOF
  | exitStatus (c : Nat) (v : Nat)             -- CHANNEL_REQUEST "exit-status"
  | recv (c : Nat) (n : Nat)
  | recvErr (c : Nat) (n : Nat)
  | setCombine (c : Nat) (b : Bool)
  | close (c : Nat)                            -- the application calls Channel.close()
  | remoteClose (c : Nat)                      -- CHANNEL_CLOSE from the peer: _handle_close → _unlink_channel
  | open (c : Nat)                             -- a new channel is registered under id c (only if c is not live)
  | setCombineOldA (c : Nat)                   -- old set_combine_stderr(True), region under the lock
  | setCombineOldB (c : Nat)                   -- old set_combine_stderr(True), the feed after releasing the lock
  deriving DecidableEq, Repr

def Act.chan : Act → Nat
  | .data c _ | .ext c _ _ | .eof c | .exitStatus c _ | .recv c _ | .recvErr c _ | .setCombine c _
  | .close c | .remoteClose c | .open c | .setCombineOldA c | .setCombineOldB c => c

/-- messages of the peer (dispatched by the run loop), as opposed to calls of the application -/
def Act.arrival : Act → Bool
  | .data _ _ | .ext _ _ _ | .eof _ | .exitStatus _ _ | .remoteClose _ => true
  | _ => false

/-- BufferedPipe.read(n, timeout) on a buffer (C26): nonblocking view -/
def readBuf (buf : Bytes) (closed : Bool) (n : Nat) : Res × Bytes :=
  if buf.isEmpty then (if closed then (.data [], buf) else (.timeout, buf))
  else (.data (buf.take n), buf.drop n)

def Res.bytes : Res → Bytes
  | .data b => b
  | .timeout => []

/-- what one action does to the channel it addresses -/
def chanStep (ch : Chan) : Act → Chan
  | .data _ d => { ch with out := ch.out ++ d }
  | .ext _ code d =>
    if code != 1 then ch                                   -- unknown extended data type: discarded
    else if ch.combine then { ch with out := ch.out ++ d } else { ch with err := ch.err ++ d }
  | .eof _ => { ch with eof := true }
  | .exitStatus _ v => { ch with exit := some v }
  | .recv _ n =>
    let (r, rest) := readBuf ch.out (ch.eof || ch.closed) n
    { ch with out := rest, outRead := ch.outRead ++ r.bytes, last := some r }
  | .recvErr _ n =>
    let (r, rest) := readBuf ch.err (ch.eof || ch.closed) n
    { ch with err := rest, errRead := ch.errRead ++ r.bytes, last := some r }
  | .setCombine _ b =>
    if b && !ch.combine then { ch with combine := true, out := ch.out ++ ch.err, err := [] }
    else { ch with combine := b }
  | .close _ => { ch with closed := true }
  | .remoteClose _ => { ch with closed := true, linked := false }
  | .open _ => ch
  | .setCombineOldA _ =>
    if !ch.combine then { ch with combine := true, pending := ch.pending ++ ch.err, err := [] } else ch
  | .setCombineOldB _ => { ch with out := ch.out ++ ch.pending, pending := [] }

/-- the transport: channel id ↦ channel (`none`: that id was never used), and whether the run loop is still going -/
structure Mux where
  tab : Nat → Option Chan
  alive : Bool := true

/-- the run loop ended: every channel is unlinked and closed (`Channel._unlink` → `_set_closed`); buffered data stays
readable -/
def kill (ch : Chan) : Chan := { ch with closed := true, linked := false }

def setTab (m : Mux) (c : Nat) (ch : Chan) : Mux := { m with tab := fun i => if i = c then some ch else m.tab i }

/-- the run loop hits a message for an id that was never used: it ends, every channel is unlinked and closed -/
def die (m : Mux) : Mux := { tab := fun i => (m.tab i).map kill, alive := false }

/-- a message of the peer for channel `a.chan` (run loop alive) -/
def deliver (m : Mux) (a : Act) : Mux :=
  match m.tab a.chan with
  | none => die m                                               -- "unknown channel"
  | some ch => if ch.linked then setTab m a.chan (chanStep ch a) else m   -- registered → handler; dead → dropped

/-- a call of the application on its Channel object (registered or not) -/
def appCall (m : Mux) (a : Act) : Mux :=
  match m.tab a.chan with
  | none => m
  | some ch => setTab m a.chan (chanStep ch a)

/-- a fresh channel is registered under id `c`, provided `c` is not live (`_next_channel` never hands out a live id) -/
def openChan (m : Mux) (c : Nat) : Mux :=
  match m.tab c with
  | some ch => if ch.linked then m else setTab m c {}
  | none => setTab m c {}

/-- Transport.run, channel branch, plus the application's calls -/
def step (m : Mux) (a : Act) : Mux :=
  match a with
  | .open c => if m.alive then openChan m c else m
  | _ => if a.arrival then (if m.alive then deliver m a else m) else appCall m a

def run (m : Mux) (acts : List Act) : Mux := acts.foldl step m
def runChan (ch : Chan) (acts : List Act) : Chan := acts.foldl chanStep ch

/-- `k` freshly opened channels with ids 0 … k-1 -/
def fresh (k : Nat) : Mux := { tab := fun c => if c < k then some {} else none }

/-! ## executable channel table (what the driver runs): an association list (newest binding first), refining `Mux` -/

structure Table where
  l : List (Nat × Chan)
  alive : Bool := true

def lookup (l : List (Nat × Chan)) (c : Nat) : Option Chan := (l.find? (fun p => p.1 == c)).map (·.2)

def Table.toMux (t : Table) : Mux := { tab := lookup t.l, alive := t.alive }

def stepL (t : Table) (a : Act) : Table :=
  match a with
  | .open c =>
    if t.alive then
      match lookup t.l c with
      | some ch => if ch.linked then t else { t with l := (c, {}) :: t.l }
      | none => { t with l := (c, {}) :: t.l }
    else t
  | _ =>
    if a.arrival then
      if t.alive then
        match lookup t.l a.chan with
        | none => { l := t.l.map (fun p => (p.1, kill p.2)), alive := false }
        | some ch => if ch.linked then { t with l := (a.chan, chanStep ch a) :: t.l } else t
      else t
    else
      match lookup t.l a.chan with
      | none => t
      | some ch => { t with l := (a.chan, chanStep ch a) :: t.l }

def freshList : Nat → List (Nat × Chan)
  | 0 => []
  | k + 1 => (k, {}) :: freshList k

def freshL (k : Nat) : Table := { l := freshList k }

/-! ## the exit-status request on the wire (`Channel.send_exit_status` → `Channel._handle_request`) -/

/-- "exit-status" -/
def exitStatusName : Bytes := [101, 120, 105, 116, 45, 115, 116, 97, 116, 117, 115]

/-- what follows the recipient channel id: string "exit-status", boolean FALSE (want-reply), uint32 status — RFC 4254 §6.10;
the status is a fixed four-byte big-endian field -/
def exitStatusBody (v : Nat) : Bytes := encodeAll [.str exitStatusName, .bool false, .u32 v]

/-- the whole message `send_exit_status(v)` hands to the transport for a channel whose remote id is `rid` -/
def exitStatusRequest (rid v : Nat) : Bytes := encodeAll [.byte 98, .u32 rid] ++ exitStatusBody v

/-- `_handle_request` on the bytes after the channel id: request name, want-reply flag, and — for "exit-status" — the
status read with `get_int` -/
def handleRequestExit (body : Bytes) : Option Nat :=
  let (name, r1) := Rd.getString { content := body, pos := 0 }
  let (_, r2) := r1.getBytes 1
  if name = exitStatusName then some (r2.getInt).1 else none

/-! ## what the peer sent, as a function of the history alone -/

/-- bytes the peer wrote to stdout of channel `c` -/
def sentOut (c : Nat) : List Act → Bytes
  | [] => []
  | .data c' d :: rest => (if c' = c then d else []) ++ sentOut c rest
  | _ :: rest => sentOut c rest

/-- bytes the peer wrote to stderr (extended data type 1) of channel `c` -/
def sentErr (c : Nat) : List Act → Bytes
  | [] => []
  | .ext c' code d :: rest => (if c' = c ∧ code = 1 then d else []) ++ sentErr c rest
  | _ :: rest => sentErr c rest

/-- everything the peer wrote to channel `c`, both streams, in arrival order -/
def sentBoth (c : Nat) : List Act → Bytes
  | [] => []
  | .data c' d :: rest => (if c' = c then d else []) ++ sentBoth c rest
  | .ext c' code d :: rest => (if c' = c ∧ code = 1 then d else []) ++ sentBoth c rest
  | _ :: rest => sentBoth c rest

def lastExit (c : Nat) : List Act → Option Nat
  | [] => none
  | .exitStatus c' v :: rest => (match lastExit c rest with | some w => some w | none => if c' = c then some v else none)
  | _ :: rest => lastExit c rest

/-- the history never switches combining on for channel `c` (old or new way) -/
def neverCombines (c : Nat) : List Act → Bool
  | [] => true
  | .setCombine c' b :: rest => !(c' == c && b) && neverCombines c rest
  | .setCombineOldA c' :: rest => !(c' == c) && neverCombines c rest
  | _ :: rest => neverCombines c rest

/-- the history keeps combining as it is for channel `c`: no switch off, no old-style switch -/
def keepsCombining (c : Nat) : List Act → Bool
  | [] => true
  | .setCombine c' b :: rest => !(c' == c && !b) && keepsCombining c rest
  | .setCombineOldA _ :: _ => false
  | .setCombineOldB _ :: _ => false
  | _ :: rest => keepsCombining c rest

/-- channel `c` stays registered through the history: the peer does not close it and it is not re-opened -/
def staysLinked (c : Nat) : List Act → Bool
  | [] => true
  | .remoteClose c' :: rest => !(c' == c) && staysLinked c rest
  | .open c' :: rest => !(c' == c) && staysLinked c rest
  | _ :: rest => staysLinked c rest

def noOld : List Act → Bool
  | [] => true
  | .setCombineOldA _ :: _ => false
  | .setCombineOldB _ :: _ => false
  | _ :: rest => noOld rest

end PV.Mux
