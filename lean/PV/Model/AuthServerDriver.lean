/-
  Line protocol for the AuthServer model (shared by Driver/C14, C15, C16).
    new <sid-hex>                       → "ok"            (fresh connection after the initial key exchange)
    msg <ptype> <payload-hex> k=v …     → observation of one step
  env tokens (all optional, defaults = `Env` defaults):
    seq=N gss=0|1 rnone=N rpw=N rpk=N rgm=N rgk=N rint=<ires> rires=<ires> key=<hex>|none mech=0|1 mic=0|1
    kctx=0|1 acc=raise|tok:none|tok:<hex> oids=<hex> allowed=<hex> banner=none|<hex>:<hex> ddrop=0|1 dnew=N
    signed=<hex> sigok=0|1     (signature scheme of this step: verify k m s := sigok ∧ m = signed)
  <ires> = c:N | q:<name>:<instr>:<prompt>/<0|1>,…      (hex fields, "-" = empty, no prompts: trailing ':' then '-')
  reply: cbs=<c1>|<c2>…;sent=<hex>,<hex>…;exc=<enum>;active=0|1;authed=0|1;deleg=0|1;chans=N
-/
import PV.Model.AuthServer
import PV.Base.DriverIO
namespace PV.AuthServer
open PV PV.Wire

def parseBool? (v : String) : Option Bool :=
  if v == "1" then some true else if v == "0" then some false else none

def parsePrompts (v : String) : Option (List (Bytes × Bool)) :=
  if v == "-" then some [] else
  (v.splitOn ",").mapM fun p =>
    match p.splitOn "/" with
    | [h, e] => do
      let hb ← ofHex? h
      let eb ← parseBool? e
      pure (hb, eb)
    | _ => none

def parseIRes (v : String) : Option IRes :=
  match v.splitOn ":" with
  | ["c", n] => n.toNat?.map .code
  | ["q", nm, ins, ps] => do
    let a ← ofHex? nm
    let b ← ofHex? ins
    let c ← parsePrompts ps
    pure (.query ⟨a, b, c⟩)
  | _ => none

structure Parsed where
  env : Env := {}
  signed : Bytes := []
  sigok : Bool := false

def applyTok (p : Parsed) (t : String) : Option Parsed :=
  match t.splitOn "=" with
  | [k, v] =>
    let e := p.env
    match k with
    | "seq" => v.toNat?.map fun n => { p with env := { e with seqno := n } }
    | "gss" => (parseBool? v).map fun b => { p with env := { e with gssEnabled := b } }
    | "rnone" => v.toNat?.map fun n => { p with env := { e with rNone := n } }
    | "rpw" => v.toNat?.map fun n => { p with env := { e with rPassword := n } }
    | "rpk" => v.toNat?.map fun n => { p with env := { e with rPubkey := n } }
    | "rgm" => v.toNat?.map fun n => { p with env := { e with rGssMic := n } }
    | "rgk" => v.toNat?.map fun n => { p with env := { e with rGssKeyex := n } }
    | "rint" => (parseIRes v).map fun r => { p with env := { e with rInter := r } }
    | "rires" => (parseIRes v).map fun r => { p with env := { e with rIResp := r } }
    | "key" => if v == "none" then some { p with env := { e with keyCanon := none } }
               else (ofHex? v).map fun b => { p with env := { e with keyCanon := some b } }
    | "mech" => (parseBool? v).map fun b => { p with env := { e with mechOk := b } }
    | "mic" => (parseBool? v).map fun b => { p with env := { e with micOk := b } }
    | "kctx" => (parseBool? v).map fun b => { p with env := { e with kexCtx := b } }
    | "acc" =>
      if v == "raise" then some { p with env := { e with accept := .raises } }
      else match v.splitOn ":" with
        | ["tok", "none"] => some { p with env := { e with accept := .token none } }
        | ["tok", h] => (ofHex? h).map fun b => { p with env := { e with accept := .token (some b) } }
        | _ => none
    | "oids" => (ofHex? v).map fun b => { p with env := { e with gssOids := b } }
    | "allowed" => (ofHex? v).map fun b => { p with env := { e with allowed := b } }
    | "banner" =>
      if v == "none" then some { p with env := { e with banner := none } }
      else match v.splitOn ":" with
        | [a, b] => do
          let x ← ofHex? a
          let y ← ofHex? b
          pure { p with env := { e with banner := some (x, y) } }
        | _ => none
    | "ddrop" => (parseBool? v).map fun b => { p with env := { e with delegDrops := b } }
    | "dnew" => v.toNat?.map fun n => { p with env := { e with delegNewChans := n } }
    | "signed" => (ofHex? v).map fun b => { p with signed := b }
    | "sigok" => (parseBool? v).map fun b => { p with sigok := b }
    | _ => none
  | _ => none

def parseToks : Parsed → List String → Option Parsed
  | p, [] => some p
  | p, t :: ts => (applyTok p t).bind fun p' => parseToks p' ts

def showOpt (u : Option Bytes) : String :=
  match u with
  | none => "NoneType"
  | some b => toHexTok b

def showCb : Cb → String
  | .enableGss => "enable_gss"
  | .banner => "banner"
  | .allowed u => "allowed(" ++ showOpt u ++ ")"
  | .authNone u => "none(" ++ toHexTok u ++ ")"
  | .authPassword u pw => "password(" ++ toHexTok u ++ "," ++ toHexTok pw ++ ")"
  | .authPubkey u k => "publickey(" ++ toHexTok u ++ "," ++ toHexTok k ++ ")"
  | .authInter u sub => "interactive(" ++ toHexTok u ++ "," ++ toHexTok sub ++ ")"
  | .authIResp rs => "iresponse([" ++ ",".intercalate (rs.map toHexTok) ++ "])"
  | .gssMic u => "gssmic(" ++ showOpt u ++ ",0)"
  | .gssKeyex u => "gsskeyex(" ++ toHexTok u ++ ",0)"

def showExc : Option Exc → String
  | none => "none"
  | some .unicode => "unicode"
  | some .key => "key"
  | some .index => "index"
  | some .typeErr => "type"
  | some .order => "order"
  | some .gss => "gss"
  | some .attr => "attr"
  | some .eof => "eof"

def b01 (b : Bool) : String := if b then "1" else "0"

def showObs (s : St) (o : Out) : String :=
  "cbs=" ++ "|".intercalate (o.cbs.map fun c => showCb c.cb) ++
  ";sent=" ++ ",".intercalate (o.sent.map toHex) ++
  ";exc=" ++ showExc o.exc ++
  ";active=" ++ b01 s.active ++ ";authed=" ++ b01 s.isAuthenticated ++
  ";deleg=" ++ b01 o.delegated ++ ";chans=" ++ toString s.chans

structure DSt where
  sid : Bytes := []
  st : St := {}

def driverStep (d : DSt) (line : String) : DSt × String :=
  match words line with
  | ["new", sid] =>
    match ofHex? sid with
    | some b => ({ sid := b, st := init }, "ok")
    | none => (d, "bad-op")
  | "msg" :: pt :: pl :: toks =>
    match pt.toNat?, ofHex? pl, parseToks {} toks with
    | some p, some payload, some pr =>
      let sc : SigScheme := { verify := fun _ m _ => pr.sigok && m == pr.signed }
      let (s', o) := step sc d.sid d.st p payload pr.env
      ({ d with st := s' }, showObs s' o)
    | _, _, _ => (d, "bad-op")
  | _ => (d, "bad-op")

end PV.AuthServer
