/-
  PV.Model.Config — executable model of paramiko/config.py `SSHConfig`:
  `parse` (on logical lines: the regex split into key / value and `shlex.split` of Host / Match arguments are
  trusted glue, exercised by the correspondence), `_get_matches`, `lookup` / `_lookup` (two passes),
  `_pattern_matches`, `_does_match`, `_expand_variables` / `_tokenize`, `get_hostnames`.

  * `fnmatch.fnmatch` is modelled by `globMatch` for patterns made of literal characters, `*` and `?`;
  * dicts are insertion-ordered association lists (`Dict`);
  * machine-dependent values (local user, host name, fqdn, home directory) and SHA-1 (`%C`) are parameters (`Env`);
  * `Match exec`, hostname canonicalisation (DNS) and `CanonicalizeMaxDots` are not modelled: `lookup` returns a
    named `unsupported` error for them (never a default).
  The token table `TOKENS_BY_CONFIG_KEY` and the replacement order of `_tokenize` are GENERATED from the source
  (PV/Generated/C40.lean).  Mathlib-free.
-/
import PV.Generated.C40
namespace PV.Config

/-! ## fnmatch for `*` and `?` -/

/-- `*`: the rest of the pattern (`k`) must match some suffix of the name -/
def starMatch (k : List Char → Bool) : List Char → Bool
  | [] => k []
  | c :: cs => k (c :: cs) || starMatch k cs

/-- `fnmatch.fnmatchcase(name, pattern)` for patterns without `[` -/
def globMatch : List Char → List Char → Bool
  | [], n => n.isEmpty
  | p :: ps, n =>
    if p == '*' then starMatch (fun m => globMatch ps m) n
    else
      match n with
      | [] => false
      | c :: cs => (p == '?' || p == c) && globMatch ps cs

/-- `s.startswith(c)` / `s.endswith(c)` for a one-character string `c` -/
def startsWithChar (s : String) (c : Char) : Bool :=
  match s.toList with
  | x :: _ => x == c
  | [] => false

def endsWithChar (s : String) (c : Char) : Bool :=
  match s.toList.reverse with
  | x :: _ => x == c
  | [] => false

/-- `s[1:]` -/
def dropFirst (s : String) : String := String.ofList (s.toList.drop 1)

/-- `value[1:-1]` when the value is wrapped in double quotes (parse strips one pair) -/
def unquote (v : String) : String :=
  if startsWithChar v '"' && endsWithChar v '"' then String.ofList ((v.toList.drop 1).dropLast) else v

/-- Python `s.split(",")` (never empty; keeps empty fields) -/
def splitCommaChars : List Char → List Char → List (List Char)
  | [], cur => [cur.reverse]
  | c :: cs, cur => if c == ',' then cur.reverse :: splitCommaChars cs [] else splitCommaChars cs (c :: cur)

def splitComma (s : String) : List String := (splitCommaChars s.toList []).map String.ofList

def fnmatch (name pattern : String) : Bool := globMatch pattern.toList name.toList

/-- the loop of `_pattern_matches` over a list of patterns -/
def patternLoop (target : String) : List String → Bool → Bool
  | [], m => m
  | p :: ps, m =>
    if startsWithChar p '!' && fnmatch target (dropFirst p) then false
    else if fnmatch target p then patternLoop target ps true
    else patternLoop target ps m

/-- `_pattern_matches(patterns, target)` for a list -/
def patternMatches (patterns : List String) (target : String) : Bool := patternLoop target patterns false

/-- `_pattern_matches(param, target)` for a string: auto-split on "," -/
def patternMatchesStr (param target : String) : Bool := patternMatches (splitComma param) target

/-! ## values and ordered dicts -/

inductive Val where
  | str (s : String)
  | none                        -- Python `None` (ProxyCommand none)
  | list (l : List String)
  deriving Repr, DecidableEq

abbrev Dict := List (String × Val)

def Dict.get (d : Dict) (k : String) : Option Val := List.lookup k d

def Dict.has (d : Dict) (k : String) : Bool := (d.get k).isSome

/-- `d[k] = v`: replaces in place, or appends a new key -/
def Dict.set : Dict → String → Val → Dict
  | [], k, v => [(k, v)]
  | (k0, v0) :: rest, k, v => if k0 == k then (k0, v) :: rest else (k0, v0) :: Dict.set rest k v

def lower (s : String) : String := String.ofList (s.toList.map Char.toLower)

/-! ## parse -/

/-- one Match criterion: `{"type", "param", "negate"}` -/
structure Crit where
  type : String
  param : Option String
  negate : Bool
  deriving Repr, DecidableEq

/-- a block of `self._config`: `{"host": […]}` or `{"matches": […]}` plus `"config"` -/
structure Block where
  host : Option (List String)
  crits : Option (List Crit)
  config : Dict
  deriving Repr, DecidableEq

/-- a logical line after the regex: a `Host` line with its shlex tokens, a `Match` line with its shlex tokens,
or any other `key value` -/
inductive Line where
  | host (patterns : List String)
  | mtch (tokens : List String)
  | kv (key value : String)
  deriving Repr, DecidableEq

inductive Err where
  | parseError         -- ConfigParseError
  | execUnsupported    -- Match exec: not modelled
  | canonUnsupported   -- CanonicalizeHostname yes/always or CanonicalizeMaxDots: not modelled
  deriving Repr, DecidableEq

def listKeys : List String := ["identityfile", "localforward", "remoteforward"]

/-- body of the parse loop for a non-Host/Match line -/
def addKV (cfg : Dict) (key value : String) : Dict :=
  let key := lower key
  if key == "proxycommand" && lower value == "none" then
    if cfg.has key then cfg else cfg.set key .none
  else
    let value := unquote value
    if listKeys.contains key then
      match cfg.get key with
      | some (.list l) => cfg.set key (.list (l ++ [value]))
      | _ => cfg.set key (.list [value])
    else if cfg.has key then cfg
    else cfg.set key (.str value)

/-- the token loop of `_get_matches` -/
def matchTokens : Nat → List String → Except Err (List Crit)
  | 0, _ => .ok []
  | _ + 1, [] => .ok []
  | fuel + 1, t :: rest =>
    let negate := startsWithChar t '!'
    let type_ := if negate then dropFirst t else t
    if type_ == "all" || type_ == "canonical" || type_ == "final" then
      (matchTokens fuel rest).map fun ms => { type := type_, param := none, negate := negate } :: ms
    else
      match rest with
      | [] => .error .parseError
      | p :: rest' =>
        (matchTokens fuel rest').map fun ms => { type := type_, param := some p, negate := negate } :: ms

def indexOf (l : List String) (x : String) : Nat := l.findIdx (· == x)

/-- `_get_matches(value)` on the shlex tokens, with its parse-time validation -/
def getMatches (tokens : List String) : Except Err (List Crit) :=
  match matchTokens (tokens.length + 1) tokens with
  | .error e => .error e
  | .ok ms =>
    let keywords := ms.map (·.type)
    if keywords.contains "all" then
      let ok := keywords.filter fun x => x == "all" || x == "canonical"
      let bad := keywords.filter fun x => !(x == "all" || x == "canonical")
      if bad.any (· != "") then .error .parseError
      else if ok.contains "canonical" && indexOf ok "canonical" > indexOf ok "all" then .error .parseError
      else .ok ms
    else .ok ms

structure ParseState where
  done : List Block       -- `self._config` so far
  context : Block

def parseStep (st : ParseState) : Line → Except Err ParseState
  | .host ps => .ok { done := st.done ++ [st.context], context := { host := some ps, crits := none, config := [] } }
  | .mtch toks =>
    match getMatches toks with
    | .error e => .error e
    | .ok ms => .ok { done := st.done ++ [st.context], context := { host := none, crits := some ms, config := [] } }
  | .kv k v => .ok { st with context := { st.context with config := addKV st.context.config k v } }

def parseLoop : List Line → ParseState → Except Err ParseState
  | [], st => .ok st
  | l :: ls, st =>
    match parseStep st l with
    | .error e => .error e
    | .ok st' => parseLoop ls st'

/-- `SSHConfig.parse` (on a fresh object): the list of blocks, the implicit global `Host *` block first -/
def parse (lines : List Line) : Except Err (List Block) :=
  match parseLoop lines { done := [], context := { host := some ["*"], crits := none, config := [] } } with
  | .error e => .error e
  | .ok st => .ok (st.done ++ [st.context])

/-- `get_hostnames()` (as a duplicate-free list; Python returns a set) -/
def getHostnames (blocks : List Block) : List String :=
  (blocks.flatMap fun b => b.host.getD []).eraseDups

/-! ## lookup -/

structure Env where
  localUser : String        -- getpass.getuser()
  localHost : String        -- socket.gethostname().split(".")[0]
  fqdn : String             -- socket.getfqdn()   (AddressFamily unset / any)
  home : String             -- os.path.expanduser("~")
  hashC : String → String   -- sha1(s.encode()).hexdigest()

def strOf : Option Val → Option String
  | some (.str s) => some s
  | _ => none

/-- `x or y` on an optional string: `None` and `""` are falsy -/
def orElse (x : Option String) (y : String) : String :=
  match x with
  | some s => if s.isEmpty then y else s
  | none => y

def shouldFail (wouldPass negate : Bool) : Bool := if negate then wouldPass else !wouldPass

/-- `_does_match`: truthiness of its result.  `matched` = some candidate was appended so far. -/
def doesMatchLoop (env : Env) (target : String) (canonical final : Bool) (options : Dict) :
    List Crit → Bool → Except Err Bool
  | [], matched => .ok matched
  | c :: cs, _matched =>
    let configuredHost := strOf (options.get "hostname")
    let configuredUser := strOf (options.get "user")
    if c.type == "canonical" && shouldFail canonical c.negate then .ok false
    else
      let passed : Except Err (Option Bool) :=
        if c.type == "final" then .ok (some final)
        else if c.type == "all" then .ok none            -- handled below (returns True)
        else if c.type == "host" then .ok (some (patternMatchesStr (c.param.getD "") (orElse configuredHost target)))
        else if c.type == "originalhost" then .ok (some (patternMatchesStr (c.param.getD "") target))
        else if c.type == "user" then .ok (some (patternMatchesStr (c.param.getD "") (orElse configuredUser env.localUser)))
        else if c.type == "localuser" then .ok (some (patternMatchesStr (c.param.getD "") env.localUser))
        else if c.type == "exec" then .error .execUnsupported
        else .ok none
      if c.type == "all" then .ok true
      else
        match passed with
        | .error e => .error e
        | .ok (some p) => if shouldFail p c.negate then .ok false else doesMatchLoop env target canonical final options cs true
        | .ok none => doesMatchLoop env target canonical final options cs true

def doesMatch (env : Env) (cs : List Crit) (target : String) (canonical final : Bool) (options : Dict) :
    Except Err Bool :=
  doesMatchLoop env target canonical final options cs false

/-- `options[key].extend(x for x in value if x not in options[key])` (the generator sees the growing list) -/
def extendDedup (have_ : List String) (value : List String) : List String :=
  value.foldl (fun acc x => if acc.contains x then acc else acc ++ [x]) have_

/-- the list held by an optional value (`[]` for anything that is not a list) -/
def listOf : Option Val → List String
  | some (.list l) => l
  | _ => []

/-- one `for key, value in context["config"].items()` iteration -/
def mergeKey (opts : Dict) (key : String) (value : Val) : Dict :=
  if key == "identityfile" then
    -- found = options.setdefault(key, []); found.extend(x for x in value if x not in found)
    opts.set key (.list (extendDedup (listOf (opts.get key)) (listOf (some value))))
  else if opts.has key then opts
  else opts.set key value

def mergeBlock (opts : Dict) (cfg : Dict) : Dict := cfg.foldl (fun o kv => mergeKey o kv.1 kv.2) opts

/-- does the block apply?  `_pattern_matches(context.get("host", []), hostname) or _does_match(…)` -/
def blockApplies (env : Env) (b : Block) (hostname : String) (canonical final : Bool) (options : Dict) :
    Except Err Bool :=
  if patternMatches (b.host.getD []) hostname then .ok true
  else doesMatch env (b.crits.getD []) hostname canonical final options

/-- the block loop of `_lookup` (without the final expansion) -/
def lookupPass (env : Env) (hostname : String) (canonical final : Bool) : List Block → Dict → Except Err Dict
  | [], opts => .ok opts
  | b :: bs, opts =>
    match blockApplies env b hostname canonical final opts with
    | .error e => .error e
    | .ok true => lookupPass env hostname canonical final bs (mergeBlock opts b.config)
    | .ok false => lookupPass env hostname canonical final bs opts

/-! ## token expansion -/

/-- Python `s.replace(find, repl)` for non-empty `find` (`skip` = characters of a match still to be dropped) -/
def replaceAux (find repl : List Char) : Nat → List Char → List Char
  | _, [] => []
  | skip + 1, _ :: cs => replaceAux find repl skip cs
  | 0, c :: cs =>
    if find.isPrefixOf (c :: cs) && !find.isEmpty then repl ++ replaceAux find repl (find.length - 1) cs
    else c :: replaceAux find repl 0 cs

def replaceAll (find repl s : List Char) : List Char := replaceAux find repl 0 s

def allowedTokens (key : String) : List String := (PV.Generated.C40.tokensByConfigKey.lookup key).getD []

/-- `repr(port)` for a configured port (a `str` of printable ASCII without quotes or backslashes) -/
def reprStr (s : String) : String := "'" ++ s ++ "'"

/-- `_tokenize(config, target_hostname, key, value)` -/
def tokenize (env : Env) (config : Dict) (target key value : String) : String :=
  let allowed := allowedTokens key
  if allowed.isEmpty then value
  else
    let configuredHostname :=
      if key == "hostname" then target else (strOf (config.get "hostname")).getD target
    let port := (strOf (config.get "port")).getD "22"
    let portRepr := match strOf (config.get "port") with
      | some p => reprStr p
      | none => "22"
    let user := env.localUser
    let remoteuser := (strOf (config.get "user")).getD user
    let tohash := env.localHost ++ target ++ portRepr ++ remoteuser
    let value_of (tok : String) : String :=
      if tok == "%C" then env.hashC tohash
      else if tok == "%d" then env.home
      else if tok == "%h" then configuredHostname
      else if tok == "%L" then env.localHost
      else if tok == "%l" then env.fqdn
      else if tok == "%n" then target
      else if tok == "%p" then port
      else if tok == "%r" then remoteuser
      else if tok == "%u" then user
      else if tok == "~" then env.home
      else tok
    String.ofList (PV.Generated.C40.replacementOrder.foldl
      (fun acc tok => if allowed.contains tok then replaceAll tok.toList (value_of tok).toList acc else acc)
      value.toList)

def expandVal (env : Env) (config : Dict) (target key : String) : Val → Val
  | .none => .none
  | .str s => .str (tokenize env config target key s)
  | .list l => .list (l.map (tokenize env config target key))

/-- `_expand_variables`: HostName first, then every other key in dict order; each step sees the dict as
updated so far -/
def expandKeys (env : Env) (target : String) : List String → Dict → Dict
  | [], config => config
  | k :: ks, config =>
    match config.get k with
    | some v => expandKeys env target ks (config.set k (expandVal env config target k v))
    | none => expandKeys env target ks config

def expandVariables (env : Env) (config : Dict) (target : String) : Dict :=
  let keys := config.map (·.1)
  expandKeys env target (keys.filter (· == "hostname") ++ keys.filter (· != "hostname")) config

/-! ## `lookup` -/

/-- `options.get("canonicalizehostname") in ("yes", "always")` -/
def canonRequested (options : Dict) : Bool :=
  match options.get "canonicalizehostname" with
  | some (.str s) => s == "yes" || s == "always"
  | _ => false

/-- what the two `_lookup` passes plus the HostName default compute, before the final token expansion -/
def lookupOptions (env : Env) (blocks : List Block) (hostname : String) : Except Err Dict :=
  match lookupPass env hostname false false blocks [] with
  | .error e => .error e
  | .ok options =>
    let options := if options.has "hostname" then options else options.set "hostname" (.str hostname)
    if canonRequested options || options.has "canonicalizemaxdots" then .error .canonUnsupported
    else lookupPass env hostname false true blocks options

def lookup (env : Env) (blocks : List Block) (hostname : String) : Except Err Dict :=
  match lookupOptions env blocks hostname with
  | .error e => .error e
  | .ok options => .ok (expandVariables env options hostname)

/-- `SSHConfig.from_text(…).lookup(hostname)` on logical lines -/
def lookupLines (env : Env) (lines : List Line) (hostname : String) : Except Err Dict :=
  match parse lines with
  | .error e => .error e
  | .ok blocks => lookup env blocks hostname

/-! ## several lookups on one `SSHConfig` object

The object is its `_config` list.  `lookup` builds its result in fresh dicts and writes nothing to the object —
also when it raises (canonicalisation, `Match exec`). -/

/-- one `lookup(hostname)` on the object: (object afterwards, result or the error it raised) -/
def lookupStep (env : Env) (blocks : List Block) (hostname : String) : List Block × Except Err Dict :=
  (blocks, lookup env blocks hostname)

/-- a history of lookups on the same object -/
def lookupSession (env : Env) : List Block → List String → List Block × List (Except Err Dict)
  | blocks, [] => (blocks, [])
  | blocks, h :: hs =>
    let s := lookupStep env blocks h
    let rest := lookupSession env s.1 hs
    (rest.1, s.2 :: rest.2)

end PV.Config
