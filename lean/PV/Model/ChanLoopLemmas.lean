/-
  Lemmas about the `sendall` loop of PV.Model.ChanWindow (used by C25): what the calling thread can look like
  after the lock region of `_send` / after a wake-up, and the per-thread loop bookkeeping invariant.
-/
import PV.Model.ChanFlowLemmas
namespace PV.Chan

/-- possible states of the calling thread after the lock region of `_send` (or after `out_buffer_cv.wait`
    returned) for a request of `want` bytes made by a plain send (`lp = none`) or by `sendall` (`lp = some l`) -/
inductive SendOut (cfg : Cfg) (want : Nat) (ext : Bool) (lp : Option Loop) : TSt → Prop where
  | sockClosed : SendOut cfg want ext lp (.idle .sockClosed)
  | timeout : SendOut cfg want ext lp (.idle .timeout)
  | wait (left : Option Nat) : SendOut cfg want ext lp (.waiting want ext left lp)
  | zeroPlain : lp = none → SendOut cfg want ext lp (.idle (.ret 0))
  | zeroLoopOld (l : Loop) : lp = some l → cfg.raiseOnZero = false → SendOut cfg want ext lp (.loopHead l ext)
  | granted (n : Nat) (k : Kont) : 0 < n → n ≤ want →
      (k = match lp with | none => Kont.retN n | some l => Kont.loop l ext n) →
      SendOut cfg want ext lp (.hold [mkData ext n] k)

def SendOutEff (cfg : Cfg) (s s' : St) (t want : Nat) (ext : Bool) (lp : Option Loop) : Prop :=
  ∃ d x, s' = setThr { s with outWin := s.outWin - d } t x ∧ SendOut cfg want ext lp x

theorem zeroResult_out (cfg : Cfg) (s : St) (t want : Nat) (ext : Bool) (lp : Option Loop) :
    SendOutEff cfg s (zeroResult cfg s t ext lp) t want ext lp := by
  unfold zeroResult
  split
  · exact ⟨0, _, rfl, .zeroPlain rfl⟩
  · rename_i l
    split
    · exact ⟨0, _, rfl, .sockClosed⟩
    · rename_i h
      exact ⟨0, _, rfl, .zeroLoopOld l rfl (by simpa using h)⟩

theorem grant_out (cfg : Cfg) (s : St) (t want : Nat) (ext : Bool) (lp : Option Loop) :
    SendOutEff cfg s (grant cfg s t want ext lp) t want ext lp := by
  unfold grant
  simp only
  split
  · exact zeroResult_out cfg s t want ext lp
  · rename_i hne
    exact ⟨allocate s want, _, rfl, .granted _ _ (by omega) (allocate_le_want s want) rfl⟩

theorem sendRegion_out (cfg : Cfg) (s : St) (t want : Nat) (ext : Bool) (lp : Option Loop) :
    SendOutEff cfg s (sendRegion cfg s t want ext lp) t want ext lp := by
  unfold sendRegion
  split
  · exact ⟨0, _, rfl, .sockClosed⟩
  · split
    · exact zeroResult_out cfg s t want ext lp
    · split
      · split
        · exact ⟨0, _, rfl, .timeout⟩
        · exact ⟨0, _, rfl, .wait _⟩
        · exact ⟨0, _, rfl, .timeout⟩
        · exact ⟨0, _, rfl, .wait _⟩
      · exact grant_out cfg s t want ext lp

theorem wakeRegion_out (cfg : Cfg) (s : St) (t dt want : Nat) (ext : Bool) (left : Option Nat)
    (lp : Option Loop) : SendOutEff cfg s (wakeRegion cfg s t dt want ext left lp) t want ext lp := by
  have cont : ∀ left', SendOutEff cfg s (if s.outWin = 0 then
      if (s.closed || s.eofSent) = true then zeroResult cfg s t ext lp
      else setThr s t (.waiting want ext left' lp)
    else if (s.closed || s.eofSent) = true then zeroResult cfg s t ext lp
    else grant cfg s t want ext lp) t want ext lp := by
    intro left'
    split
    · split
      · exact zeroResult_out cfg s t want ext lp
      · exact ⟨0, _, rfl, .wait _⟩
    · split
      · exact zeroResult_out cfg s t want ext lp
      · exact grant_out cfg s t want ext lp
  unfold wakeRegion
  simp only
  split
  · exact cont none
  · split
    · exact ⟨0, _, rfl, .timeout⟩
    · exact cont _

/-! ## loop bookkeeping -/

def TSt.loopOK : TSt → Prop
  | .idle (.doneAll h tot) => h = tot
  | .idle _ => True
  | .waiting want _ _ (some l) => want = l.rem ∧ 0 < l.rem ∧ l.rem + l.handed = l.total
  | .waiting _ _ _ none => True
  | .hold ms (.loop l ext n) => ms = [mkData ext n] ∧ 0 < n ∧ n ≤ l.rem ∧ l.rem + l.handed = l.total
  | .hold _ _ => True
  | .gotBytes _ => True
  | .loopHead l _ => 0 < l.rem ∧ l.rem + l.handed = l.total

def LoopInv (s : St) : Prop := ∀ x ∈ s.thr, x.loopOK

theorem loopinv_setThr (s : St) (t : Nat) (x : TSt) (hx : x.loopOK) (hi : LoopInv s) :
    LoopInv (setThr s t x) := by
  intro y hy
  rcases mem_set_cases _ _ _ _ hy with h | h
  · exact hi y h
  · subst h; exact hx

theorem loopinv_congr (s s' : St) (h : s'.thr = s.thr) (hi : LoopInv s) : LoopInv s' := by
  unfold LoopInv at *; rw [h]; exact hi

theorem loopOK_sendOut (cfg : Cfg) (want : Nat) (ext : Bool) (lp : Option Loop) (x : TSt)
    (h : SendOut cfg want ext lp x)
    (hl : ∀ l, lp = some l → want = l.rem ∧ 0 < l.rem ∧ l.rem + l.handed = l.total) : x.loopOK := by
  cases h with
  | sockClosed => trivial
  | timeout => trivial
  | wait left =>
    cases lp with
    | none => trivial
    | some l => exact hl l rfl
  | zeroPlain _ => trivial
  | zeroLoopOld l e _ =>
    obtain ⟨_, h2, h3⟩ := hl l e
    exact ⟨h2, h3⟩
  | granted n k h1 h2 hk =>
    cases lp with
    | none => subst hk; trivial
    | some l =>
      subst hk
      obtain ⟨e, h3, h4⟩ := hl l rfl
      exact ⟨rfl, h1, by omega, h4⟩

theorem loopinv_sendOutEff (cfg : Cfg) (s s' : St) (t want : Nat) (ext : Bool) (lp : Option Loop)
    (h : SendOutEff cfg s s' t want ext lp)
    (hl : ∀ l, lp = some l → want = l.rem ∧ 0 < l.rem ∧ l.rem + l.handed = l.total)
    (hi : LoopInv s) : LoopInv s' := by
  obtain ⟨d, x, e, ho⟩ := h
  rw [e]
  exact loopinv_setThr _ t x (loopOK_sendOut cfg want ext lp x ho hl) (loopinv_congr s _ rfl hi)

theorem loopOK_kontState_simple (k : Kont) (h : ∀ l e n, k ≠ .loop l e n) : (kontState k).loopOK := by
  cases k with
  | loop l e n => exact absurd rfl (h l e n)
  | retN n => trivial
  | retNone => trivial
  | retBytes n => trivial

theorem loopinv_holdOrDone (s : St) (t : Nat) (ms : List Msg) (k : Kont) (h : ∀ l e n, k ≠ .loop l e n)
    (hi : LoopInv s) : LoopInv (holdOrDone s t ms k) := by
  unfold holdOrDone
  split
  · exact loopinv_setThr s t _ (loopOK_kontState_simple k h) hi
  · apply loopinv_setThr s t _ _ hi
    cases k with
    | loop l e n => exact absurd rfl (h l e n)
    | retN n => trivial
    | retNone => trivial
    | retBytes n => trivial

theorem step_loopinv (cfg : Cfg) (s : St) (x : Act) (hi : LoopInv s) : LoopInv (step cfg s x) := by
  cases x with
  | send t n ext =>
    simp only [step]; split
    · exact loopinv_sendOutEff cfg s _ t n ext none (sendRegion_out cfg s t n ext none)
        (by intro l h; cases h) hi
    · exact hi
  | sendall t n ext =>
    simp only [step]; split
    · split
      · exact loopinv_setThr s t _ rfl hi
      · rename_i hn
        exact loopinv_setThr s t _ ⟨by simp only; omega, by simp⟩ hi
    · exact hi
  | iter t =>
    simp only [step]; split
    · rename_i l ext hr
      have hok := hi _ (getElem?_mem' _ _ _ hr)
      exact loopinv_sendOutEff cfg s _ t l.rem ext (some l) (sendRegion_out cfg s t l.rem ext (some l))
        (by intro l' h; cases h; exact ⟨rfl, hok.1, hok.2⟩) hi
    · exact hi
  | wake t dt =>
    simp only [step]; split
    · rename_i want ext left lp hr
      have hok := hi _ (getElem?_mem' _ _ _ hr)
      refine loopinv_sendOutEff cfg s _ t want ext lp (wakeRegion_out cfg s t dt want ext left lp) ?_ hi
      intro l h; subst h; exact hok
    · exact hi
  | emit t =>
    simp only [step]; split
    · rename_i m ms k hr
      have hok := hi _ (getElem?_mem' _ _ _ hr)
      have hi' : LoopInv { s with wire := s.wire ++ [m] } := loopinv_congr s _ rfl hi
      cases k with
      | loop l e n =>
        obtain ⟨h1, h2, h3, h4⟩ := hok
        simp only [List.cons.injEq] at h1
        obtain ⟨_, rfl⟩ := h1
        simp only [holdOrDone]
        apply loopinv_setThr _ t _ _ hi'
        simp only [kontState]
        split
        · show l.handed + n = l.total; omega
        · exact ⟨by simp only; omega, by simp only; omega⟩
      | retN n => exact loopinv_holdOrDone _ t ms _ (by intro l e n h; cases h) hi'
      | retNone => exact loopinv_holdOrDone _ t ms _ (by intro l e n h; cases h) hi'
      | retBytes n => exact loopinv_holdOrDone _ t ms _ (by intro l e n h; cases h) hi'
    · exact hi
  | recv t k err =>
    simp only [step]
    repeat' split
    all_goals first
      | exact hi
      | exact loopinv_setThr _ t _ trivial (loopinv_congr s _ rfl hi)
  | check t =>
    simp only [step]; split
    · rename_i n hr
      have hi' : LoopInv (checkAdd s n).1 := loopinv_congr s _ (checkAdd_frame s n).2.1 hi
      split
      · exact loopinv_setThr _ t _ trivial hi'
      · exact loopinv_setThr _ t _ trivial hi'
    · exact hi
  | close t =>
    simp only [step]; split
    · exact loopinv_holdOrDone _ t _ _ (by intro l e n h; cases h)
        (loopinv_congr s _ (closeInternal_frame s).2.1 hi)
    · exact hi
  | shutdownWrite t =>
    simp only [step]; split
    · exact loopinv_holdOrDone _ t _ _ (by intro l e n h; cases h)
        (loopinv_congr s _ (sendEof_frame s).2.1 hi)
    · exact hi
  | peerClose t =>
    simp only [step]; split
    · exact loopinv_holdOrDone _ t _ _ (by intro l e n h; cases h)
        (loopinv_congr s _ (closeInternal_frame s).2.1 hi)
    · exact hi
  | requestFailed t =>
    simp only [step]; split
    · exact loopinv_holdOrDone _ t _ _ (by intro l e n h; cases h)
        (loopinv_congr s _ (closeInternal_frame s).2.1 hi)
    · exact hi
  | feedExt t code n =>
    simp only [step]
    have hi' : LoopInv (checkAdd { s with recvd := s.recvd + n, discarded := s.discarded + n } n).1 :=
      loopinv_congr s _ (checkAdd_frame { s with recvd := s.recvd + n, discarded := s.discarded + n } n).2.1 hi
    repeat' split
    all_goals first
      | exact hi
      | exact hi'
      | exact loopinv_setThr _ t _ trivial hi'
  | peerEof => simp only [step]; split <;> exact hi
  | emitFail t =>
    simp only [step]; split
    · exact loopinv_setThr _ t _ trivial (loopinv_congr s _ rfl hi)
    · exact hi
  | unlink => simp only [step]; split <;> exact hi
  | shutdownRead => exact hi
  | setMode m => exact hi
  | feed n => exact hi
  | adjust n => exact hi

theorem run_loopinv (cfg : Cfg) (s : St) (as : List Act) (hi : LoopInv s) : LoopInv (run cfg s as) := by
  induction as generalizing s with
  | nil => exact hi
  | cons a as ih => exact ih _ (step_loopinv cfg s a hi)

theorem setThr_get (s : St) (t : Nat) (x : TSt) (h : t < s.thr.length) : (setThr s t x).thr[t]? = some x := by
  simp [setThr, h]

end PV.Chan
