/-
  Helper lemmas about PV.Model.AuthServer (shared by PV/Props/C14, C15, C16).
  Layout: facts about `sendAuthResult`, then about `perform` (for every `Act`), then about the
  decision functions (`decide` and below: they only touch `authUser`, `gssSub`, `expected`).
-/
import PV.Model.AuthServer
namespace PV.AuthServer
open PV PV.Wire PV.Generated.AuthTables

/-! ## message recognisers -/

/-- a USERAUTH_FAILURE whose "partial success" flag is false -/
def isNPF (m : Bytes) : Bool := m.head? == some 51 && m.reverse.head? == some 0
/-- number of non-partial failures among sent messages -/
def np (l : List Bytes) : Nat := (l.filter isNPF).length

@[simp] theorem isNPF_failure (a : Bytes) (p : Bool) : isNPF (msgFailure a p) = !p := by
  cases p <;> simp [isNPF, msgFailure]
@[simp] theorem isNPF_success : isNPF msgSuccess = false := by decide
@[simp] theorem isNPF_disconnect (c : Nat) (d : Bytes) : isNPF (msgDisconnect c d) = false := by
  simp [isNPF, msgDisconnect]
@[simp] theorem isNPF_discA : isNPF msgDiscNoMoreAuth = false := isNPF_disconnect _ _
@[simp] theorem isNPF_discS : isNPF msgDiscService = false := isNPF_disconnect _ _
@[simp] theorem np_nil : np [] = 0 := rfl
@[simp] theorem np_append (a b : List Bytes) : np (a ++ b) = np a + np b := by simp [np]
theorem np_cons (a : Bytes) (b : List Bytes) : np (a :: b) = (if isNPF a then 1 else 0) + np b := by
  simp only [np, List.filter_cons]; split <;> simp <;> omega

theorem success_ne_disc : msgSuccess ≠ msgDiscNoMoreAuth := by
  simp [msgSuccess, msgDiscNoMoreAuth, msgDisconnect]
theorem failure_ne_disc (a : Bytes) (p : Bool) : msgFailure a p ≠ msgDiscNoMoreAuth := by
  simp [msgFailure, msgDiscNoMoreAuth, msgDisconnect]
theorem failure_ne_success (a : Bytes) (p : Bool) : msgFailure a p ≠ msgSuccess := by
  simp [msgFailure, msgSuccess]
theorem disc_ne_success (c : Nat) (d : Bytes) : msgDisconnect c d ≠ msgSuccess := by
  simp [msgDisconnect, msgSuccess]

/-- the username a credential-evaluating callback is asked about -/
def userOf : Cb → Option Bytes
  | .authNone u => some u
  | .authPassword u _ => some u
  | .authPubkey u _ => some u
  | .authInter u _ => some u
  | .gssKeyex u => some u
  | .gssMic u => u
  | _ => none

/-- callbacks that evaluate a credential (everything except banner / allowed-list / gss switch) -/
def isCredential : Cb → Bool
  | .enableGss => false
  | .banner => false
  | .allowed _ => false
  | _ => true

/-! ## `sendAuthResult` -/

section sar
variable (s : St) (e : Env) (u : Option Bytes) (r : Nat)

theorem sar_authUser : (sendAuthResult s e u r).1.authUser = s.authUser := by
  unfold sendAuthResult; repeat' split
  all_goals rfl
theorem sar_gssSub : (sendAuthResult s e u r).1.gssSub = s.gssSub := by
  unfold sendAuthResult; repeat' split
  all_goals rfl
theorem sar_expected : (sendAuthResult s e u r).1.expected = s.expected := by
  unfold sendAuthResult; repeat' split
  all_goals rfl
theorem sar_chans : (sendAuthResult s e u r).1.chans = s.chans := by
  unfold sendAuthResult; repeat' split
  all_goals rfl
theorem sar_exc : (sendAuthResult s e u r).2.exc = none := by
  unfold sendAuthResult; repeat' split
  all_goals rfl
theorem sar_delegated : (sendAuthResult s e u r).2.delegated = false := by
  unfold sendAuthResult; repeat' split
  all_goals rfl

/-- the only callback `_send_auth_result` consults is `get_allowed_auths` -/
theorem sar_cbs : ∀ c ∈ (sendAuthResult s e u r).2.cbs, c = Call.mk (.allowed u) none := by
  unfold sendAuthResult; repeat' split
  all_goals simp

/-- the counter moves by exactly the number of non-partial failures put on the wire -/
theorem sar_count : (sendAuthResult s e u r).1.failCount = s.failCount + np (sendAuthResult s e u r).2.sent := by
  unfold sendAuthResult; repeat' split
  all_goals simp [np_cons]

theorem sar_np_le : np (sendAuthResult s e u r).2.sent ≤ 1 := by
  unfold sendAuthResult; repeat' split
  all_goals simp [np_cons]

/-- only a result that is neither success nor partial success is counted -/
theorem sar_count_eq : (sendAuthResult s e u r).1.failCount =
    if r = AUTH_SUCCESSFUL ∨ r = AUTH_PARTIALLY_SUCCESSFUL then s.failCount else s.failCount + 1 := by
  unfold sendAuthResult; repeat' split
  all_goals simp_all

theorem sar_active : (sendAuthResult s e u r).1.active =
    (s.active && decide ((sendAuthResult s e u r).1.failCount < FAIL_CAP)) := by
  unfold sendAuthResult FAIL_CAP; repeat' split
  all_goals simp_all
  all_goals omega

theorem sar_disc (h : FAIL_CAP ≤ (sendAuthResult s e u r).1.failCount) :
    msgDiscNoMoreAuth ∈ (sendAuthResult s e u r).2.sent := by
  revert h; unfold sendAuthResult FAIL_CAP; repeat' split
  all_goals simp_all
  all_goals omega

theorem sar_authenticated : (sendAuthResult s e u r).1.authenticated =
    (s.authenticated || decide (r = AUTH_SUCCESSFUL)) := by
  unfold sendAuthResult; repeat' split
  all_goals simp_all

theorem sar_success : msgSuccess ∈ (sendAuthResult s e u r).2.sent ↔ r = AUTH_SUCCESSFUL := by
  unfold sendAuthResult; repeat' split
  all_goals simp_all [failure_ne_success, success_ne_disc, Ne.symm success_ne_disc,
    (disc_ne_success _ _).symm, msgDiscNoMoreAuth, (failure_ne_success _ _).symm]
end sar

/-! ## `perform` -/

/-- callbacks named by an act (consulted before any `_send_auth_result`) -/
def Act.cbs : Act → List Call
  | .nop => []
  | .reply c _ => c
  | .die c _ _ => c
  | .disconnect c _ => c
  | .result c _ _ => c
  | .resultDie c _ _ _ => c
  | .rejectTwice c _ => c
  | .delegate _ => []

/-- messages an act sends outside `_send_auth_result` carry no non-partial failure and no SUCCESS -/
def Act.plainOK : Act → Prop
  | .reply _ msgs => np msgs = 0 ∧ msgSuccess ∉ msgs ∧ msgDiscNoMoreAuth ∉ msgs
  | .die _ msgs _ => np msgs = 0 ∧ msgSuccess ∉ msgs
  | .disconnect _ m => isNPF m = false ∧ m ≠ msgSuccess
  | _ => True

section perform
variable (s : St) (e : Env) (a : Act)

theorem perform_authUser : (perform s e a).1.authUser = s.authUser := by
  cases a <;> simp only [perform, sar_authUser]
  · split <;> simp [sar_authUser]

theorem perform_gssSub : (perform s e a).1.gssSub = s.gssSub := by
  cases a <;> simp only [perform, sar_gssSub]
  · split <;> simp [sar_gssSub]

theorem perform_expected : (perform s e a).1.expected = s.expected := by
  cases a <;> simp only [perform, sar_expected]
  · split <;> simp [sar_expected]

/-- every callback in the output is one named by the act, or `get_allowed_auths` -/
theorem perform_cbs : ∀ c ∈ (perform s e a).2.cbs, c ∈ a.cbs ∨ ∃ u, c = Call.mk (.allowed u) none := by
  intro c hc
  cases a with
  | nop => simp [perform] at hc
  | reply cb m => simp [perform] at hc; exact Or.inl hc
  | die cb m x => simp [perform] at hc; exact Or.inl hc
  | disconnect cb m => simp [perform] at hc; exact Or.inl hc
  | result cb u r =>
    simp only [perform, Out.pre, List.mem_append] at hc
    rcases hc with h | h
    · exact Or.inl h
    · exact Or.inr ⟨u, sar_cbs _ _ _ _ c h⟩
  | resultDie cb u r x =>
    simp only [perform, Out.pre, List.mem_append] at hc
    rcases hc with h | h
    · exact Or.inl h
    · exact Or.inr ⟨u, sar_cbs _ _ _ _ c h⟩
  | rejectTwice cb u =>
    simp only [perform] at hc
    split at hc
    · simp only [List.mem_append] at hc
      rcases hc with (h | h) | h
      · exact Or.inl h
      · exact Or.inr ⟨u, sar_cbs _ _ _ _ c h⟩
      · exact Or.inr ⟨u, sar_cbs _ _ _ _ c h⟩
    · simp only [List.mem_append, List.mem_singleton] at hc
      rcases hc with (h | h) | h
      · exact Or.inl h
      · exact Or.inr ⟨u, sar_cbs _ _ _ _ c h⟩
      · exact Or.inr ⟨u, h⟩
  | delegate c => simp [perform] at hc

/-- the failure counter never decreases, and moves at least by the non-partial failures sent -/
theorem perform_count_lb (h : a.plainOK) :
    s.failCount + np (perform s e a).2.sent ≤ (perform s e a).1.failCount := by
  cases a with
  | nop => simp [perform]
  | reply cb m => simp [perform, h.1]
  | die cb m x => simp [perform, h.1]
  | disconnect cb m => simp [perform, np_cons, h.1]
  | result cb u r => simp [perform, Out.pre, sar_count]
  | resultDie cb u r x => simp [perform, Out.pre, sar_count]
  | rejectTwice cb u =>
    simp only [perform]
    split
    · simp [sar_count]; omega
    · simp [sar_count]
  | delegate c => simp [perform]

/-- while fewer than ten failures are counted, one step cannot put the total of answered failures above ten -/
theorem perform_cap (h : a.plainOK) (hlt : s.failCount < FAIL_CAP) :
    s.failCount + np (perform s e a).2.sent ≤ FAIL_CAP := by
  unfold FAIL_CAP at *
  cases a with
  | nop => simp [perform]; omega
  | reply cb m => simp [perform, h.1]; omega
  | die cb m x => simp [perform, h.1]; omega
  | disconnect cb m => simp [perform, np_cons, h.1]; omega
  | result cb u r => have := sar_np_le s e u r; simp [perform, Out.pre]; omega
  | resultDie cb u r x => have := sar_np_le s e u r; simp [perform, Out.pre]; omega
  | rejectTwice cb u =>
    simp only [perform]
    have h1 := sar_np_le s e u AUTH_FAILED
    have h2 := sar_count s e u AUTH_FAILED
    have h3 := sar_active s e u AUTH_FAILED
    split
    · rename_i hact
      have h4 := sar_np_le (sendAuthResult s e u AUTH_FAILED).1 e u AUTH_FAILED
      rw [h3] at hact
      simp [FAIL_CAP] at hact
      simp; omega
    · simp; omega
  | delegate c => simp [perform]; omega

/-- handlers never re-activate a transport -/
theorem perform_inactive (h : s.active = false) : (perform s e a).1.active = false := by
  cases a <;> simp only [perform]
  · exact h
  · exact h
  · rw [sar_active]; simp [h]
  · split
    · rfl
    · rename_i hx; simpa using hx
  · simp [h]

/-- invariant: an active transport has counted fewer than ten failures -/
theorem perform_inv (h : s.active = true → s.failCount < FAIL_CAP) :
    (perform s e a).1.active = true → (perform s e a).1.failCount < FAIL_CAP := by
  cases a with
  | nop => simpa [perform] using h
  | reply cb m => simpa [perform] using h
  | die cb m x => simp [perform]
  | disconnect cb m => simp [perform]
  | result cb u r =>
    simp only [perform]; intro ha; rw [sar_active] at ha; simp at ha; exact ha.2
  | resultDie cb u r x => simp [perform]
  | rejectTwice cb u =>
    simp only [perform]
    split
    · simp
    · rename_i hx; intro ha; simp at ha hx; rw [hx] at ha; cases ha
  | delegate c =>
    simp only [perform]; intro ha; simp at ha; exact h ha.1

/-- the step in which the counter reaches ten sends DISCONNECT and leaves the transport inactive -/
theorem perform_cross (hlt : s.failCount < FAIL_CAP) (hge : FAIL_CAP ≤ (perform s e a).1.failCount) :
    (perform s e a).1.active = false ∧ msgDiscNoMoreAuth ∈ (perform s e a).2.sent := by
  cases a with
  | nop => simp [perform] at hge; omega
  | reply cb m => simp [perform] at hge; omega
  | die cb m x => simp [perform] at hge; omega
  | disconnect cb m => simp [perform] at hge; omega
  | result cb u r =>
    simp only [perform] at hge ⊢
    refine ⟨?_, by simpa [Out.pre] using sar_disc s e u r hge⟩
    rw [sar_active]; simp; intro _; omega
  | resultDie cb u r x =>
    simp only [perform] at hge ⊢
    exact ⟨rfl, by simpa [Out.pre] using sar_disc s e u r hge⟩
  | rejectTwice cb u =>
    simp only [perform] at hge ⊢
    split at hge
    · rename_i hact
      rw [if_pos hact]
      refine ⟨rfl, ?_⟩
      simp only [List.mem_append]
      exact Or.inr (sar_disc _ e u AUTH_FAILED hge)
    · rename_i hact
      rw [if_neg hact]
      simp only [Bool.not_eq_true] at hact
      refine ⟨hact, ?_⟩
      have h3 := sar_active s e u AUTH_FAILED
      have h5 := sar_count_eq s e u AUTH_FAILED
      simp [AUTH_FAILED, AUTH_SUCCESSFUL, AUTH_PARTIALLY_SUCCESSFUL] at h5
      apply sar_disc
      simp only [AUTH_FAILED] at hge ⊢
      unfold FAIL_CAP at *
      by_cases h10 : 10 ≤ (sendAuthResult s e u 2).1.failCount
      · exact h10
      · exfalso
        simp only [AUTH_FAILED] at hact h3
        rw [h3] at hact
        simp [FAIL_CAP] at hact
        -- inactive after the first rejection although the counter is below the cap: only if `s` was inactive,
        -- and then the second branch adds one to nine at most
        omega
  | delegate c => simp [perform] at hge; omega

theorem perform_chans_unauth (h : ∀ c, a ≠ .delegate c) : (perform s e a).1.chans = s.chans := by
  cases a <;> simp only [perform, sar_chans]
  · split <;> simp [sar_chans]
  · exact absurd rfl (h _)
end perform

end PV.AuthServer
