/-
  Helper lemmas about PV.Model.AuthServer (shared by PV/Props/C14, C15, C16).
  Layout: facts about `sendAuthResult`, then about `perform` (for every `Act`), then about the
  decision functions (`decide` and below: they only touch `authUser`, `gssSub`, `expected`).
-/
import PV.Model.AuthServer
namespace PV.AuthServer
open PV PV.Wire PV.Generated.AuthTables

/-! ## message recognisers -/

/-- a USERAUTH_FAILURE whose "partial success" flag is false -/
def isNPF (m : Bytes) : Bool := m.head? == some 51 && m.reverse.head? == some 0
/-- number of non-partial failures among sent messages -/
def np (l : List Bytes) : Nat := (l.filter isNPF).length

@[simp] theorem isNPF_failure (a : Bytes) (p : Bool) : isNPF (msgFailure a p) = !p := by
  cases p <;> simp [isNPF, msgFailure]
@[simp] theorem isNPF_success : isNPF msgSuccess = false := by decide
@[simp] theorem isNPF_disconnect (c : Nat) (d : Bytes) : isNPF (msgDisconnect c d) = false := by
  simp [isNPF, msgDisconnect]
@[simp] theorem isNPF_discA : isNPF msgDiscNoMoreAuth = false := isNPF_disconnect _ _
@[simp] theorem isNPF_discS : isNPF msgDiscService = false := isNPF_disconnect _ _
@[simp] theorem np_nil : np [] = 0 := rfl
@[simp] theorem np_append (a b : List Bytes) : np (a ++ b) = np a + np b := by simp [np]
theorem np_cons (a : Bytes) (b : List Bytes) : np (a :: b) = (if isNPF a then 1 else 0) + np b := by
  simp only [np, List.filter_cons]; split <;> simp <;> omega

theorem ne_of_head {a b : UInt8} {x y : Bytes} (h : a ≠ b) : a :: x ≠ b :: y := by
  intro e; exact h (List.cons.inj e).1

theorem success_ne_disc : msgSuccess ≠ msgDiscNoMoreAuth := ne_of_head (by decide)
theorem failure_ne_disc (a : Bytes) (p : Bool) : msgFailure a p ≠ msgDiscNoMoreAuth := ne_of_head (by decide)
theorem failure_ne_success (a : Bytes) (p : Bool) : msgFailure a p ≠ msgSuccess := ne_of_head (by decide)
theorem disc_ne_success (c : Nat) (d : Bytes) : msgDisconnect c d ≠ msgSuccess := ne_of_head (by decide)

/-! `msgSuccess` / `msgDiscNoMoreAuth` differ from every other message the server builds (first byte) -/
@[simp] theorem success_ne_pkok (a b : Bytes) : msgSuccess ≠ msgPkOk a b := ne_of_head (by decide)
@[simp] theorem success_ne_inforeq (q : IQuery) : msgSuccess ≠ msgInfoRequest q := ne_of_head (by decide)
@[simp] theorem success_ne_gssresp (o : Bytes) : msgSuccess ≠ msgGssResponse o := ne_of_head (by decide)
@[simp] theorem success_ne_gsstok (o : Bytes) : msgSuccess ≠ msgGssToken o := ne_of_head (by decide)
@[simp] theorem success_ne_accept (o : Bytes) : msgSuccess ≠ msgServiceAccept o := ne_of_head (by decide)
@[simp] theorem success_ne_banner (a b : Bytes) : msgSuccess ≠ msgBanner a b := ne_of_head (by decide)
@[simp] theorem success_ne_reqfail : msgSuccess ≠ msgRequestFailure := ne_of_head (by decide)
@[simp] theorem success_ne_openfail (n : Nat) : msgSuccess ≠ msgOpenFailure n := ne_of_head (by decide)
@[simp] theorem success_ne_unimpl (n : Nat) : msgSuccess ≠ msgUnimplemented n := ne_of_head (by decide)
@[simp] theorem success_ne_disconnect (c : Nat) (d : Bytes) : msgSuccess ≠ msgDisconnect c d := ne_of_head (by decide)
@[simp] theorem success_ne_discA : msgSuccess ≠ msgDiscNoMoreAuth := ne_of_head (by decide)
@[simp] theorem success_ne_discS : msgSuccess ≠ msgDiscService := ne_of_head (by decide)
@[simp] theorem discS_ne_success : msgDiscService ≠ msgSuccess := ne_of_head (by decide)
@[simp] theorem discA_ne_success : msgDiscNoMoreAuth ≠ msgSuccess := ne_of_head (by decide)
@[simp] theorem discA_ne_pkok (a b : Bytes) : msgDiscNoMoreAuth ≠ msgPkOk a b := ne_of_head (by decide)
@[simp] theorem discA_ne_inforeq (q : IQuery) : msgDiscNoMoreAuth ≠ msgInfoRequest q := ne_of_head (by decide)
@[simp] theorem discA_ne_gssresp (o : Bytes) : msgDiscNoMoreAuth ≠ msgGssResponse o := ne_of_head (by decide)
@[simp] theorem discA_ne_gsstok (o : Bytes) : msgDiscNoMoreAuth ≠ msgGssToken o := ne_of_head (by decide)
@[simp] theorem discA_ne_accept (o : Bytes) : msgDiscNoMoreAuth ≠ msgServiceAccept o := ne_of_head (by decide)
@[simp] theorem discA_ne_banner (a b : Bytes) : msgDiscNoMoreAuth ≠ msgBanner a b := ne_of_head (by decide)
@[simp] theorem discA_ne_reqfail : msgDiscNoMoreAuth ≠ msgRequestFailure := ne_of_head (by decide)
@[simp] theorem discA_ne_openfail (n : Nat) : msgDiscNoMoreAuth ≠ msgOpenFailure n := ne_of_head (by decide)
@[simp] theorem discA_ne_unimpl (n : Nat) : msgDiscNoMoreAuth ≠ msgUnimplemented n := ne_of_head (by decide)

@[simp] theorem isNPF_pkok (a b : Bytes) : isNPF (msgPkOk a b) = false := by simp [isNPF, msgPkOk]
@[simp] theorem isNPF_inforeq (q : IQuery) : isNPF (msgInfoRequest q) = false := by simp [isNPF, msgInfoRequest]
@[simp] theorem isNPF_gssresp (o : Bytes) : isNPF (msgGssResponse o) = false := by simp [isNPF, msgGssResponse]
@[simp] theorem isNPF_gsstok (o : Bytes) : isNPF (msgGssToken o) = false := by simp [isNPF, msgGssToken]
@[simp] theorem isNPF_accept (o : Bytes) : isNPF (msgServiceAccept o) = false := by simp [isNPF, msgServiceAccept]
@[simp] theorem isNPF_banner (a b : Bytes) : isNPF (msgBanner a b) = false := by simp [isNPF, msgBanner]
@[simp] theorem isNPF_reqfail : isNPF msgRequestFailure = false := by decide
@[simp] theorem isNPF_openfail (n : Nat) : isNPF (msgOpenFailure n) = false := by simp [isNPF, msgOpenFailure]
@[simp] theorem isNPF_unimpl (n : Nat) : isNPF (msgUnimplemented n) = false := by simp [isNPF, msgUnimplemented]

/-- the username a credential-evaluating callback is asked about -/
def userOf : Cb → Option Bytes
  | .authNone u => some u
  | .authPassword u _ => some u
  | .authPubkey u _ => some u
  | .authInter u _ => some u
  | .gssKeyex u => some u
  | .gssMic u => u
  | _ => none

/-- callbacks that evaluate a credential (everything except banner / allowed-list / gss switch) -/
def isCredential : Cb → Bool
  | .enableGss => false
  | .banner => false
  | .allowed _ => false
  | _ => true

/-! ## `sendAuthResult` -/

section sar
variable (s : St) (e : Env) (u : Option Bytes) (r : Nat)

theorem sar_authUser : (sendAuthResult s e u r).1.authUser = s.authUser := by
  unfold sendAuthResult; repeat' split
  all_goals rfl
theorem sar_gssSub : (sendAuthResult s e u r).1.gssSub = s.gssSub := by
  unfold sendAuthResult; repeat' split
  all_goals rfl
theorem sar_expected : (sendAuthResult s e u r).1.expected = s.expected := by
  unfold sendAuthResult; repeat' split
  all_goals rfl
theorem sar_chans : (sendAuthResult s e u r).1.chans = s.chans := by
  unfold sendAuthResult; repeat' split
  all_goals rfl
theorem sar_exc : (sendAuthResult s e u r).2.exc = none := by
  unfold sendAuthResult; repeat' split
  all_goals rfl
theorem sar_delegated : (sendAuthResult s e u r).2.delegated = false := by
  unfold sendAuthResult; repeat' split
  all_goals rfl

/-- the only callback `_send_auth_result` consults is `get_allowed_auths` -/
theorem sar_cbs : ∀ c ∈ (sendAuthResult s e u r).2.cbs, c = Call.mk (.allowed u) none := by
  unfold sendAuthResult; repeat' split
  all_goals simp

/-- the counter moves by exactly the number of non-partial failures put on the wire -/
theorem sar_count : (sendAuthResult s e u r).1.failCount = s.failCount + np (sendAuthResult s e u r).2.sent := by
  unfold sendAuthResult; repeat' split
  all_goals simp [np_cons]

theorem sar_np_le : np (sendAuthResult s e u r).2.sent ≤ 1 := by
  unfold sendAuthResult; repeat' split
  all_goals simp [np_cons]

/-- only a result that is neither success nor partial success is counted -/
theorem sar_count_eq : (sendAuthResult s e u r).1.failCount =
    if r = AUTH_SUCCESSFUL ∨ r = AUTH_PARTIALLY_SUCCESSFUL then s.failCount else s.failCount + 1 := by
  unfold sendAuthResult; repeat' split
  all_goals simp_all

theorem sar_active : (sendAuthResult s e u r).1.active =
    (s.active && decide ((sendAuthResult s e u r).1.failCount < FAIL_CAP)) := by
  unfold sendAuthResult FAIL_CAP; repeat' split
  all_goals simp_all
  all_goals omega

theorem sar_disc (h : FAIL_CAP ≤ (sendAuthResult s e u r).1.failCount) :
    msgDiscNoMoreAuth ∈ (sendAuthResult s e u r).2.sent := by
  revert h; unfold sendAuthResult FAIL_CAP; repeat' split
  all_goals simp_all
  all_goals omega

theorem sar_authenticated : (sendAuthResult s e u r).1.authenticated =
    (s.authenticated || decide (r = AUTH_SUCCESSFUL)) := by
  unfold sendAuthResult; repeat' split
  all_goals simp_all

theorem sar_success : msgSuccess ∈ (sendAuthResult s e u r).2.sent ↔ r = AUTH_SUCCESSFUL := by
  unfold sendAuthResult; repeat' split
  all_goals simp_all [(failure_ne_success _ _).symm]
end sar

/-! ## `perform` -/

/-- callbacks named by an act (consulted before any `_send_auth_result`) -/
def Act.cbs : Act → List Call
  | .nop => []
  | .reply c _ => c
  | .die c _ _ => c
  | .disconnect c _ => c
  | .result c _ _ => c
  | .resultDie c _ _ _ => c
  | .rejectTwice c _ => c
  | .delegate _ => []

/-- messages an act sends outside `_send_auth_result` carry no non-partial failure and no SUCCESS -/
def Act.plainOK : Act → Prop
  | .reply _ msgs => np msgs = 0 ∧ msgSuccess ∉ msgs ∧ msgDiscNoMoreAuth ∉ msgs
  | .die _ msgs _ => np msgs = 0 ∧ msgSuccess ∉ msgs
  | .disconnect _ m => isNPF m = false ∧ m ≠ msgSuccess
  | _ => True

section perform
variable (s : St) (e : Env) (a : Act)

theorem perform_authUser : (perform s e a).1.authUser = s.authUser := by
  cases a <;> simp only [perform, sar_authUser]
  · split <;> simp [sar_authUser]

theorem perform_gssSub : (perform s e a).1.gssSub = s.gssSub := by
  cases a <;> simp only [perform, sar_gssSub]
  · split <;> simp [sar_gssSub]

theorem perform_expected : (perform s e a).1.expected = s.expected := by
  cases a <;> simp only [perform, sar_expected]
  · split <;> simp [sar_expected]

/-- every callback in the output is one named by the act, or `get_allowed_auths` -/
theorem perform_cbs : ∀ c ∈ (perform s e a).2.cbs, c ∈ a.cbs ∨ ∃ u, c = Call.mk (.allowed u) none := by
  intro c hc
  cases a with
  | nop => simp [perform] at hc
  | reply cb m => simp [perform] at hc; exact Or.inl hc
  | die cb m x => simp [perform] at hc; exact Or.inl hc
  | disconnect cb m => simp [perform] at hc; exact Or.inl hc
  | result cb u r =>
    simp only [perform, Out.pre, List.mem_append] at hc
    rcases hc with h | h
    · exact Or.inl h
    · exact Or.inr ⟨u, sar_cbs _ _ _ _ c h⟩
  | resultDie cb u r x =>
    simp only [perform, Out.pre, List.mem_append] at hc
    rcases hc with h | h
    · exact Or.inl h
    · exact Or.inr ⟨u, sar_cbs _ _ _ _ c h⟩
  | rejectTwice cb u =>
    simp only [perform] at hc
    split at hc
    · simp only [List.mem_append] at hc
      rcases hc with (h | h) | h
      · exact Or.inl h
      · exact Or.inr ⟨u, sar_cbs _ _ _ _ c h⟩
      · exact Or.inr ⟨u, sar_cbs _ _ _ _ c h⟩
    · simp only [List.mem_append, List.mem_singleton] at hc
      rcases hc with (h | h) | h
      · exact Or.inl h
      · exact Or.inr ⟨u, sar_cbs _ _ _ _ c h⟩
      · exact Or.inr ⟨u, h⟩
  | delegate c => simp [perform] at hc

/-- the failure counter never decreases, and moves at least by the non-partial failures sent -/
theorem perform_count_lb (h : a.plainOK) :
    s.failCount + np (perform s e a).2.sent ≤ (perform s e a).1.failCount := by
  cases a with
  | nop => simp [perform]
  | reply cb m => simp [perform, h.1]
  | die cb m x => simp [perform, h.1]
  | disconnect cb m => simp [perform, np_cons, h.1]
  | result cb u r => simp [perform, Out.pre, sar_count]
  | resultDie cb u r x => simp [perform, Out.pre, sar_count]
  | rejectTwice cb u =>
    simp only [perform]
    split
    · simp [sar_count]; omega
    · simp [sar_count]
  | delegate c => simp [perform]

/-- while fewer than ten failures are counted, one step cannot put the total of answered failures above ten -/
theorem perform_cap (h : a.plainOK) (hlt : s.failCount < FAIL_CAP) :
    s.failCount + np (perform s e a).2.sent ≤ FAIL_CAP := by
  unfold FAIL_CAP at *
  cases a with
  | nop => simp [perform]; omega
  | reply cb m => simp [perform, h.1]; omega
  | die cb m x => simp [perform, h.1]; omega
  | disconnect cb m => simp [perform, np_cons, h.1]; omega
  | result cb u r => have := sar_np_le s e u r; simp [perform, Out.pre]; omega
  | resultDie cb u r x => have := sar_np_le s e u r; simp [perform, Out.pre]; omega
  | rejectTwice cb u =>
    simp only [perform]
    have h1 := sar_np_le s e u AUTH_FAILED
    have h2 := sar_count s e u AUTH_FAILED
    have h3 := sar_active s e u AUTH_FAILED
    split
    · rename_i hact
      have h4 := sar_np_le (sendAuthResult s e u AUTH_FAILED).1 e u AUTH_FAILED
      rw [h3] at hact
      simp [FAIL_CAP] at hact
      have hb := of_decide_eq_true hact.2
      simp; omega
    · simp; omega
  | delegate c => simp [perform]; omega

/-- handlers never re-activate a transport -/
theorem perform_inactive (h : s.active = false) : (perform s e a).1.active = false := by
  cases a <;> simp only [perform]
  · exact h
  · exact h
  · rw [sar_active]; simp [h]
  · split
    · rfl
    · rename_i hx; simpa using hx
  · simp [h]

/-- invariant: an active transport has counted fewer than ten failures -/
theorem perform_inv (h : s.active = true → s.failCount < FAIL_CAP) :
    (perform s e a).1.active = true → (perform s e a).1.failCount < FAIL_CAP := by
  cases a with
  | nop => simpa [perform] using h
  | reply cb m => simpa [perform] using h
  | die cb m x => simp [perform]
  | disconnect cb m => simp [perform]
  | result cb u r =>
    simp only [perform]; intro ha; rw [sar_active] at ha; simp at ha; exact ha.2
  | resultDie cb u r x => simp [perform]
  | rejectTwice cb u =>
    simp only [perform]
    split
    · simp
    · rename_i hx; intro ha; simp at ha hx; rw [hx] at ha; cases ha
  | delegate c =>
    simp only [perform]; intro ha; simp at ha; exact h ha.1

/-- the step in which the counter reaches ten sends DISCONNECT and leaves the transport inactive -/
theorem perform_cross (hs : s.active = true) (hlt : s.failCount < FAIL_CAP) (hge : FAIL_CAP ≤ (perform s e a).1.failCount) :
    (perform s e a).1.active = false ∧ msgDiscNoMoreAuth ∈ (perform s e a).2.sent := by
  cases a with
  | nop => simp [perform] at hge; omega
  | reply cb m => simp [perform] at hge; omega
  | die cb m x => simp [perform] at hge; omega
  | disconnect cb m => simp [perform] at hge; omega
  | result cb u r =>
    simp only [perform] at hge ⊢
    refine ⟨?_, by simpa [Out.pre] using sar_disc s e u r hge⟩
    rw [sar_active]; simp; intro _; omega
  | resultDie cb u r x =>
    simp only [perform] at hge ⊢
    exact ⟨trivial, by simpa [Out.pre] using sar_disc s e u r hge⟩
  | rejectTwice cb u =>
    simp only [perform] at hge ⊢
    have h3 := sar_active s e u AUTH_FAILED
    have h5 := sar_count_eq s e u AUTH_FAILED
    simp [AUTH_FAILED, AUTH_SUCCESSFUL, AUTH_PARTIALLY_SUCCESSFUL] at h5
    by_cases hact : (sendAuthResult s e u AUTH_FAILED).1.active = true
    · rw [if_pos hact] at hge ⊢
      refine ⟨rfl, ?_⟩
      simp only [List.mem_append]
      exact Or.inr (sar_disc _ e u AUTH_FAILED hge)
    · rw [if_neg hact] at hge ⊢
      simp only [Bool.not_eq_true] at hact
      refine ⟨hact, ?_⟩
      apply sar_disc
      rw [h3, hs] at hact
      simp only [Bool.true_and, decide_eq_false_iff_not] at hact
      omega
  | delegate c => simp [perform] at hge; omega

theorem perform_chans_unauth (h : ∀ c, a ≠ .delegate c) : (perform s e a).1.chans = s.chans := by
  cases a <;> simp only [perform, sar_chans]
  · split <;> simp [sar_chans]
  · exact absurd rfl (h _)
end perform


/-! ## the decision functions -/

/-- what every decision function guarantees about the state it returns and the act it chooses:
counters, activity, authentication flag and channels are untouched; a pinned username stays; every
credential callback it names asks about the pinned username; plain messages are harmless; a
connection-layer handler is chosen only for an authenticated client or an existing channel -/
def DecOK (s s1 : St) (a : Act) : Prop :=
  s1.failCount = s.failCount ∧ s1.active = s.active ∧ s1.authenticated = s.authenticated ∧ s1.chans = s.chans ∧
  (∀ u, s.authUser = some u → s1.authUser = some u) ∧
  (∀ c ∈ a.cbs, ∀ u, userOf c.cb = some u → s1.authUser = some u) ∧
  a.plainOK ∧
  (a = .delegate true → s.authenticated = true ∨ s.chans ≠ 0)

theorem DecOK_congr {s s' s1 : St} {a : Act} (h : DecOK s' s1 a)
    (h1 : s'.failCount = s.failCount) (h2 : s'.active = s.active) (h3 : s'.authenticated = s.authenticated)
    (h4 : s'.chans = s.chans) (h5 : s'.authUser = s.authUser) : DecOK s s1 a := by
  unfold DecOK at *
  rw [h1, h2, h3, h4, h5] at h
  exact h

theorem parseServiceRequest_ok (s : St) (b : Bytes) (e : Env) (s1 : St) (a : Act)
    (h : parseServiceRequest s b e = (s1, a)) : DecOK s s1 a := by
  unfold parseServiceRequest at h
  repeat' (split at h)
  all_goals (obtain ⟨rfl, rfl⟩ := Prod.mk.inj h; simp [DecOK, Act.cbs, Act.plainOK, userOf, np_cons])

theorem authMethod_ok (sc : SigScheme) (sid : Bytes) (s : St) (e : Env) (u sv m : Bytes) (r : Rd)
    (hu : s.authUser = some u) (s1 : St) (a : Act) (h : authMethod sc sid s e u sv m r = (s1, a)) :
    DecOK s s1 a := by
  unfold authMethod interAct at h
  repeat' (split at h)
  all_goals (obtain ⟨rfl, rfl⟩ := Prod.mk.inj h; simp [DecOK, Act.cbs, Act.plainOK, userOf, cGss, np_cons, hu])

theorem pin_lemma (s : St) (user : Bytes) (hpin : ¬(s.authUser ≠ none ∧ s.authUser ≠ some user))
    (u : Bytes) (hu : s.authUser = some u) : u = user := by
  rw [hu] at hpin
  simp at hpin
  exact hpin

theorem parseUserauthRequest_ok (sc : SigScheme) (sid : Bytes) (s : St) (b : Bytes) (e : Env) (s1 : St) (a : Act)
    (h : parseUserauthRequest sc sid s b e = (s1, a)) : DecOK s s1 a := by
  unfold parseUserauthRequest at h
  split at h
  · obtain ⟨rfl, rfl⟩ := Prod.mk.inj h; simp [DecOK, Act.cbs, Act.plainOK]
  split at h
  · obtain ⟨rfl, rfl⟩ := Prod.mk.inj h; simp [DecOK, Act.cbs, Act.plainOK]
  split at h
  · obtain ⟨rfl, rfl⟩ := Prod.mk.inj h; simp [DecOK, Act.cbs, Act.plainOK]
  split at h
  · obtain ⟨rfl, rfl⟩ := Prod.mk.inj h; simp [DecOK, Act.cbs, Act.plainOK]
  split at h
  · obtain ⟨rfl, rfl⟩ := Prod.mk.inj h; simp [DecOK, Act.cbs, Act.plainOK]
  split at h
  · obtain ⟨rfl, rfl⟩ := Prod.mk.inj h; simp [DecOK, Act.cbs, Act.plainOK]
  · have hin := authMethod_ok sc sid _ e _ _ _ _ rfl s1 a h
    unfold DecOK at hin ⊢
    simp only at hin
    refine ⟨hin.1, hin.2.1, hin.2.2.1, hin.2.2.2.1, ?_, hin.2.2.2.2.2.1, hin.2.2.2.2.2.2.1, hin.2.2.2.2.2.2.2⟩
    intro u hu
    have hx := pin_lemma s _ (by assumption) u hu
    subst hx
    exact hin.2.2.2.2.1 u rfl

theorem parseInfoResponse_ok (s : St) (b : Bytes) (e : Env) (s1 : St) (a : Act)
    (h : parseInfoResponse s b e = (s1, a)) : DecOK s s1 a := by
  unfold parseInfoResponse interAct at h
  repeat' (split at h)
  all_goals (obtain ⟨rfl, rfl⟩ := Prod.mk.inj h; simp [DecOK, Act.cbs, Act.plainOK, userOf, np_cons])

theorem gssToken_ok (s : St) (e : Env) (s1 : St) (a : Act) (h : gssToken s e = (s1, a)) : DecOK s s1 a := by
  unfold gssToken at h
  repeat' (split at h)
  all_goals (obtain ⟨rfl, rfl⟩ := Prod.mk.inj h; simp [DecOK, Act.cbs, Act.plainOK, userOf, np_cons])

theorem gssMic_ok (s : St) (e : Env) (s1 : St) (a : Act) (h : gssMic s e = (s1, a)) : DecOK s s1 a := by
  unfold gssMic at h
  repeat' (split at h)
  all_goals (obtain ⟨rfl, rfl⟩ := Prod.mk.inj h; simp [DecOK, Act.cbs, Act.plainOK, userOf, np_cons])

theorem ensureAuthedReply_plain (p : Nat) (b : Bytes) :
    (ensureAuthedReply p b).cbs = [] ∧ (ensureAuthedReply p b).plainOK := by
  unfold ensureAuthedReply
  repeat' split
  all_goals simp [Act.cbs, Act.plainOK, np_cons]

theorem authDispatch_ok (sc : SigScheme) (sid : Bytes) (s : St) (p : Nat) (b : Bytes) (e : Env) (s1 : St) (a : Act)
    (h : authDispatch sc sid s p b e = (s1, a)) : DecOK s s1 a := by
  unfold authDispatch at h
  repeat' (split at h)
  · obtain ⟨rfl, rfl⟩ := Prod.mk.inj h; simp [DecOK, Act.cbs, Act.plainOK]
  · exact DecOK_congr (parseServiceRequest_ok _ b e s1 a h) rfl rfl rfl rfl rfl
  · exact DecOK_congr (parseUserauthRequest_ok sc sid _ b e s1 a h) rfl rfl rfl rfl rfl
  · exact gssToken_ok s e s1 a h
  · exact gssMic_ok s e s1 a h
  · exact parseServiceRequest_ok s b e s1 a h
  · exact parseUserauthRequest_ok sc sid s b e s1 a h
  · exact parseInfoResponse_ok s b e s1 a h

theorem ensureAuthedReply_ne_delegate (p : Nat) (b : Bytes) (c : Bool) : ensureAuthedReply p b ≠ .delegate c := by
  unfold ensureAuthedReply
  repeat' split
  all_goals simp

theorem dispatch_ok (sc : SigScheme) (sid : Bytes) (s : St) (p : Nat) (b : Bytes) (e : Env) (s1 : St) (a : Act)
    (h : dispatch sc sid s p b e = (s1, a)) : DecOK s s1 a := by
  unfold dispatch at h
  split at h
  · repeat' (split at h)
    all_goals (obtain ⟨rfl, rfl⟩ := Prod.mk.inj h)
    · simp [DecOK, Act.cbs, Act.plainOK]
    · simp [DecOK, Act.cbs, Act.plainOK]
    · rename_i hauth
      have : s.authenticated = true := by
        simp only [St.isAuthenticated, Bool.and_eq_true] at hauth; exact hauth.2
      simp [DecOK, Act.cbs, Act.plainOK, this]
    · have := ensureAuthedReply_plain p b
      simp [DecOK, this.1, this.2, ensureAuthedReply_ne_delegate]
  · repeat' (split at h)
    all_goals (obtain ⟨rfl, rfl⟩ := Prod.mk.inj h)
    · simp [DecOK, Act.cbs, Act.plainOK]
    · rename_i hch
      simp [DecOK, Act.cbs, Act.plainOK, hch]
  · exact authDispatch_ok sc sid s p b e s1 a h
  · repeat' (split at h)
    all_goals (obtain ⟨rfl, rfl⟩ := Prod.mk.inj h; simp [DecOK, Act.cbs, Act.plainOK, np_cons])

theorem decideAct_ok (sc : SigScheme) (sid : Bytes) (s : St) (p : Nat) (b : Bytes) (e : Env) (s1 : St) (a : Act)
    (h : decideAct sc sid s p b e = (s1, a)) : DecOK s s1 a := by
  unfold decideAct at h
  split at h
  · obtain ⟨rfl, rfl⟩ := Prod.mk.inj h; simp [DecOK, Act.cbs, Act.plainOK]
  · split at h
    all_goals (obtain ⟨rfl, rfl⟩ := Prod.mk.inj h; simp [DecOK, Act.cbs, Act.plainOK])
  · obtain ⟨rfl, rfl⟩ := Prod.mk.inj h; simp [DecOK, Act.cbs, Act.plainOK]
  · split at h
    · split at h
      · obtain ⟨rfl, rfl⟩ := Prod.mk.inj h; simp [DecOK, Act.cbs, Act.plainOK]
      · split at h
        · obtain ⟨rfl, rfl⟩ := Prod.mk.inj h; simp [DecOK, Act.cbs, Act.plainOK]
        · exact DecOK_congr (dispatch_ok sc sid _ p b e s1 a h) rfl rfl rfl rfl rfl
    · exact dispatch_ok sc sid s p b e s1 a h

/-! ## one step of the loop -/

section step
variable (sc : SigScheme) (sid : Bytes) (s : St) (p : Nat) (b : Bytes) (e : Env)

/-- once the loop has ended nothing is consulted, sent or changed -/
theorem step_inactive (h : s.active = false) : step sc sid s p b e = (s, {}) := by
  simp [step, h]

theorem step_active (h : s.active = true) :
    step sc sid s p b e = perform (decideAct sc sid s p b e).1 e (decideAct sc sid s p b e).2 := by
  simp [step, h]

theorem step_dec : DecOK s (decideAct sc sid s p b e).1 (decideAct sc sid s p b e).2 :=
  decideAct_ok sc sid s p b e _ _ rfl

theorem userOf_allowed (u : Option Bytes) : userOf (Call.mk (.allowed u) none).cb = none := rfl

/-- a pinned username is never replaced -/
theorem step_user_mono (u : Bytes) (hu : s.authUser = some u) : (step sc sid s p b e).1.authUser = some u := by
  by_cases h : s.active = true
  · rw [step_active _ _ _ _ _ _ h, perform_authUser]
    exact (step_dec sc sid s p b e).2.2.2.2.1 u hu
  · simp only [Bool.not_eq_true] at h
    rw [step_inactive _ _ _ _ _ _ h]; exact hu

/-- every credential callback consulted in a step asks about the username pinned after the step -/
theorem step_cbs_user (c : Call) (hc : c ∈ (step sc sid s p b e).2.cbs) (u : Bytes)
    (hu : userOf c.cb = some u) : (step sc sid s p b e).1.authUser = some u := by
  by_cases h : s.active = true
  · rw [step_active _ _ _ _ _ _ h] at hc ⊢
    rw [perform_authUser]
    rcases perform_cbs _ _ _ c hc with h1 | ⟨x, h1⟩
    · exact (step_dec sc sid s p b e).2.2.2.2.2.1 c h1 u hu
    · rw [h1, userOf_allowed] at hu; cases hu
  · simp only [Bool.not_eq_true] at h
    rw [step_inactive _ _ _ _ _ _ h] at hc; simp at hc

theorem step_count_lb : s.failCount + np (step sc sid s p b e).2.sent ≤ (step sc sid s p b e).1.failCount := by
  by_cases h : s.active = true
  · rw [step_active _ _ _ _ _ _ h]
    have d := step_dec sc sid s p b e
    have := perform_count_lb (decideAct sc sid s p b e).1 e _ d.2.2.2.2.2.2.1
    rw [d.1] at this; exact this
  · simp only [Bool.not_eq_true] at h
    rw [step_inactive _ _ _ _ _ _ h]; simp

theorem step_cap (hlt : s.failCount < FAIL_CAP) : s.failCount + np (step sc sid s p b e).2.sent ≤ FAIL_CAP := by
  by_cases h : s.active = true
  · rw [step_active _ _ _ _ _ _ h]
    have d := step_dec sc sid s p b e
    have := perform_cap (decideAct sc sid s p b e).1 e _ d.2.2.2.2.2.2.1 (by rw [d.1]; exact hlt)
    rw [d.1] at this; exact this
  · simp only [Bool.not_eq_true] at h
    rw [step_inactive _ _ _ _ _ _ h]; simp; unfold FAIL_CAP at *; omega

theorem step_inactive_stays (h : s.active = false) : (step sc sid s p b e).1.active = false := by
  rw [step_inactive _ _ _ _ _ _ h]; exact h

/-- invariant: an active transport has counted fewer than ten failures -/
theorem step_inv (hinv : s.active = true → s.failCount < FAIL_CAP) :
    (step sc sid s p b e).1.active = true → (step sc sid s p b e).1.failCount < FAIL_CAP := by
  by_cases h : s.active = true
  · rw [step_active _ _ _ _ _ _ h]
    have d := step_dec sc sid s p b e
    apply perform_inv
    rw [d.1, d.2.1]; exact hinv
  · simp only [Bool.not_eq_true] at h
    rw [step_inactive _ _ _ _ _ _ h]; intro h2; rw [h] at h2; cases h2

/-- the step in which the tenth failure is counted sends DISCONNECT and ends the connection -/
theorem step_cross (hs : s.active = true) (hlt : s.failCount < FAIL_CAP)
    (hge : FAIL_CAP ≤ (step sc sid s p b e).1.failCount) :
    (step sc sid s p b e).1.active = false ∧ msgDiscNoMoreAuth ∈ (step sc sid s p b e).2.sent := by
  rw [step_active _ _ _ _ _ _ hs] at hge ⊢
  have d := step_dec sc sid s p b e
  exact perform_cross _ e _ (by rw [d.2.1]; exact hs) (by rw [d.1]; exact hlt) hge
end step

end PV.AuthServer
