import PV.Model.SftpGet
import PV.Model.PrefetchLemmas
namespace PV.SftpGet
open PV PV.Prefetch

theorem slice_eq (f : Bytes) (o n : Nat) : SftpGet.slice f o n = Prefetch.slice f o n := rfl

theorem rawRead_some {remote : Bytes} {pos size : Nat} {o : RdOut} {x : Bytes}
    (h : rawRead remote pos size o = .ok (some x)) : IsSl remote pos x ∧ 0 < x.length ∧ x.length ≤ size := by
  unfold rawRead at h
  cases o with
  | fail c => simp at h
  | drop => simp at h
  | data k =>
    simp only at h
    split at h
    · simp at h
    · rename_i hav
      simp only [Except.ok.injEq, Option.some.injEq] at h
      subst h
      rw [slice_eq]
      refine ⟨isSl_slice _ _ _, ?_, ?_⟩
      · unfold Prefetch.slice
        rw [List.length_take, List.length_drop]; omega
      · unfold Prefetch.slice
        rw [List.length_take, List.length_drop]; omega

theorem rawRead_none {remote : Bytes} {pos size : Nat} {o : RdOut} (hs : 0 < size)
    (h : rawRead remote pos size o = .ok none) : remote.length ≤ pos := by
  unfold rawRead at h
  cases o with
  | fail c => simp at h
  | drop => simp at h
  | data k =>
    simp only at h
    split at h
    · omega
    · simp at h

/-- the read loop returns file content at `pos`; a short result means end of file was reached -/
theorem readLoop_spec {remote : Bytes} {maxReq : Nat} (hm : 0 < maxReq) :
    ∀ (fuel pos want : Nat) (got : Bytes) (plan : List RdOut) (d : Bytes) (plan' : List RdOut),
      want - got.length < fuel → IsSl remote pos got →
      readLoop remote maxReq fuel pos want got plan = .ok (d, plan') →
      IsSl remote pos d ∧ (d.length < want → remote.length ≤ pos + d.length) := by
  intro fuel
  induction fuel with
  | zero => intro pos want got plan d plan' h; omega
  | succ fuel ih =>
    intro pos want got plan d plan' hf hg h
    unfold readLoop at h
    by_cases hw : got.length ≥ want
    · simp only [hw, if_true] at h
      simp only [Except.ok.injEq, Prod.mk.injEq] at h
      obtain ⟨h1, _⟩ := h
      subst h1
      exact ⟨hg, fun hlt => by omega⟩
    · simp only [hw, if_false] at h
      have hsz : 0 < min (want - got.length) maxReq := by omega
      cases hr : rawRead remote (pos + got.length) (min (want - got.length) maxReq) (nextOut plan).1 with
      | error c => simp [hr] at h
      | ok v =>
        cases v with
        | none =>
          simp only [hr] at h
          simp only [Except.ok.injEq, Prod.mk.injEq] at h
          obtain ⟨h1, _⟩ := h
          subst h1
          exact ⟨hg, fun _ => rawRead_none hsz hr⟩
        | some x =>
          simp only [hr] at h
          obtain ⟨x1, x2, x3⟩ := rawRead_some hr
          refine ih pos want (got ++ x) _ d plan' ?_ (isSl_append hg x1) h
          rw [List.length_append]; omega

theorem transfer_ok_exact {remote : Bytes} {maxReq chunk : Nat} (hm : 0 < maxReq) (hc : 0 < chunk) :
    ∀ (fuel : Nat) (loc : Bytes) (plan : List RdOut) (b : Bytes), IsSl remote 0 loc →
      transfer remote maxReq chunk fuel loc plan = .ok b → b = remote := by
  intro fuel
  induction fuel with
  | zero => intro loc plan b _ h; simp [transfer] at h
  | succ fuel ih =>
    intro loc plan b hl h
    unfold transfer at h
    cases hr : readLoop remote maxReq (chunk + 1) loc.length chunk [] plan with
    | error c => simp [hr] at h
    | ok v =>
      obtain ⟨d, plan'⟩ := v
      simp only [hr] at h
      obtain ⟨s1, s2⟩ := readLoop_spec hm (chunk + 1) loc.length chunk [] plan d plan' (by simp) (isSl_nil _ _) hr
      by_cases he : d.isEmpty = true
      · simp only [he, if_true, Res.ok.injEq] at h
        subst h
        have hd : d = [] := List.isEmpty_iff.mp he
        subst hd
        have := s2 (by simpa using hc)
        simp at this
        have hh := (isSl_at_eof hl (by simpa using this)).1
        simpa using hh
      · simp only [he, Bool.false_eq_true, if_false] at h
        exact ih (loc ++ d) plan' b (isSl_append hl (by simpa using s1)) h

theorem getfo_ok_exact {remote : Bytes} {maxReq chunk statCode openCode : Nat} {plan : List RdOut} {fuel reported : Nat}
    {b : Bytes} (hm : 0 < maxReq) (hc : 0 < chunk)
    (h : getfo remote maxReq chunk statCode openCode plan fuel reported = .ok b) : b = remote := by
  unfold getfo at h
  split at h
  · cases h
  · split at h
    · cases h
    · exact transfer_ok_exact hm hc fuel [] plan b (isSl_nil _ _) h

/-- a failing read is raised by the read loop that issues it -/
theorem readLoop_fail {remote : Bytes} {maxReq fuel pos want c : Nat} {got : Bytes} {rest : List RdOut}
    (hw : got.length < want) :
    readLoop remote maxReq (fuel + 1) pos want got (.fail c :: rest) = .error c := by
  unfold readLoop
  have : ¬ got.length ≥ want := by omega
  simp [this, nextOut, rawRead]

theorem transfer_fail {remote : Bytes} {maxReq chunk fuel c : Nat} {loc : Bytes} {rest : List RdOut} (hc : 0 < chunk) :
    transfer remote maxReq chunk (fuel + 1) loc (.fail c :: rest) = .raised c := by
  unfold transfer
  rw [readLoop_fail (by simpa using hc)]

theorem readLoop_drop {remote : Bytes} {maxReq fuel pos want : Nat} {got : Bytes} {rest : List RdOut}
    (hw : got.length < want) :
    readLoop remote maxReq (fuel + 1) pos want got (.drop :: rest) = .error 3000 := by
  unfold readLoop
  have : ¬ got.length ≥ want := by omega
  simp [this, nextOut, rawRead]

theorem transfer_drop {remote : Bytes} {maxReq chunk fuel : Nat} {loc : Bytes} {rest : List RdOut} (hc : 0 < chunk) :
    transfer remote maxReq chunk (fuel + 1) loc (.drop :: rest) = .raised 3000 := by
  unfold transfer
  rw [readLoop_drop (by simpa using hc)]

end PV.SftpGet
