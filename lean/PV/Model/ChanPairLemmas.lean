/-
  Lemmas for PV.Model.ChanPair: link invariants and conservation of window credits.
-/
import PV.Model.ChanPair
import PV.Model.ChanFlowLemmas
namespace PV.ChanPair
open PV.Chan

theorem drop_wire (cfg : Cfg) (s : St) (x : Act) :
    (step cfg s x).wire = s.wire ++ (step cfg s x).wire.drop s.wire.length := by
  obtain ⟨l, h⟩ := step_wire cfg s x
  rw [h]; simp

theorem local_granted (cfg : Cfg) (s : St) (x : Act) (h : localAct x = true) :
    (step cfg s x).granted = s.granted := by
  rw [step_granted]
  cases x <;> simp_all [localAct, Act.adjustOf]

theorem holdOrDone_recvd (s : St) (t : Nat) (ms : List Msg) (k : Kont) :
    (holdOrDone s t ms k).recvd = s.recvd := by
  obtain ⟨x, e⟩ := holdOrDone_shape s t ms k; rw [e]; rfl

theorem local_recvd (cfg : Cfg) (s : St) (x : Act) (h : localAct x = true) :
    (step cfg s x).recvd = s.recvd := by
  cases x with
  | send t n ext =>
    simp only [step]; split
    · obtain ⟨d, y, e, _⟩ := sendRegion_eff cfg s t n ext none; rw [e]; rfl
    · rfl
  | iter t =>
    simp only [step]; split
    · rename_i l ext hr
      obtain ⟨d, y, e, _⟩ := sendRegion_eff cfg s t l.rem ext (some l); rw [e]; rfl
    · rfl
  | wake t dt =>
    simp only [step]; split
    · rename_i want ext left lp hr
      obtain ⟨d, y, e, _⟩ := wakeRegion_eff cfg s t dt want ext left lp; rw [e]; rfl
    · rfl
  | emit t =>
    simp only [step]; split
    · rw [holdOrDone_recvd]
    · rfl
  | check t =>
    simp only [step]; split
    · rename_i n hr
      have := (checkAdd_spec s n).2.2.2.2.2.2.1
      split <;> simpa [setThr] using this
    · rfl
  | close t =>
    simp only [step]; split
    · rw [holdOrDone_recvd]; exact (closeInternal_spec s).2.2.2.2.2.2.2
    · rfl
  | shutdownWrite t =>
    simp only [step]; split
    · rw [holdOrDone_recvd]; exact (sendEof_spec s).2.2.2.2.2.2.2
    · rfl
  | recv t k err =>
    simp only [step]
    repeat' split
    all_goals rfl
  | sendall t n ext =>
    simp only [step]
    repeat' split
    all_goals rfl
  | unlink => simp only [step]; split <;> rfl
  | shutdownRead => rfl
  | setMode m => rfl
  | feed n => simp [localAct] at h
  | feedExt t code n => simp [localAct] at h
  | adjust n => simp [localAct] at h
  | peerEof => simp [localAct] at h
  | peerClose t => simp [localAct] at h
  | requestFailed t => simp [localAct] at h
  | emitFail t => simp [localAct] at h

/-- handlers never write to the wire themselves (they make the transport thread hold the reply) -/
theorem handler_wire (cfg : Cfg) (s : St) (t code : Nat) (m : Msg) :
    (step cfg s (handlerAct t code m)).wire = s.wire := by
  cases m with
  | data n => rfl
  | adjust n => rfl
  | eof => simp only [handlerAct, step]; split <;> rfl
  | close =>
    simp only [handlerAct, step]; split
    · obtain ⟨x, e⟩ := holdOrDone_shape { (closeInternal s).1 with linked := false } t (closeInternal s).2 .retNone
      rw [e]; exact (closeInternal_frame s).1
    · rfl
  | ext n =>
    simp only [handlerAct, step]
    have e : (checkAdd { s with recvd := s.recvd + n, discarded := s.discarded + n } n).1.wire = s.wire :=
      (checkAdd_frame { s with recvd := s.recvd + n, discarded := s.discarded + n } n).1
    repeat' split
    all_goals first
      | exact e
      | rfl

theorem handler_granted (cfg : Cfg) (s : St) (t code : Nat) (m : Msg) :
    (step cfg s (handlerAct t code m)).granted = s.granted + m.adjLen := by
  rw [step_granted]
  cases m <;> rfl

/-- what a handler adds to the receive counter: exactly the data bytes of the message (the transport thread is
    idle when it picks up the next message) -/
theorem handler_recvd (cfg : Cfg) (hc : cfg.creditDiscarded = true) (s : St) (t code : Nat) (m : Msg)
    (hid : idleOf s t = true) : (step cfg s (handlerAct t code m)).recvd = s.recvd + m.dataLen := by
  cases m with
  | data n => rfl
  | adjust n => rfl
  | eof => simp only [handlerAct, step]; split <;> rfl
  | close =>
    simp only [handlerAct, step, hid, if_true]
    rw [holdOrDone_recvd]; exact (closeInternal_spec s).2.2.2.2.2.2.2
  | ext n =>
    simp only [handlerAct, step, hid, hc, if_true]
    have e : (checkAdd { s with recvd := s.recvd + n, discarded := s.discarded + n } n).1.recvd = s.recvd + n :=
      (checkAdd_spec { s with recvd := s.recvd + n, discarded := s.discarded + n } n).2.2.2.2.2.2.1
    repeat' split
    all_goals first
      | exact e
      | rfl

/-! ## the pair invariant -/

structure PInv (W0 : Nat) (y : Sys) : Prop where
  wa : WInv y.a
  sb : SofarInv y.b
  eb : EqInv y.b
  rb : AInv y.b
  l1 : y.b.linked = true → dataSum y.a.wire = dataSum y.ab + y.b.recvd
  l2 : y.a.linked = true → adjSum y.b.wire + W0 = adjSum y.ba + y.a.granted
  la : y.a.leaked = 0      -- the transports of the two-sided model never fail a write

theorem pstep_pinv (cfg : Cfg) (hc : cfg.creditDiscarded = true) (W0 : Nat) (y : Sys) (p : PAct)
    (hi : PInv W0 y) : PInv W0 (pstep cfg y p) := by
  obtain ⟨wa, sb, eb, rb, l1, l2, la⟩ := hi
  cases p with
  | left x =>
    simp only [pstep]; split
    · rename_i hl
      simp only [sideStep]
      obtain ⟨lw, hw⟩ := step_wire cfg y.a x
      have hd : (step cfg y.a x).wire.drop y.a.wire.length = lw := by rw [hw]; simp
      refine ⟨step_winv cfg _ x wa, sb, eb, rb, ?_, ?_,
        (step_leaked cfg _ x (by intro t e; subst e; simp [localAct] at hl)).trans la⟩
      · intro hb
        have := l1 hb
        simp only at *
        rw [hd, hw, dataSum_append, dataSum_append]; omega
      · intro ha
        have := l2 ((step_frame cfg y.a x).2.2.2.1 ha)
        simp only at *
        rw [local_granted cfg _ x hl]; exact this
    · exact ⟨wa, sb, eb, rb, l1, l2, la⟩
  | right x =>
    simp only [pstep]; split
    · rename_i hl
      simp only [sideStep]
      obtain ⟨lw, hw⟩ := step_wire cfg y.b x
      have hd : (step cfg y.b x).wire.drop y.b.wire.length = lw := by rw [hw]; simp
      refine ⟨wa, step_sofar cfg _ x sb, step_eqinv cfg hc _ x (by intro t e; subst e; simp [localAct] at hl) eb,
        step_ainv cfg _ x rb, ?_, ?_, la⟩
      · intro hb
        have := l1 ((step_frame cfg y.b x).2.2.2.1 hb)
        simp only at *
        rw [local_recvd cfg _ x hl]; exact this
      · intro ha
        have := l2 ha
        simp only at *
        rw [hd, hw, adjSum_append, adjSum_append]; omega
    · exact ⟨wa, sb, eb, rb, l1, l2, la⟩
  | deliverAB t code =>
    simp only [pstep]
    split
    · exact ⟨wa, sb, eb, rb, l1, l2, la⟩
    · rename_i m rest hab
      split
      · rename_i hid
        unfold deliverTo
        split
        · rename_i hlk
          refine ⟨wa, step_sofar cfg _ _ sb, step_eqinv cfg hc _ _ (by intro t' e; cases m <;> cases e) eb,
            step_ainv cfg _ _ rb, ?_, ?_, la⟩
          · intro _
            have := l1 hlk
            simp only at *
            rw [handler_recvd cfg hc _ t code m hid, this, hab]
            simp only [dataSum]; omega
          · intro ha
            have := l2 ha
            simp only at *
            rw [handler_wire]; exact this
        · rename_i hlk
          refine ⟨wa, sb, eb, rb, ?_, l2, la⟩
          intro hb; exact absurd hb hlk
      · exact ⟨wa, sb, eb, rb, l1, l2, la⟩
  | deliverBA t code =>
    simp only [pstep]
    split
    · exact ⟨wa, sb, eb, rb, l1, l2, la⟩
    · rename_i m rest hba
      split
      · rename_i hid
        unfold deliverTo
        split
        · rename_i hlk
          refine ⟨step_winv cfg _ _ wa, sb, eb, rb, ?_, ?_,
            (step_leaked cfg _ _ (by intro t' e; cases m <;> cases e)).trans la⟩
          · intro hb
            have := l1 hb
            simp only at *
            rw [handler_wire]; exact this
          · intro _
            have := l2 hlk
            simp only at *
            rw [handler_granted, hba] at *
            simp only [adjSum] at this; omega
        · rename_i hlk
          refine ⟨wa, sb, eb, rb, l1, ?_, la⟩
          intro ha; exact absurd ha hlk
      · exact ⟨wa, sb, eb, rb, l1, l2, la⟩

theorem prun_pinv (cfg : Cfg) (hc : cfg.creditDiscarded = true) (W0 : Nat) (y : Sys) (ps : List PAct)
    (hi : PInv W0 y) : PInv W0 (prun cfg y ps) := by
  induction ps generalizing y with
  | nil => exact hi
  | cons p ps ih => exact ih _ (pstep_pinv cfg hc W0 y p hi)

/-- conservation: with both channels still registered and the receiver still accounting, the credits of the
    a→b direction add up to the window b advertised -/
theorem credits_of_pinv (W0 : Nat) (y : Sys) (hi : PInv W0 y) (ha : y.a.linked = true) (hb : y.b.linked = true)
    (hacc : acct y.b = true) : credits y = W0 := by
  obtain ⟨wa, _, eb, rb, l1, l2, la⟩ := hi
  have h1 := l1 hb
  have h2 := l2 ha
  have h3 := eb hacc
  simp only [WInv, AInv, EqCore, credits] at *
  omega

end PV.ChanPair

namespace PV.ChanPair
open PV.Chan

/-! ## the other direction, by symmetry -/

def swap (y : Sys) : Sys := { a := y.b, b := y.a, ab := y.ba, ba := y.ab }

def PAct.swap : PAct → PAct
  | .left x => .right x
  | .right x => .left x
  | .deliverAB t c => .deliverBA t c
  | .deliverBA t c => .deliverAB t c

theorem pstep_swap (cfg : Cfg) (y : Sys) (p : PAct) : pstep cfg (swap y) p.swap = swap (pstep cfg y p) := by
  cases p with
  | left x => simp only [PAct.swap, pstep, swap]; split <;> rfl
  | right x => simp only [PAct.swap, pstep, swap]; split <;> rfl
  | deliverAB t c =>
    simp only [PAct.swap, pstep, swap]
    split
    · rename_i h; simp only [h]
    · rename_i m rest h; simp only [h]; split <;> simp [h]
  | deliverBA t c =>
    simp only [PAct.swap, pstep, swap]
    split
    · rename_i h; simp only [h]
    · rename_i m rest h; simp only [h]; split <;> simp [h]

theorem prun_swap (cfg : Cfg) (y : Sys) (ps : List PAct) :
    prun cfg (swap y) (ps.map PAct.swap) = swap (prun cfg y ps) := by
  induction ps generalizing y with
  | nil => rfl
  | cons p ps ih =>
    show prun cfg (pstep cfg (swap y) p.swap) (ps.map PAct.swap) = _
    rw [pstep_swap, ih]; rfl

end PV.ChanPair
