/-
  No lost wake-up: with `notify_all` in `_window_adjust`, a sender that is asleep and has not been notified sees a
  closed window — so whenever the window is open every sleeper has a notification pending.
-/
import PV.Model.ChanNotify
import PV.Model.ChanCloseLemmas
namespace PV.Chan

/-- what a step does to the thread list and the window: nothing, or one thread's state is replaced — and if the
    new state is "asleep in out_buffer_cv.wait" the window is zero afterwards -/
def ThrEff (s s' : St) : Prop :=
  s'.thr = s.thr ∨ ∃ t0 y, s'.thr = s.thr.set t0 y ∧ (y.isWaiting = true → s'.outWin = 0)

theorem thrEff_setThr (s s0 : St) (t : Nat) (y : TSt) (h : s0.thr = s.thr) (hy : y.isWaiting = false) :
    ThrEff s (setThr s0 t y) :=
  .inr ⟨t, y, by simp [setThr, h], by intro h'; rw [hy] at h'; cases h'⟩

theorem holdState_notWaiting (ms : List Msg) (k : Kont) : (holdState ms k).isWaiting = false := by
  cases ms with
  | nil =>
    simp only [holdState]
    cases k with
    | loop l e n => simp only [kontState]; split <;> rfl
    | _ => rfl
  | cons a b => rfl

/-- send path: a thread goes to sleep only on a zero window -/
def SendEff3 (s s' : St) (t : Nat) : Prop :=
  ∃ d y, s' = setThr { s with outWin := s.outWin - d } t y ∧ (y.isWaiting = true → s.outWin = 0)

theorem zeroResult_eff3 (cfg : Cfg) (s : St) (t : Nat) (ext : Bool) (lp : Option Loop) :
    SendEff3 s (zeroResult cfg s t ext lp) t := by
  unfold zeroResult
  split
  · exact ⟨0, _, rfl, by intro h; cases h⟩
  · split <;> exact ⟨0, _, rfl, by intro h; cases h⟩

theorem grant_eff3 (cfg : Cfg) (s : St) (t want : Nat) (ext : Bool) (lp : Option Loop) :
    SendEff3 s (grant cfg s t want ext lp) t := by
  unfold grant
  simp only
  split
  · exact zeroResult_eff3 cfg s t ext lp
  · exact ⟨allocate s want, _, rfl, by intro h; cases h⟩

theorem sendRegion_eff3 (cfg : Cfg) (s : St) (t want : Nat) (ext : Bool) (lp : Option Loop) :
    SendEff3 s (sendRegion cfg s t want ext lp) t := by
  unfold sendRegion
  split
  · exact ⟨0, _, rfl, by intro h; cases h⟩
  · split
    · exact zeroResult_eff3 cfg s t ext lp
    · split
      · rename_i h0
        split
        · exact ⟨0, _, rfl, by intro h; cases h⟩
        · exact ⟨0, _, rfl, fun _ => h0⟩
        · exact ⟨0, _, rfl, by intro h; cases h⟩
        · exact ⟨0, _, rfl, fun _ => h0⟩
      · exact grant_eff3 cfg s t want ext lp

theorem wakeRegion_eff3 (cfg : Cfg) (s : St) (t dt want : Nat) (ext : Bool) (left : Option Nat)
    (lp : Option Loop) : SendEff3 s (wakeRegion cfg s t dt want ext left lp) t := by
  have cont : ∀ left', SendEff3 s (if s.outWin = 0 then
      if (s.closed || s.eofSent) = true then zeroResult cfg s t ext lp
      else setThr s t (.waiting want ext left' lp)
    else if (s.closed || s.eofSent) = true then zeroResult cfg s t ext lp
    else grant cfg s t want ext lp) t := by
    intro left'
    split
    · rename_i h0
      split
      · exact zeroResult_eff3 cfg s t ext lp
      · exact ⟨0, _, rfl, fun _ => h0⟩
    · split
      · exact zeroResult_eff3 cfg s t ext lp
      · exact grant_eff3 cfg s t want ext lp
  unfold wakeRegion
  simp only
  split
  · exact cont none
  · split
    · exact ⟨0, _, rfl, by intro h; cases h⟩
    · exact cont _

theorem thrEff_of_eff3 (s s' : St) (t : Nat) (h : SendEff3 s s' t) : ThrEff s s' ∧ s'.outWin ≤ s.outWin := by
  obtain ⟨d, y, e, hw⟩ := h
  rw [e]
  refine ⟨.inr ⟨t, y, rfl, ?_⟩, by simp [setThr]⟩
  intro hy
  have := hw hy
  simp [setThr, this]

/-- every action: effect on the thread list, and the window only grows in `_window_adjust` -/
theorem step_eff (cfg : Cfg) (s : St) (x : Act) :
    ThrEff s (step cfg s x) ∧ ((∀ k, x ≠ .adjust k) → (step cfg s x).outWin ≤ s.outWin) := by
  have same : ∀ s' : St, s'.thr = s.thr → s'.outWin = s.outWin →
      ThrEff s s' ∧ ((∀ k, x ≠ .adjust k) → s'.outWin ≤ s.outWin) :=
    fun s' h1 h2 => ⟨.inl h1, fun _ => by omega⟩
  have upd : ∀ (s0 : St) (t : Nat) (y : TSt), s0.thr = s.thr → s0.outWin = s.outWin → y.isWaiting = false →
      ThrEff s (setThr s0 t y) ∧ ((∀ k, x ≠ .adjust k) → (setThr s0 t y).outWin ≤ s.outWin) :=
    fun s0 t y h1 h2 hy => ⟨thrEff_setThr s s0 t y h1 hy, fun _ => by simp [setThr, h2]⟩
  cases x with
  | send t n ext =>
    simp only [step]; split
    · have := thrEff_of_eff3 s _ t (sendRegion_eff3 cfg s t n ext none); exact ⟨this.1, fun _ => this.2⟩
    · exact same s rfl rfl
  | iter t =>
    simp only [step]; split
    · rename_i l ext hr
      have := thrEff_of_eff3 s _ t (sendRegion_eff3 cfg s t l.rem ext (some l)); exact ⟨this.1, fun _ => this.2⟩
    · exact same s rfl rfl
  | wake t dt =>
    simp only [step]; split
    · rename_i want ext left lp hr
      have := thrEff_of_eff3 s _ t (wakeRegion_eff3 cfg s t dt want ext left lp); exact ⟨this.1, fun _ => this.2⟩
    · exact same s rfl rfl
  | sendall t n ext =>
    simp only [step]; split
    · split <;> exact upd s t _ rfl rfl rfl
    · exact same s rfl rfl
  | emit t =>
    simp only [step]; split
    · rw [holdOrDone_eq]; exact upd _ t _ rfl rfl (holdState_notWaiting _ _)
    · exact same s rfl rfl
  | recv t k err =>
    simp only [step]
    repeat' split
    all_goals first
      | exact same s rfl rfl
      | exact upd _ t _ rfl rfl rfl
  | check t =>
    simp only [step]; split
    · rename_i n hr
      obtain ⟨v, e⟩ := checkAdd_shape s n
      split <;> (rw [e]; exact upd _ t _ rfl rfl rfl)
    · exact same s rfl rfl
  | close t =>
    simp only [step]; split
    · rw [holdOrDone_eq]
      obtain ⟨c, e, r, p, h, _⟩ := closeInternal_shape s
      rw [h]; exact upd _ t _ rfl rfl (holdState_notWaiting _ _)
    · exact same s rfl rfl
  | peerClose t =>
    simp only [step]; split
    · rw [holdOrDone_eq]
      obtain ⟨c, e, r, p, h, _⟩ := closeInternal_shape s
      rw [h]; exact upd _ t _ rfl rfl (holdState_notWaiting _ _)
    · exact same s rfl rfl
  | requestFailed t =>
    simp only [step]; split
    · rw [holdOrDone_eq]
      obtain ⟨c, e, r, p, h, _⟩ := closeInternal_shape s
      rw [h]; exact upd _ t _ rfl rfl (holdState_notWaiting _ _)
    · exact same s rfl rfl
  | shutdownWrite t =>
    simp only [step]; split
    · rw [holdOrDone_eq]
      obtain ⟨e, r, h, _⟩ := sendEof_shape s
      rw [h]; exact upd _ t _ rfl rfl (holdState_notWaiting _ _)
    · exact same s rfl rfl
  | feedExt t code n =>
    simp only [step]
    obtain ⟨v, e⟩ := checkAdd_shape { s with recvd := s.recvd + n, discarded := s.discarded + n } n
    repeat' split
    all_goals first
      | exact same _ rfl rfl
      | (rw [e]; exact same _ rfl rfl)
      | (rw [e]; exact upd _ t _ rfl rfl rfl)
  | adjust k => exact ⟨.inl rfl, fun h => absurd rfl (h k)⟩
  | peerEof => simp only [step]; split <;> exact same _ rfl rfl
  | emitFail t =>
    simp only [step]; split
    · exact upd _ t _ rfl rfl rfl
    · exact same s rfl rfl
  | unlink => simp only [step]; split <;> exact same _ rfl rfl
  | shutdownRead => exact same _ rfl rfl
  | setMode m => exact same _ rfl rfl
  | feed n => exact same _ rfl rfl

/-- a thread that is asleep after a step either was asleep in the same state before, or the window is zero -/
theorem asleep_after (cfg : Cfg) (s : St) (x : Act) (t : Nat) (h : isWaitingAt (step cfg s x) t = true) :
    (step cfg s x).thr[t]? = s.thr[t]? ∨ (step cfg s x).outWin = 0 := by
  rcases (step_eff cfg s x).1 with e | ⟨t0, y, e, hy⟩
  · exact .inl (by rw [e])
  · by_cases ht : t = t0
    · subst ht
      right
      apply hy
      unfold isWaitingAt at h
      rw [e] at h
      by_cases hlt : t < s.thr.length
      · simpa [hlt] using h
      · simp [hlt] at h
    · left
      rw [e, List.getElem?_set_ne (Ne.symm ht)]

/-- … and a thread that has just been woken and is asleep again found the window zero -/
theorem asleep_after_wake (cfg : Cfg) (s : St) (t dt : Nat) (h : isWaitingAt (step cfg s (.wake t dt)) t = true)
    (hw : isWaitingAt s t = true) : (step cfg s (.wake t dt)).outWin = 0 := by
  unfold isWaitingAt at hw
  cases hr : s.thr[t]? with
  | none => rw [hr] at hw; cases hw
  | some x0 =>
    rw [hr] at hw
    cases x0 with
    | waiting want ext left lp =>
      simp only [step, hr] at h ⊢
      obtain ⟨d, y, e, hy⟩ := wakeRegion_eff3 cfg s t dt want ext left lp
      rw [e] at h ⊢
      have hlt : t < s.thr.length := (List.getElem?_eq_some_iff.1 hr).1
      have : y.isWaiting = true := by simpa [isWaitingAt, setThr, hlt] using h
      simp [setThr, hy this]
    | _ => cases hw

def NoLost (z : NSt) : Prop := ∀ t, isWaitingAt z.base t = true → t ∉ z.sig → z.base.outWin = 0

theorem mem_waitingIds (s : St) (t : Nat) (h : isWaitingAt s t = true) : t ∈ waitingIds s := by
  unfold waitingIds
  rw [List.mem_filter, List.mem_range]
  refine ⟨?_, h⟩
  unfold isWaitingAt at h
  cases hr : s.thr[t]? with
  | none => rw [hr] at h; cases h
  | some x => exact (List.getElem?_eq_some_iff.1 hr).1

theorem sig_grows (n : NCfg) (s : St) (sig : List Nat) (b : Bool) (t : Nat)
    (h : t ∉ (if b then (if n.closeAll then notifyAll s sig else notifyOne s sig) else sig)) : t ∉ sig := by
  intro hm
  apply h
  split
  · split
    · exact List.mem_append_right _ hm
    · unfold notifyOne; split
      · exact hm
      · exact List.mem_cons_of_mem _ hm
  · exact hm

/-- **No lost wake-up** is inductive when `_window_adjust` uses `notify_all` (whatever `_set_closed` uses) -/
theorem nstep_nolost (n : NCfg) (hn : n.adjustAll = true) (cfg : Cfg) (z : NSt) (x : Act) (hi : NoLost z) :
    NoLost (nstep n cfg z x) := by
  have other : ∀ (sig' : List Nat), (∀ t, t ∉ sig' → t ∉ z.sig) → (∀ k, x ≠ .adjust k) → (∀ t dt, x ≠ .wake t dt) →
      NoLost { base := step cfg z.base x, sig := sig' } := by
    intro sig' hsig hna _ t hw hns
    rcases asleep_after cfg z.base x t hw with h | h
    · have hw0 : isWaitingAt z.base t = true := by
        unfold isWaitingAt at hw ⊢; rw [h] at hw; exact hw
      have := hi t hw0 (hsig t hns)
      have hle := (step_eff cfg z.base x).2 hna
      show (step cfg z.base x).outWin = 0
      omega
    · exact h
  cases x with
  | wake t0 dt =>
    simp only [nstep]
    split
    · intro t hw hns
      by_cases ht : t = t0
      · subst ht
        by_cases hw0 : isWaitingAt z.base t = true
        · exact asleep_after_wake cfg z.base t dt hw hw0
        · -- not asleep before: the action is a no-op on the base state
          have : step cfg z.base (.wake t dt) = z.base := by
            unfold isWaitingAt at hw0
            simp only [step]
            split
            · rename_i want ext left lp hr
              rw [hr] at hw0; simp [TSt.isWaiting] at hw0
            · rfl
          rw [this] at hw
          exact absurd hw hw0
      · rcases asleep_after cfg z.base (.wake t0 dt) t hw with h | h
        · have hw0 : isWaitingAt z.base t = true := by
            unfold isWaitingAt at hw ⊢; rw [h] at hw; exact hw
          have hns0 : t ∉ z.sig := by
            intro hm
            apply hns
            simp only [List.mem_filter]
            exact ⟨hm, by simpa using ht⟩
          have := hi t hw0 hns0
          have hle := (step_eff cfg z.base (.wake t0 dt)).2 (by intro k h; cases h)
          show (step cfg z.base (.wake t0 dt)).outWin = 0
          omega
        · exact h
    · exact hi
  | adjust k =>
    simp only [nstep, hn, if_true]
    intro t hw hns
    exfalso
    apply hns
    have : isWaitingAt z.base t = true := by
      unfold isWaitingAt at hw ⊢
      simpa [step] using hw
    exact List.mem_append_left _ (mem_waitingIds z.base t this)
  | send t n' ext => exact other _ (sig_grows n _ _ _) (by intro k h; cases h) (by intro t dt h; cases h)
  | sendall t n' ext => exact other _ (sig_grows n _ _ _) (by intro k h; cases h) (by intro t dt h; cases h)
  | iter t => exact other _ (sig_grows n _ _ _) (by intro k h; cases h) (by intro t dt h; cases h)
  | emit t => exact other _ (sig_grows n _ _ _) (by intro k h; cases h) (by intro t dt h; cases h)
  | recv t k err => exact other _ (sig_grows n _ _ _) (by intro k h; cases h) (by intro t dt h; cases h)
  | check t => exact other _ (sig_grows n _ _ _) (by intro k h; cases h) (by intro t dt h; cases h)
  | close t => exact other _ (sig_grows n _ _ _) (by intro k h; cases h) (by intro t dt h; cases h)
  | shutdownWrite t => exact other _ (sig_grows n _ _ _) (by intro k h; cases h) (by intro t dt h; cases h)
  | shutdownRead => exact other _ (sig_grows n _ _ _) (by intro k h; cases h) (by intro t dt h; cases h)
  | setMode m => exact other _ (sig_grows n _ _ _) (by intro k h; cases h) (by intro t dt h; cases h)
  | feed k => exact other _ (sig_grows n _ _ _) (by intro k h; cases h) (by intro t dt h; cases h)
  | feedExt t c k => exact other _ (sig_grows n _ _ _) (by intro k h; cases h) (by intro t dt h; cases h)
  | peerEof => exact other _ (sig_grows n _ _ _) (by intro k h; cases h) (by intro t dt h; cases h)
  | peerClose t => exact other _ (sig_grows n _ _ _) (by intro k h; cases h) (by intro t dt h; cases h)
  | requestFailed t => exact other _ (sig_grows n _ _ _) (by intro k h; cases h) (by intro t dt h; cases h)
  | emitFail t => exact other _ (sig_grows n _ _ _) (by intro k h; cases h) (by intro t dt h; cases h)
  | unlink => exact other _ (sig_grows n _ _ _) (by intro k h; cases h) (by intro t dt h; cases h)

theorem nrun_nolost (n : NCfg) (hn : n.adjustAll = true) (cfg : Cfg) (z : NSt) (as : List Act) (hi : NoLost z) :
    NoLost (nrun n cfg z as) := by
  induction as generalizing z with
  | nil => exact hi
  | cons a as ih => exact ih _ (nstep_nolost n hn cfg z a hi)

end PV.Chan
