/-
  PV.Model.Negotiate — executable model of SSH algorithm negotiation in paramiko/transport.py:
  `Transport._filter_algorithm`, the `preferred_*` properties (incl. the host-key cert interleaving),
  `SecurityOptions._set` (name validation), `Transport._send_kex_init` (advertised lists, the
  group-exchange-without-moduli rule, the `ext-info-c` / `kex-strict-*` markers) and
  `Transport._parse_kex_init` (marker stripping, strict-kex flag, the per-category `filter(...)`
  expressions for both roles, `IncompatiblePeer`).

  Algorithm names are byte strings (`Bytes`); a name-list travels as `Wire.joinComma` and is read
  back with `Wire.splitComma` (`Message.add_list` / `get_list`).  The tables of known names
  (`Info`) are a parameter; the instance regenerated from the source is `PV.Generated.C05`.
  Mathlib-free, everything executable.
-/
import PV.Base.Wire
namespace PV.Negotiate
open PV PV.Wire

abbrev Name := Bytes

/-! ## names with a meaning -/

/-- `"ext-info-"` -/
def extInfoPrefix : Name := [101, 120, 116, 45, 105, 110, 102, 111, 45]
/-- `"kex-strict-"` -/
def strictPrefix : Name := [107, 101, 120, 45, 115, 116, 114, 105, 99, 116, 45]
/-- `"ext-info-c"` -/
def extInfoC : Name := extInfoPrefix ++ [99]
/-- `"-v00@openssh.com"` -/
def strictSuffix : Name := [45, 118, 48, 48, 64, 111, 112, 101, 110, 115, 115, 104, 46, 99, 111, 109]
/-- `f"kex-strict-{which}-v00@openssh.com"`, `which` = `c` (99) or `s` (115) -/
def strictMarker (server : Bool) : Name := strictPrefix ++ [if server then 115 else 99] ++ strictSuffix
/-- `"diffie-hellman-group-exchange-sha"` -/
def gexPrefix : Name :=
  [100, 105, 102, 102, 105, 101, 45, 104, 101, 108, 108, 109, 97, 110, 45, 103, 114, 111, 117, 112, 45,
   101, 120, 99, 104, 97, 110, 103, 101, 45, 115, 104, 97]
/-- `"-cert-v01@openssh.com"` -/
def certSuffix : Name :=
  [45, 99, 101, 114, 116, 45, 118, 48, 49, 64, 111, 112, 101, 110, 115, 115, 104, 46, 99, 111, 109]

def isExtInfo (a : Name) : Bool := extInfoPrefix.isPrefixOf a
def isStrict (a : Name) : Bool := strictPrefix.isPrefixOf a
/-- a pseudo-algorithm of the kex name-list (never a real key exchange method) -/
def isMarker (a : Name) : Bool := isExtInfo a || isStrict a
def isGex (a : Name) : Bool := gexPrefix.isPrefixOf a
def cert (a : Name) : Name := a ++ certSuffix

/-! ## configuration of one transport -/

/-- key sets of `_kex_info`, `_key_info`, `_cipher_info`, `_mac_info`, `_compression_info` -/
structure Info where
  kex : List Name
  keys : List Name
  ciphers : List Name
  macs : List Name
  compression : List Name

structure Side where
  serverMode : Bool
  /-- `_preferred_kex`, `_preferred_keys`, … (instance or class attributes) -/
  prefKex : List Name
  prefKeys : List Name
  prefCiphers : List Name
  prefMacs : List Name
  prefComp : List Name
  /-- `disabled_algorithms.get("kex", [])`, … -/
  disKex : List Name
  disKeys : List Name
  disCiphers : List Name
  disMacs : List Name
  disComp : List Name
  /-- `list(server_key_dict.keys())` -/
  serverKeys : List Name
  /-- `_modulus_pack is not None` -/
  hasModuli : Bool
  advertiseStrict : Bool
  /-- `agreed_on_strict_kex` (kept across key exchanges) -/
  agreedStrict : Bool
  initialKexDone : Bool
  deriving Repr, DecidableEq

/-- `Transport._filter_algorithm`: `tuple(x for x in default if x not in disabled)` -/
def filterAlg (pref dis : List Name) : List Name := pref.filter fun x => !dis.contains x

def Side.preferredKex (s : Side) : List Name := filterAlg s.prefKex s.disKex
def Side.preferredCiphers (s : Side) : List Name := filterAlg s.prefCiphers s.disCiphers
def Side.preferredMacs (s : Side) : List Name := filterAlg s.prefMacs s.disMacs
def Side.preferredComp (s : Side) : List Name := filterAlg s.prefComp s.disComp

/-- `Transport.preferred_keys`: the filtered names followed by their `-cert-v01@openssh.com`
    variants; a variant that is itself disabled is not offered. -/
def Side.preferredKeys (s : Side) : List Name :=
  let filtered := filterAlg s.prefKeys s.disKeys
  filtered ++ (filtered.map cert).filter fun x => !s.disKeys.contains x

/-- `list(filter(list(self.server_key_dict.keys()).__contains__, self.preferred_keys))` -/
def Side.availableServerKeys (s : Side) : List Name :=
  s.preferredKeys.filter fun x => s.serverKeys.contains x

inductive Err
  | incompatible      -- IncompatiblePeer
  | messageOrder      -- MessageOrderError (strict kex, KEXINIT not the first packet)
  | valueError        -- SecurityOptions._set: "unknown cipher"
  | keyError          -- self._kex_info[agreed_kex[0]] for a name outside the table
  deriving Repr, DecidableEq

/-- `SecurityOptions._set` for `kex`: every name must be a key of `_kex_info` -/
def setKex (info : Info) (s : Side) (x : List Name) : Except Err Side :=
  if (x.filter fun n => !info.kex.contains n).length > 0 then .error .valueError
  else .ok { s with prefKex := x }

/-- the five categories `SecurityOptions` exposes (`kex`, `key_types`, `ciphers`, `digests`, `compression`) -/
inductive Cat | kex | keys | ciphers | macs | compression
  deriving Repr, DecidableEq

def Info.table (i : Info) : Cat → List Name
  | .kex => i.kex | .keys => i.keys | .ciphers => i.ciphers | .macs => i.macs | .compression => i.compression

def Side.pref (s : Side) : Cat → List Name
  | .kex => s.prefKex | .keys => s.prefKeys | .ciphers => s.prefCiphers | .macs => s.prefMacs
  | .compression => s.prefComp

def Side.withPref (s : Side) : Cat → List Name → Side
  | .kex, x => { s with prefKex := x }
  | .keys, x => { s with prefKeys := x }
  | .ciphers, x => { s with prefCiphers := x }
  | .macs, x => { s with prefMacs := x }
  | .compression, x => { s with prefComp := x }

/-- `SecurityOptions._set(name, orig, x)` for any category: the names are validated against the table
    FIRST; only a fully valid tuple is stored.  Result: the transport afterwards, and whether
    `ValueError` was raised — after a raising assignment the transport is exactly as before. -/
def setPref (info : Info) (s : Side) (c : Cat) (x : List Name) : Side × Bool :=
  if (x.filter fun n => !(info.table c).contains n).length > 0 then (s, true)
  else (s.withPref c x, false)

/-- a program of assignments (each may raise and be caught by the caller: "try an optional
    algorithm, fall back") -/
def applySetters (info : Info) (s : Side) : List (Cat × List Name) → Side
  | [] => s
  | (c, x) :: rest => applySetters info (setPref info s c x).1 rest

def Side.dis (s : Side) : Cat → List Name
  | .kex => s.disKex | .keys => s.disKeys | .ciphers => s.disCiphers | .macs => s.disMacs
  | .compression => s.disComp

def Side.withDis (s : Side) : Cat → List Name → Side
  | .kex, x => { s with disKex := x }
  | .keys, x => { s with disKeys := x }
  | .ciphers, x => { s with disCiphers := x }
  | .macs, x => { s with disMacs := x }
  | .compression, x => { s with disComp := x }

/-- `Transport._filter_algorithm(type_)` / the `preferred_*` properties as a function of the transport's
    state *now*: nothing is remembered between calls. -/
def Side.preferred (s : Side) : Cat → List Name
  | .kex => s.preferredKex | .keys => s.preferredKeys | .ciphers => s.preferredCiphers
  | .macs => s.preferredMacs | .compression => s.preferredComp

/-- what an application can do to one transport object between (re)negotiations -/
inductive Op
  /-- `get_security_options().<c> = x` (may raise `ValueError`, caught by the caller) -/
  | setPref (c : Cat) (x : List Name)
  /-- `disabled_algorithms[c]` becomes `x`: re-assignment of the dict, in-place mutation, or mutation of
      the dict object that was passed to the constructor (kept by reference) -/
  | setDisabled (c : Cat) (x : List Name)
  /-- reading `t.preferred_<c>` / `get_security_options().<c>`: no effect on the transport -/
  | read (c : Cat)
  deriving Repr, DecidableEq

def applyOp (info : Info) (s : Side) : Op → Side
  | .setPref c x => (setPref info s c x).1
  | .setDisabled c x => s.withDis c x
  | .read _ => s

def applyOps (info : Info) (s : Side) : List Op → Side
  | [] => s
  | op :: rest => applyOps info (applyOp info s op) rest

def Op.isRead : Op → Bool
  | .read _ => true
  | _ => false

/-! ## KEXINIT -/

/-- the eight algorithm name-lists of a KEXINIT, in wire order -/
structure KexInit where
  kex : List Name
  keys : List Name
  cEnc : List Name
  sEnc : List Name
  cMac : List Name
  sMac : List Name
  cComp : List Name
  sComp : List Name
  deriving Repr, DecidableEq

/-- `add_list` then the peer's `get_list` (`",".join` / `.split(",")`); `[]` arrives as `[""]` -/
def viaWire (l : List Name) : List Name := splitComma (joinComma l)

def KexInit.viaWire (k : KexInit) : KexInit :=
  { kex := Negotiate.viaWire k.kex, keys := Negotiate.viaWire k.keys,
    cEnc := Negotiate.viaWire k.cEnc, sEnc := Negotiate.viaWire k.sEnc,
    cMac := Negotiate.viaWire k.cMac, sMac := Negotiate.viaWire k.sMac,
    cComp := Negotiate.viaWire k.cComp, sComp := Negotiate.viaWire k.sComp }

/-- the group-exchange-without-moduli rule of `_send_kex_init` applies -/
def Side.mustDropGex (s : Side) : Bool :=
  s.serverMode && !s.hasModuli && (s.preferredKex.filter isGex).length > 0

/-- `Transport._send_kex_init`: the new state (a moduli-less server drops the group-exchange
    methods from `_preferred_kex` through `SecurityOptions.kex`) and the advertised lists
    (the kex list is computed from the state *after* that adjustment). -/
def sendKexInit (info : Info) (s : Side) : Except Err (Side × KexInit) :=
  let kexAlgos0 := s.preferredKex
  let adjusted : Except Err Side :=
    if s.mustDropGex then setKex info s (s.prefKex.filter fun k => !isGex k) else .ok s
  match adjusted with
  | .error e => .error e
  | .ok s1 =>
    let kexAlgos :=
      if s.serverMode then (if s.mustDropGex then s1.preferredKex else kexAlgos0)
      else kexAlgos0 ++ [extInfoC]
    let availKeys := if s.serverMode then s1.availableServerKeys else s1.preferredKeys
    let kexAlgos := if s1.advertiseStrict then kexAlgos ++ [strictMarker s1.serverMode] else kexAlgos
    .ok (s1, { kex := kexAlgos, keys := availKeys,
               cEnc := s1.preferredCiphers, sEnc := s1.preferredCiphers,
               cMac := s1.preferredMacs, sMac := s1.preferredMacs,
               cComp := s1.preferredComp, sComp := s1.preferredComp })

/-- what `_parse_kex_init` stores on the transport -/
structure Agreed where
  kex : Name
  hostKey : Name
  localCipher : Name
  remoteCipher : Name
  localMac : Name
  remoteMac : Name
  localComp : Name
  remoteComp : Name
  /-- `_remote_ext_info` -/
  remoteExtInfo : Option Name
  deriving Repr, DecidableEq

/-- the marker loop over `kex_algo_list`: last `ext-info-*` seen, and the strict flag as set by the
    last `kex-strict-*` seen (unchanged when there is none) -/
def scanMarkers (s : Side) : List Name → Option Name → Bool → Option Name × Bool
  | [], ext, strict => (ext, strict)
  | a :: rest, ext, strict =>
    if isExtInfo a then scanMarkers s rest (some a) strict
    else if isStrict a then
      -- expected from the *remote* end: `c` when we are the server
      scanMarkers s rest ext (a == strictMarker (!s.serverMode) && s.advertiseStrict)
    else scanMarkers s rest ext strict

/-- `for i in to_pop: kex_algo_list.pop(i)` (indices collected in descending order) -/
def stripMarkers (l : List Name) : List Name := l.filter fun a => !isMarker a

/-- Python `list(filter(pred, xs))[0]` guarded by `len(...) == 0 → IncompatiblePeer` -/
def firstOr (l : List Name) : Except Err Name :=
  match l with
  | [] => .error .incompatible
  | a :: _ => .ok a

/-- role-dependent `filter`: the server filters the *peer's* list by membership in its own,
    the client filters its *own* list by membership in the peer's -/
def agreeList (server : Bool) (own peer : List Name) : List Name :=
  if server then peer.filter fun x => own.contains x
  else own.filter fun x => peer.contains x

/-- the part of `_parse_kex_init` after marker stripping and the strict-kex sequence check -/
def negotiate (info : Info) (s : Side) (kexList : List Name) (p : KexInit) (ext : Option Name) :
    Except Err Agreed :=
  match firstOr (agreeList s.serverMode s.preferredKex kexList) with
  | .error e => .error e
  | .ok kex =>
  -- `self.kex_engine = self._kex_info[agreed_kex[0]](self)`
  if !info.kex.contains kex then .error .keyError else
  let ownKeys := if s.serverMode then s.availableServerKeys else s.preferredKeys
  match firstOr (agreeList s.serverMode ownKeys p.keys) with
  | .error e => .error e
  | .ok hostKey =>
  -- `if self.server_mode and (self.get_server_key() is None)`
  if s.serverMode && !s.serverKeys.contains hostKey then .error .incompatible else
  -- local = what we send: server→client lists for a server, client→server lists for a client
  let localCiphers := agreeList s.serverMode s.preferredCiphers (if s.serverMode then p.sEnc else p.cEnc)
  let remoteCiphers := agreeList s.serverMode s.preferredCiphers (if s.serverMode then p.cEnc else p.sEnc)
  if localCiphers.length == 0 || remoteCiphers.length == 0 then .error .incompatible else
  let localMacs := agreeList s.serverMode s.preferredMacs (if s.serverMode then p.sMac else p.cMac)
  let remoteMacs := agreeList s.serverMode s.preferredMacs (if s.serverMode then p.cMac else p.sMac)
  if localMacs.length == 0 || remoteMacs.length == 0 then .error .incompatible else
  let localComp := agreeList s.serverMode s.preferredComp (if s.serverMode then p.sComp else p.cComp)
  let remoteComp := agreeList s.serverMode s.preferredComp (if s.serverMode then p.cComp else p.sComp)
  if localComp.length == 0 || remoteComp.length == 0 then .error .incompatible else
  .ok { kex := kex, hostKey := hostKey,
        localCipher := localCiphers.headD [], remoteCipher := remoteCiphers.headD [],
        localMac := localMacs.headD [], remoteMac := remoteMacs.headD [],
        localComp := localComp.headD [], remoteComp := remoteComp.headD [],
        remoteExtInfo := ext }

/-- `Transport._parse_kex_init(m)` on the parsed lists `p`; `seqno` = `m.seqno` -/
def parseKexInit (info : Info) (s : Side) (p : KexInit) (seqno : Nat) : Except Err (Side × Agreed) :=
  let scan := scanMarkers s p.kex none s.agreedStrict
  let s1 := { s with agreedStrict := scan.2 }
  let kexList := stripMarkers p.kex
  if scan.2 && !s.initialKexDone && seqno != 0 then .error .messageOrder else
  match negotiate info s1 kexList p scan.1 with
  | .error e => .error e
  | .ok a => .ok (s1, a)

/-! ## specification: RFC 4253 section 7.1 -/

/-- "the first algorithm on the client's name-list that is also on the server's name-list" -/
def firstCommon (client server : List Name) : Option Name := client.find? fun x => server.contains x

end PV.Negotiate
