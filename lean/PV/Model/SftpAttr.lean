/-
  PV.Model.SftpAttr — executable model of `paramiko.sftp_attr.SFTPAttributes._pack / _unpack`
  over the wire model (`PV.Base.Wire`).  Flag constants come from the source (PV/Generated/C33.lean).
  Mathlib-free.

  Mirrors the code statement by statement:
    * `_pack` computes `_flags` from the fields that are not `None` (uid/gid and atime/mtime only as
      pairs; `attr` when non-empty), writes the flags and then every field *whose flag bit is set*;
    * `_unpack` reads the flags and then every field whose flag bit is set (`flags & FLAG`), keeping
      unknown flag bits in `_flags`; extended pairs are stored into a dict (`dictSet`).
  `struct.pack` range errors (`struct.error`) and a `None` reaching a writer (`TypeError`) are named
  errors, never defaulted.
-/
import PV.Base.Wire
import PV.Generated.C33
namespace PV.SftpAttr
open PV PV.Wire PV.Generated.C33

inductive Err | range | type
  deriving Repr, DecidableEq

/-- the property-relevant fields of an `SFTPAttributes` object; `ext` is the `attr` dict in
insertion order -/
structure Attrs where
  size : Option Nat
  uid : Option Nat
  gid : Option Nat
  mode : Option Nat
  atime : Option Nat
  mtime : Option Nat
  ext : List (Bytes × Bytes)
  deriving Repr, DecidableEq

def Attrs.empty : Attrs := ⟨none, none, none, none, none, none, []⟩

/-- `flags & FLAG` as a Python truth value -/
def has (flags f : Nat) : Bool := (flags &&& f) != 0

def bit (c : Bool) (f : Nat) : Nat := if c then f else 0

/-- `_flags` as computed by `_pack` from five presence facts -/
def flagsOf (s u p t e : Bool) : Nat :=
  ((((0 ||| bit s FLAG_SIZE) ||| bit u FLAG_UIDGID) ||| bit p FLAG_PERMISSIONS) ||| bit t FLAG_AMTIME)
    ||| bit e FLAG_EXTENDED

def packFlags (a : Attrs) : Nat :=
  flagsOf a.size.isSome (a.uid.isSome && a.gid.isSome) a.mode.isSome
    (a.atime.isSome && a.mtime.isSome) (!a.ext.isEmpty)

/-- `Message.add_int` (`struct.pack(">I", n)`) -/
def u32 : Option Nat → Except Err Bytes
  | none => .error .type
  | some n => if n < 4294967296 then .ok (be32 n) else .error .range

/-- `Message.add_int64` (`struct.pack(">Q", n)`) -/
def u64 : Option Nat → Except Err Bytes
  | none => .error .type
  | some n => if n < 18446744073709551616 then .ok (be64 n) else .error .range

def whenFlag (flags f : Nat) (x : Except Err Bytes) : Except Err Bytes :=
  if has flags f then x else .ok []

def packExt : List (Bytes × Bytes) → Bytes
  | [] => []
  | (k, v) :: r => encStr k ++ encStr v ++ packExt r

/-- `SFTPAttributes._pack(msg)`: the bytes appended to `msg` -/
def pack (a : Attrs) : Except Err Bytes := do
  let flags := packFlags a
  let b0 ← u32 (some flags)
  let b1 ← whenFlag flags FLAG_SIZE (u64 a.size)
  let b2 ← whenFlag flags FLAG_UIDGID (do let x ← u32 a.uid; let y ← u32 a.gid; pure (x ++ y))
  let b3 ← whenFlag flags FLAG_PERMISSIONS (u32 a.mode)
  let b4 ← whenFlag flags FLAG_AMTIME (do let x ← u32 a.atime; let y ← u32 a.mtime; pure (x ++ y))
  let b5 ← whenFlag flags FLAG_EXTENDED (do let c ← u32 (some a.ext.length); pure (c ++ packExt a.ext))
  pure (b0 ++ b1 ++ b2 ++ b3 ++ b4 ++ b5)

/-- Python `d[k] = v` on an insertion-ordered dict -/
def dictSet : List (Bytes × Bytes) → Bytes → Bytes → List (Bytes × Bytes)
  | [], k, v => [(k, v)]
  | (k', v') :: r, k, v => if k' = k then (k', v) :: r else (k', v') :: dictSet r k v

/-- the extended loop of `_unpack` (repaired order: the key is read first, then the value) -/
def unpackExt (r : Rd) : Nat → List (Bytes × Bytes) → List (Bytes × Bytes) × Rd
  | 0, acc => (acc, r)
  | n + 1, acc =>
    let (k, r1) := r.getString
    let (v, r2) := r1.getString
    unpackExt r2 n (dictSet acc k v)

def getU64 (r : Rd) : Nat × Rd :=
  let (b, r') := r.getBytes 8
  (beVal b, r')

/-- `SFTPAttributes._unpack(msg)` on a fresh object: (`_flags`, fields, reader afterwards) -/
def unpack (r : Rd) : Nat × Attrs × Rd :=
  let (flags, r0) := r.getInt
  let (size, r1) := if has flags FLAG_SIZE then (let (n, r') := getU64 r0; (some n, r')) else (none, r0)
  let (uid, gid, r2) :=
    if has flags FLAG_UIDGID then
      (let (u, r') := r1.getInt; let (g, r'') := r'.getInt; (some u, some g, r''))
    else (none, none, r1)
  let (mode, r3) := if has flags FLAG_PERMISSIONS then (let (n, r') := r2.getInt; (some n, r')) else (none, r2)
  let (atime, mtime, r4) :=
    if has flags FLAG_AMTIME then
      (let (u, r') := r3.getInt; let (g, r'') := r'.getInt; (some u, some g, r''))
    else (none, none, r3)
  let (ext, r5) :=
    if has flags FLAG_EXTENDED then (let (c, r') := r4.getInt; unpackExt r' c []) else ([], r4)
  (flags, ⟨size, uid, gid, mode, atime, mtime, ext⟩, r5)

/-- what `_pack` accepts and the statement quantifies over: 64-bit size, 32-bit ids/mode/times,
uid/gid and atime/mtime present as pairs, a dict (distinct keys) of byte strings -/
structure Attrs.WF (a : Attrs) : Prop where
  size : ∀ n, a.size = some n → n < 18446744073709551616
  uid : ∀ n, a.uid = some n → n < 4294967296
  gid : ∀ n, a.gid = some n → n < 4294967296
  mode : ∀ n, a.mode = some n → n < 4294967296
  atime : ∀ n, a.atime = some n → n < 4294967296
  mtime : ∀ n, a.mtime = some n → n < 4294967296
  ugPair : a.uid.isSome = a.gid.isSome
  amPair : a.atime.isSome = a.mtime.isSome
  keys : (a.ext.map Prod.fst).Nodup
  count : a.ext.length < 4294967296
  lens : ∀ kv ∈ a.ext, kv.1.length < 4294967296 ∧ kv.2.length < 4294967296

end PV.SftpAttr
