/-
  Invariant of PV.Model.PipeAtomic and its preservation by every action (helper lemmas for PV.Props.C24).
-/
import PV.Model.PipeAtomic
namespace PV.PipeAtomic
open PV.Pipe

/-- the consistent pipe states: flag = s1 ∨ s2 ∨ forever, exactly one byte in the OS pipe iff the flag is up,
all pipe.py locks free -/
def canon (a b f : Bool) : PSt :=
  { pSet := a || b || f, pForever := f, os := if a || b || f then 1 else 0, s1 := a, s2 := b }

def PInv (p : PSt) : Prop := p = canon p.s1 p.s2 p.pForever

/-! ### what the (generated-equal) pipe.py code does when a call runs alone, on every consistent state -/

theorem call_or1_set (a b f : Bool) : callAtomic fixedCode (canon a b f) .or1 .set = canon true b f := by
  cases a <;> cases b <;> cases f <;> decide
theorem call_or1_clear (a b f : Bool) : callAtomic fixedCode (canon a b f) .or1 .clear = canon false b f := by
  cases a <;> cases b <;> cases f <;> decide
theorem call_or2_set (a b f : Bool) : callAtomic fixedCode (canon a b f) .or2 .set = canon a true f := by
  cases a <;> cases b <;> cases f <;> decide
theorem call_or2_clear (a b f : Bool) : callAtomic fixedCode (canon a b f) .or2 .clear = canon a false f := by
  cases a <;> cases b <;> cases f <;> decide
theorem call_forever (a b f : Bool) : callAtomic fixedCode (canon a b f) .pipe .setForever = canon a b true := by
  cases a <;> cases b <;> cases f <;> decide

theorem canon_inv (a b f : Bool) : PInv (canon a b f) := by simp [PInv, canon]

theorem readable_canon (a b f : Bool) : decide (0 < (canon a b f).os) = (a || b || f) := by
  cases a <;> cases b <;> cases f <;> decide

/-! ### the invariant -/

def BInv (p : PSt) (i : Bool) (b : Buf) : Prop :=
  match b.pend with
  | .none => sOf p i = (b.ev && (b.ne || b.cl)) ∧ b.own = false
  | .feedSet => b.ev = true
  | .set => b.ev = true ∧ (b.ne || b.cl) = true
  | .clear => b.ev = true ∧ b.ne = false ∧ b.cl = false

structure CInv (a : ASt) : Prop where
  closing1 : (a.eof || a.chClosed) = true → a.b1.cl = true ∨ Macro.closeB false ∈ a.todo
  closing2 : (a.eof || a.chClosed) = true → a.b2.cl = true ∨ Macro.closeB true ∈ a.todo
  attach1 : a.hasPipe = true → a.b1.ev = true ∨ Macro.setEvB false ∈ a.todo
  attach2 : a.hasPipe = true → a.b2.ev = true ∨ Macro.setEvB true ∈ a.todo
  cl1 : a.b1.cl = true → (a.eof || a.chClosed) = true
  cl2 : a.b2.cl = true → (a.eof || a.chClosed) = true
  fe : a.p.pForever = true → (a.eof || a.chClosed) = true
  todoClose1 : Macro.closeB false ∈ a.todo → (a.eof || a.chClosed) = true
  todoClose2 : Macro.closeB true ∈ a.todo → (a.eof || a.chClosed) = true
  todoForever : Macro.forever ∈ a.todo → (a.eof || a.chClosed) = true

structure Inv (a : ASt) : Prop where
  pipe : PInv a.p
  buf1 : BInv a.p false a.b1
  buf2 : BInv a.p true a.b2
  chan : CInv a

theorem inv_init : Inv {} := by
  refine ⟨by unfold PInv; decide, ?_, ?_, ?_⟩
  · simp [BInv, sOf]
  · simp [BInv, sOf]
  · constructor <;> simp

/-- the property at a quiescent state -/
theorem inv_quiescent (a : ASt) (h : Inv a) (hq : quiescent a = true) (hp : a.hasPipe = true) :
    readable a = shouldBeReadable a := by
  obtain ⟨hP, h1, h2, hc⟩ := h
  simp only [quiescent, Bool.and_eq_true, beq_iff_eq, List.isEmpty_iff] at hq
  obtain ⟨⟨hq1, hq2⟩, hq3⟩ := hq
  simp only [BInv, hq1, hq2, sOf] at h1 h2
  have e1 : a.b1.ev = true := by
    rcases hc.attach1 hp with h | h
    · exact h
    · simp [hq3] at h
  have e2 : a.b2.ev = true := by
    rcases hc.attach2 hp with h | h
    · exact h
    · simp [hq3] at h
  have c1 := hc.closing1
  have c2 := hc.closing2
  simp only [hq3, List.not_mem_nil, or_false] at c1 c2
  have k1 := hc.cl1
  have k2 := hc.cl2
  have kf := hc.fe
  unfold readable shouldBeReadable
  rw [hP, readable_canon]
  simp only [if_false, if_true, Bool.false_eq_true] at h1 h2
  rw [h1.1, h2.1, e1, e2]
  cases hne1 : a.b1.ne <;> cases hne2 : a.b2.ne <;> cases hcl1 : a.b1.cl <;> cases hcl2 : a.b2.cl <;>
    cases hf : a.p.pForever <;> cases he : a.eof <;> cases hcc : a.chClosed <;> simp_all

end PV.PipeAtomic

namespace PV.PipeAtomic
open PV.Pipe

@[simp] theorem sOf_canon_f (a b f : Bool) : sOf (canon a b f) false = a := by simp [sOf, canon]
@[simp] theorem sOf_canon_t (a b f : Bool) : sOf (canon a b f) true = b := by simp [sOf, canon]
@[simp] theorem forever_canon (a b f : Bool) : (canon a b f).pForever = f := by simp [canon]
@[simp] theorem s1_canon (a b f : Bool) : (canon a b f).s1 = a := by simp [canon]
@[simp] theorem s2_canon (a b f : Bool) : (canon a b f).s2 = b := by simp [canon]

theorem call_set_spec (p : PSt) (hP : PInv p) (i : Bool) :
    callAtomic fixedCode p (orObj i) .set = canon (if i then p.s1 else true) (if i then true else p.s2) p.pForever := by
  rw [hP]; cases i <;> simp [orObj, call_or1_set, call_or2_set]

theorem call_clear_spec (p : PSt) (hP : PInv p) (i : Bool) :
    callAtomic fixedCode p (orObj i) .clear = canon (if i then p.s1 else false) (if i then false else p.s2) p.pForever := by
  rw [hP]; cases i <;> simp [orObj, call_or1_clear, call_or2_clear]

theorem call_forever_spec (p : PSt) (hP : PInv p) :
    callAtomic fixedCode p .pipe .setForever = canon p.s1 p.s2 true := by
  rw [hP]; simp [call_forever]

/-- CInv only looks at these components -/
theorem cinv_congr (a a' : ASt) (h : CInv a)
    (h1 : a'.b1.cl = a.b1.cl) (h2 : a'.b2.cl = a.b2.cl) (h3 : a'.b1.ev = a.b1.ev) (h4 : a'.b2.ev = a.b2.ev)
    (h5 : a'.eof = a.eof) (h6 : a'.chClosed = a.chClosed) (h7 : a'.hasPipe = a.hasPipe) (h8 : a'.todo = a.todo)
    (h9 : a'.p.pForever = a.p.pForever) : CInv a' := by
  obtain ⟨c1, c2, c3, c4, c5, c6, c7, c8, c9, c10⟩ := h
  constructor <;> simp only [h1, h2, h3, h4, h5, h6, h7, h8, h9] <;> assumption

/-- first region of a buffer operation.  `close` needs the channel to be in EOF/closed state (it is only called
from there), which keeps `cl → eof ∨ closed`. -/
theorem inv_bstart (a : ASt) (i : Bool) (op : BOp) (own : Bool) (h : Inv a) (hp : (getB a i).pend = .none)
    (hcl : op = .close → (a.eof || a.chClosed) = true) : Inv (bstart true a i op own) := by
  obtain ⟨hP, h1, h2, hc⟩ := h
  obtain ⟨c1, c2, c3, c4, c5, c6, c7, c8, c9, c10⟩ := hc
  cases i
  · -- stdout buffer
    simp only [getB, Bool.false_eq_true, if_false] at hp
    simp only [BInv, hp] at h1
    cases op <;> simp only [bstart, getB, setB, Bool.false_eq_true, if_false, if_true]
    case feed =>
      split
      · rename_i hev
        exact ⟨hP, by simp [BInv, hev], h2, by constructor <;> simp_all⟩
      · rename_i hev
        refine ⟨hP, ?_, h2, by constructor <;> simp_all⟩
        simp only [BInv, hp]
        simp_all
    case feedEmpty => exact ⟨hP, by simp only [BInv, hp]; exact h1, h2, by constructor <;> assumption⟩
    case drain =>
      split
      · split
        · rename_i hne hc'
          simp at hc'
          exact ⟨hP, by simp [BInv, hc'.1, hc'.2], h2, by constructor <;> simp_all⟩
        · rename_i hne hc'
          refine ⟨hP, ?_, h2, by constructor <;> simp_all⟩
          simp only [BInv, hp]
          simp at hc'
          cases hev : a.b1.ev <;> cases hcl' : a.b1.cl <;> simp_all
      · exact ⟨hP, by simp only [BInv, hp]; exact h1, h2, by constructor <;> assumption⟩
    case empty =>
      split
      · rename_i hc'
        simp at hc'
        exact ⟨hP, by simp [BInv, hc'.1, hc'.2], h2, by constructor <;> simp_all⟩
      · rename_i hc'
        refine ⟨hP, ?_, h2, by constructor <;> simp_all⟩
        simp only [BInv, hp]
        simp at hc'
        cases hev : a.b1.ev <;> cases hcl' : a.b1.cl <;> simp_all
    case close =>
      have hcl := hcl rfl
      split
      · rename_i hev
        exact ⟨hP, by simp [BInv, hev], h2, by constructor <;> simp_all⟩
      · rename_i hev
        refine ⟨hP, ?_, h2, by constructor <;> simp_all⟩
        simp only [BInv, hp]
        simp_all
    case setEv =>
      split
      · rename_i hc'
        exact ⟨hP, by simp [BInv]; simp at hc'; exact hc'.symm, h2, by constructor <;> simp_all⟩
      · rename_i hc'
        simp at hc'
        exact ⟨hP, by simp [BInv, hc'.1, hc'.2], h2, by constructor <;> simp_all⟩
  · -- stderr buffer
    simp only [getB, if_true] at hp
    simp only [BInv, hp] at h2
    cases op <;> simp only [bstart, getB, setB, if_true]
    case feed =>
      split
      · rename_i hev
        exact ⟨hP, h1, by simp [BInv, hev], by constructor <;> simp_all⟩
      · rename_i hev
        refine ⟨hP, h1, ?_, by constructor <;> simp_all⟩
        simp only [BInv, hp]
        simp_all
    case feedEmpty => exact ⟨hP, h1, by simp only [BInv, hp]; exact h2, by constructor <;> assumption⟩
    case drain =>
      split
      · split
        · rename_i hne hc'
          simp at hc'
          exact ⟨hP, h1, by simp [BInv, hc'.1, hc'.2], by constructor <;> simp_all⟩
        · rename_i hne hc'
          refine ⟨hP, h1, ?_, by constructor <;> simp_all⟩
          simp only [BInv, hp]
          simp at hc'
          cases hev : a.b2.ev <;> cases hcl' : a.b2.cl <;> simp_all
      · exact ⟨hP, h1, by simp only [BInv, hp]; exact h2, by constructor <;> assumption⟩
    case empty =>
      split
      · rename_i hc'
        simp at hc'
        exact ⟨hP, h1, by simp [BInv, hc'.1, hc'.2], by constructor <;> simp_all⟩
      · rename_i hc'
        refine ⟨hP, h1, ?_, by constructor <;> simp_all⟩
        simp only [BInv, hp]
        simp at hc'
        cases hev : a.b2.ev <;> cases hcl' : a.b2.cl <;> simp_all
    case close =>
      have hcl := hcl rfl
      split
      · rename_i hev
        exact ⟨hP, h1, by simp [BInv, hev], by constructor <;> simp_all⟩
      · rename_i hev
        refine ⟨hP, h1, ?_, by constructor <;> simp_all⟩
        simp only [BInv, hp]
        simp_all
    case setEv =>
      split
      · rename_i hc'
        exact ⟨hP, h1, by simp [BInv]; simp at hc'; exact hc'.symm, by constructor <;> simp_all⟩
      · rename_i hc'
        simp at hc'
        exact ⟨hP, h1, by simp [BInv, hc'.1, hc'.2], by constructor <;> simp_all⟩

end PV.PipeAtomic

namespace PV.PipeAtomic
open PV.Pipe

/-- second region: the pending event call runs atomically -/
theorem inv_bfinish (a : ASt) (i : Bool) (h : Inv a) : Inv (bfinish a i) := by
  obtain ⟨hP, h1, h2, hc⟩ := h
  cases i
  · simp only [bfinish, getB, setB, Bool.false_eq_true, if_false]
    cases hp : a.b1.pend <;> simp only []
    · exact ⟨hP, h1, h2, hc⟩
    all_goals
      simp only [BInv, hp] at h1
      first
        | rw [call_set_spec a.p hP false]
        | rw [call_clear_spec a.p hP false]
      refine ⟨canon_inv _ _ _, ?_, ?_, ?_⟩
      · simp_all [BInv]
      · cases hp2 : a.b2.pend <;> simp_all [BInv, sOf]
      · exact cinv_congr a _ hc rfl rfl rfl rfl rfl rfl rfl rfl (by simp)
  · simp only [bfinish, getB, setB, if_true]
    cases hp : a.b2.pend <;> simp only []
    · exact ⟨hP, h1, h2, hc⟩
    all_goals
      simp only [BInv, hp] at h2
      first
        | rw [call_set_spec a.p hP true]
        | rw [call_clear_spec a.p hP true]
      refine ⟨canon_inv _ _ _, ?_, ?_, ?_⟩
      · cases hp1 : a.b1.pend <;> simp_all [BInv, sOf]
      · simp_all [BInv]
      · exact cinv_congr a _ hc rfl rfl rfl rfl rfl rfl rfl rfl (by simp)

theorem mem_tail_of_ne {m x : Macro} {rest : List Macro} (h : m ∈ x :: rest) (hne : m ≠ x) : m ∈ rest := by
  simp at h
  rcases h with h | h
  · exact absurd h hne
  · exact h

/-- dropping the head macro from `todo` keeps CInv, provided the head's job is done -/
theorem cinv_pop (a : ASt) (x : Macro) (rest : List Macro) (hc : CInv a) (ht : a.todo = x :: rest)
    (hx1 : x = .closeB false → a.b1.cl = true) (hx2 : x = .closeB true → a.b2.cl = true)
    (hx3 : x = .setEvB false → a.b1.ev = true) (hx4 : x = .setEvB true → a.b2.ev = true) :
    CInv { a with todo := rest } := by
  obtain ⟨c1, c2, c3, c4, c5, c6, c7, c8, c9, c10⟩ := hc
  rw [ht] at c1 c2 c3 c4 c8 c9 c10
  constructor <;> simp only []
  · intro h
    rcases c1 h with h' | h'
    · exact Or.inl h'
    · by_cases hx : Macro.closeB false = x
      · exact Or.inl (hx1 hx.symm)
      · exact Or.inr (mem_tail_of_ne h' hx)
  · intro h
    rcases c2 h with h' | h'
    · exact Or.inl h'
    · by_cases hx : Macro.closeB true = x
      · exact Or.inl (hx2 hx.symm)
      · exact Or.inr (mem_tail_of_ne h' hx)
  · intro h
    rcases c3 h with h' | h'
    · exact Or.inl h'
    · by_cases hx : Macro.setEvB false = x
      · exact Or.inl (hx3 hx.symm)
      · exact Or.inr (mem_tail_of_ne h' hx)
  · intro h
    rcases c4 h with h' | h'
    · exact Or.inl h'
    · by_cases hx : Macro.setEvB true = x
      · exact Or.inl (hx4 hx.symm)
      · exact Or.inr (mem_tail_of_ne h' hx)
  · exact c5
  · exact c6
  · exact c7
  · intro h; exact c8 (List.mem_cons_of_mem _ h)
  · intro h; exact c9 (List.mem_cons_of_mem _ h)
  · intro h; exact c10 (List.mem_cons_of_mem _ h)

end PV.PipeAtomic

namespace PV.PipeAtomic
open PV.Pipe

theorem bstart_todo (a : ASt) (rest : List Macro) (i : Bool) (op : BOp) (own : Bool) :
    bstart true { a with todo := rest } i op own = { bstart true a i op own with todo := rest } := by
  cases i <;> cases op <;> simp only [bstart, getB, setB, Bool.false_eq_true, if_false, if_true] <;>
    (repeat' split) <;> rfl

theorem bstart_todo_eq (a : ASt) (i : Bool) (op : BOp) (own : Bool) : (bstart true a i op own).todo = a.todo := by
  cases i <;> cases op <;> simp only [bstart, getB, setB, Bool.false_eq_true, if_false, if_true] <;>
    (repeat' split) <;> rfl

theorem bstart_close_cl (a : ASt) (i : Bool) (own : Bool) : (getB (bstart true a i .close own) i).cl = true := by
  cases i <;> simp only [bstart, getB, setB, Bool.false_eq_true, if_false, if_true] <;> split <;> rfl

theorem bstart_setEv_ev (a : ASt) (i : Bool) (own : Bool) : (getB (bstart true a i .setEv own) i).ev = true := by
  cases i <;> simp only [bstart, getB, setB, Bool.false_eq_true, if_false, if_true] <;> split <;> rfl

/-- putting a `feedB` macro in front of `todo` does not disturb CInv (it only talks about close/attach/forever) -/
theorem cinv_push_feed (a : ASt) (i : Bool) (rest : List Macro) (hc : CInv { a with todo := rest }) :
    CInv { a with todo := .feedB i :: rest } := by
  obtain ⟨c1, c2, c3, c4, c5, c6, c7, c8, c9, c10⟩ := hc
  constructor <;> simp_all

theorem inv_cmacro (a a' : ASt) (h : Inv a) (hm : cmacro a = some a') : Inv a' := by
  unfold cmacro at hm
  split at hm
  · cases hm; exact h
  · -- forever
    rename_i rest ht
    cases hm
    obtain ⟨hP, h1, h2, hc⟩ := h
    rw [call_forever_spec a.p hP]
    have hfe : (a.eof || a.chClosed) = true := hc.todoForever (by rw [ht]; simp)
    refine ⟨canon_inv _ _ _, ?_, ?_, ?_⟩
    · cases hp1 : a.b1.pend <;> simp_all [BInv, sOf]
    · cases hp2 : a.b2.pend <;> simp_all [BInv, sOf]
    · have hc' := cinv_pop a _ rest hc ht (by simp) (by simp) (by simp) (by simp)
      obtain ⟨c1, c2, c3, c4, c5, c6, c7, c8, c9, c10⟩ := hc'
      constructor <;> first | assumption | (intro _; exact hfe)
  · -- closeB i
    rename_i i rest ht
    split at hm
    · rename_i hp
      cases hm
      have hp' : (getB a i).pend = .none := by simpa using hp
      have hcl : (a.eof || a.chClosed) = true := by
        cases i
        · exact h.chan.todoClose1 (by rw [ht]; simp)
        · exact h.chan.todoClose2 (by rw [ht]; simp)
      have hb := inv_bstart a i .close true h hp' (fun _ => hcl)
      rw [bstart_todo]
      have hcl' := bstart_close_cl a i true
      have htd : (bstart true a i .close true).todo = Macro.closeB i :: rest := by rw [bstart_todo_eq, ht]
      have hc' := cinv_pop (bstart true a i .close true) _ rest hb.chan htd
        (by intro e; cases e; simpa [getB] using hcl') (by intro e; cases e; simpa [getB] using hcl')
        (by simp) (by simp)
      exact ⟨hb.pipe, hb.buf1, hb.buf2, hc'⟩
    · cases hm
  · -- setEvB i
    rename_i i rest ht
    split at hm
    · rename_i hp
      cases hm
      have hp' : (getB a i).pend = .none := by simpa using hp
      have hb := inv_bstart a i .setEv true h hp' (by simp)
      rw [bstart_todo]
      have hev' := bstart_setEv_ev a i true
      have htd : (bstart true a i .setEv true).todo = Macro.setEvB i :: rest := by rw [bstart_todo_eq, ht]
      have hc' := cinv_pop (bstart true a i .setEv true) _ rest hb.chan htd
        (by simp) (by simp)
        (by intro e; cases e; simpa [getB] using hev') (by intro e; cases e; simpa [getB] using hev')
      exact ⟨hb.pipe, hb.buf1, hb.buf2, hc'⟩
    · cases hm
  · -- feedB i
    rename_i i rest ht
    split at hm
    · rename_i hp
      cases hm
      have hp' : (getB a i).pend = .none := by simpa using hp
      have hb := inv_bstart a i .feed true h hp' (by simp)
      rw [bstart_todo]
      have htd : (bstart true a i .feed true).todo = Macro.feedB i :: rest := by rw [bstart_todo_eq, ht]
      have hc' := cinv_pop (bstart true a i .feed true) _ rest hb.chan htd (by simp) (by simp) (by simp) (by simp)
      exact ⟨hb.pipe, hb.buf1, hb.buf2, hc'⟩
    · cases hm
  · -- emptyMove
    rename_i rest ht
    split at hm
    · rename_i hp
      cases hm
      have hp' : (getB a true).pend = .none := by simpa [getB] using hp
      have hb := inv_bstart a true .empty true h hp' (by simp)
      rw [bstart_todo]
      have htd : (bstart true a true .empty true).todo = Macro.emptyMove :: rest := by rw [bstart_todo_eq, ht]
      have hc' := cinv_pop (bstart true a true .empty true) _ rest hb.chan htd (by simp) (by simp) (by simp) (by simp)
      split
      · exact ⟨hb.pipe, hb.buf1, hb.buf2, cinv_push_feed _ false rest hc'⟩
      · exact ⟨hb.pipe, hb.buf1, hb.buf2, hc'⟩
    · cases hm

theorem inv_cadvance (fuel : Nat) (a : ASt) (h : Inv a) : Inv (cadvance fuel a) := by
  induction fuel generalizing a with
  | zero => exact h
  | succ n ih =>
    simp only [cadvance]
    split
    · split
      · rename_i a' hm
        exact ih a' (inv_cmacro a a' h hm)
      · exact h
    · exact h

theorem inv_cbegin (a : ASt) (op : COp) (h : Inv a) (hf : chFree a = true) : Inv (cbegin a op) := by
  obtain ⟨hP, h1, h2, hc⟩ := h
  have ht : a.todo = [] := by
    simp only [chFree, Bool.and_eq_true, List.isEmpty_iff] at hf
    exact hf.1
  obtain ⟨c1, c2, c3, c4, c5, c6, c7, c8, c9, c10⟩ := hc
  rw [ht] at c1 c2 c3 c4
  simp only [List.not_mem_nil, or_false] at c1 c2 c3 c4
  cases op <;> simp only [cbegin]
  · split
    · exact ⟨hP, h1, h2, ⟨by rw [ht]; simpa using c1, by rw [ht]; simpa using c2, by rw [ht]; simpa using c3,
        by rw [ht]; simpa using c4, c5, c6, c7, c8, c9, c10⟩⟩
    · refine ⟨hP, h1, h2, ?_⟩
      constructor <;> simp_all
  · split
    · exact ⟨hP, h1, h2, ⟨by rw [ht]; simpa using c1, by rw [ht]; simpa using c2, by rw [ht]; simpa using c3,
        by rw [ht]; simpa using c4, c5, c6, c7, c8, c9, c10⟩⟩
    · refine ⟨hP, h1, h2, ?_⟩
      constructor <;> simp_all
  · split
    · exact ⟨hP, h1, h2, ⟨by rw [ht]; simpa using c1, by rw [ht]; simpa using c2, by rw [ht]; simpa using c3,
        by rw [ht]; simpa using c4, c5, c6, c7, c8, c9, c10⟩⟩
    · refine ⟨hP, h1, h2, ?_⟩
      constructor <;> simp_all
  · split
    · exact ⟨hP, h1, h2, ⟨by rw [ht]; simpa using c1, by rw [ht]; simpa using c2, by rw [ht]; simpa using c3,
        by rw [ht]; simpa using c4, c5, c6, c7, c8, c9, c10⟩⟩
    · refine ⟨hP, h1, h2, ?_⟩
      constructor <;> simp_all
  · exact ⟨hP, h1, h2, ⟨by rw [ht]; simpa using c1, by rw [ht]; simpa using c2, by rw [ht]; simpa using c3,
      by rw [ht]; simpa using c4, c5, c6, c7, c8, c9, c10⟩⟩
  · refine ⟨hP, h1, h2, ?_⟩
    constructor <;> simp_all

theorem inv_step (a : ASt) (act : Act) (h : Inv a) : Inv (step true a act) := by
  cases act with
  | bstart i op =>
    simp only [step]
    split
    · rename_i hc
      simp only [Bool.and_eq_true, beq_iff_eq] at hc
      exact inv_bstart a i op false h hc.1 (by intro e; rw [e] at hc; simp [clientOp] at hc)
    · exact h
  | bstep i =>
    simp only [step]
    split
    · exact inv_cadvance 4 _ (inv_bfinish a i h)
    · exact inv_bfinish a i h
  | cstart op =>
    simp only [step]
    split
    · rename_i hf
      exact inv_cadvance 4 _ (inv_cbegin a op h hf)
    · exact h
  | cstep =>
    simp only [step, cstepA]
    split
    · split
      · rename_i a' hm
        exact inv_cadvance 4 a' (inv_cmacro a a' h hm)
      · exact h
    · exact inv_cadvance 4 a h

theorem inv_run (a : ASt) (acts : List Act) (h : Inv a) : Inv (run true a acts) := by
  induction acts generalizing a with
  | nil => exact h
  | cons x xs ih => exact ih _ (inv_step a x h)

end PV.PipeAtomic
