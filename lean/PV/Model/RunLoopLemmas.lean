/-
  PV.Model.RunLoopLemmas — invariant of the initial key exchange for the run-loop model (used by C09).
-/
import PV.Model.RunLoop
namespace PV.RunLoop

/-! ## well-formedness of the inputs the theorems quantify over -/

def Engine.script (e : Engine) : List EStep := e.cur :: e.rest

/-- every step of a kex engine arms a non-empty set of kex-range types (true of all paramiko engines) -/
def EStep.WF (st : EStep) : Prop := st.accept ≠ [] ∧ ∀ t ∈ st.accept, 30 ≤ t ∧ t ≤ 41
def Engine.WF (e : Engine) : Prop := ∀ st ∈ e.script, st.WF

def Ev.WF : Ev → Prop
  | .recv _ _ x => ∀ e, x.kex = .ok e → e.WF
  | .rekey => True

/-- KEXINIT and NEWKEYS are in the transport's handler table and are not "post-auth" types -/
structure KexTables (T : Tables) : Prop where
  k20 : T.transport.contains MSG_KEXINIT = true
  k21 : T.transport.contains MSG_NEWKEYS = true
  s20 : T.transportSRT.contains MSG_KEXINIT = true
  s21 : T.transportSRT.contains MSG_NEWKEYS = true
  hi : MSG_NEWKEYS ≤ T.highestUserauth

/-- the word `w` is accepted step by step by `steps` -/
def Accepts : List Nat → List EStep → Prop
  | [], [] => True
  | t :: ts, st :: sts => t ∈ st.accept ∧ Accepts ts sts
  | _, _ => False

theorem accepts_snoc {w : List Nat} {c : List EStep} {t : Nat} {st : EStep}
    (h : Accepts w c) (ht : t ∈ st.accept) : Accepts (w ++ [t]) (c ++ [st]) := by
  induction w generalizing c with
  | nil => cases c with
    | nil => exact ⟨ht, trivial⟩
    | cons _ _ => exact absurd h (by simp [Accepts])
  | cons a w ih => cases c with
    | nil => exact absurd h (by simp [Accepts])
    | cons b c => exact ⟨h.1, ih h.2⟩

theorem accepts_length {w : List Nat} {c : List EStep} (h : Accepts w c) : w.length = c.length := by
  induction w generalizing c with
  | nil => cases c with
    | nil => rfl
    | cons _ _ => exact absurd h (by simp [Accepts])
  | cons a w ih => cases c with
    | nil => exact absurd h (by simp [Accepts])
    | cons b c => simp [ih h.2]

/-! ## sending only touches the outbound counter and the ghost `tx` -/

def SendFrame (s s' : St) : Prop := ∃ so tx', s' = { s with seqOut := so, tx := tx' }

theorem SendFrame.refl (s : St) : SendFrame s s := ⟨s.seqOut, s.tx, rfl⟩

theorem SendFrame.trans {a b c : St} (h1 : SendFrame a b) (h2 : SendFrame b c) : SendFrame a c := by
  obtain ⟨so, tx, rfl⟩ := h1
  obtain ⟨so', tx', rfl⟩ := h2
  exact ⟨so', tx', rfl⟩

theorem send_ok {s : St} {t a : Nat} (h : (s.send t a).err = none) :
    s.err = none ∧ SendFrame s (s.send t a) := by
  unfold St.send at h ⊢
  by_cases he : s.err.isSome = true
  · simp only [he, if_true] at h; simp [h] at he
  · simp only [he, Bool.false_eq_true, if_false] at h ⊢
    have hn : s.err = none := by simpa using he
    split at h
    · simp [St.fail] at h
    · rename_i hc
      simp only [hc, if_false]
      exact ⟨hn, _, _, rfl⟩

theorem sendAll_ok {s : St} {ts : List Nat} (h : (s.sendAll ts).err = none) :
    s.err = none ∧ SendFrame s (s.sendAll ts) := by
  induction ts generalizing s with
  | nil => exact ⟨h, SendFrame.refl s⟩
  | cons t ts ih =>
    simp only [St.sendAll] at h ⊢
    obtain ⟨h1, f1⟩ := ih h
    obtain ⟨h0, f0⟩ := send_ok h1
    exact ⟨h0, f0.trans f1⟩

theorem andThen_ok {s : St} {f : St → St} (h : (s.andThen f).err = none) :
    s.err = none ∧ s.andThen f = f s := by
  unfold St.andThen at h ⊢
  by_cases he : s.err.isSome = true
  · simp only [he, if_true] at h; simp [h] at he
  · simp only [he, Bool.false_eq_true, if_false] at h ⊢
    exact ⟨by simpa using he, trivial⟩

/-! ## the fields the initial-kex invariant talks about -/

structure KV where
  active : Bool
  done : Bool
  strict : Bool
  haveK : Bool
  expected : List Nat
  engine : Option Engine
  script : Option Engine
  rx : List Nat
  seqIn : Nat
  server : Bool
  advertise : Bool

def St.kv (s : St) : KV :=
  ⟨s.active, s.initialKexDone, s.agreedStrict, s.haveK, s.expected, s.engine, s.kexScript, s.rx, s.seqIn,
   s.server, s.advertiseStrict⟩

theorem SendFrame.kv {s s' : St} (h : SendFrame s s') : s'.kv = s.kv := by
  obtain ⟨so, tx, rfl⟩ := h; rfl

theorem sendKexInit_ok {s : St} (h : (sendKexInit s).err = none) :
    (sendKexInit s).kv = s.kv := by
  unfold sendKexInit at h ⊢
  obtain ⟨h1, e1⟩ := andThen_ok h
  rw [e1]
  obtain ⟨_, f⟩ := send_ok h1
  have := f.kv
  simp only [St.kv] at this ⊢
  simp_all

theorem ensureLocalKexInit_ok {s : St} (h : (ensureLocalKexInit s).err = none) :
    (ensureLocalKexInit s).kv = s.kv := by
  unfold ensureLocalKexInit at h ⊢
  by_cases hl : s.localKexInit = true
  · simp [hl, St.kv]
  · have hl' : s.localKexInit = false := by simpa using hl
    simp only [hl', Bool.false_eq_true, not_false_eq_true, if_true] at h ⊢
    rw [sendKexInit_ok h]
    simp [St.kv]

/-- `_parse_kex_init` + `start_kex` when nothing raises -/
theorem parseKexInit_ok {s : St} {seqno : Nat} {x : Ext} (h : (parseKexInit s seqno x).err = none) :
    ∃ e, x.kex = .ok e ∧
      ((scanMarkers s.server s.advertiseStrict x.kexNames (none, s.agreedStrict)).2 = true →
        s.initialKexDone = false → seqno = 0) ∧
      (parseKexInit s seqno x).kv =
        { s.kv with strict := (scanMarkers s.server s.advertiseStrict x.kexNames (none, s.agreedStrict)).2,
                    engine := some e, script := some e, expected := e.cur.accept } := by
  unfold parseKexInit at h ⊢
  cases hk : x.kex with
  | malformed => simp [hk, St.fail] at h
  | incompatible =>
    simp only [hk] at h
    split at h <;> simp [St.fail] at h
  | ok e =>
    refine ⟨e, rfl, ?_⟩
    simp only [hk] at h ⊢
    split at h
    · simp [St.fail] at h
    · rename_i hc
      simp only [hc, if_false]
      refine ⟨fun ha hd => by simpa [ha, hd] using hc, ?_⟩
      obtain ⟨h2, e2⟩ := andThen_ok h
      rw [e2]
      obtain ⟨_, f⟩ := sendAll_ok h2
      have hf := f.kv
      simp only [St.kv, KV.mk.injEq] at hf ⊢
      simp_all

theorem activateOutbound_ok {s : St} {x : Ext} (h : (activateOutbound s x).err = none) :
    (activateOutbound s x).kv = { s.kv with expected := [MSG_NEWKEYS] } := by
  unfold activateOutbound at h ⊢
  obtain ⟨h1, e1⟩ := andThen_ok h
  rw [e1] at h ⊢
  obtain ⟨_, f1⟩ := send_ok h1
  have k1 := f1.kv
  simp only at h ⊢
  obtain ⟨h2, e2⟩ := andThen_ok h
  rw [e2]
  generalize hs1 : s.send MSG_NEWKEYS = s1 at *
  -- the three conditional updates keep every kv field
  have key : ∀ (a : St), a.kv = s1.kv →
      ∀ b : St, b = (if a.server = true ∧ a.serverSigAlgs = true ∧ a.remoteExtInfoC = true then a.send MSG_EXT_INFO else a) →
      b.err = none → b.kv = s1.kv := by
    intro a ha b hb hbe
    subst hb
    split
    · rename_i hc
      simp only [hc, and_self, if_true] at hbe
      obtain ⟨_, f⟩ := send_ok hbe
      rw [f.kv, ha]
    · exact ha
  have hkv := key _ (by
      by_cases c1 : s1.agreedStrict = true <;> by_cases c2 : x.needRekey = true <;> simp [c1, c2, St.kv]) _ rfl h2
  simp only [St.kv, KV.mk.injEq] at hkv k1 ⊢
  simp_all

theorem engineNext_ok {s : St} {x : Ext} {e : Engine} (he : s.engine = some e)
    (h : (engineNext s x).err = none) :
    (∀ nxt more, e.rest = nxt :: more →
        (engineNext s x).kv = { s.kv with engine := some { e with cur := nxt, rest := more }, expected := nxt.accept }) ∧
    (e.rest = [] → (engineNext s x).kv = { s.kv with haveK := true, expected := [MSG_NEWKEYS] }) := by
  unfold engineNext at h ⊢
  simp only [he] at h ⊢
  by_cases hok : x.engineOk = true
  · simp only [hok, not_true_eq_false, if_false] at h ⊢
    obtain ⟨h1, e1⟩ := andThen_ok h
    rw [e1] at h ⊢
    obtain ⟨_, f⟩ := sendAll_ok h1
    have k := f.kv
    constructor
    · intro nxt more hr
      simp only [hr] at h ⊢
      simp only [St.kv, KV.mk.injEq] at k ⊢
      simp_all
    · intro hr
      simp only [hr] at h ⊢
      rw [activateOutbound_ok h]
      simp only [St.kv, KV.mk.injEq] at k ⊢
      simp_all
  · simp [hok, St.fail] at h

theorem parseNewkeys_ok {s : St} {x : Ext} (hk : s.haveK = true) :
    (parseNewkeys s x).err = s.err ∧
    (parseNewkeys s x).kv = { s.kv with seqIn := if s.agreedStrict then 0 else s.seqIn,
                                        haveK := false, engine := none, done := true } := by
  unfold parseNewkeys
  simp only [hk, not_true_eq_false, if_false]
  by_cases c1 : s.agreedStrict = true <;> by_cases c2 : x.needRekey = true <;>
    by_cases c3 : (s.server = true ∧ s.authH = AuthH.none) <;> simp [c1, c2, c3, St.kv]

/-! ## the invariant of the initial key exchange -/

/-- before the peer's KEXINIT: only IGNORE/DEBUG can have been let through -/
structure PreA (k : KV) : Prop where
  expected : k.expected = [MSG_KEXINIT]
  notStrict : k.strict = false
  noEngine : k.engine = none
  noScript : k.script = none
  noK : k.haveK = false
  rxOnly : ∀ t ∈ k.rx, t = MSG_IGNORE ∨ t = MSG_DEBUG

/-- after the peer's KEXINIT chose engine `e0`; `c` = steps already taken -/
structure PreB (k : KV) (e0 : Engine) (c : List EStep) : Prop where
  script : k.script = some e0
  wf : e0.WF
  progress : (∃ e, k.engine = some e ∧ c ++ e.script = e0.script ∧ k.expected = e.cur.accept ∧ k.haveK = false)
           ∨ (c = e0.script ∧ k.expected = [MSG_NEWKEYS] ∧ k.haveK = true)
  strictRx : k.strict = true → ∃ w, k.rx = MSG_KEXINIT :: w ∧ Accepts w c

structure KInv (k : KV) : Prop where
  active : k.active = true
  seq : k.seqIn = k.rx.length
  lt : k.seqIn < SEQ_MOD
  phase : PreA k ∨ ∃ e0 c, PreB k e0 c

theorem KInv.expected_ne {k : KV} (h : KInv k) : k.expected ≠ [] := by
  rcases h.phase with a | ⟨e0, c, b⟩
  · rw [a.expected]; simp
  · rcases b.progress with ⟨e, _, hc, hexp, _⟩ | ⟨_, hexp, _⟩
    · rw [hexp]
      have : e.cur ∈ e0.script := by rw [← hc]; simp [Engine.script]
      exact (b.wf _ this).1
    · rw [hexp]; simp

/-- what the completing step (the peer's NEWKEYS) establishes -/
def CompletedK (k k' : KV) (t : Nat) : Prop :=
  t = MSG_NEWKEYS ∧ k'.rx = k.rx ++ [MSG_NEWKEYS] ∧ k'.strict = k.strict ∧
    ∃ e0, k.script = some e0 ∧
      (k.strict = true → k'.seqIn = 0 ∧ ∃ w, k.rx = MSG_KEXINIT :: w ∧ Accepts w e0.script)

theorem dispatch_kexinit (T : Tables) (hT : KexTables T) (s : St) (seqno : Nat) (p : Bytes) (x : Ext) :
    dispatch T s MSG_KEXINIT seqno p x = negotiateKeys s seqno x := by
  have h1 : (transportTable T s).contains MSG_KEXINIT = true := by
    unfold transportTable; split
    · exact hT.s20
    · exact hT.k20
  have h2 : ¬ (MSG_KEXINIT > T.highestUserauth) := by have := hT.hi; simp only [MSG_KEXINIT, MSG_NEWKEYS] at *; omega
  unfold dispatch
  simp only [h1, if_true, h2, false_and, and_false, if_false]

theorem dispatch_newkeys (T : Tables) (hT : KexTables T) (s : St) (seqno : Nat) (p : Bytes) (x : Ext) :
    dispatch T s MSG_NEWKEYS seqno p x = parseNewkeys s x := by
  have h1 : (transportTable T s).contains MSG_NEWKEYS = true := by
    unfold transportTable; split
    · exact hT.s21
    · exact hT.k21
  have h2 : ¬ (MSG_NEWKEYS > T.highestUserauth) := by have := hT.hi; simp only [MSG_NEWKEYS] at *; omega
  unfold dispatch
  simp only [h1, if_true, h2, false_and, and_false, if_false]
  simp

theorem kinv_pass {k : KV} {t : Nat} (hi : KInv k) (hs : k.strict = false) (ht : t = MSG_IGNORE ∨ t = MSG_DEBUG)
    (hlt : k.seqIn + 1 < SEQ_MOD) : KInv { k with seqIn := k.seqIn + 1, rx := k.rx ++ [t] } := by
  refine ⟨hi.active, by simp [hi.seq], hlt, ?_⟩
  rcases hi.phase with a | ⟨e0, c, b⟩
  · left
    refine ⟨a.expected, a.notStrict, a.noEngine, a.noScript, a.noK, ?_⟩
    intro u hu
    simp only [List.mem_append, List.mem_singleton] at hu
    rcases hu with hu | hu
    · exact a.rxOnly u hu
    · rw [hu]; exact ht
  · right
    refine ⟨e0, c, b.script, b.wf, b.progress, ?_⟩
    intro h; simp [hs] at h

theorem body_step (T : Tables) (hT : KexTables T) (k : KV) (s1 : St) (t seqno : Nat) (p : Bytes) (x : Ext)
    (hx : ∀ e, x.kex = .ok e → e.WF) (hi : KInv k) (hd : k.done = false)
    (hk1 : s1.kv = { k with seqIn := k.seqIn + 1, rx := k.rx ++ [t] }) (hseqno : seqno = k.seqIn)
    (he1 : s1.err = none) (hlt : k.seqIn + 1 < SEQ_MOD) (h' : (body T s1 t seqno p x).err = none) :
    ((body T s1 t seqno p x).kv.done = false → KInv (body T s1 t seqno p x).kv) ∧
    ((body T s1 t seqno p x).kv.done = true → CompletedK k (body T s1 t seqno p x).kv t) := by
  have f := hk1
  simp only [St.kv, KV.mk.injEq] at f
  obtain ⟨f_active, f_done, f_strict, f_haveK, f_expected, f_engine, f_script, f_rx, f_seqIn, f_server, f_adv⟩ := f
  have hexp := hi.expected_ne
  -- IGNORE / DEBUG
  have pass : (t = MSG_IGNORE ∨ t = MSG_DEBUG) → (enforceStrict s1).err = none →
      ((enforceStrict s1).kv.done = false → KInv (enforceStrict s1).kv) ∧
      ((enforceStrict s1).kv.done = true → CompletedK k (enforceStrict s1).kv t) := by
    intro ht h
    unfold enforceStrict at h ⊢
    by_cases hst : s1.agreedStrict = true
    · simp [hst, f_done, hd, St.fail] at h
    · have hst' : s1.agreedStrict = false := by simpa using hst
      simp only [hst', Bool.false_eq_true, false_and, if_false]
      rw [hk1]
      refine ⟨fun _ => kinv_pass hi (by rw [← f_strict]; exact hst') ht hlt, fun h1 => by simp [hd] at h1⟩
  unfold body at h' ⊢
  by_cases h2 : t = MSG_IGNORE
  · simp only [h2, if_true] at h' ⊢
    have := pass (Or.inl h2) h'
    simpa [h2] using this
  simp only [h2, if_false] at h' ⊢
  by_cases h1 : t = MSG_DISCONNECT
  · simp [h1] at h'
  simp only [h1, if_false] at h' ⊢
  by_cases h4 : t = MSG_DEBUG
  · simp only [h4, if_true] at h' ⊢
    have := pass (Or.inr h4) h'
    simpa [h4] using this
  simp only [h4, if_false] at h' ⊢
  unfold afterExpected at h' ⊢
  have hexp1 : s1.expected ≠ [] := by rw [f_expected]; exact hexp
  simp only [hexp1, ne_eq, not_false_eq_true, if_true] at h' ⊢
  by_cases hin : s1.expected.contains t = true
  · simp only [hin, not_true_eq_false, if_false] at h' ⊢
    have hmem : t ∈ k.expected := by rw [← f_expected]; simpa using hin
    generalize hs2 : ({ s1 with expected := [] } : St) = s2 at h' ⊢
    have hk2 : s2.kv = { k with seqIn := k.seqIn + 1, rx := k.rx ++ [t], expected := [] } := by
      rw [← hs2]; simp only [St.kv, KV.mk.injEq]; simp_all
    have he2 : s2.err = none := by rw [← hs2]; exact he1
    have g := hk2
    simp only [St.kv, KV.mk.injEq] at g
    obtain ⟨g_active, g_done, g_strict, g_haveK, g_expected, g_engine, g_script, g_rx, g_seqIn, g_server, g_adv⟩ := g
    rcases hi.phase with a | ⟨e0, c, b⟩
    · -- the peer's KEXINIT
      have ht : t = MSG_KEXINIT := by rw [a.expected] at hmem; simpa using hmem
      subst ht
      simp only [show ¬ (30 ≤ MSG_KEXINIT ∧ MSG_KEXINIT ≤ 41) by decide, if_false] at h' ⊢
      rw [dispatch_kexinit T hT] at h' ⊢
      unfold negotiateKeys at h' ⊢
      obtain ⟨h3, e3⟩ := andThen_ok h'
      rw [e3] at h' ⊢
      have k3 := ensureLocalKexInit_ok h3
      generalize ensureLocalKexInit s2 = s3 at *
      obtain ⟨e, hke, hz, k4⟩ := parseKexInit_ok h'
      have g3 := k3
      simp only [St.kv, KV.mk.injEq] at g3
      obtain ⟨q_active, q_done, q_strict, q_haveK, q_expected, q_engine, q_script, q_rx, q_seqIn, q_server, q_adv⟩ := g3
      rw [k4, k3, hk2]
      refine ⟨fun _ => ?_, fun hdone => by simp [hd] at hdone⟩
      refine ⟨hi.active, by simp [hi.seq], hlt, Or.inr ⟨e, [], ?_⟩⟩
      refine ⟨rfl, hx e hke, Or.inl ⟨e, rfl, by simp, rfl, a.noK⟩, ?_⟩
      intro hstrict
      have hdone3 : s3.initialKexDone = false := by rw [q_done, g_done]; exact hd
      have h0 := hz hstrict hdone3
      have : k.rx = [] := by
        have : k.rx.length = 0 := by rw [← hi.seq, ← hseqno, h0]
        exact List.eq_nil_of_length_eq_zero this
      exact ⟨[], by simp [this], trivial⟩
    · rcases b.progress with ⟨e, heng, hc, hexpd, hnoK⟩ | ⟨hc, hexpd, hK⟩
      · -- a kex-engine step
        have hcur : e.cur ∈ e0.script := by rw [← hc]; simp [Engine.script]
        have hrange := (b.wf _ hcur).2 t (by rw [← hexpd]; exact hmem)
        simp only [hrange, and_self, if_true] at h' ⊢
        have heng2 : s2.engine = some e := by rw [g_engine]; exact heng
        obtain ⟨n1, n2⟩ := engineNext_ok heng2 h'
        cases hr : e.rest with
        | cons nxt more =>
          rw [n1 nxt more hr, hk2]
          refine ⟨fun _ => ?_, fun hdone => by simp [hd] at hdone⟩
          refine ⟨hi.active, by simp [hi.seq], hlt, Or.inr ⟨e0, c ++ [e.cur], ?_⟩⟩
          refine ⟨b.script, b.wf, Or.inl ⟨{ e with cur := nxt, rest := more }, rfl, ?_, rfl, hnoK⟩, ?_⟩
          · rw [← hc]; simp [Engine.script, hr]
          · intro hstrict
            obtain ⟨w, hw, hacc⟩ := b.strictRx hstrict
            exact ⟨w ++ [t], by simp [hw], accepts_snoc hacc (by rw [← hexpd]; exact hmem)⟩
        | nil =>
          rw [n2 hr, hk2]
          refine ⟨fun _ => ?_, fun hdone => by simp [hd] at hdone⟩
          refine ⟨hi.active, by simp [hi.seq], hlt, Or.inr ⟨e0, c ++ [e.cur], ?_⟩⟩
          refine ⟨b.script, b.wf, Or.inr ⟨?_, rfl, rfl⟩, ?_⟩
          · rw [← hc]; simp [Engine.script, hr]
          · intro hstrict
            obtain ⟨w, hw, hacc⟩ := b.strictRx hstrict
            exact ⟨w ++ [t], by simp [hw], accepts_snoc hacc (by rw [← hexpd]; exact hmem)⟩
      · -- the peer's NEWKEYS
        have ht : t = MSG_NEWKEYS := by rw [hexpd] at hmem; simpa using hmem
        subst ht
        simp only [show ¬ (30 ≤ MSG_NEWKEYS ∧ MSG_NEWKEYS ≤ 41) by decide, if_false] at h' ⊢
        rw [dispatch_newkeys T hT] at h' ⊢
        have hK2 : s2.haveK = true := by rw [g_haveK]; exact hK
        obtain ⟨_, k5⟩ := parseNewkeys_ok (x := x) hK2
        rw [k5, hk2]
        refine ⟨fun hdone => by simp at hdone, fun _ => ?_⟩
        refine ⟨rfl, rfl, rfl, e0, b.script, ?_⟩
        intro hstrict
        have : s2.agreedStrict = true := by rw [g_strict]; exact hstrict
        refine ⟨by simp [this], ?_⟩
        obtain ⟨w, hw, hacc⟩ := b.strictRx hstrict
        exact ⟨w, hw, by rw [← hc]; exact hacc⟩
  · simp only [hin, Bool.false_eq_true, not_false_eq_true, if_true] at h'
    simp [St.fail] at h'

theorem step_inv (T : Tables) (hT : KexTables T) (s : St) (ev : Ev) (hev : ev.WF) (he : s.err = none)
    (hd : s.initialKexDone = false) (hi : KInv s.kv) (h' : (step T s ev).err = none) :
    ((step T s ev).initialKexDone = false → KInv (step T s ev).kv) ∧
    ((step T s ev).initialKexDone = true →
      ∃ t p x, ev = .recv t p x ∧ CompletedK s.kv (step T s ev).kv t) := by
  cases ev with
  | rekey =>
    unfold step at h' ⊢
    by_cases hc : s.active = true ∧ s.err.isNone = true ∧ ¬ s.inKex = true
    · rw [if_pos hc] at h' ⊢
      have hk := sendKexInit_ok h'
      have hdone : (sendKexInit s).initialKexDone = false := by
        have := congrArg KV.done hk; simpa [St.kv, hd] using this
      rw [hk]
      exact ⟨fun _ => hi, fun h => by simp [hdone] at h⟩
    · rw [if_neg hc]
      exact ⟨fun _ => hi, fun h => by simp [hd] at h⟩
  | recv t p x =>
    have hact : s.active = true := hi.active
    have hlt0 : s.seqIn < SEQ_MOD := hi.lt
    unfold step at h' ⊢
    simp only [hact, he, Option.isNone_none, and_self, if_true] at h' ⊢
    unfold recv at h' ⊢
    by_cases hroll : (s.seqIn + 1) % SEQ_MOD = 0 ∧ ¬ s.initialKexDone = true
    · simp [hroll, St.fail] at h'
    simp only [hroll, if_false] at h' ⊢
    have hnext : (s.seqIn + 1) % SEQ_MOD = s.seqIn + 1 := by
      have hne : (s.seqIn + 1) % SEQ_MOD ≠ 0 := fun h0 => hroll ⟨h0, by simp [hd]⟩
      rcases Nat.lt_or_ge (s.seqIn + 1) SEQ_MOD with h3 | h3
      · exact Nat.mod_eq_of_lt h3
      · have : s.seqIn + 1 = SEQ_MOD := Nat.le_antisymm hlt0 h3
        rw [this] at hne; simp at hne
    have hlt : s.seqIn + 1 < SEQ_MOD := by rw [← hnext]; exact Nat.mod_lt _ (by decide)
    have hk1 : (bump s t).kv = { s.kv with seqIn := s.kv.seqIn + 1, rx := s.kv.rx ++ [t] } := by
      simp [bump, St.kv, hnext]
    have := body_step T hT s.kv (bump s t) t s.seqIn p x hev hi hd hk1 rfl he hlt h'
    exact ⟨this.1, fun h => ⟨t, p, x, rfl, this.2 h⟩⟩

theorem init_inv (server srt adv sig : Bool) :
    (init server srt adv sig).err = none ∧ (init server srt adv sig).initialKexDone = false ∧
      KInv (init server srt adv sig).kv := by
  refine ⟨by simp [init, sendKexInit, St.send, St.andThen, St.fail],
          by simp [init, sendKexInit, St.send, St.andThen, St.fail], ?_⟩
  refine ⟨?_, ?_, ?_, Or.inl ⟨?_, ?_, ?_, ?_, ?_, ?_⟩⟩ <;>
    simp [init, sendKexInit, St.send, St.andThen, St.fail, St.kv]

/-- the loop never resurrects: once an exception is recorded the state is frozen -/
theorem step_dead (T : Tables) (s : St) (ev : Ev) (h : s.err ≠ none) : step T s ev = s := by
  cases ev <;> simp [step, h]

theorem run_dead (T : Tables) (s : St) (evs : List Ev) (h : s.err ≠ none) : run T s evs = s := by
  induction evs with
  | nil => rfl
  | cons ev evs ih => simp only [run, List.foldl_cons] at ih ⊢; rw [step_dead T s ev h]; exact ih

/-! ## the marker scan -/

/-- the name the remote end must have sent for strict mode (`kex-strict-{c|s}-v00@openssh.com`) -/
def expectedMarker (server : Bool) : String :=
  if server then "kex-strict-c-v00@openssh.com" else "kex-strict-s-v00@openssh.com"

/-- a KEXINIT without any `kex-strict-*` name leaves the agreed mode alone -/
theorem scanMarkers_no_marker (sv adv : Bool) (names : List String) (acc : Option String × Bool)
    (h : ∀ a ∈ names, a.startsWith "kex-strict-" = false) : (scanMarkers sv adv names acc).2 = acc.2 := by
  induction names generalizing acc with
  | nil => rfl
  | cons a as ih =>
    obtain ⟨ei, ag⟩ := acc
    have ha := h a (by simp)
    have has : ∀ b ∈ as, b.startsWith "kex-strict-" = false := fun b hb => h b (by simp [hb])
    unfold scanMarkers
    by_cases he : a.startsWith "ext-info-" = true
    · simp only [he, if_true]; exact ih _ has
    · simp only [he, Bool.false_eq_true, if_false, ha]; exact ih _ has

/-- a KEXINIT whose only `kex-strict-*` names are the expected marker keeps strict mode on (if we offer it) -/
theorem scanMarkers_expected_marker (sv : Bool) (names : List String) (acc : Option String × Bool)
    (hacc : acc.2 = true)
    (h : ∀ a ∈ names, a.startsWith "kex-strict-" = true → a = expectedMarker sv) :
    (scanMarkers sv true names acc).2 = true := by
  induction names generalizing acc with
  | nil => exact hacc
  | cons a as ih =>
    obtain ⟨ei, ag⟩ := acc
    have has : ∀ b ∈ as, b.startsWith "kex-strict-" = true → b = expectedMarker sv :=
      fun b hb => h b (by simp [hb])
    unfold scanMarkers
    by_cases he : a.startsWith "ext-info-" = true
    · simp only [he, if_true]; exact ih _ hacc has
    · simp only [he, Bool.false_eq_true, if_false]
      by_cases hk : a.startsWith "kex-strict-" = true
      · simp only [hk, if_true]
        refine ih _ ?_ has
        have := h a (by simp) hk
        simp only [expectedMarker] at this
        simp [this]
      · simp only [hk, Bool.false_eq_true, if_false]; exact ih _ hacc has

/-- the marker counts wherever it stands in the peer's kex list: before, between or after real algorithm names and
`ext-info-*`; the outcome is `advertise` -/
theorem scanMarkers_marker_anywhere (sv adv : Bool) (pre post : List String) (acc : Option String × Bool)
    (hpre : ∀ a ∈ pre, a.startsWith "kex-strict-" = false)
    (hpost : ∀ a ∈ post, a.startsWith "kex-strict-" = false) :
    (scanMarkers sv adv (pre ++ expectedMarker sv :: post) acc).2 = adv := by
  have hm1 : (expectedMarker sv).startsWith "ext-info-" = false := by cases sv <;> decide +kernel
  have hm2 : (expectedMarker sv).startsWith "kex-strict-" = true := by cases sv <;> decide +kernel
  induction pre generalizing acc with
  | nil =>
    obtain ⟨ei, ag⟩ := acc
    simp only [List.nil_append]
    unfold scanMarkers
    simp only [hm1, Bool.false_eq_true, if_false, hm2, if_true]
    rw [scanMarkers_no_marker _ _ _ _ hpost]
    cases sv <;> simp [expectedMarker]
  | cons a as ih =>
    obtain ⟨ei, ag⟩ := acc
    have ha := hpre a (by simp)
    have has : ∀ b ∈ as, b.startsWith "kex-strict-" = false := fun b hb => hpre b (by simp [hb])
    simp only [List.cons_append]
    unfold scanMarkers
    by_cases he : a.startsWith "ext-info-" = true
    · simp only [he, if_true]; exact ih _ has
    · simp only [he, Bool.false_eq_true, if_false, ha]; exact ih _ has

/-- a KEXINIT received in an established session (a re-exchange, started by either side): if it is accepted, the
agreed strict mode afterwards is what the marker scan makes of the mode agreed before -/
theorem rekey_kexinit_strict (T : Tables) (hT : KexTables T) (s : St) (hact : s.active = true) (he : s.err = none)
    (hdone : s.initialKexDone = true) (hexp : s.expected = []) (p : Bytes) (x : Ext)
    (hok : (step T s (.recv MSG_KEXINIT p x)).err = none) :
    (step T s (.recv MSG_KEXINIT p x)).agreedStrict
      = (scanMarkers s.server s.advertiseStrict x.kexNames (none, s.agreedStrict)).2 := by
  have hstep : step T s (.recv MSG_KEXINIT p x) = negotiateKeys (bump s MSG_KEXINIT) s.seqIn x := by
    simp only [step, hact, he, Option.isNone_none, and_self, if_true, recv, hdone, not_true_eq_false, and_false,
      if_false, body, afterExpected, bump, hexp, ne_eq, MSG_KEXINIT, MSG_IGNORE, MSG_DISCONNECT, MSG_DEBUG,
      Nat.reduceEqDiff]
    exact dispatch_kexinit T hT _ _ _ _
  rw [hstep] at hok ⊢
  unfold negotiateKeys at hok ⊢
  obtain ⟨h3, e3⟩ := andThen_ok hok
  rw [e3] at hok ⊢
  have k3 := ensureLocalKexInit_ok h3
  generalize ensureLocalKexInit (bump s MSG_KEXINIT) = s3 at *
  obtain ⟨e, _, _, k4⟩ := parseKexInit_ok hok
  have g3 := k3
  simp only [St.kv, KV.mk.injEq, bump] at g3
  obtain ⟨_, _, q_strict, _, _, _, _, _, _, q_server, q_adv⟩ := g3
  have := congrArg KV.strict k4
  simp only [St.kv] at this
  rw [this, q_server, q_adv, q_strict]

/-! ## the first step that sets `initial_kex_done` -/

/-- the states around the first step of a run after which `initial_kex_done` is set -/
def firstDone (T : Tables) (s : St) : List Ev → Option (St × St)
  | [] => none
  | ev :: evs => if (step T s ev).initialKexDone then some (s, step T s ev) else firstDone T (step T s ev) evs

theorem firstDone_exists (T : Tables) (s : St) (evs : List Ev) (hd : s.initialKexDone = false)
    (h : (run T s evs).initialKexDone = true) : ∃ s0 s1, firstDone T s evs = some (s0, s1) := by
  induction evs generalizing s with
  | nil => simp [run, hd] at h
  | cons ev evs ih =>
    unfold firstDone
    by_cases hc : (step T s ev).initialKexDone = true
    · exact ⟨s, step T s ev, by simp [hc]⟩
    · simp only [hc, Bool.false_eq_true, if_false]
      exact ih _ (by simpa using hc) (by simpa [run] using h)

theorem firstDone_dead (T : Tables) (s : St) (evs : List Ev) (he : s.err ≠ none) (hd : s.initialKexDone = false) :
    firstDone T s evs = none := by
  induction evs with
  | nil => rfl
  | cons ev evs ih => unfold firstDone; rw [step_dead T s ev he]; simp [hd, ih]

theorem firstDone_spec (T : Tables) (hT : KexTables T) (s : St) (evs : List Ev) (hev : ∀ ev ∈ evs, ev.WF)
    (he : s.err = none) (hd : s.initialKexDone = false) (hi : KInv s.kv) (s0 s1 : St)
    (h : firstDone T s evs = some (s0, s1)) (he1 : s1.err = none) :
    ∃ t p x, s1 = step T s0 (.recv t p x) ∧ s0.initialKexDone = false ∧ KInv s0.kv ∧ CompletedK s0.kv s1.kv t := by
  induction evs generalizing s with
  | nil => simp [firstDone] at h
  | cons ev evs ih =>
    unfold firstDone at h
    have hw := hev ev (by simp)
    by_cases hc : (step T s ev).initialKexDone = true
    · simp only [hc, if_true, Option.some.injEq, Prod.mk.injEq] at h
      obtain ⟨rfl, rfl⟩ := h
      obtain ⟨t, p, x, hev', hcomp⟩ := (step_inv T hT s ev hw he hd hi he1).2 hc
      exact ⟨t, p, x, by rw [hev'], hd, hi, hcomp⟩
    · simp only [hc, Bool.false_eq_true, if_false] at h
      have hd' : (step T s ev).initialKexDone = false := by simpa using hc
      by_cases he' : (step T s ev).err = none
      · exact ih _ (fun e he => hev e (by simp [he])) he' hd' ((step_inv T hT s ev hw he hd hi he').1 hd') h
      · rw [firstDone_dead T _ evs he' hd'] at h; simp at h

end PV.RunLoop
