/-
  The safety invariant of the prefetch model and its preservation by every action.
-/
import PV.Model.PrefetchLemmas
namespace PV.Prefetch
open PV

def respOK (f : Bytes) (off len : Nat) : Resp → Prop
  | .data d => IsSl f off d ∧ 0 < d.length ∧ d.length ≤ len
  | .eof => f.length ≤ off ∨ len = 0
  | .err _ => True

def ThrOK (info : List Info) : TSt → Prop
  | .allocd n o l _ => ∃ w, info[n]? = some ⟨o, l, w⟩
  | .sent n o l _ => ∃ w, info[n]? = some ⟨o, l, w⟩
  | _ => True

def CtxOK (f : Bytes) (pos : Nat) (c : RCtx) : Prop :=
  IsSl f c.start c.acc ∧ pos = c.start + c.acc.length ∧ True

def SizeOK (c : RCtx) : Prop := 0 < c.size ∧ True

def OutOK (f : Bytes) (e : Nat × Option Nat × Bytes) : Prop :=
  e.2.2 = (match e.2.1 with | some w => slice f e.1 w | none => f.drop e.1)

def RespAt (info : List Info) (f : Bytes) (n : Nat) (r : Resp) : Prop :=
  ∃ i, info[n]? = some i ∧ respOK f i.off i.len r
def SyncAt (info : List Info) (pos : Nat) (c : RCtx) (n : Nat) : Prop := ∃ w, info[n]? = some ⟨pos, c.size, w⟩

def PcOK (s : St) : Prop :=
  match s.pc with
  | .idle => True
  | .cont c => CtxOK s.file s.realpos c
  | .recvPf c => CtxOK s.file s.realpos c
  | .allocSync c => CtxOK s.file s.realpos c ∧ SizeOK c
  | .dispPf c n r => CtxOK s.file s.realpos c ∧ RespAt s.info s.file n r
  | .sendSync c n => CtxOK s.file s.realpos c ∧ SizeOK c ∧ SyncAt s.info s.realpos c n
  | .recvSync c n => CtxOK s.file s.realpos c ∧ SizeOK c ∧ SyncAt s.info s.realpos c n
  | .dispSync c n n' r => CtxOK s.file s.realpos c ∧ SizeOK c ∧ SyncAt s.info s.realpos c n ∧ RespAt s.info s.file n' r

structure Base (s : St) : Prop where
  pos : 0 < s.maxReq ∧ 0 < s.bufRead
  bufs : ∀ e ∈ s.bufs, IsSl s.file e.1 e.2
  s2c : ∀ e ∈ s.s2c, RespAt s.info s.file e.1 e.2
  ext : ∀ e ∈ s.extents, ∃ w, s.info[e.1]? = some ⟨e.2.1, e.2.2, w⟩
  thr : ∀ t ∈ s.threads, ThrOK s.info t.st
  out : ∀ e ∈ s.out, OutOK s.file e

structure Inv (s : St) : Prop where
  base : Base s
  pc : PcOK s

theorem getElem?_append_some {α : Type} {l : List α} {n : Nat} {x : α} (h : l[n]? = some x) (m : List α) :
    (l ++ m)[n]? = some x := by
  have hlt : n < l.length := by
    rcases Nat.lt_or_ge n l.length with h' | h'
    · exact h'
    · rw [List.getElem?_eq_none h'] at h; simp at h
  rw [List.getElem?_append_left hlt]; exact h

theorem thrOK_append {info : List Info} {st : TSt} (h : ThrOK info st) (m : List Info) : ThrOK (info ++ m) st := by
  cases st with
  | idle c => trivial
  | checked c => trivial
  | allocd n o l r => obtain ⟨w, hw⟩ := h; exact ⟨w, getElem?_append_some hw m⟩
  | sent n o l r => obtain ⟨w, hw⟩ := h; exact ⟨w, getElem?_append_some hw m⟩

/-! ## finishing a read -/

theorem resultOf_ok {f : Bytes} {c : RCtx} {pos : Nat} (hc : CtxOK f pos c)
    (hdone : wantMet c = true ∨ f.length ≤ pos) : OutOK f (c.start, c.want, resultOf c) := by
  obtain ⟨hsl, hpos, _⟩ := hc
  unfold OutOK resultOf
  simp only
  cases hwant : c.want with
  | some w =>
    simp only
    by_cases hge : w ≤ c.acc.length
    · have ht := isSl_take hsl w
      unfold IsSl at ht
      rw [List.length_take, Nat.min_eq_left hge] at ht
      exact ht
    · have hlt : c.acc.length < w := by omega
      rcases hdone with hm | he
      · unfold wantMet at hm
        simp only [hwant] at hm
        have : c.acc.length ≥ w := by simpa using hm
        omega
      · rw [List.take_of_length_le (by omega)]
        exact (isSl_at_eof hsl (by omega)).2 w (by omega)
  | none =>
    simp only
    rcases hdone with hm | he
    · unfold wantMet at hm; simp [hwant] at hm
    · exact (isSl_at_eof hsl (by omega)).1

theorem finish_inv {s : St} {c : RCtx} (hb : Base s) (hc : CtxOK s.file s.realpos c)
    (hdone : wantMet c = true ∨ s.file.length ≤ s.realpos) : Inv (finish s c) := by
  refine ⟨⟨hb.pos, hb.bufs, hb.s2c, hb.ext, hb.thr, ?_⟩, ?_⟩
  · intro e he
    simp only [finish] at he
    rw [List.mem_append] at he
    rcases he with he | he
    · exact hb.out e he
    · simp at he
      subst he
      exact resultOf_ok hc hdone
  · simp [PcOK, finish]

/-! ## the reader-local computation keeps the invariant -/

theorem reqSize_ok {s : St} {c : RCtx} (hp : 0 < s.maxReq ∧ 0 < s.bufRead) (hm : wantMet c = false) :
    0 < reqSize s c := by
  unfold reqSize
  unfold wantMet at hm
  cases hwant : c.want with
  | some w =>
    simp only [hwant] at hm ⊢
    have : c.acc.length < w := by simpa using hm
    split <;> omega
  | none =>
    simp only
    omega

theorem advance_inv : ∀ (fuel : Nat) (s : St) (c : RCtx), Base s → CtxOK s.file s.realpos c → Inv (advance fuel s c) := by
  intro fuel
  induction fuel with
  | zero =>
    intro s c hb hc
    exact ⟨⟨hb.pos, hb.bufs, hb.s2c, hb.ext, hb.thr, hb.out⟩, by simpa [PcOK, advance] using hc⟩
  | succ fuel ih =>
    intro s c hb hc
    unfold advance
    by_cases hm : wantMet c = true
    · simp only [hm, if_true]
      exact finish_inv hb hc (Or.inl hm)
    · have hm' : wantMet c = false := by simpa using hm
      simp only [hm', Bool.false_eq_true, if_false]
      have hsz := reqSize_ok hb.pos hm'
      have hc1 : CtxOK s.file s.realpos { c with size := reqSize s c } := hc
      have hs1 : SizeOK { c with size := reqSize s c } := ⟨hsz, trivial⟩
      by_cases hp : s.prefetching = true
      · simp only [hp, if_true]
        cases hib : inBuffers s.bufs s.realpos with
        | none =>
          simp only
          by_cases hd : s.done = true
          · simp only [hd, if_true]
            exact ⟨⟨hb.pos, hb.bufs, hb.s2c, hb.ext, hb.thr, hb.out⟩, by simpa [PcOK] using ⟨hc1, hs1⟩⟩
          · simp only [hd, Bool.false_eq_true, if_false]
            exact ⟨⟨hb.pos, hb.bufs, hb.s2c, hb.ext, hb.thr, hb.out⟩, by simpa [PcOK] using hc1⟩
        | some idx =>
          simp only
          obtain ⟨pre, hg, hle, hlt⟩ := inBuffers_some hib
          obtain ⟨t1, t2, t3, t4⟩ := takeBuf_spec (f := s.file) (size := reqSize s c) hb.bufs hg hle hlt hsz
          have hne : ¬ (takeBuf s.bufs idx s.realpos (reqSize s c)).2.length = 0 := by omega
          simp only [hne, if_false]
          apply ih
          · exact ⟨hb.pos, t1, hb.s2c, hb.ext, hb.thr, hb.out⟩
          · obtain ⟨hsl, hpos, _⟩ := hc
            refine ⟨?_, ?_, ?_⟩
            · apply isSl_append hsl
              rw [← hpos]; exact t2
            · simp only [List.length_append]; omega
            · trivial
      · simp only [hp, Bool.false_eq_true, if_false]
        exact ⟨⟨hb.pos, hb.bufs, hb.s2c, hb.ext, hb.thr, hb.out⟩, by simpa [PcOK] using ⟨hc1, hs1⟩⟩


/-! ## `_async_response` -/

theorem asyncResponse_base {s s1 : St} {num : Nat} {r : Resp} (hb : Base s) (hr : RespAt s.info s.file num r)
    (h : asyncResponse s num r = some s1) :
    Base s1 ∧ s1.file = s.file ∧ s1.realpos = s.realpos ∧ s1.info = s.info ∧ s1.pc = s.pc := by
  unfold asyncResponse at h
  cases hg : dictGet? s.extents num with
  | none => simp [hg] at h
  | some ol =>
    obtain ⟨off, len⟩ := ol
    simp only [hg] at h
    have hmem := dictGet_mem hg
    obtain ⟨w, hw⟩ := hb.ext _ hmem
    obtain ⟨i, hi, hok⟩ := hr
    simp only at hw
    rw [hw] at hi
    have hi' : i = ⟨off, len, w⟩ := by simpa using hi.symm
    subst hi'
    have hext : ∀ e ∈ dictDel s.extents num, ∃ w, s.info[e.1]? = some ⟨e.2.1, e.2.2, w⟩ :=
      fun e he => hb.ext e (mem_dictDel he).1
    cases r with
    | data d =>
      simp only at h
      cases h
      refine ⟨⟨hb.pos, ?_, hb.s2c, hext, hb.thr, hb.out⟩, rfl, rfl, rfl, rfl⟩
      intro e he
      rcases mem_dictSet he with h1 | h1
      · subst h1; exact hok.1
      · exact hb.bufs e h1
    | eof =>
      simp only at h
      cases h
      exact ⟨⟨hb.pos, hb.bufs, hb.s2c, hext, hb.thr, hb.out⟩, rfl, rfl, rfl, rfl⟩
    | err c =>
      simp only at h
      cases h
      exact ⟨⟨hb.pos, hb.bufs, hb.s2c, hext, hb.thr, hb.out⟩, rfl, rfl, rfl, rfl⟩

/-- a read that raises leaves a consistent state behind -/
theorem raiseRead_inv {s : St} (c : RCtx) (code : Nat) (hb : Base s) : Inv (raiseRead s c code) :=
  ⟨⟨hb.pos, hb.bufs, hb.s2c, hb.ext, hb.thr, hb.out⟩, by simp [PcOK, raiseRead]⟩

theorem afterCheck_inv {s : St} {c : RCtx} (hb : Base s) (hc : CtxOK s.file s.realpos c) : Inv (afterCheck s c) := by
  unfold afterCheck
  split
  · exact raiseRead_inv c _ ⟨hb.pos, hb.bufs, hb.s2c, hb.ext, hb.thr, hb.out⟩
  · exact advance_inv _ _ _ hb hc

/-! ## every action keeps the invariant -/

theorem mem_set_thread {l : List Thread} {i : Nat} {t u : Thread} (h : u ∈ l.set i t) : u ∈ l ∨ u = t :=
  List.mem_or_eq_of_mem_set h

theorem thread_mem {l : List Thread} {i : Nat} {t : Thread} (h : l[i]? = some t) : t ∈ l :=
  List.mem_of_getElem? h

theorem respAt_append {info : List Info} {f : Bytes} {n : Nat} {r : Resp} (h : RespAt info f n r) (m : List Info) :
    RespAt (info ++ m) f n r := by
  obtain ⟨i, hi, hok⟩ := h
  exact ⟨i, getElem?_append_some hi m, hok⟩

theorem base_append_info {s : St} (hb : Base s) (m : List Info) : Base { s with info := s.info ++ m } :=
  ⟨hb.pos, hb.bufs, fun e he => respAt_append (hb.s2c e he) m,
   fun e he => by obtain ⟨w, hw⟩ := hb.ext e he; exact ⟨w, getElem?_append_some hw m⟩,
   fun t ht => thrOK_append (hb.thr t ht) m, hb.out⟩

theorem pcOK_append_info {s : St} (hp : PcOK s) (m : List Info) : PcOK { s with info := s.info ++ m } := by
  unfold PcOK at *
  cases hpc : s.pc with
  | idle => simp
  | cont c => simpa [hpc] using hp
  | recvPf c => simpa [hpc] using hp
  | allocSync c => simpa [hpc] using hp
  | dispPf c n r =>
    simp only [hpc] at hp ⊢
    exact ⟨hp.1, respAt_append hp.2 m⟩
  | sendSync c n =>
    simp only [hpc] at hp ⊢
    obtain ⟨a, b, w, hw⟩ := hp
    exact ⟨a, b, w, getElem?_append_some hw m⟩
  | recvSync c n =>
    simp only [hpc] at hp ⊢
    obtain ⟨a, b, w, hw⟩ := hp
    exact ⟨a, b, w, getElem?_append_some hw m⟩
  | dispSync c n n' r =>
    simp only [hpc] at hp ⊢
    obtain ⟨a, b, ⟨w, hw⟩, d⟩ := hp
    exact ⟨a, b, ⟨w, getElem?_append_some hw m⟩, respAt_append d m⟩

theorem step_serve_inv {s s' : St} {k : Nat} (hi : Inv s) (h : step s (.serve k) = some s') : Inv s' := by
  obtain ⟨hb, hp⟩ := hi
  simp only [step] at h
  cases hc : s.c2s with
  | nil => simp [hc] at h
  | cons num rest =>
    simp only [hc] at h
    cases hinf : s.info[num]? with
    | none => simp [hinf] at h
    | some i =>
      simp only [hinf] at h
      cases h
      refine ⟨⟨hb.pos, hb.bufs, ?_, hb.ext, hb.thr, hb.out⟩, hp⟩
      intro e he
      simp only [List.mem_append, List.mem_singleton] at he
      rcases he with he | he
      · exact hb.s2c e he
      · subst he
        refine ⟨i, hinf, ?_⟩
        simp only
        split
        · rename_i hav
          unfold respOK
          simp only
          omega
        · rename_i hav
          unfold respOK
          simp only
          refine ⟨isSl_slice _ _ _, ?_, ?_⟩
          · unfold slice
            rw [List.length_take, List.length_drop]; omega
          · unfold slice
            rw [List.length_take, List.length_drop]; omega

theorem step_serveFail_inv {s s' : St} {code : Nat} (hi : Inv s) (h : step s (.serveFail code) = some s') : Inv s' := by
  obtain ⟨hb, hp⟩ := hi
  simp only [step] at h
  cases hc : s.c2s with
  | nil => simp [hc] at h
  | cons num rest =>
    simp only [hc] at h
    cases hinf : s.info[num]? with
    | none => simp [hinf] at h
    | some i =>
      simp only [hinf] at h
      cases h
      refine ⟨⟨hb.pos, hb.bufs, ?_, hb.ext, hb.thr, hb.out⟩, hp⟩
      intro e he
      simp only [List.mem_append, List.mem_singleton] at he
      rcases he with he | he
      · exact hb.s2c e he
      · subst he
        exact ⟨i, hinf, trivial⟩

theorem step_thread_inv {s s' : St} {i : Nat} (hi : Inv s)
    (h : step s (.tCheck i) = some s' ∨ step s (.tAlloc i) = some s' ∨ step s (.tSend i) = some s' ∨
      step s (.tReg i) = some s') : Inv s' := by
  obtain ⟨hb, hp⟩ := hi
  rcases h with h | h | h | h
  · -- tCheck
    simp only [step] at h
    split at h
    · rename_i c rest cap hth
      split at h
      · cases h
        refine ⟨⟨hb.pos, hb.bufs, hb.s2c, hb.ext, ?_, hb.out⟩, hp⟩
        intro t ht
        rcases mem_set_thread ht with h1 | h1
        · exact hb.thr t h1
        · subst h1; trivial
      · cases h
    · cases h
  · -- tAlloc
    simp only [step] at h
    split at h
    · rename_i c rest cap hth
      cases h
      have hb' := base_append_info hb [⟨c.1, c.2, .pf i⟩]
      refine ⟨⟨hb.pos, hb.bufs, hb'.s2c, hb'.ext, ?_, hb.out⟩, pcOK_append_info hp _⟩
      intro t ht
      rcases mem_set_thread ht with h1 | h1
      · exact hb'.thr t h1
      · subst h1
        exact ⟨.pf i, by simp⟩
    · cases h
  · -- tSend
    simp only [step] at h
    split at h
    · rename_i num off len rest cap hth
      cases h
      refine ⟨⟨hb.pos, hb.bufs, hb.s2c, hb.ext, ?_, hb.out⟩, hp⟩
      intro t ht
      rcases mem_set_thread ht with h1 | h1
      · exact hb.thr t h1
      · subst h1
        have h2 : ThrOK s.info (.allocd num off len rest) := hb.thr _ (thread_mem hth)
        exact h2
    · cases h
  · -- tReg
    simp only [step] at h
    split at h
    · rename_i num off len rest cap hth
      cases h
      have hthis : ThrOK s.info (.sent num off len rest) := hb.thr _ (thread_mem hth)
      refine ⟨⟨hb.pos, hb.bufs, hb.s2c, ?_, ?_, hb.out⟩, hp⟩
      · intro e he
        rcases mem_dictSet he with h1 | h1
        · subst h1; exact hthis
        · exact hb.ext e h1
      · intro t ht
        rcases mem_set_thread ht with h1 | h1
        · exact hb.thr t h1
        · subst h1; trivial
    · cases h


theorem base_startPrefetch {s : St} (hb : Base s) (ch : List Chunk) (cap : Option Nat) :
    Base (startPrefetch s ch cap) := by
  refine ⟨hb.pos, hb.bufs, hb.s2c, hb.ext, ?_, hb.out⟩
  intro t ht
  simp only [startPrefetch, List.mem_append, List.mem_singleton] at ht
  rcases ht with h | h
  · exact hb.thr t h
  · subst h; trivial

def pcCtx : Pc → Option RCtx
  | .idle => none
  | .cont c => some c
  | .recvPf c => some c
  | .dispPf c _ _ => some c
  | .allocSync c => some c
  | .sendSync c _ => some c
  | .recvSync c _ => some c
  | .dispSync c _ _ _ => some c

/-- BufferedFile's read-ahead: `_rbuffer` holds the file's bytes at `_pos`, and between calls
    `_realpos = _pos + len(_rbuffer)` -/
def RbOK (s : St) : Prop :=
  IsSl s.file s.pos s.rbuf ∧ (pcCtx s.pc = none → s.realpos = s.pos + s.rbuf.length)

theorem step_rOp_inv {s s' : St} {op : Op} (hi : Inv s) (hrb : RbOK s) (h : step s (.rOp op) = some s') : Inv s' := by
  obtain ⟨hb, hp⟩ := hi
  simp only [step] at h
  cases hpc : s.pc with
  | idle =>
    simp only [hpc] at h
    have hidle : ∀ t : St, t.pc = .idle → PcOK t := by intro t ht; simp [PcOK, ht]
    cases op with
    | seek off =>
      simp only at h; cases h
      exact ⟨⟨hb.pos, hb.bufs, hb.s2c, hb.ext, hb.thr, hb.out⟩, hidle _ (by first | rfl | exact hpc)⟩
    | read want =>
      simp only at h; cases h
      apply advance_inv _ _ _ hb
      exact ⟨hrb.1, hrb.2 (by rw [hpc]; rfl), trivial⟩
    | readAt off want =>
      simp only at h; cases h
      apply advance_inv
      · exact ⟨hb.pos, hb.bufs, hb.s2c, hb.ext, hb.thr, hb.out⟩
      · exact ⟨isSl_nil _ _, by simp, trivial⟩
    | prefetch fs cap =>
      simp only at h
      split at h
      · cases h; exact ⟨hb, hidle _ (by first | rfl | exact hpc)⟩
      · cases h; exact ⟨base_startPrefetch hb _ _, hidle _ (by first | rfl | exact hpc)⟩
    | readv ch cap =>
      simp only at h
      split at h
      · cases h; exact ⟨hb, hidle _ (by first | rfl | exact hpc)⟩
      · cases h; exact ⟨base_startPrefetch hb _ _, hidle _ (by first | rfl | exact hpc)⟩
  | _ => simp [hpc] at h

theorem step_rStep_inv {s s' : St} (hi : Inv s) (h : step s .rStep = some s') : Inv s' := by
  obtain ⟨hb, hp⟩ := hi
  simp only [step] at h
  unfold PcOK at hp
  cases hpc : s.pc with
  | idle => simp [hpc] at h
  | cont c =>
    simp only [hpc] at h hp; cases h
    exact advance_inv _ _ _ hb hp
  | recvPf c =>
    simp only [hpc] at h hp
    cases hq : s.s2c with
    | nil => simp [hq] at h
    | cons e rest =>
      obtain ⟨num, r⟩ := e
      simp only [hq] at h
      have hr : RespAt s.info s.file num r := hb.s2c (num, r) (by rw [hq]; simp)
      have hb1 : Base { s with s2c := rest } :=
        ⟨hb.pos, hb.bufs, fun e he => hb.s2c e (by rw [hq]; exact List.mem_cons_of_mem _ he), hb.ext, hb.thr, hb.out⟩
      split at h
      · cases h
        exact ⟨⟨hb1.pos, hb1.bufs, hb1.s2c, hb1.ext, hb1.thr, hb1.out⟩, by simpa [PcOK] using ⟨hp, hr⟩⟩
      · cases h
        exact afterCheck_inv ⟨hb1.pos, hb1.bufs, hb1.s2c, hb1.ext, hb1.thr, hb1.out⟩ hp
  | dispPf c num r =>
    simp only [hpc] at h hp
    cases ha : asyncResponse s num r with
    | none => simp [ha] at h
    | some s1 =>
      simp only [ha] at h; cases h
      obtain ⟨hb1, hf, hrp, _, _⟩ := asyncResponse_base hb hp.2 ha
      apply afterCheck_inv hb1
      rw [hf, hrp]; exact hp.1
  | allocSync c =>
    simp only [hpc] at h hp; cases h
    have hb' := base_append_info hb [⟨s.realpos, c.size, .sync⟩]
    refine ⟨⟨hb.pos, hb.bufs, hb'.s2c, hb'.ext, hb'.thr, hb.out⟩, ?_⟩
    simp only [PcOK]
    exact ⟨hp.1, hp.2, .sync, by simp⟩
  | sendSync c num =>
    simp only [hpc] at h hp; cases h
    exact ⟨⟨hb.pos, hb.bufs, hb.s2c, hb.ext, hb.thr, hb.out⟩, by simpa [PcOK] using hp⟩
  | recvSync c num =>
    simp only [hpc] at h hp
    obtain ⟨hctx, hsz, hsync⟩ := hp
    cases hq : s.s2c with
    | nil => simp [hq] at h
    | cons e rest =>
      obtain ⟨n', r⟩ := e
      simp only [hq] at h
      have hr : RespAt s.info s.file n' r := hb.s2c (n', r) (by rw [hq]; simp)
      have hb1 : Base { s with s2c := rest } :=
        ⟨hb.pos, hb.bufs, fun e he => hb.s2c e (by rw [hq]; exact List.mem_cons_of_mem _ he), hb.ext, hb.thr, hb.out⟩
      by_cases hn : n' = num
      · simp only [hn, if_true] at h
        subst hn
        obtain ⟨i, hi, hok⟩ := hr
        obtain ⟨w, hw⟩ := hsync
        rw [hw] at hi
        have hi' : i = ⟨s.realpos, c.size, w⟩ := by simpa using hi.symm
        subst hi'
        cases r with
        | data d =>
          simp only at h
          obtain ⟨hsl, hdpos, hdlen⟩ := hok
          simp only at hsl hdlen
          have hne : ¬ d.length = 0 := by omega
          simp only [hne, if_false] at h
          cases h
          apply advance_inv
          · exact ⟨hb1.pos, hb1.bufs, hb1.s2c, hb1.ext, hb1.thr, hb1.out⟩
          · obtain ⟨h1, h2, h3⟩ := hctx
            refine ⟨?_, ?_, ?_⟩
            · apply isSl_append h1
              rw [← h2]; exact hsl
            · simp only [List.length_append]; omega
            · trivial
        | eof =>
          simp only at h; cases h
          apply finish_inv ⟨hb1.pos, hb1.bufs, hb1.s2c, hb1.ext, hb1.thr, hb1.out⟩ hctx
          right
          simp only [respOK] at hok
          have := hsz.1
          show s.file.length ≤ s.realpos
          omega
        | err code =>
          simp only at h; cases h
          exact raiseRead_inv c code ⟨hb1.pos, hb1.bufs, hb1.s2c, hb1.ext, hb1.thr, hb1.out⟩
      · simp only [hn, if_false] at h
        split at h
        · cases h
          exact ⟨⟨hb1.pos, hb1.bufs, hb1.s2c, hb1.ext, hb1.thr, hb1.out⟩,
            by simpa [PcOK] using ⟨hctx, hsz, hsync, hr⟩⟩
        · cases h
          exact ⟨⟨hb1.pos, hb1.bufs, hb1.s2c, hb1.ext, hb1.thr, hb1.out⟩,
            by simpa [PcOK, hpc] using ⟨hctx, hsz, hsync⟩⟩
  | dispSync c num n' r =>
    simp only [hpc] at h hp
    cases ha : asyncResponse s n' r with
    | none => simp [ha] at h
    | some s1 =>
      simp only [ha] at h; cases h
      obtain ⟨hb1, hf, hrp, hinf, _⟩ := asyncResponse_base hb hp.2.2.2 ha
      refine ⟨⟨hb1.pos, hb1.bufs, hb1.s2c, hb1.ext, hb1.thr, hb1.out⟩, ?_⟩
      simp only [PcOK]
      rw [hf, hrp, hinf]
      exact ⟨hp.1, hp.2.1, hp.2.2.1⟩

theorem advance_file (fuel : Nat) (s : St) (c : RCtx) : (advance fuel s c).file = s.file := by
  induction fuel generalizing s c with
  | zero => rfl
  | succ fuel ih =>
    unfold advance
    split
    · rfl
    · split
      · split
        · simp only
          split
          · rfl
          · rw [ih]
        · split <;> rfl
      · rfl

theorem asyncResponse_file {s s1 : St} {n : Nat} {r : Resp} (h : asyncResponse s n r = some s1) : s1.file = s.file := by
  unfold asyncResponse at h
  split at h
  · cases h
  · split at h <;> (cases h; rfl)

theorem afterCheck_file (s : St) (c : RCtx) : (afterCheck s c).file = s.file := by
  unfold afterCheck
  split
  · rfl
  · exact advance_file _ _ _

theorem step_file {s s' : St} {a : Act} (h : step s a = some s') : s'.file = s.file := by
  cases a with
  | serve k =>
    simp only [step] at h
    split at h
    · cases h
    · split at h <;> (cases h; try rfl)
  | serveFail code =>
    simp only [step] at h
    split at h
    · cases h
    · split at h <;> (cases h; try rfl)
  | tCheck i =>
    simp only [step] at h
    split at h
    · split at h <;> (cases h; try rfl)
    · cases h
  | tAlloc i => simp only [step] at h; split at h <;> (cases h; try rfl)
  | tSend i => simp only [step] at h; split at h <;> (cases h; try rfl)
  | tReg i => simp only [step] at h; split at h <;> (cases h; try rfl)
  | rOp op =>
    simp only [step] at h
    split at h
    · cases op with
      | seek o => cases h; rfl
      | read w => cases h; exact advance_file _ _ _
      | readAt o w => cases h; exact advance_file _ _ _
      | prefetch f c => simp only at h; split at h <;> (cases h; rfl)
      | readv ch c => simp only at h; split at h <;> (cases h; rfl)
    · cases h
  | rStep =>
    simp only [step] at h
    cases hpc : s.pc with
    | idle => simp [hpc] at h
    | cont c => simp only [hpc] at h; cases h; exact advance_file _ _ _
    | recvPf c =>
      simp only [hpc] at h
      cases hq : s.s2c with
      | nil => simp [hq] at h
      | cons e rest =>
        simp only [hq] at h
        split at h
        · cases h; rfl
        · cases h; exact afterCheck_file _ _
    | dispPf c num r =>
      simp only [hpc] at h
      cases ha : asyncResponse s num r with
      | none => simp [ha] at h
      | some s1 =>
        simp only [ha] at h; cases h
        rw [afterCheck_file]; exact asyncResponse_file ha
    | allocSync c => simp only [hpc] at h; cases h; rfl
    | sendSync c n => simp only [hpc] at h; cases h; rfl
    | recvSync c num =>
      simp only [hpc] at h
      cases hq : s.s2c with
      | nil => simp [hq] at h
      | cons e rest =>
        obtain ⟨n', r⟩ := e
        simp only [hq] at h
        by_cases hn : n' = num
        · simp only [hn, if_true] at h
          cases r with
          | data d =>
            simp only at h
            split at h
            · cases h; rfl
            · cases h; exact advance_file _ _ _
          | eof => simp only at h; cases h; rfl
          | err code => simp only at h; cases h; rfl
        · simp only [hn, if_false] at h
          split at h <;> (cases h; rfl)
    | dispSync c num n' r =>
      simp only [hpc] at h
      cases ha : asyncResponse s n' r with
      | none => simp [ha] at h
      | some s1 =>
        simp only [ha] at h; cases h
        exact asyncResponse_file (s1 := s1) ha

theorem run_file (s : St) (as : List Act) : (run s as).file = s.file := by
  induction as generalizing s with
  | nil => rfl
  | cons a as ih =>
    simp only [run]
    rw [ih]
    cases hs : step s a with
    | none => rfl
    | some s' => simp only [Option.getD_some]; exact step_file hs

theorem step_inv {s s' : St} {a : Act} (hi : Inv s) (hrb : RbOK s) (h : step s a = some s') : Inv s' := by
  cases a with
  | serve k => exact step_serve_inv hi h
  | serveFail c => exact step_serveFail_inv hi h
  | tCheck i => exact step_thread_inv hi (Or.inl h)
  | tAlloc i => exact step_thread_inv hi (Or.inr (Or.inl h))
  | tSend i => exact step_thread_inv hi (Or.inr (Or.inr (Or.inl h)))
  | tReg i => exact step_thread_inv hi (Or.inr (Or.inr (Or.inr h)))
  | rOp op => exact step_rOp_inv hi hrb h
  | rStep => exact step_rStep_inv hi h

/-! ## the read-ahead invariant along every step -/

theorem resultOf_le (c : RCtx) : (resultOf c).length ≤ c.acc.length := by
  unfold resultOf
  split
  · rw [List.length_take]; omega
  · exact Nat.le_refl _

theorem finish_rb {s : St} {c : RCtx} (hc : CtxOK s.file s.realpos c) : RbOK (finish s c) := by
  obtain ⟨hsl, hpos, _⟩ := hc
  have hle := resultOf_le c
  refine ⟨?_, fun _ => ?_⟩
  · show IsSl s.file (c.start + (resultOf c).length) (c.acc.drop (resultOf c).length)
    exact isSl_drop hsl _
  · show s.realpos = c.start + (resultOf c).length + (c.acc.drop (resultOf c).length).length
    rw [List.length_drop]; omega

theorem advance_rb : ∀ (fuel : Nat) (s : St) (c : RCtx), Base s → CtxOK s.file s.realpos c →
    IsSl s.file s.pos s.rbuf → RbOK (advance fuel s c) := by
  intro fuel
  induction fuel with
  | zero => intro s c _ _ hr; exact ⟨hr, fun h => by simp [advance, pcCtx] at h⟩
  | succ fuel ih =>
    intro s c hb hc hr
    unfold advance
    by_cases hm : wantMet c = true
    · simp only [hm, if_true]
      exact finish_rb hc
    · have hm' : wantMet c = false := by simpa using hm
      simp only [hm', Bool.false_eq_true, if_false]
      have hsz := reqSize_ok hb.pos hm'
      by_cases hp : s.prefetching = true
      · simp only [hp, if_true]
        cases hib : inBuffers s.bufs s.realpos with
        | none =>
          simp only
          by_cases hd : s.done = true
          · simp only [hd, if_true]; exact ⟨hr, fun h => by simp [pcCtx] at h⟩
          · simp only [hd, Bool.false_eq_true, if_false]; exact ⟨hr, fun h => by simp [pcCtx] at h⟩
        | some idx =>
          simp only
          obtain ⟨pre, hg, hle, hlt⟩ := inBuffers_some hib
          obtain ⟨t1, t2, t3, t4⟩ := takeBuf_spec (f := s.file) (size := reqSize s c) hb.bufs hg hle hlt hsz
          have hne : ¬ (takeBuf s.bufs idx s.realpos (reqSize s c)).2.length = 0 := by omega
          simp only [hne, if_false]
          apply ih
          · exact ⟨hb.pos, t1, hb.s2c, hb.ext, hb.thr, hb.out⟩
          · obtain ⟨hsl, hpos, _⟩ := hc
            refine ⟨?_, ?_, trivial⟩
            · apply isSl_append hsl
              rw [← hpos]; exact t2
            · simp only [List.length_append]; omega
          · exact hr
      · simp only [hp, Bool.false_eq_true, if_false]; exact ⟨hr, fun h => by simp [pcCtx] at h⟩

theorem raiseRead_rb (s : St) (c : RCtx) (code : Nat) : RbOK (raiseRead s c code) :=
  ⟨isSl_nil _ _, fun _ => by simp [raiseRead]⟩

theorem afterCheck_rb {s : St} {c : RCtx} (hb : Base s) (hc : CtxOK s.file s.realpos c)
    (hr : IsSl s.file s.pos s.rbuf) : RbOK (afterCheck s c) := by
  unfold afterCheck
  split
  · exact raiseRead_rb _ c _
  · exact advance_rb _ _ _ hb hc hr

theorem asyncResponse_rbframe {s s1 : St} {n : Nat} {r : Resp} (h : asyncResponse s n r = some s1) :
    s1.pos = s.pos ∧ s1.rbuf = s.rbuf := by
  unfold asyncResponse at h
  split at h
  · cases h
  · split at h <;> (cases h; exact ⟨rfl, rfl⟩)

theorem step_rb {s s' : St} {a : Act} (hi : Inv s) (hrb : RbOK s) (h : step s a = some s') : RbOK s' := by
  obtain ⟨hb, hp⟩ := hi
  cases a with
  | serve k =>
    simp only [step] at h
    split at h
    · cases h
    · split at h
      · cases h
      · cases h; exact hrb
  | serveFail k =>
    simp only [step] at h
    split at h
    · cases h
    · split at h
      · cases h
      · cases h; exact hrb
  | tCheck i =>
    simp only [step] at h
    split at h
    · split at h
      · cases h; exact hrb
      · cases h
    · cases h
  | tAlloc i => simp only [step] at h; split at h <;> (cases h; try exact hrb)
  | tSend i => simp only [step] at h; split at h <;> (cases h; try exact hrb)
  | tReg i => simp only [step] at h; split at h <;> (cases h; try exact hrb)
  | rOp op =>
    simp only [step] at h
    cases hpc : s.pc with
    | idle =>
      simp only [hpc] at h
      have hrb' := hrb
      unfold RbOK at hrb
      rw [hpc] at hrb
      cases op with
      | seek off =>
        simp only at h; cases h
        exact ⟨isSl_nil _ _, fun _ => by simp⟩
      | read want =>
        simp only at h; cases h
        exact advance_rb _ _ _ hb ⟨hrb.1, hrb.2 rfl, trivial⟩ hrb.1
      | readAt off want =>
        simp only at h; cases h
        apply advance_rb
        · exact ⟨hb.pos, hb.bufs, hb.s2c, hb.ext, hb.thr, hb.out⟩
        · exact ⟨isSl_nil _ _, by simp, trivial⟩
        · exact isSl_nil _ _
      | prefetch fs cap =>
        simp only at h
        split at h
        · cases h; exact hrb'
        · cases h
          refine ⟨hrb.1, fun _ => hrb.2 rfl⟩
      | readv ch cap =>
        simp only at h
        split at h
        · cases h; exact hrb'
        · cases h
          refine ⟨hrb.1, fun _ => hrb.2 rfl⟩
    | _ => simp [hpc] at h
  | rStep =>
    simp only [step] at h
    unfold PcOK at hp
    have hr := hrb.1
    cases hpc : s.pc with
    | idle => simp [hpc] at h
    | cont c =>
      simp only [hpc] at h hp; cases h
      exact advance_rb _ _ _ hb hp hr
    | recvPf c =>
      simp only [hpc] at h hp
      cases hq : s.s2c with
      | nil => simp [hq] at h
      | cons e rest =>
        obtain ⟨num, r⟩ := e
        simp only [hq] at h
        have hb1 : Base { s with s2c := rest } :=
          ⟨hb.pos, hb.bufs, fun e he => hb.s2c e (by rw [hq]; exact List.mem_cons_of_mem _ he), hb.ext, hb.thr, hb.out⟩
        split at h
        · cases h; exact ⟨hr, fun hc => by simp [pcCtx] at hc⟩
        · cases h
          exact afterCheck_rb ⟨hb1.pos, hb1.bufs, hb1.s2c, hb1.ext, hb1.thr, hb1.out⟩ hp hr
    | dispPf c num r =>
      simp only [hpc] at h hp
      cases ha' : asyncResponse s num r with
      | none => simp [ha'] at h
      | some s1 =>
        simp only [ha'] at h; cases h
        obtain ⟨hb1, hf, hrp, _, _⟩ := asyncResponse_base hb hp.2 ha'
        obtain ⟨f1, f2⟩ := asyncResponse_rbframe ha'
        apply afterCheck_rb hb1
        · rw [hf, hrp]; exact hp.1
        · rw [hf, f1, f2]; exact hr
    | allocSync c =>
      simp only [hpc] at h; cases h
      exact ⟨hr, fun hc => by simp [pcCtx] at hc⟩
    | sendSync c n =>
      simp only [hpc] at h; cases h
      exact ⟨hr, fun hc => by simp [pcCtx] at hc⟩
    | recvSync c num =>
      simp only [hpc] at h hp
      obtain ⟨hctx, hsz, hsync⟩ := hp
      cases hq : s.s2c with
      | nil => simp [hq] at h
      | cons e rest =>
        obtain ⟨n', r⟩ := e
        simp only [hq] at h
        have hrr : RespAt s.info s.file n' r := hb.s2c (n', r) (by rw [hq]; simp)
        have hb1 : Base { s with s2c := rest } :=
          ⟨hb.pos, hb.bufs, fun e he => hb.s2c e (by rw [hq]; exact List.mem_cons_of_mem _ he), hb.ext, hb.thr, hb.out⟩
        by_cases hn : n' = num
        · simp only [hn, if_true] at h
          subst hn
          obtain ⟨i, hi, hok⟩ := hrr
          obtain ⟨w, hw⟩ := hsync
          rw [hw] at hi
          have hi' : i = ⟨s.realpos, c.size, w⟩ := by simpa using hi.symm
          subst hi'
          cases r with
          | data d =>
            simp only at h
            obtain ⟨hsl, hdpos, hdlen⟩ := hok
            simp only at hsl hdlen
            have hne : ¬ d.length = 0 := by omega
            simp only [hne, if_false] at h
            cases h
            apply advance_rb
            · exact ⟨hb1.pos, hb1.bufs, hb1.s2c, hb1.ext, hb1.thr, hb1.out⟩
            · obtain ⟨h1, h2, _⟩ := hctx
              refine ⟨?_, ?_, trivial⟩
              · apply isSl_append h1
                rw [← h2]; exact hsl
              · simp only [List.length_append]; omega
            · exact hr
          | eof =>
            simp only at h; cases h
            exact finish_rb (s := { s with s2c := rest }) hctx
          | err code =>
            simp only at h; cases h
            exact raiseRead_rb _ c code
        · simp only [hn, if_false] at h
          split at h
          · cases h; exact ⟨hr, fun hc => by simp [pcCtx] at hc⟩
          · cases h; exact ⟨hr, fun hc => by simp [pcCtx] at hc⟩
    | dispSync c num n' r =>
      simp only [hpc] at h hp
      cases ha' : asyncResponse s n' r with
      | none => simp [ha'] at h
      | some s1 =>
        simp only [ha'] at h; cases h
        obtain ⟨f1, f2⟩ := asyncResponse_rbframe ha'
        refine ⟨?_, fun hc => by simp [pcCtx] at hc⟩
        show IsSl s1.file s1.pos s1.rbuf
        rw [asyncResponse_file ha', f1, f2]; exact hr

theorem run_inv {s : St} (hi : Inv s) (hrb : RbOK s) (as : List Act) : Inv (run s as) ∧ RbOK (run s as) := by
  induction as generalizing s with
  | nil => exact ⟨hi, hrb⟩
  | cons a as ih =>
    simp only [run]
    cases hs : step s a with
    | none => simpa using ih hi hrb
    | some s' => simpa using ih (step_inv hi hrb hs) (step_rb hi hrb hs)

theorem init_inv (file : Bytes) (maxReq : Nat) (h : 0 < maxReq) (bufsize : Nat := 0) : Inv (init file maxReq bufsize) := by
  refine ⟨⟨⟨h, by simp [init]⟩, ?_, ?_, ?_, ?_, ?_⟩, by simp [PcOK, init]⟩ <;> simp [init]

theorem init_rb (file : Bytes) (maxReq : Nat) (bufsize : Nat := 0) : RbOK (init file maxReq bufsize) :=
  ⟨isSl_nil _ _, fun _ => by simp [init]⟩

end PV.Prefetch
