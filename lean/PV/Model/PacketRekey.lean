/-
  PV.Model.PacketRekey — the rekey accounting of `read_message`: the receiver's own rekey request and the
  overflow allowance.  A history whose key epochs each stay below the allowance (packets and bytes) is delivered
  completely whatever the thresholds are; the accounting never changes what is delivered before it raises.
-/
import PV.Model.PacketRoundtrip
namespace PV.Packet
open PV

/-- what the honest receiver's accounting sees is what the sender put on the wire: packet sizes and key switches -/
theorem accts_seq {p : Prims} (W : Laws p) (ops : List (Op p)) :
    ∀ (s : Sender p) (r : Receiver p), PairedSt W s r → (∀ op ∈ ops, OpOk W op) →
    ∀ s' w log, sendAll s ops = .ok (s', w, log) → ∀ t : Bytes,
      (recvAll r ops (w ++ t)).accts = sentAccts s ops := by
  induction ops with
  | nil => intro s r _ _ s' w log _ t; rfl
  | cons op ops ih =>
    intro s r hp hok s' w log hs t
    have hok' : ∀ op ∈ ops, OpOk W op := fun o ho => hok o (List.mem_cons_of_mem _ ho)
    have hop : OpOk W op := hok op (List.mem_cons_self ..)
    cases op with
    | msg d rnd =>
      simp only [sendAll] at hs
      cases hsm : sendMessage s d rnd with
      | error e => rw [hsm] at hs; cases hs
      | ok o =>
        rw [hsm] at hs
        simp only at hs
        cases hsa : sendAll o.st ops with
        | error e => rw [hsa] at hs; cases hs
        | ok res =>
          obtain ⟨s1, w1, l1⟩ := res
          rw [hsa] at hs
          simp only at hs
          have := Except.ok.inj hs
          simp only [Prod.mk.injEq] at this
          obtain ⟨h1, h2, h3⟩ := this
          subst h1; subst h2; subst h3
          obtain ⟨o', c, body, hd, hrun, hmsg, hauth, hp', hraw⟩ := roundtrip1 W hp hsm (w1 ++ t)
          have i1 := ih o.st o'.st hp' hok' s1 w1 l1 hsa t
          simp only [recvAll, List.append_assoc, hrun, sentAccts, hsm, i1, hraw]
    | setCipher b m sd co ci =>
      simp only [sendAll] at hs
      have hp' : PairedSt W (s.setCipher b m sd co) (r.setCipher b m ci) :=
        ⟨rfl, rfl, hp.seq, hp.kex, hop.1, hop.2, hp.comp⟩
      simp only [recvAll, sentAccts, ih _ _ hp' hok' s' w log hs t]
    | setComp zo zi =>
      simp only [sendAll] at hs
      have hp' : PairedSt W { s with comp := zo } { r with decomp := zi } :=
        ⟨hp.block, hp.macLen, hp.seq, hp.kex, hp.blk4, hp.ciph, hop⟩
      simp only [recvAll, sentAccts, ih _ _ hp' hok' s' w log hs t]
    | resetSeq =>
      simp only [sendAll] at hs
      have hp' : PairedSt W { s with seq := 0 } { r with seq := 0 } :=
        ⟨hp.block, hp.macLen, rfl, hp.kex, hp.blk4, hp.ciph, hp.comp⟩
      simp only [recvAll, sentAccts, ih _ _ hp' hok' s' w log hs t]
    | kexDone =>
      simp only [sendAll] at hs
      have hp' : PairedSt W { s with kexDone := true } { r with kexDone := true } :=
        ⟨hp.block, hp.macLen, hp.seq, rfl, hp.blk4, hp.ciph, hp.comp⟩
      simp only [recvAll, sentAccts, ih _ _ hp' hok' s' w log hs t]

/-- as long as the accounting does not raise, the receiver with accounting delivers what the receiver without it
delivers and stops for the same reason (on ANY byte string) -/
theorem recvAllK_spec {p : Prims} (L : Limits) (ops : List (Op p)) : ∀ (r : Receiver p) (k : RekeySt) (buf : Bytes) k',
    accountAll L k (recvAll r ops buf).accts = .ok k' →
    recvAllK L r k ops buf = ((recvAll r ops buf).msgs, (recvAll r ops buf).stop) := by
  induction ops with
  | nil => intro r k buf k' _; rfl
  | cons op ops ih =>
    intro r k buf k' h
    cases op with
    | msg d rnd =>
      simp only [recvAll, recvAllK] at h ⊢
      cases hrun : runBuf (readMessage r) buf with
      | err e => simp only
      | ok o rest =>
        rw [hrun] at h
        simp only [accountAll] at h ⊢
        cases ha : account L k o.raw with
        | error e => rw [ha] at h; cases h
        | ok k1 =>
          rw [ha] at h
          simp only at h ⊢
          rw [ih o.st k1 rest k' h]
    | setCipher b m sd co ci =>
      simp only [recvAll, recvAllK, accountAll] at h ⊢
      exact ih _ _ _ k' h
    | setComp zo zi => simp only [recvAll, recvAllK] at h ⊢; exact ih _ _ _ k' h
    | resetSeq => simp only [recvAll, recvAllK] at h ⊢; exact ih _ _ _ k' h
    | kexDone => simp only [recvAll, recvAllK] at h ⊢; exact ih _ _ _ k' h

/-- **in-flight ≤ allowance**: with `n` packets / `b` bytes already counted in the current key epoch, every epoch of
the trace stays strictly below the overflow allowance, in packets and in bytes -/
def RunOk (L : Limits) : Nat → Nat → List Acct → Prop
  | _, _, [] => True
  | n, b, .pkt raw :: t => n + 1 < L.ovPackets ∧ b + raw < L.ovBytes ∧ RunOk L (n + 1) (b + raw) t
  | _, _, .switch :: t => RunOk L 0 0 t

instance RunOk.dec (L : Limits) : ∀ (n b : Nat) (tr : List Acct), Decidable (RunOk L n b tr)
  | _, _, [] => isTrue trivial
  | n, b, .pkt raw :: t =>
    have := RunOk.dec L (n + 1) (b + raw) t
    by unfold RunOk; exact inferInstance
  | _, _, .switch :: t => by unfold RunOk; exact RunOk.dec L 0 0 t

theorem account_ok (L : Limits) (k : RekeySt) (raw n b : Nat) (hn : k.ovPackets ≤ n) (hb : k.ovBytes ≤ b)
    (h1 : n + 1 < L.ovPackets) (h2 : b + raw < L.ovBytes) :
    ∃ k', account L k raw = .ok k' ∧ k'.ovPackets ≤ n + 1 ∧ k'.ovBytes ≤ b + raw := by
  unfold account
  by_cases hneed : k.need = true
  · have hno : ¬ (k.ovPackets + 1 ≥ L.ovPackets ∨ k.ovBytes + raw ≥ L.ovBytes) := by omega
    simp only [hneed, if_true, hno, if_false]
    exact ⟨_, rfl, by simp only; omega, by simp only; omega⟩
  · simp only [hneed]
    by_cases ht : k.recvPackets + 1 ≥ L.rekeyPackets ∨ k.recvBytes + raw ≥ L.rekeyBytes
    · simp only [ht, if_true]
      exact ⟨_, rfl, Nat.zero_le _, Nat.zero_le _⟩
    · simp only [ht, if_false]
      exact ⟨_, rfl, by simp only; omega, by simp only; omega⟩

/-- below the allowance the accounting never raises — whatever `REKEY_PACKETS` / `REKEY_BYTES` are and whenever the
receiver's own request is triggered -/
theorem accountAll_ok (L : Limits) (tr : List Acct) : ∀ (k : RekeySt) (n b : Nat),
    k.ovPackets ≤ n → k.ovBytes ≤ b → RunOk L n b tr → ∃ k', accountAll L k tr = .ok k' := by
  induction tr with
  | nil => intro k n b _ _ _; exact ⟨k, rfl⟩
  | cons a t ih =>
    intro k n b hn hb hr
    cases a with
    | switch =>
      simp only [accountAll]
      exact ih k.switched 0 0 (Nat.le_refl _) (Nat.le_refl _) hr
    | pkt raw =>
      obtain ⟨h1, h2, h3⟩ := hr
      obtain ⟨k1, e1, e2, e3⟩ := account_ok L k raw n b hn hb h1 h2
      simp only [accountAll, e1]
      exact ih k1 (n + 1) (b + raw) e2 e3 h3

end PV.Packet
