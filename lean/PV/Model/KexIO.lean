/-
  PV.Model.KexIO — line protocol over the key-exchange model (shared by Driver/C06 and Driver/C08).

  Request:
    kex <engine> <role> <mode> <lv> <rv> <lk> <rk> <hostkey> <algo> <x> <verify> <modulus> <sid> <hostkey0> <pkt>*
      engine  : grp:<P>:<G> | gex | gexold | nist | c25519       (numbers in decimal)
      role    : c | s
      mode    : gate (packets pass Transport.run's _expected_packet gate) | raw (parse_next directly)
      lv rv lk rk hostkey algo : hex tokens (`-` = empty)
      x       : randomness of start_kex (exponent / private scalar)
      verify  : toy | yes | no      (outcome of Transport._verify_key)
      modulus : none | <g>:<p>      (what the moduli pack returns)
      sid     : none | <hex>        (transport.session_id before the exchange: none = first exchange)
      hostkey0: none | <hex>        (transport.host_key blob before the exchange: the key of an earlier exchange)
      pkt     : <ptype>:<hex body>:<x>
    Reply: `<effect> … | <ok|ssh|value|type> | <expected types, comma separated or -> | <session_id afterwards> | <host_key afterwards>`
  Request:  conn <hostkey none|name:blob> <server name:blob> <start_client ok 0|1> <pkey><password><gss_auth><gss_kex>
            → Transport.connect after the key exchange: raised | auth:<gssmic|gsskeyex|publickey|password> | none
  Request:  kh <sid hex|none> (<K>:<H hex>)*   → `_set_K_H` sequence: `<K|none> <H|none> <sid|none>`
-/
import PV.Model.Kex
import PV.Model.Connect
import PV.Base.DriverIO
namespace PV.KexIO
open PV PV.Wire PV.Kex

def showNats (l : List Nat) : String := if l.isEmpty then "-" else ",".intercalate (l.map toString)

def showEffect : Effect → String
  | .send b => "send:" ++ toHexTok b
  | .expect ts => "expect:" ++ showNats ts
  | .hashed b => "hash:" ++ toHexTok b
  | .setKH k h => "kh:" ++ toString k ++ ":" ++ toHexTok h
  | .verifyKey hk sg => "verify:" ++ toHexTok hk ++ ":" ++ toHexTok sg
  | .activate => "act"

def showErr : Option Err → String
  | none => "ok" | some .ssh => "ssh" | some .value => "value" | some .type => "type"

def parseEngine (s : String) : Option (Engine × Bool) :=
  match s.splitOn ":" with
  | ["grp", p, g] => match p.toNat?, g.toNat? with
    | some p, some g => some (.grp { P := p, G := g }, false)
    | _, _ => none
  | ["gex"] => some (.gex, false)
  | ["gexold"] => some (.gex, true)
  | ["nist"] => some (.nist toyNist, false)
  | ["c25519"] => some (.c25519 toyX, false)
  | _ => none

def parsePkt (s : String) : Option (Nat × Bytes × Nat) :=
  match s.splitOn ":" with
  | [t, b, x] => match t.toNat?, ofHex? b, x.toNat? with
    | some t, some b, some x => some (t, b, x)
    | _, _, _ => none
  | _ => none

def parseModulus (s : String) : Option (Nat → Nat → Nat → Option (Nat × Nat)) :=
  if s == "none" then some (fun _ _ _ => none)
  else match s.splitOn ":" with
    | [g, p] => match g.toNat?, p.toNat? with
      | some g, some p => some (fun _ _ _ => some (g, p))
      | _, _ => none
    | _ => none

def parseVerify (algo : Bytes) (s : String) : Option (Bytes → Bytes → Bytes → Bool) :=
  if s == "toy" then some (toyVerify algo)
  else if s == "yes" then some (fun _ _ _ => true)
  else if s == "no" then some (fun _ _ _ => false)
  else none

/-- `start_kex(_test_old_style=True)` for the `gexold` engine token -/
def beginSess (c : Env) (en : Engine) (old : Bool) (x : Nat) : Sess :=
  if old then
    let (s, e) := gexStart c {} true
    { st := .gex s, expected := expectedAfter [] e, trace := e, dead := none }
  else Sess.begin c en x

/-- `parse_next` called directly, packet after packet, until one raises -/
def rawFeed (c : Env) (en : Engine) (s : Sess) (pkt : Nat × Bytes × Nat) : Sess :=
  if s.dead.isSome then s
  else
    let r := en.next c s.st pkt.1 pkt.2.1 pkt.2.2
    match r.out with
    | .ok st' => { st := st', expected := expectedAfter s.expected r.eff, trace := s.trace ++ r.eff, dead := none }
    | .error e => { s with trace := s.trace ++ r.eff, dead := some e, expected := expectedAfter s.expected r.eff }

def showSess (s : Sess) : String :=
  " ".intercalate (s.trace.map showEffect) ++ " | " ++ showErr s.dead ++ " | " ++ showNats s.expected

def showOptBytes : Option Bytes → String
  | none => "none" | some b => toHexTok b

def parseKH (s : String) : Option (Nat × Bytes) :=
  match s.splitOn ":" with
  | [k, h] => match k.toNat?, ofHex? h with
    | some k, some h => some (k, h)
    | _, _ => none
  | _ => none

def parseHostKey (s : String) : Option PV.Connect.HostKey :=
  match s.splitOn ":" with
  | [n, b] => match ofHex? n, ofHex? b with
    | some n, some b => some { name := n, blob := b }
    | _, _ => none
  | _ => none

def showConn : PV.Connect.Out → String
  | .raised => "raised"
  | .noAuth => "none"
  | .auth .gssMic => "auth:gssmic"
  | .auth .gssKeyex => "auth:gsskeyex"
  | .auth .publickey => "auth:publickey"
  | .auth .password => "auth:password"

def step (line : String) : String :=
  match words line with
  | ["conn", hk, srv, ok, flags] =>
    let hk? : Option (Option PV.Connect.HostKey) := if hk == "none" then some none else (parseHostKey hk).map some
    match hk?, parseHostKey srv, flags.toList with
    | some hk, some srv, [a, b, c, d] =>
      if ¬ [a, b, c, d].all (fun x => x == '0' || x == '1') || (ok != "0" && ok != "1") then "bad-op"
      else showConn (PV.Connect.connect
        { hostkey := hk, pkey := a == '1', password := b == '1', gssAuth := c == '1', gssKex := d == '1' }
        (ok == "1") srv)
    | _, _, _ => "bad-op"
  | "kex" :: en :: role :: mode :: lv :: rv :: lk :: rk :: hk :: algo :: x :: vf :: md :: sid :: hk0 :: pkts =>
    match parseEngine en, ofHex? lv, ofHex? rv, ofHex? lk, ofHex? rk, ofHex? hk, ofHex? algo with
    | some (eng, old), some lv, some rv, some lk, some rk, some hk, some algo =>
      match x.toNat?, parseVerify algo vf, parseModulus md, pkts.mapM parsePkt with
      | some x, some verify, some modulus, some pkts =>
        let sid0 : Option (Option Bytes) := if sid == "none" then some none else (ofHex? sid).map some
        if role != "c" && role != "s" then "bad-op"
        else if mode != "gate" && mode != "raw" then "bad-op"
        else if sid0.isNone then "bad-op"
        else if hk0 != "none" && (ofHex? hk0).isNone then "bad-op"
        else
          let c : Env := { serverMode := role == "s", localVersion := lv, remoteVersion := rv,
                           localKexInit := lk, remoteKexInit := rk, hostKey := hk, hash := toyHash,
                           sign := toySign algo hk, verify := verify, modulus := modulus }
          let s0 := beginSess c eng old x
          let s := if mode == "gate" then pkts.foldl (Sess.feed c eng) s0 else pkts.foldl (rawFeed c eng) s0
          let t : TSt := ({ sessionId := sid0.getD none } : TSt).apply s.trace
          let prevKey : Option Bytes := if hk0 == "none" then none else ofHex? hk0
          showSess s ++ " | " ++ showOptBytes t.sessionId ++ " | " ++ showOptBytes (publishedKey prevKey s.trace)
      | _, _, _, _ => "bad-op"
    | _, _, _, _, _, _, _ => "bad-op"
  | "kh" :: sid :: khs =>
    let sid0 : Option (Option Bytes) := if sid == "none" then some none else (ofHex? sid).map some
    match sid0, khs.mapM parseKH with
    | some sid0, some khs =>
      let t := khs.foldl (fun (t : TSt) kh => t.setKH kh.1 kh.2) { sessionId := sid0 }
      (match t.K with | none => "none" | some k => toString k) ++ " " ++ showOptBytes t.H ++ " " ++
        showOptBytes t.sessionId
    | _, _ => "bad-op"
  | _ => "bad-op"

end PV.KexIO
