/-
  Helper lemmas for C14 (kept apart from AuthServerLemmas so that C15/C16 do not depend on them):
  every act the decision functions choose grants authentication only on an approving callback.
-/
import PV.Model.AuthServerLemmas
namespace PV.AuthServer
open PV PV.Wire PV.Generated.AuthTables

/-- the callback evaluated a credential and returned AUTH_SUCCESSFUL -/
def Call.approves (c : Call) : Prop := isCredential c.cb = true ∧ c.res = some AUTH_SUCCESSFUL

/-- an act may end in USERAUTH_SUCCESS only if one of the callbacks it names approved -/
def Act.grantOK : Act → Prop
  | .result cbs _ r => r = AUTH_SUCCESSFUL → ∃ c ∈ cbs, c.approves
  | .resultDie _ _ r _ => r ≠ AUTH_SUCCESSFUL
  | _ => True

theorem interAct_grant (cbs : List Call) (c : Cb) (hc : isCredential c = true) (u : Option Bytes) (r : IRes)
    (h : Call.mk c (codeOf r) ∈ cbs) : (interAct cbs u r).grantOK := by
  unfold interAct
  cases r with
  | query q => simp [Act.grantOK]
  | code n =>
    simp only [Act.grantOK]
    intro hn
    exact ⟨_, h, hc, by simp [codeOf, hn]⟩

theorem parseServiceRequest_grant (s : St) (b : Bytes) (e : Env) (s1 : St) (a : Act)
    (h : parseServiceRequest s b e = (s1, a)) : a.grantOK := by
  unfold parseServiceRequest at h
  repeat' (split at h)
  all_goals (obtain ⟨rfl, rfl⟩ := Prod.mk.inj h; simp [Act.grantOK])

theorem authMethod_grant (sc : SigScheme) (sid : Bytes) (s : St) (e : Env) (u sv m : Bytes) (r : Rd)
    (s1 : St) (a : Act) (h : authMethod sc sid s e u sv m r = (s1, a)) : a.grantOK := by
  unfold authMethod at h
  repeat' (split at h)
  all_goals (obtain ⟨rfl, rfl⟩ := Prod.mk.inj h)
  all_goals first
    | exact interAct_grant _ _ rfl _ _ (List.mem_cons_of_mem _ (List.mem_singleton.mpr rfl))
    | (simp only [Act.grantOK]; intro hr
       first
         | exact ⟨_, List.mem_cons_of_mem _ (List.mem_singleton.mpr rfl), rfl, by rw [hr]⟩
         | exact absurd hr (by decide))
    | simp [Act.grantOK, AUTH_FAILED, AUTH_SUCCESSFUL]

theorem parseUserauthRequest_grant (sc : SigScheme) (sid : Bytes) (s : St) (b : Bytes) (e : Env)
    (s1 : St) (a : Act) (h : parseUserauthRequest sc sid s b e = (s1, a)) : a.grantOK := by
  unfold parseUserauthRequest at h
  repeat' (split at h)
  all_goals first
    | exact authMethod_grant _ _ _ _ _ _ _ _ _ _ h
    | (obtain ⟨rfl, rfl⟩ := Prod.mk.inj h; simp [Act.grantOK])

theorem parseInfoResponse_grant (s : St) (b : Bytes) (e : Env) (s1 : St) (a : Act)
    (h : parseInfoResponse s b e = (s1, a)) : a.grantOK := by
  unfold parseInfoResponse at h
  simp only at h
  split at h
  · obtain ⟨rfl, rfl⟩ := Prod.mk.inj h; simp [Act.grantOK]
  · obtain ⟨rfl, rfl⟩ := Prod.mk.inj h
    exact interAct_grant _ _ rfl _ _ (List.mem_singleton.mpr rfl)

theorem gssToken_grant (s : St) (e : Env) (s1 : St) (a : Act) (h : gssToken s e = (s1, a)) : a.grantOK := by
  unfold gssToken at h
  repeat' (split at h)
  all_goals (obtain ⟨rfl, rfl⟩ := Prod.mk.inj h; simp [Act.grantOK, AUTH_FAILED, AUTH_SUCCESSFUL])

theorem gssMic_grant (s : St) (e : Env) (s1 : St) (a : Act) (h : gssMic s e = (s1, a)) : a.grantOK := by
  unfold gssMic at h
  split at h
  · obtain ⟨rfl, rfl⟩ := Prod.mk.inj h; simp [Act.grantOK, AUTH_FAILED, AUTH_SUCCESSFUL]
  · obtain ⟨rfl, rfl⟩ := Prod.mk.inj h
    simp only [Act.grantOK]
    intro hr
    exact ⟨_, List.mem_singleton.mpr rfl, rfl, by rw [hr]⟩

theorem ensureAuthedReply_grant (p : Nat) (b : Bytes) (a : Act) (h : ensureAuthedReply p b = a) : a.grantOK := by
  unfold ensureAuthedReply at h
  repeat' (split at h)
  all_goals (subst h; simp [Act.grantOK])

theorem authDispatch_grant (sc : SigScheme) (sid : Bytes) (s : St) (p : Nat) (b : Bytes) (e : Env)
    (s1 : St) (a : Act) (h : authDispatch sc sid s p b e = (s1, a)) : a.grantOK := by
  unfold authDispatch at h
  repeat' (split at h)
  all_goals first
    | exact parseServiceRequest_grant _ _ _ _ _ h
    | exact parseUserauthRequest_grant _ _ _ _ _ _ _ h
    | exact parseInfoResponse_grant _ _ _ _ _ h
    | exact gssToken_grant _ _ _ _ h
    | exact gssMic_grant _ _ _ _ h
    | (obtain ⟨rfl, rfl⟩ := Prod.mk.inj h; simp [Act.grantOK])

theorem dispatch_grant (sc : SigScheme) (sid : Bytes) (s : St) (p : Nat) (b : Bytes) (e : Env)
    (s1 : St) (a : Act) (h : dispatch sc sid s p b e = (s1, a)) : a.grantOK := by
  unfold dispatch at h
  repeat' (split at h)
  all_goals first
    | exact authDispatch_grant _ _ _ _ _ _ _ _ h
    | (obtain ⟨rfl, rfl⟩ := Prod.mk.inj h; exact ensureAuthedReply_grant _ _ _ rfl)
    | (obtain ⟨rfl, rfl⟩ := Prod.mk.inj h; simp [Act.grantOK])

theorem decideAct_grant (sc : SigScheme) (sid : Bytes) (s : St) (p : Nat) (b : Bytes) (e : Env) :
    (decideAct sc sid s p b e).2.grantOK := by
  have : ∀ s1 a, decideAct sc sid s p b e = (s1, a) → a.grantOK := by
    intro s1 a h
    unfold decideAct at h
    repeat' (split at h)
    all_goals first
      | exact dispatch_grant _ _ _ _ _ _ _ _ h
      | (obtain ⟨rfl, rfl⟩ := Prod.mk.inj h; simp [Act.grantOK])
  exact this _ _ rfl

/-- USERAUTH_SUCCESS leaves `perform` only for an act whose callbacks contain an approval -/
theorem perform_success (s : St) (e : Env) (a : Act) (hp : a.plainOK) (hg : a.grantOK)
    (h : msgSuccess ∈ (perform s e a).2.sent) : ∃ c ∈ (perform s e a).2.cbs, c.approves := by
  cases a with
  | nop => simp [perform] at h
  | reply cb m => simp only [perform] at h; exact absurd h hp.2.1
  | die cb m x => simp only [perform] at h; exact absurd h hp.2
  | disconnect cb m =>
    simp only [perform, List.mem_singleton] at h; exact absurd h.symm hp.2
  | result cb u r =>
    simp only [perform, Out.pre] at h ⊢
    obtain ⟨c, hc, ha⟩ := hg ((sar_success s e u r).mp h)
    exact ⟨c, List.mem_append_left _ hc, ha⟩
  | resultDie cb u r x =>
    simp only [perform, Out.pre] at h
    exact absurd ((sar_success s e u r).mp h) hg
  | rejectTwice cb u =>
    simp only [perform] at h
    split at h
    · simp only [List.mem_append] at h
      rcases h with h | h
      · exact absurd ((sar_success _ e u AUTH_FAILED).mp h) (by decide)
      · exact absurd ((sar_success _ e u AUTH_FAILED).mp h) (by decide)
    · exact absurd ((sar_success _ e u AUTH_FAILED).mp h) (by decide)
  | delegate c => simp [perform] at h

/-- the authentication flag is set only together with USERAUTH_SUCCESS -/
theorem perform_authenticated (s : St) (e : Env) (a : Act) (h0 : s.authenticated = false)
    (h : (perform s e a).1.authenticated = true) : msgSuccess ∈ (perform s e a).2.sent := by
  cases a with
  | nop => simp [perform, h0] at h
  | reply cb m => simp [perform, h0] at h
  | die cb m x => simp [perform, h0] at h
  | disconnect cb m => simp [perform, h0] at h
  | result cb u r =>
    simp only [perform, Out.pre, sar_authenticated, h0, Bool.false_or, decide_eq_true_eq] at h ⊢
    exact (sar_success s e u r).mpr h
  | resultDie cb u r x =>
    simp only [perform, Out.pre, sar_authenticated, h0, Bool.false_or, decide_eq_true_eq] at h ⊢
    exact (sar_success s e u r).mpr h
  | rejectTwice cb u =>
    simp only [perform] at h
    split at h
    · simp [sar_authenticated, h0, AUTH_FAILED, AUTH_SUCCESSFUL] at h
    · simp [sar_authenticated, h0, AUTH_FAILED, AUTH_SUCCESSFUL] at h
  | delegate c => simp [perform, h0] at h

end PV.AuthServer
