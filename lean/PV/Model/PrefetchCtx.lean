/-
  The running read keeps the position it started from and the size it was asked for until it completes:
  with `reads_exact` this is what makes a `readv` block (one `readAt off n` step) come out as file[off : off+n].
-/
import PV.Model.PrefetchInv
namespace PV.Prefetch
open PV

/-- `s'` continues the read `(start, want)`, or has completed it (one more `out` entry for exactly that read), or
    has raised for it -/
def Continues (start : Nat) (want : Option Nat) (s s' : St) : Prop :=
  (∃ c, pcCtx s'.pc = some c ∧ c.start = start ∧ c.want = want ∧ s'.out = s.out ∧ s'.raised = s.raised) ∨
  (s'.pc = .idle ∧ ∃ b, s'.out = s.out ++ [(start, want, b)] ∧ s'.raised = s.raised) ∨
  (s'.pc = .idle ∧ s'.out = s.out ∧ ∃ code, s'.raised = s.raised ++ [(start, code)])

theorem advance_continues : ∀ (fuel : Nat) (s : St) (c : RCtx), Continues c.start c.want s (advance fuel s c) := by
  intro fuel
  induction fuel with
  | zero => intro s c; exact Or.inl ⟨c, rfl, rfl, rfl, rfl, rfl⟩
  | succ fuel ih =>
    intro s c
    unfold advance
    split
    · exact Or.inr (Or.inl ⟨rfl, _, rfl, rfl⟩)
    · split
      · split
        · simp only
          split
          · exact Or.inr (Or.inl ⟨rfl, _, rfl, rfl⟩)
          · exact ih _ _
        · split
          · exact Or.inl ⟨_, rfl, rfl, rfl, rfl, rfl⟩
          · exact Or.inl ⟨_, rfl, rfl, rfl, rfl, rfl⟩
      · exact Or.inl ⟨_, rfl, rfl, rfl, rfl, rfl⟩

theorem afterCheck_continues (s : St) (c : RCtx) : Continues c.start c.want s (afterCheck s c) := by
  unfold afterCheck
  split
  · exact Or.inr (Or.inr ⟨rfl, rfl, _, rfl⟩)
  · exact advance_continues _ _ _

theorem continues_frame {start : Nat} {want : Option Nat} {s0 s s' : St} (ho : s.out = s0.out) (hr : s.raised = s0.raised)
    (h : Continues start want s s') : Continues start want s0 s' := by
  unfold Continues at *
  rw [ho, hr] at h
  exact h

theorem asyncResponse_outframe {s s1 : St} {n : Nat} {r : Resp} (h : asyncResponse s n r = some s1) :
    s1.out = s.out ∧ s1.raised = s.raised := by
  unfold asyncResponse at h
  split at h
  · cases h
  · split at h <;> (cases h; exact ⟨rfl, rfl⟩)

/-- one step of the reader in the middle of a read -/
theorem rStep_continues {s s' : St} {c : RCtx} (hc : pcCtx s.pc = some c) (h : step s .rStep = some s') :
    Continues c.start c.want s s' := by
  simp only [step] at h
  cases hpc : s.pc with
  | idle => rw [hpc] at hc; cases hc
  | cont c0 =>
    rw [hpc] at hc; simp only [pcCtx, Option.some.injEq] at hc; subst hc
    simp only [hpc] at h; cases h
    exact advance_continues _ _ _
  | recvPf c0 =>
    rw [hpc] at hc; simp only [pcCtx, Option.some.injEq] at hc; subst hc
    simp only [hpc] at h
    cases hq : s.s2c with
    | nil => simp [hq] at h
    | cons e rest =>
      simp only [hq] at h
      split at h
      · cases h; exact Or.inl ⟨_, rfl, rfl, rfl, rfl, rfl⟩
      · cases h
        exact continues_frame (s := { s with s2c := rest }) rfl rfl (afterCheck_continues _ _)
  | dispPf c0 num r =>
    rw [hpc] at hc; simp only [pcCtx, Option.some.injEq] at hc; subst hc
    simp only [hpc] at h
    cases ha : asyncResponse s num r with
    | none => simp [ha] at h
    | some s1 =>
      simp only [ha] at h; cases h
      obtain ⟨f1, f2⟩ := asyncResponse_outframe ha
      exact continues_frame f1 f2 (afterCheck_continues _ _)
  | allocSync c0 =>
    rw [hpc] at hc; simp only [pcCtx, Option.some.injEq] at hc; subst hc
    simp only [hpc] at h; cases h
    exact Or.inl ⟨_, rfl, rfl, rfl, rfl, rfl⟩
  | sendSync c0 n =>
    rw [hpc] at hc; simp only [pcCtx, Option.some.injEq] at hc; subst hc
    simp only [hpc] at h; cases h
    exact Or.inl ⟨_, rfl, rfl, rfl, rfl, rfl⟩
  | recvSync c0 num =>
    rw [hpc] at hc; simp only [pcCtx, Option.some.injEq] at hc; subst hc
    simp only [hpc] at h
    cases hq : s.s2c with
    | nil => simp [hq] at h
    | cons e rest =>
      obtain ⟨n', r⟩ := e
      simp only [hq] at h
      by_cases hn : n' = num
      · simp only [hn, if_true] at h
        cases r with
        | data d =>
          simp only at h
          split at h
          · cases h; exact Or.inr (Or.inl ⟨rfl, _, rfl, rfl⟩)
          · cases h
            exact continues_frame (s := { s with s2c := rest, realpos := s.realpos + d.length }) rfl rfl
              (advance_continues _ _ { c0 with acc := c0.acc ++ d })
        | eof => simp only at h; cases h; exact Or.inr (Or.inl ⟨rfl, _, rfl, rfl⟩)
        | err code => simp only at h; cases h; exact Or.inr (Or.inr ⟨rfl, rfl, _, rfl⟩)
      · simp only [hn, if_false] at h
        split at h
        · cases h; exact Or.inl ⟨_, rfl, rfl, rfl, rfl, rfl⟩
        · cases h; exact Or.inl ⟨c0, by simp [pcCtx, hpc], rfl, rfl, rfl, rfl⟩
  | dispSync c0 num n' r =>
    rw [hpc] at hc; simp only [pcCtx, Option.some.injEq] at hc; subst hc
    simp only [hpc] at h
    cases ha : asyncResponse s n' r with
    | none => simp [ha] at h
    | some s1 =>
      simp only [ha] at h; cases h
      obtain ⟨f1, f2⟩ := asyncResponse_outframe ha
      exact Or.inl ⟨_, rfl, rfl, rfl, f1, f2⟩

end PV.Prefetch
