/-
  PV.Model.ListdirIter — the read-ahead rounds of SFTPClient.listdir_iter (paramiko/sftp_client.py): every round
  sends `readAheads` READDIR requests and then reads one response for every id in `nums`; the server answers every
  request exactly once (up to `perReply` entries per answer, STATUS EOF once the listing is exhausted).
  `resetEachRound` = `nums` is re-initialised inside the round loop (read from the AST; true in the source).
  Counted in packets; executable; Mathlib-free.
-/
namespace PV.ListdirIter

structure Cfg where
  readAheads : Nat
  perReply : Nat
  resetEachRound : Bool
  deriving Repr, DecidableEq

inductive Res where
  | done (yielded : Nat)
  | hang (yielded : Nat)
  | fuel
  deriving Repr, DecidableEq

/-- the answers to `k` consecutive READDIRs when `rem` entries are left: (entries delivered before an EOF or the end
    of the batch, whether an EOF status was among the answers read so far) -/
def batch (per : Nat) (rem : Nat) : Nat → Nat × Bool
  | 0 => (0, false)
  | k+1 =>
    if rem = 0 then (0, true)
    else
      let t := min per rem
      let r := batch per (rem - t) k
      (t + r.1, r.2)

/-- one round after another; `numsLen` = how many ids the list `nums` holds when the round starts -/
def run (cfg : Cfg) : Nat → Nat → Nat → Nat → Res
  | 0, _, _, _ => .fuel
  | fuel+1, rem, yielded, numsLen =>
    let awaited := (if cfg.resetEachRound then 0 else numsLen) + cfg.readAheads
    -- every earlier answer has been read: only this round's `readAheads` requests are outstanding
    if awaited > cfg.readAheads then
      -- the client first reads this round's answers (for stale ids), then waits for ever
      .hang (yielded + (batch cfg.perReply rem cfg.readAheads).1)
    else
      let r := batch cfg.perReply rem cfg.readAheads
      if r.2 then .done (yielded + r.1) else run cfg fuel (rem - r.1) (yielded + r.1) awaited

def listdirIter (cfg : Cfg) (entries fuel : Nat) : Res := run cfg fuel entries 0 0

theorem batch_le (per rem : Nat) : ∀ k, (batch per rem k).1 ≤ rem := by
  intro k
  induction k generalizing rem with
  | zero => simp [batch]
  | succ k ih =>
    unfold batch
    split
    · simp
    · simp only
      have := ih (rem - min per rem)
      omega

theorem batch_eof (per rem : Nat) : ∀ k, (batch per rem k).2 = true → (batch per rem k).1 = rem := by
  intro k
  induction k generalizing rem with
  | zero => simp [batch]
  | succ k ih =>
    unfold batch
    split
    · rename_i h; intro _; simp [h]
    · simp only
      intro he
      have := ih (rem - min per rem) he
      omega

theorem batch_progress (per rem : Nat) (hp : 0 < per) : ∀ k, 0 < k → (batch per rem k).2 = false → 0 < (batch per rem k).1 := by
  intro k hk
  cases k with
  | zero => omega
  | succ k =>
    unfold batch
    split
    · intro h; simp at h
    · simp only
      intro _
      omega

/-- with the batch list reset every round, the iteration ends and yields every entry exactly once -/
theorem run_complete (cfg : Cfg) (hr : cfg.resetEachRound = true) (hk : 0 < cfg.readAheads) (hp : 0 < cfg.perReply) :
    ∀ (fuel rem yielded numsLen : Nat), rem < fuel → run cfg fuel rem yielded numsLen = .done (yielded + rem) := by
  intro fuel
  induction fuel with
  | zero => intro rem yielded numsLen h; omega
  | succ fuel ih =>
    intro rem yielded numsLen hlt
    unfold run
    simp only [hr, if_true, Nat.zero_add, Nat.lt_irrefl, if_false]
    by_cases he : (batch cfg.perReply rem cfg.readAheads).2 = true
    · simp only [he, if_true]
      rw [batch_eof _ _ _ he]
    · have he' : (batch cfg.perReply rem cfg.readAheads).2 = false := by simpa using he
      simp only [he', Bool.false_eq_true, if_false]
      have hpos := batch_progress cfg.perReply rem hp cfg.readAheads hk he'
      have hle := batch_le cfg.perReply rem cfg.readAheads
      rw [ih (rem - (batch cfg.perReply rem cfg.readAheads).1) _ _ (by omega)]
      congr 1
      omega

end PV.ListdirIter
