/-
  PV.Model.CheckFile — executable model of `SFTPServer._check_file` (paramiko/sftp_server.py), the server
  side of the "check-file" extension, as repaired (see known_findings.json, C32):

      if length == 0: length = st.st_size - start
      if block_size == 0: block_size = length
      if block_size < 256: FAILURE "Block size too small"
      offset = start
      while offset < start + length:
          blocklen = min(block_size, start + length - offset)
          count = 0; hash_obj = alg()
          while count < blocklen:
              data = f.read(offset, min(blocklen - count, 65536))
              if len(data) == 0: break                      # EOF: the range ends here
              hash_obj.update(data); count += len(data); offset += len(data)
          if count == 0: break
          sum_out += hash_obj.digest()
          if count < blocklen: break

  The hash is a parameter (`HashAlg`: streaming init/update/digest).  The file handle is a parameter too:
  `SFTPHandle.read(offset, n)` returns the bytes at `offset`, at most `n`, possibly fewer (`short`).
  Both Python loops are fuel-indexed; `none` = "ran out of fuel" (PV/Props/C32.lean proves it never happens).
  Mathlib-free.
-/
import PV.Base.Bytes
namespace PV.CheckFile
open PV

/-- a streaming hash (`hashlib` object): `alg()`, `.update(data)`, `.digest()` -/
structure HashAlg where
  σ : Type
  init : σ
  update : σ → Bytes → σ
  digest : σ → Bytes

/-- the handle's file: contents, a read policy (`short off n` = how many bytes a `read(off, n)` call is
willing to return; a plain file returns all `n`), and the failure behaviour of the handle:
`readErr off n = some code` when `read(off, n)` returns the SFTP error code `code` instead of bytes,
`statErr = some code` when `stat()` returns an error code -/
structure Env where
  content : Bytes
  short : Nat → Nat → Nat
  readErr : Nat → Nat → Option Nat := fun _ _ => none
  statErr : Option Nat := none

/-- `SFTPHandle.read(offset, n)` when it succeeds -/
def Env.read (e : Env) (off n : Nat) : Bytes := (e.content.drop off).take (min n (e.short off n))

/-- the server's read chunk: "don't try to read more than about 64KB at a time" -/
def CHUNK : Nat := 65536

/-- the `while count < blocklen` loop: (count, offset, hash state) at exit, or the error code a read returned -/
def inner (A : HashAlg) (e : Env) (blocklen : Nat) :
    Nat → Nat → Nat → A.σ → Option (Except Nat (Nat × Nat × A.σ))
  | 0, _, _, _ => none
  | fuel + 1, count, offset, h =>
    if count < blocklen then
      match e.readErr offset (min (blocklen - count) CHUNK) with
      | some code => some (.error code)
      | none =>
        let data := e.read offset (min (blocklen - count) CHUNK)
        if data = [] then some (.ok (count, offset, h))
        else inner A e blocklen fuel (count + data.length) (offset + data.length) (A.update h data)
    else some (.ok (count, offset, h))

/-- the `while offset < start + length` loop: `sum_out` at exit, or the error code of a failed read -/
def outer (A : HashAlg) (e : Env) (endpos bs : Nat) : Nat → Nat → Bytes → Option (Except Nat Bytes)
  | 0, _, _ => none
  | fuel + 1, offset, out =>
    if offset < endpos then
      let blocklen := min bs (endpos - offset)
      match inner A e blocklen (blocklen + 1) 0 offset A.init with
      | none => none
      | some (.error code) => some (.error code)
      | some (.ok (count, offset', h)) =>
        if count = 0 then some (.ok out)
        else
          let out' := out ++ A.digest h
          if count < blocklen then some (.ok out') else outer A e endpos bs fuel offset' out'
    else some (.ok out)

inductive Reply
  | hashes (b : Bytes)      -- CMD_EXTENDED_REPLY "check-file" <alg> <hashes>
  | tooSmall                -- STATUS FAILURE "Block size too small"
  | statFail (code : Nat)   -- STATUS <code> "Unable to stat file"
  | readFail (code : Nat)   -- STATUS <code> "Unable to hash file"
  | badHandle               -- STATUS BAD_MESSAGE "Invalid handle"
  | noAlg                   -- STATUS FAILURE "No supported hash types found"
  | noFuel                  -- (model only) a loop did not finish within its bound
  deriving Repr, DecidableEq

/-- effective `length` / `block_size` after the two defaults (Python ints: may be negative) -/
def effLength (size start length : Nat) : Int := if length = 0 then (size : Int) - start else length
def effBlock (size start length bs : Nat) : Int := if bs = 0 then effLength size start length else bs

/-- `_check_file` after handle and algorithm were resolved -/
def checkFile (A : HashAlg) (e : Env) (start length bs : Nat) : Reply :=
  match (if length = 0 then e.statErr else none) with
  | some code => .statFail code
  | none =>
    let len := effLength e.content.length start length
    let b := effBlock e.content.length start length bs
    if b < 256 then .tooSmall
    else
      match outer A e (start + len.toNat) b.toNat (len.toNat + 1) start [] with
      | some (.ok out) => .hashes out
      | some (.error code) => .readFail code
      | none => .noFuel

/-- `for x in alg_list: if x in _hash_class: … break` -/
def selectAlg (known : List Bytes) : List Bytes → Option Bytes
  | [] => none
  | x :: r => if x ∈ known then some x else selectAlg known r

/-- the whole of `_check_file`: handle lookup (`none` = not in `file_table`), algorithm choice, then the above;
returns the reply and the algorithm name that goes into it -/
def request (A : HashAlg) (handle : Option Env) (known algs : List Bytes) (start length bs : Nat) :
    Reply × Bytes :=
  match handle with
  | none => (.badHandle, [])
  | some e =>
    match selectAlg known algs with
    | none => (.noAlg, [])
    | some a => (checkFile A e start length bs, a)

/-! ## specification: the hash of each consecutive block of the requested range -/

/-- consecutive blocks of `bs` bytes (the last one may be shorter); fuel-indexed, see `blocksOf` -/
def chunks (bs : Nat) : Nat → Bytes → List Bytes
  | 0, _ => []
  | f + 1, d => if d = [] then [] else d.take bs :: chunks bs f (d.drop bs)

def blocksOf (bs : Nat) (d : Bytes) : List Bytes := chunks bs d.length d

/-- the requested range clipped at end of file -/
def range (content : Bytes) (start : Nat) (len : Int) : Bytes := (content.drop start).take len.toNat

/-- what check-file must answer, for a hash function `H` -/
def spec (H : Bytes → Bytes) (content : Bytes) (start length bs : Nat) : Reply :=
  let len := effLength content.length start length
  let b := effBlock content.length start length bs
  if b < 256 then .tooSmall
  else .hashes ((blocksOf b.toNat (range content start len)).flatMap H)

/-! ## toy hash for the executable driver (state = the absorbed bytes) -/

def toyH (d : Bytes) : Bytes :=
  be32 d.length ++ be32 ((d.map UInt8.toNat).foldl Nat.add 0)

def toyAlg : HashAlg := { σ := Bytes, init := [], update := fun h d => h ++ d, digest := toyH }

end PV.CheckFile
