/-
  PV.Model.RekeyLock — a re-exchange with `Channel.lock` as a resource: one user thread executing a channel API
  call that ends in `Transport._send_user_message` (send / shutdown / close / request …, paramiko/channel.py) and
  the transport thread working through its inbound queue (channel handlers, some of which take `Channel.lock`,
  and the peer's kex packets).  `underLock` says whether the API call hands its message to `_send_user_message`
  while still holding `Channel.lock` (read from the AST of channel.py: PV/Generated/C11.lean).
  Threads interleave arbitrarily (`step s tid`); a disabled thread stutters.  Mathlib-free, executable.
-/
namespace PV.RekeyLock

/-- what the transport thread finds next on its socket -/
inductive TMsg
  | handler (takesLock : Bool)     -- a channel message; its handler takes Channel.lock (WINDOW_ADJUST, EOF, CLOSE…) or not
  | peerKexinit | kexReply | peerNewkeys
  deriving Repr, DecidableEq, Inhabited

inductive Phase | sentKexinit | kexRunning | sentNewkeys | done
  deriving Repr, DecidableEq, Inhabited

/-- user thread: take the lock, build the message (window bookkeeping, eof_sent …), hand it to
`_send_user_message` — after releasing the lock, or (underLock) while holding it -/
inductive UPc | start | crit | waitFree | waitHolding | done
  deriving Repr, DecidableEq, Inhabited

inductive Tid | user | transport
  deriving Repr, DecidableEq, Inhabited

structure St where
  underLock : Bool
  userType : Nat := 96             -- type of the user thread's message (EOF 96, DATA 94, CLOSE 97 …)
  upc : UPc := .start
  lockUser : Bool := false         -- Channel.lock is held by the user thread
  cts : Bool := false              -- clear_to_send
  phase : Phase := .sentKexinit
  inbox : List TMsg := []
  wire : List Nat := [20]
  deriving Repr, DecidableEq, Inhabited

def stepUser (s : St) : St :=
  match s.upc with
  | .start => { s with upc := .crit, lockUser := true }        -- the transport's handlers are atomic: lock is free
  | .crit =>
    if s.underLock then
      if s.cts then { s with upc := .done, lockUser := false, wire := s.wire ++ [s.userType] }
      else { s with upc := .waitHolding }
    else
      -- release, then `_send_user_message`
      if s.cts then { s with upc := .done, lockUser := false, wire := s.wire ++ [s.userType] }
      else { s with upc := .waitFree, lockUser := false }
  | .waitFree => if s.cts then { s with upc := .done, wire := s.wire ++ [s.userType] } else s
  | .waitHolding =>
    if s.cts then { s with upc := .done, lockUser := false, wire := s.wire ++ [s.userType] } else s
  | .done => s

def stepTransport (s : St) : St :=
  match s.inbox with
  | [] => s
  | .handler takesLock :: rest =>
    if takesLock ∧ s.lockUser then s            -- blocked in `self.lock.acquire()`
    else { s with inbox := rest }
  | .peerKexinit :: rest =>
    if s.phase = .sentKexinit then { s with inbox := rest, phase := .kexRunning, wire := s.wire ++ [30] }
    else { s with inbox := rest }
  | .kexReply :: rest =>
    if s.phase = .kexRunning then { s with inbox := rest, phase := .sentNewkeys, wire := s.wire ++ [21] }
    else { s with inbox := rest }
  | .peerNewkeys :: rest =>
    if s.phase = .sentNewkeys then { s with inbox := rest, phase := .done, cts := true }
    else { s with inbox := rest }

def step (s : St) : Tid → St
  | .user => stepUser s
  | .transport => stepTransport s

def run (s : St) (sched : List Tid) : St := sched.foldl step s

def finished (s : St) : Prop := s.upc = .done ∧ s.inbox = []

instance (s : St) : Decidable (finished s) := by unfold finished; infer_instance

def isKex : TMsg → Bool
  | .handler _ => false
  | _ => true

/-- the kex packets still to come, given how far the exchange is -/
def remaining : Phase → List TMsg
  | .sentKexinit => [.peerKexinit, .kexReply, .peerNewkeys]
  | .kexRunning => [.kexReply, .peerNewkeys]
  | .sentNewkeys => [.peerNewkeys]
  | .done => []

def rank : UPc → Nat
  | .start => 3 | .crit => 2 | .waitFree => 1 | .waitHolding => 1 | .done => 0

/-- bound on the number of effective steps still possible -/
def measure (s : St) : Nat := s.inbox.length + rank s.upc

end PV.RekeyLock
