/-
  Helper lemmas for PV.Model.PubKey.
-/
import PV.Model.PubKey
import PV.Model.SigLemmas
namespace PV.PubKey
open PV PV.Wire PV.KeyUtf8 PV.Sig

theorem natBytes_length_le (n k : Nat) (h : n < 256 ^ k) : (natBytes n).length ≤ k := by
  induction k generalizing n with
  | zero =>
    have : n = 0 := by simpa using h
    subst this; simp [natBytes_zero]
  | succ k ih =>
    by_cases hn : n = 0
    · subst hn; simp [natBytes_zero]
    · rw [natBytes_pos n hn]
      have : n / 256 < 256 ^ k := by
        rw [Nat.pow_succ] at h; omega
      have := ih _ this
      simp; omega

/-- `deflate_long` of a non-negative integer below `256^k` has at most `k + 1` bytes -/
theorem deflate_length_nat (n k : Nat) (h : n < 256 ^ k) : (deflate (n : Int)).length ≤ k + 1 := by
  unfold deflate
  simp only [Int.natCast_nonneg, if_true, Int.toNat_natCast]
  unfold deflatePos
  split
  · simp
  · have hl := natBytes_length_le n k h
    cases hq : natBytes n with
    | nil => simp [signPad]
    | cons b r =>
      rw [hq] at hl
      simp only [signPad]
      split <;> simp at hl ⊢ <;> omega

theorem deflate_length_int (z : Int) (k : Nat) (h0 : 0 ≤ z) (h : z.toNat < 256 ^ k) :
    (deflate z).length ≤ k + 1 := by
  have := deflate_length_nat z.toNat k h
  rwa [Int.toNat_of_nonneg h0] at this

theorem beVal_zeros_append (k : Nat) (b : Bytes) : beVal (zeros k ++ b) = beVal b := by
  induction k with
  | zero => simp [zeros]
  | succ k ih =>
    have : zeros (k + 1) ++ b = (0 : UInt8) :: (zeros k ++ b) := by simp [zeros, List.replicate_succ]
    rw [this, beVal_cons, ih]; simp

theorem padCoord_val (w x : Nat) : beVal (padCoord w x) = x := by
  unfold padCoord
  simp only
  rw [beVal_zeros_append]
  split
  · next h => subst h; simp [beVal]
  · exact beVal_natBytes x

theorem padCoord_length (w x : Nat) (hw : 0 < w) (h : x < 256 ^ w) : (padCoord w x).length = w := by
  unfold padCoord
  simp only
  split
  · simp [zeros]; omega
  · have := natBytes_length_le x w h
    simp [zeros]; omega

/-- reading the n-th string of a message whose earlier part is `pre` -/
theorem getString_at (pre s rest : Bytes) (h : s.length < 4294967296) :
    Rd.getString { content := pre ++ encStr s ++ rest, pos := pre.length }
      = (s, { content := pre ++ encStr s ++ rest, pos := (pre ++ encStr s).length }) := by
  rw [getString_exact pre s rest h]; simp

theorem getTextE_head (s rest : Bytes) (h : s.length < 4294967296) (hv : utf8Valid s = true) :
    getTextE { content := encStr s ++ rest, pos := 0 }
      = .ok (s, { content := encStr s ++ rest, pos := (encStr s).length }) := by
  unfold getTextE
  rw [getText_head s rest h hv]

theorem getTextE_at (pre s rest : Bytes) (h : s.length < 4294967296) (hv : utf8Valid s = true) :
    getTextE { content := pre ++ encStr s ++ rest, pos := pre.length }
      = .ok (s, { content := pre ++ encStr s ++ rest, pos := (pre ++ encStr s).length }) := by
  unfold getTextE getText
  rw [getString_at pre s rest h]
  simp [hv]

theorem encMpint_eq (z : Int) : encMpint z = encStr (if z = 0 then [] else deflate z) := rfl

end PV.PubKey
