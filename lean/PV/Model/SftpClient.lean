/-
  PV.Model.SftpClient — request/response bookkeeping of the SFTP client for write traffic
  (paramiko/sftp_client.py: _request/_async_request/_read_response/_finish_responses/_convert_status;
   paramiko/sftp_file.py: _write, _async_response (write answers), _check_exception, _close, set_pipelined),
  a FIFO server that answers every request exactly once (write faults chosen by a plan), and the bulk-transfer
  loop of putfo on top.  Sequential client (one application thread); the server may run at any time
  (`Op.serve k`), its answers may overtake each other (`Op.deliver k`: responses are matched by id), and it is
  forced to run when the client waits on an empty queue.

  Mirrors the code *after* the C29/C30 client fix: pipelined writes are registered under their file object,
  their statuses are collected by `_async_response`, and `close()` drains, checks and re-raises.
  Mathlib-free, executable.
-/
import PV.Base.Bytes
namespace PV.SftpClient
open PV

inductive Kind where
  | write (f off : Nat) (data : Bytes)
  | sync
  | close (f : Nat)
  deriving Repr, DecidableEq

/-- one request on the wire, in send order; `resp` is filled in when the server has answered it
    (status code; 0 = success or a non-status answer) -/
structure Slot where
  num : Nat
  owner : Option Nat
  kind : Kind
  resp : Option Nat
  deriving Repr, DecidableEq

structure FileSt where
  pipelined : Bool
  reqs : List Nat
  saved : Option Nat
  pos : Nat
  closed : Bool
  deriving Repr, DecidableEq

structure St where
  maxReq : Nat
  nextNum : Nat
  expecting : List (Nat × Option Nat)
  wire : List Slot
  files : List FileSt
  dest : List Bytes
  nw : Nat
  ns : Nat
  wfaults : List Nat
  sfaults : List Nat
  badSince : List Nat
  rejTot : List Nat
  deriving Repr

/-- outcome of a client call -/
inductive Res where
  | ok
  | raised (code : Nat)
  | hang
  deriving Repr, DecidableEq

inductive Op where
  | write (f : Nat) (data : Bytes)
  | sync
  | close (f : Nat)
  | setPipelined (f : Nat) (b : Bool)
  | serve (k : Nat)
  | deliver (k : Nat)
  deriving Repr, DecidableEq

def newFile : FileSt := { pipelined := false, reqs := [], saved := none, pos := 0, closed := false }

def init (maxReq nfiles : Nat) (wfaults sfaults : List Nat) : St :=
  { maxReq, nextNum := 0, expecting := [], wire := [], files := List.replicate nfiles newFile,
    dest := List.replicate nfiles [], nw := 0, ns := 0, wfaults, sfaults, badSince := List.replicate nfiles 0,
    rejTot := List.replicate nfiles 0 }

/-! ## server -/

/-- Python-style positional write: zero-fill a gap, overwrite, extend -/
def writeAt (content : Bytes) (off : Nat) (data : Bytes) : Bytes :=
  (content ++ zeros (off - content.length)).take off ++ data ++ content.drop (off + data.length)

def bump (l : List Nat) (i : Nat) : List Nat := l.modify i (· + 1)

def bumpIf (b : Bool) (l : List Nat) (i : Nat) : List Nat := if b then bump l i else l

/-- the server's answer to one request: the answered slot and the new server-side state (wire untouched) -/
def serveSlot (s : St) (sl : Slot) : Slot × St :=
  match sl.kind with
  | .write f off data =>
    if s.wfaults.getD s.nw 0 = 0 then
      ({ sl with resp := some 0 }, { s with nw := s.nw + 1, dest := s.dest.modify f (fun c => writeAt c off data) })
    else
      ({ sl with resp := some (s.wfaults.getD s.nw 0) },
       { s with nw := s.nw + 1, rejTot := bump s.rejTot f, badSince := bumpIf sl.owner.isSome s.badSince f })
  | .sync => ({ sl with resp := some (s.sfaults.getD s.ns 0) }, { s with ns := s.ns + 1 })
  | .close _ => ({ sl with resp := some 0 }, s)

/-- answer the first unanswered request of `wire` (FIFO); returns none when there is none -/
def serveWire (s : St) : List Slot → Option (List Slot × St)
  | [] => none
  | sl :: rest =>
    match sl.resp with
    | some _ =>
      match serveWire s rest with
      | none => none
      | some (rest', s') => some (sl :: rest', s')
    | none => some ((serveSlot s sl).1 :: rest, (serveSlot s sl).2)

def serveOne (s : St) : Option St :=
  match serveWire s s.wire with
  | none => none
  | some (w, s') => some { s' with wire := w }

def serveMany : Nat → St → St
  | 0, s => s
  | k+1, s => match serveOne s with
    | none => s
    | some s' => serveMany k s'

/-! ## client internals -/

def setFile (s : St) (f : Nat) (g : FileSt → FileSt) : St := { s with files := s.files.modify f g }

def getFile (s : St) (f : Nat) : FileSt := s.files.getD f newFile

def expOwner (s : St) (num : Nat) : Option (Option Nat) := (s.expecting.find? (fun e => e.1 == num)).map (·.2)

def expDel (s : St) (num : Nat) : St := { s with expecting := s.expecting.filter (fun e => e.1 != num) }

/-- `_async_request`: allocate, register, send -/
def asyncRequest (s : St) (owner : Option Nat) (kind : Kind) : St × Nat :=
  ({ s with nextNum := s.nextNum + 1, expecting := s.expecting ++ [(s.nextNum, owner)],
            wire := s.wire ++ [⟨s.nextNum, owner, kind, none⟩] }, s.nextNum)

/-- `SFTPFile._async_response` for the answer to a pipelined write (and, for a file without that request
    number in `_reqs`, the prefetch branch, which only matters for the saved exception here) -/
def asyncResponse (s : St) (f num code : Nat) : St :=
  setFile s f (fun fs =>
    { fs with reqs := fs.reqs.filter (· != num), saved := if code = 0 then fs.saved else some code })

/-- next response off the wire; the server is forced to run if the head request is unanswered;
    `none` = nothing in flight: the caller would wait for ever -/
def recvOne (s : St) : Option (Slot × Nat × St) :=
  match s.wire with
  | [] => none
  | sl :: rest =>
    match sl.resp with
    | some c => some (sl, c, { s with wire := rest })
    | none =>
      let r := serveSlot s sl
      some (r.1, r.1.resp.getD 0, { r.2 with wire := rest })

/-- `_read_response(waitfor)`; result: (state, outcome, code of the awaited answer) -/
def readResponse : Nat → St → Option Nat → St × Res
  | 0, s, _ => (s, .hang)
  | fuel+1, s, waitfor =>
    match recvOne s with
    | none => (s, .hang)
    | some (sl, code, s1) =>
      match expOwner s1 sl.num with
      | none =>
        -- "Unexpected response"
        match waitfor with
        | none => (s1, .ok)
        | some _ => readResponse fuel s1 waitfor
      | some owner =>
        let s2 := expDel s1 sl.num
        if waitfor = some sl.num then
          (s2, if code = 0 then .ok else .raised code)
        else
          let s3 := match owner with
            | some f => asyncResponse s2 f sl.num code
            | none => s2
          match waitfor with
          | none => (s3, .ok)
          | some _ => readResponse fuel s3 waitfor

def fuelOf (s : St) : Nat := s.wire.length + 1

/-- `_request` -/
def request (s : St) (kind : Kind) : St × Res :=
  let (s1, num) := asyncRequest s none kind
  readResponse (fuelOf s1) s1 (some num)

/-- `_check_exception` -/
def checkException (s : St) (f : Nat) : St × Res :=
  match (getFile s f).saved with
  | none => (s, .ok)
  | some c => (setFile s f (fun fs => { fs with saved := none }), .raised c)

def expectsFile (s : St) (f : Nat) : Bool := s.expecting.any (fun e => e.2 == some f)

/-- `_finish_responses(fileobj)` -/
def finishResponses : Nat → St → Nat → St × Res
  | 0, s, _ => (s, .hang)
  | fuel+1, s, f =>
    if expectsFile s f then
      match readResponse 1 s none with
      | (s1, .ok) =>
        match checkException s1 f with
        | (s2, .ok) => finishResponses fuel s2 f
        | r => r
      | r => r
    else (s, .ok)

/-- `sock.recv_ready()`: an answer is waiting to be read -/
def headReady (s : St) : Bool :=
  match s.wire with
  | sl :: _ => sl.resp.isSome
  | [] => false

/-- one `SFTPFile._write` call (data already cut to ≤ MAX_REQUEST_SIZE) -/
def writeChunk (s : St) (f : Nat) (chunk : Bytes) : St × Res :=
  let fs := getFile s f
  if !fs.pipelined then
    request s (.write f fs.pos chunk)
  else
    let (s1, num) := asyncRequest s (some f) (.write f fs.pos chunk)
    let s2 := setFile s1 f (fun x => { x with reqs := x.reqs ++ [num] })
    if (getFile s2 f).reqs.length > 100 && headReady s2 then finishResponses (fuelOf s2) s2 f else (s2, .ok)

/-- `BufferedFile._write_all` over `_write` (unbuffered file) -/
def writeAll : Nat → St → Nat → Bytes → St × Res
  | 0, s, _, _ => (s, .ok)
  | fuel+1, s, f, data =>
    if data.isEmpty then (s, .ok) else
      let n := min data.length s.maxReq
      match writeChunk s f (data.take n) with
      | (s1, .ok) =>
        let s2 := setFile s1 f (fun x => { x with pos := x.pos + n })
        writeAll fuel s2 f (data.drop n)
      | r => r

def resetBad (s : St) (f : Nat) (r : Res) : St :=
  match r with
  | .raised _ => { s with badSince := s.badSince.modify f (fun _ => 0) }
  | _ => s

/-- drain, then check: the common tail of `close()` and `set_pipelined(False)` -/
def drainCheck (s : St) (f : Nat) : St × Res :=
  match finishResponses (fuelOf s) s f with
  | (a, .ok) => checkException a f
  | r => r

/-- `SFTPFile.close()` -/
def closeFile (s : St) (f : Nat) : St × Res :=
  let fs := getFile s f
  if fs.closed then (s, .ok) else
    let s0 := setFile s f (fun x => { x with closed := true })
    let (s1, pending) :=
      if fs.pipelined || fs.reqs.length > 0 then
        match finishResponses (fuelOf s0) s0 f with
        | (a, .ok) => checkException a f
        | r => r
      else checkException s0 f
    match pending with
    | .hang => (s1, .hang)
    | _ =>
      -- CMD_CLOSE; its own error status is swallowed (`except (IOError, socket.error): pass`)
      match request s1 (.close f) with
      | (s2, .hang) => (s2, .hang)
      | (s2, _) => (s2, pending)

/-- responses are matched by id, so the server (or the network) may hand an already answered request's response
    over before older ones: the `k`-th entry of the wire, if it has been answered, moves to the front -/
def deliverFirst (w : List Slot) (k : Nat) : List Slot :=
  match w[k]? with
  | some sl => if sl.resp.isSome then sl :: (w.take k ++ w.drop (k + 1)) else w
  | none => w

def stepOp (s : St) : Op → St × Res
  | .write f data =>
    let fs := getFile s f
    if fs.closed then (s, .raised 1000) else
      let (s1, r) := writeAll (data.length + 1) s f data
      (resetBad s1 f r, r)
  | .sync => request s .sync
  | .close f =>
    let (s1, r) := closeFile s f
    (resetBad s1 f r, r)
  | .setPipelined f b =>
    let was := (getFile s f).pipelined
    let s0 := setFile s f (fun x => { x with pipelined := b })
    if was && !b then (resetBad (drainCheck s0 f).1 f (drainCheck s0 f).2, (drainCheck s0 f).2)
    else (s0, .ok)
  | .serve k => (serveMany k s, .ok)
  | .deliver k => ({ s with wire := deliverFirst s.wire k }, .ok)

def runOps (s : St) : List Op → St × List Res
  | [] => (s, [])
  | op :: ops =>
    let (s1, r) := stepOp s op
    let (s2, rs) := runOps s1 ops
    (s2, r :: rs)

end PV.SftpClient
