/-
  PV.Model.PipeAtomic — Part 2 of the `Channel.fileno()` model: the operations of buffered_pipe.py / channel.py with
  every pipe.py call (`OrPipe.set/clear`, `PosixPipe.set_forever`) executed *atomically*, which is what the locks
  of the fixed pipe.py provide.  The effect of a call is not re-modelled: it is `Pipe.callAtomic fixedCode`, i.e.
  the statement-level interpreter of `PV.Model.Pipe` run to completion on the instruction lists (which are proved
  equal to the ones generated from pipe.py).

  Atomic regions (the code's own): every BufferedPipe method holds that buffer's lock from start to end; inside, the
  event call is one atomic region, the buffer/flag updates before and after it belong to the same lock holder.
  A buffer operation is therefore: `start` (take the lock, update buffer/flags, decide which event call is due:
  `Pend`) and `bstep` (perform the pending call, trailing update, release).  Channel operations hold the channel
  lock and run a list of such buffer operations plus `set_forever` (`Macro`).
  Any number of client threads may exist: a thread that has not yet got the buffer lock has done nothing, so the
  lock holders are the only threads that matter; they are what the state records.
-/
import PV.Model.Pipe
namespace PV.PipeAtomic
open PV.Pipe

/-- the event call the holder of a buffer lock is about to make -/
inductive Pend where
  | none        -- lock free
  | feedSet     -- feed: `event.set()` then append the data
  | set         -- `event.set()`   (close, set_event on a non-empty/closed buffer, unguarded empty feed)
  | clear       -- `event.clear()` (read/empty that drained the buffer, set_event on an empty open buffer)
  deriving DecidableEq, Repr

structure Buf where
  ne : Bool := false      -- buffer non-empty
  cl : Bool := false      -- closed
  ev : Bool := false      -- an OrPipe half is attached as event
  pend : Pend := .none
  own : Bool := false     -- the lock holder is the thread that holds the channel lock
  deriving DecidableEq, Repr

inductive Macro where
  | closeB (i : Bool)
  | setEvB (i : Bool)
  | forever
  | feedB (i : Bool)      -- feed buffer i (from `_feed_extended` / the move of set_combine_stderr)
  | emptyMove             -- set_combine_stderr(True): empty the stderr buffer and, if it held data, feed it to stdout
  deriving DecidableEq, Repr

structure ASt where
  p : PSt := {}
  b1 : Buf := {}
  b2 : Buf := {}
  eof : Bool := false
  chClosed : Bool := false
  hasPipe : Bool := false
  combine : Bool := false
  /-- what the holder of the channel lock still has to do (empty and no `own` ⇒ channel lock free) -/
  todo : List Macro := []
  deriving DecidableEq, Repr

def getB (a : ASt) (i : Bool) : Buf := if i then a.b2 else a.b1
def setB (a : ASt) (i : Bool) (b : Buf) : ASt := if i then { a with b2 := b } else { a with b1 := b }
def orObj (i : Bool) : Obj := if i then .or2 else .or1
def sOf (p : PSt) (i : Bool) : Bool := if i then p.s2 else p.s1

inductive BOp where
  | feed | feedEmpty | drain | empty | close | setEv
  deriving DecidableEq, Repr

/-- first region of a buffer operation (the lock is free).  `g`: feed() signals only non-empty data. -/
def bstart (g : Bool) (a : ASt) (i : Bool) (op : BOp) (own : Bool) : ASt :=
  let b := getB a i
  match op with
  | .feed => if b.ev then setB a i { b with pend := .feedSet, own := own } else setB a i { b with ne := true }
  | .feedEmpty => if g then a else if b.ev then setB a i { b with pend := .set, own := own } else a
  | .drain =>
    if b.ne then
      if b.ev && !b.cl then setB a i { b with ne := false, pend := .clear, own := own }
      else setB a i { b with ne := false }
    else a
  | .empty =>
    if b.ev && !b.cl then setB a i { b with ne := false, pend := .clear, own := own }
    else setB a i { b with ne := false }
  | .close =>
    if b.ev then setB a i { b with cl := true, pend := .set, own := own } else setB a i { b with cl := true }
  | .setEv =>
    if b.cl || b.ne then setB a i { b with ev := true, pend := .set, own := own }
    else setB a i { b with ev := true, pend := .clear, own := own }

/-- second region: the pending event call (atomic), trailing update, release -/
def bfinish (a : ASt) (i : Bool) : ASt :=
  let b := getB a i
  match b.pend with
  | .none => a
  | .feedSet =>
    setB { a with p := callAtomic fixedCode a.p (orObj i) .set } i { b with ne := true, pend := .none, own := false }
  | .set => setB { a with p := callAtomic fixedCode a.p (orObj i) .set } i { b with pend := .none, own := false }
  | .clear => setB { a with p := callAtomic fixedCode a.p (orObj i) .clear } i { b with pend := .none, own := false }

/-- the channel-lock holder is not inside a nested buffer operation -/
def chReady (a : ASt) : Bool := !a.b1.own && !a.b2.own

/-- one macro of the channel-lock holder; `none` = it is blocked on a buffer lock -/
def cmacro (a : ASt) : Option ASt :=
  match a.todo with
  | [] => some a
  | .forever :: rest => some { a with p := callAtomic fixedCode a.p .pipe .setForever, todo := rest }
  | .closeB i :: rest =>
    if (getB a i).pend == .none then some (bstart true { a with todo := rest } i .close true) else none
  | .setEvB i :: rest =>
    if (getB a i).pend == .none then some (bstart true { a with todo := rest } i .setEv true) else none
  | .feedB i :: rest =>
    if (getB a i).pend == .none then some (bstart true { a with todo := rest } i .feed true) else none
  | .emptyMove :: rest =>
    if a.b2.pend == .none then
      some (bstart true { a with todo := if a.b2.ne then .feedB false :: rest else rest } true .empty true)
    else none

def nextIsForever (a : ASt) : Bool :=
  match a.todo with
  | .forever :: _ => true
  | _ => false

/-- the holder of the channel lock runs on until it is inside a buffer operation, blocked on a buffer lock, about
to call `set_forever` (a pipe.py call is a region of its own), or done -/
def cadvance : Nat → ASt → ASt
  | 0, a => a
  | fuel + 1, a =>
    if chReady a && !a.todo.isEmpty && !nextIsForever a then
      match cmacro a with
      | some a' => cadvance fuel a'
      | none => a
    else a

/-- the holder of the channel lock takes a step: `set_forever` if that is next, else retry the buffer lock -/
def cstepA (a : ASt) : ASt :=
  if chReady a && nextIsForever a then
    match cmacro a with
    | some a' => cadvance 4 a'
    | none => a
  else cadvance 4 a

def chFree (a : ASt) : Bool := a.todo.isEmpty && chReady a

inductive COp where
  | eof | close | fileno | combineOn | combineOff | feedErr
  deriving DecidableEq, Repr

def cbegin (a : ASt) : COp → ASt
  | .eof =>
    if a.eof then a
    else { a with eof := true, todo := [.closeB false, .closeB true] ++ (if a.hasPipe then [.forever] else []) }
  | .close =>
    if a.chClosed then a
    else { a with chClosed := true, todo := [.closeB false, .closeB true] ++ (if a.hasPipe then [.forever] else []) }
  | .fileno =>
    if a.hasPipe then a else { a with hasPipe := true, todo := [.setEvB false, .setEvB true] }
  | .combineOn => if a.combine then a else { a with combine := true, todo := [.emptyMove] }
  | .combineOff => { a with combine := false }
  | .feedErr => { a with todo := [.feedB a.combine.not] }

inductive Act where
  | bstart (i : Bool) (op : BOp)    -- a client thread gets buffer i's lock and runs the first region
  | bstep (i : Bool)                -- the holder of buffer i's lock runs its second region
  | cstart (op : COp)               -- a thread gets the channel lock
  | cstep                           -- the holder of the channel lock: set_forever, or retry the buffer lock it waits for
  deriving DecidableEq, Repr

def clientOp : BOp → Bool
  | .close | .setEv => false
  | _ => true

def step (g : Bool) (a : ASt) : Act → ASt
  | .bstart i op =>
    if (getB a i).pend == .none && clientOp op then bstart g a i op false else a
  | .bstep i =>
    let wasOwn := (getB a i).own
    let a' := bfinish a i
    if wasOwn then cadvance 4 a' else a'
  | .cstart op => if chFree a then cadvance 4 (cbegin a op) else a
  | .cstep => cstepA a

def run (g : Bool) (a : ASt) (acts : List Act) : ASt := acts.foldl (step g) a

def quiescent (a : ASt) : Bool := a.b1.pend == .none && a.b2.pend == .none && a.todo.isEmpty

/-- what select() on the descriptor says -/
def readable (a : ASt) : Bool := decide (0 < a.p.os)
/-- what the property demands -/
def shouldBeReadable (a : ASt) : Bool := a.b1.ne || a.b2.ne || a.eof || a.chClosed

end PV.PipeAtomic
