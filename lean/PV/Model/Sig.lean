/-
  PV.Model.Sig — executable model of the signing / verification logic that paramiko wraps around
  the third-party primitives:

    RSAKey.sign_ssh_data / verify_ssh_sig          (paramiko/rsakey.py)
    ECDSAKey.sign_ssh_data / verify_ssh_sig / _sigencode / _sigdecode   (paramiko/ecdsakey.py)
    Ed25519Key.sign_ssh_data / verify_ssh_sig      (paramiko/ed25519key.py)

  The primitives (cryptography's RSA/ECDSA, nacl's Ed25519) are a `Scheme` parameter.  A primitive
  `verify` is three-valued (`Verdict`): it returns, raises the library's "bad signature" exception,
  or raises `ValueError` (cryptography's `encode_dss_signature` on a negative integer, nacl on a
  signature that is not 64 bytes long).  Every other way of leaving is outside the model (assumed
  not to happen; stated in the evidence).

  A key object is modelled by the fields its constructor route fills in (`RsaKey`, `EcKey`,
  `EdKey`); `…OfRoute` gives the three routes of the property statement.
  Mathlib-free, total, executable.
-/
import PV.Base.Wire
import PV.Model.KeyUtf8
namespace PV.Sig
open PV PV.Wire PV.KeyUtf8

/-! ## exception classes, primitive verdicts, hash ids -/

inductive Exc | unicodeDecodeError | valueError | attributeError | keyError
  deriving Repr, DecidableEq

def Exc.name : Exc → String
  | .unicodeDecodeError => "UnicodeDecodeError"
  | .valueError => "ValueError"
  | .attributeError => "AttributeError"
  | .keyError => "KeyError"

deriving instance DecidableEq for Except

/-- what a primitive `verify` call does -/
inductive Verdict | accept | invalidSignature | valueError
  deriving Repr, DecidableEq

inductive Hash | sha1 | sha256 | sha384 | sha512
  deriving Repr, DecidableEq

def Hash.id : Hash → Nat
  | .sha1 => 1 | .sha256 => 2 | .sha384 => 3 | .sha512 => 4

/-! ## the primitives -/

structure Scheme where
  RsaSK : Type
  RsaPK : Type
  rsaPub : RsaSK → RsaPK
  /-- `key.key_size` -/
  rsaBits : RsaPK → Nat
  /-- `key.sign(data, PKCS1v15(), hash)` -/
  rsaSign : RsaSK → Hash → Bytes → Bytes
  /-- `key.verify(sig, data, PKCS1v15(), hash)` -/
  rsaVerify : RsaPK → Hash → Bytes → Bytes → Verdict
  EcSK : Type
  EcPK : Type
  ecPub : EcSK → EcPK
  /-- `decode_dss_signature(signing_key.sign(data, ECDSA(hash)))` -/
  ecSign : EcSK → Hash → Bytes → Nat × Nat
  /-- `verifying_key.verify(encode_dss_signature(r, s), data, ECDSA(hash))` -/
  ecVerify : EcPK → Hash → Bytes → Int → Int → Verdict
  EdSK : Type
  EdPK : Type
  edPub : EdSK → EdPK
  /-- `signing_key.sign(data).signature` -/
  edSign : EdSK → Bytes → Bytes
  /-- `verify_key.verify(data, sig)` -/
  edVerify : EdPK → Bytes → Bytes → Verdict

/-- the functional laws the property needs from the primitives -/
structure Laws (S : Scheme) : Prop where
  rsa_ok : ∀ sk h d, S.rsaVerify (S.rsaPub sk) h d (S.rsaSign sk h d) = .accept
  /-- an RSA signature fills the modulus (I2OSP to k bytes), so no left padding is added -/
  rsa_full : ∀ sk h d, S.rsaBits (S.rsaPub sk) ≤ (S.rsaSign sk h d).length * 8
  rsa_len : ∀ sk h d, (S.rsaSign sk h d).length < 4294967296
  ec_ok : ∀ sk h d, S.ecVerify (S.ecPub sk) h d (S.ecSign sk h d).1 (S.ecSign sk h d).2 = .accept
  ec_len : ∀ sk h d, (deflate (S.ecSign sk h d).1).length + (deflate (S.ecSign sk h d).2).length < 4294967000
  ed_ok : ∀ sk d, S.edVerify (S.edPub sk) d (S.edSign sk d) = .accept
  ed_len : ∀ sk d, (S.edSign sk d).length < 4294967296

/-! ## algorithm names (ASCII byte strings) -/

/-- `-cert-v01@openssh.com` -/
def certSuffix : Bytes :=
  [45, 99, 101, 114, 116, 45, 118, 48, 49, 64, 111, 112, 101, 110, 115, 115, 104, 46, 99, 111, 109]
/-- `ssh-rsa` -/
def nSshRsa : Bytes := [115, 115, 104, 45, 114, 115, 97]
/-- `rsa-sha2-256` -/
def nRsa256 : Bytes := [114, 115, 97, 45, 115, 104, 97, 50, 45, 50, 53, 54]
/-- `rsa-sha2-512` -/
def nRsa512 : Bytes := [114, 115, 97, 45, 115, 104, 97, 50, 45, 53, 49, 50]
/-- `ecdsa-sha2-nistp256` -/
def nEc256 : Bytes := [101, 99, 100, 115, 97, 45, 115, 104, 97, 50, 45, 110, 105, 115, 116, 112, 50, 53, 54]
/-- `ecdsa-sha2-nistp384` -/
def nEc384 : Bytes := [101, 99, 100, 115, 97, 45, 115, 104, 97, 50, 45, 110, 105, 115, 116, 112, 51, 56, 52]
/-- `ecdsa-sha2-nistp521` -/
def nEc521 : Bytes := [101, 99, 100, 115, 97, 45, 115, 104, 97, 50, 45, 110, 105, 115, 116, 112, 53, 50, 49]
/-- `ssh-ed25519` -/
def nEd : Bytes := [115, 115, 104, 45, 101, 100, 50, 53, 53, 49, 57]

/-- `RSAKey.HASHES` together with `algorithm.replace("-cert-v01@openssh.com", "")`:
    name ↦ (hash, name written into the signature blob) -/
def rsaTable : List (Bytes × Hash × Bytes) :=
  [ (nSshRsa, .sha1, nSshRsa), (nSshRsa ++ certSuffix, .sha1, nSshRsa),
    (nRsa256, .sha256, nRsa256), (nRsa256 ++ certSuffix, .sha256, nRsa256),
    (nRsa512, .sha512, nRsa512), (nRsa512 ++ certSuffix, .sha512, nRsa512) ]

def rsaAlg (name : Bytes) : Option (Hash × Bytes) :=
  (rsaTable.find? fun e => e.1 == name).map (·.2)

/-! ## `Message.get_text` -/

/-- `u(self.get_string())`: raises `UnicodeDecodeError` on ill-formed UTF-8.  The decoded `str` is
    represented by its UTF-8 bytes (decoding is injective on well-formed input). -/
def getText (r : Rd) : Except Exc (Bytes × Rd) :=
  let (s, r') := r.getString
  if utf8Valid s then .ok (s, r') else .error .unicodeDecodeError

/-- map a primitive verdict through `try … except (<bad signature>, ValueError): return False` -/
def caught : Verdict → Bool
  | .accept => true
  | .invalidSignature => false
  | .valueError => false

/-! ## RSA -/

/-- `RSAKey.key`: a private key (generated / loaded from a private key file) or a public key
    (built from public bytes) -/
inductive RsaKey (S : Scheme)
  | priv (sk : S.RsaSK)
  | pub (pk : S.RsaPK)

def RsaKey.pubKey {S : Scheme} : RsaKey S → S.RsaPK
  | .priv sk => S.rsaPub sk
  | .pub pk => pk

def RsaKey.canSign {S : Scheme} : RsaKey S → Bool
  | .priv _ => true
  | .pub _ => false

/-- `RSAKey.sign_ssh_data(data, algorithm)`; `alg = none` is `algorithm=None` -/
def rsaSignBlob (S : Scheme) (k : RsaKey S) (data : Bytes) (alg : Option Bytes) : Except Exc Bytes :=
  match k with
  | .pub _ => .error .attributeError            -- `self.key.sign`: public keys have no `sign`
  | .priv sk =>
    match rsaAlg (alg.getD nSshRsa) with
    | none => .error .keyError                  -- `self.HASHES[algorithm]`
    | some (h, wireName) => .ok (encStr wireName ++ encStr (S.rsaSign sk h data))

/-- left-pad a short signature with zero bytes up to the key size (PuTTY compatibility) -/
def rsaPad (bits : Nat) (sig : Bytes) : Bytes :=
  if bits > sig.length * 8 then zeros ((bits - sig.length * 8 + 7) / 8) ++ sig else sig

/-- `RSAKey.verify_ssh_sig(data, Message(blob))` -/
def rsaVerifyBlob (S : Scheme) (k : RsaKey S) (data blob : Bytes) : Except Exc Bool :=
  match getText { content := blob, pos := 0 } with
  | .error .unicodeDecodeError => .ok false     -- `except UnicodeDecodeError: return False`
  | .error e => .error e
  | .ok (alg, r1) =>
    match rsaAlg alg with
    | none => .ok false
    | some (h, _) =>
      let pk := k.pubKey
      let sig := (r1.getString).1
      match S.rsaVerify pk h data (rsaPad (S.rsaBits pk) sig) with
      | .accept => .ok true
      | .invalidSignature => .ok false
      | .valueError => .error .valueError       -- only `InvalidSignature` is caught here

/-! ## ECDSA -/

inductive Curve | p256 | p384 | p521
  deriving Repr, DecidableEq

/-- `key_format_identifier` -/
def Curve.name : Curve → Bytes
  | .p256 => nEc256 | .p384 => nEc384 | .p521 => nEc521

/-- `_ECDSACurve.hash_object` (RFC 5656 §6.2.1) -/
def Curve.hash : Curve → Hash
  | .p256 => .sha256 | .p384 => .sha384 | .p521 => .sha512

structure EcKey (S : Scheme) where
  curve : Curve
  signing : Option S.EcSK
  verifying : S.EcPK

/-- `ECDSAKey._sigencode` -/
def sigEncode (r s : Int) : Bytes := encMpint r ++ encMpint s

/-- `ECDSAKey._sigdecode` -/
def sigDecode (sig : Bytes) : Int × Int :=
  let m : Rd := { content := sig, pos := 0 }
  let (rb, m1) := m.getString
  let (sb, _) := m1.getString
  (inflate rb, inflate sb)

def ecSignBlob (S : Scheme) (k : EcKey S) (data : Bytes) : Except Exc Bytes :=
  match k.signing with
  | none => .error .attributeError              -- `self.signing_key.sign` on `None`
  | some sk =>
    let rs := S.ecSign sk k.curve.hash data
    .ok (encStr k.curve.name ++ encStr (sigEncode rs.1 rs.2))

def ecVerifyBlob (S : Scheme) (k : EcKey S) (data blob : Bytes) : Except Exc Bool :=
  match getText { content := blob, pos := 0 } with
  | .error .unicodeDecodeError => .ok false
  | .error e => .error e
  | .ok (alg, r1) =>
    if alg ≠ k.curve.name then .ok false
    else
      let rs := sigDecode (r1.getString).1
      .ok (caught (S.ecVerify k.verifying k.curve.hash data rs.1 rs.2))

/-! ## Ed25519 -/

structure EdKey (S : Scheme) where
  /-- `_signing_key` (set when loaded from a private key file) -/
  signing : Option S.EdSK
  /-- `_verifying_key` (set when built from public bytes) -/
  verifying : Option S.EdPK

/-- the constructor refuses to build an object with neither (`ValueError("need a key")`) -/
def EdKey.WF {S : Scheme} (k : EdKey S) : Prop := k.signing.isSome = true ∨ k.verifying.isSome = true

/-- the verify key used by `asbytes`, `_fields` and (since the fix) `verify_ssh_sig` -/
def EdKey.verifyKey {S : Scheme} (k : EdKey S) : Except Exc S.EdPK :=
  match k.signing with
  | some sk => .ok (S.edPub sk)
  | none =>
    match k.verifying with
    | some pk => .ok pk
    | none => .error .attributeError

def edSignBlob (S : Scheme) (k : EdKey S) (data : Bytes) : Except Exc Bytes :=
  match k.signing with
  | none => .error .attributeError
  | some sk => .ok (encStr nEd ++ encStr (S.edSign sk data))

def edVerifyBlob (S : Scheme) (k : EdKey S) (data blob : Bytes) : Except Exc Bool :=
  match getText { content := blob, pos := 0 } with
  | .error .unicodeDecodeError => .ok false
  | .error e => .error e
  | .ok (alg, r1) =>
    if alg ≠ nEd then .ok false
    else
      match k.verifyKey with
      | .error e => .error e
      | .ok vk => .ok (caught (S.edVerify vk data (r1.getString).1))

/-! ## construction routes of the property statement -/

inductive Route | generated | privateFile | publicBytes
  deriving Repr, DecidableEq

/-- `RSAKey.generate` / `RSAKey(filename=…)` keep the private key; `RSAKey(data=…)` the public one -/
def rsaOfRoute (S : Scheme) (sk : S.RsaSK) : Route → RsaKey S
  | .generated => .priv sk
  | .privateFile => .priv sk
  | .publicBytes => .pub (S.rsaPub sk)

def ecOfRoute (S : Scheme) (c : Curve) (sk : S.EcSK) : Route → EcKey S
  | .generated => { curve := c, signing := some sk, verifying := S.ecPub sk }
  | .privateFile => { curve := c, signing := some sk, verifying := S.ecPub sk }
  | .publicBytes => { curve := c, signing := none, verifying := S.ecPub sk }

/-- there is no `Ed25519Key.generate`; a file-loaded key has only `_signing_key`, a key from
    public bytes only `_verifying_key` -/
def edOfRoute (S : Scheme) (sk : S.EdSK) : Route → Option (EdKey S)
  | .generated => none
  | .privateFile => some { signing := some sk, verifying := none }
  | .publicBytes => some { signing := none, verifying := some (S.edPub sk) }

/-! ## the behaviour before the four `fix:` commits (kept for the witness theorems) -/

namespace Legacy

/-- `verify_ssh_sig` began with an unguarded `msg.get_text()` (all three classes) -/
def textGuard (blob : Bytes) : Except Exc Unit :=
  match getText { content := blob, pos := 0 } with
  | .error e => .error e
  | .ok _ => .ok ()

/-- `encode_dss_signature(r, s)` stood outside the `try`, and only `InvalidSignature` was caught -/
def ecVerifyBlob (S : Scheme) (k : EcKey S) (data blob : Bytes) : Except Exc Bool :=
  match getText { content := blob, pos := 0 } with
  | .error e => .error e
  | .ok (alg, r1) =>
    if alg ≠ k.curve.name then .ok false
    else
      let rs := sigDecode (r1.getString).1
      match S.ecVerify k.verifying k.curve.hash data rs.1 rs.2 with
      | .accept => .ok true
      | .invalidSignature => .ok false
      | .valueError => .error .valueError

/-- `self._verifying_key.verify(…)` with only `BadSignatureError` caught -/
def edVerifyBlob (S : Scheme) (k : EdKey S) (data blob : Bytes) : Except Exc Bool :=
  match getText { content := blob, pos := 0 } with
  | .error e => .error e
  | .ok (alg, r1) =>
    if alg ≠ nEd then .ok false
    else
      match k.verifying with
      | none => .error .attributeError
      | some vk =>
        match S.edVerify vk data (r1.getString).1 with
        | .accept => .ok true
        | .invalidSignature => .ok false
        | .valueError => .error .valueError

end Legacy

/-! ## toy primitives (bit-identical to `pv/lib_keys.py`) -/

def toyDigest (seed : Nat) (b : Bytes) : Nat :=
  b.foldl (fun a x => (a * 257 + x.toNat + 1) % 4294967291) (seed % 4294967291)

def toyPub (sk : Nat) : Nat := sk * 7 + 3

def toyRsaSig (pk : Nat × Nat) (h : Hash) (d : Bytes) : Bytes :=
  beBytes ((pk.2 + 7) / 8) (toyDigest (pk.1 * 1000 + h.id) d)

def toyEcSig (pk : Nat) (h : Hash) (d : Bytes) : Nat × Nat :=
  (toyDigest (pk * 1000 + h.id) d + 1, toyDigest (pk * 1000 + 500 + h.id) d + 1)

def toyEdSig (pk : Nat) (d : Bytes) : Bytes := beBytes 64 (toyDigest (pk * 1000 + 77) d)

/-- RSA keys are `(seed, bits)`; a private key's size is `bits % 65536` -/
def toy : Scheme where
  RsaSK := Nat × Nat
  RsaPK := Nat × Nat
  rsaPub := fun sk => (toyPub sk.1, sk.2 % 65536)
  rsaBits := fun pk => pk.2
  rsaSign := fun sk h d => toyRsaSig (toyPub sk.1, sk.2 % 65536) h d
  rsaVerify := fun pk h d sig => if sig = toyRsaSig pk h d then .accept else .invalidSignature
  EcSK := Nat
  EcPK := Nat
  ecPub := toyPub
  ecSign := fun sk h d => toyEcSig (toyPub sk) h d
  ecVerify := fun pk h d r s =>
    if r < 0 ∨ s < 0 then .valueError
    else if r = (toyEcSig pk h d).1 ∧ s = (toyEcSig pk h d).2 then .accept else .invalidSignature
  EdSK := Nat
  EdPK := Nat
  edPub := toyPub
  edSign := fun sk d => toyEdSig (toyPub sk) d
  edVerify := fun pk d sig =>
    if sig.length ≠ 64 then .valueError
    else if sig = toyEdSig pk d then .accept else .invalidSignature

end PV.Sig
