/-
  PV.Model.AuthServer — executable model of the server side of SSH user authentication in paramiko
  and of the connection-layer gate in front of it:

    transport.py   Transport.run (dispatch part of the loop, after the initial key exchange),
                   Transport._ensure_authed, Transport.is_authenticated
    auth_handler.py AuthHandler._parse_service_request, _parse_userauth_request (all methods),
                   _parse_userauth_info_response, _send_auth_result, _interactive_query,
                   _disconnect_service_not_available, _disconnect_no_more_auth, _get_session_blob,
                   GssapiWithMicAuthHandler (token / mic / delegation, handler table)

  One `step` = one message taken from `packetizer.read_message()` by a server-mode transport thread.
  Inputs of a step: message type, payload bytes, and an `Env` holding the results of every external
  thing the step may consult (the server application's callbacks, key parsing, the GSS context).
  The signature scheme is a parameter (`SigScheme`).  Outputs: callbacks consulted (with results),
  messages handed to the packetizer, the exception class that ended the loop (if any).

  Mirrors the *current* code, including quirks (each marked QUIRK).  Mathlib-free.
  Structure: `decideAct` (what the handlers decide, as an `Act`) then `perform` (the effects).
-/
import PV.Base.Wire
import PV.Generated.AuthTables
namespace PV.AuthServer
open PV PV.Wire PV.Generated.AuthTables

/-! ## constants -/

def AUTH_SUCCESSFUL : Nat := 0
def AUTH_PARTIALLY_SUCCESSFUL : Nat := 1
def AUTH_FAILED : Nat := 2
def HIGHEST_USERAUTH_MESSAGE_ID : Nat := 79
def FAIL_CAP : Nat := 10

def str (s : String) : Bytes := s.toUTF8.toList

def sSshConnection : Bytes := str "ssh-connection"
def sSshUserauth : Bytes := str "ssh-userauth"
def sNone : Bytes := str "none"
def sPassword : Bytes := str "password"
def sPublickey : Bytes := str "publickey"
def sKbdInt : Bytes := str "keyboard-interactive"
def sGssMic : Bytes := str "gssapi-with-mic"
def sGssKeyex : Bytes := str "gssapi-keyex"

/-! ## UTF-8 (Python's strict decoder: no overlongs, no surrogates, ≤ U+10FFFF) -/

def isCont (b : UInt8) : Bool := 0x80 ≤ b && b ≤ 0xBF

def utf8Valid : Bytes → Bool
  | [] => true
  | b0 :: r =>
    if b0 < 0x80 then utf8Valid r
    else if 0xC2 ≤ b0 && b0 ≤ 0xDF then
      match r with
      | b1 :: r1 => isCont b1 && utf8Valid r1
      | _ => false
    else if 0xE0 ≤ b0 && b0 ≤ 0xEF then
      match r with
      | b1 :: b2 :: r2 =>
        (if b0 == 0xE0 then 0xA0 ≤ b1 && b1 ≤ 0xBF
         else if b0 == 0xED then 0x80 ≤ b1 && b1 ≤ 0x9F
         else isCont b1) && isCont b2 && utf8Valid r2
      | _ => false
    else if 0xF0 ≤ b0 && b0 ≤ 0xF4 then
      match r with
      | b1 :: b2 :: b3 :: r3 =>
        (if b0 == 0xF0 then 0x90 ≤ b1 && b1 ≤ 0xBF
         else if b0 == 0xF4 then 0x80 ≤ b1 && b1 ≤ 0x8F
         else isCont b1) && isCont b2 && isCont b3 && utf8Valid r3
      | _ => false
    else false

/-! ## reader helpers (`Message.get_text`, `get_boolean`) -/

/-- `Message.get_text()`: `none` = `UnicodeDecodeError` -/
def getText (r : Rd) : Option Bytes × Rd :=
  let (s, r') := r.getString
  (if utf8Valid s then some s else none, r')

def getBool (r : Rd) : Bool × Rd :=
  let (b, r') := r.getBytes 1
  (b != [0], r')

/-- `[m.get_text() for _ in range(n)]`; `none` as soon as one of them raises -/
def getTexts : Nat → Rd → Option (List Bytes)
  | 0, _ => some []
  | n+1, r =>
    match getText r with
    | (none, _) => none
    | (some t, r') => (getTexts n r').map (t :: ·)

/-! ## external results -/

structure IQuery where
  name : Bytes
  instructions : Bytes
  prompts : List (Bytes × Bool)
  deriving Repr, DecidableEq

/-- what `check_auth_interactive` / `check_auth_interactive_response` returned -/
inductive IRes
  | code (n : Nat)
  | query (q : IQuery)
  deriving Repr, DecidableEq

/-- `ssh_accept_sec_context`: raised, or returned a token / `None` -/
inductive AcceptRes
  | raises
  | token (t : Option Bytes)
  deriving Repr, DecidableEq

/-- everything one step may consult outside the auth code -/
structure Env where
  seqno : Nat := 0                    -- `m.seqno` of the incoming packet (UNIMPLEMENTED reply)
  gssEnabled : Bool := false           -- server_object.enable_auth_gssapi()
  rNone : Nat := 2                     -- check_auth_none
  rPassword : Nat := 2                 -- check_auth_password
  rPubkey : Nat := 2                   -- check_auth_publickey
  rGssMic : Nat := 2                   -- check_auth_gssapi_with_mic
  rGssKeyex : Nat := 2                 -- check_auth_gssapi_keyex
  rInter : IRes := .code 2             -- check_auth_interactive
  rIResp : IRes := .code 2             -- check_auth_interactive_response
  keyCanon : Option Bytes := none      -- _generate_key_from_request + _get_key_type_and_bits: the public key blob the
                                       -- signed data carries (the certificate blob for -cert-v01 keys); none = rejected
  mechOk : Bool := true                -- sshgss.ssh_check_mech
  micOk : Bool := true                 -- sshgss.ssh_check_mic did not raise
  kexCtx : Bool := false               -- transport.kexgss_ctxt is not None
  accept : AcceptRes := .token none    -- sshgss.ssh_accept_sec_context
  gssOids : Bytes := []                -- sshgss.ssh_gss_oids("server")
  allowed : Bytes := []                -- get_allowed_auths(username)
  banner : Option (Bytes × Bytes) := none   -- get_banner() when the banner is non-empty
  delegDrops : Bool := false           -- a delegated (kex-/connection-layer) handler ended the loop
  delegNewChans : Nat := 0             -- channels created by a delegated connection-layer handler
  deriving Repr

/-- the signature scheme behind `key.verify_ssh_sig(blob, sig)`: `verify key data sig` -/
structure SigScheme where
  verify : Bytes → Bytes → Bytes → Bool

/-! ## observable outputs -/

/-- server-application callbacks (ServerInterface methods) -/
inductive Cb
  | enableGss
  | banner
  | allowed (u : Option Bytes)
  | authNone (u : Bytes)
  | authPassword (u pw : Bytes)
  | authPubkey (u key : Bytes)
  | authInter (u sub : Bytes)
  | authIResp (rs : List Bytes)
  | gssMic (u : Option Bytes)
  | gssKeyex (u : Bytes)
  deriving Repr, DecidableEq

/-- one consultation: the callback and, where it is an auth decision, the result code it returned
(`none` for informational callbacks and for an `InteractiveQuery`) -/
structure Call where
  cb : Cb
  res : Option Nat
  deriving Repr, DecidableEq

/-- exception class that ended the transport loop -/
inductive Exc
  | unicode      -- UnicodeDecodeError (get_text on peer bytes)
  | key          -- KeyError: MSG_NAMES[ptype]
  | index        -- IndexError: empty reply handed to the packetizer
  | typeErr      -- TypeError: unbound function in GssapiWithMicAuthHandler's table
  | order        -- SSHException / MessageOrderError: packet not in `_expected_packet`
  | gss          -- exception raised by the GSS context
  | attr         -- AttributeError (None context / handler without is_authenticated)
  | eof          -- EOFError: send on a closed packetizer
  deriving Repr, DecidableEq

structure Out where
  cbs : List Call := []
  sent : List Bytes := []
  exc : Option Exc := none
  delegated : Bool := false      -- handled by a layer this model does not describe
  deriving Repr

structure St where
  active : Bool := true              -- transport.active ∧ the loop is still running
  authenticated : Bool := false      -- auth_handler.authenticated
  authUser : Option Bytes := none    -- auth_handler.auth_username
  failCount : Nat := 0               -- auth_handler.auth_fail_count
  gssSub : Bool := false             -- transport.auth_handler is a GssapiWithMicAuthHandler
  expected : List Nat := []          -- transport._expected_packet
  chans : Nat := 0                   -- channels ever created on this transport
  deriving Repr, DecidableEq

def init : St := {}

/-- `Transport.is_authenticated()` (no sub-handler installed) -/
def St.isAuthenticated (s : St) : Bool := s.active && s.authenticated

/-! ## messages built by the server -/

def msgServiceAccept (svc : Bytes) : Bytes := 6 :: encStr svc
def msgBanner (b lang : Bytes) : Bytes := 53 :: (encStr b ++ encStr lang)
def msgSuccess : Bytes := [52]
def msgFailure (allowed : Bytes) (partialOk : Bool) : Bytes :=
  51 :: (encStr allowed ++ [if partialOk then 1 else 0])
def msgPkOk (algo blob : Bytes) : Bytes := 60 :: (encStr algo ++ encStr blob)
def encPrompts : List (Bytes × Bool) → Bytes
  | [] => []
  | (p, e) :: r => encStr p ++ [if e then 1 else 0] ++ encPrompts r
def msgInfoRequest (q : IQuery) : Bytes :=
  60 :: (encStr q.name ++ encStr q.instructions ++ encStr [] ++ be32 q.prompts.length ++ encPrompts q.prompts)
def msgDisconnect (code : Nat) (desc : Bytes) : Bytes :=
  1 :: (be32 code ++ encStr desc ++ encStr (str "en"))
def msgDiscService : Bytes := msgDisconnect 7 (str "Service not available")
def msgDiscNoMoreAuth : Bytes := msgDisconnect 14 (str "No more auth methods available")
def msgRequestFailure : Bytes := [82]
def msgOpenFailure (chanid : Nat) : Bytes :=
  92 :: (be32 chanid ++ be32 1 ++ encStr [] ++ encStr (str "en"))
def msgUnimplemented (seqno : Nat) : Bytes := 3 :: be32 seqno
def msgGssResponse (oids : Bytes) : Bytes := 60 :: oids
def msgGssToken (t : Bytes) : Bytes := 61 :: encStr t

/-- `AuthHandler._get_session_blob`: session id, 50, username, service, "publickey", True, algorithm, key -/
def sessionBlob (sid user service algo key : Bytes) : Bytes :=
  encStr sid ++ [50] ++ encStr user ++ encStr service ++ encStr sPublickey ++ [1] ++ encStr algo ++ encStr key

/-! ## what a handler does, as data

The handlers are written as *decisions*: they look at the state, the message and the environment and
return the state with its bookkeeping fields updated (`authUser`, `gssSub`, `expected`) plus an `Act`
saying what is consulted / sent / how the handler ends.  `perform` executes an `Act`; it is the only
place where `failCount`, `authenticated`, `active` and `chans` change. -/

inductive Act
  | nop                                                        -- handler returns, nothing sent
  | reply (cbs : List Call) (msgs : List Bytes)                -- sends `msgs`, returns normally
  | die (cbs : List Call) (msgs : List Bytes) (e : Option Exc) -- sends `msgs`, then the loop ends (raise / break)
  | disconnect (cbs : List Call) (m : Bytes)                   -- DISCONNECT `m`, then `transport.close()`
  | result (cbs : List Call) (user : Option Bytes) (r : Nat)   -- `_send_auth_result(user, method, r)`
  | resultDie (cbs : List Call) (user : Option Bytes) (r : Nat) (e : Exc)  -- the same, then re-raise
  | rejectTwice (cbs : List Call) (user : Option Bytes)        -- QUIRK: gssapi-keyex without a context
  | delegate (conn : Bool)                                      -- a handler this model does not describe
  deriving Repr

/-! ## `_send_auth_result` -/

/-- `_send_auth_result(username, method, result)` -/
def sendAuthResult (s : St) (env : Env) (user : Option Bytes) (result : Nat) : St × Out :=
  if result = AUTH_SUCCESSFUL then
    -- SUCCESS; `authenticated = True`; the counter test still runs
    if s.failCount ≥ FAIL_CAP then
      ({ s with authenticated := true, active := false }, { sent := [msgSuccess, msgDiscNoMoreAuth] })
    else ({ s with authenticated := true }, { sent := [msgSuccess] })
  else if result = AUTH_PARTIALLY_SUCCESSFUL then
    if s.failCount ≥ FAIL_CAP then
      ({ s with active := false },
       { cbs := [Call.mk (.allowed user) none], sent := [msgFailure env.allowed true, msgDiscNoMoreAuth] })
    else (s, { cbs := [Call.mk (.allowed user) none], sent := [msgFailure env.allowed true] })
  else
    if s.failCount + 1 ≥ FAIL_CAP then
      ({ s with failCount := s.failCount + 1, active := false },
       { cbs := [Call.mk (.allowed user) none], sent := [msgFailure env.allowed false, msgDiscNoMoreAuth] })
    else ({ s with failCount := s.failCount + 1 },
          { cbs := [Call.mk (.allowed user) none], sent := [msgFailure env.allowed false] })

/-- callbacks consulted before, then the rest -/
def Out.pre (cbs : List Call) (o : Out) : Out := { o with cbs := cbs ++ o.cbs }

def perform (s : St) (env : Env) : Act → St × Out
  | .nop => (s, {})
  | .reply cbs msgs => (s, { cbs := cbs, sent := msgs })
  | .die cbs msgs e => ({ s with active := false }, { cbs := cbs, sent := msgs, exc := e })
  | .disconnect cbs m => ({ s with active := false }, { cbs := cbs, sent := [m] })
  | .result cbs user r =>
    let x := sendAuthResult s env user r
    (x.1, x.2.pre cbs)
  | .resultDie cbs user r e =>
    let x := sendAuthResult s env user r
    ({ x.1 with active := false }, { x.2.pre cbs with exc := some e })
  | .rejectTwice cbs user =>
    -- no `return` after the first rejection: `None.ssh_check_mic` raises AttributeError, the except
    -- clause rejects again and re-raises
    let x := sendAuthResult s env user AUTH_FAILED
    if x.1.active then
      let y := sendAuthResult x.1 env user AUTH_FAILED
      ({ y.1 with active := false },
       { cbs := cbs ++ x.2.cbs ++ y.2.cbs, sent := x.2.sent ++ y.2.sent, exc := some .attr })
    else
      -- the second `_send_auth_result` consults get_allowed_auths, counts, then `_send_message` raises
      -- EOFError on the closed packetizer
      ({ x.1 with failCount := x.1.failCount + 1 },
       { cbs := cbs ++ x.2.cbs ++ [Call.mk (.allowed user) none], sent := x.2.sent, exc := some .eof })
  | .delegate conn =>
    -- kex layer / connection layer once authenticated: may end the loop and (connection layer) create
    -- channels; never touches authentication state
    ({ s with active := s.active && !env.delegDrops,
              chans := if conn then s.chans + env.delegNewChans else s.chans }, { delegated := true })

/-- `self._interactive_query(result)` or `_send_auth_result` -/
def interAct (cbs : List Call) (user : Option Bytes) (r : IRes) : Act :=
  match r with
  | .query q => .reply cbs [msgInfoRequest q]
  | .code n => .result cbs user n

def codeOf : IRes → Option Nat
  | .code n => some n
  | .query _ => none

/-! ## `_parse_service_request` -/

def parseServiceRequest (s : St) (payload : Bytes) (env : Env) : St × Act :=
  match getText { content := payload, pos := 0 } with
  | (none, _) => (s, .die [] [] (some .unicode))
  | (some svc, _) =>
    if svc = sSshUserauth then
      match env.banner with
      | some (b, lang) => (s, .reply [Call.mk .banner none] [msgServiceAccept svc, msgBanner b lang])
      | none => (s, .reply [Call.mk .banner none] [msgServiceAccept svc])
    else (s, .disconnect [] msgDiscService)

/-! ## `_parse_userauth_request` -/

def cGss : Call := Call.mk .enableGss none

/-- method dispatch, after the service / username checks (`r` is positioned after the method name);
`s.authUser` is already `some user` -/
def authMethod (sc : SigScheme) (sid : Bytes) (s : St) (env : Env) (user service method : Bytes) (r : Rd) :
    St × Act :=
  if method = sNone then
    (s, .result [cGss, Call.mk (.authNone user) (some env.rNone)] (some user) env.rNone)
  else if method = sPassword then
    let (changereq, r1) := getBool r
    let (pw, _) := r1.getString
    if changereq then
      -- always a failure; the callback is not consulted
      (s, .result [cGss] (some user) AUTH_FAILED)
    else
      (s, .result [cGss, Call.mk (.authPassword user pw) (some env.rPassword)] (some user) env.rPassword)
  else if method = sPublickey then
    let (sigAttached, r1) := getBool r
    match getText r1 with
    | (none, _) => (s, .die [cGss] [] (some .unicode))
    | (some algo, r2) =>
      let (keyblob, r3) := r2.getString
      match env.keyCanon with
      | none => (s, .disconnect [cGss] msgDiscNoMoreAuth)
      | some key =>
        let cbs := [cGss, Call.mk (.authPubkey user key) (some env.rPubkey)]
        if env.rPubkey ≠ AUTH_FAILED then
          if !sigAttached then
            (s, .reply cbs [msgPkOk algo keyblob])
          else
            let (sig, _) := r3.getString
            if sc.verify key (sessionBlob sid user service algo key) sig then
              (s, .result cbs (some user) env.rPubkey)
            else (s, .result cbs (some user) AUTH_FAILED)
        else (s, .result cbs (some user) env.rPubkey)
  else if method = sKbdInt then
    let (sub, _) := r.getString
    (s, interAct [cGss, Call.mk (.authInter user sub) (codeOf env.rInter)] (some user) env.rInter)
  else if method = sGssMic ∧ env.gssEnabled = true then
    let (mechs, _) := r.getInt
    -- QUIRK: neither disconnect returns; the following `_send_message` raises EOFError on the closed packetizer
    if mechs > 1 ∨ env.mechOk = false then
      (s, .die [cGss] [msgDiscNoMoreAuth] (some .eof))
    else
      ({ s with gssSub := true, expected := [61, 50, 5] }, .reply [cGss] [msgGssResponse env.gssOids])
  else if method = sGssKeyex ∧ env.gssEnabled = true then
    if env.kexCtx = false then (s, .rejectTwice [cGss] (some user))
    else if env.micOk = false then (s, .resultDie [cGss] (some user) AUTH_FAILED .gss)
    else
      -- the MIC was good: the application decides (check_auth_gssapi_keyex)
      (s, .result [cGss, Call.mk (.gssKeyex user) (some env.rGssKeyex)] (some user) env.rGssKeyex)
  else
    (s, .result [cGss, Call.mk (.authNone user) (some env.rNone)] (some user) env.rNone)

def parseUserauthRequest (sc : SigScheme) (sid : Bytes) (s : St) (payload : Bytes) (env : Env) : St × Act :=
  if s.authenticated then (s, .nop)       -- "ignore"
  else
    match getText { content := payload, pos := 0 } with
    | (none, _) => (s, .die [] [] (some .unicode))
    | (some user, r1) =>
      match getText r1 with
      | (none, _) => (s, .die [] [] (some .unicode))
      | (some service, r2) =>
        match getText r2 with
        | (none, _) => (s, .die [] [] (some .unicode))
        | (some method, r3) =>
          if service ≠ sSshConnection then (s, .disconnect [] msgDiscService)
          else if s.authUser ≠ none ∧ s.authUser ≠ some user then (s, .disconnect [] msgDiscNoMoreAuth)
          else authMethod sc sid { s with authUser := some user } env user service method r3

/-! ## `_parse_userauth_info_response` -/

def parseInfoResponse (s : St) (payload : Bytes) (env : Env) : St × Act :=
  let (n, r) := Rd.getInt { content := payload, pos := 0 }
  match getTexts n r with
  | none => (s, .die [] [] (some .unicode))
  | some rs => (s, interAct [Call.mk (.authIResp rs) (codeOf env.rIResp)] s.authUser env.rIResp)

/-! ## GssapiWithMicAuthHandler (only reachable when its table holds bound methods) -/

def gssToken (s : St) (env : Env) : St × Act :=
  match env.accept with
  | .raises => ({ s with gssSub := false }, .resultDie [] s.authUser AUTH_FAILED .gss)
  | .token (some t) => ({ s with expected := [61, 66, 50] }, .reply [] [msgGssToken t])
  | .token none => (s, .nop)

def gssMic (s : St) (env : Env) : St × Act :=
  if env.micOk = false then ({ s with gssSub := false }, .resultDie [] s.authUser AUTH_FAILED .gss)
  else
    -- the MIC was good: the application decides (check_auth_gssapi_with_mic)
    ({ s with gssSub := false },
     .result [Call.mk (.gssMic s.authUser) (some env.rGssMic)] s.authUser env.rGssMic)

/-! ## the dispatch part of `Transport.run` (server mode, after the initial key exchange) -/

inductive Class | ignore | disconnect | debug | transport | channel | auth | unhandled
  deriving Repr, DecidableEq

def classify (gssSub : Bool) (p : Nat) : Class :=
  if p = 2 then .ignore else if p = 1 then .disconnect else if p = 4 then .debug
  else if p ∈ transportTable then .transport
  else if p ∈ channelTable then .channel
  else if p ∈ (if gssSub then gssSubTable else authServerTable) then .auth
  else .unhandled

/-- `_ensure_authed` produced a reply (server mode, type > 79, not authenticated) -/
def ensureAuthedReply (p : Nat) (payload : Bytes) : Act :=
  if p = 80 then .reply [] [msgRequestFailure]
  else if p = 90 then
    match getText { content := payload, pos := 0 } with
    | (none, _) => .die [] [] (some .unicode)
    | (some _, r) => .reply [] [msgOpenFailure r.getInt.1]
  else
    -- QUIRK: an empty reply Message is truthy; the packetizer indexes its first byte
    .die [] [] (some .index)

def authDispatch (sc : SigScheme) (sid : Bytes) (s : St) (p : Nat) (payload : Bytes) (env : Env) : St × Act :=
  if s.gssSub then
    if gssHandlersBound = false then (s, .die [] [] (some .typeErr))    -- QUIRK: plain functions in the table
    else if p = 5 then parseServiceRequest { s with gssSub := false } payload env
    else if p = 50 then parseUserauthRequest sc sid { s with gssSub := false } payload env
    else if p = 61 then gssToken s env
    else gssMic s env
  else if p = 5 then parseServiceRequest s payload env
  else if p = 50 then parseUserauthRequest sc sid s payload env
  else parseInfoResponse s payload env

def dispatch (sc : SigScheme) (sid : Bytes) (s : St) (p : Nat) (payload : Bytes) (env : Env) : St × Act :=
  match classify s.gssSub p with
  | .transport =>
    if p ≤ HIGHEST_USERAUTH_MESSAGE_ID then (s, .delegate false)
    else if s.gssSub then (s, .die [] [] (some .attr))   -- QUIRK: the sub-handler has no is_authenticated()
    else if s.isAuthenticated then (s, .delegate true)
    else (s, ensureAuthedReply p payload)
  | .channel =>
    if s.chans = 0 then (s, .die [] [] none)             -- "Channel request for unknown channel": break
    else (s, .delegate true)
  | .auth => authDispatch sc sid s p payload env
  | _ =>
    -- unhandled type
    if unnamedRaises = true ∧ p ∉ named then (s, .die [] [] (some .key))
    else if p = 3 then (s, .nop)
    else (s, .reply [] [msgUnimplemented env.seqno])

/-- what the loop decides to do with one message -/
def decideAct (sc : SigScheme) (sid : Bytes) (s : St) (p : Nat) (payload : Bytes) (env : Env) : St × Act :=
  match classify s.gssSub p with
  | .ignore => (s, .nop)
  | .disconnect =>
    -- `_parse_disconnect`: get_int, get_text (may raise), then `break`
    match getText (Rd.getInt { content := payload, pos := 0 }).2 with
    | (none, _) => (s, .die [] [] (some .unicode))
    | (some _, _) => (s, .die [] [] none)
  | .debug => (s, .nop)
  | _ =>
    if s.expected ≠ [] then
      if p ∉ s.expected then (s, .die [] [] (some .order))
      else if 30 ≤ p ∧ p ≤ 41 then (s, .die [] [] (some .attr))    -- kex_engine is None outside a key exchange
      else dispatch sc sid { s with expected := [] } p payload env
    else dispatch sc sid s p payload env

/-- one message taken from the wire by the transport thread -/
def step (sc : SigScheme) (sid : Bytes) (s : St) (p : Nat) (payload : Bytes) (env : Env) : St × Out :=
  if s.active = false then (s, {})                       -- the loop has ended: nothing is read any more
  else
    let d := decideAct sc sid s p payload env
    perform d.1 env d.2

/-- a history: messages with the environment each one meets -/
structure Msg where
  ptype : Nat
  payload : Bytes
  env : Env
  deriving Repr

def run (sc : SigScheme) (sid : Bytes) : St → List Msg → St × List Out
  | s, [] => (s, [])
  | s, m :: ms =>
    let (s1, o) := step sc sid s m.ptype m.payload m.env
    let (s2, os) := run sc sid s1 ms
    (s2, o :: os)

end PV.AuthServer
