/-
  Further lemmas about PV.Model.ChanWindow used by the two-sided model (C20) and by C22/C25:
  shapes of the lock regions, frame facts, the exact (equality) form of the receiver accounting.
-/
import PV.Model.ChanWindowLemmas
namespace PV.Chan

/-! ## shapes: what a region can change -/

theorem holdOrDone_shape (s : St) (t : Nat) (ms : List Msg) (k : Kont) :
    ∃ x, holdOrDone s t ms k = setThr s t x := by
  unfold holdOrDone; split <;> exact ⟨_, rfl⟩

theorem checkAdd_shape (s : St) (n : Nat) : ∃ v, (checkAdd s n).1 = { s with inSofar := v } := by
  unfold checkAdd; split
  · exact ⟨s.inSofar, rfl⟩
  · split <;> exact ⟨_, rfl⟩

theorem sendEof_shape (s : St) :
    ∃ e r, (sendEof s).1 = { s with eofSent := e, raced := r } ∧ (s.eofSent = true → e = true) := by
  unfold sendEof; split
  · rename_i h; exact ⟨s.eofSent, s.raced, rfl, fun _ => h⟩
  · exact ⟨true, _, rfl, fun _ => rfl⟩

theorem closeInternal_shape (s : St) :
    ∃ c e r p, (closeInternal s).1 = { s with closed := c, eofSent := e, raced := r, pipesClosed := p } ∧
      (s.closed = true → c = true) := by
  unfold closeInternal; split
  · exact ⟨s.closed, s.eofSent, s.raced, s.pipesClosed, rfl, id⟩
  · obtain ⟨e, r, h, _⟩ := sendEof_shape s
    refine ⟨true, e, r, true, ?_, fun _ => rfl⟩
    simp only [setClosed, h]

/-- every action only appends to the wire -/
theorem step_wire (cfg : Cfg) (s : St) (x : Act) : ∃ l, (step cfg s x).wire = s.wire ++ l := by
  cases x with
  | send t n ext =>
    simp only [step]; split
    · obtain ⟨d, y, e, _⟩ := sendRegion_eff cfg s t n ext none; rw [e]; exact ⟨[], by simp [setThr]⟩
    · exact ⟨[], by simp⟩
  | iter t =>
    simp only [step]; split
    · rename_i l ext hr
      obtain ⟨d, y, e, _⟩ := sendRegion_eff cfg s t l.rem ext (some l); rw [e]; exact ⟨[], by simp [setThr]⟩
    · exact ⟨[], by simp⟩
  | wake t dt =>
    simp only [step]; split
    · rename_i want ext left lp hr
      obtain ⟨d, y, e, _⟩ := wakeRegion_eff cfg s t dt want ext left lp; rw [e]; exact ⟨[], by simp [setThr]⟩
    · exact ⟨[], by simp⟩
  | emit t =>
    simp only [step]; split
    · rename_i m ms k hr
      obtain ⟨y, e⟩ := holdOrDone_shape { s with wire := s.wire ++ [m] } t ms k
      rw [e]; exact ⟨[m], rfl⟩
    · exact ⟨[], by simp⟩
  | check t =>
    simp only [step]; split
    · rename_i n hr
      obtain ⟨v, e⟩ := checkAdd_shape s n
      split <;> (rw [e]; exact ⟨[], by simp [setThr]⟩)
    · exact ⟨[], by simp⟩
  | close t =>
    simp only [step]; split
    · obtain ⟨y, e⟩ := holdOrDone_shape (closeInternal s).1 t (closeInternal s).2 .retNone
      obtain ⟨c, e', r, p, h, _⟩ := closeInternal_shape s
      rw [e, h]; exact ⟨[], by simp [setThr]⟩
    · exact ⟨[], by simp⟩
  | shutdownWrite t =>
    simp only [step]; split
    · obtain ⟨y, e⟩ := holdOrDone_shape (sendEof s).1 t (sendEof s).2 .retNone
      obtain ⟨e', r, h, _⟩ := sendEof_shape s
      rw [e, h]; exact ⟨[], by simp [setThr]⟩
    · exact ⟨[], by simp⟩
  | peerClose t =>
    simp only [step]; split
    · obtain ⟨y, e⟩ := holdOrDone_shape { (closeInternal s).1 with linked := false } t (closeInternal s).2 .retNone
      obtain ⟨c, e', r, p, h, _⟩ := closeInternal_shape s
      rw [e, h]; exact ⟨[], by simp [setThr]⟩
    · exact ⟨[], by simp⟩
  | requestFailed t =>
    simp only [step]; split
    · obtain ⟨y, e⟩ := holdOrDone_shape (closeInternal s).1 t (closeInternal s).2 .retNone
      obtain ⟨c, e', r, p, h, _⟩ := closeInternal_shape s
      rw [e, h]; exact ⟨[], by simp [setThr]⟩
    · exact ⟨[], by simp⟩
  | feedExt t code n =>
    simp only [step]
    have e : (checkAdd { s with recvd := s.recvd + n, discarded := s.discarded + n } n).1.wire = s.wire :=
      (checkAdd_frame { s with recvd := s.recvd + n, discarded := s.discarded + n } n).1
    repeat' split
    all_goals first
      | exact ⟨[], by rw [List.append_nil]; exact e⟩
      | exact ⟨[], by simp⟩
  | recv t k err =>
    simp only [step]
    repeat' split
    all_goals exact ⟨[], by simp [setThr]⟩
  | sendall t n ext =>
    simp only [step]
    repeat' split
    all_goals exact ⟨[], by simp [setThr]⟩
  | peerEof => simp only [step]; split <;> exact ⟨[], by simp⟩
  | emitFail t => simp only [step]; split <;> exact ⟨[], by simp [setThr]⟩
  | unlink => simp only [step]; split <;> exact ⟨[], by simp [setClosed]⟩
  | shutdownRead => exact ⟨[], by simp [step]⟩
  | setMode m => exact ⟨[], by simp [step]⟩
  | feed n => exact ⟨[], by simp [step]⟩
  | adjust n => exact ⟨[], by simp [step]⟩

end PV.Chan

namespace PV.Chan

/-- fields no action changes, and flags that only ever go one way -/
def Frame (s s' : St) : Prop :=
  s'.inThreshold = s.inThreshold ∧ s'.active = s.active ∧ s'.combine = s.combine ∧
  (s'.linked = true → s.linked = true) ∧
  (s.closed = true → s'.closed = true) ∧ (s.eofRecv = true → s'.eofRecv = true) ∧
  (s.eofSent = true → s'.eofSent = true)

theorem Frame.refl (s : St) : Frame s s := ⟨rfl, rfl, rfl, id, id, id, id⟩

theorem frame_setThr (s : St) (t : Nat) (x : TSt) : Frame s (setThr s t x) := ⟨rfl, rfl, rfl, id, id, id, id⟩

theorem frame_sendEff (s s' : St) (t : Nat) (h : SendEff s s' t) : Frame s s' := by
  obtain ⟨d, x, e, _⟩ := h; rw [e]; exact ⟨rfl, rfl, rfl, id, id, id, id⟩

theorem frame_closeInternal (s : St) : Frame s (closeInternal s).1 := by
  unfold closeInternal; split
  · exact Frame.refl s
  · unfold sendEof setClosed
    split
    · rename_i h; exact ⟨rfl, rfl, rfl, id, fun _ => rfl, id, fun _ => h⟩
    · exact ⟨rfl, rfl, rfl, id, fun _ => rfl, id, fun _ => rfl⟩

theorem frame_sendEof (s : St) : Frame s (sendEof s).1 := by
  unfold sendEof; split
  · exact Frame.refl s
  · exact ⟨rfl, rfl, rfl, id, id, id, fun _ => rfl⟩

theorem frame_checkAdd (s : St) (n : Nat) : Frame s (checkAdd s n).1 := by
  obtain ⟨v, e⟩ := checkAdd_shape s n; rw [e]; exact ⟨rfl, rfl, rfl, id, id, id, id⟩

theorem Frame.trans {a b c : St} (h1 : Frame a b) (h2 : Frame b c) : Frame a c := by
  obtain ⟨a1, a2, a3, a4, a5, a6, a7⟩ := h1
  obtain ⟨b1, b2, b3, b4, b5, b6, b7⟩ := h2
  exact ⟨b1.trans a1, b2.trans a2, b3.trans a3, fun h => a4 (b4 h), fun h => b5 (a5 h), fun h => b6 (a6 h),
    fun h => b7 (a7 h)⟩

theorem frame_holdOrDone (s : St) (t : Nat) (ms : List Msg) (k : Kont) : Frame s (holdOrDone s t ms k) := by
  obtain ⟨x, e⟩ := holdOrDone_shape s t ms k; rw [e]; exact frame_setThr s t x

theorem step_frame (cfg : Cfg) (s : St) (x : Act) : Frame s (step cfg s x) := by
  cases x with
  | send t n ext =>
    simp only [step]; split
    · exact frame_sendEff _ _ t (sendRegion_eff cfg s t n ext none)
    · exact Frame.refl s
  | iter t =>
    simp only [step]; split
    · rename_i l ext hr; exact frame_sendEff _ _ t (sendRegion_eff cfg s t l.rem ext (some l))
    · exact Frame.refl s
  | wake t dt =>
    simp only [step]; split
    · rename_i want ext left lp hr; exact frame_sendEff _ _ t (wakeRegion_eff cfg s t dt want ext left lp)
    · exact Frame.refl s
  | emit t =>
    simp only [step]; split
    · rename_i m ms k hr
      exact Frame.trans (b := { s with wire := s.wire ++ [m] }) ⟨rfl, rfl, rfl, id, id, id, id⟩
        (frame_holdOrDone _ t ms k)
    · exact Frame.refl s
  | check t =>
    simp only [step]; split
    · rename_i n hr
      split <;> exact Frame.trans (frame_checkAdd s n) (frame_setThr _ t _)
    · exact Frame.refl s
  | close t =>
    simp only [step]; split
    · exact Frame.trans (frame_closeInternal s) (frame_holdOrDone _ t _ _)
    · exact Frame.refl s
  | shutdownWrite t =>
    simp only [step]; split
    · exact Frame.trans (frame_sendEof s) (frame_holdOrDone _ t _ _)
    · exact Frame.refl s
  | peerClose t =>
    simp only [step]; split
    · refine Frame.trans (frame_closeInternal s) (Frame.trans (b := { (closeInternal s).1 with linked := false }) ?_
        (frame_holdOrDone _ t _ _))
      exact ⟨rfl, rfl, rfl, (fun h => by cases h), id, id, id⟩
    · exact Frame.refl s
  | requestFailed t =>
    simp only [step]; split
    · exact Frame.trans (frame_closeInternal s) (frame_holdOrDone _ t _ _)
    · exact Frame.refl s
  | feedExt t code n =>
    simp only [step]
    have f0 : Frame s { s with recvd := s.recvd + n, discarded := s.discarded + n } :=
      ⟨rfl, rfl, rfl, id, id, id, id⟩
    have f1 := Frame.trans f0 (frame_checkAdd { s with recvd := s.recvd + n, discarded := s.discarded + n } n)
    repeat' split
    all_goals first
      | exact Frame.refl s
      | exact f1
      | exact Frame.trans f1 (frame_setThr _ t _)
      | exact ⟨rfl, rfl, rfl, id, id, id, id⟩
  | recv t k err =>
    simp only [step]
    repeat' split
    all_goals first
      | exact Frame.refl s
      | exact frame_setThr s t _
      | exact Frame.trans (b := _) ⟨rfl, rfl, rfl, id, id, id, id⟩ (frame_setThr _ t _)
  | sendall t n ext =>
    simp only [step]
    repeat' split
    all_goals first
      | exact Frame.refl s
      | exact frame_setThr s t _
  | peerEof =>
    simp only [step]; split
    · exact Frame.refl s
    · exact ⟨rfl, rfl, rfl, id, id, fun _ => rfl, id⟩
  | emitFail t =>
    simp only [step]; split
    · exact Frame.trans (b := _) ⟨rfl, rfl, rfl, id, id, id, id⟩ (frame_setThr _ t _)
    · exact Frame.refl s
  | unlink =>
    simp only [step]; split
    · exact Frame.refl s
    · exact ⟨rfl, rfl, rfl, (fun h => by cases h), fun _ => rfl, id, id⟩
  | shutdownRead => exact ⟨rfl, rfl, rfl, id, id, fun _ => rfl, id⟩
  | setMode m => exact ⟨rfl, rfl, rfl, id, id, id, id⟩
  | feed n => exact ⟨rfl, rfl, rfl, id, id, id, id⟩
  | adjust n => exact ⟨rfl, rfl, rfl, id, id, id, id⟩

/-! ## `in_window_sofar` never exceeds the threshold -/

def SofarInv (s : St) : Prop := s.inSofar ≤ s.inThreshold

theorem checkAdd_sofar (s : St) (n : Nat) (h : SofarInv s) : SofarInv (checkAdd s n).1 := by
  unfold checkAdd SofarInv at *
  split
  · exact h
  · split
    · simpa using (by assumption)
    · simp

theorem inSofar_sendEff (s s' : St) (t : Nat) (h : SendEff s s' t) :
    s'.inSofar = s.inSofar ∧ s'.inThreshold = s.inThreshold := by
  obtain ⟨d, x, e, _⟩ := h; rw [e]; exact ⟨rfl, rfl⟩

theorem sofar_of_eq (s s' : St) (h1 : s'.inSofar = s.inSofar) (h2 : s'.inThreshold = s.inThreshold)
    (h : SofarInv s) : SofarInv s' := by
  unfold SofarInv at *; omega

theorem holdOrDone_sofar (s : St) (t : Nat) (ms : List Msg) (k : Kont) :
    (holdOrDone s t ms k).inSofar = s.inSofar ∧ (holdOrDone s t ms k).inThreshold = s.inThreshold := by
  obtain ⟨x, e⟩ := holdOrDone_shape s t ms k; rw [e]; exact ⟨rfl, rfl⟩

theorem closeInternal_sofar (s : St) :
    (closeInternal s).1.inSofar = s.inSofar ∧ (closeInternal s).1.inThreshold = s.inThreshold := by
  obtain ⟨c, e, r, p, h, _⟩ := closeInternal_shape s; rw [h]; exact ⟨rfl, rfl⟩

theorem sendEof_sofar (s : St) :
    (sendEof s).1.inSofar = s.inSofar ∧ (sendEof s).1.inThreshold = s.inThreshold := by
  obtain ⟨e, r, h, _⟩ := sendEof_shape s; rw [h]; exact ⟨rfl, rfl⟩

theorem step_sofar (cfg : Cfg) (s : St) (x : Act) (hi : SofarInv s) : SofarInv (step cfg s x) := by
  cases x with
  | send t n ext =>
    simp only [step]; split
    · obtain ⟨h1, h2⟩ := inSofar_sendEff _ _ t (sendRegion_eff cfg s t n ext none)
      exact sofar_of_eq s _ h1 h2 hi
    · exact hi
  | iter t =>
    simp only [step]; split
    · rename_i l ext hr
      obtain ⟨h1, h2⟩ := inSofar_sendEff _ _ t (sendRegion_eff cfg s t l.rem ext (some l))
      exact sofar_of_eq s _ h1 h2 hi
    · exact hi
  | wake t dt =>
    simp only [step]; split
    · rename_i want ext left lp hr
      obtain ⟨h1, h2⟩ := inSofar_sendEff _ _ t (wakeRegion_eff cfg s t dt want ext left lp)
      exact sofar_of_eq s _ h1 h2 hi
    · exact hi
  | emit t =>
    simp only [step]; split
    · rename_i m ms k hr
      obtain ⟨h1, h2⟩ := holdOrDone_sofar { s with wire := s.wire ++ [m] } t ms k
      exact sofar_of_eq s _ h1 h2 hi
    · exact hi
  | check t =>
    simp only [step]; split
    · rename_i n hr
      have := checkAdd_sofar s n hi
      split <;> exact this
    · exact hi
  | close t =>
    simp only [step]; split
    · obtain ⟨h1, h2⟩ := holdOrDone_sofar (closeInternal s).1 t (closeInternal s).2 .retNone
      obtain ⟨h3, h4⟩ := closeInternal_sofar s
      exact sofar_of_eq s _ (h1.trans h3) (h2.trans h4) hi
    · exact hi
  | shutdownWrite t =>
    simp only [step]; split
    · obtain ⟨h1, h2⟩ := holdOrDone_sofar (sendEof s).1 t (sendEof s).2 .retNone
      obtain ⟨h3, h4⟩ := sendEof_sofar s
      exact sofar_of_eq s _ (h1.trans h3) (h2.trans h4) hi
    · exact hi
  | peerClose t =>
    simp only [step]; split
    · obtain ⟨h1, h2⟩ := holdOrDone_sofar { (closeInternal s).1 with linked := false } t (closeInternal s).2 .retNone
      obtain ⟨h3, h4⟩ := closeInternal_sofar s
      exact sofar_of_eq s _ (h1.trans h3) (h2.trans h4) hi
    · exact hi
  | requestFailed t =>
    simp only [step]; split
    · obtain ⟨h1, h2⟩ := holdOrDone_sofar (closeInternal s).1 t (closeInternal s).2 .retNone
      obtain ⟨h3, h4⟩ := closeInternal_sofar s
      exact sofar_of_eq s _ (h1.trans h3) (h2.trans h4) hi
    · exact hi
  | feedExt t code n =>
    simp only [step]
    have := checkAdd_sofar { s with recvd := s.recvd + n, discarded := s.discarded + n } n hi
    repeat' split
    all_goals first
      | exact hi
      | exact this
  | recv t k err =>
    simp only [step]
    repeat' split
    all_goals exact hi
  | sendall t n ext =>
    simp only [step]
    repeat' split
    all_goals exact hi
  | peerEof => simp only [step]; split <;> exact hi
  | emitFail t => simp only [step]; split <;> exact hi
  | unlink => simp only [step]; split <;> exact hi
  | shutdownRead => exact hi
  | setMode m => exact hi
  | feed n => exact hi
  | adjust n => exact hi

theorem run_sofar (cfg : Cfg) (s : St) (as : List Act) (hi : SofarInv s) : SofarInv (run cfg s as) := by
  induction as generalizing s with
  | nil => exact hi
  | cons a as ih => exact ih _ (step_sofar cfg s a hi)

end PV.Chan

namespace PV.Chan

/-! ## exact receiver accounting while `_check_add_window` does not short-circuit -/

/-- the receiving side still accounts for what it reads -/
def acct (s : St) : Bool := !(s.closed || s.eofRecv || !s.active)

theorem acct_mono (s s' : St) (f : Frame s s') (h : acct s' = true) : acct s = true := by
  obtain ⟨_, f2, _, _, f5, f6, _⟩ := f
  unfold acct at *
  cases hc : s.closed <;> cases he : s.eofRecv <;> cases ha : s.active <;> simp_all

def EqCore (s : St) : Prop := adjSum s.wire + heldAdjAll s.thr + s.inSofar = s.consumed + s.discarded

theorem eqcore_congr (s s' : St) (h1 : s'.wire = s.wire) (h2 : s'.thr = s.thr) (h3 : s'.inSofar = s.inSofar)
    (h4 : s'.consumed = s.consumed) (h5 : s'.discarded = s.discarded) (hi : EqCore s) : EqCore s' := by
  simp only [EqCore] at *; rw [h1, h2, h3, h4, h5]; exact hi

theorem eqcore_setThr (s : St) (t : Nat) (old x : TSt) (h : s.thr[t]? = some old)
    (hx : x.heldAdj = old.heldAdj) (hi : EqCore s) : EqCore (setThr s t x) := by
  have := heldAdj_set s.thr t old x h
  simp only [EqCore, setThr] at *
  omega

theorem eqcore_sendEff (s s' : St) (t : Nat) (old : TSt) (h : s.thr[t]? = some old) (ho : old.heldAdj = 0)
    (he : SendEff s s' t) (hi : EqCore s) : EqCore s' := by
  obtain ⟨d, x, rfl, _, _, hx, _⟩ := he
  exact eqcore_setThr _ t old x h (by omega) (eqcore_congr s _ rfl rfl rfl rfl rfl hi)

theorem eqcore_holdOrDone (s : St) (t : Nat) (ms : List Msg) (k : Kont) (old : TSt)
    (h : s.thr[t]? = some old) (hms : adjSum ms = old.heldAdj) (hi : EqCore s) :
    EqCore (holdOrDone s t ms k) := by
  unfold holdOrDone
  split
  · exact eqcore_setThr s t old _ h (by rw [kontState_heldAdj]; simpa [adjSum] using hms) hi
  · exact eqcore_setThr s t old _ h (by simpa [TSt.heldAdj] using hms) hi

theorem step_eqcore (cfg : Cfg) (hc : cfg.creditDiscarded = true) (s : St) (x : Act)
    (hx : ∀ t, x ≠ .emitFail t)
    (ha : acct (step cfg s x) = true) (hi : EqCore s) : EqCore (step cfg s x) := by
  have ha0 : acct s = true := acct_mono s _ (step_frame cfg s x) ha
  have hflag : (s.closed || s.eofRecv || !s.active) = false := by
    unfold acct at ha0; simpa using ha0
  clear ha
  cases x with
  | send t n ext =>
    simp only [step]; split
    · rename_i hid
      obtain ⟨r, hr⟩ := idleOf_spec s t hid
      exact eqcore_sendEff s _ t _ hr rfl (sendRegion_eff cfg s t n ext none) hi
    · exact hi
  | sendall t n ext =>
    simp only [step]; split
    · rename_i hid
      obtain ⟨r, hr⟩ := idleOf_spec s t hid
      split <;> exact eqcore_setThr s t _ _ hr rfl hi
    · exact hi
  | iter t =>
    simp only [step]; split
    · rename_i l ext hr
      exact eqcore_sendEff s _ t _ hr rfl (sendRegion_eff cfg s t l.rem ext (some l)) hi
    · exact hi
  | wake t dt =>
    simp only [step]; split
    · rename_i want ext left lp hr
      exact eqcore_sendEff s _ t _ hr rfl (wakeRegion_eff cfg s t dt want ext left lp) hi
    · exact hi
  | emit t =>
    simp only [step]; split
    · rename_i m ms k hr
      unfold holdOrDone
      split
      · have := heldAdj_set s.thr t _ (kontState k) hr
        have hk := kontState_heldAdj k
        simp only [EqCore, setThr, TSt.heldAdj, adjSum, adjSum_append] at *
        omega
      · rename_i m' ms'
        have := heldAdj_set s.thr t _ (.hold (m' :: ms') k) hr
        simp only [EqCore, setThr, TSt.heldAdj, adjSum, adjSum_append] at *
        omega
    · exact hi
  | recv t k err =>
    simp only [step]; split
    · rename_i hid
      obtain ⟨r, hr⟩ := idleOf_spec s t hid
      have hset : ∀ x, heldAdjAll (s.thr.set t x) + 0 = heldAdjAll s.thr + x.heldAdj :=
        fun x => heldAdj_set s.thr t _ x hr
      cases err
      all_goals
        simp only [Bool.false_eq_true, if_false, if_true]
        repeat' split
        all_goals first
          | exact hi
          | exact eqcore_setThr s t _ _ hr rfl hi
          | (have h1 := hset (.gotBytes s.inBuf); have h2 := hset (.gotBytes k)
             have h3 := hset (.gotBytes s.errBuf)
             simp only [EqCore, setThr, TSt.heldAdj] at *; omega)
    · exact hi
  | check t =>
    simp only [step]; split
    · rename_i n hr
      obtain ⟨h1, h2, h4, h5, _, _, _, _, heq⟩ := checkAdd_spec s n
      obtain ⟨heq, _, _⟩ := heq hflag
      generalize checkAdd s n = r at *
      obtain ⟨s1, ack⟩ := r
      simp only at h1 h2 h4 h5 heq ⊢
      split
      · rename_i h0
        have := heldAdj_set s.thr t _ (.idle (.bytes n)) hr
        simp only [EqCore, setThr, TSt.heldAdj, h1, h2, h4, h5] at *
        omega
      · have := heldAdj_set s.thr t _ (.hold [.adjust ack] (.retBytes n)) hr
        simp only [EqCore, setThr, TSt.heldAdj, adjSum, Msg.adjLen, h1, h2, h4, h5] at *
        omega
    · exact hi
  | close t =>
    simp only [step]; split
    · rename_i hid
      obtain ⟨r, hr⟩ := idleOf_spec s t hid
      obtain ⟨h1, h2, h3, h4, h5, _, _, _⟩ := closeInternal_spec s
      obtain ⟨_, _, _, _, _, h9⟩ := closeInternal_frame s
      exact eqcore_holdOrDone _ t _ _ (.idle r) (by rw [h2]; exact hr) (by rw [h9]; rfl)
        (eqcore_congr s _ h1 h2 h3 h4 h5 hi)
    · exact hi
  | shutdownWrite t =>
    simp only [step]; split
    · rename_i hid
      obtain ⟨r, hr⟩ := idleOf_spec s t hid
      obtain ⟨h1, h2, h3, h4, h5, _, _, _⟩ := sendEof_spec s
      obtain ⟨_, _, _, _, _, h9⟩ := sendEof_frame s
      exact eqcore_holdOrDone _ t _ _ (.idle r) (by rw [h2]; exact hr) (by rw [h9]; rfl)
        (eqcore_congr s _ h1 h2 h3 h4 h5 hi)
    · exact hi
  | shutdownRead => exact hi
  | setMode m => exact hi
  | feed n => exact hi
  | feedExt t code n =>
    simp only [step]; split
    · split <;> exact hi
    · split
      · rename_i hid
        obtain ⟨r, hr⟩ := idleOf_spec s t hid
        obtain ⟨h1, h2, h4, h5, _, _, _, _, heq⟩ :=
          checkAdd_spec { s with recvd := s.recvd + n, discarded := s.discarded + n } n
        obtain ⟨heq, _, _⟩ := heq hflag
        generalize checkAdd { s with recvd := s.recvd + n, discarded := s.discarded + n } n = r at *
        obtain ⟨s1, ack⟩ := r
        simp only at h1 h2 h4 h5 heq ⊢
        split
        · rename_i h0
          simp only [EqCore, h1, h2, h4, h5] at *
          omega
        · have := heldAdj_set s.thr t _ (.hold [.adjust ack] .retNone) hr
          simp only [EqCore, setThr, TSt.heldAdj, adjSum, Msg.adjLen, h1, h2, h4, h5] at *
          omega
      · exact hi
  | adjust n => exact hi
  | peerEof => simp only [step]; split <;> exact hi
  | peerClose t =>
    simp only [step]; split
    · rename_i hid
      obtain ⟨r, hr⟩ := idleOf_spec s t hid
      obtain ⟨h1, h2, h3, h4, h5, _, _, _⟩ := closeInternal_spec s
      obtain ⟨_, _, _, _, _, h9⟩ := closeInternal_frame s
      exact eqcore_holdOrDone _ t _ _ (.idle r) (by simp only; rw [h2]; exact hr) (by rw [h9]; rfl)
        (eqcore_congr s _ h1 h2 h3 h4 h5 hi)
    · exact hi
  | requestFailed t =>
    simp only [step]; split
    · rename_i hid
      obtain ⟨r, hr⟩ := idleOf_spec s t hid
      obtain ⟨h1, h2, h3, h4, h5, _, _, _⟩ := closeInternal_spec s
      obtain ⟨_, _, _, _, _, h9⟩ := closeInternal_frame s
      exact eqcore_holdOrDone _ t _ _ (.idle r) (by rw [h2]; exact hr) (by rw [h9]; rfl)
        (eqcore_congr s _ h1 h2 h3 h4 h5 hi)
    · exact hi
  | emitFail t => exact absurd rfl (hx t)
  | unlink => simp only [step]; split <;> exact hi

/-- while the receiver accounts: acks written + acks/reads pending + in_window_sofar = consumed + discarded -/
def EqInv (s : St) : Prop := acct s = true → EqCore s

/-- (an acknowledgement whose `_send_user_message` raises is lost, so the equality needs "no failed send") -/
theorem step_eqinv (cfg : Cfg) (hc : cfg.creditDiscarded = true) (s : St) (x : Act)
    (hx : ∀ t, x ≠ .emitFail t) (hi : EqInv s) : EqInv (step cfg s x) := by
  intro ha
  exact step_eqcore cfg hc s x hx ha (hi (acct_mono s _ (step_frame cfg s x) ha))

end PV.Chan
