/-
  PV.Model.RunLoop — the transport thread's dispatch loop (`Transport.run`, paramiko/transport.py) with
  everything it calls that decides *which* message is acceptable *when*:

    * `Packetizer.read_message` / `send_message` sequence numbers (mod 2^32, roll-over guard during the
      initial key exchange), `reset_seqno_in/out`;
    * the IGNORE / DISCONNECT / DEBUG prefix with `_enforce_strict_kex`;
    * the expected-packet test and the hand-over of types 30..41 to the kex engine;
    * handler-table, channel-table, auth-table dispatch with `_ensure_authed`;
    * the fallback branch (UNIMPLEMENTED reply, `MSG_NAMES` lookup);
    * `_negotiate_keys`, `_send_kex_init`, the strict-kex part of `_parse_kex_init` (marker scan, seqno-0
      test), `_activate_outbound`, `_parse_newkeys` / `_activate_inbound` (sequence-number resets).

  Outside the model (inputs of a step, universally quantified in the theorems): what a connection/auth
  layer handler does (`HEffect`), whether the kex engine accepts a packet's *content* (`engineOk`), the
  outcome of algorithm negotiation (`KexParse`, C05's subject) and `Packetizer.need_rekey()` (C10's).
  A kex engine is its *script*: the `_expect_packet` sets and the message types it emits per step.
  Mathlib-free; everything is executable (Driver/C12.lean, Driver/C09.lean).
-/
import PV.Base.Bytes
namespace PV.RunLoop

/-! ## protocol numbers used by the loop (compared with paramiko/common.py by `PV.Props.C12.constants_match`) -/
abbrev MSG_DISCONNECT : Nat := 1
abbrev MSG_IGNORE : Nat := 2
abbrev MSG_UNIMPLEMENTED : Nat := 3
abbrev MSG_DEBUG : Nat := 4
abbrev MSG_EXT_INFO : Nat := 7
abbrev MSG_KEXINIT : Nat := 20
abbrev MSG_NEWKEYS : Nat := 21
abbrev MSG_GLOBAL_REQUEST : Nat := 80
abbrev MSG_REQUEST_FAILURE : Nat := 82
abbrev MSG_CHANNEL_OPEN : Nat := 90
abbrev MSG_CHANNEL_OPEN_FAILURE : Nat := 92
abbrev SEQ_MOD : Nat := 4294967296

/-- Key sets of the dispatch tables, as read from the source on every run (`PV.Generated.C12`). -/
structure Tables where
  names : List Nat            -- keys of common.MSG_NAMES
  namesTotal : Bool           -- every debug-name lookup on the receive path (run() fallback, read_message,
                              -- send_message) has a default / an `in` guard; none is a bare `MSG_NAMES[...]`
  transport : List Nat        -- Transport(...)._handler_table
  transportSRT : List Nat     -- ServiceRequestingTransport(...)._handler_table
  channel : List Nat          -- Transport._channel_handler_table
  authServer : List Nat       -- AuthHandler._server_handler_table
  authClient : List Nat       -- AuthHandler._client_handler_table
  authOnlyServer : List Nat   -- AuthOnlyHandler._server_handler_table
  authOnlyClient : List Nat   -- AuthOnlyHandler._client_handler_table
  gssMic : List Nat           -- GssapiWithMicAuthHandler._handler_table
  highestUserauth : Nat       -- HIGHEST_USERAUTH_MESSAGE_ID
  deriving Repr, DecidableEq

/-- which object `transport.auth_handler` is -/
inductive AuthH | none | std | only | gssMic
  deriving Repr, DecidableEq, Inhabited

/-- why the loop was left -/
inductive Err
  | strictOrder     -- MessageOrderError
  | ssh             -- SSHException: expected-packet mismatch (non strict), kex engine refusal
  | incompatible    -- IncompatiblePeer
  | rollover        -- SSHException "Sequence number rolled over during initial kex!"
  | keyError        -- KeyError out of `MSG_NAMES[ptype]`
  | internal        -- any other exception class (AttributeError, TypeError, IndexError …)
  | disconnect      -- peer sent DISCONNECT: `break`, no exception
  | unknownChannel  -- message for a channel id never seen: `break`, no exception
  deriving Repr, DecidableEq, Inhabited

/-- one step of a kex engine: what `_expect_packet` was armed with, what the engine emits on acceptance -/
structure EStep where
  accept : List Nat
  sends : List Nat
  deriving Repr, DecidableEq, Inhabited

/-- a kex engine as a script (`cur` is the armed step) -/
structure Engine where
  startSends : List Nat
  cur : EStep
  rest : List EStep
  deriving Repr, DecidableEq, Inhabited

/-- a message handed to `Packetizer.send_message`: type, sequence number it went out under, and for
UNIMPLEMENTED the rejected packet's sequence number (0 otherwise) -/
structure Sent where
  ptype : Nat
  seqno : Nat
  arg : Nat
  deriving Repr, DecidableEq, Inhabited

structure St where
  server : Bool
  srt : Bool                    -- ServiceRequestingTransport
  advertiseStrict : Bool        -- Transport(strict_kex=…)
  serverSigAlgs : Bool
  active : Bool := true
  err : Option Err := none
  agreedStrict : Bool := false
  initialKexDone : Bool := false
  inKex : Bool := false
  localKexInit : Bool := false  -- `local_kex_init is not None`
  clearToSend : Bool := false
  expected : List Nat := []
  engine : Option Engine := none
  haveK : Bool := false         -- `self.K is not None` (set by the engine's last step, dropped by NEWKEYS)
  remoteExtInfoC : Bool := false
  authH : AuthH := .none
  authenticated : Bool := false
  chans : List Nat := []
  seen : List Nat := []
  seqIn : Nat := 0
  seqOut : Nat := 0
  rx : List Nat := []           -- ghost: types received, in order
  tx : List Sent := []          -- ghost: messages sent, in order
  kexScript : Option Engine := none  -- ghost: the engine as negotiated by the latest KEXINIT, before any step
  deriving Repr, DecidableEq, Inhabited

/-- outcome of `_really_parse_kex_init` + negotiation for a KEXINIT (negotiation itself is C05's model) -/
inductive KexParse
  | malformed                 -- a reader raised (non UTF-8 name list …): generic exception
  | incompatible              -- some category has no common algorithm
  | ok (e : Engine)           -- agreed; `e` = script of the chosen engine in this role
  deriving Repr, DecidableEq, Inhabited

/-- what an unmodelled handler (connection layer, auth layer, EXT_INFO …) does with a message -/
structure HEffect where
  raises : Option Err := none
  sends : List Nat := []
  expects : List Nat := []         -- auth handlers may arm `_expected_packet`
  authNow : Bool := false          -- `_auth_trigger`
  authH : Option AuthH := none     -- auth_handler replaced
  opens : List Nat := []           -- channel ids added
  closes : List Nat := []          -- channel ids unlinked
  deriving Repr, DecidableEq, Inhabited

/-- answers of everything outside the model for one received packet -/
structure Ext where
  kexNames : List String := []     -- the KEXINIT's kex_algorithms name list
  kex : KexParse := .incompatible
  engineOk : Bool := true
  needRekey : Bool := false        -- `packetizer.need_rekey()` when `_activate_outbound`/`_parse_newkeys` ask
  handler : HEffect := {}
  deriving Repr, Inhabited

inductive Ev
  | recv (ptype : Nat) (payload : Bytes) (x : Ext)
  | rekey                           -- loop top: `need_rekey() and not in_kex` → `_send_kex_init()`
  deriving Repr, Inhabited

/-! ## primitives -/

/-- an exception leaves the loop: `saved_exception`, `active = False` -/
def St.fail (s : St) (e : Err) : St := { s with err := some e, active := false }

/-- run `f` unless an exception is already propagating -/
@[inline] def St.andThen (s : St) (f : St → St) : St := if s.err.isSome then s else f s

/-- `Packetizer.send_message` as far as the loop can see it: sequence number, roll-over guard
(the guard fires *before* the packet is written) -/
def St.send (s : St) (t : Nat) (arg : Nat := 0) : St :=
  if s.err.isSome then s else
  let next := (s.seqOut + 1) % SEQ_MOD
  if next = 0 ∧ ¬ s.initialKexDone then s.fail .rollover
  else { s with seqOut := next, tx := s.tx ++ [⟨t, s.seqOut, arg⟩] }

def St.sendAll (s : St) : List Nat → St
  | [] => s
  | t :: ts => (s.send t).sendAll ts

/-- `_enforce_strict_kex` -/
def enforceStrict (s : St) : St :=
  if s.agreedStrict ∧ ¬ s.initialKexDone then s.fail .strictOrder else s

/-- `_send_kex_init` -/
def sendKexInit (s : St) : St :=
  ({ s with clearToSend := false, inKex := true }.send MSG_KEXINIT).andThen
    fun s => { s with localKexInit := true }

/-- the marker scan of `_parse_kex_init`: (remote ext-info name, agreed_on_strict_kex) -/
def scanMarkers (server advertise : Bool) : List String → Option String × Bool → Option String × Bool
  | [], acc => acc
  | a :: as, (ei, agreed) =>
    if a.startsWith "ext-info-" then scanMarkers server advertise as (some a, agreed)
    else if a.startsWith "kex-strict-" then
      let expected := if server then "kex-strict-c-v00@openssh.com" else "kex-strict-s-v00@openssh.com"
      scanMarkers server advertise as (ei, a == expected && advertise)
    else scanMarkers server advertise as (ei, agreed)

/-- `_activate_outbound` -/
def activateOutbound (s : St) (x : Ext) : St :=
  (s.send MSG_NEWKEYS).andThen fun s =>
  let s := if s.agreedStrict then { s with seqOut := 0 } else s
  let s := if ¬ x.needRekey then { s with inKex := false } else s
  let s := if s.server ∧ s.serverSigAlgs ∧ s.remoteExtInfoC then s.send MSG_EXT_INFO else s
  s.andThen fun s => { s with expected := [MSG_NEWKEYS] }

/-- `kex_engine.parse_next` for an accepted type -/
def engineNext (s : St) (x : Ext) : St :=
  match s.engine with
  | none => s.fail .internal          -- `None.parse_next`
  | some e =>
    if ¬ x.engineOk then s.fail .ssh else
    (s.sendAll e.cur.sends).andThen fun s =>
    match e.rest with
    | nxt :: more => { s with engine := some { e with cur := nxt, rest := more }, expected := nxt.accept }
    | [] => activateOutbound { s with haveK := true } x

/-- first half of `_negotiate_keys`: block user sends; answer a peer-initiated exchange with our KEXINIT -/
def ensureLocalKexInit (s : St) : St :=
  let s := { s with clearToSend := false }
  if ¬ s.localKexInit then sendKexInit s else s

/-- `_parse_kex_init` followed by `kex_engine.start_kex()` -/
def parseKexInit (s : St) (seqno : Nat) (x : Ext) : St :=
  match x.kex with
  | .malformed => s.fail .internal
  | k =>
    let sc := scanMarkers s.server s.advertiseStrict x.kexNames (none, s.agreedStrict)
    let s := { s with remoteExtInfoC := sc.1 == some "ext-info-c", agreedStrict := sc.2 }
    if s.agreedStrict ∧ ¬ s.initialKexDone ∧ seqno ≠ 0 then s.fail .strictOrder else
    match k with
    | .ok e =>
      ({ s with engine := some e, kexScript := some e }.sendAll e.startSends).andThen fun s =>
        { s with expected := e.cur.accept }
    | _ => s.fail .incompatible

/-- `_negotiate_keys` (→ `_send_kex_init`?, `_parse_kex_init`, `kex_engine.start_kex`) -/
def negotiateKeys (s : St) (seqno : Nat) (x : Ext) : St :=
  (ensureLocalKexInit s).andThen fun s => parseKexInit s seqno x

/-- `_parse_newkeys` (→ `_activate_inbound`) -/
def parseNewkeys (s : St) (x : Ext) : St :=
  if ¬ s.haveK then s.fail .internal else     -- `_compute_key` with `K = None`
  let s := if s.agreedStrict then { s with seqIn := 0 } else s
  let s := { s with localKexInit := false, haveK := false, engine := none }
  let s := if s.server ∧ s.authH = .none then { s with authH := .std } else s
  let s := { s with initialKexDone := true }
  let s := if ¬ x.needRekey then { s with inKex := false } else s
  { s with clearToSend := true }

def applyHandler (s : St) (h : HEffect) : St :=
  match h.raises with
  | some e => s.fail e
  | none =>
    (s.sendAll h.sends).andThen fun s =>
    { s with
      expected := if h.expects.isEmpty then s.expected else h.expects
      authenticated := s.authenticated || h.authNow
      authH := h.authH.getD s.authH
      chans := (s.chans ++ h.opens).filter (fun c => !h.closes.contains c)
      seen := s.seen ++ h.opens }

def transportTable (T : Tables) (s : St) : List Nat := if s.srt then T.transportSRT else T.transport

def authTable (T : Tables) (s : St) : List Nat :=
  match s.authH with
  | .none => []
  | .std => if s.server then T.authServer else T.authClient
  | .only => if s.server then T.authOnlyServer else T.authOnlyClient
  | .gssMic => T.gssMic

/-- first four payload bytes as a big-endian number, short payloads padded with zeros (`Message.get_int`) -/
def chanIdOf (payload : Bytes) : Nat := beVal ((payload ++ [0, 0, 0, 0]).take 4)

/-- types the loop has some handler for in this role/state (everything else takes the fallback branch) -/
def handled (T : Tables) (s : St) (t : Nat) : Bool :=
  t == MSG_IGNORE || t == MSG_DISCONNECT || t == MSG_DEBUG ||
  (transportTable T s).contains t || T.channel.contains t || (authTable T s).contains t

/-- message types that only ever travel client → server (RFC 4253 §10 SERVICE_REQUEST; RFC 4252 USERAUTH_REQUEST,
method-specific 61 INFO_RESPONSE / GSSAPI_TOKEN, 63 GSSAPI_EXCHANGE_COMPLETE, 66 GSSAPI_MIC): a *client* has no
business handling them -/
def clientToServer : List Nat := [5, 50, 61, 63, 66]

/-- message types that only ever travel server → client (SERVICE_ACCEPT; USERAUTH_FAILURE / SUCCESS / BANNER;
method-specific 60 PK_OK / INFO_REQUEST / GSSAPI_RESPONSE, 64 GSSAPI_ERROR, 65 GSSAPI_ERRTOK): a *server* has no
business handling them -/
def serverToClient : List Nat := [6, 51, 52, 53, 60, 64, 65]

/-- types whose protocol direction makes them meaningless for a transport in this role -/
def wrongDirection (server : Bool) : List Nat := if server then serverToClient else clientToServer

/-- the fallback branch of `run()` -/
def fallback (T : Tables) (s : St) (ptype seqno : Nat) : St :=
  if ¬ T.namesTotal ∧ ¬ T.names.contains ptype then s.fail .keyError
  else if ptype ≠ MSG_UNIMPLEMENTED then s.send MSG_UNIMPLEMENTED seqno
  else s

/-- table dispatch (`if ptype in self._handler_table: … elif … else`) -/
def dispatch (T : Tables) (s : St) (ptype seqno : Nat) (payload : Bytes) (x : Ext) : St :=
  if (transportTable T s).contains ptype then
    -- `_ensure_authed`
    if s.server ∧ ptype > T.highestUserauth ∧ ¬ s.authenticated then
      if ptype = MSG_GLOBAL_REQUEST then s.send MSG_REQUEST_FAILURE
      else if ptype = MSG_CHANNEL_OPEN then s.send MSG_CHANNEL_OPEN_FAILURE
      else s.fail .internal        -- an empty Message is "sent": IndexError in `send_message`
    else if ptype = MSG_KEXINIT then negotiateKeys s seqno x
    else if ptype = MSG_NEWKEYS then parseNewkeys s x
    else applyHandler s x.handler
  else if T.channel.contains ptype then
    let cid := chanIdOf payload
    if s.chans.contains cid then applyHandler s x.handler
    else if s.seen.contains cid then s
    else { s with active := false, err := some .unknownChannel }
  else if (authTable T s).contains ptype then applyHandler s x.handler
  else fallback T s ptype seqno

/-- `read_message` bookkeeping for a packet of type `t`: next inbound sequence number, ghost history -/
def bump (s : St) (t : Nat) : St := { s with seqIn := (s.seqIn + 1) % SEQ_MOD, rx := s.rx ++ [t] }

/-- the expected-packet test and what follows it -/
def afterExpected (T : Tables) (s : St) (ptype seqno : Nat) (payload : Bytes) (x : Ext) : St :=
  if s.expected ≠ [] then
    if ¬ s.expected.contains ptype then s.fail (if s.agreedStrict then .strictOrder else .ssh)
    else
      let s := { s with expected := [] }
      if 30 ≤ ptype ∧ ptype ≤ 41 then engineNext s x
      else dispatch T s ptype seqno payload x
  else dispatch T s ptype seqno payload x

/-- the loop body for one packet (`seqno` = the number `read_message` stamped on it) -/
def body (T : Tables) (s : St) (ptype seqno : Nat) (payload : Bytes) (x : Ext) : St :=
  if ptype = MSG_IGNORE then enforceStrict s
  else if ptype = MSG_DISCONNECT then { s with active := false, err := some .disconnect }
  else if ptype = MSG_DEBUG then enforceStrict s
  else afterExpected T s ptype seqno payload x

/-- one received packet: `read_message` (roll-over guard, counters), then the loop body -/
def recv (T : Tables) (s : St) (ptype : Nat) (payload : Bytes) (x : Ext) : St :=
  if (s.seqIn + 1) % SEQ_MOD = 0 ∧ ¬ s.initialKexDone then s.fail .rollover
  else body T (bump s ptype) ptype s.seqIn payload x

def step (T : Tables) (s : St) : Ev → St
  | .recv t p x => if s.active ∧ s.err.isNone then recv T s t p x else s
  | .rekey => if s.active ∧ s.err.isNone ∧ ¬ s.inKex then sendKexInit s else s

def run (T : Tables) (s : St) (evs : List Ev) : St := evs.foldl (step T) s

/-- the state when the loop is entered: banner exchanged, `_send_kex_init()`, `_expect_packet(MSG_KEXINIT)` -/
def init (server srt advertiseStrict serverSigAlgs : Bool) : St :=
  { sendKexInit { server, srt, advertiseStrict, serverSigAlgs } with expected := [MSG_KEXINIT] }

/-! ## scripts of paramiko's kex engines per role (checked against the real engines by the correspondence) -/
inductive KexKind | dhGroup | ecdh | gex | gexOld
  deriving Repr, DecidableEq, Inhabited

def engineOf (k : KexKind) (server : Bool) : Engine :=
  match k, server with
  | .dhGroup, false | .ecdh, false => ⟨[30], ⟨[31], []⟩, []⟩
  | .dhGroup, true | .ecdh, true => ⟨[], ⟨[30], [31]⟩, []⟩
  | .gex, false => ⟨[34], ⟨[31], [32]⟩, [⟨[33], []⟩]⟩
  | .gexOld, false => ⟨[30], ⟨[31], [32]⟩, [⟨[33], []⟩]⟩
  | .gex, true | .gexOld, true => ⟨[], ⟨[34, 30], [31]⟩, [⟨[32], [33]⟩]⟩

end PV.RunLoop
