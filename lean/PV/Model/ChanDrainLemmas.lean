/-
  Draining (C20, liveness skeleton): the actions by which the network, the reader and threads that already
  hold a message make progress — wire writes, deliveries, reads of buffered data, `_check_add_window` — strictly
  decrease a natural-number measure, so only finitely many of them can happen in a row; when none is enabled any
  more the system is quiescent (PV.Props.C20.stuck_impossible then says the sender's window is open).
-/
import PV.Model.ChanPairLemmas
import PV.Model.ChanCloseLemmas
namespace PV.ChanPair
open PV.Chan

def wl (m : Msg) : Nat := 1 + 4 * m.dataLen          -- a message in flight
def wh (m : Msg) : Nat := 2 + 4 * m.dataLen          -- a message a thread still has to write

def whSum : List Msg → Nat
  | [] => 0
  | m :: ms => wh m + whSum ms

def wlSum : List Msg → Nat
  | [] => 0
  | m :: ms => wl m + wlSum ms

def heldW : TSt → Nat
  | .hold ms _ => whSum ms
  | .gotBytes _ => 3
  | _ => 0

/-- an open channel may still answer a CLOSE with two messages -/
def openW (closed : Bool) : Nat := bif closed then 0 else 10

@[simp] theorem openW_true : openW true = 0 := rfl
@[simp] theorem openW_false : openW false = 10 := rfl

/-- measure of one side -/
def muS (s : St) : Nat := sumBy heldW s.thr + 4 * (s.inBuf + s.errBuf) + openW s.closed

def mu (y : Sys) : Nat := muS y.a + muS y.b + wlSum y.ab + wlSum y.ba

theorem wlSum_append (a b : List Msg) : wlSum (a ++ b) = wlSum a + wlSum b := by
  induction a with
  | nil => simp [wlSum]
  | cons m ms ih => simp only [List.cons_append, wlSum, ih]; omega

theorem heldW_holdState (ms : List Msg) (k : Kont) : heldW (holdState ms k) = whSum ms := by
  cases ms with
  | nil =>
    simp only [holdState, whSum]
    cases k with
    | loop l e n => simp only [kontState]; split <;> rfl
    | _ => rfl
  | cons a b => rfl

/-- drain actions of one side and when they are enabled -/
inductive SideDrain (s : St) : Act → Prop where
  | emit (t : Nat) (m : Msg) (ms : List Msg) (k : Kont) : s.thr[t]? = some (.hold (m :: ms) k) → SideDrain s (.emit t)
  | recv (t k : Nat) (err : Bool) : idleOf s t = true → 0 < k →
      0 < (if err then s.errBuf else s.inBuf) → SideDrain s (.recv t k err)
  | check (t n : Nat) : s.thr[t]? = some (.gotBytes n) → SideDrain s (.check t)

/-- a local drain action: the side's measure plus the weight of what it wrote goes down by at least one -/
theorem sideDrain_decreases (cfg : Cfg) (s : St) (x : Act) (h : SideDrain s x) :
    muS (step cfg s x) + wlSum ((step cfg s x).wire.drop s.wire.length) + 1 ≤ muS s := by
  cases h with
  | emit t m ms k hr =>
    simp only [step, hr]
    rw [holdOrDone_eq]
    have hs := sumBy_set heldW s.thr t _ (holdState ms k) hr
    rw [heldW_holdState] at hs
    simp only [muS, setThr, heldW, whSum, List.drop_left, wlSum, wl, wh] at *
    omega
  | recv t k err hid hk hb =>
    obtain ⟨r, hr⟩ := idleOf_spec s t hid
    have hs := fun x => sumBy_set heldW s.thr t _ x hr
    simp only [step, hid, if_true]
    cases err
    · simp only [Bool.false_eq_true, if_false] at hb ⊢
      have hne : s.inBuf ≠ 0 := by omega
      simp only [hne, if_false]
      have h1 := hs (.gotBytes s.inBuf)
      have h2 := hs (.gotBytes k)
      simp only [muS, setThr, heldW, List.drop_length, wlSum] at *
      split <;> omega
    · simp only [if_true] at hb ⊢
      have hne : s.errBuf ≠ 0 := by omega
      simp only [hne, if_false]
      have h1 := hs (.gotBytes s.errBuf)
      have h2 := hs (.gotBytes k)
      simp only [muS, setThr, heldW, List.drop_length, wlSum] at *
      split <;> omega
  | check t n hr =>
    simp only [step, hr]
    obtain ⟨v, e⟩ := checkAdd_shape s n
    have hs := fun x => sumBy_set heldW s.thr t _ x hr
    split
    · rw [e]
      have h1 := hs (.idle (.bytes n))
      simp only [muS, setThr, heldW, List.drop_length, wlSum] at *
      omega
    · rw [e]
      have h1 := hs (.hold [.adjust (checkAdd s n).2] (.retBytes n))
      simp only [muS, setThr, heldW, whSum, wh, Msg.dataLen, List.drop_length, wlSum] at *
      omega

theorem checkAdd_zero_of_small (s : St) (hs : SofarInv s) : (checkAdd s 0).2 = 0 := by
  unfold checkAdd SofarInv at *
  split
  · rfl
  · split
    · rfl
    · omega

/-- a delivery: the receiving side's measure grows by less than the weight of the delivered message -/
theorem handler_decreases (s : St) (t code : Nat) (m : Msg) (hid : idleOf s t = true) (hs : SofarInv s) :
    muS (step fixedCfg s (handlerAct t code m)) + 1 ≤ muS s + wl m ∧
    (step fixedCfg s (handlerAct t code m)).wire = s.wire := by
  refine ⟨?_, handler_wire fixedCfg s t code m⟩
  obtain ⟨r, hr⟩ := idleOf_spec s t hid
  have hset := fun x => sumBy_set heldW s.thr t _ x hr
  cases m with
  | data n => simp only [handlerAct, step, muS, wl, Msg.dataLen]; omega
  | adjust n => simp only [handlerAct, step, muS, wl, Msg.dataLen]; omega
  | eof => simp only [handlerAct, step]; split <;> (simp only [muS, wl, Msg.dataLen]; omega)
  | close =>
    simp only [handlerAct, step, hid, if_true]
    rw [holdOrDone_eq]
    rcases closeInternal_cases s with ⟨_, e⟩ | ⟨_, hc, _, e⟩ | ⟨_, hc, _, e⟩
    · rw [e]
      have := hset (holdState [] .retNone)
      simp only [muS, setThr, holdState, kontState, heldW, wl, Msg.dataLen] at *
      omega
    · rw [e]
      have := hset (holdState [.close] .retNone)
      simp only [muS, setThr, setClosed, holdState, heldW, whSum, wh, wl, Msg.dataLen, hc, openW_true,
        openW_false] at *
      omega
    · rw [e]
      have := hset (holdState [.eof, .close] .retNone)
      simp only [muS, setThr, setClosed, holdState, heldW, whSum, wh, wl, Msg.dataLen, hc, openW_true,
        openW_false] at *
      omega
  | ext n =>
    simp only [handlerAct, step]
    split
    · split <;> (simp only [muS, wl, Msg.dataLen]; omega)
    · simp only [fixedCfg, if_true, hid]
      obtain ⟨v, e⟩ := checkAdd_shape { s with recvd := s.recvd + n, discarded := s.discarded + n } n
      split
      · rw [e]; simp only [muS, wl, Msg.dataLen]; omega
      · rename_i hack
        rw [e]
        have := hset (.hold [.adjust (checkAdd { s with recvd := s.recvd + n, discarded := s.discarded + n } n).2]
          .retNone)
        have hn : n ≠ 0 := by
          intro h0
          subst h0
          exact hack (checkAdd_zero_of_small _ hs)
        simp only [muS, setThr, heldW, whSum, wh, wl, Msg.dataLen] at *
        omega

/-- the drain actions of the two-sided system -/
inductive Drain (y : Sys) : PAct → Prop where
  | left (x : Act) : SideDrain y.a x → Drain y (.left x)
  | right (x : Act) : SideDrain y.b x → Drain y (.right x)
  | deliverAB (t code : Nat) (m : Msg) (rest : List Msg) : y.ab = m :: rest → idleOf y.b t = true →
      Drain y (.deliverAB t code)
  | deliverBA (t code : Nat) (m : Msg) (rest : List Msg) : y.ba = m :: rest → idleOf y.a t = true →
      Drain y (.deliverBA t code)

theorem sideDrain_local (s : St) (x : Act) (h : SideDrain s x) : localAct x = true := by
  cases h <;> rfl

theorem drain_decreases (y : Sys) (p : PAct) (h : Drain y p) (ha : SofarInv y.a) (hb : SofarInv y.b) :
    mu (pstep fixedCfg y p) < mu y := by
  cases h with
  | left x hx =>
    have := sideDrain_decreases fixedCfg y.a x hx
    simp only [pstep, sideDrain_local _ _ hx, if_true, sideStep, mu, wlSum_append] at *
    omega
  | right x hx =>
    have := sideDrain_decreases fixedCfg y.b x hx
    simp only [pstep, sideDrain_local _ _ hx, if_true, sideStep, mu, wlSum_append] at *
    omega
  | deliverAB t code m rest hab hid =>
    simp only [pstep, hab, hid, if_true, deliverTo, mu, wlSum]
    split
    · have := (handler_decreases y.b t code m hid hb).1
      omega
    · simp only [wl]; omega
  | deliverBA t code m rest hba hid =>
    simp only [pstep, hba, hid, if_true, deliverTo, mu, wlSum]
    split
    · have := (handler_decreases y.a t code m hid ha).1
      omega
    · simp only [wl]; omega

/-- a run made of enabled drain actions only -/
inductive DrainRun : Sys → List PAct → Prop where
  | nil (y : Sys) : DrainRun y []
  | cons (y : Sys) (p : PAct) (ps : List PAct) : Drain y p → DrainRun (pstep fixedCfg y p) ps → DrainRun y (p :: ps)

theorem pstep_sofar (y : Sys) (p : PAct) (ha : SofarInv y.a) (hb : SofarInv y.b) :
    SofarInv (pstep fixedCfg y p).a ∧ SofarInv (pstep fixedCfg y p).b := by
  cases p with
  | left x =>
    simp only [pstep]; split
    · exact ⟨step_sofar _ _ _ ha, hb⟩
    · exact ⟨ha, hb⟩
  | right x =>
    simp only [pstep]; split
    · exact ⟨ha, step_sofar _ _ _ hb⟩
    · exact ⟨ha, hb⟩
  | deliverAB t code =>
    simp only [pstep]; split
    · exact ⟨ha, hb⟩
    · split
      · unfold deliverTo; split
        · exact ⟨ha, step_sofar _ _ _ hb⟩
        · exact ⟨ha, hb⟩
      · exact ⟨ha, hb⟩
  | deliverBA t code =>
    simp only [pstep]; split
    · exact ⟨ha, hb⟩
    · split
      · unfold deliverTo; split
        · exact ⟨step_sofar _ _ _ ha, hb⟩
        · exact ⟨ha, hb⟩
      · exact ⟨ha, hb⟩

/-- only finitely many drain actions can happen in a row: at most `mu y` -/
theorem drainRun_bounded (y : Sys) (ps : List PAct) (h : DrainRun y ps) (ha : SofarInv y.a) (hb : SofarInv y.b) :
    ps.length + mu (prun fixedCfg y ps) ≤ mu y := by
  induction h with
  | nil y => simp [prun]
  | cons y p ps hd _ ih =>
    have hdec := drain_decreases y p hd ha hb
    obtain ⟨ha', hb'⟩ := pstep_sofar y p ha hb
    have := ih ha' hb'
    simp only [List.length_cons]
    show ps.length + 1 + mu (prun fixedCfg (pstep fixedCfg y p) ps) ≤ mu y
    omega

end PV.ChanPair
