/-
  PV.Model.Kex — executable model of paramiko's key-exchange engines
    kex_group1.py / kex_group14.py / kex_group16.py   (`Group`, `grp*`)
    kex_gex.py                                        (`gex*`)
    kex_ecdh_nist.py                                  (`ec*`)
    kex_curve25519.py                                 (`cv*`)
  and of the two `Transport` callbacks the engines use to publish their result
  (`_set_K_H`, `_expect_packet`) together with the `run()` gate that lets a key-exchange packet
  reach the engine only if its type is in `_expected_packet`.

  An engine step does not touch a transport: it returns the ordered list of calls it makes on it
  (`Effect`) and either the new engine state or the class of the exception that ended the step
  (`Res`).  `Transport._verify_key` may raise in the middle of a step; `Env.verify` is its
  outcome, and the step's effect list ends at the failing call.

  External primitives are parameters: the hash (`Env.hash`), the host key's signer and verifier
  (`Env.sign`, `Env.verify`), the moduli pack (`Env.modulus`), the curve library (`Curve`:
  point validation, scalar multiplication, and whatever refusal `exchange()` does on its own),
  and the engine's random exponent (`x`, an argument of the step that draws it).
  Mathlib-free.
-/
import PV.Base.Wire
namespace PV.Kex
open PV PV.Wire

/-! ## integer helpers -/

/-- Python `pow(b, e, m)` for `b, e ≥ 0`, `m > 0`: square-and-multiply. -/
def powMod (b e m : Nat) : Nat :=
  if h : e = 0 then 1 % m
  else
    let r := powMod b (e / 2) m
    let sq := r * r % m
    if e % 2 = 1 then sq * (b % m) % m else sq
decreasing_by omega

/-- Python `pow(b, e, m)` for an `int` base of either sign (`e ≥ 0`, `m > 0`). -/
def pyPow (b : Int) (e m : Nat) : Nat := powMod (b % (m : Int)).toNat e m

/-- `int.bit_length()` of a non-negative int -/
def natBits (n : Nat) : Nat := if h : n = 0 then 0 else natBits (n / 2) + 1
decreasing_by omega

/-- `util.bit_length(n)` = `n.bit_length()` (the sign is ignored) -/
def bitLength (z : Int) : Nat := natBits z.natAbs

/-! ## what an engine can do to its transport -/

inductive Err
  | ssh     -- SSHException
  | value   -- ValueError (raised inside `cryptography`)
  | type    -- TypeError (arithmetic on an engine field that is still `None`)
  deriving DecidableEq, Repr

inductive Effect
  | send (payload : Bytes)             -- transport._send_message(m)
  | expect (types : List Nat)          -- transport._expect_packet(*types)
  | hashed (input : Bytes)             -- self.hash_algo(input)
  | setKH (K : Nat) (H : Bytes)        -- transport._set_K_H(K, H)
  | verifyKey (hostKey sig : Bytes)    -- transport._verify_key(host_key, sig)
  | activate                           -- transport._activate_outbound()
  deriving DecidableEq, Repr

structure Res (σ : Type) where
  eff : List Effect
  out : Except Err σ

/-- the transport attributes an engine reads, and the primitives it calls -/
structure Env where
  serverMode : Bool
  localVersion : Bytes
  remoteVersion : Bytes
  localKexInit : Bytes
  remoteKexInit : Bytes
  /-- server: `get_server_key().asbytes()` -/
  hostKey : Bytes
  hash : Bytes → Bytes
  /-- server: `get_server_key().sign_ssh_data(H, host_key_type)` as bytes -/
  sign : Bytes → Bytes
  /-- client: does `_verify_key(host_key, sig)` return (true) or raise SSHException, given `H` -/
  verify : (hostKey H sig : Bytes) → Bool
  /-- server: `_get_modulus_pack().get_modulus(min, prefer, max)` = `(g, p)`; `none` = no pack / raises -/
  modulus : Nat → Nat → Nat → Option (Nat × Nat)

def rd (m : Bytes) : Rd := { content := m, pos := 0 }

/-! ## exchange-hash inputs (RFC 4253 §8, RFC 4419 §3, RFC 5656 §4), in protocol order -/

def hashInGroup (vc vs ic is_ ks : Bytes) (e f : Int) (K : Nat) : Bytes :=
  encStr vc ++ encStr vs ++ encStr ic ++ encStr is_ ++ encStr ks ++
    encMpint e ++ encMpint f ++ encMpint K

def gexSizes (oldStyle : Bool) (mn n mx : Nat) : Bytes :=
  (if oldStyle then [] else be32 mn) ++ be32 n ++ (if oldStyle then [] else be32 mx)

def hashInGex (vc vs ic is_ ks : Bytes) (oldStyle : Bool) (mn n mx : Nat) (p g e f : Int) (K : Nat) : Bytes :=
  encStr vc ++ encStr vs ++ encStr ic ++ encStr is_ ++ encStr ks ++ gexSizes oldStyle mn n mx ++
    encMpint p ++ encMpint g ++ encMpint e ++ encMpint f ++ encMpint K

def hashInEcdh (vc vs ic is_ ks qc qs : Bytes) (K : Nat) : Bytes :=
  encStr vc ++ encStr vs ++ encStr ic ++ encStr is_ ++ encStr ks ++ encStr qc ++ encStr qs ++ encMpint K

/-! ## KexGroup1 / KexGroup14 / KexGroup14SHA256 / KexGroup16SHA512 -/

structure Group where
  P : Nat
  G : Nat

structure GrpSt where
  x : Nat
  e : Int
  f : Int
  deriving DecidableEq, Repr

/-- `start_kex()`; `x` is what `_generate_x()` drew -/
def grpStart (c : Env) (g : Group) (x : Nat) : GrpSt × List Effect :=
  if c.serverMode then
    ({ x := x, e := 0, f := powMod g.G x g.P }, [.expect [30]])
  else
    let e := powMod g.G x g.P
    ({ x := x, e := e, f := 0 }, [.send (30 :: encMpint e), .expect [31]])

/-- `_parse_kexdh_reply` (client) -/
def grpReply (c : Env) (g : Group) (st : GrpSt) (m : Bytes) : Res GrpSt :=
  let (hostKey, r1) := (rd m).getString
  let (fb, r2) := r1.getString
  let f := inflate fb
  if f < 1 ∨ f > (g.P : Int) - 1 then ⟨[], .error .ssh⟩
  else
    let (sig, _) := r2.getString
    let K := powMod f.toNat st.x g.P
    let hin := encStr c.localVersion ++ encStr c.remoteVersion ++ encStr c.localKexInit ++
      encStr c.remoteKexInit ++ encStr hostKey ++ encMpint st.e ++ encMpint f ++ encMpint K
    let H := c.hash hin
    if c.verify hostKey H sig then
      ⟨[.hashed hin, .setKH K H, .verifyKey hostKey sig, .activate], .ok { st with f := f }⟩
    else
      ⟨[.hashed hin, .setKH K H, .verifyKey hostKey sig], .error .ssh⟩

/-- `_parse_kexdh_init` (server) -/
def grpInit (c : Env) (g : Group) (st : GrpSt) (m : Bytes) : Res GrpSt :=
  let (eb, _) := (rd m).getString
  let e := inflate eb
  if e < 1 ∨ e > (g.P : Int) - 1 then ⟨[], .error .ssh⟩
  else
    let K := powMod e.toNat st.x g.P
    let hin := encStr c.remoteVersion ++ encStr c.localVersion ++ encStr c.remoteKexInit ++
      encStr c.localKexInit ++ encStr c.hostKey ++ encMpint e ++ encMpint st.f ++ encMpint K
    let H := c.hash hin
    let sig := c.sign H
    ⟨[.hashed hin, .setKH K H,
      .send (31 :: (encStr c.hostKey ++ encMpint st.f ++ encStr sig)), .activate],
     .ok { st with e := e }⟩

/-- `parse_next(ptype, m)` -/
def grpNext (c : Env) (g : Group) (st : GrpSt) (ptype : Nat) (m : Bytes) : Res GrpSt :=
  if c.serverMode ∧ ptype = 30 then grpInit c g st m
  else if ¬ c.serverMode ∧ ptype = 31 then grpReply c g st m
  else ⟨[], .error .ssh⟩

/-! ## KexGex / KexGexSHA256 -/

structure GexSt where
  p : Option Int := none
  g : Option Int := none
  x : Option Nat := none
  e : Option Int := none
  f : Option Int := none
  minBits : Nat := 1024
  prefBits : Nat := 2048
  maxBits : Nat := 8192
  oldStyle : Bool := false
  deriving DecidableEq, Repr

/-- `start_kex(_test_old_style)` -/
def gexStart (c : Env) (st : GexSt) (testOld : Bool) : GexSt × List Effect :=
  if c.serverMode then (st, [.expect [34, 30]])
  else if testOld then
    ({ st with oldStyle := true }, [.send (30 :: be32 st.prefBits), .expect [31]])
  else
    (st, [.send (34 :: (be32 st.minBits ++ be32 st.prefBits ++ be32 st.maxBits)), .expect [31]])

def clampPref (n lo hi : Nat) : Nat :=
  let n1 := if n > hi then hi else n
  if n1 < lo then lo else n1

/-- `_parse_kexdh_gex_request` (server) -/
def gexRequest (c : Env) (st : GexSt) (m : Bytes) : Res GexSt :=
  let (mn, r1) := (rd m).getInt
  let (n, r2) := r1.getInt
  let (mx, _) := r2.getInt
  let n := clampPref n st.minBits st.maxBits
  let mn := if mn > n then n else mn
  let mx := if mx < n then n else mx
  let st1 := { st with minBits := mn, prefBits := n, maxBits := mx }
  match c.modulus mn n mx with
  | none => ⟨[], .error .ssh⟩
  | some (g, p) =>
    ⟨[.send (31 :: (encMpint p ++ encMpint g)), .expect [32]],
     .ok { st1 with g := some g, p := some p }⟩

/-- `_parse_kexdh_gex_request_old` (server) -/
def gexRequestOld (c : Env) (st : GexSt) (m : Bytes) : Res GexSt :=
  let (n, _) := (rd m).getInt
  let n := clampPref n st.minBits st.maxBits
  let st1 := { st with prefBits := n }
  match c.modulus st.minBits n st.maxBits with
  | none => ⟨[], .error .ssh⟩
  | some (g, p) =>
    ⟨[.send (31 :: (encMpint p ++ encMpint g)), .expect [32]],
     .ok { st1 with g := some g, p := some p, oldStyle := true }⟩

/-- `_parse_kexdh_gex_group` (client); `x` is what `_generate_x()` drew for this `p`.
    A modulus below 1 is refused together with the out-of-window sizes (with the sign ignored a
    negative "prime" has a bit length in the window, and `_generate_x` never terminates for it). -/
def gexGroup (_c : Env) (st : GexSt) (m : Bytes) (x : Nat) : Res GexSt :=
  let (pb, r1) := (rd m).getString
  let (gb, _) := r1.getString
  let p := inflate pb
  let g := inflate gb
  let bl := bitLength p
  if p < 1 ∨ bl < 1024 ∨ bl > 8192 then ⟨[], .error .ssh⟩
  else
    let e := pyPow g x p.toNat
    ⟨[.send (32 :: encMpint e), .expect [33]],
     .ok { st with p := some p, g := some g, x := some x, e := some (e : Int) }⟩

/-- `_parse_kexdh_gex_init` (server); `x` is what `_generate_x()` drew -/
def gexInit (c : Env) (st : GexSt) (m : Bytes) (x : Nat) : Res GexSt :=
  let (eb, _) := (rd m).getString
  let e := inflate eb
  if e < 1 then ⟨[], .error .ssh⟩
  else
    match st.p, st.g with
    | some p, some g =>
      if e > p - 1 then ⟨[], .error .ssh⟩
      else
        let f := pyPow g x p.toNat
        let K := pyPow e x p.toNat
        let hin := encStr c.remoteVersion ++ encStr c.localVersion ++ encStr c.remoteKexInit ++
          encStr c.localKexInit ++ encStr c.hostKey ++
          gexSizes st.oldStyle st.minBits st.prefBits st.maxBits ++
          encMpint p ++ encMpint g ++ encMpint e ++ encMpint f ++ encMpint K
        let H := c.hash hin
        let sig := c.sign H
        ⟨[.hashed hin, .setKH K H,
          .send (33 :: (encStr c.hostKey ++ encMpint f ++ encStr sig)), .activate],
         .ok { st with e := some e, x := some x, f := some (f : Int) }⟩
    | _, _ => ⟨[], .error .type⟩

/-- `_parse_kexdh_gex_reply` (client) -/
def gexReply (c : Env) (st : GexSt) (m : Bytes) : Res GexSt :=
  let (hostKey, r1) := (rd m).getString
  let (fb, r2) := r1.getString
  let f := inflate fb
  let (sig, _) := r2.getString
  if f < 1 then ⟨[], .error .ssh⟩
  else
    match st.p, st.g, st.x, st.e with
    | some p, some g, some x, some e =>
      if f > p - 1 then ⟨[], .error .ssh⟩
      else
        let K := pyPow f x p.toNat
        let hin := encStr c.localVersion ++ encStr c.remoteVersion ++ encStr c.localKexInit ++
          encStr c.remoteKexInit ++ encStr hostKey ++
          gexSizes st.oldStyle st.minBits st.prefBits st.maxBits ++
          encMpint p ++ encMpint g ++ encMpint e ++ encMpint f ++ encMpint K
        let H := c.hash hin
        if c.verify hostKey H sig then
          ⟨[.hashed hin, .setKH K H, .verifyKey hostKey sig, .activate], .ok { st with f := some f }⟩
        else
          ⟨[.hashed hin, .setKH K H, .verifyKey hostKey sig], .error .ssh⟩
    | _, _, _, _ => ⟨[], .error .type⟩

/-- `parse_next(ptype, m)` — dispatch on the packet type alone (no role test in this engine) -/
def gexNext (c : Env) (st : GexSt) (ptype : Nat) (m : Bytes) (x : Nat) : Res GexSt :=
  if ptype = 34 then gexRequest c st m
  else if ptype = 31 then gexGroup c st m x
  else if ptype = 32 then gexInit c st m x
  else if ptype = 33 then gexReply c st m
  else if ptype = 30 then gexRequestOld c st m
  else ⟨[], .error .ssh⟩

/-! ## ECDH over the NIST curves and X25519 -/

/-- what paramiko uses of `cryptography`'s curve code -/
structure Curve where
  /-- `from_encoded_point` / `from_public_bytes` accepts the encoding -/
  decode : Bytes → Bool
  /-- encoded public point of the key pair with private scalar `d` -/
  pub : Nat → Bytes
  /-- `exchange()`: the shared secret, or the library's own refusal -/
  exchange : Nat → Bytes → Except Err Bytes

structure EcSt where
  priv : Nat
  qc : Option Bytes := none
  qs : Option Bytes := none
  deriving DecidableEq, Repr

/-- `KexNistp256.start_kex()`; `d` is the generated private scalar -/
def ecStart (c : Env) (cv : Curve) (d : Nat) : EcSt × List Effect :=
  if c.serverMode then ({ priv := d, qs := some (cv.pub d) }, [.expect [30]])
  else ({ priv := d, qc := some (cv.pub d) }, [.send (30 :: encStr (cv.pub d)), .expect [31]])

/-- `_parse_kexecdh_init` (server) -/
def ecInit (c : Env) (cv : Curve) (st : EcSt) (m : Bytes) : Res EcSt :=
  let (qcB, _) := (rd m).getString
  if ¬ cv.decode qcB then ⟨[], .error .value⟩
  else
    match cv.exchange st.priv qcB with
    | .error e => ⟨[], .error e⟩
    | .ok secret =>
      let K := beVal secret
      match st.qs with
      | none => ⟨[], .error .type⟩
      | some qs =>
        let hin := encStr c.remoteVersion ++ encStr c.localVersion ++ encStr c.remoteKexInit ++
          encStr c.localKexInit ++ encStr c.hostKey ++ encStr qcB ++ encStr qs ++ encMpint K
        let H := c.hash hin
        let sig := c.sign H
        ⟨[.hashed hin, .setKH K H,
          .send (31 :: (encStr c.hostKey ++ encStr qs ++ encStr sig)), .activate],
         .ok { st with qc := some qcB }⟩

/-- `_parse_kexecdh_reply` (client) -/
def ecReply (c : Env) (cv : Curve) (st : EcSt) (m : Bytes) : Res EcSt :=
  let (ks, r1) := (rd m).getString
  let (qsB, r2) := r1.getString
  if ¬ cv.decode qsB then ⟨[], .error .value⟩
  else
    let (sig, _) := r2.getString
    match cv.exchange st.priv qsB with
    | .error e => ⟨[], .error e⟩
    | .ok secret =>
      let K := beVal secret
      match st.qc with
      | none => ⟨[], .error .type⟩
      | some qc =>
        let hin := encStr c.localVersion ++ encStr c.remoteVersion ++ encStr c.localKexInit ++
          encStr c.remoteKexInit ++ encStr ks ++ encStr qc ++ encStr qsB ++ encMpint K
        let H := c.hash hin
        if c.verify ks H sig then
          ⟨[.hashed hin, .setKH K H, .verifyKey ks sig, .activate], .ok { st with qs := some qsB }⟩
        else
          ⟨[.hashed hin, .setKH K H, .verifyKey ks sig], .error .ssh⟩

def ecNext (c : Env) (cv : Curve) (st : EcSt) (ptype : Nat) (m : Bytes) : Res EcSt :=
  if c.serverMode ∧ ptype = 30 then ecInit c cv st m
  else if ¬ c.serverMode ∧ ptype = 31 then ecReply c cv st m
  else ⟨[], .error .ssh⟩

/-- `KexCurve25519._perform_exchange` -/
def cvExchange (cv : Curve) (d : Nat) (peer : Bytes) : Except Err Bytes :=
  match cv.exchange d peer with
  | .error e => .error e
  | .ok secret => if secret = zeros 32 then .error .ssh else .ok secret

/-- `KexCurve25519.start_kex()` (the engine keeps only the private key) -/
def cvStart (c : Env) (cv : Curve) (d : Nat) : EcSt × List Effect :=
  if c.serverMode then ({ priv := d }, [.expect [30]])
  else ({ priv := d }, [.send (30 :: encStr (cv.pub d)), .expect [31]])

/-- `KexCurve25519._parse_kexecdh_init` (server) -/
def cvInit (c : Env) (cv : Curve) (st : EcSt) (m : Bytes) : Res EcSt :=
  let (peer, _) := (rd m).getString
  if ¬ cv.decode peer then ⟨[], .error .value⟩
  else
    match cvExchange cv st.priv peer with
    | .error e => ⟨[], .error e⟩
    | .ok secret =>
      let K := beVal secret
      let mine := cv.pub st.priv
      let hin := encStr c.remoteVersion ++ encStr c.localVersion ++ encStr c.remoteKexInit ++
        encStr c.localKexInit ++ encStr c.hostKey ++ encStr peer ++ encStr mine ++ encMpint K
      let H := c.hash hin
      let sig := c.sign H
      ⟨[.hashed hin, .setKH K H,
        .send (31 :: (encStr c.hostKey ++ encStr mine ++ encStr sig)), .activate], .ok st⟩

/-- `KexCurve25519._parse_kexecdh_reply` (client) -/
def cvReply (c : Env) (cv : Curve) (st : EcSt) (m : Bytes) : Res EcSt :=
  let (ks, r1) := (rd m).getString
  let (peer, r2) := r1.getString
  let (sig, _) := r2.getString
  if ¬ cv.decode peer then ⟨[], .error .value⟩
  else
    match cvExchange cv st.priv peer with
    | .error e => ⟨[], .error e⟩
    | .ok secret =>
      let K := beVal secret
      let hin := encStr c.localVersion ++ encStr c.remoteVersion ++ encStr c.localKexInit ++
        encStr c.remoteKexInit ++ encStr ks ++ encStr (cv.pub st.priv) ++ encStr peer ++ encMpint K
      let H := c.hash hin
      if c.verify ks H sig then
        ⟨[.hashed hin, .setKH K H, .verifyKey ks sig, .activate], .ok st⟩
      else
        ⟨[.hashed hin, .setKH K H, .verifyKey ks sig], .error .ssh⟩

def cvNext (c : Env) (cv : Curve) (st : EcSt) (ptype : Nat) (m : Bytes) : Res EcSt :=
  if c.serverMode ∧ ptype = 30 then cvInit c cv st m
  else if ¬ c.serverMode ∧ ptype = 31 then cvReply c cv st m
  else ⟨[], .error .ssh⟩

/-! ## the engine behind `Transport.run()`'s gate -/

/-- any of the engines, as one step function; `x` is the randomness a step may draw -/
inductive Engine
  | grp (g : Group)
  | gex
  | nist (cv : Curve)
  | c25519 (cv : Curve)

inductive ESt
  | grp (s : GrpSt)
  | gex (s : GexSt)
  | ec (s : EcSt)
  deriving DecidableEq, Repr

def mapRes {α β : Type} (f : α → β) (r : Res α) : Res β :=
  ⟨r.eff, match r.out with | .ok a => .ok (f a) | .error e => .error e⟩

def Engine.start (c : Env) : Engine → (x : Nat) → ESt × List Effect
  | .grp g, x => let (s, e) := grpStart c g x; (.grp s, e)
  | .gex, _ => let (s, e) := gexStart c {} false; (.gex s, e)
  | .nist cv, x => let (s, e) := ecStart c cv x; (.ec s, e)
  | .c25519 cv, x => let (s, e) := cvStart c cv x; (.ec s, e)

def Engine.next (c : Env) : Engine → ESt → (ptype : Nat) → (m : Bytes) → (x : Nat) → Res ESt
  | .grp g, .grp s, t, m, _ => mapRes .grp (grpNext c g s t m)
  | .gex, .gex s, t, m, x => mapRes .gex (gexNext c s t m x)
  | .nist cv, .ec s, t, m, _ => mapRes .ec (ecNext c cv s t m)
  | .c25519 cv, .ec s, t, m, _ => mapRes .ec (cvNext c cv s t m)
  | _, _, _, _, _ => ⟨[], .error .type⟩

/-- the `_expected_packet` value after a list of effects (`_expect_packet` overwrites;
    `_activate_outbound` ends the engine's part: the transport then waits for NEWKEYS = 21) -/
def expectedAfter (cur : List Nat) : List Effect → List Nat
  | [] => cur
  | .expect ts :: r => expectedAfter ts r
  | .activate :: r => expectedAfter [21] r
  | _ :: r => expectedAfter cur r

/-- one key exchange as `Transport.run()` drives it -/
structure Sess where
  st : ESt
  expected : List Nat
  trace : List Effect
  dead : Option Err
  deriving DecidableEq, Repr

def Sess.begin (c : Env) (en : Engine) (x : Nat) : Sess :=
  let (s, e) := en.start c x
  { st := s, expected := expectedAfter [] e, trace := e, dead := none }

/-- one incoming packet `(ptype, body, randomness)`.  `run()`: a type outside a non-empty
    `_expected_packet` raises; an expected type in 30..41 clears the tuple and goes to the
    engine; anything else is not the engine's business (left out: the session just stays). -/
def Sess.feed (c : Env) (en : Engine) (s : Sess) (pkt : Nat × Bytes × Nat) : Sess :=
  if s.dead.isSome then s
  else if s.expected = [] then s
  else if pkt.1 ∉ s.expected then { s with dead := some .ssh }
  else if pkt.1 < 30 ∨ pkt.1 > 41 then { s with expected := [] }
  else
    let r := en.next c s.st pkt.1 pkt.2.1 pkt.2.2
    match r.out with
    | .ok st' => { st := st', expected := expectedAfter [] r.eff, trace := s.trace ++ r.eff, dead := none }
    | .error e => { s with expected := [], trace := s.trace ++ r.eff, dead := some e }

def Sess.run (c : Env) (en : Engine) (x : Nat) (pkts : List (Nat × Bytes × Nat)) : Sess :=
  pkts.foldl (Sess.feed c en) (Sess.begin c en x)

/-! ## `Transport._set_K_H` and the session-id latch -/

structure TSt where
  K : Option Nat := none
  H : Option Bytes := none
  sessionId : Option Bytes := none
  deriving DecidableEq, Repr

/-- `Transport._set_K_H(k, h)` -/
def TSt.setKH (t : TSt) (k : Nat) (h : Bytes) : TSt :=
  { K := some k, H := some h, sessionId := match t.sessionId with | none => some h | some s => some s }

/-- the transport state after the `_set_K_H` calls of a trace -/
def TSt.apply (t : TSt) : List Effect → TSt
  | [] => t
  | .setKH k h :: r => (t.setKH k h).apply r
  | _ :: r => t.apply r

/-- `Transport.host_key` (what `get_remote_server_key()` returns) after a trace, given its value before:
    `_verify_key` assigns it as its last statement, unconditionally, once the verification has
    succeeded — in the first exchange and in every re-exchange alike.  (A `_verify_key` call that is
    the LAST effect of a trace is one that raised: the step ended there.) -/
def publishedKey (prev : Option Bytes) : List Effect → Option Bytes
  | [] => prev
  | [.verifyKey _ _] => prev
  | .verifyKey hk _ :: r => publishedKey (some hk) r
  | _ :: r => publishedKey prev r

/-! ## toy primitives (bit-identical copies live in pv/lib_kex.py) -/

/-- 8-byte polynomial checksum -/
def toyHash (b : Bytes) : Bytes :=
  beBytes 8 (b.foldl (fun acc x => (acc * 257 + x.toNat + 1) % 18446744073709551616) 7)

/-- toy host-key scheme: public = private = the key blob; signature blob names `algo` -/
def toySign (algo hostKey H : Bytes) : Bytes := encStr algo ++ encStr (toyHash (hostKey ++ H))

def toyVerify (algo hostKey H sig : Bytes) : Bool := sig == toySign algo hostKey H

def toyQ : Nat := 2305843009213693951   -- 2^61 - 1

/-- toy "NIST" curve: a point `v < toyQ` has TWO encodings of 17 bytes, the canonical `04 ‖ v` (what
    `public_bytes` produces) and the alternative `02 ‖ v` (a "compressed" form the decoder also accepts, as
    `from_encoded_point` does); the shared secret is `v^d mod toyQ` in 8 bytes -/
def toyNist : Curve where
  decode b := b.length == 17 && (b.head? == some 4 || b.head? == some 2) && decide (beVal (b.drop 1) < toyQ)
  pub d := 4 :: beBytes 16 (powMod 3 d toyQ)
  exchange d pt := .ok (beBytes 8 (powMod (beVal (pt.drop 1)) d toyQ))

/-- toy "X25519": a point is any 32 bytes `v`; the library itself refuses the non-canonical
    `v = toyQ + 1`; the shared secret is `v^d mod toyQ` in 32 bytes (all-zero for `v ≡ 0`) -/
def toyX : Curve where
  decode b := b.length == 32
  pub d := beBytes 32 (powMod 3 d toyQ)
  exchange d pt := if beVal pt = toyQ + 1 then .error .value else .ok (beBytes 32 (powMod (beVal pt) d toyQ))

end PV.Kex
