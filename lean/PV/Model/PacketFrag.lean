/-
  PV.Model.PacketFrag — `read_all` over a fragmenting socket (arbitrary `recv` return sizes and timeouts)
  returns exactly what reading from the concatenated stream returns.
-/
import PV.Model.PacketRoundtrip
namespace PV.Packet
open PV

/-- one `recv` that returned `m ≥ 1` bytes at most (and at most the `n` still missing) -/
private theorem chunk_step (data : Bytes) (m n : Nat) (hm : 1 ≤ m) (hmn : m ≤ n) (hd : data ≠ []) :
    1 ≤ (data.take m).length ∧ (data.take m).length ≤ n ∧
    (n ≤ data.length →
      data.take m ++ (data.drop (data.take m).length).take (n - (data.take m).length) = data.take n ∧
      (data.drop (data.take m).length).drop (n - (data.take m).length) = data.drop n ∧
      n - (data.take m).length ≤ (data.drop (data.take m).length).length) ∧
    (data.length < n → (data.drop (data.take m).length).length < n - (data.take m).length) := by
  have hdl : 1 ≤ data.length := by
    cases data with
    | nil => exact absurd rfl hd
    | cons x xs => simp
  have hcl : (data.take m).length = min m data.length := List.length_take
  refine ⟨by rw [hcl]; omega, by rw [hcl]; omega, ?_, ?_⟩
  · intro hn
    have hml : m ≤ data.length := by omega
    have hcl' : (data.take m).length = m := by rw [hcl]; omega
    rw [hcl']
    refine ⟨?_, ?_, ?_⟩
    · have : n = m + (n - m) := by omega
      conv => rhs; rw [this, List.take_add]
    · rw [List.drop_drop]; congr 1; omega
    · rw [List.length_drop]; omega
  · intro hn
    rw [List.length_drop, hcl]; omega

theorem recvLoop_spec (cr : Bool) (fuel : Nat) : ∀ (n : Nat) (out data : Bytes) (sched : List Ev),
    n + sched.length ≤ fuel →
    (∃ sc, recvLoop cr fuel n out data sched = .rekey sc ∧ cr = true ∧ out = [] ∧ sc.length < sched.length) ∨
    ((n ≤ data.length → ∃ sc, recvLoop cr fuel n out data sched = .ok (out ++ data.take n) (data.drop n) sc) ∧
     (data.length < n → recvLoop cr fuel n out data sched = .err .eof)) := by
  induction fuel with
  | zero =>
    intro n out data sched hf
    have hn : n = 0 := by omega
    subst hn
    exact Or.inr ⟨fun _ => ⟨sched, by simp [recvLoop]⟩, fun h => by omega⟩
  | succ fuel ih =>
    intro n out data sched hf
    cases n with
    | zero => exact Or.inr ⟨fun _ => ⟨sched, by simp [recvLoop]⟩, fun h => by omega⟩
    | succ n =>
      cases sched with
      | nil =>
        cases data with
        | nil => exact Or.inr ⟨fun h => by simp at h, fun _ => by simp [recvLoop]⟩
        | cons x xs =>
          obtain ⟨c1, c2, c3, c4⟩ := chunk_step (x :: xs) (n + 1) (n + 1) (by omega) (Nat.le_refl _) (by simp)
          have hI := ih (n + 1 - ((x :: xs).take (n + 1)).length) (out ++ (x :: xs).take (n + 1))
            ((x :: xs).drop ((x :: xs).take (n + 1)).length) [] (by simp only [List.length_nil] at hf ⊢; omega)
          simp only [recvLoop]
          rcases hI with ⟨sc, _, _, hout, _⟩ | hI
          · have := congrArg List.length hout
            simp only [List.length_append, List.length_nil] at this
            omega
          · refine Or.inr ⟨?_, ?_⟩
            · intro h
              obtain ⟨e1, e2, e3⟩ := c3 h
              obtain ⟨sc, hsc⟩ := hI.1 e3
              exact ⟨sc, by rw [hsc, List.append_assoc, e1, e2]⟩
            · intro h
              exact hI.2 (c4 h)
      | cons ev t =>
        cases ev with
        | timeout nr =>
          simp only [recvLoop]
          by_cases hc : (cr && out.isEmpty && nr) = true
          · simp only [hc, if_true]
            simp only [Bool.and_eq_true, List.isEmpty_iff] at hc
            exact Or.inl ⟨t, rfl, hc.1.1, hc.1.2, by simp⟩
          · simp only [hc, if_false]
            rcases ih (n + 1) out data t (by simp only [List.length_cons] at hf; omega) with ⟨sc, h1, h2, h3, h4⟩ | hI
            · exact Or.inl ⟨sc, h1, h2, h3, by simp only [List.length_cons]; omega⟩
            · exact Or.inr hI
        | recv k =>
          cases data with
          | nil => exact Or.inr ⟨fun h => by simp at h, fun _ => by simp [recvLoop]⟩
          | cons x xs =>
            obtain ⟨c1, c2, c3, c4⟩ := chunk_step (x :: xs) (min (n + 1) (k + 1)) (n + 1) (by omega)
              (Nat.min_le_left _ _) (by simp)
            have hI := ih (n + 1 - ((x :: xs).take (min (n + 1) (k + 1))).length)
              (out ++ (x :: xs).take (min (n + 1) (k + 1)))
              ((x :: xs).drop ((x :: xs).take (min (n + 1) (k + 1))).length) t
              (by simp only [List.length_cons] at hf; omega)
            simp only [recvLoop]
            rcases hI with ⟨sc, _, _, hout, _⟩ | hI
            · have := congrArg List.length hout
              simp only [List.length_append, List.length_nil] at this
              omega
            · refine Or.inr ⟨?_, ?_⟩
              · intro h
                obtain ⟨e1, e2, e3⟩ := c3 h
                obtain ⟨sc, hsc⟩ := hI.1 e3
                exact ⟨sc, by rw [hsc, List.append_assoc, e1, e2]⟩
              · intro h
                exact hI.2 (c4 h)

/-- `read_all(n, check_rekey)` with an empty `__remainder`: whatever the `recv` sizes, timeouts and values of the
need-rekey flag, either `NeedRekeyException` is raised — only with `check_rekey`, with NOTHING consumed, and a
timeout of the schedule used up — or the result is the next `n` bytes of the stream (EOF iff the stream is shorter) -/
theorem readAll_spec (data : Bytes) (sched : List Ev) (n : Int) (cr : Bool) :
    (∃ sc, readAll ⟨[], data, sched⟩ n cr = .rekey ⟨[], data, sc⟩ ∧ cr = true ∧ sc.length < sched.length) ∨
    ((n.toNat ≤ data.length →
      ∃ sc, readAll ⟨[], data, sched⟩ n cr = .ok (data.take n.toNat) ⟨[], data.drop n.toNat, sc⟩) ∧
     (data.length < n.toNat → readAll ⟨[], data, sched⟩ n cr = .err .eof)) := by
  have hs := recvLoop_spec cr (n.toNat + sched.length) n.toNat [] data sched (Nat.le_refl _)
  unfold readAll
  simp only [List.isEmpty_nil, if_true, List.length_nil, Int.natCast_zero, Int.sub_zero]
  rcases hs with ⟨sc, h1, h2, _, h4⟩ | hs
  · exact Or.inl ⟨sc, by rw [h1], h2, h4⟩
  · refine Or.inr ⟨?_, ?_⟩
    · intro h
      obtain ⟨sc, hsc⟩ := hs.1 h
      exact ⟨sc, by rw [hsc]; simp⟩
    · intro h
      rw [hs.2 h]

/-- socket run and stream run agree (a propagated `NeedRekeyException` never agrees) -/
def SimRes {α : Type} : SRes α → Res α → Prop
  | .ok a s, .ok b rest => a = b ∧ s.rem = [] ∧ s.data = rest
  | .err e, .err e' => e = e'
  | _, _ => False

/-- no `read_all` of the computation passes `check_rekey=True` -/
inductive NoCheck {α : Type} : Rd α → Prop
  | ret (a : α) : NoCheck (.ret a)
  | fail (e : Err) : NoCheck (.fail e)
  | read (n : Int) (k : Bytes → Rd α) : (∀ b, NoCheck (k b)) → NoCheck (.read n false k)

theorem runSock_sim {α : Type} {m : Rd α} (hm : NoCheck m) : ∀ (data : Bytes) (sched : List Ev),
    SimRes (runSock m ⟨[], data, sched⟩) (runBuf m data) := by
  induction hm with
  | ret a => intro data sched; exact ⟨rfl, rfl, rfl⟩
  | fail e => intro data sched; exact rfl
  | read n k _ ih =>
    intro data sched
    rcases readAll_spec data sched n false with ⟨_, _, hcr, _⟩ | ⟨h1, h2⟩
    · cases hcr
    · unfold runSock runBuf
      by_cases h0 : n ≤ 0
      · have hz : n.toNat = 0 := by omega
        obtain ⟨sc, hsc⟩ := h1 (by omega)
        rw [hsc, hz]
        simp only [h0, if_true, List.take_zero, List.drop_zero]
        exact ih [] data sc
      · simp only [h0, if_false]
        by_cases hl : n.toNat ≤ data.length
        · obtain ⟨sc, hsc⟩ := h1 hl
          rw [hsc]
          simp only [hl, if_true]
          exact ih _ _ sc
        · rw [h2 (by omega)]
          simp only [hl, if_false]
          rfl

/-- a computation whose FIRST `read_all` passes `check_rekey=True` (and no other): either `NeedRekeyException` with
the stream untouched and a shorter schedule, or agreement with the stream run -/
theorem runSock_first {α : Type} (n : Int) (k : Bytes → Rd α) (hk : ∀ b, NoCheck (k b))
    (data : Bytes) (sched : List Ev) :
    (∃ sc, runSock (.read n true k) ⟨[], data, sched⟩ = .rekey ⟨[], data, sc⟩ ∧ sc.length < sched.length) ∨
    SimRes (runSock (.read n true k) ⟨[], data, sched⟩) (runBuf (.read n true k) data) := by
  rcases readAll_spec data sched n true with ⟨sc, h1, _, h3⟩ | ⟨h1, h2⟩
  · exact Or.inl ⟨sc, by unfold runSock; rw [h1], h3⟩
  · refine Or.inr ?_
    unfold runSock runBuf
    by_cases h0 : n ≤ 0
    · have hz : n.toNat = 0 := by omega
      obtain ⟨sc, hsc⟩ := h1 (by omega)
      rw [hsc, hz]
      simp only [h0, if_true, List.take_zero, List.drop_zero]
      exact runSock_sim (hk []) data sc
    · simp only [h0, if_false]
      by_cases hl : n.toNat ≤ data.length
      · obtain ⟨sc, hsc⟩ := h1 hl
        rw [hsc]
        simp only [hl, if_true]
        exact runSock_sim (hk _) _ sc
      · rw [h2 (by omega)]
        simp only [hl, if_false]
        rfl

theorem noCheck_liftE {α : Type} (e : Except Err α) : NoCheck (liftE e) := by
  cases e with
  | error x => exact .fail x
  | ok v => exact .ret v

theorem noCheck_readEtm {p : Prims} (r : Receiver p) (st : p.CSt) (mk : p.MKey) (hdr : Bytes) :
    NoCheck (readEtm r st mk hdr) := by
  unfold readEtm
  split
  · exact .fail _
  · refine .read _ _ (fun more => .read _ _ (fun mac => ?_))
    split
    · exact noCheck_liftE _
    · exact .fail _

theorem noCheck_readAead {p : Prims} (r : Receiver p) (k : p.AKey) (iv hdr : Bytes) :
    NoCheck (readAead r k iv hdr) := by
  unfold readAead
  split
  · exact .fail _
  · refine .read _ _ (fun more => ?_)
    simp only
    split
    · exact .fail _
    · split
      · exact .fail _
      · exact noCheck_liftE _

theorem noCheck_readPlain {p : Prims} (r : Receiver p) (hdr : Bytes) : NoCheck (readPlain r hdr) := by
  unfold readPlain
  split
  · exact .fail _
  · simp only
    split
    · exact .fail _
    · exact .read _ _ (fun buf => noCheck_liftE _)

theorem noCheck_readClassic {p : Prims} (r : Receiver p) (st : p.CSt) (mk : p.MKey) (hdr : Bytes) :
    NoCheck (readClassic r st mk hdr) := by
  unfold readClassic
  simp only
  split
  · exact .fail _
  · split
    · exact .fail _
    · refine .read _ _ (fun buf => ?_)
      split
      · split
        · exact noCheck_liftE _
        · exact .fail _
      · exact noCheck_liftE _

theorem noCheck_readMessage_cont {p : Prims} (r : Receiver p) (hdr : Bytes) :
    NoCheck (match r.ciph with
      | .etm st mk => readEtm r st mk hdr
      | .aead k iv => readAead r k iv hdr
      | .plain => readPlain r hdr
      | .classic st mk => readClassic r st mk hdr) := by
  cases r.ciph with
  | plain => exact noCheck_readPlain r hdr
  | classic st mk => exact noCheck_readClassic r st mk hdr
  | etm st mk => exact noCheck_readEtm r st mk hdr
  | aead k iv => exact noCheck_readAead r k iv hdr

/-- `read_message` retried after every `NeedRekeyException` (as `Transport.run` does) agrees with reading from the
plain stream — for every `recv` fragmentation, every placement of timeouts and every value of the need-rekey flag
at each of them -/
theorem readRetry_sim {p : Prims} (r : Receiver p) (data : Bytes) : ∀ (f : Nat) (sched : List Ev), sched.length < f →
    SimRes (readRetry r f ⟨[], data, sched⟩) (runBuf (readMessage r) data) := by
  intro f
  induction f with
  | zero => intro sched h; omega
  | succ f ih =>
    intro sched h
    have hfirst := runSock_first (r.block : Int) _ (fun hdr => noCheck_readMessage_cont r hdr) data sched
    unfold readRetry
    have hrm : readMessage r = Rd.read (r.block : Int) true (fun header =>
        match r.ciph with
        | .etm st mk => readEtm r st mk header
        | .aead k iv => readAead r k iv header
        | .plain => readPlain r header
        | .classic st mk => readClassic r st mk header) := rfl
    rw [hrm]
    rcases hfirst with ⟨sc, h1, h2⟩ | hs
    · rw [h1]
      simp only
      rw [← hrm]
      exact ih sc (by omega)
    · cases hrs : runSock (Rd.read (r.block : Int) true (fun header =>
          match r.ciph with
          | .etm st mk => readEtm r st mk header
          | .aead k iv => readAead r k iv header
          | .plain => readPlain r header
          | .classic st mk => readClassic r st mk header)) ⟨[], data, sched⟩ with
      | rekey s' => rw [hrs] at hs; exact absurd hs (by simp [SimRes])
      | ok a s' => rw [hrs] at hs; simpa using hs
      | err e => rw [hrs] at hs; simpa using hs

/-- the message sequence delivered over a fragmenting socket is the one delivered from the plain stream,
and the receiver stops for the same reason -/
theorem recvAllSock_eq {p : Prims} (ops : List (Op p)) : ∀ (r : Receiver p) (data : Bytes) (sched : List Ev),
    (recvAllSock r ops ⟨[], data, sched⟩).1 = (recvAll r ops data).msgs ∧
    (recvAllSock r ops ⟨[], data, sched⟩).2.1 = (recvAll r ops data).stop := by
  induction ops with
  | nil => intro r data sched; exact ⟨rfl, rfl⟩
  | cons op ops ih =>
    intro r data sched
    cases op with
    | msg d rnd =>
      have hsim := readRetry_sim r data (sched.length + 1) sched (Nat.lt_succ_self _)
      simp only [recvAllSock, recvAll]
      cases hs : readRetry r (sched.length + 1) ⟨[], data, sched⟩ with
      | rekey s' => rw [hs] at hsim; exact absurd hsim (by cases runBuf (readMessage r) data <;> simp [SimRes])
      | err e =>
        cases hb : runBuf (readMessage r) data with
        | err e' =>
          rw [hs, hb] at hsim
          simp only [SimRes] at hsim
          subst hsim
          exact ⟨rfl, rfl⟩
        | ok b rest => rw [hs, hb] at hsim; exact absurd hsim (by simp [SimRes])
      | ok a s' =>
        cases hb : runBuf (readMessage r) data with
        | err e' => rw [hs, hb] at hsim; exact absurd hsim (by simp [SimRes])
        | ok b rest =>
          rw [hs, hb] at hsim
          simp only [SimRes] at hsim
          obtain ⟨hab, hrem, hdata⟩ := hsim
          subst hab
          obtain ⟨srem, sdata, ssched⟩ := s'
          simp only at hrem hdata
          subst hrem; subst hdata
          obtain ⟨i1, i2⟩ := ih a.st sdata ssched
          simp only
          exact ⟨by rw [i1], i2⟩
    | setCipher b m sd co ci => simp only [recvAllSock, recvAll]; exact ih _ _ _
    | setComp zo zi => simp only [recvAllSock, recvAll]; exact ih _ _ _
    | resetSeq => simp only [recvAllSock, recvAll]; exact ih _ _ _
    | kexDone => simp only [recvAllSock, recvAll]; exact ih _ _ _

end PV.Packet
