/-
  PV.Model.PacketFrag — `read_all` over a fragmenting socket (arbitrary `recv` return sizes and timeouts)
  returns exactly what reading from the concatenated stream returns.
-/
import PV.Model.PacketRoundtrip
namespace PV.Packet
open PV

/-- one `recv` that returned `m ≥ 1` bytes at most (and at most the `n` still missing) -/
private theorem chunk_step (data : Bytes) (m n : Nat) (hm : 1 ≤ m) (hmn : m ≤ n) (hd : data ≠ []) :
    1 ≤ (data.take m).length ∧ (data.take m).length ≤ n ∧
    (n ≤ data.length →
      data.take m ++ (data.drop (data.take m).length).take (n - (data.take m).length) = data.take n ∧
      (data.drop (data.take m).length).drop (n - (data.take m).length) = data.drop n ∧
      n - (data.take m).length ≤ (data.drop (data.take m).length).length) ∧
    (data.length < n → (data.drop (data.take m).length).length < n - (data.take m).length) := by
  have hdl : 1 ≤ data.length := by
    cases data with
    | nil => exact absurd rfl hd
    | cons x xs => simp
  have hcl : (data.take m).length = min m data.length := List.length_take
  refine ⟨by rw [hcl]; omega, by rw [hcl]; omega, ?_, ?_⟩
  · intro hn
    have hml : m ≤ data.length := by omega
    have hcl' : (data.take m).length = m := by rw [hcl]; omega
    rw [hcl']
    refine ⟨?_, ?_, ?_⟩
    · have : n = m + (n - m) := by omega
      conv => rhs; rw [this, List.take_add]
    · rw [List.drop_drop]; congr 1; omega
    · rw [List.length_drop]; omega
  · intro hn
    rw [List.length_drop, hcl]; omega

theorem recvLoop_spec (fuel : Nat) : ∀ (n : Nat) (out data : Bytes) (sched : List Nat),
    n + sched.length ≤ fuel →
    (n ≤ data.length → ∃ sc, recvLoop fuel n out data sched = .ok (out ++ data.take n, data.drop n, sc)) ∧
    (data.length < n → recvLoop fuel n out data sched = .error .eof) := by
  induction fuel with
  | zero =>
    intro n out data sched hf
    have hn : n = 0 := by omega
    subst hn
    exact ⟨fun _ => ⟨sched, by simp [recvLoop]⟩, fun h => by omega⟩
  | succ fuel ih =>
    intro n out data sched hf
    cases n with
    | zero => exact ⟨fun _ => ⟨sched, by simp [recvLoop]⟩, fun h => by omega⟩
    | succ n =>
      cases sched with
      | nil =>
        cases data with
        | nil => exact ⟨fun h => by simp at h, fun _ => by simp [recvLoop]⟩
        | cons x xs =>
          obtain ⟨c1, c2, c3, c4⟩ := chunk_step (x :: xs) (n + 1) (n + 1) (by omega) (Nat.le_refl _) (by simp)
          have hI := ih (n + 1 - ((x :: xs).take (n + 1)).length) (out ++ (x :: xs).take (n + 1))
            ((x :: xs).drop ((x :: xs).take (n + 1)).length) [] (by simp only [List.length_nil] at hf ⊢; omega)
          simp only [recvLoop]
          constructor
          · intro h
            obtain ⟨e1, e2, e3⟩ := c3 h
            obtain ⟨sc, hsc⟩ := hI.1 e3
            exact ⟨sc, by rw [hsc, List.append_assoc, e1, e2]⟩
          · intro h
            exact hI.2 (c4 h)
      | cons k t =>
        cases k with
        | zero =>
          simp only [recvLoop]
          exact ih (n + 1) out data t (by simp only [List.length_cons] at hf; omega)
        | succ k =>
          cases data with
          | nil => exact ⟨fun h => by simp at h, fun _ => by simp [recvLoop]⟩
          | cons x xs =>
            obtain ⟨c1, c2, c3, c4⟩ := chunk_step (x :: xs) (min (n + 1) (k + 1)) (n + 1) (by omega)
              (Nat.min_le_left _ _) (by simp)
            have hI := ih (n + 1 - ((x :: xs).take (min (n + 1) (k + 1))).length)
              (out ++ (x :: xs).take (min (n + 1) (k + 1)))
              ((x :: xs).drop ((x :: xs).take (min (n + 1) (k + 1))).length) t
              (by simp only [List.length_cons] at hf; omega)
            simp only [recvLoop]
            constructor
            · intro h
              obtain ⟨e1, e2, e3⟩ := c3 h
              obtain ⟨sc, hsc⟩ := hI.1 e3
              exact ⟨sc, by rw [hsc, List.append_assoc, e1, e2]⟩
            · intro h
              exact hI.2 (c4 h)

/-- `read_all(n)` with an empty `__remainder`: whatever the `recv` sizes and timeouts, the result is the next
`n` bytes of the stream, or EOF when the stream is shorter -/
theorem readAll_spec (data : Bytes) (sched : List Nat) (n : Int) :
    (n.toNat ≤ data.length →
      ∃ sc, readAll ⟨[], data, sched⟩ n = .ok (data.take n.toNat, ⟨[], data.drop n.toNat, sc⟩)) ∧
    (data.length < n.toNat → readAll ⟨[], data, sched⟩ n = .error .eof) := by
  have hs := recvLoop_spec (n.toNat + sched.length) n.toNat [] data sched (Nat.le_refl _)
  unfold readAll
  simp only [List.isEmpty_nil, if_true, List.length_nil, Int.natCast_zero, Int.sub_zero]
  constructor
  · intro h
    obtain ⟨sc, hsc⟩ := hs.1 h
    exact ⟨sc, by rw [hsc]; simp⟩
  · intro h
    rw [hs.2 h]

/-- socket run and stream run agree -/
def SimRes {α : Type} : SRes α → Res α → Prop
  | .ok a s, .ok b rest => a = b ∧ s.rem = [] ∧ s.data = rest
  | .err e, .err e' => e = e'
  | _, _ => False

theorem runSock_sim {α : Type} (m : Rd α) : ∀ (data : Bytes) (sched : List Nat),
    SimRes (runSock m ⟨[], data, sched⟩) (runBuf m data) := by
  induction m with
  | ret a => intro data sched; exact ⟨rfl, rfl, rfl⟩
  | fail e => intro data sched; exact rfl
  | read n k ih =>
    intro data sched
    obtain ⟨h1, h2⟩ := readAll_spec data sched n
    unfold runSock runBuf
    by_cases h0 : n ≤ 0
    · have hz : n.toNat = 0 := by omega
      obtain ⟨sc, hsc⟩ := h1 (by omega)
      rw [hsc, hz]
      simp only [h0, if_true, List.take_zero, List.drop_zero]
      exact ih [] data sc
    · simp only [h0, if_false]
      by_cases hl : n.toNat ≤ data.length
      · obtain ⟨sc, hsc⟩ := h1 hl
        rw [hsc]
        simp only [hl, if_true]
        exact ih _ _ sc
      · rw [h2 (by omega)]
        simp only [hl, if_false]
        rfl

/-- the message sequence delivered over a fragmenting socket is the one delivered from the plain stream,
and the receiver stops for the same reason -/
theorem recvAllSock_eq {p : Prims} (ops : List (Op p)) : ∀ (r : Receiver p) (data : Bytes) (sched : List Nat),
    (recvAllSock r ops ⟨[], data, sched⟩).1 = (recvAll r ops data).msgs ∧
    (recvAllSock r ops ⟨[], data, sched⟩).2.1 = (recvAll r ops data).stop := by
  induction ops with
  | nil => intro r data sched; exact ⟨rfl, rfl⟩
  | cons op ops ih =>
    intro r data sched
    cases op with
    | msg d rnd =>
      have hsim := runSock_sim (readMessage r) data sched
      simp only [recvAllSock, recvAll]
      cases hs : runSock (readMessage r) ⟨[], data, sched⟩ with
      | err e =>
        cases hb : runBuf (readMessage r) data with
        | err e' =>
          rw [hs, hb] at hsim
          simp only [SimRes] at hsim
          subst hsim
          exact ⟨rfl, rfl⟩
        | ok b rest => rw [hs, hb] at hsim; exact absurd hsim (by simp [SimRes])
      | ok a s' =>
        cases hb : runBuf (readMessage r) data with
        | err e' => rw [hs, hb] at hsim; exact absurd hsim (by simp [SimRes])
        | ok b rest =>
          rw [hs, hb] at hsim
          simp only [SimRes] at hsim
          obtain ⟨hab, hrem, hdata⟩ := hsim
          subst hab
          obtain ⟨srem, sdata, ssched⟩ := s'
          simp only at hrem hdata
          subst hrem; subst hdata
          obtain ⟨i1, i2⟩ := ih a.st sdata ssched
          simp only
          exact ⟨by rw [i1], i2⟩
    | setCipher b m sd co ci => simp only [recvAllSock, recvAll]; exact ih _ _ _
    | setComp zo zi => simp only [recvAllSock, recvAll]; exact ih _ _ _
    | resetSeq => simp only [recvAllSock, recvAll]; exact ih _ _ _
    | kexDone => simp only [recvAllSock, recvAll]; exact ih _ _ _

end PV.Packet
