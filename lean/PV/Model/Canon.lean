/-
  PV.Model.Canon — executable model of `SFTPServerInterface.canonicalize` (paramiko/sftp_si.py, POSIX
  branch): `normpath(path)` if the path is absolute, else `normpath("/" + path)`, with
  `posixpath.normpath` modelled after CPython's reference definition (split root, split on "/",
  a stack of kept components).  Paths are the UTF-8 bytes of the `str` (0x2F and 0x2E never occur inside
  a multi-byte sequence, so splitting bytes = splitting code points).  Mathlib-free.
-/
import PV.Base.Bytes
namespace PV.Canon
open PV

def slash : UInt8 := 47
def dot : Bytes := [46]
def dotdot : Bytes := [46, 46]

/-- Python `s.split("/")` (never empty) -/
def splitSlash (s : Bytes) : List Bytes :=
  go s []
where
  go : Bytes → Bytes → List Bytes
    | [], acc => [acc.reverse]
    | c :: cs, acc => if c = slash then acc.reverse :: go cs [] else go cs (c :: acc)

/-- Python `"/".join(l)` -/
def joinSlash : List Bytes → Bytes
  | [] => []
  | [a] => a
  | a :: b :: r => a ++ slash :: joinSlash (b :: r)

/-- `posixpath.splitroot` (drive is always empty): (root, tail) -/
def splitroot : Bytes → Bytes × Bytes
  | [] => ([], [])
  | c :: r =>
    if c ≠ slash then ([], c :: r)
    else match r with
      | [] => ([slash], [])
      | d :: r2 =>
        if d ≠ slash then ([slash], d :: r2)
        else match r2 with
          | [] => ([slash, slash], [])
          | e :: r3 => if e = slash then ([slash], d :: e :: r3) else ([slash, slash], e :: r3)

/-- one iteration of normpath's loop; the stack is `new_comps` reversed -/
def normStep (rooted : Bool) (stack : List Bytes) (comp : Bytes) : List Bytes :=
  if comp = [] ∨ comp = dot then stack
  else if comp ≠ dotdot ∨ (rooted = false ∧ stack = []) ∨ stack.head? = some dotdot then comp :: stack
  else stack.tail

/-- `posixpath.normpath` -/
def normpath (path : Bytes) : Bytes :=
  if path = [] then dot
  else
    let (root, tail) := splitroot path
    let stack := (splitSlash tail).foldl (normStep (root ≠ [])) []
    let out := root ++ joinSlash stack.reverse
    if out = [] then dot else out

/-- `os.path.isabs` -/
def isabs (path : Bytes) : Bool := path.head? = some slash

/-- `SFTPServerInterface.canonicalize` (non-Windows) -/
def canonicalize (path : Bytes) : Bytes :=
  if isabs path then normpath path else normpath (slash :: path)

/-! ### what "inside the root" means: a walk over components never climbs above depth 0 -/

/-- follow components starting `d` levels below the served root; `none` = the walk left the root -/
def descend : Nat → List Bytes → Option Nat
  | d, [] => some d
  | d, c :: r =>
    if c = [] ∨ c = dot then descend d r
    else if c = dotdot then (if d = 0 then none else descend (d - 1) r)
    else descend (d + 1) r

/-- a proper path component: a name -/
def Proper (c : Bytes) : Prop := c ≠ [] ∧ c ≠ dot ∧ c ≠ dotdot ∧ slash ∉ c

end PV.Canon
