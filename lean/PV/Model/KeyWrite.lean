/-
  PV.Model.KeyWrite — paramiko's own logic on the private-key WRITE path:

    RSAKey/ECDSAKey.write_private_key(_file), PKey.write_private_key(_file) (base class, Ed25519Key)
    PKey._write_private_key_file (open with O_WRONLY|O_TRUNC|O_CREAT, 0o600 — then serialise)
    PKey._write_private_key      (choice of the encryption argument from the passphrase; `b(password)`)

  The serialisation itself (`key.private_bytes(Encoding.PEM, format, encryption)`) is cryptography's:
  the model says WHICH call is made.  Mathlib-free, total, executable.
-/
import PV.Model.PubKey
namespace PV.KeyWrite
open PV PV.PubKey

/-- the Python value given as `password` -/
inductive Pass
  | none
  | bytes (b : Bytes)
  /-- a `str`, by its UTF-8 encoding -/
  | str (utf8 : Bytes)
  /-- anything else (int, object, …) -/
  | other
  deriving Repr, DecidableEq

inductive Enc
  | noEncryption
  /-- `BestAvailableEncryption(password bytes)` -/
  | best (pw : Bytes)
  deriving Repr, DecidableEq

inductive WErr
  /-- `util.b`: "Expected unicode or bytes" -/
  | typeError
  /-- `BestAvailableEncryption(b"")`: "Password must be 1 or more bytes." -/
  | valueError
  /-- `Exception("Not implemented in PKey")` (base class; Ed25519Key does not override) -/
  | notImplemented
  /-- the object holds no private key (`private_bytes` missing / `signing_key is None`) -/
  | attributeError
  deriving Repr, DecidableEq

def WErr.name : WErr → String
  | .typeError => "TypeError" | .valueError => "ValueError"
  | .notImplemented => "Exception" | .attributeError => "AttributeError"

inductive Cls | rsa | ec | ed
  deriving Repr, DecidableEq

/-- `util.b(password)` -/
def toBytes : Pass → Except WErr (Option Bytes)
  | .none => .ok none
  | .bytes b => .ok (some b)
  | .str u => .ok (some u)
  | .other => .error .typeError

/-- `_write_private_key`: the encryption argument -/
def chooseEnc (p : Pass) : Except WErr Enc :=
  match p with
  | .none => .ok .noEncryption
  | _ =>
    match toBytes p with
    | .error e => .error e
    | .ok none => .ok .noEncryption
    | .ok (some b) => if b = [] then .error .valueError else .ok (.best b)

/-- the `private_bytes` call: always `Encoding.PEM`, `PrivateFormat.TraditionalOpenSSL` -/
structure Call where
  enc : Enc
  deriving Repr, DecidableEq

/-- `key.write_private_key(file_obj, password)` -/
def writeKey (c : Cls) (hasPrivate : Bool) (p : Pass) : Except WErr Call :=
  match c with
  | .ed => .error .notImplemented
  | _ =>
    match chooseEnc p with
    | .error e => .error e
    | .ok enc => if hasPrivate then .ok { enc := enc } else .error .attributeError

/-- the target file after `write_private_key_file`: mode bits, and whether it holds a key or was left
    empty (the file is opened — created / truncated — BEFORE the encryption argument is built) -/
structure FileAfter where
  exists_ : Bool
  mode : Nat
  holdsKey : Bool
  deriving Repr, DecidableEq

def writeKeyFile (c : Cls) (hasPrivate : Bool) (p : Pass) (existing : Option Nat) (umask : Nat) :
    Except WErr Call × Option FileAfter :=
  match c with
  | .ed => (.error .notImplemented, existing.map fun m => { exists_ := true, mode := m, holdsKey := false })
  | _ =>
    let mode := keyFileMode existing umask
    match writeKey c hasPrivate p with
    | .ok call => (.ok call, some { exists_ := true, mode := mode, holdsKey := true })
    | .error e => (.error e, some { exists_ := true, mode := mode, holdsKey := false })

/-! ## destination states of `write_private_key_file` -/

inductive Dest
  /-- nothing at the path; its directory exists -/
  | missing
  /-- a regular file with these mode bits -/
  | existing (mode : Nat)
  /-- the directory of the path does not exist -/
  | missingParent
  /-- a symlink whose target is absent (the target's directory exists): `O_CREAT` creates the target -/
  | danglingSymlink
  /-- a symlink to a regular file with these mode bits -/
  | symlinkTo (mode : Nat)
  | directory
  deriving Repr, DecidableEq

inductive OSErr | fileNotFound | isADirectory
  deriving Repr, DecidableEq

def OSErr.name : OSErr → String
  | .fileNotFound => "FileNotFoundError" | .isADirectory => "IsADirectoryError"

/-- the single `os.open(filename, O_WRONLY|O_TRUNC|O_CREAT, 0o600)` of `_write_private_key_file`:
    (mode bits of the file that gets written, whether the call created it); an error is not handled -/
def openDest (d : Dest) (umask : Nat) : Except OSErr (Nat × Bool) :=
  match d with
  | .missing | .danglingSymlink => .ok (keyFileMode none umask, true)
  | .existing m | .symlinkTo m => .ok (m, false)
  | .missingParent => .error .fileNotFound
  | .directory => .error .isADirectory

end PV.KeyWrite
