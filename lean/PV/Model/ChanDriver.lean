/-
  PV.Model.ChanDriver — line protocol over the channel model (shared by the drivers of C19, C20, C22, C25).
  One request per line; the reply is a canonical rendering of the state after the action:
     o=<out_window> s=<in_window_sofar> f=<active closed eofSent eofRecv linked pipesClosed as 0/1> b=<in>,<err>
     w=<#messages written>:<last message> T=<thread>|<thread>|…
  threads:  i:<result>   w:<want>:<ext>:<left or ->:<sendall remainder or ->   h:<first held message>
            g:<n>   l:<remainder>:<ext>
  results:  -  r<n>  b<n>  C (socket.error)  T (socket.timeout)  D<bytes handed over> (sendall returned)
  messages: d<n> x<n> a<n> E C
-/
import PV.Model.ChanWindow
import PV.Model.ChanNotify
import PV.Base.DriverIO
namespace PV.Chan

def showMsg : Msg → String
  | .data n => "d" ++ toString n
  | .ext n => "x" ++ toString n
  | .adjust n => "a" ++ toString n
  | .eof => "E"
  | .close => "C"

def showRes : Res → String
  | .none => "-"
  | .ret n => "r" ++ toString n
  | .bytes n => "b" ++ toString n
  | .sockClosed => "C"
  | .timeout => "T"
  | .sshError => "S"
  | .doneAll h _ => "D" ++ toString h

def b01 (b : Bool) : String := if b then "1" else "0"

def showOptNat : Option Nat → String
  | none => "-"
  | some n => toString n

def showThr : TSt → String
  | .idle r => "i:" ++ showRes r
  | .waiting want ext left lp =>
    "w:" ++ toString want ++ ":" ++ b01 ext ++ ":" ++ showOptNat left ++ ":" ++ showOptNat (lp.map (·.rem))
  | .hold ms _ => "h:" ++ (match ms with | m :: _ => showMsg m | [] => "-")
  | .gotBytes n => "g:" ++ toString n
  | .loopHead l ext => "l:" ++ toString l.rem ++ ":" ++ b01 ext

def showSt (s : St) : String :=
  "o=" ++ toString s.outWin ++ " s=" ++ toString s.inSofar ++
  " f=" ++ b01 s.active ++ b01 s.closed ++ b01 s.eofSent ++ b01 s.eofRecv ++ b01 s.linked ++ b01 s.pipesClosed ++
  " b=" ++ toString s.inBuf ++ "," ++ toString s.errBuf ++
  " w=" ++ toString s.wire.length ++ ":" ++ (match s.wire.getLast? with | some m => showMsg m | none => "-") ++
  " p=" ++ toString s.maxPkt ++
  " T=" ++ "|".intercalate (s.thr.map showThr)

def parseBool (t : String) : Option Bool :=
  if t == "1" then some true else if t == "0" then some false else none

def parseMode (t : String) : Option Mode :=
  if t == "b" || t == "bb" then some .blocking
  else if t == "n" || t == "n0" || t == "nb" then some .nonblocking
  else if t.startsWith "t" then (t.drop 1).toNat?.map Mode.timed
  else none

def parseAct (ws : List String) : Option Act :=
  match ws with
  | ["send", t, n, e] => do pure (.send (← t.toNat?) (← n.toNat?) (← parseBool e))
  | ["sendall", t, n, e] => do pure (.sendall (← t.toNat?) (← n.toNat?) (← parseBool e))
  | ["iter", t] => do pure (.iter (← t.toNat?))
  | ["wake", t, dt] => do pure (.wake (← t.toNat?) (← dt.toNat?))
  | ["emit", t] => do pure (.emit (← t.toNat?))
  | ["efail", t] => do pure (.emitFail (← t.toNat?))
  | ["recv", t, k, e] => do pure (.recv (← t.toNat?) (← k.toNat?) (← parseBool e))
  | ["check", t] => do pure (.check (← t.toNat?))
  | ["close", t] => do pure (.close (← t.toNat?))
  | ["shutw", t] => do pure (.shutdownWrite (← t.toNat?))
  | ["shutr"] => some .shutdownRead
  | ["mode", m] => do pure (.setMode (← parseMode m))
  | ["feed", n] => do pure (.feed (← n.toNat?))
  | ["feedx", t, c, n] => do pure (.feedExt (← t.toNat?) (← c.toNat?) (← n.toNat?))
  | ["adjust", n] => do pure (.adjust (← n.toNat?))
  | ["peof"] => some .peerEof
  | ["pclose", t] => do pure (.peerClose (← t.toNat?))
  | ["reqfail", t] => do pure (.requestFailed (← t.toNat?))
  | ["unlink"] => some .unlink
  | _ => none

/-- the driver also tracks which sleepers the code has notified (`notify_all` in `_window_adjust` and
    `_set_closed`, PV.Model.ChanNotify); unlike the strict `nstep` it lets any sleeper run (the random schedules
    use spurious wake-ups) -/
structure DSt where
  st : St
  sig : List Nat

def codeN : NCfg := { adjustAll := true, closeAll := true }

def sigAfter (z : DSt) (a : Act) : List Nat :=
  match a with
  | .wake t _ => z.sig.filter (fun u => u != t)
  | _ => (nstep codeN fixedCfg { base := z.st, sig := z.sig } a).sig

def insertNat (x : Nat) : List Nat → List Nat
  | [] => [x]
  | y :: ys => if x < y then x :: y :: ys else if x = y then y :: ys else y :: insertNat x ys

def showSig (l : List Nat) : String :=
  let u := l.foldr insertNat []
  if u.isEmpty then "-" else ",".intercalate (u.map toString)

def showD (z : DSt) : String := showSt z.st ++ " N=" ++ showSig z.sig

/-- `init <inWin> <peerWin> <peerMax> <nthr> <combine>` resets the state; `wire` prints the whole wire -/
def driverStep (cfg : Cfg) (z : DSt) (line : String) : DSt × String :=
  let s := z.st
  match PV.words line with
  | ["init", a, b, c, d, e] =>
    match a.toNat?, b.toNat?, c.toNat?, d.toNat?, parseBool e with
    | some a, some b, some c, some d, some e => let z' : DSt := ⟨init a b c d e, []⟩; (z', showD z')
    | _, _, _, _, _ => (z, "bad-op")
  | ["wire"] => (z, if s.wire.isEmpty then "-" else ",".intercalate (s.wire.map showMsg))
  | ["ghost"] =>
    (z, "granted=" ++ toString s.granted ++ " recvd=" ++ toString s.recvd ++ " consumed=" ++ toString s.consumed ++
        " discarded=" ++ toString s.discarded ++ " leaked=" ++ toString s.leaked ++ " raced=" ++ b01 s.raced)
  | ws =>
    match parseAct ws with
    | some a => let z' : DSt := ⟨step cfg s a, sigAfter z a⟩; (z', showD z')
    | none => (z, "bad-op")

def driverInit : DSt := ⟨init 0 0 0 0 false, []⟩

end PV.Chan
