/-
  PV.Model.RekeyFlight — one transport between sending its KEXINIT and the end of a re-exchange, with peer
  traffic that was already in flight.  What matters is *how* each handler answers (paramiko/transport.py
  `_parse_global_request`, `_parse_channel_open`; paramiko/channel.py `_handle_request`, `_handle_close`, …):

    * `none`         — the handler sends nothing on the transport thread (DATA, EXTENDED_DATA, WINDOW_ADJUST, EOF,
                       requests without want_reply, replies to our own requests);
    * `direct`       — it answers with `Transport._send_message`, which is not gated by `clear_to_send`;
    * `userBlocking` — it answers with `Transport._send_user_message` *on the transport thread* (`_handle_close`,
                       `_handle_request` with want_reply, `_request_failed`, the discard branch of `_feed_extended`
                       once a window adjustment is due), which waits for
                       `clear_to_send` — an event only the transport thread itself sets, when it processes NEWKEYS.

  User threads send through `_send_user_message` and are parked while `clear_to_send` is cleared.
  Mathlib-free, executable.
-/
namespace PV.RekeyFlight

inductive Kind
  | data | extendedData | windowAdjust | eof | channelRequestNoReply | globalRequestNoReply | requestReplyToUs
  | globalRequestWantReply | channelOpen
  | channelClose | channelRequestWantReply | channelFailure | extendedDataDiscarded
  deriving Repr, DecidableEq, Inhabited

inductive Mech | none | direct | userBlocking
  deriving Repr, DecidableEq, Inhabited

def mech : Kind → Mech
  | .globalRequestWantReply | .channelOpen => .direct
  | .channelClose | .channelRequestWantReply | .channelFailure | .extendedDataDiscarded => .userBlocking
  | _ => .none

/-- message type of the answer -/
def replyType : Kind → Nat
  | .globalRequestWantReply => 82
  | .channelOpen => 91
  | .channelClose => 97
  | .channelRequestWantReply => 99
  | .channelFailure => 96            -- `_request_failed` closes the channel: EOF, CLOSE
  | .extendedDataDiscarded => 93     -- `_feed_extended` credits discarded data: WINDOW_ADJUST
  | _ => 0

inductive Phase | idle | sentKexinit | kexRunning | sentNewkeys | done
  deriving Repr, DecidableEq, Inhabited

structure St where
  phase : Phase := .idle
  clearToSend : Bool := true
  dead : Bool := false               -- "Key-exchange timed out waiting for key negotiation": session lost
  wire : List Nat := []              -- message types put on the wire, in order
  parked : List Nat := []            -- user-thread messages waiting in `_send_user_message`
  deriving Repr, DecidableEq, Inhabited

inductive Ev
  | startRekey                       -- `_send_kex_init` (thresholds, renegotiate_keys, …)
  | inflight (k : Kind)              -- a connection-layer message of the peer, dispatched now
  | userSend (t : Nat)               -- a user thread calls `_send_user_message` with a message of type t
  | peerKexinit                      -- peer's KEXINIT → our first kex message (type 30)
  | kexReply                         -- engine finished → our NEWKEYS
  | peerNewkeys                      -- `_parse_newkeys`: `clear_to_send.set()`, parked senders go on
  deriving Repr, DecidableEq, Inhabited

def step (s : St) (ev : Ev) : St :=
  if s.dead then s else
  match ev with
  | .startRekey =>
    if s.phase = .idle ∨ s.phase = .done then
      { s with phase := .sentKexinit, clearToSend := false, wire := s.wire ++ [20] } else s
  | .inflight k =>
    match mech k with
    | .none => s
    | .direct => { s with wire := s.wire ++ [replyType k] }
    | .userBlocking =>
      if s.clearToSend then { s with wire := s.wire ++ [replyType k] }
      else { s with dead := true }      -- the only thread that could set the event is the one waiting for it
  | .userSend t =>
    if s.clearToSend then { s with wire := s.wire ++ [t] } else { s with parked := s.parked ++ [t] }
  | .peerKexinit =>
    if s.phase = .sentKexinit then { s with phase := .kexRunning, wire := s.wire ++ [30] } else s
  | .kexReply =>
    if s.phase = .kexRunning then { s with phase := .sentNewkeys, wire := s.wire ++ [21] } else s
  | .peerNewkeys =>
    if s.phase = .sentNewkeys then
      { s with phase := .done, clearToSend := true, wire := s.wire ++ s.parked, parked := [] } else s

def run (s : St) (evs : List Ev) : St := evs.foldl step s

/-- the part of the wire between our KEXINIT and our NEWKEYS (exclusive) of the last exchange -/
def kexWindow (w : List Nat) : List Nat :=
  ((w.reverse.takeWhile (· ≠ 20)).reverse).takeWhile (· ≠ 21)

/-- transport-layer and key-exchange message numbers (RFC 4253: 1..49) -/
def transportLayer (t : Nat) : Bool := decide (t < 50)

end PV.RekeyFlight
