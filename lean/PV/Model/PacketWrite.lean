/-
  PV.Model.PacketWrite — `write_all`: whatever the socket's `send` does (short writes, timeouts, EAGAIN, in any
  order), the bytes accepted by the socket are the packet (when `write_all` returns) or a prefix of it (when it
  raises EOFError); nothing is skipped, duplicated or reordered.
-/
import PV.Model.PacketRoundtrip
namespace PV.Packet
open PV

theorem writeAll_spec (sched : List SendEv) : ∀ (out : Bytes) (it : Nat) (w : Bytes),
    (∀ wr, writeAll sched out it w = .ok wr → wr = w ++ out) ∧
    (∀ wr, writeAll sched out it w = .eof wr → ∃ k, wr = w ++ out.take k ∧ k < out.length) := by
  induction sched with
  | nil =>
    intro out it w
    cases out with
    | nil => exact ⟨fun wr h => (by simp [writeAll] at h; simp [h]), fun wr h => (by simp [writeAll] at h)⟩
    | cons x xs => exact ⟨fun wr h => (by simp [writeAll] at h; rw [← h]), fun wr h => (by simp [writeAll] at h)⟩
  | cons ev t ih =>
    intro out it w
    cases out with
    | nil => exact ⟨fun wr h => (by simp [writeAll] at h; simp [h]), fun wr h => (by simp [writeAll] at h)⟩
    | cons x xs =>
      cases ev with
      | fail =>
        exact ⟨fun wr h => (by simp [writeAll] at h),
          fun wr h => (by simp [writeAll] at h; exact ⟨0, by simp [h], by simp⟩)⟩
      | timeout =>
        simp only [writeAll, retryN, List.drop_zero]
        exact ih (x :: xs) it w
      | eagain =>
        simp only [writeAll, retryN, List.drop_zero]
        exact ih (x :: xs) it w
      | accept k =>
        simp only [writeAll]
        by_cases h0 : min k (xs.length + 1) = 0 ∧ it > zeroLimit
        · simp only [h0, and_self, if_true]
          exact ⟨fun wr h => (by cases h), fun wr h => (by injection h with h; exact ⟨0, by simp [h], by simp⟩)⟩
        · simp only [h0, if_false]
          by_cases h1 : min k (xs.length + 1) = xs.length + 1
          · simp only [h1, if_true]
            exact ⟨fun wr h => (by injection h with h; rw [← h]), fun wr h => (by cases h)⟩
          · simp only [h1, if_false]
            have hlt : min k (xs.length + 1) < xs.length + 1 := by omega
            obtain ⟨i1, i2⟩ := ih ((x :: xs).drop (min k (xs.length + 1))) (it + 1)
              (w ++ (x :: xs).take (min k (xs.length + 1)))
            refine ⟨?_, ?_⟩
            · intro wr h
              rw [i1 wr h, List.append_assoc, List.take_append_drop]
            · intro wr h
              obtain ⟨j, hj, hjl⟩ := i2 wr h
              refine ⟨min k (xs.length + 1) + j, ?_, ?_⟩
              · rw [hj, List.append_assoc, List.take_add]
              · rw [List.length_drop] at hjl
                simp only [List.length_cons] at hjl ⊢
                omega

/-- the sender writing through `write_all` under arbitrary `send` schedules puts exactly the bytes of `sendAll` on
the socket (whenever no `write_all` raised) -/
theorem sendAllW_eq {p : Prims} (ops : List (Op p)) : ∀ (s : Sender p) (scheds : List (List SendEv)) s' w,
    sendAllW s ops scheds = .ok (s', w) → ∃ log, sendAll s ops = .ok (s', w, log) := by
  induction ops with
  | nil =>
    intro s scheds s' w h
    simp only [sendAllW] at h
    have := Except.ok.inj h
    simp only [Prod.mk.injEq] at this
    exact ⟨[], by simp [sendAll, this.1, this.2]⟩
  | cons op ops ih =>
    intro s scheds s' w h
    cases op with
    | msg d rnd =>
      simp only [sendAllW] at h
      simp only [sendAll]
      cases hsm : sendMessage s d rnd with
      | error e => rw [hsm] at h; cases h
      | ok o =>
        rw [hsm] at h
        simp only at h ⊢
        cases hw : writeAll (scheds.headD []) o.wire 0 [] with
        | eof wr => rw [hw] at h; cases h
        | ok wr =>
          rw [hw] at h
          simp only at h
          have hwr : wr = o.wire := by simpa using (writeAll_spec _ o.wire 0 []).1 wr hw
          cases hsa : sendAllW o.st ops scheds.tail with
          | error e => rw [hsa] at h; cases h
          | ok res =>
            obtain ⟨s1, w1⟩ := res
            rw [hsa] at h
            simp only at h
            have := Except.ok.inj h
            simp only [Prod.mk.injEq] at this
            obtain ⟨log, hl⟩ := ih o.st scheds.tail s1 w1 hsa
            rw [hl]
            exact ⟨o.auth.toList ++ log, by simp [← this.1, ← this.2, hwr]⟩
    | setCipher b m sd co ci => simp only [sendAllW] at h; simp only [sendAll]; exact ih _ _ _ _ h
    | setComp zo zi => simp only [sendAllW] at h; simp only [sendAll]; exact ih _ _ _ _ h
    | resetSeq => simp only [sendAllW] at h; simp only [sendAll]; exact ih _ _ _ _ h
    | kexDone => simp only [sendAllW] at h; simp only [sendAll]; exact ih _ _ _ _ h

end PV.Packet
