/-
  PV.Model.Surface — how a failure inside the transport thread reaches the application.

  `Transport.run()` catches whatever the packet reader, a key-exchange engine or a message handler
  raises, stores it in `saved_exception`, and shuts the transport down; the blocking API calls and
  `get_exception()` hand the stored object to the application.  Exception *classes* are what the
  property is about, so the model is over classes.
-/
namespace PV.Surface

/-- exception classes as the property partitions them -/
inductive Exc
  | ssh            -- SSHException and its subclasses (AuthenticationException, ChannelException, …)
  | eof            -- EOFError
  | sock           -- socket.error / OSError / socket.timeout
  | internal (cls : Nat)   -- anything else: KeyError, IndexError, TypeError, ValueError, UnicodeDecodeError, …
  deriving DecidableEq, Repr

def Exc.allowed : Exc → Bool
  | .internal _ => false
  | _ => true

/-- the `except` ladder at the end of `Transport.run()`; `wrap` = the generic clause converts the
    exception to an SSHException (the repaired code) instead of storing it as it is (the old code) -/
def runCatch (wrap : Bool) : Exc → Exc
  | .ssh => .ssh
  | .eof => .eof
  | .sock => .sock
  | .internal c => if wrap then .ssh else .internal c

/-- API calls that surface the stored exception -/
inductive Api
  | getException       -- returns saved (or None)
  | startClient        -- raise saved, else SSHException("Negotiation failed.")
  | openChannel        -- raise saved, else SSHException("Unable to open channel.")
  | renegotiate        -- raise saved, else SSHException("Negotiation failed.")
  | authWait           -- wait_for_response: saved None or EOFError → AuthenticationException, else saved
  | channelRequest     -- _wait_for_event: saved, else SSHException("Channel closed.")
  deriving DecidableEq, Repr

/-- what the application sees, given what is stored (`none` = nothing stored) -/
def surface (api : Api) (saved : Option Exc) : Option Exc :=
  match api, saved with
  | .getException, s => s
  | .authWait, none => some .ssh
  | .authWait, some .eof => some .ssh
  | .authWait, some e => some e
  | _, none => some .ssh
  | _, some e => some e

/-- end to end: something of class `raised` escapes a handler in the transport thread -/
def observed (wrap : Bool) (api : Api) (raised : Exc) : Option Exc :=
  surface api (some (runCatch wrap raised))

end PV.Surface
