/-
  Helper lemmas for PV.Model.Negotiate (kept apart from the property theorems in PV/Props/C05.lean).
-/
import PV.Model.Negotiate
import PV.Props.C39
namespace PV.Negotiate
open PV PV.Wire

/-! ## well-formedness (decidable; instances are checked by `decide`) -/

/-- a real algorithm name: non-empty, no comma, not a marker pseudo-algorithm -/
def nameOK (n : Name) : Bool := n != [] && !n.contains 44 && !isMarker n

/-- every name of the `*_info` tables (and every cert variant of a host key name) is a real name -/
def infoOK (i : Info) : Bool :=
  i.kex.all nameOK && i.keys.all (fun n => nameOK n && nameOK (cert n)) && i.ciphers.all nameOK &&
  i.macs.all nameOK && i.compression.all nameOK

/-- the invariant `SecurityOptions._set` maintains: preference lists only hold table keys -/
def Side.wf (i : Info) (s : Side) : Bool :=
  s.prefKex.all i.kex.contains && s.prefKeys.all i.keys.contains && s.prefCiphers.all i.ciphers.contains &&
  s.prefMacs.all i.macs.contains && s.prefComp.all i.compression.contains

/-- role-aware RFC rule: always "first of the *client's* list that the server has" -/
def fc (server : Bool) (own peer : List Name) : Option Name :=
  if server then firstCommon peer own else firstCommon own peer

/-! ## filter / find -/

theorem head?_filter_eq_find? {α : Type} (p : α → Bool) (l : List α) :
    (l.filter p).head? = l.find? p := by
  induction l with
  | nil => rfl
  | cons a l ih =>
    by_cases h : p a = true
    · simp [List.filter, List.find?, h]
    · simp [List.filter, List.find?, h, ih]

theorem agreeList_head? (sv : Bool) (own peer : List Name) :
    (agreeList sv own peer).head? = fc sv own peer := by
  cases sv <;> simp [agreeList, fc, firstCommon]

theorem firstOr_eq (l : List Name) :
    firstOr l = match l.head? with | some a => .ok a | none => .error .incompatible := by
  cases l <;> rfl

theorem firstOr_agree (sv : Bool) (own peer : List Name) :
    firstOr (agreeList sv own peer)
      = match fc sv own peer with | some a => .ok a | none => .error .incompatible := by
  rw [firstOr_eq, agreeList_head?]

theorem length_eq_zero_iff_head? {α : Type} (l : List α) : (l.length == 0) = l.head?.isNone := by
  cases l <;> rfl

theorem agree_len0 (sv : Bool) (own peer : List Name) :
    ((agreeList sv own peer).length == 0) = (fc sv own peer).isNone := by
  rw [length_eq_zero_iff_head?, agreeList_head?]

theorem headD_eq_head?_getD {α : Type} (l : List α) (d : α) : l.headD d = l.head?.getD d := by
  cases l <;> rfl

theorem agree_headD (sv : Bool) (own peer : List Name) :
    (agreeList sv own peer).headD [] = (fc sv own peer).getD [] := by
  rw [headD_eq_head?_getD, agreeList_head?]

theorem firstCommon_some {c s : List Name} {a : Name} (h : firstCommon c s = some a) :
    a ∈ c ∧ a ∈ s := by
  unfold firstCommon at h
  have h1 := List.mem_of_find?_eq_some h
  have h2 := List.find?_some h
  exact ⟨h1, by simpa using h2⟩

theorem firstCommon_eq_none {c s : List Name} : firstCommon c s = none ↔ ∀ a ∈ c, a ∉ s := by
  unfold firstCommon
  simp [List.find?_eq_none]

theorem fc_some {sv : Bool} {own peer : List Name} {a : Name} (h : fc sv own peer = some a) :
    a ∈ own ∧ a ∈ peer := by
  cases sv
  · exact firstCommon_some h
  · exact (firstCommon_some h).symm

/-! ## filterAlg -/

theorem mem_filterAlg {pref dis : List Name} {a : Name} :
    a ∈ filterAlg pref dis ↔ a ∈ pref ∧ a ∉ dis := by
  simp [filterAlg]

theorem mem_preferredKeys {s : Side} {a : Name} (h : a ∈ s.preferredKeys) : a ∉ s.disKeys := by
  unfold Side.preferredKeys at h
  simp only [List.mem_append, List.mem_filter] at h
  rcases h with h | h
  · exact (mem_filterAlg.mp h).2
  · simpa using h.2

theorem preferredKeys_sub {i : Info} {s : Side} (hw : s.prefKeys.all i.keys.contains = true)
    {a : Name} (h : a ∈ s.preferredKeys) : a ∈ i.keys ∨ ∃ b ∈ i.keys, a = cert b := by
  unfold Side.preferredKeys at h
  simp only [List.mem_append, List.mem_filter, List.mem_map] at h
  have hw' : ∀ x ∈ s.prefKeys, x ∈ i.keys := by simpa using hw
  rcases h with h | ⟨⟨b, hb, rfl⟩, _⟩
  · exact Or.inl (hw' _ (mem_filterAlg.mp h).1)
  · exact Or.inr ⟨b, hw' _ (mem_filterAlg.mp hb).1, rfl⟩

/-! ## markers and the wire -/

theorem stripMarkers_mem {l : List Name} {a : Name} : a ∈ stripMarkers l ↔ a ∈ l ∧ isMarker a = false := by
  simp [stripMarkers]

theorem stripMarkers_id {l : List Name} (h : ∀ a ∈ l, isMarker a = false) : stripMarkers l = l := by
  unfold stripMarkers
  rw [List.filter_eq_self]
  intro a ha
  simp [h a ha]

theorem stripMarkers_append (a b : List Name) : stripMarkers (a ++ b) = stripMarkers a ++ stripMarkers b := by
  simp [stripMarkers]

theorem isMarker_extInfoC : isMarker extInfoC = true := by decide
theorem isMarker_strictMarker (b : Bool) : isMarker (strictMarker b) = true := by cases b <;> decide

theorem nameOK_iff {n : Name} : nameOK n = true ↔ n ≠ [] ∧ (44 : UInt8) ∉ n ∧ isMarker n = false := by
  simp [nameOK, and_assoc]

/-- what the peer reads is what was written, except that an empty list arrives as `[""]` -/
theorem viaWire_eq {l : List Name} (h : ∀ a ∈ l, (44 : UInt8) ∉ a) :
    viaWire l = if l = [] then [[]] else l := by
  unfold viaWire
  by_cases hl : l = []
  · subst hl; rfl
  · simp only [hl, if_false]
    exact PV.Props.C39.split_join l hl h

theorem firstCommon_nil_left (s : List Name) : firstCommon [] s = none := rfl

theorem firstCommon_nil_right (c : List Name) : firstCommon c [] = none := by
  rw [firstCommon_eq_none]; intro a _; simp

theorem firstCommon_viaWire_right {c s : List Name} (hc : ([] : Name) ∉ c)
    (hs : ∀ a ∈ s, (44 : UInt8) ∉ a) : firstCommon c (viaWire s) = firstCommon c s := by
  rw [viaWire_eq hs]
  by_cases h : s = []
  · subst h
    simp only [if_true, firstCommon_nil_right]
    rw [firstCommon_eq_none]
    intro a ha hmem
    simp at hmem
    exact hc (hmem ▸ ha)
  · simp [h]

theorem firstCommon_viaWire_left {c s : List Name} (hs : ([] : Name) ∉ s)
    (hc : ∀ a ∈ c, (44 : UInt8) ∉ a) : firstCommon (viaWire c) s = firstCommon c s := by
  rw [viaWire_eq hc]
  by_cases h : c = []
  · subst h
    simp only [if_true, firstCommon_nil_left]
    rw [firstCommon_eq_none]
    intro a ha
    simp at ha
    exact ha ▸ hs
  · simp [h]

theorem stripMarkers_viaWire {l : List Name} (h : ∀ a ∈ l, (44 : UInt8) ∉ a) :
    stripMarkers (viaWire l) = if l = [] then [[]] else stripMarkers l := by
  rw [viaWire_eq h]
  by_cases hl : l = []
  · subst hl; decide
  · simp [hl]

end PV.Negotiate
