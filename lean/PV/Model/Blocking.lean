/-
  PV.Model.Blocking — the wait loops behind paramiko's blocking calls, and the two shutdown paths.

  One blocked caller thread and one "loss" thread (the transport thread running the tail of
  `Transport.run()` after an exception/EOF, or the application thread inside `Transport.close()`),
  interleaved by an arbitrary schedule.  Each API is a row of `apiTable`: how it waits (read off the
  code, see the comments on the rows; tied to the code by the behavioural correspondence in
  pv/props/c13.py) and which wake-ups each shutdown path delivers to the object it waits on, IN THE
  ORDER THE SOURCE HAS THEM: the two shutdown sequences are regenerated from the AST on every run
  (`PV.Generated.C13.runTail`, `closeSeq`, `eventClearGuarded`; pv/lib_lockdisc.py).
-/
import PV.Generated.C13
namespace PV.Blocking

/-- the two ways a connection ends, as far as wake-ups are concerned -/
inductive Loss
  | remote   -- peer disconnect / socket EOF / protocol error / proxy EOF: tail of `run()`
  | localClose  -- `Transport.close()` called by the application
  deriving DecidableEq, Repr

/-- atomic actions of the loss thread that matter to a waiter -/
inductive LAct
  | setInactive   -- `self.active = False`
  | setFlag       -- the level-triggered object the caller tests becomes set/true
                  -- (completion_event.set(), channel event, status_event, closed flag, …)
  | notify        -- `Condition.notify[_all]()` on the caller's condition variable
  deriving DecidableEq, Repr

/-- how the call waits (one constructor per shape found in the code) -/
inductive Wait
  | poll       -- `x.wait(0.1)` / `time.sleep(0.1)` in a loop: every wake-up re-tests
  | event      -- `Event.wait()` with no timeout: returns once the event is set (level triggered)
  | cvOnce     -- a single `Condition.wait(None)`: returns on notify only (edge triggered)
  | cvLoop     -- `while not <flag>: Condition.wait(None)`
  deriving DecidableEq, Repr

/-- does the call re-arm (clear) the level-triggered object between its openness check and its wait?
    (`Channel._event_pending()` before a channel request is sent) -/
inductive Clear
  | none
  | guarded     -- under the channel lock and only while the channel is open: a set-for-good event stays set
  | unguarded   -- `self.event.clear()` whatever happened since the openness check
  deriving DecidableEq, Repr

structure Api where
  name : String
  wait : Wait
  /-- tests `active` (or the closed flag) before waiting at all and fails fast -/
  precheck : Bool
  /-- every wake-up re-tests `active` and leaves the loop when it is false -/
  loopChecksActive : Bool
  clear : Clear := .none
  /-- (condition-variable loops) the loop condition / body tests the object's closed flag and leaves -/
  checksFlag : Bool := true
  /-- what the loss thread does, per path, as seen from this call's wait object -/
  prog : Loss → List LAct

inductive Pc | start | checked | waiting | done
  deriving DecidableEq, Repr

structure St where
  active : Bool
  flag : Bool
  lossPc : Nat
  pc : Pc
  notified : Bool
  deriving DecidableEq, Repr

def init : St := { active := true, flag := false, lossPc := 0, pc := .start, notified := false }

inductive Tid | caller | loss
  deriving DecidableEq, Repr

def lossFinished (api : Api) (l : Loss) (s : St) : Bool := (api.prog l).length ≤ s.lossPc

/-- can the waiting caller run its next step? (a poll always can: its wait times out) -/
def wakeable (api : Api) (s : St) : Bool :=
  match api.wait with
  | .poll => true
  | .event => s.flag
  | .cvOnce => s.notified
  | .cvLoop => s.notified

def stepCaller (api : Api) (s : St) : St :=
  match s.pc with
  | .done => s
  | .start =>
    if api.precheck && !s.active then { s with pc := .done }
    else if (api.wait == .event || (api.wait == .cvLoop && api.checksFlag)) && s.flag then { s with pc := .done }
    else if api.clear != .none then { s with pc := .checked }
    else { s with pc := .waiting, notified := false }
  | .checked =>
    -- `_event_pending()`, then the request is sent (dropped silently on a dead transport), then the wait
    if api.clear == .unguarded then { s with flag := false, pc := .waiting, notified := false }
    else { s with pc := .waiting, notified := false }
  | .waiting =>
    if !wakeable api s then s            -- still blocked in the C-level wait
    else if api.loopChecksActive && !s.active then { s with pc := .done }
    else if (api.wait != .cvLoop || api.checksFlag) && s.flag then { s with pc := .done }
    else if api.wait == .cvOnce then { s with pc := .done }   -- single wait: returns whatever happened
    else { s with notified := false }    -- go round the loop again

def stepLoss (api : Api) (l : Loss) (s : St) : St :=
  match (api.prog l)[s.lossPc]? with
  | none => s
  | some .setInactive => { s with active := false, lossPc := s.lossPc + 1 }
  | some .setFlag => { s with flag := true, lossPc := s.lossPc + 1 }
  | some .notify =>
    { s with notified := s.notified || (s.pc == .waiting), lossPc := s.lossPc + 1 }

def step (api : Api) (l : Loss) (s : St) : Tid → St
  | .caller => stepCaller api s
  | .loss => stepLoss api l s

def run (api : Api) (l : Loss) (s : St) (sch : List Tid) : St := sch.foldl (step api l) s

/-- "returns promptly": once the loss thread is through, two more caller steps finish the call
    (one to start/wake, one to leave the loop) -/
def returnsPromptly (api : Api) (_l : Loss) (s : St) : Bool :=
  (stepCaller api (stepCaller api s)).pc == .done

/-! ### the rows (after the `fix:` commits for accept / ensure_session / channel requests)

The wake-ups come from the generated shutdown sequences.  `runTail` on the clean tree reads
`other, unlink_channels, [set_inactive, packetizer_close, completion_set, auth_abort, channel_events_set],
accept_notify_all, sock_close` (bracketed = inside `if self.active:`); `closeSeq` reads
`set_inactive, packetizer_close, join_thread, run_tail, unlink_channels, sock_close` where `run_tail` marks the
point from which the transport thread leaves its loop and runs its tail (with `active` already false). -/

/-- what kind of object the call waits on -/
inductive Kind
  | transportPoll  -- a transport-level event polled every 0.1 s together with `active`
  | chanEvent      -- `Channel.event` / `status_event`: set by `_set_closed()` (via `_unlink()`)
  | chanCv         -- a condition variable of the channel: `_set_closed()` sets the flag and `notify_all()`s
  | accept         -- `server_accept_cv`
  | sessionPoll    -- polls nothing but `active`
  deriving DecidableEq, Repr

/-- which object a wait site waits on, from the expression the source calls `.wait()` on -/
def kindOfObj (obj : String) : Kind :=
  if obj == "self.event" || obj == "self.status_event" then .chanEvent
  else if obj == "self._cv" || obj == "self.out_buffer_cv" then .chanCv
  else if obj == "self.server_accept_cv" then .accept
  else if obj == "time" then .sessionPoll
  else .transportPoll

/-- what closing a channel (`_unlink()` → `_set_closed()`) does to the object `obj`, given the statements
    `_set_closed` and `BufferedPipe.close` execute UNCONDITIONALLY in the source (generated).  A wake-up that sits
    under a condition gives a waiter nothing it can rely on. -/
def chanEffect (obj : String) : List LAct :=
  let sc := PV.Generated.C13.setClosedStmts
  let pc := PV.Generated.C13.pipeCloseStmts
  if obj == "self.event" then (if sc.contains "self.event.set" then [.setFlag] else [])
  else if obj == "self.status_event" then (if sc.contains "self.status_event.set" then [.setFlag] else [])
  else if obj == "self._cv" then
    -- BufferedPipe.read on in_buffer / in_stderr_buffer (recv, recv_stderr)
    (if sc.contains "self.in_buffer.close" && sc.contains "self.in_stderr_buffer.close" &&
        pc.contains "self._closed=True" && pc.contains "self._cv.notify_all" then [.setFlag, .notify] else [])
  else if obj == "self.out_buffer_cv" then
    (if sc.contains "self.closed=True" && sc.contains "self.out_buffer_cv.notify_all" then [.setFlag, .notify] else [])
  else []

/-- the effect of one shutdown event on the object `obj` a call waits on.  `accept_notify_one`
    (a `notify()` that may go to another waiter) gives this caller nothing. -/
def actsOf (obj : String) (ev : String) : List LAct :=
  if ev == "set_inactive" then [.setInactive] else
  match kindOfObj obj with
  | .transportPoll =>
    if ev == "completion_set" || ev == "auth_abort" || ev == "channel_events_set" then [.setFlag] else []
  | .chanEvent => if ev == "unlink_channels" then chanEffect obj else []
  | .chanCv => if ev == "unlink_channels" then chanEffect obj else []
  | .accept => if ev == "accept_notify_all" then [.notify] else []
  | .sessionPoll => []

/-- remote loss: the tail of `run()` as it stands in the source -/
def remoteEvents (tail : List (String × Bool)) : List String := tail.map (·.1)

/-- local `close()`: its own statements, with the part of the `run()` tail that is not under
    `if self.active:` spliced in where the transport thread is released -/
def localEvents (tail : List (String × Bool)) (cl : List String) : List String :=
  cl.flatMap fun e => if e == "run_tail" then (tail.filter (fun x => !x.2)).map (·.1) else [e]

def progOf (tail : List (String × Bool)) (cl : List String) (obj : String) : Loss → List LAct
  | .remote => (remoteEvents tail).flatMap (actsOf obj)
  | .localClose => (localEvents tail cl).flatMap (actsOf obj)

def srcProg (obj : String) : Loss → List LAct := progOf PV.Generated.C13.runTail PV.Generated.C13.closeSeq obj

/-- the wait shape as classified by the generator; anything unknown is the most pessimistic shape
    (one edge-triggered wait) -/
def parseWait (k : String) : Wait :=
  if k == "poll" then .poll else if k == "event" then .event else if k == "cvLoop" then .cvLoop else .cvOnce

/-- one row per wait site found in the source (`PV.Generated.C13.waitShapes`):
    open_channel          event.wait(0.1); if not active: raise
    global_request        completion_event.wait(0.1); if not active: return None        (renegotiate_keys, start_client alike)
    auth_wait_for_response event.wait(0.1); if not transport.is_active(): raise
    send_user_message     clear_to_send.wait(0.1); if not active: return
    channel_request       @open_only check; _event_pending() (clear); send; self.event.wait(); _set_closed() sets the event
    recv_exit_status      status_event.wait(); set by _set_closed(), never cleared
    recv                  BufferedPipe.read: while empty and not closed: cv.wait(); close() sets closed + notify_all
    send                  _wait_for_send_window: while window == 0: if closed: return 0; cv.wait(); _set_closed notifies
    accept (fixed)        `elif not self.active: None`; cv notified on every exit of run()
    ensure_session (fixed) while not accepted: if not active: raise; sleep(0.1) -/
def toApi (w : PV.Generated.C13.WaitShape) : Api :=
  { name := w.row, wait := parseWait w.kind, precheck := w.precheck, loopChecksActive := w.loopChecksActive,
    checksFlag := w.loopChecksFlag || parseWait w.kind != .cvLoop,
    clear := if w.row == "channel_request" then
               (if PV.Generated.C13.eventClearGuarded then .guarded else .unguarded) else .none,
    prog := srcProg w.obj }

def apiTable : List Api := PV.Generated.C13.waitShapes.map toApi

/-- a transport-level poll loop that re-tests `active` on every wake-up (the shape of open_channel & co.) -/
def pollRow (name : String) : Api :=
  { name, wait := .poll, precheck := false, loopChecksActive := true, prog := srcProg "event" }

/-- a channel request as it was: `_event_pending()` cleared the event unconditionally -/
def channelRequestOld : Api :=
  { name := "channel_request(old)", wait := .event, precheck := false, loopChecksActive := false,
    clear := .unguarded, prog := fun _ => [.setFlag, .notify, .setInactive] }

/-- `accept` with the wake-up moved in front of `active = False` in the `run()` tail -/
def acceptNotifyFirst : Api :=
  { name := "accept(notify-first)", wait := .cvOnce, precheck := true, loopChecksActive := false,
    prog := fun _ => [.notify, .setInactive] }

/-- `accept` as it was: no pre-check; `notify()` only inside `if self.active:` of the run() tail,
    which a local close() has already made false -/
def acceptOld : Api :=
  { name := "accept(old)", wait := .cvOnce, precheck := false, loopChecksActive := false,
    prog := fun | .remote => [.setInactive, .notify] | .localClose => [.setInactive] }

/-- `ensure_session` as it was: `while not accepted: time.sleep(0.1)` -/
def ensureSessionOld : Api :=
  { name := "ensure_session(old)", wait := .poll, precheck := true, loopChecksActive := false,
    prog := fun _ => [.setInactive] }

/-! ### ProxyCommand.recv: `while len(buffer) < size: select; buffer += os.read(...)` -/

/-- one pass of the loop given the length of what `os.read` returned (0 = EOF); `fixed` = leave the
    loop on an empty read.  Returns `none` while the loop continues. -/
def proxyIter (fixed : Bool) (size have_ got : Nat) : Option Nat :=
  if got = 0 then (if fixed then some have_ else none)
  else if size ≤ have_ + got then some (have_ + got) else none

/-- run the loop over a list of read results; after the list is exhausted the child is at EOF and every
    further read returns 0 -/
def proxyRecv (fixed : Bool) (size : Nat) : Nat → List Nat → Nat → Option Nat
  | have_, _, 0 => if size ≤ have_ then some have_ else none
  | have_, [], fuel + 1 =>
    if size ≤ have_ then some have_ else
    match proxyIter fixed size have_ 0 with
    | some r => some r
    | none => proxyRecv fixed size have_ [] fuel
  | have_, g :: gs, fuel + 1 =>
    if size ≤ have_ then some have_ else
    match proxyIter fixed size have_ g with
    | some r => some r
    | none => proxyRecv fixed size (have_ + g) gs fuel

end PV.Blocking

/-! ### many callers blocked on the same object

`Condition.notify_all()` / `Event.set()` reach every waiter; `Condition.notify()` reaches one.  The
shutdown paths use `notify_all` (accept, `_set_closed`, `BufferedPipe.close`), so callers do not
interact: the many-caller system projects onto the one-caller system above. -/
namespace PV.Blocking

structure MSt where
  active : Bool
  flag : Bool
  lossPc : Nat
  cs : List (Pc × Bool)      -- per caller: program counter, notified
  deriving DecidableEq, Repr

inductive MTid | caller (i : Nat) | loss
  deriving DecidableEq, Repr

def MSt.view (m : MSt) (c : Pc × Bool) : St :=
  { active := m.active, flag := m.flag, lossPc := m.lossPc, pc := c.1, notified := c.2 }

def minit (n : Nat) : MSt :=
  { active := true, flag := false, lossPc := 0, cs := List.replicate n (.start, false) }

/-- `all = true`: notify_all (what the code does); `all = false`: notify() wakes the first waiter only -/
def notifyCallers (all : Bool) : List (Pc × Bool) → List (Pc × Bool)
  | [] => []
  | (pc, nt) :: rest =>
    if pc == .waiting then (pc, true) :: (if all then notifyCallers all rest else rest)
    else (pc, nt) :: notifyCallers all rest

def mstepLoss (api : Api) (l : Loss) (all : Bool) (m : MSt) : MSt :=
  match (api.prog l)[m.lossPc]? with
  | none => m
  | some .setInactive => { m with active := false, lossPc := m.lossPc + 1 }
  | some .setFlag => { m with flag := true, lossPc := m.lossPc + 1 }
  | some .notify => { m with cs := notifyCallers all m.cs, lossPc := m.lossPc + 1 }

def mstep (api : Api) (l : Loss) (all : Bool) (m : MSt) : MTid → MSt
  | .loss => mstepLoss api l all m
  | .caller i =>
    match m.cs[i]? with
    | none => m
    | some c =>
      let s' := stepCaller api (m.view c)
      { m with cs := m.cs.set i (s'.pc, s'.notified) }

def mrun (api : Api) (l : Loss) (all : Bool) (m : MSt) (sch : List MTid) : MSt :=
  sch.foldl (mstep api l all) m

/-- the schedule as caller `i` sees it: its own steps and the loss steps -/
def projSched (i : Nat) : List MTid → List Tid
  | [] => []
  | .loss :: r => .loss :: projSched i r
  | .caller j :: r => if j = i then .caller :: projSched i r else projSched i r

end PV.Blocking
