/-
  PV.Model.ClientLock — the SFTP client's request lock and SSH channel back-pressure as resources.
  A background sender (the prefetch thread in SFTPClient._async_request), the reader (SFTPClient._read_response,
  which takes the same lock for every packet it has read), the server (takes a request, then sends its answer),
  and the two flow-controlled directions of the channel: the sender blocks when the server's receive window is
  used up, the server blocks when the client's is; a window is re-opened by the receiving side only after it has
  consumed `threshold` packets (paramiko: a tenth of the window) since the last adjustment.
  `sendUnderLock` = the packet is sent while `_lock` is held (read from the AST of _async_request; false in the
  source).  Windows are counted in packets.  Mathlib-free, executable.
-/
namespace PV.ClientLock

structure Cfg where
  capReq : Nat
  ta : Nat
  capAns : Nat
  tb : Nat
  sendUnderLock : Bool
  deriving Repr, DecidableEq

inductive SPc where
  | idle | locked | sending
  deriving Repr, DecidableEq

inductive RPc where
  | idle | needLock | locked
  deriving Repr, DecidableEq

/-- who holds `_lock` -/
inductive Holder where
  | sender | reader
  deriving Repr, DecidableEq

structure St where
  remaining : Nat
  spc : SPc
  rpc : RPc
  lock : Option Holder
  creditReq : Nat
  bufReq : Nat
  heldReq : Nat
  srvHolding : Bool
  creditAns : Nat
  bufAns : Nat
  heldAns : Nat
  deriving Repr, DecidableEq

inductive Act where
  | sAcquire | sRelease | sSend | srvTake | srvSend | rRecv | rAcquire | rRelease
  deriving Repr, DecidableEq

def init (cfg : Cfg) (n : Nat) : St :=
  { remaining := n, spc := .idle, rpc := .idle, lock := none, creditReq := cfg.capReq, bufReq := 0, heldReq := 0,
    srvHolding := false, creditAns := cfg.capAns, bufAns := 0, heldAns := 0 }

def step (cfg : Cfg) (s : St) : Act → Option St
  | .sAcquire =>
    if s.spc = .idle ∧ 0 < s.remaining ∧ s.lock = none then some { s with spc := .locked, lock := some .sender } else none
  | .sRelease =>
    if cfg.sendUnderLock = false ∧ s.spc = .locked then some { s with spc := .sending, lock := none } else none
  | .sSend =>
    if cfg.sendUnderLock then
      -- the packet goes out while the lock is held; the lock is released right after
      if s.spc = .locked ∧ 0 < s.creditReq then
        some { s with spc := .idle, lock := none, remaining := s.remaining - 1,
                      creditReq := s.creditReq - 1, bufReq := s.bufReq + 1 }
      else none
    else
      if s.spc = .sending ∧ 0 < s.creditReq then
        some { s with spc := .idle, remaining := s.remaining - 1, creditReq := s.creditReq - 1, bufReq := s.bufReq + 1 }
      else none
  | .srvTake =>
    if s.srvHolding = false ∧ 0 < s.bufReq then
      if s.heldReq + 1 ≥ cfg.ta then
        some { s with srvHolding := true, bufReq := s.bufReq - 1, creditReq := s.creditReq + (s.heldReq + 1), heldReq := 0 }
      else
        some { s with srvHolding := true, bufReq := s.bufReq - 1, heldReq := s.heldReq + 1 }
    else none
  | .srvSend =>
    if s.srvHolding = true ∧ 0 < s.creditAns then
      some { s with srvHolding := false, creditAns := s.creditAns - 1, bufAns := s.bufAns + 1 }
    else none
  | .rRecv =>
    if s.rpc = .idle ∧ 0 < s.bufAns then
      if s.heldAns + 1 ≥ cfg.tb then
        some { s with rpc := .needLock, bufAns := s.bufAns - 1, creditAns := s.creditAns + (s.heldAns + 1), heldAns := 0 }
      else
        some { s with rpc := .needLock, bufAns := s.bufAns - 1, heldAns := s.heldAns + 1 }
    else none
  | .rAcquire =>
    if s.rpc = .needLock ∧ s.lock = none then some { s with rpc := .locked, lock := some .reader } else none
  | .rRelease =>
    if s.rpc = .locked then some { s with rpc := .idle, lock := none } else none

def run (cfg : Cfg) (s : St) : List Act → St
  | [] => s
  | a :: as => run cfg ((step cfg s a).getD s) as

def allActs : List Act := [.sAcquire, .sRelease, .sSend, .srvTake, .srvSend, .rRecv, .rAcquire, .rRelease]

/-- everything has been sent, answered and collected -/
def Done (s : St) : Prop :=
  s.remaining = 0 ∧ s.spc = .idle ∧ s.bufReq = 0 ∧ s.srvHolding = false ∧ s.bufAns = 0 ∧ s.rpc = .idle

def stuck (cfg : Cfg) (s : St) : Bool := allActs.all fun a => (step cfg s a).isNone

end PV.ClientLock
