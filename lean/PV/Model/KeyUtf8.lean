/-
  PV.Model.KeyUtf8 — CPython's strict UTF-8 validity test (`bytes.decode("utf-8")` raises
  `UnicodeDecodeError` exactly on the byte strings rejected here: Unicode 15 table 3-7, i.e. no
  overlong forms, no surrogates, nothing above U+10FFFF, no truncated sequence).
  Used by the models of `Message.get_text` in the key code (C35, C37).  Mathlib-free.
-/
import PV.Base.Bytes
namespace PV.KeyUtf8
open PV

def inR (lo hi : Nat) (x : UInt8) : Bool := lo ≤ x.toNat && x.toNat ≤ hi

def cont (x : UInt8) : Bool := inR 0x80 0xBF x

/-- well-formed UTF-8 (structural recursion on the byte list) -/
def utf8Valid : Bytes → Bool
  | [] => true
  | a :: rest =>
    if a.toNat < 0x80 then utf8Valid rest
    else if inR 0xC2 0xDF a then
      match rest with
      | b :: r => cont b && utf8Valid r
      | _ => false
    else if inR 0xE0 0xEF a then
      match rest with
      | b :: c :: r =>
        (if a.toNat = 0xE0 then inR 0xA0 0xBF b
         else if a.toNat = 0xED then inR 0x80 0x9F b
         else cont b) && cont c && utf8Valid r
      | _ => false
    else if inR 0xF0 0xF4 a then
      match rest with
      | b :: c :: d :: r =>
        (if a.toNat = 0xF0 then inR 0x90 0xBF b
         else if a.toNat = 0xF4 then inR 0x80 0x8F b
         else cont b) && cont c && cont d && utf8Valid r
      | _ => false
    else false

end PV.KeyUtf8
