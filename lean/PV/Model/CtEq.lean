/-
  PV.Model.CtEq — executable model of `paramiko.util.constant_time_bytes_eq` (used by HostKeys._hostname_matches to
  compare the salted hash of a host name with a hashed known_hosts name): length test, then the OR-fold of the
  bytewise XORs must be zero.  Mathlib-free.
-/
import PV.Base.Bytes
namespace PV.CtEq
open PV

/-- `res |= a[i] ^ b[i]` over the common positions -/
def orFold : Bytes → Bytes → UInt8 → UInt8
  | x :: xs, y :: ys, acc => orFold xs ys (acc ||| (x ^^^ y))
  | _, _, acc => acc

/-- `constant_time_bytes_eq(a, b)` -/
def ctEq (a b : Bytes) : Bool := a.length == b.length && orFold a b 0 == 0

end PV.CtEq
