/-
  Helper lemmas for PV.Model.CheckFile (property theorems: PV/Props/C32.lean).
-/
import PV.Model.CheckFile
namespace PV.CheckFile
open PV

/-- the streaming law of a hash object: its state stands for the bytes absorbed so far and `digest` is the
one-shot hash `H` of them (`hashlib` guarantees `h.update(a); h.update(b)` ≡ `h.update(a + b)`) -/
structure HashLaws (A : HashAlg) (H : Bytes → Bytes) : Prop where
  ex : ∃ absorbed : A.σ → Bytes, absorbed A.init = [] ∧
    (∀ h d, absorbed (A.update h d) = absorbed h ++ d) ∧ (∀ h, A.digest h = H (absorbed h))

/-- a handle that returns at least one byte when asked for at least one (before EOF) -/
def Env.Progress (e : Env) : Prop := ∀ off n, 0 < n → 0 < e.short off n

theorem take_length_take (X : Bytes) (k : Nat) : X.take (X.take k).length = X.take k := by
  have h := List.take_take (i := (X.take k).length) (j := k) (l := X)
  rw [List.take_length] at h
  have hm : min (X.take k).length k = (X.take k).length := by
    simp only [List.length_take]; omega
  rw [hm] at h
  exact h.symm

/-! ### the inner loop reads exactly the block (or up to EOF) -/

theorem inner_spec (A : HashAlg) (e : Env) (hp : e.Progress) (hre : ∀ off n, e.readErr off n = none)
    (blocklen off0 : Nat)
    (absorbed : A.σ → Bytes) (hupd : ∀ h d, absorbed (A.update h d) = absorbed h ++ d) :
    ∀ (fuel count : Nat) (h : A.σ), count ≤ blocklen → blocklen - count < fuel →
      count ≤ (e.content.drop off0).length →
      absorbed h = (e.content.drop off0).take count →
      ∃ h', inner A e blocklen fuel count (off0 + count) h
          = some (.ok (((e.content.drop off0).take blocklen).length,
                  off0 + ((e.content.drop off0).take blocklen).length, h')) ∧
        absorbed h' = (e.content.drop off0).take blocklen := by
  intro fuel
  induction fuel with
  | zero => intro count h _ hf; omega
  | succ fuel ih =>
    intro count h hle hf hcl habs
    generalize hD : e.content.drop off0 = D at *
    unfold inner
    by_cases hlt : count < blocklen
    · simp only [hlt, if_true, hre]
      -- the read
      have hm : 0 < min (blocklen - count) CHUNK := by simp [CHUNK]; omega
      have hs := hp (off0 + count) (min (blocklen - count) CHUNK) hm
      generalize hk : min (min (blocklen - count) CHUNK) (e.short (off0 + count) (min (blocklen - count) CHUNK)) = k
      have hk1 : 0 < k := by omega
      have hk2 : k ≤ blocklen - count := by omega
      have hread : e.read (off0 + count) (min (blocklen - count) CHUNK) = (D.drop count).take k := by
        unfold Env.read
        rw [hk, ← hD, List.drop_drop]
      rw [hread]
      by_cases hnil : (D.drop count).take k = []
      · -- EOF
        simp only [hnil, if_true]
        have hdl : (D.drop count).length = 0 := by
          have := congrArg List.length hnil
          simp only [List.length_take, List.length_nil] at this
          omega
        have hcnt : count = D.length := by simp only [List.length_drop] at hdl; omega
        have hall : D.take blocklen = D := List.take_of_length_le (by omega)
        refine ⟨h, ?_, ?_⟩
        · rw [hall, ← hcnt]
        · rw [habs, hall, hcnt, List.take_length]
      · simp only [hnil, if_false]
        have hlen : 0 < ((D.drop count).take k).length := List.length_pos_iff.mpr hnil
        have hlen2 : ((D.drop count).take k).length ≤ k := by simp [List.length_take]; omega
        have hlen3 : ((D.drop count).take k).length ≤ D.length - count := by
          simp [List.length_take, List.length_drop]; omega
        have habs' : absorbed (A.update h ((D.drop count).take k))
            = D.take (count + ((D.drop count).take k).length) := by
          rw [hupd, habs, List.take_add, take_length_take]
        have := ih (count + ((D.drop count).take k).length) (A.update h ((D.drop count).take k))
          (by omega) (by omega) (by omega) habs'
        rw [Nat.add_assoc]
        exact this
    · simp only [hlt, if_false]
      have hc : count = blocklen := by omega
      refine ⟨h, ?_, ?_⟩
      · have : (D.take blocklen).length = count := by simp [List.length_take]; omega
        rw [this]
      · rw [habs, hc]

/-! ### chunks -/

theorem chunks_nil (bs f : Nat) : chunks bs f [] = [] := by
  cases f <;> simp [chunks]

theorem chunks_fuel2 (bs : Nat) (hbs : 1 ≤ bs) : ∀ (f g : Nat) (d : Bytes), d.length ≤ f → d.length ≤ g →
    chunks bs f d = chunks bs g d := by
  intro f
  induction f with
  | zero =>
    intro g d hd _
    have : d = [] := List.eq_nil_of_length_eq_zero (by omega)
    subst this; rw [chunks_nil, chunks_nil]
  | succ f ih =>
    intro g d hf hg
    by_cases hnil : d = []
    · subst hnil; rw [chunks_nil, chunks_nil]
    · have hpos : 0 < d.length := List.length_pos_iff.mpr hnil
      obtain ⟨g', rfl⟩ : ∃ g', g = g' + 1 := ⟨g - 1, by omega⟩
      simp only [chunks, hnil, if_false]
      have h1 : (d.drop bs).length ≤ f := by simp [List.length_drop]; omega
      have h2 : (d.drop bs).length ≤ g' := by simp [List.length_drop]; omega
      rw [ih g' (d.drop bs) h1 h2]

theorem chunks_fuel (bs : Nat) (hbs : 1 ≤ bs) (f : Nat) (d : Bytes) (h : d.length ≤ f) :
    chunks bs f d = blocksOf bs d :=
  chunks_fuel2 bs hbs f d.length d h (Nat.le_refl _)

theorem blocksOf_nil (bs : Nat) : blocksOf bs [] = [] := rfl

theorem blocksOf_cons (bs : Nat) (hbs : 1 ≤ bs) (d : Bytes) (hd : d ≠ []) :
    blocksOf bs d = d.take bs :: blocksOf bs (d.drop bs) := by
  have hpos : 0 < d.length := List.length_pos_iff.mpr hd
  obtain ⟨n, hn⟩ : ∃ n, d.length = n + 1 := ⟨d.length - 1, by omega⟩
  unfold blocksOf
  rw [hn]
  simp only [chunks, hd, if_false]
  have : (d.drop bs).length ≤ n := by simp [List.length_drop]; omega
  rw [chunks_fuel2 bs hbs n (d.drop bs).length (d.drop bs) this (Nat.le_refl _)]

/-! ### the outer loop emits the hash of every block of the remaining range -/

theorem outer_spec (A : HashAlg) (H : Bytes → Bytes) (hl : HashLaws A H) (e : Env) (hp : e.Progress)
    (hre : ∀ off n, e.readErr off n = none) (endpos bs : Nat) (hbs : 1 ≤ bs) :
    ∀ (fuel offset : Nat) (out : Bytes), endpos - offset < fuel →
      outer A e endpos bs fuel offset out
        = some (.ok (out ++ (blocksOf bs ((e.content.drop offset).take (endpos - offset))).flatMap H)) := by
  obtain ⟨absorbed, hinit, hupd, hdig⟩ := hl.ex
  intro fuel
  induction fuel with
  | zero => intro offset out hf; omega
  | succ fuel ih =>
    intro offset out hf
    unfold outer
    by_cases hlt : offset < endpos
    · simp only [hlt, if_true]
      generalize hD : e.content.drop offset = D
      generalize hbl : min bs (endpos - offset) = blocklen
      have hbl1 : 1 ≤ blocklen := by omega
      obtain ⟨h', hin, habs⟩ := inner_spec A e hp hre blocklen offset absorbed hupd (blocklen + 1) 0 A.init
        (by omega) (by omega) (by omega) (by simp [hinit])
      rw [hD] at hin habs
      simp only [Nat.add_zero] at hin
      rw [hin]
      simp only
      -- R = the remaining range; its first block is what the inner loop absorbed
      generalize hR : D.take (endpos - offset) = R
      have hfirst : R.take bs = D.take blocklen := by
        rw [← hR, List.take_take, hbl]
      by_cases hc0 : (D.take blocklen).length = 0
      · -- nothing left
        simp only [hc0, if_true]
        have hRnil : R = [] := by
          have h1 : R.take bs = [] := by rw [hfirst]; exact List.eq_nil_of_length_eq_zero hc0
          have := congrArg List.length h1
          simp only [List.length_take, List.length_nil] at this
          exact List.eq_nil_of_length_eq_zero (by omega)
        rw [hRnil, blocksOf_nil]; simp
      · simp only [hc0, if_false]
        have hRne : R ≠ [] := by
          intro hRn
          rw [hRn] at hfirst
          simp at hfirst
          rcases hfirst with h0 | h0
          · omega
          · exact hc0 (by rw [h0]; simp)
        rw [blocksOf_cons bs hbs R hRne, List.flatMap_cons, hfirst, hdig h', habs]
        by_cases hshort : (D.take blocklen).length < blocklen
        · -- EOF inside this block: it was the last one
          simp only [hshort, if_true]
          have hDl : D.length < blocklen := by simp only [List.length_take] at hshort; omega
          have hdrop : R.drop bs = [] := by
            apply List.drop_eq_nil_of_le
            rw [← hR]; simp only [List.length_take]; omega
          rw [hdrop, blocksOf_nil]; simp
        · simp only [hshort, if_false]
          have hfull : (D.take blocklen).length = blocklen := by
            simp only [List.length_take] at hshort ⊢; omega
          rw [hfull]
          have hrec := ih (offset + blocklen) (out ++ H (D.take blocklen)) (by omega)
          rw [hrec, List.append_assoc]
          congr 2
          -- the rest of the range
          by_cases hb : blocklen = bs
          · have : R.drop bs = (e.content.drop (offset + blocklen)).take (endpos - (offset + blocklen)) := by
              rw [← hR, ← hD, List.drop_take, List.drop_drop, hb]
              congr 1; omega
            rw [this]
          · have hlast : blocklen = endpos - offset := by omega
            have hdrop : R.drop bs = [] := by
              apply List.drop_eq_nil_of_le
              rw [← hR]; simp only [List.length_take]; omega
            have h0 : endpos - (offset + blocklen) = 0 := by omega
            rw [hdrop, h0]; simp
    · simp only [hlt, if_false]
      have : endpos - offset = 0 := by omega
      rw [this]; simp [blocksOf_nil]

/-! ### termination in general (failing reads included) -/

theorem inner_total (A : HashAlg) (e : Env) (blocklen : Nat) :
    ∀ (fuel count offset : Nat) (h : A.σ), blocklen - count < fuel →
      inner A e blocklen fuel count offset h ≠ none := by
  intro fuel
  induction fuel with
  | zero => intro count offset h hf; omega
  | succ fuel ih =>
    intro count offset h hf
    unfold inner
    by_cases hlt : count < blocklen
    · simp only [hlt, if_true]
      cases hr : e.readErr offset (min (blocklen - count) CHUNK) with
      | some code => simp
      | none =>
        simp only
        by_cases hnil : e.read offset (min (blocklen - count) CHUNK) = []
        · simp [hnil]
        · simp only [hnil, if_false]
          have hlen : 0 < (e.read offset (min (blocklen - count) CHUNK)).length := List.length_pos_iff.mpr hnil
          exact ih _ _ _ (by omega)
    · simp [hlt]

/-- the offset moves with the count -/
theorem inner_offset (A : HashAlg) (e : Env) (blocklen : Nat) :
    ∀ (fuel count offset : Nat) (h : A.σ) (c' o' : Nat) (h' : A.σ),
      inner A e blocklen fuel count offset h = some (.ok (c', o', h')) → o' + count = offset + c' := by
  intro fuel
  induction fuel with
  | zero => intro count offset h c' o' h' hi; simp [inner] at hi
  | succ fuel ih =>
    intro count offset h c' o' h' hi
    unfold inner at hi
    by_cases hlt : count < blocklen
    · simp only [hlt, if_true] at hi
      cases hr : e.readErr offset (min (blocklen - count) CHUNK) with
      | some code => simp [hr] at hi
      | none =>
        simp only [hr] at hi
        by_cases hnil : e.read offset (min (blocklen - count) CHUNK) = []
        · simp only [hnil, if_true, Option.some.injEq, Except.ok.injEq, Prod.mk.injEq] at hi
          omega
        · simp only [hnil, if_false] at hi
          have := ih _ _ _ _ _ _ hi
          omega
    · simp only [hlt, if_false, Option.some.injEq, Except.ok.injEq, Prod.mk.injEq] at hi
      omega

theorem outer_total (A : HashAlg) (e : Env) (endpos bs : Nat) (hbs : 1 ≤ bs) :
    ∀ (fuel offset : Nat) (out : Bytes), endpos - offset < fuel →
      outer A e endpos bs fuel offset out ≠ none := by
  intro fuel
  induction fuel with
  | zero => intro offset out hf; omega
  | succ fuel ih =>
    intro offset out hf
    unfold outer
    by_cases hlt : offset < endpos
    · simp only [hlt, if_true]
      have hin := inner_total A e (min bs (endpos - offset)) (min bs (endpos - offset) + 1) 0 offset A.init
        (by omega)
      cases hi : inner A e (min bs (endpos - offset)) (min bs (endpos - offset) + 1) 0 offset A.init with
      | none => exact absurd hi hin
      | some r =>
        cases r with
        | error code => simp
        | ok t =>
          obtain ⟨count, offset', h'⟩ := t
          simp only
          by_cases hc0 : count = 0
          · simp [hc0]
          · simp only [hc0, if_false]
            by_cases hsh : count < min bs (endpos - offset)
            · simp [hsh]
            · simp only [hsh, if_false]
              have hoff := inner_offset A e _ _ _ _ _ _ _ _ hi
              exact ih offset' _ (by omega)
    · simp [hlt]

end PV.CheckFile
