/-
  PV.Model.BufFileLemmas — facts about the BufferedFile model over the short-read/short-write stream
  `chanOps` (helpers for PV.Props.C42).
-/
import PV.Model.BufFile
namespace PV.BufFile
open PV

/-! ## specification vocabulary -/

/-- bytes the caller has not received yet: read-ahead buffer, then what the stream still holds -/
def pending (f : BF Chan) : Bytes := f.rbuf ++ f.s.inp

/-- configuration that no operation changes -/
structure Cfg where
  rd : Bool
  wr : Bool
  app : Bool
  buffered : Bool
  lineBuf : Bool
  bufsize : Nat
  dflt : Nat
  deriving DecidableEq, Repr

def cfg {σ : Type} (f : BF σ) : Cfg := ⟨f.rd, f.wr, f.app, f.buffered, f.lineBuf, f.bufsize, f.dflt⟩

/-- write side of the state (reads never touch it) -/
def wside (f : BF Chan) : Bytes × List Nat × Bytes := (f.s.out, f.s.wg, f.wbuf)
/-- read side of the state (writes never touch it) -/
def rside (f : BF Chan) : Bytes × Bytes × List Nat := (f.rbuf, f.s.inp, f.s.rg)

/-- `_DEFAULT_BUFSIZE ≥ 1` and `_bufsize ≥ 1` (what `_set_mode` establishes) -/
def WF {σ : Type} (f : BF σ) : Prop := 1 ≤ f.dflt ∧ 1 ≤ f.bufsize

theorem grant_le (g : List Nat) (n : Nat) : grant g n ≤ n := by
  cases g <;> simp [grant]; omega

theorem grant_pos (g : List Nat) (n : Nat) (h : 1 ≤ n) : 1 ≤ grant g n := by
  cases g <;> simp [grant] <;> omega

theorem take_isEmpty_iff (l : Bytes) (k : Nat) (hk : 1 ≤ k) : (l.take k).isEmpty = true ↔ l = [] := by
  cases l with
  | nil => simp
  | cons a t =>
    cases k with
    | zero => omega
    | succ k => simp

@[simp] theorem chanOps_read (s : Chan) (p : Int) (n : Nat) :
    chanOps.read s p n =
      ({ s with inp := s.inp.drop (grant s.rg n), rg := s.rg.tail }, .ok (s.inp.take (grant s.rg n))) := rfl

@[simp] theorem chanOps_write (s : Chan) (p : Int) (d : Bytes) :
    chanOps.write s p d =
      ({ s with out := s.out ++ d.take (grant s.wg d.length), wg := s.wg.tail }, .ok (grant s.wg d.length)) := rfl

@[simp] theorem chanOps_bound (s : Chan) (p : Int) : chanOps.bound s p = s.inp.length := rfl

@[simp] theorem chanOps_seekable : chanOps.seekable = false := rfl

@[simp] theorem syncForRead_chan (f : BF Chan) : syncForRead chanOps f = (f, .ok ()) := by
  simp [syncForRead]

@[simp] theorem dropReadAhead_chan (f : BF Chan) (d : Bytes) : dropReadAhead chanOps f d = f := by
  simp [dropReadAhead]

/-! ## read() -/

theorem readAllLoop_chan (fuel : Nat) (f : BF Chan) (acc : Bytes)
    (hd : 1 ≤ f.dflt) (hf : f.s.inp.length < fuel) :
    (readAllLoop chanOps fuel f acc).2 = .ok (acc ++ f.s.inp) ∧
    (readAllLoop chanOps fuel f acc).1.s.inp = [] ∧
    (readAllLoop chanOps fuel f acc).1.rbuf = f.rbuf ∧
    wside (readAllLoop chanOps fuel f acc).1 = wside f ∧
    cfg (readAllLoop chanOps fuel f acc).1 = cfg f ∧
    (readAllLoop chanOps fuel f acc).1.closed = f.closed := by
  induction fuel generalizing f acc with
  | zero => omega
  | succ fuel ih =>
    rw [readAllLoop]
    simp only [chanOps_read]
    have hk := grant_pos f.s.rg f.dflt hd
    by_cases he : (f.s.inp.take (grant f.s.rg f.dflt)).isEmpty = true
    · have hnil := (take_isEmpty_iff _ _ hk).1 he
      simp only [he, if_true]
      simp [hnil, wside, cfg]
    · simp only [he]
      have hne : f.s.inp ≠ [] := fun h => he ((take_isEmpty_iff _ _ hk).2 h)
      have hlen : 0 < f.s.inp.length := List.length_pos_iff.2 hne
      have := ih
        { f with s := { f.s with inp := f.s.inp.drop (grant f.s.rg f.dflt), rg := f.s.rg.tail },
                 realpos := f.realpos + (f.s.inp.take (grant f.s.rg f.dflt)).length,
                 pos := f.pos + (f.s.inp.take (grant f.s.rg f.dflt)).length }
        (acc ++ f.s.inp.take (grant f.s.rg f.dflt)) hd (by simp; omega)
      simp only [Bool.false_eq_true, if_false]
      simpa [List.append_assoc, wside, cfg] using this

/-! ## read(n) -/

theorem readFillLoop_chan (n fuel : Nat) (f : BF Chan)
    (hf : f.s.inp.length < fuel) :
    (readFillLoop chanOps n fuel f).2 = .ok () ∧
    pending (readFillLoop chanOps n fuel f).1 = pending f ∧
    (n ≤ (readFillLoop chanOps n fuel f).1.rbuf.length ∨ (readFillLoop chanOps n fuel f).1.s.inp = []) ∧
    wside (readFillLoop chanOps n fuel f).1 = wside f ∧
    cfg (readFillLoop chanOps n fuel f).1 = cfg f ∧
    (readFillLoop chanOps n fuel f).1.closed = f.closed ∧
    (readFillLoop chanOps n fuel f).1.pos = f.pos := by
  induction fuel generalizing f with
  | zero => omega
  | succ fuel ih =>
    rw [readFillLoop]
    by_cases hlt : f.rbuf.length < n
    · simp only [hlt, if_true, chanOps_read]
      generalize hw : (if f.buffered = true then max f.bufsize (n - f.rbuf.length) else n - f.rbuf.length) = want
      have hwant : 1 ≤ want := by
        subst hw; split <;> omega
      have hk := grant_pos f.s.rg want hwant
      by_cases he : (f.s.inp.take (grant f.s.rg want)).isEmpty = true
      · have hnil := (take_isEmpty_iff _ _ hk).1 he
        simp only [he, if_true]
        simp [hnil, wside, cfg, pending]
      · simp only [he]
        have hne : f.s.inp ≠ [] := fun h => he ((take_isEmpty_iff _ _ hk).2 h)
        have hlen : 0 < f.s.inp.length := List.length_pos_iff.2 hne
        have := ih
          { f with s := { f.s with inp := f.s.inp.drop (grant f.s.rg want), rg := f.s.rg.tail },
                   rbuf := f.rbuf ++ f.s.inp.take (grant f.s.rg want),
                   realpos := f.realpos + (f.s.inp.take (grant f.s.rg want)).length }
          (by simp; omega)
        simp only [Bool.false_eq_true, if_false]
        simpa [List.append_assoc, wside, cfg, pending] using this
    · simp only [hlt, if_false]
      simp; omega

theorem take_append_or {α : Type} (a b : List α) (n : Nat) (h : n ≤ a.length ∨ b = []) :
    (a ++ b).take n = a.take n := by
  rcases h with h | h
  · exact List.take_append_of_le_length h
  · subst h; simp

theorem drop_append_or {α : Type} (a b : List α) (n : Nat) (h : n ≤ a.length ∨ b = []) :
    (a ++ b).drop n = a.drop n ++ b := by
  rcases h with h | h
  · exact List.drop_append_of_le_length h
  · subst h; simp

theorem read_some_chan (f : BF Chan) (n : Nat) (hc : f.closed = false) (hr : f.rd = true) :
    (read chanOps f (some n)).2 = .ok ((pending f).take n) ∧
    pending (read chanOps f (some n)).1 = (pending f).drop n ∧
    wside (read chanOps f (some n)).1 = wside f ∧
    cfg (read chanOps f (some n)).1 = cfg f ∧
    (read chanOps f (some n)).1.closed = f.closed := by
  unfold read
  rw [if_neg (by simp [hc]), if_neg (by simp [hr])]
  simp only [syncForRead_chan]
  by_cases hle : n ≤ f.rbuf.length
  · simp only [hle, if_true]
    simp [pending, take_append_or _ _ _ (Or.inl hle), drop_append_or _ _ _ (Or.inl hle), wside, cfg]
  · simp only [hle, if_false, chanOps_bound]
    have h := readFillLoop_chan n (f.s.inp.length + 1) f (by omega)
    rcases hres : readFillLoop chanOps n (f.s.inp.length + 1) f with ⟨f1, r1⟩
    rw [hres] at h
    obtain ⟨h1, h2, h3, h4, h5, h6, h7⟩ := h
    simp only at h1 h2 h3 h4 h5 h6 h7
    subst h1
    simp only
    rw [← h2]
    simp [pending, take_append_or _ _ _ h3, drop_append_or _ _ _ h3, wside, cfg]
    simpa [wside, cfg] using And.intro h4 (And.intro h5 h6)

theorem read_none_chan (f : BF Chan) (hw : 1 ≤ f.dflt) (hc : f.closed = false) (hr : f.rd = true) :
    (read chanOps f none).2 = .ok (pending f) ∧
    pending (read chanOps f none).1 = [] ∧
    wside (read chanOps f none).1 = wside f ∧
    cfg (read chanOps f none).1 = cfg f ∧
    (read chanOps f none).1.closed = f.closed := by
  unfold read
  rw [if_neg (by simp [hc]), if_neg (by simp [hr])]
  simp only [syncForRead_chan, chanOps_bound]
  have h := readAllLoop_chan (f.s.inp.length + 1) { f with rbuf := [], pos := f.pos + f.rbuf.length } f.rbuf
    hw (by simp)
  obtain ⟨h1, h2, h3, h4, h5, h6⟩ := h
  refine ⟨by simpa [pending] using h1, ?_, by simpa [wside] using h4, by simpa [cfg] using h5, by simpa using h6⟩
  simp only [pending, h2, h3]; rfl

theorem read_err_chan (f : BF Chan) (size : Option Nat) (h : f.closed = true ∨ f.rd = false) :
    (read chanOps f size).1 = f ∧ ∃ e, (read chanOps f size).2 = .error e := by
  unfold read
  rcases h with h | h
  · simp [h]
  · by_cases hc : f.closed = true <;> simp [h, hc]

/-! ## lines -/

theorem idxOf_lt_of_contains (t : Bytes) (h : t.contains LF = true) : t.idxOf LF < t.length :=
  List.idxOf_lt_length_iff.2 (List.contains_iff_mem.1 h)

theorem take_idx_snoc (t : Bytes) (h : t.contains LF = true) :
    t.take (t.idxOf LF) ++ [LF] = t.take (t.idxOf LF + 1) := by
  induction t with
  | nil => simp at h
  | cons a t ih =>
    rw [List.idxOf_cons]
    by_cases ha : a = LF
    · subst ha; simp
    · have hb : (a == LF) = false := by simpa using ha
      have hb' : (LF == a) = false := by simpa using fun h => ha h.symm
      rw [List.contains_cons, hb', Bool.false_or] at h
      simp only [hb, cond_false, List.take_succ_cons, List.cons_append, ih h]

theorem lineOf_of_contains (t : Bytes) (h : t.contains LF = true) : lineOf t = t.take (t.idxOf LF + 1) := by
  unfold lineOf; rw [if_pos h]

theorem lineOf_of_not_contains (t : Bytes) (h : t.contains LF = false) : lineOf t = t := by
  unfold lineOf; rw [if_neg (by rw [h]; decide)]

theorem lineOf_append (a b : Bytes) (h : a.contains LF = true) : lineOf (a ++ b) = lineOf a := by
  have hm : LF ∈ a := List.contains_iff_mem.1 h
  have hlt := idxOf_lt_of_contains a h
  rw [lineOf_of_contains a h, lineOf_of_contains (a ++ b) (by rw [List.contains_append, h]; rfl)]
  rw [List.idxOf_append, if_pos hm]
  exact List.take_append_of_le_length (by omega)

theorem lineOf_length_le (t : Bytes) : (lineOf t).length ≤ t.length := by
  unfold lineOf; split <;> simp [List.length_take]; omega

/-- a line, as returned by `readline`: ends at the first LF, or contains none -/
theorem lineOf_shape (t : Bytes) :
    (∃ body, lineOf t = body ++ [LF] ∧ body.contains LF = false) ∨ (lineOf t = t ∧ t.contains LF = false) := by
  by_cases h : t.contains LF = true
  · left
    refine ⟨t.take (t.idxOf LF), ?_, ?_⟩
    · rw [lineOf_of_contains t h, take_idx_snoc t h]
    · induction t with
      | nil => simp
      | cons a t ih =>
        rw [List.idxOf_cons]
        by_cases ha : a = LF
        · subst ha; simp
        · have hb : (a == LF) = false := by simpa using ha
          have hb' : (LF == a) = false := by simpa using fun h => ha h.symm
          rw [List.contains_cons, hb', Bool.false_or] at h
          simp only [hb, cond_false, List.take_succ_cons, List.contains_cons, hb', Bool.false_or]
          exact ih h
  · right
    have h' : t.contains LF = false := by simpa using h
    exact ⟨lineOf_of_not_contains t h', h'⟩

/-! ## readline -/

def NoTrunc (size : Option Nat) (line : Bytes) : Prop :=
  match size with
  | none => True
  | some sz => line.length < sz

theorem specLine_of_contains (size : Option Nat) (line b : Bytes) (h : NoTrunc size line)
    (hc : line.contains LF = true) : specLine size (line ++ b) = lineOf line := by
  cases size with
  | none => exact lineOf_append line b hc
  | some sz =>
    simp only [NoTrunc] at h
    simp only [specLine]
    rw [List.take_append, List.take_of_length_le (by omega)]
    exact lineOf_append line _ hc

theorem specLine_eof (size : Option Nat) (line : Bytes) (h : NoTrunc size line)
    (hc : line.contains LF = false) : specLine size line = line := by
  cases size with
  | none => exact lineOf_of_not_contains line hc
  | some sz =>
    simp only [NoTrunc] at h
    simp only [specLine]
    rw [List.take_of_length_le (by omega)]
    exact lineOf_of_not_contains line hc

/-- `readline` from the point where `line` has been accumulated -/
def rlFrom (size : Option Nat) (fuel : Nat) (f : BF Chan) (line : Bytes) : Res Chan Bytes :=
  readlinePost (readlineLoop chanOps size fuel f line)

theorem rlPost_trunc (f : BF Chan) (t d : Bytes) :
    let r : Res Chan Bytes := readlinePost ({ f with rbuf := d }, .ok (.brk t true))
    r.2 = .ok (lineOf t) ∧
    pending r.1 = (t ++ d ++ f.s.inp).drop (lineOf t).length ∧
    wside r.1 = wside f ∧ cfg r.1 = cfg f ∧ r.1.closed = f.closed := by
  intro r
  by_cases hc : t.contains LF = true
  · have hlt := idxOf_lt_of_contains _ hc
    have hr : r = ({ f with rbuf := t.drop (t.idxOf LF + 1) ++ d,
                            pos := f.pos + ((t.take (t.idxOf LF) ++ [LF]).length : Nat) },
                   .ok (t.take (t.idxOf LF) ++ [LF])) := by
      simp only [r, readlinePost, hc, Bool.not_true, Bool.false_eq_true, if_false, if_true]
    rw [hr, lineOf_of_contains _ hc, take_idx_snoc _ hc]
    refine ⟨rfl, ?_, rfl, rfl, rfl⟩
    simp only [pending]
    have hlen : (t.take (t.idxOf LF + 1)).length = t.idxOf LF + 1 := by
      rw [List.length_take]; omega
    rw [hlen, show t ++ d ++ f.s.inp = t ++ (d ++ f.s.inp) from List.append_assoc _ _ _,
      List.drop_append_of_le_length (by omega), List.append_assoc]
  · have hc' : t.contains LF = false := by simpa using hc
    have hr : r = ({ f with rbuf := d, pos := f.pos + (t.length : Nat) }, .ok t) := by
      simp only [r, readlinePost, hc', Bool.not_false, if_true]
    rw [hr, lineOf_of_not_contains _ hc']
    refine ⟨rfl, ?_, rfl, rfl, rfl⟩
    simp only [pending]
    rw [show t ++ d ++ f.s.inp = t ++ (d ++ f.s.inp) from List.append_assoc _ _ _,
      List.drop_append_of_le_length (Nat.le_refl _)]
    simp

theorem rlFrom_trunc (sz : Nat) (f : BF Chan) (line : Bytes) (hge : sz ≤ line.length) :
    let r : Res Chan Bytes := readlinePost ({ f with rbuf := line.drop sz }, .ok (.brk (line.take sz) true))
    r.2 = .ok (specLine (some sz) (line ++ f.s.inp)) ∧
    pending r.1 = (line ++ f.s.inp).drop (specLine (some sz) (line ++ f.s.inp)).length ∧
    wside r.1 = wside f ∧ cfg r.1 = cfg f ∧ r.1.closed = f.closed := by
  have hspec : specLine (some sz) (line ++ f.s.inp) = lineOf (line.take sz) := by
    simp only [specLine]; rw [List.take_append_of_le_length hge]
  have h := rlPost_trunc f (line.take sz) (line.drop sz)
  rw [List.take_append_drop] at h
  rw [hspec]
  exact h

/-- the non-truncating part of one loop iteration -/
theorem rlFrom_step (size : Option Nat) (n : Nat) (hn : 1 ≤ n) (f : BF Chan) (line : Bytes)
    (hnt : NoTrunc size line)
    (rest : BF Chan → Bytes → Res Chan Bytes)
    (hrest : f.s.inp ≠ [] →
      let d := f.s.inp.take (grant f.s.rg n)
      let f2 : BF Chan := { f with s := { f.s with inp := f.s.inp.drop (grant f.s.rg n), rg := f.s.rg.tail },
                                   realpos := f.realpos + d.length }
      (rest f2 (line ++ d)).2 = .ok (specLine size (line ++ d ++ f2.s.inp)) ∧
      pending (rest f2 (line ++ d)).1 = (line ++ d ++ f2.s.inp).drop (specLine size (line ++ d ++ f2.s.inp)).length ∧
      wside (rest f2 (line ++ d)).1 = wside f2 ∧ cfg (rest f2 (line ++ d)).1 = cfg f2 ∧
      (rest f2 (line ++ d)).1.closed = f2.closed) :
    let r : Res Chan Bytes :=
      if line.contains LF then readlinePost (f, .ok (.brk line false))
      else match chanOps.read f.s f.realpos n with
        | (s', .error e) => readlinePost ({ f with s := s', rbuf := line }, .error e)
        | (s', .ok d) =>
          if d.isEmpty then
            readlinePost ({ f with s := s', rbuf := [], pos := f.pos + line.length }, .ok (.eof line))
          else rest { f with s := s', realpos := f.realpos + d.length } (line ++ d)
    r.2 = .ok (specLine size (line ++ f.s.inp)) ∧
    pending r.1 = (line ++ f.s.inp).drop (specLine size (line ++ f.s.inp)).length ∧
    wside r.1 = wside f ∧ cfg r.1 = cfg f ∧ r.1.closed = f.closed := by
  intro r
  by_cases hc : line.contains LF = true
  · have hlt := idxOf_lt_of_contains _ hc
    have hr : r = ({ f with rbuf := line.drop (line.idxOf LF + 1),
                            pos := f.pos + ((line.take (line.idxOf LF) ++ [LF]).length : Nat) },
                   .ok (line.take (line.idxOf LF) ++ [LF])) := by
      simp only [r, readlinePost, hc, Bool.not_true, Bool.false_eq_true, if_false, if_true]
    rw [hr, specLine_of_contains size line _ hnt hc, lineOf_of_contains _ hc, take_idx_snoc _ hc]
    refine ⟨rfl, ?_, rfl, rfl, rfl⟩
    simp only [pending]
    have hlen : (line.take (line.idxOf LF + 1)).length = line.idxOf LF + 1 := by
      rw [List.length_take]; omega
    rw [hlen, List.drop_append_of_le_length (by omega)]
  · have hc' : line.contains LF = false := by simpa using hc
    have hk := grant_pos f.s.rg n hn
    by_cases he : (f.s.inp.take (grant f.s.rg n)).isEmpty = true
    · have hnil := (take_isEmpty_iff _ _ hk).1 he
      have hr : r = ({ f with s := { f.s with inp := f.s.inp.drop (grant f.s.rg n), rg := f.s.rg.tail },
                              rbuf := [], pos := f.pos + line.length }, .ok line) := by
        simp only [r, hc', Bool.false_eq_true, if_false, chanOps_read, he, if_true, readlinePost]
      rw [hr, hnil, List.append_nil, specLine_eof size line hnt hc']
      refine ⟨rfl, ?_, ?_, rfl, rfl⟩
      · simp [pending]
      · simp [wside]
    · have hne : f.s.inp ≠ [] := fun h => he ((take_isEmpty_iff _ _ hk).2 h)
      have hr : r = rest { f with s := { f.s with inp := f.s.inp.drop (grant f.s.rg n), rg := f.s.rg.tail },
                                  realpos := f.realpos + (f.s.inp.take (grant f.s.rg n)).length }
                          (line ++ f.s.inp.take (grant f.s.rg n)) := by
        simp only [r, hc', Bool.false_eq_true, if_false, chanOps_read, he]
      have h := hrest hne
      simp only at h
      rw [List.append_assoc, List.take_append_drop] at h
      rw [hr]
      simpa [wside, cfg] using h


theorem rlFrom_succ (size : Option Nat) (fuel : Nat) (f : BF Chan) (line : Bytes) (n : Nat)
   (hl : rlLimit size f.bufsize line = some n) :
   rlFrom size (fuel+1) f line =
      if line.contains LF then readlinePost (f, .ok (.brk line false))
      else match chanOps.read f.s f.realpos n with
        | (s', .error e) => readlinePost ({ f with s := s', rbuf := line }, .error e)
        | (s', .ok d) =>
          if d.isEmpty then
            readlinePost ({ f with s := s', rbuf := [], pos := f.pos + line.length }, .ok (.eof line))
          else rlFrom size fuel { f with s := s', realpos := f.realpos + d.length } (line ++ d) := by
  unfold rlFrom
  rw [readlineLoop.eq_def]
  simp only [hl]
  by_cases hc : line.contains LF = true
  · simp only [hc, if_true]
  · simp only [hc, Bool.false_eq_true, if_false, chanOps_read]
    split <;> rfl

theorem rlFrom_chan (size : Option Nat) (fuel : Nat) (f : BF Chan) (line : Bytes)
    (hb : 1 ≤ f.bufsize) (hf : f.s.inp.length < fuel) :
    (rlFrom size fuel f line).2 = .ok (specLine size (line ++ f.s.inp)) ∧
    pending (rlFrom size fuel f line).1 = (line ++ f.s.inp).drop (specLine size (line ++ f.s.inp)).length ∧
    wside (rlFrom size fuel f line).1 = wside f ∧ cfg (rlFrom size fuel f line).1 = cfg f ∧
    (rlFrom size fuel f line).1.closed = f.closed := by
  induction fuel generalizing f line with
  | zero => omega
  | succ fuel ih =>
    have hrest : ∀ n, 1 ≤ n → f.s.inp ≠ [] →
        let d := f.s.inp.take (grant f.s.rg n)
        let f2 : BF Chan := { f with s := { f.s with inp := f.s.inp.drop (grant f.s.rg n), rg := f.s.rg.tail },
                                     realpos := f.realpos + d.length }
        (rlFrom size fuel f2 (line ++ d)).2 = .ok (specLine size (line ++ d ++ f2.s.inp)) ∧
        pending (rlFrom size fuel f2 (line ++ d)).1
          = (line ++ d ++ f2.s.inp).drop (specLine size (line ++ d ++ f2.s.inp)).length ∧
        wside (rlFrom size fuel f2 (line ++ d)).1 = wside f2 ∧ cfg (rlFrom size fuel f2 (line ++ d)).1 = cfg f2 ∧
        (rlFrom size fuel f2 (line ++ d)).1.closed = f2.closed := by
      intro n hn hne d f2
      have hlen : 0 < f.s.inp.length := List.length_pos_iff.2 hne
      have hk := grant_pos f.s.rg n hn
      exact ih f2 (line ++ d) hb (by simp [f2]; omega)
    cases size with
    | none =>
      have h := rlFrom_step none f.bufsize hb f line trivial (rlFrom none fuel) (hrest f.bufsize hb)
      rw [rlFrom_succ none fuel f line f.bufsize rfl]
      exact h
    | some sz =>
      by_cases hge : sz ≤ line.length
      · have hl : rlLimit (some sz) f.bufsize line = none := by simp [rlLimit, hge]
        have h := rlFrom_trunc sz f line hge
        have hu : rlFrom (some sz) (fuel+1) f line
            = readlinePost ({ f with rbuf := line.drop sz }, .ok (.brk (line.take sz) true)) := by
          unfold rlFrom
          rw [readlineLoop.eq_def]
          simp only [hl, Option.getD_some]
        rw [hu]
        exact h
      · have hl : rlLimit (some sz) f.bufsize line = some (sz - line.length) := by simp [rlLimit, hge]
        have hn : 1 ≤ sz - line.length := by omega
        have h := rlFrom_step (some sz) (sz - line.length) hn f line (by simp only [NoTrunc]; omega)
          (rlFrom (some sz) fuel) (hrest _ hn)
        rw [rlFrom_succ (some sz) fuel f line _ hl]
        exact h

theorem readline_chan (f : BF Chan) (size : Option Nat) (hb : 1 ≤ f.bufsize)
    (hc : f.closed = false) (hr : f.rd = true) :
    (readline chanOps f size).2 = .ok (specLine size (pending f)) ∧
    pending (readline chanOps f size).1 = (pending f).drop (specLine size (pending f)).length ∧
    wside (readline chanOps f size).1 = wside f ∧ cfg (readline chanOps f size).1 = cfg f ∧
    (readline chanOps f size).1.closed = f.closed := by
  unfold readline
  rw [if_neg (by simp [hc]), if_neg (by simp [hr])]
  simp only [syncForRead_chan]
  exact rlFrom_chan size (f.s.inp.length + 1) f f.rbuf hb (by omega)

theorem readline_err_chan (f : BF Chan) (size : Option Nat) (h : f.closed = true ∨ f.rd = false) :
    (readline chanOps f size).1 = f ∧ ∃ e, (readline chanOps f size).2 = .error e := by
  unfold readline
  rcases h with h | h
  · simp [h]
  · by_cases hc : f.closed = true <;> simp [h, hc]

theorem lineOf_prefix (p : Bytes) : ∃ k, lineOf p = p.take k := by
  unfold lineOf; split
  · exact ⟨_, rfl⟩
  · exact ⟨p.length, by simp⟩

theorem specLine_prefix (size : Option Nat) (p : Bytes) : ∃ k, specLine size p = p.take k := by
  cases size with
  | none => exact lineOf_prefix p
  | some sz =>
    obtain ⟨k, hk⟩ := lineOf_prefix (p.take sz)
    exact ⟨min k sz, by simp only [specLine]; rw [hk, List.take_take]⟩

theorem prefix_append_drop {α : Type} (p out : List α) (h : ∃ k, out = p.take k) :
    out ++ p.drop out.length = p := by
  obtain ⟨k, rfl⟩ := h
  rw [List.length_take]
  by_cases hk : k ≤ p.length
  · rw [Nat.min_eq_left hk]; exact List.take_append_drop k p
  · rw [Nat.min_eq_right (by omega), List.take_of_length_le (by omega)]; simp

theorem lineOf_eq_nil (p : Bytes) (h : lineOf p = []) : p = [] := by
  unfold lineOf at h
  split at h
  · cases p with
    | nil => rfl
    | cons a t => simp at h
  · exact h

/-! ## writing -/

theorem writeAllLoop_chan (fuel : Nat) (f : BF Chan) (data : Bytes) (hf : data.length < fuel) :
    (writeAllLoop chanOps fuel f data).2 = .ok () ∧
    (writeAllLoop chanOps fuel f data).1.s.out = f.s.out ++ data ∧
    (writeAllLoop chanOps fuel f data).1.wbuf = f.wbuf ∧
    rside (writeAllLoop chanOps fuel f data).1 = rside f ∧
    cfg (writeAllLoop chanOps fuel f data).1 = cfg f ∧
    (writeAllLoop chanOps fuel f data).1.closed = f.closed := by
  induction fuel generalizing f data with
  | zero => omega
  | succ fuel ih =>
    rw [writeAllLoop]
    by_cases he : data.isEmpty = true
    · have : data = [] := by simpa using he
      simp [this]
    · have hne : data ≠ [] := by simpa using he
      have hlen : 0 < data.length := List.length_pos_iff.2 hne
      have hk := grant_pos f.s.wg data.length hlen
      have hk0 : (grant f.s.wg data.length == 0) = false := by
        simp; omega
      simp only [he, Bool.false_eq_true, if_false, chanOps_write, hk0]
      split
      · have := ih
          { f with s := { f.s with out := f.s.out ++ data.take (grant f.s.wg data.length), wg := f.s.wg.tail },
                   size := f.size + (grant f.s.wg data.length : Nat),
                   pos := f.size + (grant f.s.wg data.length : Nat),
                   realpos := f.size + (grant f.s.wg data.length : Nat) }
          (data.drop (grant f.s.wg data.length)) (by simp; omega)
        simpa [List.append_assoc, rside, cfg] using this
      · have := ih
          { f with s := { f.s with out := f.s.out ++ data.take (grant f.s.wg data.length), wg := f.s.wg.tail },
                   pos := f.pos + (grant f.s.wg data.length : Nat),
                   realpos := f.realpos + (grant f.s.wg data.length : Nat) }
          (data.drop (grant f.s.wg data.length)) (by simp; omega)
        simpa [List.append_assoc, rside, cfg] using this

theorem writeAll_chan (f : BF Chan) (data : Bytes) :
    (writeAll chanOps f data).2 = .ok () ∧
    (writeAll chanOps f data).1.s.out = f.s.out ++ data ∧
    (writeAll chanOps f data).1.wbuf = f.wbuf ∧
    rside (writeAll chanOps f data).1 = rside f ∧
    cfg (writeAll chanOps f data).1 = cfg f ∧
    (writeAll chanOps f data).1.closed = f.closed := by
  unfold writeAll
  rw [dropReadAhead_chan]
  exact writeAllLoop_chan (data.length + 1) f data (by omega)

theorem flush_chan (f : BF Chan) :
    (flush chanOps f).2 = .ok () ∧
    (flush chanOps f).1.s.out = f.s.out ++ f.wbuf ∧
    (flush chanOps f).1.wbuf = [] ∧
    rside (flush chanOps f).1 = rside f ∧
    cfg (flush chanOps f).1 = cfg f ∧
    (flush chanOps f).1.closed = f.closed := by
  unfold flush
  obtain ⟨h1, h2, h3, h4, h5, h6⟩ := writeAll_chan f f.wbuf
  rcases hres : writeAll chanOps f f.wbuf with ⟨f1, r1⟩
  rw [hres] at h1 h2 h3 h4 h5 h6
  simp only at h1 h2 h3 h4 h5 h6
  subst h1
  simp only
  exact ⟨trivial, h2, trivial, by simpa [rside] using h4, by simpa [cfg] using h5, h6⟩

theorem close_chan (f : BF Chan) :
    (close chanOps f).2 = .ok () ∧
    (close chanOps f).1.s.out = f.s.out ++ f.wbuf ∧
    (close chanOps f).1.wbuf = [] ∧
    rside (close chanOps f).1 = rside f ∧
    cfg (close chanOps f).1 = cfg f ∧
    (close chanOps f).1.closed = true := by
  unfold close
  obtain ⟨h1, h2, h3, h4, h5, h6⟩ := flush_chan f
  rcases hres : flush chanOps f with ⟨f1, r1⟩
  rw [hres] at h1 h2 h3 h4 h5 h6
  simp only at h1 h2 h3 h4 h5 h6
  subst h1
  simp only
  exact ⟨trivial, h2, h3, by simpa [rside] using h4, by simpa [cfg] using h5, trivial⟩

theorem take_idx_noLF (t : Bytes) : (t.take (t.idxOf LF)).contains LF = false := by
  induction t with
  | nil => simp
  | cons a t ih =>
    rw [List.idxOf_cons]
    by_cases ha : a = LF
    · subst ha; simp
    · have hb : (a == LF) = false := by simpa using ha
      have hb' : (LF == a) = false := by simpa using fun h => ha h.symm
      simp only [hb, cond_false, List.take_succ_cons, List.contains_cons, hb', Bool.false_or]
      exact ih

theorem rfindLF_spec (data : Bytes) (p : Nat) (h : rfindLF data = some p) :
    p < data.length ∧ (data.drop (p + 1)).contains LF = false := by
  unfold rfindLF at h
  split at h
  · rename_i hc
    have hm : LF ∈ data.reverse := by simpa using List.contains_iff_mem.1 hc
    have hi : data.reverse.idxOf LF < data.reverse.length := List.idxOf_lt_length_iff.2 hm
    simp only [List.length_reverse] at hi
    injection h with h
    subst h
    refine ⟨by omega, ?_⟩
    have h1 : data.length - 1 - data.reverse.idxOf LF + 1 = data.length - data.reverse.idxOf LF := by omega
    rw [h1]
    have h2 : data.drop (data.length - data.reverse.idxOf LF) = (data.reverse.take (data.reverse.idxOf LF)).reverse := by
      rw [List.take_reverse]; simp
    rw [h2]
    have := take_idx_noLF data.reverse
    cases hcc : (data.reverse.take (data.reverse.idxOf LF)).reverse.contains LF with
    | false => rfl
    | true =>
      have hm2 := List.contains_iff_mem.1 hcc
      rw [List.mem_reverse] at hm2
      rw [List.contains_iff_mem.2 hm2] at this
      exact absurd this (by decide)
  · cases h

theorem rfindLF_none (data : Bytes) (h : rfindLF data = none) : data.contains LF = false := by
  unfold rfindLF at h
  split at h
  · cases h
  · rename_i hc; simpa using hc

macro "triv" : tactic => `(tactic| first | trivial | rfl)

/-- what a write leaves in the write buffer, per buffering mode -/
def WInv (f : BF Chan) : Prop :=
  (f.buffered = false → f.wbuf = []) ∧
  (f.buffered = true → f.lineBuf = true → f.wbuf.contains LF = false) ∧
  (f.buffered = true → f.lineBuf = false → f.wbuf.length < f.bufsize)

theorem write_chan (f : BF Chan) (data : Bytes) (hb : 1 ≤ f.bufsize) (hc : f.closed = false) (hw : f.wr = true)
    (hi : WInv f) :
    (write chanOps f data).2 = .ok () ∧
    (write chanOps f data).1.s.out ++ (write chanOps f data).1.wbuf = f.s.out ++ f.wbuf ++ data ∧
    rside (write chanOps f data).1 = rside f ∧
    cfg (write chanOps f data).1 = cfg f ∧
    (write chanOps f data).1.closed = f.closed ∧
    WInv (write chanOps f data).1 := by
  unfold write
  rw [if_neg (by simp [hc]), if_neg (by simp [hw])]
  obtain ⟨hi1, hi2, hi3⟩ := hi
  by_cases hbuf : f.buffered = true
  · rw [if_neg (by simp [hbuf])]
    simp only
    by_cases hl : f.lineBuf = true
    · rw [if_pos hl]
      cases hp : rfindLF data with
      | none =>
        simp only
        refine ⟨by triv, by simp, by triv, by triv, by triv, ?_⟩
        refine ⟨fun h => by simp [hbuf] at h, fun _ _ => ?_, fun _ h => by simp [hl] at h⟩
        simp only [List.contains_append, hi2 hbuf hl, rfindLF_none data hp, Bool.or_self]
      | some p =>
        obtain ⟨hp1, hp2⟩ := rfindLF_spec data p hp
        simp only
        obtain ⟨h1, h2, h3, h4, h5, h6⟩ := writeAll_chan { f with wbuf := f.wbuf ++ data }
          ((f.wbuf ++ data).take (p + ((f.wbuf ++ data).length - data.length) + 1))
        rcases hres : writeAll chanOps { f with wbuf := f.wbuf ++ data }
          ((f.wbuf ++ data).take (p + ((f.wbuf ++ data).length - data.length) + 1)) with ⟨f1, r1⟩
        rw [hres] at h1 h2 h3 h4 h5 h6
        simp only at h1 h2 h3 h4 h5 h6
        subst h1
        simp only
        have hcut : p + ((f.wbuf ++ data).length - data.length) + 1 = f.wbuf.length + (p + 1) := by
          simp; omega
        refine ⟨trivial, ?_, by simpa [rside] using h4, by simpa [cfg] using h5, h6, ?_⟩
        · rw [h2]; simp only [List.append_assoc, List.take_append_drop]
        · have hc5 : f1.buffered = f.buffered ∧ f1.lineBuf = f.lineBuf := by
            simp [cfg] at h5; exact ⟨h5.2.2.2.1, h5.2.2.2.2.1⟩
          refine ⟨fun h => by simp [hc5.1, hbuf] at h, fun _ _ => ?_, fun _ h => by simp [hc5.2, hl] at h⟩
          simp only
          rw [hcut, List.drop_append, List.drop_of_length_le (by omega)]
          simpa using hp2
    · have hl' : f.lineBuf = false := by simpa using hl
      rw [if_neg (by simp [hl'])]
      by_cases hfull : (f.wbuf ++ data).length ≥ f.bufsize
      · rw [if_pos hfull]
        obtain ⟨h1, h2, h3, h4, h5, h6⟩ := flush_chan { f with wbuf := f.wbuf ++ data }
        refine ⟨h1, ?_, by simpa [rside] using h4, by simpa [cfg] using h5, h6, ?_⟩
        · rw [h2, h3]; simp
        · refine ⟨fun _ => h3, fun _ _ => by rw [h3]; rfl, fun _ _ => ?_⟩
          rw [h3]
          have : (flush chanOps { f with wbuf := f.wbuf ++ data }).1.bufsize = f.bufsize := by
            simp [cfg] at h5; exact h5.2.2.2.2.2.1
          rw [this]; exact hb
      · rw [if_neg hfull]
        refine ⟨by triv, by simp, by triv, by triv, by triv, ?_⟩
        refine ⟨fun h => by simp [hbuf] at h, fun _ h => by simp [hl'] at h, fun _ _ => ?_⟩
        simp only; omega
  · have hbuf' : f.buffered = false := by simpa using hbuf
    rw [if_pos (by simp [hbuf'])]
    obtain ⟨h1, h2, h3, h4, h5, h6⟩ := writeAll_chan f data
    have hw0 := hi1 hbuf'
    refine ⟨h1, ?_, h4, h5, h6, ?_⟩
    · rw [h2, h3, hw0]; simp
    · have hc5 : (writeAll chanOps f data).1.buffered = f.buffered := by
        simp [cfg] at h5; exact h5.2.2.2.1
      refine ⟨fun _ => by rw [h3]; exact hw0, fun h => by simp [hc5, hbuf'] at h, fun h => by simp [hc5, hbuf'] at h⟩

theorem write_err_chan (f : BF Chan) (data : Bytes) (h : f.closed = true ∨ f.wr = false) :
    (write chanOps f data).1 = f ∧ ∃ e, (write chanOps f data).2 = .error e := by
  unfold write
  rcases h with h | h
  · simp [h]
  · by_cases hc : f.closed = true <;> simp [h, hc]

/-! ## sequences of lines (readlines, iteration) -/

/-- `LinesOf p ls p'`: `ls` are the successive non-empty first lines of `p`, and `p'` is what is left -/
inductive LinesOf : Bytes → List Bytes → Bytes → Prop
  | nil (p : Bytes) : LinesOf p [] p
  | cons (p l : Bytes) (ls : List Bytes) (p' : Bytes) :
      l = lineOf p → l ≠ [] → LinesOf (p.drop l.length) ls p' → LinesOf p (l :: ls) p'

theorem LinesOf.flatten_append {p p' : Bytes} {ls : List Bytes} (h : LinesOf p ls p') :
    ls.flatten ++ p' = p := by
  induction h with
  | nil p => simp
  | cons p l ls p' hl _ _ ih =>
    rw [List.flatten_cons, List.append_assoc, ih]
    exact prefix_append_drop p l (by rw [hl]; exact lineOf_prefix p)

theorem next_chan (f : BF Chan) (hb : 1 ≤ f.bufsize) (hc : f.closed = false) (hr : f.rd = true) :
    (next chanOps f).2 = .ok (if (lineOf (pending f)).isEmpty then none else some (lineOf (pending f))) ∧
    pending (next chanOps f).1 = (pending f).drop (lineOf (pending f)).length ∧
    wside (next chanOps f).1 = wside f ∧ cfg (next chanOps f).1 = cfg f ∧
    (next chanOps f).1.closed = f.closed := by
  unfold next
  obtain ⟨h1, h2, h3, h4, h5⟩ := readline_chan f none hb hc hr
  rcases hres : readline chanOps f none with ⟨f1, r1⟩
  rw [hres] at h1 h2 h3 h4 h5
  simp only at h1 h2 h3 h4 h5
  subst h1
  exact ⟨by triv, h2, h3, h4, h5⟩

theorem next_err_chan (f : BF Chan) (h : f.closed = true ∨ f.rd = false) :
    (next chanOps f).1 = f ∧ ∃ e, (next chanOps f).2 = .error e := by
  unfold next
  obtain ⟨h1, e, h2⟩ := readline_err_chan f none h
  rcases hres : readline chanOps f none with ⟨f1, r1⟩
  rw [hres] at h1 h2
  simp only at h1 h2
  subst h1 h2
  exact ⟨rfl, e, rfl⟩

theorem drop_lineOf_length (p : Bytes) : (p.drop (lineOf p).length).length = p.length - (lineOf p).length := by
  simp

theorem readlinesLoop_chan (hint : Option Int) (fuel : Nat) (f : BF Chan) (acc : List Bytes) (count : Nat)
    (hb : 1 ≤ f.bufsize) (hc : f.closed = false) (hr : f.rd = true) (hf : (pending f).length < fuel) :
    ∃ new, (readlinesLoop chanOps hint fuel f acc count).2 = .ok (acc ++ new) ∧
      LinesOf (pending f) new (pending (readlinesLoop chanOps hint fuel f acc count).1) ∧
      wside (readlinesLoop chanOps hint fuel f acc count).1 = wside f ∧
      cfg (readlinesLoop chanOps hint fuel f acc count).1 = cfg f ∧
      (readlinesLoop chanOps hint fuel f acc count).1.closed = f.closed ∧
      (hint = none → pending (readlinesLoop chanOps hint fuel f acc count).1 = []) := by
  induction fuel generalizing f acc count with
  | zero => omega
  | succ fuel ih =>
    rw [readlinesLoop]
    obtain ⟨h1, h2, h3, h4, h5⟩ := readline_chan f none hb hc hr
    rcases hres : readline chanOps f none with ⟨f1, r1⟩
    rw [hres] at h1 h2 h3 h4 h5
    simp only [specLine] at h1 h2 h3 h4 h5
    subst h1
    simp only
    by_cases he : (lineOf (pending f)).isEmpty = true
    · have hnil : lineOf (pending f) = [] := by simpa using he
      rw [if_pos he]
      refine ⟨[], by simp, ?_, h3, h4, h5, fun _ => ?_⟩
      · simp only; rw [h2, hnil]; simp; exact LinesOf.nil _
      · simp only; rw [h2, hnil]; simpa using lineOf_eq_nil _ hnil
    · rw [if_neg he]
      have hne : lineOf (pending f) ≠ [] := by simpa using he
      have hlen : 0 < (lineOf (pending f)).length := List.length_pos_iff.2 hne
      have hle := lineOf_length_le (pending f)
      have hb1 : 1 ≤ f1.bufsize := by
        have : f1.bufsize = f.bufsize := by simp [cfg] at h4; exact h4.2.2.2.2.2.1
        omega
      have hr1 : f1.rd = true := by
        have : f1.rd = f.rd := by simp [cfg] at h4; exact h4.1
        rw [this]; exact hr
      by_cases hs : rlStop hint (count + (lineOf (pending f)).length) = true
      · rw [if_pos hs]
        refine ⟨[lineOf (pending f)], rfl, ?_, h3, h4, h5, fun hn => ?_⟩
        · exact LinesOf.cons _ _ _ _ rfl hne (by rw [h2]; exact LinesOf.nil _)
        · subst hn; simp [rlStop] at hs
      · rw [if_neg hs]
        obtain ⟨new, g1, g2, g3, g4, g5, g6⟩ := ih f1 (acc ++ [lineOf (pending f)]) (count + (lineOf (pending f)).length)
          hb1 (by rw [h5]; exact hc) hr1 (by rw [h2, drop_lineOf_length]; omega)
        refine ⟨lineOf (pending f) :: new, by rw [g1]; simp, ?_, by rw [g3, h3], by rw [g4, h4], by rw [g5, h5], g6⟩
        exact LinesOf.cons _ _ _ _ rfl hne (by rw [← h2]; exact g2)

theorem iterLoop_chan (fuel : Nat) (f : BF Chan) (acc : List Bytes)
    (hb : 1 ≤ f.bufsize) (hc : f.closed = false) (hr : f.rd = true) (hf : (pending f).length < fuel) :
    ∃ new, (iterLoop chanOps fuel f acc).2 = .ok (acc ++ new) ∧
      LinesOf (pending f) new [] ∧
      pending (iterLoop chanOps fuel f acc).1 = [] ∧
      wside (iterLoop chanOps fuel f acc).1 = wside f ∧
      cfg (iterLoop chanOps fuel f acc).1 = cfg f ∧
      (iterLoop chanOps fuel f acc).1.closed = f.closed := by
  induction fuel generalizing f acc with
  | zero => omega
  | succ fuel ih =>
    rw [iterLoop]
    obtain ⟨h1, h2, h3, h4, h5⟩ := next_chan f hb hc hr
    rcases hres : next chanOps f with ⟨f1, r1⟩
    rw [hres] at h1 h2 h3 h4 h5
    simp only at h1 h2 h3 h4 h5
    subst h1
    by_cases he : (lineOf (pending f)).isEmpty = true
    · have hnil : lineOf (pending f) = [] := by simpa using he
      have hp : pending f = [] := lineOf_eq_nil _ hnil
      simp only [he, if_true]
      have hp1 : pending f1 = [] := by rw [h2, hnil, hp]; rfl
      refine ⟨[], by simp, by rw [hp]; exact LinesOf.nil _, hp1, h3, h4, h5⟩
    · simp only [he, Bool.false_eq_true, if_false]
      have hne : lineOf (pending f) ≠ [] := by simpa using he
      have hlen : 0 < (lineOf (pending f)).length := List.length_pos_iff.2 hne
      have hle := lineOf_length_le (pending f)
      have hb1 : 1 ≤ f1.bufsize := by
        have : f1.bufsize = f.bufsize := by simp [cfg] at h4; exact h4.2.2.2.2.2.1
        omega
      have hr1 : f1.rd = true := by
        have : f1.rd = f.rd := by simp [cfg] at h4; exact h4.1
        rw [this]; exact hr
      obtain ⟨new, g1, g2, g3, g4, g5, g6⟩ := ih f1 (acc ++ [lineOf (pending f)])
        hb1 (by rw [h5]; exact hc) hr1 (by rw [h2, drop_lineOf_length]; omega)
      refine ⟨lineOf (pending f) :: new, by rw [g1]; simp, ?_, g3, by rw [g4, h3], by rw [g5, h4], by rw [g6, h5]⟩
      exact LinesOf.cons _ _ _ _ rfl hne (by rw [← h2]; exact g2)
