/-
  Programs that only prefetch and read sequentially (getfo's loop): the completed reads start where the previous
  one ended, so — with `reads_exact` — their concatenation is a prefix of the file, and the whole file once a read
  comes back empty.
-/
import PV.Model.PrefetchInv
namespace PV.Prefetch
open PV

abbrev Entry := Nat × Option Nat × Bytes

def chainFrom (p : Nat) : List Entry → Prop
  | [] => True
  | e :: r => e.1 = p ∧ chainFrom (p + e.2.2.length) r

def endFrom (p : Nat) : List Entry → Nat
  | [] => p
  | e :: r => endFrom (p + e.2.2.length) r

/-- as long as no read has raised: the completed reads are consecutive from 0, an idle reader stands at their end,
    a running read started there -/
def Seq (s : St) : Prop :=
  s.raised = [] → chainFrom 0 s.out ∧
    (match pcCtx s.pc with
     | none => s.pos = endFrom 0 s.out
     | some c => c.start = endFrom 0 s.out)

theorem chainFrom_snoc {p : Nat} {out : List Entry} {e : Entry} (h : chainFrom p out) (he : e.1 = endFrom p out) :
    chainFrom p (out ++ [e]) := by
  induction out generalizing p with
  | nil => simp only [endFrom] at he; simp [chainFrom, he]
  | cons x xs ih =>
    simp only [List.cons_append, chainFrom, endFrom] at h he ⊢
    exact ⟨h.1, ih h.2 he⟩

theorem endFrom_snoc (p : Nat) (out : List Entry) (e : Entry) : endFrom p (out ++ [e]) = endFrom p out + e.2.2.length := by
  induction out generalizing p with
  | nil => simp [endFrom]
  | cons x xs ih => simp only [List.cons_append, endFrom]; exact ih _

theorem seq_finish {s : St} {c : RCtx} (hr : s.raised = [] → chainFrom 0 s.out ∧ c.start = endFrom 0 s.out) :
    Seq (finish s c) := by
  intro hrz
  obtain ⟨h1, h2⟩ := hr hrz
  refine ⟨chainFrom_snoc h1 h2, ?_⟩
  show c.start + (resultOf c).length = endFrom 0 (s.out ++ [(c.start, c.want, resultOf c)])
  rw [endFrom_snoc, h2]

theorem seq_advance : ∀ (fuel : Nat) (s : St) (c : RCtx), Base s → CtxOK s.file s.realpos c →
    (s.raised = [] → chainFrom 0 s.out ∧ c.start = endFrom 0 s.out) → Seq (advance fuel s c) := by
  intro fuel
  induction fuel with
  | zero => intro s c _ _ hr; intro hz; exact hr hz
  | succ fuel ih =>
    intro s c hb hc hr
    unfold advance
    by_cases hm : wantMet c = true
    · simp only [hm, if_true]
      exact seq_finish hr
    · have hm' : wantMet c = false := by simpa using hm
      simp only [hm', Bool.false_eq_true, if_false]
      have hsz := reqSize_ok hb.pos hm'
      by_cases hp : s.prefetching = true
      · simp only [hp, if_true]
        cases hib : inBuffers s.bufs s.realpos with
        | none =>
          simp only
          by_cases hd : s.done = true
          · simp only [hd, if_true]; intro hz; exact hr hz
          · simp only [hd, Bool.false_eq_true, if_false]; intro hz; exact hr hz
        | some idx =>
          simp only
          obtain ⟨pre, hg, hle, hlt⟩ := inBuffers_some hib
          obtain ⟨t1, t2, t3, t4⟩ := takeBuf_spec (f := s.file) (size := reqSize s c) hb.bufs hg hle hlt hsz
          have hne : ¬ (takeBuf s.bufs idx s.realpos (reqSize s c)).2.length = 0 := by omega
          simp only [hne, if_false]
          apply ih
          · exact ⟨hb.pos, t1, hb.s2c, hb.ext, hb.thr, hb.out⟩
          · obtain ⟨hsl, hpos, _⟩ := hc
            refine ⟨?_, ?_, ?_⟩
            · apply isSl_append hsl
              rw [← hpos]; exact t2
            · simp only [List.length_append]; omega
            · trivial
          · exact hr
      · simp only [hp, Bool.false_eq_true, if_false]; intro hz; exact hr hz

theorem seq_afterCheck {s : St} {c : RCtx} (hb : Base s) (hc : CtxOK s.file s.realpos c)
    (hr : s.raised = [] → chainFrom 0 s.out ∧ c.start = endFrom 0 s.out) : Seq (afterCheck s c) := by
  unfold afterCheck
  split
  · intro hz; simp [raiseRead] at hz
  · exact seq_advance _ _ _ hb hc hr

/-- the reader operations of a sequential download -/
def seqAct : Act → Prop
  | .rOp (.seek _) => False
  | .rOp (.readv _ _) => False
  | .rOp (.readAt _ _) => False
  | _ => True

theorem asyncResponse_seqframe {s s1 : St} {n : Nat} {r : Resp} (h : asyncResponse s n r = some s1) :
    s1.out = s.out ∧ s1.raised = s.raised ∧ s1.realpos = s.realpos := by
  unfold asyncResponse at h
  split at h
  · cases h
  · split at h <;> (cases h; exact ⟨rfl, rfl, rfl⟩)

theorem step_seq {s s' : St} {a : Act} (hi : Inv s) (hrb : RbOK s) (hs : Seq s) (ha : seqAct a)
    (h : step s a = some s') : Seq s' := by
  obtain ⟨hb, hp⟩ := hi
  cases a with
  | serve k =>
    simp only [step] at h
    split at h
    · cases h
    · split at h
      · cases h
      · cases h; exact hs
  | serveFail k =>
    simp only [step] at h
    split at h
    · cases h
    · split at h
      · cases h
      · cases h; exact hs
  | tCheck i =>
    simp only [step] at h
    split at h
    · split at h
      · cases h; exact hs
      · cases h
    · cases h
  | tAlloc i => simp only [step] at h; split at h <;> (cases h; try exact hs)
  | tSend i => simp only [step] at h; split at h <;> (cases h; try exact hs)
  | tReg i => simp only [step] at h; split at h <;> (cases h; try exact hs)
  | rOp op =>
    simp only [step] at h
    cases hpc : s.pc with
    | idle =>
      simp only [hpc] at h
      unfold Seq at hs
      rw [hpc] at hs
      simp only [pcCtx] at hs
      cases op with
      | seek off => exact absurd ha (by simp [seqAct])
      | readv ch cap => exact absurd ha (by simp [seqAct])
      | readAt off want => exact absurd ha (by simp [seqAct])
      | read want =>
        simp only at h; cases h
        apply seq_advance _ _ _ hb ⟨hrb.1, hrb.2 (by rw [hpc]; rfl), trivial⟩
        intro hz
        obtain ⟨h1, h2⟩ := hs hz
        exact ⟨h1, h2⟩
      | prefetch fs cap =>
        simp only at h
        split at h
        · cases h; intro hz; rw [hpc]; exact hs hz
        · cases h; intro hz; show _ ∧ (match pcCtx s.pc with | none => _ | some c => _); rw [hpc]; exact hs hz
    | _ => simp [hpc] at h
  | rStep =>
    simp only [step] at h
    unfold PcOK at hp
    unfold Seq at hs
    cases hpc : s.pc with
    | idle => simp [hpc] at h
    | cont c =>
      simp only [hpc] at h hp; cases h
      rw [hpc] at hs
      exact seq_advance _ _ _ hb hp hs
    | recvPf c =>
      simp only [hpc] at h hp
      rw [hpc] at hs
      cases hq : s.s2c with
      | nil => simp [hq] at h
      | cons e rest =>
        obtain ⟨num, r⟩ := e
        simp only [hq] at h
        have hb1 : Base { s with s2c := rest } :=
          ⟨hb.pos, hb.bufs, fun e he => hb.s2c e (by rw [hq]; exact List.mem_cons_of_mem _ he), hb.ext, hb.thr, hb.out⟩
        split at h
        · cases h; exact hs
        · cases h
          exact seq_afterCheck ⟨hb1.pos, hb1.bufs, hb1.s2c, hb1.ext, hb1.thr, hb1.out⟩ hp hs
    | dispPf c num r =>
      simp only [hpc] at h hp
      rw [hpc] at hs
      cases ha' : asyncResponse s num r with
      | none => simp [ha'] at h
      | some s1 =>
        simp only [ha'] at h; cases h
        obtain ⟨hb1, hf, hrp, _, _⟩ := asyncResponse_base hb hp.2 ha'
        obtain ⟨f1, f2, _⟩ := asyncResponse_seqframe ha'
        apply seq_afterCheck hb1
        · rw [hf, hrp]; exact hp.1
        · rw [f1, f2]; exact hs
    | allocSync c =>
      simp only [hpc] at h; cases h
      rw [hpc] at hs
      exact hs
    | sendSync c n =>
      simp only [hpc] at h; cases h
      rw [hpc] at hs
      exact hs
    | recvSync c num =>
      simp only [hpc] at h hp
      rw [hpc] at hs
      obtain ⟨hctx, hsz, hsync⟩ := hp
      cases hq : s.s2c with
      | nil => simp [hq] at h
      | cons e rest =>
        obtain ⟨n', r⟩ := e
        simp only [hq] at h
        have hr : RespAt s.info s.file n' r := hb.s2c (n', r) (by rw [hq]; simp)
        have hb1 : Base { s with s2c := rest } :=
          ⟨hb.pos, hb.bufs, fun e he => hb.s2c e (by rw [hq]; exact List.mem_cons_of_mem _ he), hb.ext, hb.thr, hb.out⟩
        by_cases hn : n' = num
        · simp only [hn, if_true] at h
          subst hn
          obtain ⟨i, hi, hok⟩ := hr
          obtain ⟨w, hw⟩ := hsync
          rw [hw] at hi
          have hi' : i = ⟨s.realpos, c.size, w⟩ := by simpa using hi.symm
          subst hi'
          cases r with
          | data d =>
            simp only at h
            obtain ⟨hsl, hdpos, hdlen⟩ := hok
            simp only at hsl hdlen
            have hne : ¬ d.length = 0 := by omega
            simp only [hne, if_false] at h
            cases h
            apply seq_advance
            · exact ⟨hb1.pos, hb1.bufs, hb1.s2c, hb1.ext, hb1.thr, hb1.out⟩
            · obtain ⟨h1, h2, h3⟩ := hctx
              refine ⟨?_, ?_, ?_⟩
              · apply isSl_append h1
                rw [← h2]; exact hsl
              · simp only [List.length_append]; omega
              · trivial
            · exact hs
          | eof =>
            simp only at h; cases h
            exact seq_finish (s := { s with s2c := rest }) hs
          | err code =>
            simp only at h; cases h
            intro hz; simp [raiseRead] at hz
        · simp only [hn, if_false] at h
          split at h
          · cases h; exact hs
          · cases h; intro hz; exact hs hz
    | dispSync c num n' r =>
      simp only [hpc] at h hp
      rw [hpc] at hs
      cases ha' : asyncResponse s n' r with
      | none => simp [ha'] at h
      | some s1 =>
        simp only [ha'] at h; cases h
        obtain ⟨f1, f2, _⟩ := asyncResponse_seqframe ha'
        intro hz
        have hz' : s.raised = [] := by rw [← f2]; exact hz
        have := hs hz'
        show chainFrom 0 s1.out ∧ c.start = endFrom 0 s1.out
        rw [f1]; exact this

theorem init_seq (file : Bytes) (maxReq : Nat) (bufsize : Nat := 0) : Seq (init file maxReq bufsize) := by
  intro _; simp [init, chainFrom, endFrom, pcCtx]

theorem run_inv_seq {s : St} (hi : Inv s) (hrb : RbOK s) (hs : Seq s) (as : List Act) (ha : ∀ a ∈ as, seqAct a) :
    Inv (run s as) ∧ Seq (run s as) := by
  induction as generalizing s with
  | nil => exact ⟨hi, hs⟩
  | cons a as ih =>
    simp only [run]
    have ha' : ∀ b ∈ as, seqAct b := fun b hb => ha b (List.mem_cons_of_mem _ hb)
    cases hst : step s a with
    | none => simpa using ih hi hrb hs ha'
    | some s' =>
      simp only [Option.getD_some]
      exact ih (step_inv hi hrb hst) (step_rb hi hrb hst) (step_seq hi hrb hs (ha a (List.mem_cons_self ..)) hst) ha'

/-- consecutive exact reads concatenate to a slice of the file -/
theorem chain_concat {file : Bytes} : ∀ (out : List Entry) (p : Nat), chainFrom p out →
    (∀ e ∈ out, OutOK file e) → IsSl file p ((out.map (·.2.2)).flatten) ∧
      endFrom p out = p + ((out.map (·.2.2)).flatten).length := by
  intro out
  induction out with
  | nil => intro p _ _; exact ⟨isSl_nil _ _, by simp [endFrom]⟩
  | cons e r ih =>
    intro p hc ho
    simp only [chainFrom] at hc
    obtain ⟨i1, i2⟩ := ih (p + e.2.2.length) hc.2 (fun x hx => ho x (List.mem_cons_of_mem _ hx))
    have he := ho e (List.mem_cons_self ..)
    have hsl : IsSl file p e.2.2 := by
      unfold OutOK at he
      rw [← hc.1]
      cases hw : e.2.1 with
      | some w => rw [hw] at he; rw [he]; exact isSl_slice _ _ _
      | none =>
        rw [hw] at he
        rw [he]
        unfold IsSl slice
        rw [List.take_of_length_le (Nat.le_refl _)]
    simp only [List.map_cons, List.flatten_cons, endFrom]
    refine ⟨isSl_append hsl i1, ?_⟩
    rw [i2, List.length_append]; omega


theorem chainFrom_append {p : Nat} {a b : List Entry} (h : chainFrom p (a ++ b)) :
    chainFrom p a ∧ chainFrom (endFrom p a) b := by
  induction a generalizing p with
  | nil => exact ⟨trivial, h⟩
  | cons x xs ih =>
    simp only [List.cons_append, chainFrom, endFrom] at h ⊢
    obtain ⟨i1, i2⟩ := ih h.2
    exact ⟨⟨h.1, i1⟩, i2⟩

/-- the sequential download is complete once a read of a positive size comes back empty -/
theorem sequential_reads_complete {file : Bytes} {out pre : List Entry} {e : Entry} {w : Nat}
    (hc : chainFrom 0 out) (ho : ∀ x ∈ out, OutOK file x) (hout : out = pre ++ [e]) (hw : e.2.1 = some w) (hpos : 0 < w)
    (hempty : e.2.2 = []) : (out.map (·.2.2)).flatten = file := by
  obtain ⟨c1, c2⟩ := chain_concat out 0 hc ho
  subst hout
  obtain ⟨hpre, hlast⟩ := chainFrom_append hc
  simp only [chainFrom] at hlast
  obtain ⟨p1, p2⟩ := chain_concat pre 0 hpre (fun x hx => ho x (List.mem_append_left _ hx))
  have he := ho e (by simp)
  unfold OutOK at he
  rw [hw, hempty] at he
  simp only at he
  -- an empty slice of positive width starts at or past the end of the file
  have hlen : file.length ≤ e.1 := by
    have := congrArg List.length he
    unfold slice at this
    rw [List.length_take, List.length_drop] at this
    simp at this
    omega
  have hflat : ((pre ++ [e]).map (·.2.2)).flatten = (pre.map (·.2.2)).flatten := by
    simp [hempty]
  rw [hflat] at c1 ⊢
  have hstart : e.1 = ((pre.map (·.2.2)).flatten).length := by
    rw [hlast.1, p2]; simp
  have := (isSl_at_eof c1 (by rw [← hstart]; simpa using hlen)).1
  simpa using this

end PV.Prefetch
