/-
  PV.Model.HandleProg — executable model of attribute operations on an OPEN `SFTPFile` with write buffering:
  `BufferedFile.write` / `flush` / `close` (paramiko/file.py), `SFTPFile._write` and `SFTPFile.truncate` /
  `chmod` / `chown` / `utime` (paramiko/sftp_file.py), against a server file that is written at the request's
  offset, or at its end when the handle was opened in append mode (`SFTPHandle.write` with `O_APPEND`).

  `truncate(size)` flushes the write buffer, then sends FSETSTAT(size); the other attribute calls send FSETSTAT
  without touching the buffer.  The model produces the request trace (what goes on the wire) and the server file.
  The reference (`Ref`) is the local-file meaning: every write takes effect at once.
  Line buffering (`bufsize = 1`) is not modelled.  Mathlib-free.
-/
import PV.Base.Bytes
namespace PV.HandleProg
open PV

/-- POSIX `pwrite`: bytes `d` at offset `off`, zero-filling a gap past the end -/
def writeAt (f : Bytes) (off : Nat) (d : Bytes) : Bytes :=
  (f.take off ++ zeros (off - f.length)) ++ d ++ f.drop (off + d.length)

/-- one WRITE request's effect on the server file (no request at all for empty data) -/
def apply (f : Bytes) (append : Bool) (off : Nat) (d : Bytes) : Bytes :=
  if d = [] then f else if append then f ++ d else writeAt f off d

def truncated (c : Bytes) (n : Nat) : Bytes := c.take n ++ zeros (n - c.length)

structure St where
  file : Bytes        -- the served file
  realpos : Nat       -- SFTPFile._realpos: offset the next WRITE request carries
  wbuf : Bytes        -- BufferedFile._wbuffer (pending data)
  append : Bool       -- opened with 'a'
  bufsize : Nat       -- 0 = unbuffered; n > 1 = flush once n bytes are pending
  deriving Repr, DecidableEq

inductive Op
  | write (d : Bytes)
  | truncate (n : Nat)
  | attr               -- chmod / chown / utime on the handle
  | close
  deriving Repr, DecidableEq

/-- requests on the wire -/
inductive Ev
  | W (off len : Nat)  -- CMD_WRITE
  | T (n : Nat)        -- CMD_FSETSTAT with a size
  | A                  -- CMD_FSETSTAT without a size
  deriving Repr, DecidableEq

/-- `BufferedFile.flush` → `_write_all(pending)` → one WRITE (none when nothing is pending) -/
def flush (s : St) : St × List Ev :=
  if s.wbuf = [] then (s, [])
  else ({ s with file := apply s.file s.append s.realpos s.wbuf, realpos := s.realpos + s.wbuf.length, wbuf := [] },
        [Ev.W s.realpos s.wbuf.length])

def step (s : St) : Op → St × List Ev
  | .write d =>
    if s.bufsize = 0 then
      if d = [] then (s, [])
      else ({ s with file := apply s.file s.append s.realpos d, realpos := s.realpos + d.length },
            [Ev.W s.realpos d.length])
    else
      let s1 := { s with wbuf := s.wbuf ++ d }
      if s1.wbuf.length ≥ s.bufsize then flush s1 else (s1, [])
  | .truncate n =>
    let (s1, e) := flush s
    ({ s1 with file := truncated s1.file n }, e ++ [Ev.T n])
  | .attr => (s, [Ev.A])
  | .close => flush s

def run (s : St) : List Op → St × List Ev
  | [] => (s, [])
  | op :: r =>
    let (s1, e1) := step s op
    let (s2, e2) := run s1 r
    (s2, e1 ++ e2)

/-! ## reference: the local file object (buffering is invisible) -/

structure Ref where
  file : Bytes
  pos : Nat
  append : Bool
  deriving Repr, DecidableEq

def refStep (r : Ref) : Op → Ref
  | .write d => { r with file := apply r.file r.append r.pos d, pos := r.pos + d.length }
  | .truncate n => { r with file := truncated r.file n }
  | .attr => r
  | .close => r

def refRun (r : Ref) (ops : List Op) : Ref := ops.foldl refStep r

end PV.HandleProg
