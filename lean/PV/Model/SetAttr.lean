/-
  PV.Model.SetAttr — executable model of the SFTP attribute-change path:
    client  `SFTPClient.chmod/chown/utime/truncate`, `SFTPFile.chmod/chown/utime/truncate`
            (build an `SFTPAttributes` with the one field group set, `_pack` it into SETSTAT / FSETSTAT),
    server  `SFTPAttributes._from_msg` (→ PV.Model.SftpAttr.unpack) and `SFTPServer.set_file_attr`
            (paramiko/sftp_server.py, non-Windows, as repaired: the size is applied with `os.truncate`).
  `set_file_attr` is a sequence of OS calls chosen by `attr._flags`; the OS is a parameter (`OS`).
  Mathlib-free.
-/
import PV.Model.SftpAttr
namespace PV.SetAttr
open PV PV.Wire PV.SftpAttr PV.Generated.C33

/-- the OS calls `set_file_attr` can make on `filename` -/
inductive Call
  | chmod (mode : Nat)
  | chown (uid gid : Nat)
  | utime (atime mtime : Nat)
  | truncate (size : Nat)
  deriving Repr, DecidableEq

/-- `SFTPServer.set_file_attr(filename, attr)`: the calls it makes, in order.  A flag bit without its field
would hand `None` to the OS call (`TypeError`): named error, never defaulted. -/
def calls (flags : Nat) (a : Attrs) : Except Err (List Call) := do
  let c1 ← if has flags FLAG_PERMISSIONS then
      (match a.mode with | some m => pure [Call.chmod m] | none => .error .type) else pure []
  let c2 ← if has flags FLAG_UIDGID then
      (match a.uid, a.gid with | some u, some g => pure [Call.chown u g] | _, _ => .error .type) else pure []
  let c3 ← if has flags FLAG_AMTIME then
      (match a.atime, a.mtime with | some x, some y => pure [Call.utime x y] | _, _ => .error .type) else pure []
  let c4 ← if has flags FLAG_SIZE then
      (match a.size with | some n => pure [Call.truncate n] | none => .error .type) else pure []
  pure (c1 ++ c2 ++ c3 ++ c4)

/-- the server side of SETSTAT / FSETSTAT: decode the attributes that follow the path / handle, apply them -/
def serverCalls (wire : Bytes) : Except Err (List Call) :=
  let (flags, a, _) := unpack { content := wire, pos := 0 }
  calls flags a

/-- the client-side operations (by path and by handle build the same attributes) -/
inductive Op
  | chmod (mode : Nat)
  | chown (uid gid : Nat)
  | utime (atime mtime : Nat)
  | truncate (size : Nat)
  deriving Repr, DecidableEq

def Op.attrs : Op → Attrs
  | .chmod m => { Attrs.empty with mode := some m }
  | .chown u g => { Attrs.empty with uid := some u, gid := some g }
  | .utime a t => { Attrs.empty with atime := some a, mtime := some t }
  | .truncate n => { Attrs.empty with size := some n }

def Op.call : Op → Call
  | .chmod m => .chmod m
  | .chown u g => .chown u g
  | .utime a t => .utime a t
  | .truncate n => .truncate n

def Op.InRange : Op → Prop
  | .chmod m => m < 4294967296
  | .chown u g => u < 4294967296 ∧ g < 4294967296
  | .utime a t => a < 4294967296 ∧ t < 4294967296
  | .truncate n => n < 18446744073709551616

/-- client request → wire → server: the calls the server makes for a client operation -/
def endToEnd (op : Op) : Except Err (List Call) := do
  let wire ← pack op.attrs
  serverCalls wire

/-! ## by-path requests: the client's emulated working directory -/

/-- `SFTPClient._adjust_cwd(path)` with `self._cwd = cwd` (`none` = no `chdir` yet) -/
def adjustCwd (cwd : Option Bytes) (path : Bytes) : Bytes :=
  match cwd with
  | none => path
  | some c =>
    if path.head? = some 47 then path          -- absolute path
    else if c = [47] then c ++ path
    else c ++ 47 :: path

/-- what a by-path `SFTPClient.chmod/chown/utime/truncate(path, …)` sends in SETSTAT: the path string, and the calls
the attribute block leads to on the server -/
def byPath (cwd : Option Bytes) (path : Bytes) (op : Op) : Bytes × Except Err (List Call) :=
  (adjustCwd cwd path, endToEnd op)

/-! ## the filesystem the calls act on (abstract OS) -/

structure FileSt where
  content : Bytes
  perm : Nat
  uid : Nat
  gid : Nat
  atime : Nat
  mtime : Nat
  deriving Repr, DecidableEq

structure OS where
  chmod : FileSt → Nat → FileSt
  chown : FileSt → Nat → Nat → FileSt
  utime : FileSt → Nat → Nat → FileSt
  truncate : FileSt → Nat → FileSt

def OS.apply (os : OS) (f : FileSt) : Call → FileSt
  | .chmod m => os.chmod f m
  | .chown u g => os.chown f u g
  | .utime a t => os.utime f a t
  | .truncate n => os.truncate f n

def OS.run (os : OS) (f : FileSt) (cs : List Call) : FileSt := cs.foldl os.apply f

/-- POSIX `truncate(2)` on the contents: keep the first `n` bytes, pad with zeros -/
def truncated (c : Bytes) (n : Nat) : Bytes := c.take n ++ zeros (n - c.length)

/-- the toy OS of the driver: plain record updates (`truncate` also stamps mtime with 0 = "now") -/
def toyOS : OS where
  chmod f m := { f with perm := m % 4096 }
  chown f u g := { f with uid := u, gid := g }
  utime f a t := { f with atime := a, mtime := t }
  truncate f n := { f with content := truncated f.content n, mtime := 0 }

end PV.SetAttr
