/-
  PV.Model.ClientRefuse — executable model of how a *client-mode* transport treats server-initiated
  connection-layer actions:

    transport.py  Transport._parse_global_request (client branch), Transport._parse_channel_open (handler gating),
                  Transport.request_port_forward / cancel_port_forward (_tcp_handler),
                  Transport._set_x11_handler / _set_forward_agent_handler
    channel.py    Channel.request_x11 / request_forward_agent (when the handlers get installed),
                  Channel._handle_request with `transport.server_object is None`

  State = which of the three handlers is installed (+ a ghost history of the client's own enabling actions).
  Mathlib-free.
-/
import PV.Base.Bytes
namespace PV.ClientRefuse
open PV

def str (s : String) : Bytes := s.toUTF8.toList

def kX11 : Bytes := str "x11"
def kAgent : Bytes := str "auth-agent@openssh.com"
def kFwd : Bytes := str "forwarded-tcpip"

/-- the client's own actions that (un)install handlers -/
inductive Action
  | requestX11 (granted : Bool)        -- Channel.request_x11: handler installed after the server's CHANNEL_SUCCESS;
                                       -- granted = false: CHANNEL_FAILURE, or the channel / connection ended first
  | requestForwardAgent                -- Channel.request_forward_agent: installed unconditionally (no reply wanted)
  | requestPortForward (granted : Bool)  -- Transport.request_port_forward: installed iff the server granted it
  | cancelPortForward                  -- Transport.cancel_port_forward: uninstalled first, then the request is sent
  | otherRequest (granted : Bool)      -- any other request of the client (get_pty, exec_command, invoke_shell, …; an
                                       -- un-waited global request such as a keepalive), granted or not: installs nothing
  deriving Repr, DecidableEq

/-- what the server sends on its own initiative -/
inductive Incoming
  | globalRequest (kind : Bytes) (wantReply : Bool)
  | channelOpen (kind : Bytes) (chanid : Nat)
  | channelRequest (key : Bytes) (wantReply : Bool)     -- on an open channel
  deriving Repr, DecidableEq

inductive Event
  | act (a : Action)
  | msg (m : Incoming)
  deriving Repr, DecidableEq

inductive Reply
  | none
  | requestFailure
  | requestSuccess
  | openFailure (chanid : Nat) (reason : Nat)
  | openSuccess (chanid : Nat)
  | channelFailure
  | channelSuccess
  deriving Repr, DecidableEq

structure St where
  x11 : Bool := false          -- _x11_handler is not None
  agent : Bool := false        -- _forward_agent_handler is not None
  fwd : Bool := false          -- _tcp_handler is not None
  accepted : List Bytes := []  -- kinds of the server-opened channels accepted so far
  deriving Repr, DecidableEq

def init : St := {}

/-- channel requests a client-side channel approves: only status notifications -/
def approves (key : Bytes) : Bool := key = str "exit-status" || key = str "xon-xoff"

def handle (s : St) : Incoming → St × Reply
  | .globalRequest _ wantReply => (s, if wantReply then .requestFailure else .none)
  | .channelOpen kind chanid =>
    if (kind = kAgent ∧ s.agent = true) ∨ (kind = kX11 ∧ s.x11 = true) ∨ (kind = kFwd ∧ s.fwd = true) then
      ({ s with accepted := s.accepted ++ [kind] }, .openSuccess chanid)
    else (s, .openFailure chanid 1)      -- OPEN_FAILED_ADMINISTRATIVELY_PROHIBITED
  | .channelRequest key wantReply =>
    (s, if wantReply then (if approves key then .channelSuccess else .channelFailure) else .none)

def perform (s : St) : Action → St
  | .requestX11 granted => if granted then { s with x11 := true } else s
  | .requestForwardAgent => { s with agent := true }
  | .requestPortForward granted => if granted then { s with fwd := true } else s
  | .cancelPortForward => { s with fwd := false }
  | .otherRequest _ => s

def step (s : St) : Event → St × Reply
  | .act a => (perform s a, .none)
  | .msg m => handle s m

def run : St → List Event → St × List Reply
  | s, [] => (s, [])
  | s, e :: es =>
    let r := step s e
    let rest := run r.1 es
    (rest.1, r.2 :: rest.2)

end PV.ClientRefuse
