/-
  The link between the client's write requests and the server's file for one pipelined file `f`:
  requests travel in FIFO order on one channel and the server applies accepted writes in arrival order, so
  "what the server has applied" ++ "what is still unanswered on the wire" = "what the client has issued", with
  consecutive offsets — as long as no write of `f` has been rejected.
-/
import PV.Model.SftpClientInv
namespace PV.SftpClient
open PV

/-- the unanswered write requests of file `f` on the wire, in order: (offset, data) -/
def pend (f : Nat) : List Slot → List (Nat × Bytes)
  | [] => []
  | sl :: rest =>
    match sl.resp, sl.kind with
    | none, .write g off d => if g = f then (off, d) :: pend f rest else pend f rest
    | _, _ => pend f rest

def pdata (l : List (Nat × Bytes)) : Bytes := (l.map (·.2)).flatten

/-- consecutive offsets from `base`, ending at `e` -/
def contig (base : Nat) : List (Nat × Bytes) → Nat → Prop
  | [], e => e = base
  | (o, d) :: rest, e => o = base ∧ contig (base + d.length) rest e

structure PutInv (f : Nat) (acc : Bytes) (p : Nat) (cl : Bool) (s : St) : Prop where
  lenD : f < s.dest.length
  lenR : f < s.rejTot.length
  lenB : f < s.badSince.length
  pipe : (getFile s f).pipelined = true
  posEq : (getFile s f).pos = p
  clo : (getFile s f).closed = cl
  owned : ∀ sl ∈ s.wire, ∀ g off d, sl.kind = .write g off d → sl.owner.isSome = true
  same : s.rejTot.getD f 0 = s.badSince.getD f 0
  data : s.rejTot.getD f 0 = 0 →
    s.dest.getD f [] ++ pdata (pend f s.wire) = acc ∧ contig (s.dest.getD f []).length (pend f s.wire) acc.length

/-! ## list facts -/

theorem pend_append (f : Nat) (a b : List Slot) : pend f (a ++ b) = pend f a ++ pend f b := by
  induction a with
  | nil => rfl
  | cons x xs ih =>
    simp only [List.cons_append, pend]
    split
    · split
      · simp [ih]
      · exact ih
    · exact ih

theorem pend_served (f : Nat) (l : List Slot) (h : ∀ y ∈ l, y.resp ≠ none) : pend f l = [] := by
  induction l with
  | nil => rfl
  | cons x xs ih =>
    simp only [pend]
    have hx := h x (by simp)
    split
    · rename_i hr _; exact absurd hr hx
    · exact ih (fun y hy => h y (List.mem_cons_of_mem _ hy))

theorem pend_cons_served (f : Nat) (x : Slot) (rest : List Slot) (h : x.resp ≠ none) :
    pend f (x :: rest) = pend f rest := by
  simp only [pend]
  split
  · rename_i hr _; exact absurd hr h
  · rfl

theorem pdata_append (a b : List (Nat × Bytes)) : pdata (a ++ b) = pdata a ++ pdata b := by
  simp [pdata]

theorem contig_snoc {base e : Nat} {l : List (Nat × Bytes)} (d : Bytes) (h : contig base l e) :
    contig base (l ++ [(e, d)]) (e + d.length) := by
  induction l generalizing base with
  | nil => simp only [contig] at h; subst h; simp [contig]
  | cons x xs ih =>
    obtain ⟨o, d'⟩ := x
    simp only [List.cons_append, contig] at h ⊢
    exact ⟨h.1, ih h.2⟩

theorem writeAt_end' (c d : Bytes) : writeAt c c.length d = c ++ d := by
  unfold writeAt zeros
  simp

theorem getD_modify_self' {l : List Bytes} {i : Nat} (g : Bytes → Bytes) (h : i < l.length) :
    (l.modify i g).getD i [] = g (l.getD i []) := by
  simp only [List.getD_eq_getElem?_getD, List.getElem?_modify]
  simp [List.getElem?_eq_getElem h]

theorem getD_modify_ne' {l : List Bytes} {i j : Nat} (g : Bytes → Bytes) (h : i ≠ j) :
    (l.modify i g).getD j [] = l.getD j [] := by
  simp only [List.getD_eq_getElem?_getD, List.getElem?_modify]
  simp [h]

theorem serveWire_spec' {s s' : St} {w w' : List Slot} (h : serveWire s w = some (w', s')) :
    ∃ pre sl post, w = pre ++ sl :: post ∧ (∀ y ∈ pre, y.resp ≠ none) ∧ sl.resp = none ∧
      w' = pre ++ (serveSlot s sl).1 :: post ∧ s' = (serveSlot s sl).2 := by
  induction w generalizing w' with
  | nil => simp [serveWire] at h
  | cons x xs ih =>
    simp only [serveWire] at h
    cases hx : x.resp with
    | some c =>
      simp only [hx] at h
      cases hr : serveWire s xs with
      | none => simp [hr] at h
      | some p =>
        obtain ⟨r', s1⟩ := p
        simp only [hr] at h
        cases h
        obtain ⟨pre, sl, post, h1, h2, h3, h4, h5⟩ := ih hr
        refine ⟨x :: pre, sl, post, by simp [h1], ?_, h3, by simp [h4], h5⟩
        intro y hy
        rcases List.mem_cons.mp hy with hy | hy
        · rw [hy, hx]; simp
        · exact h2 y hy
    | none =>
      simp only [hx] at h
      cases h
      exact ⟨[], x, xs, rfl, by simp, hx, rfl, rfl⟩

/-! ## frame -/

theorem pipelined_setFile {s : St} {g f : Nat} {h : FileSt → FileSt}
    (hh : ∀ x, (h x).pipelined = x.pipelined ∧ (h x).pos = x.pos ∧ (h x).closed = x.closed) :
    (getFile (setFile s g h) f).pipelined = (getFile s f).pipelined ∧ (getFile (setFile s g h) f).pos = (getFile s f).pos ∧
    (getFile (setFile s g h) f).closed = (getFile s f).closed := by
  by_cases hgf : g = f
  · subst hgf
    by_cases hlt : g < s.files.length
    · rw [getFile_setFile_self hlt]; exact hh _
    · unfold getFile; rw [setFile_oob hlt]; exact ⟨rfl, rfl, rfl⟩
  · rw [getFile_setFile_ne hgf]; exact ⟨rfl, rfl, rfl⟩

theorem putInv_frame {f : Nat} {acc : Bytes} {p : Nat} {cl : Bool} {s s' : St} (hp : PutInv f acc p cl s) (h1 : s'.dest = s.dest)
    (h2 : s'.wire = s.wire) (h3 : s'.rejTot = s.rejTot) (h4 : s'.badSince = s.badSince)
    (h5 : (getFile s' f).pipelined = (getFile s f).pipelined ∧ (getFile s' f).pos = (getFile s f).pos ∧
      (getFile s' f).closed = (getFile s f).closed) :
    PutInv f acc p cl s' := by
  refine ⟨?_, ?_, ?_, ?_, ?_, ?_, ?_, ?_, ?_⟩
  · rw [h1]; exact hp.lenD
  · rw [h3]; exact hp.lenR
  · rw [h4]; exact hp.lenB
  · rw [h5.1]; exact hp.pipe
  · rw [h5.2.1]; exact hp.posEq
  · rw [h5.2.2]; exact hp.clo
  · rw [h2]; exact hp.owned
  · rw [h3, h4]; exact hp.same
  · rw [h1, h2, h3]; exact hp.data

/-! ## the server step -/

theorem putInv_serve_at {f : Nat} {acc : Bytes} {p : Nat} {cl : Bool} {s : St} {pre post : List Slot} {x : Slot}
    (hp : PutInv f acc p cl s) (hw : s.wire = pre ++ x :: post) (hpre : ∀ y ∈ pre, y.resp ≠ none) (hx : x.resp = none) :
    PutInv f acc p cl { (serveSlot s x).2 with wire := pre ++ (serveSlot s x).1 :: post } := by
  obtain ⟨hn, ho, hk, c, hc⟩ := serveSlot_slot s x
  have hsrv : (serveSlot s x).1.resp ≠ none := by rw [hc]; simp
  have hpend_new : pend f (pre ++ (serveSlot s x).1 :: post) = pend f post := by
    rw [pend_append, pend_served f pre hpre, pend_cons_served f _ post hsrv]; rfl
  have hpend_old : pend f s.wire = pend f (x :: post) := by
    rw [hw, pend_append, pend_served f pre hpre]; rfl
  have howned : ∀ sl ∈ pre ++ (serveSlot s x).1 :: post, ∀ g off d, sl.kind = .write g off d → sl.owner.isSome = true := by
    intro sl hsl g off d hkd
    rw [List.mem_append, List.mem_cons] at hsl
    rcases hsl with h | h | h
    · exact hp.owned sl (by rw [hw]; simp [h]) g off d hkd
    · rw [h, ho]; rw [h, hk] at hkd; exact hp.owned x (by rw [hw]; simp) g off d hkd
    · exact hp.owned sl (by rw [hw]; simp [h]) g off d hkd
  have hxmem : x ∈ s.wire := by rw [hw]; simp
  -- case analysis on the request kind
  cases hkind : x.kind with
  | write g off d =>
    have hxo : x.owner.isSome = true := hp.owned x hxmem g off d hkind
    by_cases hcode : s.wfaults.getD s.nw 0 = 0
    · -- accepted
      have hst : (serveSlot s x).2 = { s with nw := s.nw + 1, dest := s.dest.modify g (fun c => writeAt c off d) } := by
        unfold serveSlot; simp only [hkind, hcode, if_true]
      refine ⟨?_, ?_, ?_, ?_, ?_, ?_, howned, ?_, ?_⟩
      · show f < ((serveSlot s x).2).dest.length
        rw [hst]; simp [hp.lenD]
      · show f < ((serveSlot s x).2).rejTot.length
        rw [hst]; exact hp.lenR
      · show f < ((serveSlot s x).2).badSince.length
        rw [hst]; exact hp.lenB
      · show (((serveSlot s x).2).files.getD f newFile).pipelined = true
        rw [hst]; exact hp.pipe
      · show (((serveSlot s x).2).files.getD f newFile).pos = p
        rw [hst]; exact hp.posEq
      · show (((serveSlot s x).2).files.getD f newFile).closed = cl
        rw [hst]; exact hp.clo
      · show ((serveSlot s x).2).rejTot.getD f 0 = ((serveSlot s x).2).badSince.getD f 0
        rw [hst]; exact hp.same
      · show ((serveSlot s x).2).rejTot.getD f 0 = 0 → _
        rw [hst]
        intro hz
        show (s.dest.modify g (fun c => writeAt c off d)).getD f [] ++ pdata (pend f (pre ++ (serveSlot s x).1 :: post)) = acc ∧
          contig ((s.dest.modify g (fun c => writeAt c off d)).getD f []).length (pend f (pre ++ (serveSlot s x).1 :: post)) acc.length
        rw [hpend_new]
        obtain ⟨d1, d2⟩ := hp.data hz
        rw [hpend_old] at d1 d2
        by_cases hgf : g = f
        · subst hgf
          have hpx : pend g (x :: post) = (off, d) :: pend g post := by
            simp only [pend, hx, hkind, if_true]
          rw [hpx] at d1 d2
          simp only [contig] at d2
          rw [getD_modify_self' _ hp.lenD, d2.1, writeAt_end']
          constructor
          · rw [← d1]; simp [pdata, List.append_assoc]
          · rw [List.length_append]; exact d2.2
        · have hpx : pend f (x :: post) = pend f post := by
            simp only [pend, hx, hkind, hgf, if_false]
          rw [hpx] at d1 d2
          rw [getD_modify_ne' _ hgf]
          exact ⟨d1, d2⟩
    · -- rejected
      have hst : (serveSlot s x).2 =
          { s with nw := s.nw + 1, rejTot := bump s.rejTot g, badSince := bumpIf x.owner.isSome s.badSince g } := by
        unfold serveSlot; simp only [hkind, hcode, if_false]
      refine ⟨?_, ?_, ?_, ?_, ?_, ?_, howned, ?_, ?_⟩
      · show f < ((serveSlot s x).2).dest.length
        rw [hst]; exact hp.lenD
      · show f < ((serveSlot s x).2).rejTot.length
        rw [hst]; simp [bump, hp.lenR]
      · show f < ((serveSlot s x).2).badSince.length
        rw [hst]; simp only [bumpIf, hxo, if_true]; simp [bump, hp.lenB]
      · show (((serveSlot s x).2).files.getD f newFile).pipelined = true
        rw [hst]; exact hp.pipe
      · show (((serveSlot s x).2).files.getD f newFile).pos = p
        rw [hst]; exact hp.posEq
      · show (((serveSlot s x).2).files.getD f newFile).closed = cl
        rw [hst]; exact hp.clo
      · show ((serveSlot s x).2).rejTot.getD f 0 = ((serveSlot s x).2).badSince.getD f 0
        rw [hst]
        simp only [bumpIf, hxo, if_true, bump]
        by_cases hgf : g = f
        · subst hgf
          rw [getD_modify_self _ hp.lenR, getD_modify_self _ hp.lenB, hp.same]
        · rw [getD_modify_ne _ hgf, getD_modify_ne _ hgf]; exact hp.same
      · show ((serveSlot s x).2).rejTot.getD f 0 = 0 → _
        rw [hst]
        simp only [bump]
        intro hz
        show s.dest.getD f [] ++ pdata (pend f (pre ++ (serveSlot s x).1 :: post)) = acc ∧
          contig (s.dest.getD f []).length (pend f (pre ++ (serveSlot s x).1 :: post)) acc.length
        rw [hpend_new]
        by_cases hgf : g = f
        · subst hgf
          rw [getD_modify_self _ hp.lenR] at hz
          omega
        · rw [getD_modify_ne _ hgf] at hz
          obtain ⟨d1, d2⟩ := hp.data hz
          rw [hpend_old] at d1 d2
          have hpx : pend f (x :: post) = pend f post := by
            simp only [pend, hx, hkind, hgf, if_false]
          rw [hpx] at d1 d2
          exact ⟨d1, d2⟩
  | sync =>
    have hst : (serveSlot s x).2 = { s with ns := s.ns + 1 } := by unfold serveSlot; simp only [hkind]
    have hpx : pend f (x :: post) = pend f post := by simp only [pend, hx, hkind]
    refine ⟨?_, ?_, ?_, ?_, ?_, ?_, howned, ?_, ?_⟩
    · show f < ((serveSlot s x).2).dest.length
      rw [hst]; exact hp.lenD
    · show f < ((serveSlot s x).2).rejTot.length
      rw [hst]; exact hp.lenR
    · show f < ((serveSlot s x).2).badSince.length
      rw [hst]; exact hp.lenB
    · show (((serveSlot s x).2).files.getD f newFile).pipelined = true
      rw [hst]; exact hp.pipe
    · show (((serveSlot s x).2).files.getD f newFile).pos = p
      rw [hst]; exact hp.posEq
    · show (((serveSlot s x).2).files.getD f newFile).closed = cl
      rw [hst]; exact hp.clo
    · show ((serveSlot s x).2).rejTot.getD f 0 = ((serveSlot s x).2).badSince.getD f 0
      rw [hst]; exact hp.same
    · show ((serveSlot s x).2).rejTot.getD f 0 = 0 → _
      rw [hst]
      intro hz
      show s.dest.getD f [] ++ pdata (pend f (pre ++ (serveSlot s x).1 :: post)) = acc ∧
        contig (s.dest.getD f []).length (pend f (pre ++ (serveSlot s x).1 :: post)) acc.length
      rw [hpend_new]
      obtain ⟨d1, d2⟩ := hp.data hz
      rw [hpend_old, hpx] at d1 d2
      exact ⟨d1, d2⟩
  | close g =>
    have hst : (serveSlot s x).2 = s := by unfold serveSlot; simp only [hkind]
    have hpx : pend f (x :: post) = pend f post := by simp only [pend, hx, hkind]
    refine ⟨?_, ?_, ?_, ?_, ?_, ?_, howned, ?_, ?_⟩
    · show f < ((serveSlot s x).2).dest.length
      rw [hst]; exact hp.lenD
    · show f < ((serveSlot s x).2).rejTot.length
      rw [hst]; exact hp.lenR
    · show f < ((serveSlot s x).2).badSince.length
      rw [hst]; exact hp.lenB
    · show (((serveSlot s x).2).files.getD f newFile).pipelined = true
      rw [hst]; exact hp.pipe
    · show (((serveSlot s x).2).files.getD f newFile).pos = p
      rw [hst]; exact hp.posEq
    · show (((serveSlot s x).2).files.getD f newFile).closed = cl
      rw [hst]; exact hp.clo
    · show ((serveSlot s x).2).rejTot.getD f 0 = ((serveSlot s x).2).badSince.getD f 0
      rw [hst]; exact hp.same
    · show ((serveSlot s x).2).rejTot.getD f 0 = 0 → _
      rw [hst]
      intro hz
      show s.dest.getD f [] ++ pdata (pend f (pre ++ (serveSlot s x).1 :: post)) = acc ∧
        contig (s.dest.getD f []).length (pend f (pre ++ (serveSlot s x).1 :: post)) acc.length
      rw [hpend_new]
      obtain ⟨d1, d2⟩ := hp.data hz
      rw [hpend_old, hpx] at d1 d2
      exact ⟨d1, d2⟩


theorem putInv_serveOne {f : Nat} {acc : Bytes} {p : Nat} {cl : Bool} {s s' : St} (hp : PutInv f acc p cl s)
    (h : serveOne s = some s') : PutInv f acc p cl s' := by
  unfold serveOne at h
  cases hs : serveWire s s.wire with
  | none => simp [hs] at h
  | some q =>
    obtain ⟨w, s1⟩ := q
    simp only [hs] at h
    cases h
    obtain ⟨pre, sl, post, h1, h2, h3, h4, h5⟩ := serveWire_spec' hs
    subst h4; subst h5
    exact putInv_serve_at hp h1 h2 h3

theorem putInv_serveMany {f : Nat} {acc : Bytes} {p : Nat} {cl : Bool} (k : Nat) {s : St} (hp : PutInv f acc p cl s) :
    PutInv f acc p cl (serveMany k s) := by
  induction k generalizing s with
  | zero => exact hp
  | succ k ih =>
    simp only [serveMany]
    cases hs : serveOne s with
    | none => exact hp
    | some s' => exact ih (putInv_serveOne hp hs)

theorem putInv_pop {f : Nat} {acc : Bytes} {p : Nat} {cl : Bool} {s : St} {x : Slot} {rest : List Slot}
    (hp : PutInv f acc p cl s) (hw : s.wire = x :: rest) (hx : x.resp ≠ none) : PutInv f acc p cl { s with wire := rest } := by
  refine ⟨hp.lenD, hp.lenR, hp.lenB, hp.pipe, hp.posEq, hp.clo, ?_, hp.same, ?_⟩
  · intro sl hsl; exact hp.owned sl (by rw [hw]; exact List.mem_cons_of_mem _ hsl)
  · intro hz
    have := hp.data hz
    rw [hw, pend_cons_served f x rest hx] at this
    exact this

theorem putInv_recvOne {f : Nat} {acc : Bytes} {p : Nat} {cl : Bool} {s s1 : St} {sl : Slot} {c : Nat} (hp : PutInv f acc p cl s)
    (h : recvOne s = some (sl, c, s1)) : PutInv f acc p cl s1 := by
  unfold recvOne at h
  cases hw : s.wire with
  | nil => simp [hw] at h
  | cons x rest =>
    simp only [hw] at h
    cases hr : x.resp with
    | some c' =>
      simp only [hr] at h
      cases h
      exact putInv_pop hp hw (by rw [hr]; simp)
    | none =>
      simp only [hr] at h
      cases h
      have h1 := putInv_serve_at (pre := []) hp hw (by simp) hr
      obtain ⟨_, _, _, c', hc'⟩ := serveSlot_slot s x
      exact putInv_pop (s := { (serveSlot s x).2 with wire := [] ++ (serveSlot s x).1 :: rest }) h1 rfl (by rw [hc']; simp)

theorem putInv_asyncResponse {f : Nat} {acc : Bytes} {p : Nat} {cl : Bool} {s : St} (g num c : Nat) (hp : PutInv f acc p cl s) :
    PutInv f acc p cl (asyncResponse s g num c) :=
  putInv_frame hp rfl rfl rfl rfl (pipelined_setFile (fun _ => ⟨rfl, rfl, rfl⟩))

theorem putInv_expDel {f : Nat} {acc : Bytes} {p : Nat} {cl : Bool} {s : St} (num : Nat) (hp : PutInv f acc p cl s) :
    PutInv f acc p cl (expDel s num) :=
  putInv_frame hp rfl rfl rfl rfl ⟨rfl, rfl, rfl⟩

theorem putInv_readResponse {f : Nat} {acc : Bytes} {p : Nat} {cl : Bool} : ∀ (fuel : Nat) (s : St) (wf : Option Nat),
    PutInv f acc p cl s → PutInv f acc p cl (readResponse fuel s wf).1 := by
  intro fuel
  induction fuel with
  | zero => intro s wf hp; exact hp
  | succ fuel ih =>
    intro s wf hp
    unfold readResponse
    cases hr : recvOne s with
    | none => exact hp
    | some q =>
      obtain ⟨sl, c, s1⟩ := q
      simp only
      have h1 := putInv_recvOne hp hr
      cases ho : expOwner s1 sl.num with
      | none =>
        simp only
        cases wf with
        | none => exact h1
        | some n => exact ih s1 (some n) h1
      | some owner =>
        simp only
        have h2 := putInv_expDel sl.num h1
        split
        · exact h2
        · cases owner with
          | none =>
            simp only
            cases wf with
            | none => exact h2
            | some n => exact ih _ (some n) h2
          | some g =>
            simp only
            have h3 := putInv_asyncResponse g sl.num c h2
            cases wf with
            | none => exact h3
            | some n => exact ih _ (some n) h3

/-- sending a request that is not a write of `f` -/
theorem putInv_asyncRequest_other {f : Nat} {acc : Bytes} {p : Nat} {cl : Bool} {s : St} (owner : Option Nat) (kind : Kind)
    (hk : ∀ g off d, kind ≠ .write g off d) (hp : PutInv f acc p cl s) : PutInv f acc p cl (asyncRequest s owner kind).1 := by
  have hpend : pend f (s.wire ++ [⟨s.nextNum, owner, kind, none⟩]) = pend f s.wire := by
    rw [pend_append]
    have : pend f [⟨s.nextNum, owner, kind, none⟩] = [] := by
      simp only [pend]
      cases kind with
      | write g off d => exact absurd rfl (hk g off d)
      | sync => rfl
      | close g => rfl
    rw [this]; simp
  refine ⟨hp.lenD, hp.lenR, hp.lenB, hp.pipe, hp.posEq, hp.clo, ?_, hp.same, ?_⟩
  · intro sl hsl g off d hkd
    have hsl' : sl ∈ s.wire ++ [⟨s.nextNum, owner, kind, none⟩] := hsl
    rcases List.mem_append.mp hsl' with h | h
    · exact hp.owned sl h g off d hkd
    · simp at h; subst h; exact absurd hkd (hk g off d)
  · intro hz
    show s.dest.getD f [] ++ pdata (pend f (s.wire ++ [⟨s.nextNum, owner, kind, none⟩])) = acc ∧
      contig (s.dest.getD f []).length (pend f (s.wire ++ [⟨s.nextNum, owner, kind, none⟩])) acc.length
    rw [hpend]; exact hp.data hz

/-- sending the next pipelined write of `f` at the current position -/
theorem putInv_asyncRequest_write {f : Nat} {acc : Bytes} {cl : Bool} {s : St} (d : Bytes)
    (hp : PutInv f acc acc.length cl s) :
    PutInv f (acc ++ d) acc.length cl (asyncRequest s (some f) (.write f acc.length d)).1 := by
  have hpend : pend f (s.wire ++ [⟨s.nextNum, some f, .write f acc.length d, none⟩]) = pend f s.wire ++ [(acc.length, d)] := by
    rw [pend_append]
    simp [pend]
  refine ⟨hp.lenD, hp.lenR, hp.lenB, hp.pipe, hp.posEq, hp.clo, ?_, hp.same, ?_⟩
  · intro sl hsl g off d' hkd
    have hsl' : sl ∈ s.wire ++ [⟨s.nextNum, some f, .write f acc.length d, none⟩] := hsl
    rcases List.mem_append.mp hsl' with h | h
    · exact hp.owned sl h g off d' hkd
    · simp at h; subst h; rfl
  · intro hz
    show s.dest.getD f [] ++ pdata (pend f (s.wire ++ [⟨s.nextNum, some f, .write f acc.length d, none⟩])) = acc ++ d ∧
      contig (s.dest.getD f []).length (pend f (s.wire ++ [⟨s.nextNum, some f, .write f acc.length d, none⟩])) (acc ++ d).length
    rw [hpend]
    obtain ⟨d1, d2⟩ := hp.data hz
    constructor
    · rw [pdata_append, ← List.append_assoc, d1]; simp [pdata]
    · rw [List.length_append]; exact contig_snoc d d2

theorem putInv_request {f : Nat} {acc : Bytes} {p : Nat} {cl : Bool} {s : St} (kind : Kind)
    (hk : ∀ g off d, kind ≠ .write g off d) (hp : PutInv f acc p cl s) : PutInv f acc p cl (request s kind).1 := by
  unfold request
  exact putInv_readResponse _ _ _ (putInv_asyncRequest_other none kind hk hp)

theorem putInv_checkException {f : Nat} {acc : Bytes} {p : Nat} {cl : Bool} {s : St} (g : Nat) (hp : PutInv f acc p cl s) :
    PutInv f acc p cl (checkException s g).1 := by
  unfold checkException
  split
  · exact hp
  · exact putInv_frame hp rfl rfl rfl rfl (pipelined_setFile (fun _ => ⟨rfl, rfl, rfl⟩))

theorem putInv_finishResponses {f : Nat} {acc : Bytes} {p : Nat} {cl : Bool} : ∀ (fuel : Nat) (s : St) (g : Nat),
    PutInv f acc p cl s → PutInv f acc p cl (finishResponses fuel s g).1 := by
  intro fuel
  induction fuel with
  | zero => intro s g hp; exact hp
  | succ fuel ih =>
    intro s g hp
    unfold finishResponses
    split
    · have h1 := putInv_readResponse (f := f) (acc := acc) (p := p) 1 s none hp
      generalize readResponse 1 s none = rr at h1
      obtain ⟨s1, r1⟩ := rr
      cases r1 with
      | ok =>
        simp only
        have h2 := putInv_checkException g h1
        generalize checkException s1 g = cc at h2
        obtain ⟨s2, r2⟩ := cc
        cases r2 with
        | ok => exact ih s2 g h2
        | raised c => exact h2
        | hang => exact h2
      | raised c => exact h1
      | hang => exact h1
    · exact hp

theorem putInv_drainCheck {f : Nat} {acc : Bytes} {p : Nat} {cl : Bool} {s : St} (g : Nat) (hp : PutInv f acc p cl s) :
    PutInv f acc p cl (drainCheck s g).1 := by
  unfold drainCheck
  have h1 := putInv_finishResponses (f := f) (acc := acc) (p := p) (fuelOf s) s g hp
  generalize finishResponses (fuelOf s) s g = rr at h1
  obtain ⟨a, r⟩ := rr
  cases r with
  | ok => exact putInv_checkException g h1
  | raised c => exact h1
  | hang => exact h1


/-! ## writes, close, whole transfer -/

theorem putInv_writeChunk {f : Nat} {acc : Bytes} {s : St} (chunk : Bytes) (hp : PutInv f acc acc.length false s) :
    PutInv f (acc ++ chunk) acc.length false (writeChunk s f chunk).1 := by
  unfold writeChunk
  simp only [hp.pipe, Bool.not_true, Bool.false_eq_true, if_false, hp.posEq]
  have h1 := putInv_asyncRequest_write chunk hp
  have h2 : PutInv f (acc ++ chunk) acc.length false
      (setFile (asyncRequest s (some f) (.write f acc.length chunk)).1 f
        (fun x => { x with reqs := x.reqs ++ [(asyncRequest s (some f) (.write f acc.length chunk)).2] })) :=
    putInv_frame h1 rfl rfl rfl rfl (pipelined_setFile (fun _ => ⟨rfl, rfl, rfl⟩))
  split
  · exact putInv_finishResponses _ _ _ h2
  · exact h2

theorem putInv_setPos {f : Nat} {acc : Bytes} {p : Nat} {cl : Bool} {s : St} (n : Nat) (hp : PutInv f acc p cl s)
    (hf : f < s.files.length) : PutInv f acc (p + n) cl (setFile s f (fun x => { x with pos := x.pos + n })) := by
  have hg : getFile (setFile s f (fun x => { x with pos := x.pos + n })) f =
      { getFile s f with pos := (getFile s f).pos + n } := getFile_setFile_self hf
  refine ⟨hp.lenD, hp.lenR, hp.lenB, ?_, ?_, ?_, hp.owned, hp.same, hp.data⟩
  · rw [hg]; exact hp.pipe
  · rw [hg]; show (getFile s f).pos + n = p + n; rw [hp.posEq]
  · rw [hg]; exact hp.clo

theorem putInv_writeAll {f : Nat} : ∀ (fuel : Nat) (s : St) (data acc : Bytes), Good none none s →
    f < s.files.length → PutInv f acc acc.length false s → 0 < s.maxReq → data.length < fuel →
    (writeAll fuel s f data).2 = .ok →
    PutInv f (acc ++ data) (acc ++ data).length false (writeAll fuel s f data).1 := by
  intro fuel
  induction fuel with
  | zero => intro s data acc _ _ _ _ h; omega
  | succ fuel ih =>
    intro s data acc hg hf hp hm hlen hok
    unfold writeAll at hok ⊢
    by_cases he : data.isEmpty = true
    · simp only [he, if_true]
      have : data = [] := List.isEmpty_iff.mp he
      subst this
      simpa using hp
    · simp only [he, Bool.false_eq_true, if_false] at hok ⊢
      have hne : data ≠ [] := by intro hc; subst hc; simp at he
      have hdl : 0 < data.length := List.length_pos_iff.mpr hne
      have hn : 0 < min data.length s.maxReq := by omega
      obtain ⟨a, b, c, d, e⟩ := writeChunk_good (data.take (min data.length s.maxReq)) hg hf
      have hpc := putInv_writeChunk (data.take (min data.length s.maxReq)) hp
      generalize hcc : writeChunk s f (data.take (min data.length s.maxReq)) = cc at a b c d e hpc hok
      obtain ⟨s1, r⟩ := cc
      simp only at a b c d e hpc hok ⊢
      cases r with
      | hang => exact absurd rfl a
      | raised code => simp at hok
      | ok =>
        simp only at hok ⊢
        have hg1 := b rfl
        have hf1 : f < s1.files.length := by rw [d]; exact hf
        have htl : (data.take (min data.length s.maxReq)).length = min data.length s.maxReq := by
          rw [List.length_take]; omega
        have hp2 := putInv_setPos (min data.length s.maxReq) hpc hf1
        have hlen2 : acc.length + min data.length s.maxReq = (acc ++ data.take (min data.length s.maxReq)).length := by
          rw [List.length_append, htl]
        rw [hlen2] at hp2
        have hg2 : Good none none (setFile s1 f (fun x => { x with pos := x.pos + min data.length s.maxReq })) :=
          good_setFile f _ (fun x => ⟨rfl, rfl⟩) hg1
        have := ih _ (data.drop (min data.length s.maxReq)) _ hg2
          (by rw [files_setFile_length]; exact hf1) hp2 (by show 0 < s1.maxReq; rw [e]; exact hm)
          (by rw [List.length_drop]; omega) hok
        rw [List.append_assoc, List.take_append_drop] at this
        exact this

theorem putInv_closeFile {f : Nat} {acc : Bytes} {p : Nat} {s : St} (hp : PutInv f acc p false s)
    (hf : f < s.files.length) : PutInv f acc p true (closeFile s f).1 := by
  unfold closeFile
  simp only [hp.clo, Bool.false_eq_true, if_false]
  have hg : getFile (setFile s f (fun x => { x with closed := true })) f = { getFile s f with closed := true } :=
    getFile_setFile_self hf
  have h0 : PutInv f acc p true (setFile s f (fun x => { x with closed := true })) := by
    refine ⟨hp.lenD, hp.lenR, hp.lenB, ?_, ?_, ?_, hp.owned, hp.same, hp.data⟩
    · rw [hg]; exact hp.pipe
    · rw [hg]; exact hp.posEq
    · rw [hg]
  have h1 : PutInv f acc p true
      (if ((getFile s f).pipelined || decide ((getFile s f).reqs.length > 0)) = true then
        (match finishResponses (fuelOf (setFile s f (fun x => { x with closed := true })))
            (setFile s f (fun x => { x with closed := true })) f with
          | (a, .ok) => checkException a f
          | r => r)
      else checkException (setFile s f (fun x => { x with closed := true })) f).1 := by
    split
    · exact putInv_drainCheck f h0
    · exact putInv_checkException f h0
  generalize (if ((getFile s f).pipelined || decide ((getFile s f).reqs.length > 0)) = true then
        (match finishResponses (fuelOf (setFile s f (fun x => { x with closed := true })))
            (setFile s f (fun x => { x with closed := true })) f with
          | (a, .ok) => checkException a f
          | r => r)
      else checkException (setFile s f (fun x => { x with closed := true })) f) = pp at h1
  obtain ⟨s1, pending⟩ := pp
  simp only at h1 ⊢
  have h2 := putInv_request (.close f) (by intro g off d hc; cases hc) h1
  cases pending with
  | hang => exact h1
  | ok =>
    simp only
    generalize request s1 (.close f) = qq at h2
    obtain ⟨s2, r2⟩ := qq
    cases r2 <;> exact h2
  | raised c =>
    simp only
    generalize request s1 (.close f) = qq at h2
    obtain ⟨s2, r2⟩ := qq
    cases r2 <;> exact h2

/-- the operations `putfo` performs between `set_pipelined(True)` and `close()`: writes of the chunks it read, in
    order; the server may run at any time -/
def PutOp (f : Nat) : Op → Prop
  | .write g _ => g = f
  | .serve _ => True
  | _ => False

def written : List Op → Bytes
  | [] => []
  | .write _ d :: rest => d ++ written rest
  | _ :: rest => written rest

theorem putOp_opOK {f n : Nat} {op : Op} (hf : f < n) (h : PutOp f op) : OpOK n op := by
  cases op with
  | write g d => simp only [PutOp] at h; subst h; exact hf
  | serve k => trivial
  | sync => cases h
  | close g => cases h
  | setPipelined g b => cases h
  | deliver k => cases h

theorem body_run {f : Nat} : ∀ (body : List Op) (s : St) (acc : Bytes), Good none none s → f < s.files.length →
    0 < s.maxReq → PutInv f acc acc.length false s → (∀ op ∈ body, PutOp f op) →
    (∀ r ∈ (runOps s body).2, r = .ok) →
    Good none none (runOps s body).1 ∧ f < (runOps s body).1.files.length ∧
    PutInv f (acc ++ written body) (acc ++ written body).length false (runOps s body).1 := by
  intro body
  induction body with
  | nil => intro s acc hg hf _ hp _ _; simp only [runOps, written, List.append_nil]; exact ⟨hg, hf, hp⟩
  | cons op body ih =>
    intro s acc hg hf hm hp hops hres
    have hop := hops op (List.mem_cons_self ..)
    obtain ⟨_, g1, g2, g3⟩ := stepOp_good hg (putOp_opOK hf hop)
    simp only [runOps] at hres ⊢
    have hr0 : (stepOp s op).2 = .ok := hres _ (List.mem_cons_self ..)
    have hrest : ∀ r ∈ (runOps (stepOp s op).1 body).2, r = .ok :=
      fun r hr => hres r (List.mem_cons_of_mem _ hr)
    cases op with
    | write g d =>
      simp only [PutOp] at hop
      subst hop
      simp only [written]
      have hstep : PutInv g (acc ++ d) (acc ++ d).length false (stepOp s (.write g d)).1 := by
        simp only [stepOp, hp.clo, Bool.false_eq_true, if_false] at hr0 ⊢
        have hw := putInv_writeAll (d.length + 1) s d acc hg hf hp hm (Nat.lt_succ_self _) hr0
        rw [hr0]
        exact hw
      have := ih _ (acc ++ d) g1 (by rw [g2]; exact hf) (by rw [g3]; exact hm) hstep
        (fun o ho => hops o (List.mem_cons_of_mem _ ho)) hrest
      rw [List.append_assoc] at this
      exact this
    | serve k =>
      simp only [written]
      have hstep : PutInv f acc acc.length false (stepOp s (.serve k)).1 := putInv_serveMany k hp
      exact ih _ acc g1 (by rw [g2]; exact hf) (by rw [g3]; exact hm) hstep
        (fun o ho => hops o (List.mem_cons_of_mem _ ho)) hrest
    | sync => cases hop
    | close g => cases hop
    | setPipelined g b => cases hop
    | deliver k => cases hop

theorem pend_nil_of {f : Nat} {w : List Slot} (h : ∀ sl ∈ w, ∀ off d, sl.kind ≠ .write f off d) : pend f w = [] := by
  induction w with
  | nil => rfl
  | cons x xs ih =>
    simp only [pend]
    have hx := h x (by simp)
    have hxs := ih (fun sl hsl => h sl (List.mem_cons_of_mem _ hsl))
    split
    · rename_i g off d _ hk
      split
      · rename_i hgf; subst hgf; exact absurd hk (hx off d)
      · exact hxs
    · exact hxs

end PV.SftpClient
