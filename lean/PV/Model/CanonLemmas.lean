/-
  Helper lemmas for PV.Model.Canon (property theorems: PV/Props/C34.lean).
-/
import PV.Model.Canon
namespace PV.Canon
open PV

/-! ### split / join -/

theorem go_no_slash (cs acc : Bytes) (h : slash ∉ acc) : ∀ c ∈ splitSlash.go cs acc, slash ∉ c := by
  induction cs generalizing acc with
  | nil =>
    intro c hc
    simp only [splitSlash.go, List.mem_singleton] at hc
    subst hc
    simpa using h
  | cons x xs ih =>
    intro c hc
    simp only [splitSlash.go] at hc
    by_cases hx : x = slash
    · simp only [hx, if_true, List.mem_cons] at hc
      rcases hc with hc | hc
      · subst hc; simpa using h
      · exact ih [] (by simp) c hc
    · simp only [hx, if_false] at hc
      refine ih (x :: acc) ?_ c hc
      intro hm
      simp only [List.mem_cons] at hm
      rcases hm with hm | hm
      · exact hx hm.symm
      · exact h hm

theorem split_no_slash (s : Bytes) : ∀ c ∈ splitSlash s, slash ∉ c :=
  go_no_slash s [] (by simp)

theorem go_append_slash (a b acc : Bytes) :
    splitSlash.go (a ++ slash :: b) acc = splitSlash.go a acc ++ splitSlash.go b [] := by
  induction a generalizing acc with
  | nil => simp [splitSlash.go]
  | cons c cs ih =>
    by_cases hc : c = slash
    · simp [splitSlash.go, hc, ih]
    · simp [splitSlash.go, hc, ih]

/-- splitting at a separator splits the component list -/
theorem split_append_slash (a b : Bytes) :
    splitSlash (a ++ slash :: b) = splitSlash a ++ splitSlash b := by
  simp [splitSlash, go_append_slash]

theorem go_noslash_append (a tail acc : Bytes) (ha : slash ∉ a) :
    splitSlash.go (a ++ tail) acc = splitSlash.go tail (a.reverse ++ acc) := by
  induction a generalizing acc with
  | nil => rfl
  | cons c cs ih =>
    have hc : c ≠ slash := by intro h; exact ha (by simp [h])
    have hcs : slash ∉ cs := by intro h; exact ha (by simp [h])
    simp only [List.cons_append, splitSlash.go, hc, if_false]
    rw [ih (c :: acc) hcs]
    simp

theorem split_noslash (a : Bytes) (ha : slash ∉ a) : splitSlash a = [a] := by
  have := go_noslash_append a [] [] ha
  simp only [List.append_nil] at this
  simp [splitSlash, this, splitSlash.go]

theorem split_join (l : List Bytes) (hne : l ≠ []) (hl : ∀ x ∈ l, slash ∉ x) :
    splitSlash (joinSlash l) = l := by
  induction l with
  | nil => exact absurd rfl hne
  | cons a r ih =>
    cases r with
    | nil => simpa [joinSlash] using split_noslash a (hl a (by simp))
    | cons b r' =>
      have hj : joinSlash (a :: b :: r') = a ++ slash :: joinSlash (b :: r') := rfl
      rw [hj, split_append_slash, split_noslash a (hl a (by simp)),
        ih (by simp) (fun x hx => hl x (by simp [hx]))]
      rfl

/-! ### the normpath loop on a rooted path keeps only proper names -/

theorem normStep_proper (stack : List Bytes) (comp : Bytes) (hs : ∀ c ∈ stack, Proper c)
    (hc : slash ∉ comp) : ∀ c ∈ normStep true stack comp, Proper c := by
  unfold normStep
  by_cases h1 : comp = [] ∨ comp = dot
  · simp only [h1, if_true]; exact hs
  · simp only [h1, if_false]
    have hhead : stack.head? ≠ some dotdot := by
      intro hh
      cases stack with
      | nil => simp at hh
      | cons x xs =>
        simp only [List.head?_cons, Option.some.injEq] at hh
        exact (hs x (by simp)).2.2.1 hh
    by_cases h2 : comp = dotdot
    · have : ¬ (comp ≠ dotdot ∨ (true = false ∧ stack = []) ∨ stack.head? = some dotdot) := by
        simp [h2, hhead]
      simp only [this, if_false]
      intro c hcm
      exact hs c (List.mem_of_mem_tail hcm)
    · have : (comp ≠ dotdot ∨ (true = false ∧ stack = []) ∨ stack.head? = some dotdot) := Or.inl h2
      simp only [this, if_true]
      intro c hcm
      simp only [List.mem_cons] at hcm
      rcases hcm with hcm | hcm
      · subst hcm
        exact ⟨fun e => h1 (Or.inl e), fun e => h1 (Or.inr e), h2, hc⟩
      · exact hs c hcm

theorem fold_proper (comps : List Bytes) (stack : List Bytes) (hs : ∀ c ∈ stack, Proper c)
    (hc : ∀ c ∈ comps, slash ∉ c) : ∀ c ∈ comps.foldl (normStep true) stack, Proper c := by
  induction comps generalizing stack with
  | nil => simpa using hs
  | cons x xs ih =>
    simp only [List.foldl_cons]
    exact ih _ (normStep_proper stack x hs (hc x (by simp))) (fun c h => hc c (by simp [h]))

/-! ### splitroot of an absolute path -/

theorem splitroot_abs (r : Bytes) :
    ((splitroot (slash :: r)).1 = [slash] ∨ (splitroot (slash :: r)).1 = [slash, slash]) := by
  unfold splitroot
  simp only [ne_eq, not_true_eq_false, if_false]
  cases r with
  | nil => simp
  | cons d r2 =>
    by_cases hd : d = slash
    · simp only [hd, not_true_eq_false, if_false]
      cases r2 with
      | nil => simp
      | cons e r3 => by_cases he : e = slash <;> simp [he]
    · simp [hd]

/-- `//` is kept exactly for two (not three) leading slashes -/
theorem splitroot_double (r : Bytes) :
    (splitroot (slash :: r)).1 = [slash, slash] ↔
      (r.head? = some slash ∧ r.tail.head? ≠ some slash) := by
  unfold splitroot
  simp only [ne_eq, not_true_eq_false, if_false]
  cases r with
  | nil => simp
  | cons d r2 =>
    by_cases hd : d = slash
    · simp only [hd, not_true_eq_false, if_false]
      cases r2 with
      | nil => simp
      | cons e r3 => by_cases he : e = slash <;> simp [he]
    · have hd' : ¬ d = (47 : UInt8) := hd
      simp [hd', slash]

/-- the normal form of an absolute path -/
theorem normpath_abs (r : Bytes) :
    ∃ comps, normpath (slash :: r) = (splitroot (slash :: r)).1 ++ joinSlash comps ∧
      ∀ c ∈ comps, Proper c := by
  have hroot := splitroot_abs r
  have hne : (splitroot (slash :: r)).1 ≠ [] := by
    rcases hroot with h | h <;> rw [h] <;> simp
  refine ⟨((splitSlash (splitroot (slash :: r)).2).foldl (normStep true) []).reverse, ?_, ?_⟩
  · unfold normpath
    simp only [List.cons_ne_nil, if_false]
    have hb : (decide ((splitroot (slash :: r)).1 ≠ [])) = true := by simp [hne]
    simp only [hb]
    have hout : ¬ ((splitroot (slash :: r)).1 ++
        joinSlash ((splitSlash (splitroot (slash :: r)).2).foldl (normStep true) []).reverse = []) := by
      simp [hne]
    simp only [hout, if_false]
  · intro c hc
    rw [List.mem_reverse] at hc
    exact fold_proper _ [] (by simp) (split_no_slash _) c hc

/-! ### walks -/

theorem descend_proper (comps : List Bytes) (h : ∀ c ∈ comps, Proper c) (d : Nat) :
    descend d comps = some (d + comps.length) := by
  induction comps generalizing d with
  | nil => simp [descend]
  | cons c r ih =>
    have hc := h c (by simp)
    have h1 : ¬ (c = [] ∨ c = dot) := by
      intro e; rcases e with e | e
      · exact hc.1 e
      · exact hc.2.1 e
    simp only [descend, h1, if_false, hc.2.2.1]
    rw [ih (fun x hx => h x (by simp [hx]))]
    simp [Nat.add_assoc, Nat.add_comm 1]

theorem descend_nil_cons (d : Nat) (r : List Bytes) : descend d ([] :: r) = descend d r := by
  simp [descend]

end PV.Canon

namespace PV.Canon
open PV

/-! ### re-normalising a normal form -/

theorem normStep_push (stack : List Bytes) (c : Bytes) (hc : Proper c) :
    normStep true stack c = c :: stack := by
  unfold normStep
  have h1 : ¬ (c = [] ∨ c = dot) := fun e => e.elim hc.1 hc.2.1
  have h2 : (c ≠ dotdot ∨ (true = false ∧ stack = []) ∨ stack.head? = some dotdot) := Or.inl hc.2.2.1
  simp only [h1, h2, if_false, if_true]

theorem fold_push (comps stack : List Bytes) (h : ∀ c ∈ comps, Proper c) :
    comps.foldl (normStep true) stack = comps.reverse ++ stack := by
  induction comps generalizing stack with
  | nil => rfl
  | cons c r ih =>
    simp only [List.foldl_cons, normStep_push stack c (h c (by simp))]
    rw [ih (c :: stack) (fun x hx => h x (by simp [hx]))]
    simp

/-- a join of proper names does not start with a slash -/
theorem join_head (comps : List Bytes) (h : ∀ c ∈ comps, Proper c) :
    (joinSlash comps).head? ≠ some slash := by
  cases comps with
  | nil => simp [joinSlash]
  | cons c r =>
    have hc := h c (by simp)
    cases c with
    | nil => exact absurd rfl hc.1
    | cons x xs =>
      have hx : x ≠ slash := fun e => hc.2.2.2 (by simp [e])
      cases r <;> simp [joinSlash, hx]

theorem splitroot_single (t : Bytes) (ht : t.head? ≠ some slash) :
    splitroot (slash :: t) = ([slash], t) := by
  unfold splitroot
  simp only [ne_eq, not_true_eq_false, if_false]
  cases t with
  | nil => rfl
  | cons d r =>
    have hd : d ≠ slash := by simpa using ht
    simp [hd]

theorem splitroot_two (t : Bytes) (ht : t.head? ≠ some slash) :
    splitroot (slash :: slash :: t) = ([slash, slash], t) := by
  unfold splitroot
  simp only [ne_eq, not_true_eq_false, if_false]
  cases t with
  | nil => rfl
  | cons e r =>
    have he : e ≠ slash := by simpa using ht
    simp [he]

/-- normalising a normal form changes nothing -/
theorem normpath_normal (root : Bytes) (comps : List Bytes) (hroot : root = [slash] ∨ root = [slash, slash])
    (h : ∀ c ∈ comps, Proper c) :
    normpath (root ++ joinSlash comps) = root ++ joinSlash comps := by
  have hj := join_head comps h
  have hsr : splitroot (root ++ joinSlash comps) = (root, joinSlash comps) := by
    rcases hroot with e | e <;> subst e
    · exact splitroot_single _ hj
    · exact splitroot_two _ hj
  have hne : root ++ joinSlash comps ≠ [] := by rcases hroot with e | e <;> subst e <;> simp
  have hrne : root ≠ [] := by rcases hroot with e | e <;> subst e <;> simp
  unfold normpath
  simp only [hne, if_false, hsr]
  have hb : (decide (root ≠ [])) = true := by simp [hrne]
  simp only [hb]
  have hfold : (splitSlash (joinSlash comps)).foldl (normStep true) [] = comps.reverse := by
    by_cases hc : comps = []
    · subst hc; simp [joinSlash, splitSlash, splitSlash.go, normStep]
    · rw [split_join comps hc (fun x hx => (h x hx).2.2.2), fold_push comps [] h]; simp
  rw [hfold, List.reverse_reverse]
  simp [hne]

end PV.Canon
