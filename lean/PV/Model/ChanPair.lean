/-
  PV.Model.ChanPair — two `Channel` objects back to back: side `a`, side `b`, and the two directed links
  between them (FIFO lists of messages in flight; the transports deliver in order).

  A message a side writes (`emit`) is appended to its outgoing link; `deliver` hands the head of a link to the
  other side's handler (`_feed`, `_feed_extended`, `_window_adjust`, `_handle_eof`, `_handle_close`), unless that
  side's channel has already been removed from its transport's map (then the transport ignores the message).
  The type code of an EXTENDED_DATA message is chosen at delivery (`code`): flow control on the sending side
  never looks at it, so this covers peers that send extended data of any type.
-/
import PV.Model.ChanWindow
namespace PV.ChanPair
open PV.Chan

structure Sys where
  a  : St
  b  : St
  ab : List Msg     -- written by a, not yet handled by b
  ba : List Msg
  deriving Repr

/-- actions an application thread (or teardown) takes on its own channel object; peer messages only arrive
    through `deliver` -/
def localAct : Act → Bool
  | .feed _ => false
  | .feedExt _ _ _ => false
  | .adjust _ => false
  | .peerEof => false
  | .peerClose _ => false
  | .requestFailed _ => false
  | .emitFail _ => false      -- the two-sided model assumes transports that do not drop messages
  | _ => true

inductive PAct where
  | left (x : Act)
  | right (x : Act)
  | deliverAB (t code : Nat)     -- b's transport thread `t` handles the next message from a
  | deliverBA (t code : Nat)
  deriving Repr

/-- the handler call for one incoming message -/
def handlerAct (t code : Nat) : Msg → Act
  | .data n => .feed n
  | .ext n => .feedExt t code n
  | .adjust n => .adjust n
  | .eof => .peerEof
  | .close => .peerClose t

/-- one side executes `x`; whatever it wrote is appended to its outgoing link -/
def sideStep (cfg : Cfg) (s : St) (out : List Msg) (x : Act) : St × List Msg :=
  let s' := step cfg s x
  (s', out ++ s'.wire.drop s.wire.length)

/-- the transport thread `t` of the receiving side (idle: it handles one message at a time) runs the handler;
    a channel already removed from the transport's map no longer sees the message -/
def deliverTo (cfg : Cfg) (s : St) (t code : Nat) (m : Msg) : St :=
  if s.linked then step cfg s (handlerAct t code m) else s

def pstep (cfg : Cfg) (y : Sys) : PAct → Sys
  | .left x =>
    if localAct x then
      let r := sideStep cfg y.a y.ab x
      { y with a := r.1, ab := r.2 }
    else y
  | .right x =>
    if localAct x then
      let r := sideStep cfg y.b y.ba x
      { y with b := r.1, ba := r.2 }
    else y
  | .deliverAB t code =>
    match y.ab with
    | [] => y
    | m :: rest => if idleOf y.b t then { y with b := deliverTo cfg y.b t code m, ab := rest } else y
  | .deliverBA t code =>
    match y.ba with
    | [] => y
    | m :: rest => if idleOf y.a t then { y with a := deliverTo cfg y.a t code m, ba := rest } else y

def prun (cfg : Cfg) (y : Sys) (as : List PAct) : Sys := as.foldl (pstep cfg) y

/-- both ends opened with the sizes they advertised to each other -/
def initPair (winA maxA winB maxB nthr : Nat) : Sys :=
  { a := init winA winB maxB nthr false, b := init winB winA maxA nthr false, ab := [], ba := [] }

/-- credits of the a→b direction, wherever they currently are -/
def credits (y : Sys) : Nat :=
  y.a.outWin + heldDataAll y.a.thr + dataSum y.ab +
  y.b.inBuf + y.b.errBuf + heldAdjAll y.b.thr + y.b.inSofar + adjSum y.ba

end PV.ChanPair
